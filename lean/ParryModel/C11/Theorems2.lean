import ParryModel.Field
import ParryModel.C11.Lemmas
/-!
# C11, `scaled`: the derived data — in particular the QBVH — after `TriMesh::scaled`

Two layers.

* **State machine** (any vertex type, any geometry): `scaled` (with `fixes/C11-scaled-pseudo-normals.diff`) preserves
  `Coherent`, `QCoherent`, well-formedness and `CleanBad`; histories that also contain `scaled` (`Op2`, `run2`) end in
  coherent states whose QBVH is, leaf for leaf, the one of the current triangles.  The QBVH statement is *literal*:
  `Qbvh::scaled` does not rebuild, it applies `Aabb::scaled` (`sbox`) to every stored box; the theorem says that doing so
  to the leaves of a coherent tree yields exactly the boxes of the scaled triangles, **provided** `sbox (box c) =
  box (scaled c)` (`ScaleBoxLaw`).
* **Closed form** (any linearly ordered field): `ScaleBoxLaw` holds for the real `Aabb::scaled` and
  `Triangle::local_aabb`, for **every** sign of the scale components (`aabbScaled3_triBox3`, `aabbScaled2_triBox2`) —
  `Aabb::scaled` re-sorts the bounds, so a mirrored box is the box of the mirrored triangle; `Aabb::scaled` commutes with
  `Aabb::merged` on proper boxes, so the root box and every inner box of the scaled tree are still the merge of what is
  below them (`aabbScaled3_merged`, `aabbScaled3_root`); every vertex of the scaled triangle lies in the scaled leaf box
  (`scaled_leaf_contains_vertices3`).  Scaling the boxes by `|scale|` instead loses the triangle
  (`abs_scale_loses_triangle`).

`scaledW` is `scaled` as written on the current tree (cached pseudo-normals multiplied by the scale and normalised): it
is refuted by two decided witnesses (mirroring scale, non-uniform scale) and proved coherent when no pseudo-normal is
cached.
-/
namespace C11
open Model Model.TM

variable {V N : Type}

/-! ## the state machine -/

private theorem allCoords_mapTri (fV : V → V) (vs : List V) (idx : List Tri) :
    allCoords (vs.map fV) idx = (allCoords vs idx).map (List.map (mapTri fV)) :=
  allCoords_map fV vs idx

private theorem computePN_none_iff [Geo V N] (vs : List V) (idx : List Tri) :
    (computePN vs idx : Option (PN N)) = none ↔ allCoords vs idx = none := by
  unfold computePN
  cases allCoords vs idx <;> simp

/-- what `reverse` does to each field -/
theorem reverse_spec_full [Geo V N] {dim3 : Bool} {s s' : Mesh V N} (h : reverse dim3 s = some s') :
    s'.vertices = s.vertices ∧ s'.indices = revIdx s.indices ∧ s'.flags = s.flags ∧
    s'.topology = (if s.flags.topoFamily then topoOf s.vertices.length (revIdx s.indices) else s.topology) ∧
    s'.cc = s.cc ∧ s'.qbvh = s.qbvh ∧ s'.pn = (if dim3 then s.pn.map (negPN (V := V) · true) else s.pn) := by
  unfold reverse retopo at h
  cases dim3 <;> simp only [Bool.false_eq_true, if_false, if_true] at h ⊢ <;>
  · split at h
    · rename_i htf
      split at h
      · cases h
      · rename_i s3 r hts
        cases h
        obtain ⟨ev, ei, e2, e3, ef, et, eq⟩ := topoStep_spec hts
        simp only [if_false, Bool.false_eq_true] at ev ei e2 e3 ef et eq htf
        refine ⟨ev, ei, ef, ?_, e2, eq, e3⟩
        rw [et, ev, ei, if_pos htf]
    · rename_i htf
      cases h
      simp_all

/-- the branch condition of the `reverse()` inside `scaled` (commit 1a6b99a) -/
def rewinds (dim3 mirror : Bool) (f : Flags) : Bool := dim3 && f.oriented && mirror

theorem rewind_spec [Geo V N] {dim3 mirror : Bool} {s s' : Mesh V N} (h : rewind dim3 mirror s = some s') :
    s'.vertices = s.vertices ∧ s'.indices = (if rewinds dim3 mirror s.flags then revIdx s.indices else s.indices) ∧
    s'.flags = s.flags ∧
    s'.topology = (if rewinds dim3 mirror s.flags && s.flags.topoFamily then topoOf s.vertices.length (revIdx s.indices)
      else s.topology) ∧
    s'.cc = s.cc ∧ s'.qbvh = s.qbvh ∧ s'.pn.isSome = s.pn.isSome ∧ (dim3 = false → s'.pn = s.pn) := by
  unfold rewind at h
  unfold rewinds
  by_cases hm : (dim3 && s.flags.oriented && mirror) = true
  · simp only [hm, if_true] at h ⊢
    obtain ⟨a, b, c, d, e, f, g⟩ := reverse_spec_full h
    refine ⟨a, b, c, ?_, e, f, ?_, ?_⟩
    · rw [d]; simp
    · rw [g]; cases dim3 <;> simp
    · intro hd; subst hd; simp at hm
  · simp only [hm] at h ⊢
    simp only [Bool.false_eq_true, if_false, Option.some.injEq, Bool.false_and] at h ⊢
    subst h
    simp

theorem repn_spec [Geo V N] {dim3 : Bool} {s s' : Mesh V N} (h : repn dim3 s = some s') :
    s'.vertices = s.vertices ∧ s'.indices = s.indices ∧ s'.flags = s.flags ∧ s'.topology = s.topology ∧ s'.cc = s.cc ∧
    s'.qbvh = s.qbvh ∧ s'.pn = (if dim3 && s.pn.isSome then computePN s.vertices s.indices else s.pn) := by
  unfold repn at h
  by_cases hp : (dim3 && s.pn.isSome) = true
  · simp only [hp, if_true] at h ⊢
    obtain ⟨a, b, c, d, e, f, g⟩ := pnStep_spec h
    exact ⟨a, b, e, c, d, g, f⟩
  · simp only [hp] at h ⊢
    simp only [Bool.false_eq_true, if_false, Option.some.injEq] at h
    subst h
    simp

/-- what `scaled` does to each field.  `rewinds` = 3-D ∧ ORIENTED ∧ mirroring scale: the index buffer is reversed (and the
topology recomputed if the flags keep one); otherwise it is kept. -/
theorem scaled_spec [Geo V N] {dim3 mirror : Bool} {fV : V → V} {s s' : Mesh V N} (h : scaled dim3 mirror fV s = some s') :
    s'.vertices = s.vertices.map fV ∧
    s'.indices = (if rewinds dim3 mirror s.flags then revIdx s.indices else s.indices) ∧ s'.flags = s.flags ∧
    s'.topology = (if rewinds dim3 mirror s.flags && s.flags.topoFamily then topoOf s.vertices.length (revIdx s.indices)
      else s.topology) ∧
    s'.cc = s.cc ∧ s'.qbvh = s.qbvh.map (·.map (mapTri fV)) ∧
    s'.pn = (if dim3 && s.pn.isSome then computePN s'.vertices s'.indices else s.pn) := by
  unfold scaled at h
  simp only [Option.map_eq_some_iff, Option.bind_eq_some_iff] at h
  obtain ⟨s3, ⟨s2, h2, h3⟩, rfl⟩ := h
  obtain ⟨a2, b2, c2, d2, e2, f2, g2, k2⟩ := rewind_spec h2
  obtain ⟨a3, b3, c3, d3, e3, f3, g3⟩ := repn_spec h3
  simp only [List.length_map] at a2 b2 c2 d2 e2 f2 g2
  refine ⟨by rw [a3, a2], by rw [b3, b2], by rw [c3, c2], by rw [d3, d2], by rw [e3, e2], by simp only; rw [f3, f2], ?_⟩
  simp only
  rw [g3, g2, a3, b3]
  cases hs : s.pn with
  | none =>
    have : s2.pn = none := by
      have := g2; rw [hs] at this
      cases hq : s2.pn with
      | none => rfl
      | some p => rw [hq] at this; cases this
    simp [this]
  | some p =>
    cases hq : s2.pn with
    | none => rw [hs, hq] at g2; cases g2
    | some p2 =>
      cases dim3
      · have := k2 rfl; rw [hq, hs] at this; simp [this]
      · simp

/-- on the branch without `reverse()` (2-D, or no `ORIENTED` flag, or an even number of negative factors) `scaled` is the
function it was before commit 1a6b99a: index buffer kept -/
theorem scaled_eq_keep [Geo V N] (dim3 mirror : Bool) (fV : V → V) (s : Mesh V N)
    (hm : rewinds dim3 mirror s.flags = false) : scaled dim3 mirror fV s = scaledKeep dim3 fV s := by
  unfold scaled scaledKeep rewind repn
  unfold rewinds at hm
  simp only [hm, Bool.false_eq_true, if_false, Option.bind_some]
  by_cases hp : (dim3 && s.pn.isSome) = true
  · simp only [hp, if_true]
    unfold pnStep
    simp only
    cases (computePN (s.vertices.map fV) s.indices : Option (PN N)) <;> rfl
  · simp only [hp]
    rfl

/-- on the mirroring branch `scaled` is `reverse` applied to the mesh with scaled vertices, followed by the recomputation
of the pseudo-normals and `Qbvh::scaled` -/
theorem scaled_eq_reverse [Geo V N] (dim3 mirror : Bool) (fV : V → V) (s : Mesh V N)
    (hm : rewinds dim3 mirror s.flags = true) :
    scaled dim3 mirror fV s =
      (((reverse dim3 { s with vertices := s.vertices.map fV }).bind (repn dim3)).map
        fun s3 => { s3 with qbvh := s3.qbvh.map (·.map (mapTri fV)) }) := by
  unfold scaled rewind
  unfold rewinds at hm
  simp only [hm, if_true]

private theorem allCoords_none_scaled (fV : V → V) (m : Bool) (vs : List V) (idx : List Tri)
    (h : allCoords vs idx = none) : allCoords (vs.map fV) (if m then revIdx idx else idx) = none := by
  cases m
  · simp only [Bool.false_eq_true, if_false]; rw [allCoords_mapTri, h]; rfl
  · simp only [if_true]; rw [allCoords_rev, allCoords_mapTri, h]; rfl

/-- **`scaled` preserves coherence** — both branches: the connected components do not look at the coordinates nor at the
orientation, the topology does not look at the coordinates and is recomputed when the index buffer is reversed, and the
pseudo-normals, when cached, are recomputed from the scaled vertices and the final index buffer.  No hypothesis on the
scale: any sign, any non-uniformity (indeed any map of the vertices), and no law of geometry is needed (unlike `reverse`
alone, whose in-place negation of the pseudo-normals relies on `LawfulGeo`). -/
theorem scaled_coherent [Geo V N] (dim3 mirror : Bool) (fV : V → V) (s s' : Mesh V N)
    (hc : Coherent dim3 s) (h : scaled dim3 mirror fV s = some s') : Coherent dim3 s' := by
  obtain ⟨ev, ei, ef, et, ec, _, ep⟩ := scaled_spec h
  unfold Coherent at hc ⊢
  simp only [Mesh.derived, derive, Derived.mk.injEq] at hc ⊢
  obtain ⟨hp, ht, hcc⟩ := hc
  refine ⟨?_, ?_, ?_⟩
  · rw [ep, ef]
    by_cases hd : dim3 = true
    · subst hd
      simp only [Bool.true_and] at hp ⊢
      by_cases hf : s.flags.pnFamily = true
      · simp only [hf, if_true] at hp ⊢
        cases hs : s.pn with
        | some p => simp
        | none =>
          simp only [Option.isSome_none, Bool.false_eq_true, if_false]
          rw [hs] at hp
          have := (computePN_none_iff (N := N) s.vertices s.indices).mp hp.symm
          rw [ev, ei]
          exact ((computePN_none_iff (N := N) _ _).mpr (allCoords_none_scaled fV _ _ _ this)).symm
      · simp only [hf] at hp ⊢
        simp only [Bool.false_eq_true, if_false] at hp ⊢
        rw [hp]; simp
    · have hd' : dim3 = false := by cases dim3 <;> simp_all
      subst hd'
      simp only [Bool.false_and, Bool.false_eq_true, if_false] at hp ⊢
      exact hp
  · rw [et, ev, ei, ef, ht]
    cases rewinds dim3 mirror s.flags <;> cases s.flags.topoFamily <;> simp
  · rw [ec, ev, ei, ef, hcc]
    cases rewinds dim3 mirror s.flags <;> simp [computeCC_rev]

/-- `box` and `sbox` (the effect of `Aabb::scaled` on a stored box) satisfy: the scaled box of a triangle is the box of
the scaled triangle -/
def ScaleBoxLaw {B : Type} (box : V × V × V → B) (sbox : B → B) (fV : V → V) : Prop :=
  ∀ c : V × V × V, box (mapTri fV c) = sbox (box c)

theorem allCoords_scaledIdx (fV : V → V) (m : Bool) (vs : List V) (idx : List Tri) (cur : List (V × V × V))
    (h : allCoords vs idx = some cur) :
    allCoords (vs.map fV) (if m then revIdx idx else idx) =
      some ((if m then cur.map swapC else cur).map (mapTri fV)) := by
  cases m
  · simp only [Bool.false_eq_true, if_false]; rw [allCoords_mapTri, h]; rfl
  · simp only [if_true]; rw [allCoords_rev, allCoords_mapTri, h]
    simp only [Option.map_some, List.map_map, Option.some.injEq]
    apply List.map_congr_left
    intro c _
    rfl

/-- **the QBVH after `scaled`, literally**: `Qbvh::scaled` applies `sbox` (= `Aabb::scaled(scale)`) to the boxes the tree
already holds.  If the tree was coherent (leaf `i` held the box of triangle `i`), then afterwards leaf `i` holds exactly the
box of the *scaled* triangle `i` — the boxes a fresh `rebuild_qbvh` on the scaled vertices would compute; on the mirroring
branch triangle `i` is now `[b, a, c]`, whose box is the same (`BoxLaws.swap`: the tree is rightly left alone by the
`reverse()` inside `scaled`). -/
theorem scaled_leaf_boxes [Geo V N] {B : Type} (box : V × V × V → B) (hbox : BoxLaws (N := N) box) (sbox : B → B)
    (dim3 mirror : Bool) (fV : V → V)
    (hl : ScaleBoxLaw box sbox fV) (s s' : Mesh V N)
    (hq : QCoherent box s) (h : scaled dim3 mirror fV s = some s') :
    ∃ cs cur', s.qbvh = some cs ∧ allCoords s'.vertices s'.indices = some cur' ∧
      cs.map (fun c => sbox (box c)) = cur'.map box := by
  obtain ⟨ev, ei, _, _, _, _, _⟩ := scaled_spec h
  obtain ⟨cs, cur, h1, h2, h3⟩ := hq
  refine ⟨cs, _, h1, by rw [ev, ei]; exact allCoords_scaledIdx fV _ _ _ cur h2, ?_⟩
  rw [List.map_map]
  have : (box ∘ mapTri fV) = fun c => sbox (box c) := by funext c; exact hl c
  rw [this]
  have h4 : (cs.map box).map sbox = (cur.map box).map sbox := by rw [h3]
  simp only [List.map_map] at h4
  have h5 : cs.map (fun c => sbox (box c)) = cur.map (fun c => sbox (box c)) := h4
  rw [h5]
  cases rewinds dim3 mirror s.flags
  · rfl
  · simp only [if_true, List.map_map]
    apply List.map_congr_left
    intro c _
    obtain ⟨a, b, c⟩ := c
    simp only [Function.comp, swapC]
    rw [hbox.swap a b c]

/-- `scaled` keeps the QBVH coherent (in the representation of the model: the recorded triangles are the scaled ones) -/
theorem scaled_qcoherent [Geo V N] {B : Type} (box : V × V × V → B) (hbox : BoxLaws (N := N) box) (sbox : B → B)
    (dim3 mirror : Bool) (fV : V → V)
    (hl : ScaleBoxLaw box sbox fV) (s s' : Mesh V N)
    (hq : QCoherent box s) (h : scaled dim3 mirror fV s = some s') : QCoherent box s' := by
  obtain ⟨cs, cur', h1, h2, h3⟩ := scaled_leaf_boxes box hbox sbox dim3 mirror fV hl s s' hq h
  obtain ⟨_, _, _, _, _, eq, _⟩ := scaled_spec h
  refine ⟨cs.map (mapTri fV), cur', by rw [eq, h1]; rfl, h2, ?_⟩
  rw [← h3, List.map_map]
  apply List.map_congr_left
  intro c _
  exact hl c

/-- `scaled` never panics on a well-formed mesh and leaves it well formed -/
theorem scaled_no_panic [Geo V N] (dim3 mirror : Bool) (fV : V → V) (s : Mesh V N) (h : WF s) :
    ∃ s', scaled dim3 mirror fV s = some s' ∧ WF s' := by
  have hw1 : WF ({ s with vertices := s.vertices.map fV } : Mesh V N) := by unfold WF at h ⊢; simpa using h
  have h2 : ∃ s2, rewind dim3 mirror ({ s with vertices := s.vertices.map fV } : Mesh V N) = some s2 ∧ WF s2 := by
    unfold rewind
    split
    · exact reverse_no_panic' dim3 hw1
    · exact ⟨_, rfl, hw1⟩
  obtain ⟨s2, e2, w2⟩ := h2
  have h3 : ∃ s3, repn dim3 s2 = some s3 ∧ WF s3 := by
    unfold repn
    split
    · obtain ⟨p, hp'⟩ := computePN_some (N := N) (by unfold WF at w2; exact w2)
      refine ⟨_, by unfold pnStep; simp only [hp']; rfl, ?_⟩
      unfold WF at w2 ⊢; simpa using w2
    · exact ⟨_, rfl, w2⟩
  obtain ⟨s3, e3, w3⟩ := h3
  refine ⟨{ s3 with qbvh := s3.qbvh.map (·.map (mapTri fV)) },
    by unfold scaled; simp only [e2, Option.bind_some, e3, Option.map_some], ?_⟩
  unfold WF at w3 ⊢; simpa using w3

theorem scaled_cleanBad [Geo V N] (dim3 mirror : Bool) (fV : V → V) (s s' : Mesh V N) (hc : CleanBad s)
    (h : scaled dim3 mirror fV s = some s') : CleanBad s' := by
  obtain ⟨_, ei, ef, _⟩ := scaled_spec h
  unfold CleanBad at hc ⊢
  rw [ef, ei]
  intro hd
  cases rewinds dim3 mirror s.flags
  · exact hc hd
  · exact deleteBad_rev (hc hd)

/-! ### histories with `scaled` -/

/-- run a history that may contain `scaled` (`none` as soon as an operation panics) -/
def run2 [Geo V N] (dim3 : Bool) : Mesh V N → List (Op2 V N) → Option (Mesh V N)
  | s, [] => some s
  | s, op :: ops => match step2 dim3 s op with
    | none => none
    | some s' => run2 dim3 s' ops

/-- the `transform_vertices` steps use maps satisfying `TransformLaws`; nothing is asked of the `scaled` steps -/
def Op2Lawful [Geo V N] : Op2 V N → Prop
  | .base (.transform fV fN) => TransformLaws fV fN
  | _ => True

/-- the scale of every `scaled` step satisfies the box law for some `sbox` -/
def Op2BoxLawful {B : Type} (box : V × V × V → B) : Op2 V N → Prop
  | .scale fV _ _ => ∃ sbox : B → B, ScaleBoxLaw box sbox fV
  | _ => True

/-- **C11 with `scaled`, full statement for the fixed code**: after `with_flags` and any finite sequence of `set_flags`,
`reverse`, `append`, `transform_vertices` and `scaled` (any scale), the derived data are those of the current buffers and
flags. -/
theorem history2_coherent [Geo V N] (dim3 : Bool) (hl : dim3 = true → LawfulGeo V N) (vs : List V) (idx : List Tri) (f : Flags)
    (ops : List (Op2 V N)) (hops : ∀ op ∈ ops, Op2Lawful op) (s0 s : Mesh V N)
    (h0 : withFlags dim3 vs idx f = .ok s0) (h : run2 dim3 s0 ops = some s) : Coherent dim3 s := by
  have hc0 : Coherent dim3 s0 := by
    obtain ⟨s1, r, hs, he⟩ := buildCore_eq_some (withFlags_eq_ok h0).2
    obtain ⟨hd, hf, _⟩ := ensureQbvh_spec he
    have hb : Coherent dim3 (blank (N := N) vs idx) := by
      unfold Coherent blank
      simp [Mesh.derived, derive, Flags.empty, Flags.pnFamily, Flags.topoFamily]
    exact coherent_of_same (setFlags_coherent' hb hs) hd hf
  clear h0
  induction ops generalizing s0 with
  | nil => simp only [run2, Option.some.injEq] at h; subst h; exact hc0
  | cons op ops ih =>
    simp only [run2] at h
    split at h
    · cases h
    · rename_i s1 hs
      apply ih (fun o ho => hops o (List.mem_cons_of_mem _ ho)) s1 h
      cases op with
      | scale fV fN mirror => exact scaled_coherent dim3 mirror fV s0 s1 hc0 hs
      | base op =>
        have hop := hops _ List.mem_cons_self
        simp only [step2] at hs
        cases op with
        | setFlags f' =>
          simp only [step, Option.map_eq_some_iff] at hs
          obtain ⟨⟨s2, r⟩, h1, rfl⟩ := hs
          exact setFlags_coherent' hc0 h1
        | reverse => exact reverse_coherent' hl hc0 hs
        | append rhs =>
          have h1 := append_eq_some hs
          obtain ⟨s1', r, hs', he⟩ := buildCore_eq_some (withFlags_eq_ok h1).2
          obtain ⟨hd, hf, _⟩ := ensureQbvh_spec he
          have hb : Coherent dim3 (blank (N := N) (appendBuffers s0 rhs).1 (appendBuffers s0 rhs).2) := by
            unfold Coherent blank
            simp [Mesh.derived, derive, Flags.empty, Flags.pnFamily, Flags.topoFamily]
          exact coherent_of_same (setFlags_coherent' hb hs') hd hf
        | transform fV fN => exact transformVertices_coherent' hop hc0 hs

/-- **QBVH part of C11 with `scaled`**: along any history the QBVH holds, leaf for leaf, the boxes of the current
triangles — also after `scaled`, whose in-place transformation of the boxes is covered by `ScaleBoxLaw` -/
theorem history2_qcoherent [Geo V N] {B : Type} (box : V × V × V → B) (hbox : BoxLaws (N := N) box) (dim3 : Bool)
    (vs : List V) (idx : List Tri) (f : Flags) (ops : List (Op2 V N)) (hops : ∀ op ∈ ops, Op2BoxLawful box op)
    (s0 s : Mesh V N) (h0 : withFlags dim3 vs idx f = .ok s0) (h : run2 dim3 s0 ops = some s) : QCoherent box s := by
  have hc0 := withFlags_qcoherent' box h0
  clear h0
  induction ops generalizing s0 with
  | nil => simp only [run2, Option.some.injEq] at h; subst h; exact hc0
  | cons op ops ih =>
    simp only [run2] at h
    split at h
    · cases h
    · rename_i s1 hs
      apply ih (fun o ho => hops o (List.mem_cons_of_mem _ ho)) s1 h
      cases op with
      | scale fV fN mirror =>
        obtain ⟨sbox, hl⟩ := hops _ List.mem_cons_self
        exact scaled_qcoherent box hbox sbox dim3 mirror fV hl s0 s1 hc0 hs
      | base op =>
        simp only [step2] at hs
        cases op with
        | setFlags f' =>
          simp only [step, Option.map_eq_some_iff] at hs
          obtain ⟨⟨s2, r⟩, h1, rfl⟩ := hs
          exact setFlags_qcoherent' box hbox hc0 h1
        | reverse => exact reverse_qcoherent' box hbox hc0 hs
        | append rhs => exact withFlags_qcoherent' box (append_eq_some hs)
        | transform fV fN => exact transformVertices_qcoherent' box hs

/-- every state of a history with `scaled` is well formed -/
theorem history2_wf [Geo V N] (dim3 : Bool) (vs : List V) (idx : List Tri) (f : Flags) (ops : List (Op2 V N)) (s0 s : Mesh V N)
    (h0 : withFlags dim3 vs idx f = .ok s0) (h : run2 dim3 s0 ops = some s) : WF s := by
  have hw0 := withFlags_wf' h0
  clear h0
  induction ops generalizing s0 with
  | nil => simp only [run2, Option.some.injEq] at h; subst h; exact hw0
  | cons op ops ih =>
    simp only [run2] at h
    split at h
    · cases h
    · rename_i s1 hs
      apply ih s1 h
      cases op with
      | scale fV fN mirror =>
        obtain ⟨s3, h3, w3⟩ := scaled_no_panic dim3 mirror fV s0 hw0
        simp only [step2] at hs
        rw [hs] at h3; cases h3; exact w3
      | base op =>
        simp only [step2] at hs
        cases op with
        | setFlags f' =>
          simp only [step, Option.map_eq_some_iff] at hs
          obtain ⟨⟨s2, r⟩, h1, rfl⟩ := hs
          obtain ⟨s3, r3, h3, w3⟩ := setFlags_no_panic' dim3 f' hw0
          rw [h1] at h3; cases h3; exact w3
        | reverse =>
          obtain ⟨s3, h3, w3⟩ := reverse_no_panic' dim3 hw0
          simp only [step] at hs
          rw [hs] at h3; cases h3; exact w3
        | append rhs => exact withFlags_wf' (append_eq_some hs)
        | transform fV fN =>
          obtain ⟨s3, h3, w3⟩ := transformVertices_no_panic' (fV := fV) (fN := fN) hw0
          simp only [step] at hs
          rw [hs] at h3; cases h3; exact w3

/-- **no history panics** (except through `append` on two emptied meshes), `scaled` included -/
theorem history2_no_panic [Geo V N] (dim3 : Bool) (vs : List V) (idx : List Tri) (f : Flags) (ops : List (Op2 V N)) (s0 : Mesh V N)
    (h0 : withFlags dim3 vs idx f = .ok s0) (hna : ∀ op ∈ ops, ∀ rhs, op ≠ .base (.append rhs)) :
    ∃ s, run2 dim3 s0 ops = some s := by
  have hw0 := withFlags_wf' h0
  clear h0
  induction ops generalizing s0 with
  | nil => exact ⟨s0, rfl⟩
  | cons op ops ih =>
    have hna' : ∀ o ∈ ops, ∀ rhs, o ≠ .base (.append rhs) := fun o ho => hna o (List.mem_cons_of_mem _ ho)
    simp only [run2]
    cases op with
    | scale fV fN mirror =>
      obtain ⟨s3, h3, w3⟩ := scaled_no_panic dim3 mirror fV s0 hw0
      simp only [step2, h3]
      exact ih s3 hna' w3
    | base op =>
      cases op with
      | setFlags f' =>
        obtain ⟨s3, r3, h3, w3⟩ := setFlags_no_panic' dim3 f' hw0
        simp only [step2, step, h3, Option.map_some]
        exact ih s3 hna' w3
      | reverse =>
        obtain ⟨s3, h3, w3⟩ := reverse_no_panic' dim3 hw0
        simp only [step2, step, h3]
        exact ih s3 hna' w3
      | append rhs => exact absurd rfl (hna _ List.mem_cons_self rhs)
      | transform fV fN =>
        obtain ⟨s3, h3, w3⟩ := transformVertices_no_panic' (fV := fV) (fN := fN) hw0
        simp only [step2, step, h3]
        exact ih s3 hna' w3

/-! ### `scaled` as written -/

/-- **as written**, `scaled` preserves coherence when no pseudo-normal is cached (2-D, or 3-D without
`ORIENTED` / `MERGE_DUPLICATE_VERTICES` / `FIX_INTERNAL_EDGES`).  (Necessary: the two witnesses below.) -/
theorem scaledW_coherent_partial [Geo V N] (dim3 : Bool) (fV : V → V) (fN : N → N) (s : Mesh V N)
    (hc : Coherent dim3 s) (hp : dim3 = true → s.flags.pnFamily = false) : Coherent dim3 (scaledW dim3 fV fN s) := by
  unfold Coherent at hc ⊢
  simp only [Mesh.derived, derive, Derived.mk.injEq, scaledW] at hc ⊢
  obtain ⟨h1, h2, h3⟩ := hc
  refine ⟨?_, by rw [h2]; simp, by rw [h3]; simp⟩
  by_cases hd : dim3 = true
  · have hf := hp hd
    subst hd
    simp only [hf, Bool.and_false, Bool.false_eq_true, if_false, if_true] at h1 ⊢
    rw [h1]; rfl
  · have hd' : dim3 = false := by cases dim3 <;> simp_all
    subst hd'
    simp only [Bool.false_and, Bool.false_eq_true, if_false] at h1 ⊢
    exact h1

/-- as written (pinned tree) and fixed, `scaled` agree on everything but the pseudo-normals — on the branch where the
current code does not reverse the winding (the pinned code never did) -/
theorem scaledW_eq_scaled_except_pn [Geo V N] (dim3 mirror : Bool) (fV : V → V) (fN : N → N) (s s' : Mesh V N)
    (hm : rewinds dim3 mirror s.flags = false) (h : scaled dim3 mirror fV s = some s') :
    (scaledW dim3 fV fN s).vertices = s'.vertices ∧ (scaledW dim3 fV fN s).indices = s'.indices ∧
    (scaledW dim3 fV fN s).flags = s'.flags ∧ (scaledW dim3 fV fN s).topology = s'.topology ∧
    (scaledW dim3 fV fN s).cc = s'.cc ∧ (scaledW dim3 fV fN s).qbvh = s'.qbvh := by
  obtain ⟨a, b, c, d, e, f, _⟩ := scaled_spec h
  simp only [hm, Bool.false_eq_true, if_false, Bool.false_and] at b d
  simp only [scaledW]
  exact ⟨a.symm, b.symm, c.symm, d.symm, e.symm, f.symm⟩

/-! ## closed form: `Aabb::scaled`, `Triangle::local_aabb`, `Aabb::merged` over a linearly ordered field -/

section Closed
set_option linter.style.haveILetI false
set_option linter.unusedSectionVars false
variable {K : Type} [Field K] [LinearOrder K] [IsStrictOrderedRing K]

private theorem min2_mul_nonpos (a b t : K) (ht : t ≤ 0) : min a b * t = max (a * t) (b * t) := by
  rcases le_total a b with h | h
  · rw [min_eq_left h, max_eq_left (mul_le_mul_of_nonpos_right h ht)]
  · rw [min_eq_right h, max_eq_right (mul_le_mul_of_nonpos_right h ht)]
private theorem max2_mul_nonpos (a b t : K) (ht : t ≤ 0) : max a b * t = min (a * t) (b * t) := by
  rcases le_total a b with h | h
  · rw [max_eq_right h, min_eq_right (mul_le_mul_of_nonpos_right h ht)]
  · rw [max_eq_left h, min_eq_left (mul_le_mul_of_nonpos_right h ht)]
private theorem min3_le_max3 (a b c : K) : min (min a b) c ≤ max (max a b) c :=
  le_trans (min_le_left _ _) (le_trans (min_le_left _ _) (le_trans (le_max_left _ _) (le_max_left _ _)))

/-- one axis of `Aabb::scaled ∘ Triangle::local_aabb`, lower bound: whatever the sign of `t` -/
private theorem axis_min (x y z t : K) :
    min (min (min x y) z * t) (max (max x y) z * t) = min (min (x * t) (y * t)) (z * t) := by
  rcases le_total 0 t with ht | ht
  · rw [min_mul_of_nonneg _ _ ht, min_mul_of_nonneg _ _ ht, max_mul_of_nonneg _ _ ht, max_mul_of_nonneg _ _ ht]
    exact min_eq_left (min3_le_max3 _ _ _)
  · rw [min2_mul_nonpos _ _ _ ht, min2_mul_nonpos _ _ _ ht, max2_mul_nonpos _ _ _ ht, max2_mul_nonpos _ _ _ ht]
    exact min_eq_right (min3_le_max3 _ _ _)
private theorem axis_max (x y z t : K) :
    max (min (min x y) z * t) (max (max x y) z * t) = max (max (x * t) (y * t)) (z * t) := by
  rcases le_total 0 t with ht | ht
  · rw [min_mul_of_nonneg _ _ ht, min_mul_of_nonneg _ _ ht, max_mul_of_nonneg _ _ ht, max_mul_of_nonneg _ _ ht]
    exact max_eq_right (min3_le_max3 _ _ _)
  · rw [min2_mul_nonpos _ _ _ ht, min2_mul_nonpos _ _ _ ht, max2_mul_nonpos _ _ _ ht, max2_mul_nonpos _ _ _ ht]
    exact max_eq_left (min3_le_max3 _ _ _)

/-- one axis of `Aabb::scaled ∘ Aabb::merged` on proper intervals `[m1, M1]`, `[m2, M2]` -/
private theorem axis_merge_min (m1 M1 m2 M2 t : K) (h1 : m1 ≤ M1) (h2 : m2 ≤ M2) :
    min (min m1 m2 * t) (max M1 M2 * t) = min (min (m1 * t) (M1 * t)) (min (m2 * t) (M2 * t)) := by
  have hmM : min m1 m2 ≤ max M1 M2 := le_trans (min_le_left _ _) (le_trans h1 (le_max_left _ _))
  rcases le_total 0 t with ht | ht
  · rw [min_eq_left (mul_le_mul_of_nonneg_right hmM ht), min_eq_left (mul_le_mul_of_nonneg_right h1 ht),
      min_eq_left (mul_le_mul_of_nonneg_right h2 ht), min_mul_of_nonneg _ _ ht]
  · rw [min_eq_right (mul_le_mul_of_nonpos_right hmM ht), min_eq_right (mul_le_mul_of_nonpos_right h1 ht),
      min_eq_right (mul_le_mul_of_nonpos_right h2 ht), max2_mul_nonpos _ _ _ ht]
private theorem axis_merge_max (m1 M1 m2 M2 t : K) (h1 : m1 ≤ M1) (h2 : m2 ≤ M2) :
    max (min m1 m2 * t) (max M1 M2 * t) = max (max (m1 * t) (M1 * t)) (max (m2 * t) (M2 * t)) := by
  have hmM : min m1 m2 ≤ max M1 M2 := le_trans (min_le_left _ _) (le_trans h1 (le_max_left _ _))
  rcases le_total 0 t with ht | ht
  · rw [max_eq_right (mul_le_mul_of_nonneg_right hmM ht), max_eq_right (mul_le_mul_of_nonneg_right h1 ht),
      max_eq_right (mul_le_mul_of_nonneg_right h2 ht), max_mul_of_nonneg _ _ ht]
  · rw [max_eq_left (mul_le_mul_of_nonpos_right hmM ht), max_eq_left (mul_le_mul_of_nonpos_right h1 ht),
      max_eq_left (mul_le_mul_of_nonpos_right h2 ht), min2_mul_nonpos _ _ _ ht]

variable (sq : K → K)

/-- `p` lies in the box `(mins, maxs)` -/
def BoxMem3 (b : V3 K × V3 K) (p : V3 K) : Prop :=
  b.1.x ≤ p.x ∧ p.x ≤ b.2.x ∧ b.1.y ≤ p.y ∧ p.y ≤ b.2.y ∧ b.1.z ≤ p.z ∧ p.z ≤ b.2.z
def BoxMem2 (b : V2 K × V2 K) (p : V2 K) : Prop :=
  b.1.x ≤ p.x ∧ p.x ≤ b.2.x ∧ b.1.y ≤ p.y ∧ p.y ≤ b.2.y
/-- a proper box: `mins ≤ maxs` on every axis (what `Triangle::local_aabb`, `Aabb::scaled` and `Aabb::merged` produce) -/
def Proper3 (b : V3 K × V3 K) : Prop := b.1.x ≤ b.2.x ∧ b.1.y ≤ b.2.y ∧ b.1.z ≤ b.2.z
def Proper2 (b : V2 K × V2 K) : Prop := b.1.x ≤ b.2.x ∧ b.1.y ≤ b.2.y

/-- **`Aabb::scaled` of the box of a triangle is the box of the scaled triangle, for every scale** (negative components
included: the bounds are re-sorted).  3-D. -/
theorem aabbScaled3_triBox3 (a b c s : V3 K) :
    letI := fieldNum K sq
    aabbScaled3 (triBox3 (a, b, c)) s = triBox3 (scalePt3 s a, scalePt3 s b, scalePt3 s c) := by
  simp only [aabbScaled3, triBox3, scalePt3, V3.cmul, V3.inf, V3.sup, fieldNum_nmin, fieldNum_nmax, Prod.mk.injEq, V3.mk.injEq]
  exact ⟨⟨axis_min _ _ _ _, axis_min _ _ _ _, axis_min _ _ _ _⟩, ⟨axis_max _ _ _ _, axis_max _ _ _ _, axis_max _ _ _ _⟩⟩

/-- the same in 2-D -/
theorem aabbScaled2_triBox2 (a b c s : V2 K) :
    letI := fieldNum K sq
    aabbScaled2 (triBox2 (a, b, c)) s = triBox2 (scalePt2 s a, scalePt2 s b, scalePt2 s c) := by
  simp only [aabbScaled2, triBox2, scalePt2, V2.cmul, V2.inf, V2.sup, fieldNum_nmin, fieldNum_nmax, Prod.mk.injEq, V2.mk.injEq]
  exact ⟨⟨axis_min _ _ _ _, axis_min _ _ _ _⟩, ⟨axis_max _ _ _ _, axis_max _ _ _ _⟩⟩

/-- so the real `Aabb::scaled` / `Triangle::local_aabb` / `component_mul` satisfy the hypothesis of `scaled_leaf_boxes`,
`scaled_qcoherent`, `history2_qcoherent` -/
theorem scaleBoxLaw3 (s : V3 K) :
    letI := fieldNum K sq
    ScaleBoxLaw (V := V3 K) triBox3 (fun b => aabbScaled3 b s) (scalePt3 s) := by
  intro c
  exact (aabbScaled3_triBox3 sq c.1 c.2.1 c.2.2 s).symm
theorem scaleBoxLaw2 (s : V2 K) :
    letI := fieldNum K sq
    ScaleBoxLaw (V := V2 K) triBox2 (fun b => aabbScaled2 b s) (scalePt2 s) := by
  intro c
  exact (aabbScaled2_triBox2 sq c.1 c.2.1 c.2.2 s).symm

theorem triBox3_proper (c : V3 K × V3 K × V3 K) :
    letI := fieldNum K sq
    Proper3 (triBox3 c) := by
  simp only [Proper3, triBox3, V3.inf, V3.sup, fieldNum_nmin, fieldNum_nmax]
  exact ⟨min3_le_max3 _ _ _, min3_le_max3 _ _ _, min3_le_max3 _ _ _⟩
theorem triBox2_proper (c : V2 K × V2 K × V2 K) :
    letI := fieldNum K sq
    Proper2 (triBox2 c) := by
  simp only [Proper2, triBox2, V2.inf, V2.sup, fieldNum_nmin, fieldNum_nmax]
  exact ⟨min3_le_max3 _ _ _, min3_le_max3 _ _ _⟩

theorem aabbMerged3_proper (a b : V3 K × V3 K) (ha : Proper3 a) :
    letI := fieldNum K sq
    Proper3 (aabbMerged3 a b) := by
  simp only [Proper3, aabbMerged3, V3.inf, V3.sup, fieldNum_nmin, fieldNum_nmax]
  exact ⟨le_trans (min_le_left _ _) (le_trans ha.1 (le_max_left _ _)), le_trans (min_le_left _ _) (le_trans ha.2.1 (le_max_left _ _)),
    le_trans (min_le_left _ _) (le_trans ha.2.2 (le_max_left _ _))⟩
theorem aabbMerged2_proper (a b : V2 K × V2 K) (ha : Proper2 a) :
    letI := fieldNum K sq
    Proper2 (aabbMerged2 a b) := by
  simp only [Proper2, aabbMerged2, V2.inf, V2.sup, fieldNum_nmin, fieldNum_nmax]
  exact ⟨le_trans (min_le_left _ _) (le_trans ha.1 (le_max_left _ _)), le_trans (min_le_left _ _) (le_trans ha.2 (le_max_left _ _))⟩

/-- **`Aabb::scaled` commutes with `Aabb::merged`** on proper boxes, for every scale: the box of an inner node of the
scaled tree is still the merge of the (scaled) boxes of its children -/
theorem aabbScaled3_merged (a b : V3 K × V3 K) (s : V3 K) (ha : Proper3 a) (hb : Proper3 b) :
    letI := fieldNum K sq
    aabbScaled3 (aabbMerged3 a b) s = aabbMerged3 (aabbScaled3 a s) (aabbScaled3 b s) := by
  simp only [aabbScaled3, aabbMerged3, V3.cmul, V3.inf, V3.sup, fieldNum_nmin, fieldNum_nmax, Prod.mk.injEq, V3.mk.injEq]
  exact ⟨⟨axis_merge_min _ _ _ _ _ ha.1 hb.1, axis_merge_min _ _ _ _ _ ha.2.1 hb.2.1, axis_merge_min _ _ _ _ _ ha.2.2 hb.2.2⟩,
    ⟨axis_merge_max _ _ _ _ _ ha.1 hb.1, axis_merge_max _ _ _ _ _ ha.2.1 hb.2.1, axis_merge_max _ _ _ _ _ ha.2.2 hb.2.2⟩⟩
theorem aabbScaled2_merged (a b : V2 K × V2 K) (s : V2 K) (ha : Proper2 a) (hb : Proper2 b) :
    letI := fieldNum K sq
    aabbScaled2 (aabbMerged2 a b) s = aabbMerged2 (aabbScaled2 a s) (aabbScaled2 b s) := by
  simp only [aabbScaled2, aabbMerged2, V2.cmul, V2.inf, V2.sup, fieldNum_nmin, fieldNum_nmax, Prod.mk.injEq, V2.mk.injEq]
  exact ⟨⟨axis_merge_min _ _ _ _ _ ha.1 hb.1, axis_merge_min _ _ _ _ _ ha.2 hb.2⟩,
    ⟨axis_merge_max _ _ _ _ _ ha.1 hb.1, axis_merge_max _ _ _ _ _ ha.2 hb.2⟩⟩

/-- **the root box** (`local_aabb()` of the mesh): scaling the merge of all leaf boxes gives the merge of the scaled
leaf boxes -/
theorem aabbScaled3_root (b : V3 K × V3 K) (bs : List (V3 K × V3 K)) (s : V3 K)
    (hb : Proper3 b) (hbs : ∀ x ∈ bs, Proper3 x) :
    letI := fieldNum K sq
    aabbScaled3 (mergeBoxes3 b bs) s = mergeBoxes3 (aabbScaled3 b s) (bs.map fun x => aabbScaled3 x s) := by
  letI := fieldNum K sq
  induction bs generalizing b with
  | nil => rfl
  | cons x xs ih =>
    simp only [mergeBoxes3, List.foldl_cons, List.map_cons] at ih ⊢
    rw [ih (aabbMerged3 b x) (aabbMerged3_proper sq b x hb) (fun y hy => hbs y (List.mem_cons_of_mem _ hy)),
      aabbScaled3_merged sq b x s hb (hbs x List.mem_cons_self)]
theorem aabbScaled2_root (b : V2 K × V2 K) (bs : List (V2 K × V2 K)) (s : V2 K)
    (hb : Proper2 b) (hbs : ∀ x ∈ bs, Proper2 x) :
    letI := fieldNum K sq
    aabbScaled2 (mergeBoxes2 b bs) s = mergeBoxes2 (aabbScaled2 b s) (bs.map fun x => aabbScaled2 x s) := by
  letI := fieldNum K sq
  induction bs generalizing b with
  | nil => rfl
  | cons x xs ih =>
    simp only [mergeBoxes2, List.foldl_cons, List.map_cons] at ih ⊢
    rw [ih (aabbMerged2 b x) (aabbMerged2_proper sq b x hb) (fun y hy => hbs y (List.mem_cons_of_mem _ hy)),
      aabbScaled2_merged sq b x s hb (hbs x List.mem_cons_self)]

/-- **`local_aabb()` after `scaled` is the AABB of the scaled mesh**: scaling the root box of the tree built on the
triangles `c :: cs` gives the root box of the tree a fresh build constructs on the scaled triangles -/
theorem scaled_root_box3 (c : V3 K × V3 K × V3 K) (cs : List (V3 K × V3 K × V3 K)) (s : V3 K) :
    letI := fieldNum K sq
    aabbScaled3 (mergeBoxes3 (triBox3 c) (cs.map triBox3)) s =
      mergeBoxes3 (triBox3 (mapTri (scalePt3 s) c)) (cs.map fun t => triBox3 (mapTri (scalePt3 s) t)) := by
  letI := fieldNum K sq
  rw [aabbScaled3_root sq _ _ s (triBox3_proper sq c) (by
    intro x hx
    obtain ⟨t, _, rfl⟩ := List.mem_map.mp hx
    exact triBox3_proper sq t)]
  rw [List.map_map]
  have e : ∀ t : V3 K × V3 K × V3 K, aabbScaled3 (triBox3 t) s = triBox3 (mapTri (scalePt3 s) t) :=
    fun t => aabbScaled3_triBox3 sq t.1 t.2.1 t.2.2 s
  rw [e c]
  congr 1
  apply List.map_congr_left
  intro t _
  exact e t
theorem scaled_root_box2 (c : V2 K × V2 K × V2 K) (cs : List (V2 K × V2 K × V2 K)) (s : V2 K) :
    letI := fieldNum K sq
    aabbScaled2 (mergeBoxes2 (triBox2 c) (cs.map triBox2)) s =
      mergeBoxes2 (triBox2 (mapTri (scalePt2 s) c)) (cs.map fun t => triBox2 (mapTri (scalePt2 s) t)) := by
  letI := fieldNum K sq
  rw [aabbScaled2_root sq _ _ s (triBox2_proper sq c) (by
    intro x hx
    obtain ⟨t, _, rfl⟩ := List.mem_map.mp hx
    exact triBox2_proper sq t)]
  rw [List.map_map]
  have e : ∀ t : V2 K × V2 K × V2 K, aabbScaled2 (triBox2 t) s = triBox2 (mapTri (scalePt2 s) t) :=
    fun t => aabbScaled2_triBox2 sq t.1 t.2.1 t.2.2 s
  rw [e c]
  congr 1
  apply List.map_congr_left
  intro t _
  exact e t

/-- the box of a triangle contains its three vertices -/
theorem triBox3_contains (a b c : V3 K) :
    letI := fieldNum K sq
    BoxMem3 (triBox3 (a, b, c)) a ∧ BoxMem3 (triBox3 (a, b, c)) b ∧ BoxMem3 (triBox3 (a, b, c)) c := by
  simp only [BoxMem3, triBox3, V3.inf, V3.sup, fieldNum_nmin, fieldNum_nmax]
  refine ⟨⟨?_, ?_, ?_, ?_, ?_, ?_⟩, ⟨?_, ?_, ?_, ?_, ?_, ?_⟩, ⟨?_, ?_, ?_, ?_, ?_, ?_⟩⟩ <;>
    first
    | exact le_trans (min_le_left _ _) (min_le_left _ _)
    | exact le_trans (min_le_left _ _) (min_le_right _ _)
    | exact min_le_right _ _
    | exact le_trans (le_max_left _ _) (le_max_left _ _)
    | exact le_trans (le_max_right _ _) (le_max_left _ _)
    | exact le_max_right _ _

/-- **BVH-backed queries see the scaled triangles**: after `Qbvh::scaled(scale)` the leaf box of a triangle contains the
three vertices of the scaled triangle — for every scale, mirroring ones included -/
theorem scaled_leaf_contains_vertices3 (a b c s : V3 K) :
    letI := fieldNum K sq
    BoxMem3 (aabbScaled3 (triBox3 (a, b, c)) s) (scalePt3 s a) ∧ BoxMem3 (aabbScaled3 (triBox3 (a, b, c)) s) (scalePt3 s b) ∧
    BoxMem3 (aabbScaled3 (triBox3 (a, b, c)) s) (scalePt3 s c) := by
  letI := fieldNum K sq
  rw [aabbScaled3_triBox3 sq]
  exact triBox3_contains sq _ _ _

theorem triBox2_contains (a b c : V2 K) :
    letI := fieldNum K sq
    BoxMem2 (triBox2 (a, b, c)) a ∧ BoxMem2 (triBox2 (a, b, c)) b ∧ BoxMem2 (triBox2 (a, b, c)) c := by
  simp only [BoxMem2, triBox2, V2.inf, V2.sup, fieldNum_nmin, fieldNum_nmax]
  refine ⟨⟨?_, ?_, ?_, ?_⟩, ⟨?_, ?_, ?_, ?_⟩, ⟨?_, ?_, ?_, ?_⟩⟩ <;>
    first
    | exact le_trans (min_le_left _ _) (min_le_left _ _)
    | exact le_trans (min_le_left _ _) (min_le_right _ _)
    | exact min_le_right _ _
    | exact le_trans (le_max_left _ _) (le_max_left _ _)
    | exact le_trans (le_max_right _ _) (le_max_left _ _)
    | exact le_max_right _ _

/-- the same in 2-D -/
theorem scaled_leaf_contains_vertices2 (a b c s : V2 K) :
    letI := fieldNum K sq
    BoxMem2 (aabbScaled2 (triBox2 (a, b, c)) s) (scalePt2 s a) ∧ BoxMem2 (aabbScaled2 (triBox2 (a, b, c)) s) (scalePt2 s b) ∧
    BoxMem2 (aabbScaled2 (triBox2 (a, b, c)) s) (scalePt2 s c) := by
  letI := fieldNum K sq
  rw [aabbScaled2_triBox2 sq]
  exact triBox2_contains sq _ _ _

end Closed

/-- non-vacuity of `aabbScaled3_merged` / `aabbScaled3_root`: two proper boxes, a scale with two negative components -/
example :
    letI := fieldNum ℚ id
    let a : V3 ℚ × V3 ℚ := (⟨0, 1, -1⟩, ⟨2, 3, 0⟩); let b : V3 ℚ × V3 ℚ := (⟨1, -2, 5⟩, ⟨4, 2, 7⟩); let s : V3 ℚ := ⟨-2, 1/2, -1⟩
    Proper3 a ∧ Proper3 b ∧ aabbScaled3 (aabbMerged3 a b) s = (⟨-8, -1, -7⟩, ⟨0, 3/2, 1⟩) ∧
    aabbMerged3 (aabbScaled3 a s) (aabbScaled3 b s) = (⟨-8, -1, -7⟩, ⟨0, 3/2, 1⟩) := by
  simp only [aabbScaled3, aabbMerged3, Proper3, V3.cmul, V3.inf, V3.sup, fieldNum_nmin, fieldNum_nmax]
  norm_num

/-- non-vacuity / sign matters: with the mirroring scale `(-1, 1, 1)` the scaled leaf box of the triangle
`(1,0,0) (2,0,0) (1,1,0)` is `[-2,-1] × [0,1] × [0,0]` and contains the mirrored vertices; scaling the box by
`|scale| = (1, 1, 1)` instead leaves it at `[1,2] × [0,1] × [0,0]`, which contains none of them -/
theorem abs_scale_loses_triangle :
    letI := fieldNum ℚ id
    let a : V3 ℚ := ⟨1, 0, 0⟩; let b : V3 ℚ := ⟨2, 0, 0⟩; let c : V3 ℚ := ⟨1, 1, 0⟩; let s : V3 ℚ := ⟨-1, 1, 1⟩
    aabbScaled3 (triBox3 (a, b, c)) s = (⟨-2, 0, 0⟩, ⟨-1, 1, 0⟩) ∧
    BoxMem3 (aabbScaled3 (triBox3 (a, b, c)) s) (scalePt3 s a) ∧
    ¬ BoxMem3 (aabbScaled3 (triBox3 (a, b, c)) s.abs) (scalePt3 s a) ∧
    ¬ BoxMem3 (aabbScaled3 (triBox3 (a, b, c)) s.abs) (scalePt3 s b) ∧
    ¬ BoxMem3 (aabbScaled3 (triBox3 (a, b, c)) s.abs) (scalePt3 s c) := by
  simp only [aabbScaled3, triBox3, scalePt3, BoxMem3, V3.cmul, V3.inf, V3.sup, V3.abs, fieldNum_nmin, fieldNum_nmax, fieldNum_nabs]
  norm_num

end C11
