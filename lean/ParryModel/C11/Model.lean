import ParryModel.Vec
/-!
# C11 model: `shape/trimesh.rs` — buffers, flags and the derived data of a `TriMesh`

Discrete, executable model of the `TriMesh` state machine.  The vertex type `V` and the
pseudo-normal type `N` are abstract: the only things the code needs from the geometry are
(`class Geo`)

* `veq`      — `PartialEq` on `Point<Real>` (key equality of the `HashMap` in `merge_duplicate_vertices`);
* `contrib`  — for one triangle `(a, b, c)`: `None` if `Triangle::normal()` is `None`, otherwise the unit
               normal `n` and the three angle-weighted normals `n * ang1`, `n * ang2`, `n * ang3`;
* `nzero`, `nadd`, `nneg` — `Vector::zeros()`, `+=`, unary `-` on pseudo-normals.

Conventions (see HOWTO):
* `u32::MAX` is `umax`; `Vec<T>` is `List T`; `v[i]` that can panic is an explicit `Option`/`TopoRes.panic`
  branch (`none` = the Rust code panics);
* `HashMap`/`HashSet` are association lists; every place where the code iterates over a hash map
  (twin matching) is independent of the iteration order because the keys are pairwise distinct.
  The vertex map of `merge_duplicate_vertices` is keyed by `HashablePartialEq<Point>`: hash of the coordinate
  *bytes*, equality `==`.  The model compares with `veq` (`==`) only, which is the same thing except for `-0.0`
  versus `0.0` (equal, different bytes) and `NaN`; such coordinates are outside the explored domain;
* the per-slot accumulations of `compute_pseudo_normals` are written slot by slot (`vertexAcc`, `edgeAcc`): the
  additions into one slot are performed in the program's order, so the floating-point result is bit-identical;
* the `ena` union–find is abstracted to the connectivity closure (`unite3`: the three `union` calls of
  one triangle merge the classes of its three vertices; class identifier = smallest vertex id of the class);
  the code only uses the representative as an opaque class identifier (`vertex_to_range[group_index]`);
* the QBVH is represented by the coordinates of the triangles `rebuild_qbvh` last ran on (`Mesh.qbvh`);
  `Qbvh::clear_and_rebuild` is a function of the list of leaf boxes;
* `dim3 : Bool` selects the `cfg(feature = "dim3")` blocks.

Two versions of the mutating operations are given:
* `setFlagsW`, `reverseW`, `mergeStepW` … — the code **as written on the pinned tree** (used for the
  `¬ Coherent` witnesses and validated bit-exactly against the pinned tree);
* `setFlags`, `reverse` — the code with `fixes/C11-*.diff` applied (used for the positive theorems and
  by the correspondence).
-/
namespace Model
namespace TM

/-- `u32::MAX` -/
def umax : Nat := 4294967295

/-- one entry `[u32; 3]` of the index buffer -/
structure Tri where
  a : Nat
  b : Nat
  c : Nat
deriving DecidableEq, Repr, Inhabited

/-- `TriMeshFlags` (bitflags over `u16`), one Boolean per bit.
`FIX_INTERNAL_EDGES = (1 << 7) | MERGE_DUPLICATE_VERTICES`: `fix7` is bit 7 alone. -/
structure Flags where
  het : Bool
  ccf : Bool
  delBad : Bool
  oriented : Bool
  merge : Bool
  delDegen : Bool
  delDup : Bool
  fix7 : Bool
deriving DecidableEq, Repr, Inhabited

namespace Flags
def empty : Flags := ⟨false, false, false, false, false, false, false, false⟩
def ofNat (n : Nat) : Flags :=
  ⟨n.testBit 0, n.testBit 1, n.testBit 2, n.testBit 3, n.testBit 4, n.testBit 5, n.testBit 6, n.testBit 7⟩
def toNat (f : Flags) : Nat :=
  (if f.het then 1 else 0) + (if f.ccf then 2 else 0) + (if f.delBad then 4 else 0) + (if f.oriented then 8 else 0)
  + (if f.merge then 16 else 0) + (if f.delDegen then 32 else 0) + (if f.delDup then 64 else 0) + (if f.fix7 then 128 else 0)
/-- `flags & !prev` -/
def diff (f g : Flags) : Flags :=
  ⟨f.het && !g.het, f.ccf && !g.ccf, f.delBad && !g.delBad, f.oriented && !g.oriented,
   f.merge && !g.merge, f.delDegen && !g.delDegen, f.delDup && !g.delDup, f.fix7 && !g.fix7⟩
/-- `intersects(MERGE_DUPLICATE_VERTICES | DELETE_DEGENERATE_TRIANGLES | DELETE_DUPLICATE_TRIANGLES)` -/
def mergeFamily (f : Flags) : Bool := f.merge || f.delDegen || f.delDup
/-- `intersects(HALF_EDGE_TOPOLOGY | DELETE_BAD_TOPOLOGY_TRIANGLES)` -/
def topoFamily (f : Flags) : Bool := f.het || f.delBad
/-- `intersects(ORIENTED | FIX_INTERNAL_EDGES)` — bits 3, 4 and 7 -/
def pnFamily (f : Flags) : Bool := f.oriented || f.merge || f.fix7
end Flags

/-- the geometry the discrete code depends on (no laws here; laws are hypotheses of the theorems) -/
class Geo (V N : Type) where
  veq : V → V → Bool
  nzero : N
  nadd : N → N → N
  nneg : N → N
  /-- `(n, n*ang1, n*ang2, n*ang3)` of the triangle, `none` if `Triangle::normal()` is `None` -/
  contrib : V → V → V → Option (N × N × N × N)

structure HalfEdge where
  next : Nat
  twin : Nat
  vertex : Nat
  face : Nat
deriving DecidableEq, Repr, Inhabited

/-- `TriMeshTopology` (`vertices[i].half_edge`, `faces[i].half_edge`, `half_edges`) -/
structure Topology where
  vertices : List Nat
  faces : List Nat
  halfEdges : List HalfEdge
deriving DecidableEq, Repr, Inhabited

/-- `TriMeshConnectedComponents` -/
structure CC where
  faceColors : List Nat
  groupedFaces : List Nat
  ranges : List Nat
deriving DecidableEq, Repr, Inhabited

/-- `TriMeshPseudoNormals` -/
structure PN (N : Type) where
  vertices : List N
  edges : List (N × N × N)
deriving Repr, DecidableEq

/-- `TopologyError` -/
inductive TopoErr where
  | badTriangle (f : Nat)
  | badAdj (t1 t2 : Nat) (e0 e1 : Nat)
deriving DecidableEq, Repr

/-- a `TriMesh`.  The QBVH is represented by the data it was last built from: `qbvh = some cs` when
`rebuild_qbvh` last ran on triangles with vertex coordinates `cs` (leaf `i` holds the box of `cs[i]`),
`none` for `Qbvh::new()` (no node). -/
structure Mesh (V N : Type) where
  vertices : List V
  indices : List Tri
  pn : Option (PN N)
  topology : Option Topology
  cc : Option CC
  flags : Flags
  qbvh : Option (List (V × V × V)) := none

/-- the derived (cached) data of a mesh -/
structure Derived (N : Type) where
  pn : Option (PN N)
  topology : Option Topology
  cc : Option CC
deriving DecidableEq

def Mesh.derived {V N} (s : Mesh V N) : Derived N := ⟨s.pn, s.topology, s.cc⟩

variable {V N : Type}

/-- every index of the index buffer is a valid vertex id (what `rebuild_qbvh` needs) -/
def inBounds (nv : Nat) (idx : List Tri) : Bool :=
  idx.all fun t => decide (t.a < nv) && decide (t.b < nv) && decide (t.c < nv)

/-! ## `merge_duplicate_vertices` -/

/-- `resolve_coord_id`: the id of `p` in `new_vertices` (first entry equal to `p`), pushing `p` if absent.
Invariant of the Rust loop: the map sends the key stored at position `i` of `new_vertices` to `i`. -/
def resolve [Geo V N] (nv : List V) (p : V) : Nat × List V :=
  match nv.findIdx? (fun q => Geo.veq N p q) with
  | some i => (i, nv)
  | none => (nv.length, nv ++ [p])

/-- `utils::sort3` (increasing), same comparison tree -/
def sort3 (a b c : Nat) : Nat × Nat × Nat :=
  let a_b := decide (a > b)
  let a_c := decide (a > c)
  let b_c := decide (b > c)
  if a_b then
    if a_c then
      if b_c then (c, b, a) else (b, c, a)
    else (b, a, c)
  else
    if !a_c then
      if b_c then (a, c, b) else (a, b, c)
    else (c, a, b)

/-- the loop of `merge_duplicate_vertices` over the triangles (given by the coordinates of their
vertices).  `set` is `triangle_set`. -/
def mergeLoop [Geo V N] (dd ddup : Bool) :
    List (V × V × V) → List V → List Tri → List (Nat × Nat × Nat) → List V × List Tri
  | [], nv, ni, _ => (nv, ni)
  | (pa, pb, pc) :: ts, nv, ni, set =>
    let r1 := resolve (N := N) nv pa
    let r2 := resolve (N := N) r1.2 pb
    let r3 := resolve (N := N) r2.2 pc
    let va := r1.1; let vb := r2.1; let vc := r3.1
    let isDeg := va == vb || va == vc || vb == vc
    if !isDeg || !dd then
      if ddup then
        let s := sort3 va vb vc     -- `(c, b, a) = sort3(..)`; key `(a, b, c)`
        let key := (s.2.2, s.2.1, s.1)
        if set.contains key then mergeLoop dd ddup ts r3.2 ni set
        else mergeLoop dd ddup ts r3.2 (ni ++ [⟨va, vb, vc⟩]) (key :: set)
      else mergeLoop dd ddup ts r3.2 (ni ++ [⟨va, vb, vc⟩]) set
    else mergeLoop dd ddup ts r3.2 ni set

/-- coordinates of the three vertices of a triangle; `none` = `self.vertices[t[k] as usize]` panics -/
def triCoords (vs : List V) (t : Tri) : Option (V × V × V) :=
  match vs[t.a]?, vs[t.b]?, vs[t.c]? with
  | some pa, some pb, some pc => some (pa, pb, pc)
  | _, _, _ => none

/-- all coordinate triples; `none` iff some index is out of bounds -/
def allCoords (vs : List V) : List Tri → Option (List (V × V × V))
  | [] => some []
  | t :: ts => match triCoords vs t, allCoords vs ts with
    | some c, some cs => some (c :: cs)
    | _, _ => none

/-- `merge_duplicate_vertices` on the buffers only -/
def mergeBuffers [Geo V N] (dd ddup : Bool) (vs : List V) (idx : List Tri) : Option (List V × List Tri) :=
  match allCoords vs idx with
  | none => none
  | some cs => some (mergeLoop (N := N) dd ddup cs [] [] [])

/-! ## `delete_bad_topology_triangles` -/

def isDegenerate (t : Tri) : Bool := t.a == t.b || t.a == t.c || t.b == t.c

/-- `indices.retain(..)` with the `half_edge_set` -/
def deleteBadLoop : List Tri → List (Nat × Nat) → List Tri
  | [], _ => []
  | t :: ts, set =>
    if isDegenerate t then deleteBadLoop ts set
    else if set.contains (t.a, t.b) || set.contains (t.b, t.c) || set.contains (t.c, t.a) then deleteBadLoop ts set
    else t :: deleteBadLoop ts ((t.c, t.a) :: (t.b, t.c) :: (t.a, t.b) :: set)

def deleteBad (idx : List Tri) : List Tri := deleteBadLoop idx []

/-! ## `compute_topology` -/

inductive TopoRes where
  | panic
  | err (e : TopoErr)
  | ok (t : Topology)
deriving DecidableEq, Repr

/-- association-list `HashMap::get` -/
def alookup {α β} [BEq α] (k : α) : List (α × β) → Option β
  | [] => none
  | (k', v) :: r => if k == k' then some v else alookup k r

structure TopoState where
  tv : List Nat
  faces : List Nat
  hes : List HalfEdge
  map : List ((Nat × Nat) × Nat)

inductive StepRes where
  | panic
  | err (e : TopoErr)
  | ok (s : TopoState)

/-- body of the inner `for k in 0u32..3` loop -/
def addHalfEdge (st : TopoState) (fid base k v vnext : Nat) : StepRes :=
  let he : HalfEdge := { next := base + (k + 1) % 3, twin := umax, vertex := v, face := fid }
  let hes := st.hes ++ [he]
  match alookup (v, vnext) st.map with
  | some existing =>
    match hes[existing]? with
    | some h => .err (.badAdj h.face fid v vnext)
    | none => .panic
  | none =>
    if v < st.tv.length then
      .ok { st with hes := hes, map := ((v, vnext), base + k) :: st.map, tv := st.tv.set v (base + k) }
    else .panic

/-- first loop of `compute_topology` -/
def topoFaces : List Tri → Nat → TopoState → StepRes
  | [], _, st => .ok st
  | t :: ts, fid, st =>
    let base := st.hes.length
    if isDegenerate t then .err (.badTriangle fid) else
    match addHalfEdge st fid base 0 t.a t.b with
    | .panic => .panic
    | .err e => .err e
    | .ok st1 =>
    match addHalfEdge st1 fid base 1 t.b t.c with
    | .panic => .panic
    | .err e => .err e
    | .ok st2 =>
    match addHalfEdge st2 fid base 2 t.c t.a with
    | .panic => .panic
    | .err e => .err e
    | .ok st3 => topoFaces ts (fid + 1) { st3 with faces := st3.faces ++ [base] }

def setTwin (hes : List HalfEdge) (i t : Nat) : Option (List HalfEdge) :=
  match hes[i]? with
  | some h => some (hes.set i { h with twin := t })
  | none => none

/-- second loop of `compute_topology` (over the entries of `half_edge_map`; the result does not depend on
the iteration order because every key occurs once) -/
def topoTwins (map : List ((Nat × Nat) × Nat)) : List ((Nat × Nat) × Nat) → List HalfEdge → Option (List HalfEdge)
  | [], hes => some hes
  | ((k0, k1), he1) :: r, hes =>
    if k0 < k1 then
      match alookup (k1, k0) map with
      | some he2 =>
        match setTwin hes he1 he2 with
        | none => none
        | some hes1 => match setTwin hes1 he2 he1 with
          | none => none
          | some hes2 => topoTwins map r hes2
      | none => topoTwins map r hes
    else topoTwins map r hes

/-- `compute_topology(false)` on the buffers: `nv = vertices.len()` -/
def computeTopology (nv : Nat) (idx : List Tri) : TopoRes :=
  match topoFaces idx 0 { tv := List.replicate nv umax, faces := [], hes := [], map := [] } with
  | .panic => .panic
  | .err e => .err e
  | .ok st =>
    match topoTwins st.map st.map.reverse st.hes with
    | none => .panic
    | some hes => .ok { vertices := st.tv, faces := st.faces, halfEdges := hes }

/-! ## `compute_connected_components` -/

def min3 (a b c : Nat) : Nat := min (min a b) c

/-- the three `ufind.union` calls of one triangle: the classes of `a`, `b`, `c` become one class
(labelled by the smallest label) -/
def unite3 (labels : List Nat) (t : Tri) : List Nat :=
  let la := labels.getD t.a umax
  let lb := labels.getD t.b umax
  let lc := labels.getD t.c umax
  let m := min3 la lb lc
  labels.map fun l => if l = la ∨ l = lb ∨ l = lc then m else l

def ccLabels (nv : Nat) (idx : List Tri) : List Nat := idx.foldl unite3 (List.range nv)

/-- second loop: face colours and range sizes.  `vtr` = `vertex_to_range`. -/
def colorLoop (labels : List Nat) : List Tri → List Nat → List Nat → List Nat → Option (List Nat × List Nat)
  | [], _, ranges, colors => some (ranges, colors)
  | t :: ts, vtr, ranges, colors =>
    match labels[t.a]? with
    | none => none
    | some g =>
      match vtr[g]? with
      | none => none
      | some r0 =>
        let (vtr, ranges) :=
          if r0 = umax then (vtr.set g ranges.length, ranges ++ [0]) else (vtr, ranges)
        match vtr[g]? with
        | none => none
        | some rid =>
          if rid < ranges.length then
            colorLoop labels ts vtr (ranges.modify rid (· + 1)) (colors ++ [rid - 1])
          else none

/-- `for i in 1..ranges.len() { ranges[i] += ranges[i - 1] }` -/
def cumsumFrom (prev : Nat) : List Nat → List Nat
  | [] => []
  | x :: xs => (x + prev) :: cumsumFrom (x + prev) xs
def cumsum : List Nat → List Nat
  | [] => []
  | x :: xs => x :: cumsumFrom x xs

/-- third loop: group the faces by colour -/
def groupLoop : List Nat → Nat → List Nat → List Nat → Option (List Nat)
  | [], _, _, grouped => some grouped
  | c :: cs, fid, ins, grouped =>
    match ins[c]? with
    | none => none
    | some i =>
      if i < grouped.length then groupLoop cs (fid + 1) (ins.modify c (· + 1)) (grouped.set i fid)
      else none

/-- `compute_connected_components` on the buffers; `none` = an index panics -/
def computeCC (nv : Nat) (idx : List Tri) : Option CC :=
  if !inBounds nv idx then none else
  let labels := ccLabels nv idx
  match colorLoop labels idx (List.replicate nv umax) [0] [] with
  | none => none
  | some (ranges, colors) =>
    let ranges := cumsum ranges
    match groupLoop colors 0 ranges (List.replicate idx.length umax) with
    | none => none
    | some grouped => some { faceColors := colors, groupedFaces := grouped, ranges := ranges }

/-! ## `compute_pseudo_normals` (3-D only) -/

/-- `SortedPair::new` -/
def sortedPair (a b : Nat) : Nat × Nat := if a > b then (b, a) else (a, b)

/-- effect of one triangle on `vertices_pseudo_normal[v]` (the three `+=`, in program order) -/
def vertexStep [Geo V N] (v : Nat) (acc : N) (tc : Tri × Option (N × N × N × N)) : N :=
  match tc.2 with
  | none => acc
  | some (_, w1, w2, w3) =>
    let acc := if tc.1.a = v then Geo.nadd V acc w1 else acc
    let acc := if tc.1.b = v then Geo.nadd V acc w2 else acc
    if tc.1.c = v then Geo.nadd V acc w3 else acc

/-- value of `vertices_pseudo_normal[v]` after the loop: the additions into slot `v`, in program order -/
def vertexAcc [Geo V N] (cs : List (Tri × Option (N × N × N × N))) (v : Nat) : N :=
  cs.foldl (vertexStep (V := V) v) (Geo.nzero V)

/-- `*edges_pseudo_normal.entry(edge).or_insert_with(zeros) += n` if `edge = key` -/
def edgeAdd [Geo V N] (key : Nat × Nat) (n : N) (acc : Option N) (e : Nat × Nat) : Option N :=
  if e = key then some (Geo.nadd V (acc.getD (Geo.nzero V)) n) else acc

/-- effect of one triangle on the entry `key` of `edges_pseudo_normal` (edges are visited in the order
`(0,1)`, `(0,2)`, `(1,2)`) -/
def edgeStep [Geo V N] (key : Nat × Nat) (acc : Option N) (tc : Tri × Option (N × N × N × N)) : Option N :=
  match tc.2 with
  | none => acc
  | some (n, _, _, _) =>
    edgeAdd (V := V) key n (edgeAdd (V := V) key n (edgeAdd (V := V) key n acc (sortedPair tc.1.a tc.1.b))
      (sortedPair tc.1.a tc.1.c)) (sortedPair tc.1.b tc.1.c)

/-- value of `edges_pseudo_normal.get(key)`: the additions into that entry, in program order;
`none` if the key was never inserted -/
def edgeAcc [Geo V N] (cs : List (Tri × Option (N × N × N × N))) (key : Nat × Nat) : Option N :=
  cs.foldl (edgeStep (V := V) key) none

/-- `compute_pseudo_normals` on the buffers; `none` = an index panics -/
def computePN [Geo V N] (vs : List V) (idx : List Tri) : Option (PN N) :=
  match allCoords vs idx with
  | none => none
  | some coords =>
    let cs : List (Tri × Option (N × N × N × N)) :=
      (idx.zip coords).map fun tc => (tc.1, Geo.contrib tc.2.1 tc.2.2.1 tc.2.2.2)
    let get (e : Nat × Nat) : N := (edgeAcc (V := V) cs e).getD (Geo.nzero V)
    some {
      vertices := (List.range vs.length).map (vertexAcc (V := V) cs)
      edges := idx.map fun t => (get (sortedPair t.a t.b), get (sortedPair t.b t.c), get (sortedPair t.c t.a)) }

/-! ## state-level steps -/

/-- `rebuild_qbvh` reads `vertices[idx[k]]` for every triangle (`none` = panic) and rebuilds the tree from the
triangles' boxes -/
def rebuildQbvh (s : Mesh V N) : Option (Mesh V N) :=
  match allCoords s.vertices s.indices with
  | none => none
  | some cs => some { s with qbvh := some cs }

/-- `compute_connected_components` -/
def ccStep (s : Mesh V N) : Option (Mesh V N) :=
  match computeCC s.vertices.length s.indices with
  | none => none
  | some c => some { s with cc := some c }

/-- `compute_pseudo_normals` -/
def pnStep [Geo V N] (s : Mesh V N) : Option (Mesh V N) :=
  match computePN s.vertices s.indices with
  | none => none
  | some p => some { s with pn := some p }

/-- `compute_topology(delete_bad_triangles)` **as written**: on error the previous `topology` is kept -/
def topoStepW (s : Mesh V N) (del : Bool) : Option (Mesh V N × Option TopoErr) :=
  let s := if del then { s with indices := deleteBad s.indices } else s
  match computeTopology s.vertices.length s.indices with
  | .panic => none
  | .err e => some (s, some e)
  | .ok t => some ({ s with topology := some t }, none)

/-- `compute_topology(delete_bad_triangles)` with `fixes/C11-set-flags-stale.diff`: the previous topology is
discarded first, so that after an error `topology` is `None` -/
def topoStep (s : Mesh V N) (del : Bool) : Option (Mesh V N × Option TopoErr) :=
  topoStepW { s with topology := none } del

/-- `merge_duplicate_vertices` **as written** (with the recomputations it performs itself) -/
def mergeStepW [Geo V N] (dim3 : Bool) (s : Mesh V N) (dd ddup : Bool) : Option (Mesh V N) :=
  match mergeBuffers (N := N) dd ddup s.vertices s.indices with
  | none => none
  | some (nv, ni) =>
    let s := { s with vertices := nv, indices := ni }
    let s? := if dim3 && s.pn.isSome then pnStep s else some s
    match s? with
    | none => none
    | some s =>
      if dim3 && s.topology.isSome then
        match topoStepW s false with
        | none => none
        | some (s, _) => some s
      else some s

/-- `merge_duplicate_vertices` with the fix: only the buffers change (`set_flags` recomputes) -/
def mergeStep [Geo V N] (s : Mesh V N) (dd ddup : Bool) : Option (Mesh V N) :=
  match mergeBuffers (N := N) dd ddup s.vertices s.indices with
  | none => none
  | some (nv, ni) => some { s with vertices := nv, indices := ni }

/-! `set_flags` with `fixes/C11-set-flags-stale.diff`, stage by stage.  `diff` is the Rust variable `difference`:
what still has to be (re)computed; it is reset to `flags` as soon as the buffers have changed. -/

/-- the three `= None` resets at the top of `set_flags` -/
def dropStage (dim3 : Bool) (s : Mesh V N) (flags : Flags) : Mesh V N :=
  let s := if !flags.topoFamily then { s with topology := none } else s
  let s := if dim3 && !flags.pnFamily then { s with pn := none } else s
  if !flags.ccf then { s with cc := none } else s

def mergeStage [Geo V N] (s : Mesh V N) (flags diff : Flags) : Option (Mesh V N × Flags) :=
  if diff.mergeFamily then (mergeStep s flags.delDegen flags.delDup).map (·, flags) else some (s, diff)

def topoStage (s : Mesh V N) (flags diff : Flags) : Option (Mesh V N × Option TopoErr × Flags) :=
  if diff.topoFamily then
    (topoStep s flags.delBad).map fun sr =>
      (sr.1, sr.2, if sr.1.indices.length != s.indices.length then flags else diff)
  else some (s, none, diff)

def ccStage (s : Mesh V N) (diff : Flags) : Option (Mesh V N) :=
  if diff.ccf then ccStep s else some s

def pnStage [Geo V N] (dim3 : Bool) (s : Mesh V N) (diff : Flags) : Option (Mesh V N) :=
  if dim3 && diff.pnFamily then pnStep s else some s

def qbvhStage (prevLen : Nat) (s : Mesh V N) : Option (Mesh V N) :=
  if prevLen != s.indices.length then rebuildQbvh s else some s

/-- `set_flags` with `fixes/C11-set-flags-stale.diff` -/
def setFlags [Geo V N] (dim3 : Bool) (s : Mesh V N) (flags : Flags) : Option (Mesh V N × Option TopoErr) :=
  (mergeStage (dropStage dim3 s flags) flags (flags.diff s.flags)).bind fun s1 =>
  (topoStage s1.1 flags s1.2).bind fun s2 =>
  (ccStage s2.1 s2.2.2).bind fun s3 =>
  (pnStage dim3 s3 s2.2.2).bind fun s4 =>
  (qbvhStage s.indices.length s4).bind fun s5 =>
  some ({ s5 with flags := flags }, s2.2.1)

/-! `set_flags` **as written on the pinned tree**, stage by stage -/

def dropStageW (dim3 : Bool) (s : Mesh V N) (flags : Flags) : Mesh V N :=
  let s := if !flags.het then { s with topology := none } else s
  let s := if dim3 && !flags.pnFamily then { s with pn := none } else s
  if !flags.ccf then { s with cc := none } else s

def mergeStageW [Geo V N] (dim3 : Bool) (s : Mesh V N) (flags diff : Flags) : Option (Mesh V N) :=
  if diff.mergeFamily then mergeStepW dim3 s flags.delDegen flags.delDup else some s

def topoStageW (s : Mesh V N) (flags diff : Flags) : Option (Mesh V N × Option TopoErr) :=
  if diff.topoFamily then topoStepW s flags.delBad else some (s, none)

/-- `set_flags` **as written on the pinned tree**: `difference` is never updated -/
def setFlagsW [Geo V N] (dim3 : Bool) (s : Mesh V N) (flags : Flags) : Option (Mesh V N × Option TopoErr) :=
  (mergeStageW dim3 (dropStageW dim3 s flags) flags (flags.diff s.flags)).bind fun s1 =>
  (topoStageW s1 flags (flags.diff s.flags)).bind fun s2 =>
  (ccStage s2.1 (flags.diff s.flags)).bind fun s3 =>
  (pnStage dim3 s3 (flags.diff s.flags)).bind fun s4 =>
  (qbvhStage s.indices.length s4).bind fun s5 =>
  some ({ s5 with flags := flags }, s2.2)

def blank (vs : List V) (idx : List Tri) : Mesh V N :=
  { vertices := vs, indices := idx, pn := none, topology := none, cc := none, flags := Flags.empty, qbvh := none }

/-- result of `TriMesh::with_flags` -/
inductive Built (V N : Type) where
  | panic
  | emptyIndices
  | ok (s : Mesh V N)

/-- `if result.qbvh.raw_nodes().is_empty() { result.rebuild_qbvh() }` -/
def ensureQbvh (s : Mesh V N) : Option (Mesh V N) :=
  if s.qbvh.isNone then rebuildQbvh s else some s

/-- `with_flags` without the `indices.is_empty()` test: `set_flags` on the blank mesh, then the QBVH if
`set_flags` has not built it -/
def buildCore [Geo V N] (dim3 : Bool) (vs : List V) (idx : List Tri) (flags : Flags) : Option (Mesh V N) :=
  match setFlags dim3 (blank vs idx) flags with
  | none => none
  | some (s, _) => ensureQbvh s

def buildCoreW [Geo V N] (dim3 : Bool) (vs : List V) (idx : List Tri) (flags : Flags) : Option (Mesh V N) :=
  match setFlagsW dim3 (blank vs idx) flags with
  | none => none
  | some (s, _) => ensureQbvh s

/-- `TriMesh::with_flags` -/
def withFlags [Geo V N] (dim3 : Bool) (vs : List V) (idx : List Tri) (flags : Flags) : Built V N :=
  if idx.isEmpty then .emptyIndices else
  match buildCore dim3 vs idx flags with
  | none => .panic
  | some s => .ok s

def withFlagsW [Geo V N] (dim3 : Bool) (vs : List V) (idx : List Tri) (flags : Flags) : Built V N :=
  if idx.isEmpty then .emptyIndices else
  match buildCoreW dim3 vs idx flags with
  | none => .panic
  | some s => .ok s

def negPN [Geo V N] (p : PN N) (swap : Bool) : PN N :=
  { vertices := p.vertices.map (Geo.nneg V)
    edges := p.edges.map fun e =>
      if swap then (Geo.nneg V e.1, Geo.nneg V e.2.2, Geo.nneg V e.2.1)
      else (Geo.nneg V e.1, Geo.nneg V e.2.1, Geo.nneg V e.2.2) }

def revIdx (idx : List Tri) : List Tri := idx.map fun t => ⟨t.b, t.a, t.c⟩

/-- `reverse` **as written**: indices swapped, pseudo-normals negated in place, topology recomputed only
under `HALF_EDGE_TOPOLOGY` -/
def reverseW [Geo V N] (dim3 : Bool) (s : Mesh V N) : Option (Mesh V N) :=
  let s := { s with indices := revIdx s.indices }
  let s := if dim3 then { s with pn := s.pn.map (negPN (V := V) · false) } else s
  if s.flags.het then
    match topoStepW s false with
    | none => none
    | some (s, _) => some s
  else some s

/-- `if flags.intersects(HALF_EDGE_TOPOLOGY | DELETE_BAD_TOPOLOGY_TRIANGLES) { let _ = self.compute_topology(false); }` -/
def retopo (s : Mesh V N) : Option (Mesh V N) :=
  if s.flags.topoFamily then
    match topoStep s false with
    | none => none
    | some (s, _) => some s
  else some s

/-- `reverse` with `fixes/C11-reverse.diff`: edge pseudo-normals 1 and 2 exchanged, topology recomputed
whenever the flags keep one -/
def reverse [Geo V N] (dim3 : Bool) (s : Mesh V N) : Option (Mesh V N) :=
  let s := { s with indices := revIdx s.indices }
  let s := if dim3 then { s with pn := s.pn.map (negPN (V := V) · true) } else s
  retopo s

/-- image of the pseudo-normals under a map of the normals -/
def mapPN (fN : N → N) (p : PN N) : PN N :=
  { vertices := p.vertices.map fN, edges := p.edges.map fun e => (fN e.1, fN e.2.1, fN e.2.2) }

/-- `transform_vertices(transform)`: `fV` is `transform * point`, `fN` is `transform * vector` (the rotation).
Vertices are moved, the QBVH is rebuilt, the pseudo-normals are rotated in place; topology and connected
components are kept. -/
def transformVertices (fV : V → V) (fN : N → N) (s : Mesh V N) : Option (Mesh V N) :=
  match rebuildQbvh { s with vertices := s.vertices.map fV } with
  | none => none
  | some s => some { s with pn := s.pn.map (mapPN fN) }

/-- buffers of `append` before the rebuild -/
def appendBuffers (s rhs : Mesh V N) : List V × List Tri :=
  let base := s.vertices.length
  (s.vertices ++ rhs.vertices, s.indices ++ rhs.indices.map fun t => ⟨t.a + base, t.b + base, t.c + base⟩)

/-- `append`: `none` = panic (`with_flags(..).unwrap()` on `EmptyIndices`, or an index out of bounds) -/
def append [Geo V N] (dim3 : Bool) (s rhs : Mesh V N) : Option (Mesh V N) :=
  let b := appendBuffers s rhs
  match withFlags dim3 b.1 b.2 s.flags with
  | .ok s' => some s'
  | _ => none

def appendW [Geo V N] (dim3 : Bool) (s rhs : Mesh V N) : Option (Mesh V N) :=
  let b := appendBuffers s rhs
  match withFlagsW dim3 b.1 b.2 s.flags with
  | .ok s' => some s'
  | _ => none

/-! ## specification side: what the flags call for, computed from the buffers as they are -/

def topoOf (nv : Nat) (idx : List Tri) : Option Topology :=
  match computeTopology nv idx with
  | .ok t => some t
  | _ => none

/-- the derived data the flags `f` ask for, computed directly from the buffers (no buffer is changed).
This is what a fresh `TriMesh::with_flags` on these buffers exposes whenever it leaves them as they are. -/
def derive [Geo V N] (dim3 : Bool) (vs : List V) (idx : List Tri) (f : Flags) : Derived N :=
  { pn := if dim3 && f.pnFamily then computePN vs idx else none
    topology := if f.topoFamily then topoOf vs.length idx else none
    cc := if f.ccf then computeCC vs.length idx else none }

/-- operations of a history -/
inductive Op (V N : Type) where
  | setFlags (f : Flags)
  | reverse
  | append (rhs : Mesh V N)
  | transform (fV : V → V) (fN : N → N)

def step [Geo V N] (dim3 : Bool) (s : Mesh V N) : Op V N → Option (Mesh V N)
  | .setFlags f => (setFlags dim3 s f).map (·.1)
  | .reverse => reverse dim3 s
  | .append rhs => append dim3 s rhs
  | .transform fV fN => transformVertices fV fN s

def stepW [Geo V N] (dim3 : Bool) (s : Mesh V N) : Op V N → Option (Mesh V N)
  | .setFlags f => (setFlagsW dim3 s f).map (·.1)
  | .reverse => reverseW dim3 s
  | .append rhs => appendW dim3 s rhs
  | .transform fV fN => transformVertices fV fN s


/-! ## `scaled`

`TriMesh::scaled(self, scale)`:
* every vertex is multiplied component-wise by `scale` (`fV`);
* the QBVH is **not** rebuilt: `Qbvh::scaled(scale)` applies `Aabb::scaled(scale)` to the root box and to the four
  boxes of every node.  In the representation of the model (`Mesh.qbvh` = the triangles whose boxes the leaves hold)
  this is: every recorded triangle is mapped by `fV`.  That `Aabb::scaled` of the box of a triangle is the box of the
  scaled triangle — for **every** sign of the scale components, `Aabb::scaled` re-sorts the bounds — is
  `aabbScaled3_triBox3` / `aabbScaled2_triBox2` (Theorems2) for the closed forms below; at `Float` it is checked bit for
  bit by the protocol functions `boxscale3` / `boxscale2` and, on every state of every history, by the leaf-box dump;
* topology, connected components and flags are kept (they do not look at the coordinates);
* pseudo-normals (3-D): **as written** each cached normal is multiplied component-wise by `scale` and re-normalised
  (`fN`) — not what a fresh build computes (see `scaledW_not_coherent`); with `fixes/C11-scaled-pseudo-normals.diff` they
  are recomputed from the scaled vertices. -/

def mapTri (fV : V → V) (c : V × V × V) : V × V × V := (fV c.1, fV c.2.1, fV c.2.2)

/-- `scaled` **as written**: `fN n` is `n.component_mul(scale)` followed by `try_normalize_mut(0.0)` -/
def scaledW (dim3 : Bool) (fV : V → V) (fN : N → N) (s : Mesh V N) : Mesh V N :=
  { s with vertices := s.vertices.map fV,
           pn := if dim3 then s.pn.map (mapPN fN) else s.pn,
           qbvh := s.qbvh.map (·.map (mapTri fV)) }

/-- `scale.iter().filter(|s| **s < 0.0).count() % 2 == 1` is the argument `mirror` of `scaled` (computed from the scale
vector by the caller: `mirrorOf`). -/
def mirrorOf {K : Type} [Num K] (scale : List K) : Bool :=
  (scale.filter fun x => decide (x < 0)).length % 2 == 1

/-- the part of `scaled` after the vertices have been scaled and before `Qbvh::scaled`: the `reverse()` of commit
1a6b99a (ORIENTED mesh, 3-D, mirroring scale), then the recomputation of the cached pseudo-normals -/
def rewind [Geo V N] (dim3 mirror : Bool) (s : Mesh V N) : Option (Mesh V N) :=
  if dim3 && s.flags.oriented && mirror then reverse dim3 s else some s

def repn [Geo V N] (dim3 : Bool) (s : Mesh V N) : Option (Mesh V N) :=
  if dim3 && s.pn.isSome then pnStep s else some s

/-- `TriMesh::scaled` (current tree: `fixes/C11-scaled-pseudo-normals.diff` and commit 1a6b99a), in program order:
1. every vertex is scaled (`fV`);
2. 3-D, `ORIENTED`, odd number of negative factors (`mirror`): `self.reverse()` — the winding is flipped back so that it
   is outward again (index buffer `[b, a, c]`, cached pseudo-normals negated with edge slots 1/2 exchanged, topology
   recomputed when the flags keep one; the QBVH is not touched);
3. 3-D: cached pseudo-normals are recomputed from the scaled vertices and the (possibly reversed) index buffer;
4. `Qbvh::scaled(scale)`: every recorded triangle is mapped by `fV`.
`none` = `compute_pseudo_normals` / `compute_topology` indexes out of bounds. -/
def scaled [Geo V N] (dim3 mirror : Bool) (fV : V → V) (s : Mesh V N) : Option (Mesh V N) :=
  let s1 : Mesh V N := { s with vertices := s.vertices.map fV }
  ((rewind dim3 mirror s1).bind (repn dim3)).map fun s3 => { s3 with qbvh := s3.qbvh.map (·.map (mapTri fV)) }

/-- `scaled` before commit 1a6b99a (index buffer always kept) = the non-mirroring / non-ORIENTED branch of `scaled`
(`scaled_eq_keep`) -/
def scaledKeep [Geo V N] (dim3 : Bool) (fV : V → V) (s : Mesh V N) : Option (Mesh V N) :=
  let s1 : Mesh V N := { s with vertices := s.vertices.map fV, qbvh := s.qbvh.map (·.map (mapTri fV)) }
  if dim3 && s1.pn.isSome then pnStep s1 else some s1

/-- operations of a history, with `scaled` -/
inductive Op2 (V N : Type) where
  | base (op : Op V N)
  /-- `scaled`: `fV` = component-wise product with the scale; `fN` (as-written code only) = product + normalisation;
  `mirror` = the scale has an odd number of negative factors -/
  | scale (fV : V → V) (fN : N → N) (mirror : Bool)

def step2 [Geo V N] (dim3 : Bool) (s : Mesh V N) : Op2 V N → Option (Mesh V N)
  | .base op => step dim3 s op
  | .scale fV _ mirror => scaled dim3 mirror fV s

def stepW2 [Geo V N] (dim3 : Bool) (s : Mesh V N) : Op2 V N → Option (Mesh V N)
  | .base op => stepW dim3 s op
  | .scale fV fN _ => some (scaledW dim3 fV fN s)

/-! ### closed forms: `Triangle::local_aabb`, `Aabb::scaled`, `Aabb::merged` (boxes are `(mins, maxs)`) -/

section Boxes
variable {K : Type} [Num K]

/-- `Triangle::local_aabb`: `a[d].min(b[d]).min(c[d])`, `a[d].max(b[d]).max(c[d])` -/
def triBox3 (c : V3 K × V3 K × V3 K) : V3 K × V3 K := ((c.1.inf c.2.1).inf c.2.2, (c.1.sup c.2.1).sup c.2.2)
def triBox2 (c : V2 K × V2 K × V2 K) : V2 K × V2 K := ((c.1.inf c.2.1).inf c.2.2, (c.1.sup c.2.1).sup c.2.2)

/-- `Aabb::scaled`: `a = mins ∘ scale`, `b = maxs ∘ scale`, result `(a.inf(b), a.sup(b))` -/
def aabbScaled3 (b : V3 K × V3 K) (s : V3 K) : V3 K × V3 K :=
  let a := b.1.cmul s
  let c := b.2.cmul s
  (a.inf c, a.sup c)
def aabbScaled2 (b : V2 K × V2 K) (s : V2 K) : V2 K × V2 K :=
  let a := b.1.cmul s
  let c := b.2.cmul s
  (a.inf c, a.sup c)

/-- `Aabb::merged` -/
def aabbMerged3 (a b : V3 K × V3 K) : V3 K × V3 K := (a.1.inf b.1, a.2.sup b.2)
def aabbMerged2 (a b : V2 K × V2 K) : V2 K × V2 K := (a.1.inf b.1, a.2.sup b.2)

/-- `pt.coords.component_mul_assign(scale)` -/
def scalePt3 (s p : V3 K) : V3 K := p.cmul s
def scalePt2 (s p : V2 K) : V2 K := p.cmul s

/-- `n.component_mul_assign(scale); let _ = n.try_normalize_mut(0.0);` -/
def scaleNormal3 (s n : V3 K) : V3 K :=
  let m := n.cmul s
  let l := m.norm
  if l ≤ 0 then m else m.sdiv l

/-- the box of the whole tree: merge of the leaf boxes (first box, then the others in order) -/
def mergeBoxes3 (b : V3 K × V3 K) (bs : List (V3 K × V3 K)) : V3 K × V3 K := bs.foldl aabbMerged3 b
def mergeBoxes2 (b : V2 K × V2 K) (bs : List (V2 K × V2 K)) : V2 K × V2 K := bs.foldl aabbMerged2 b
end Boxes

end TM
end Model
