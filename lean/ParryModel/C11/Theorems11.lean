import ParryModel.Field
import ParryModel.C11.Lemmas
import ParryModel.C11.Theorems2
import ParryModel.C11.Theorems3
import ParryModel.C11.Theorems10
/-!
# C11, `TriMesh::triangle_normal_constraints` (FIX_INTERNAL_EDGES; fu5)

The observed item `triangle_normal_constraints(i)` is a function of the flags, the two buffers and the cached
pseudo-normals (model: `triangleNormalConstraints`, PseudoNormals.lean; bit-exact protocol function `tnc3`).

* `tryUnit_some_iff`, `tryUnit_unit` — nalgebra `Unit::try_new(v, m)`: `Some` iff `m² < |v|²`; the result has unit length,
  is parallel to `v` and points the same way;
* `tnc_without_flag` — `None` unless the flags contain `FIX_INTERNAL_EDGES` (bit 7 AND `MERGE_DUPLICATE_VERTICES`);
* **`tnc_coherent`** — on a coherent mesh the answer is `tncFresh vertices indices flags i`: it depends on the buffers and
  flags only (what a fresh mesh on the same buffers answers); **`history2_tnc_real`**: so it is after ANY history of
  `set_flags` / `reverse` / `append` / `transform_vertices` / `scaled`;
* `tncFresh_spec` — the fresh answer, spelled out: `face = Unit::try_new((b - a) × (c - a), f64::EPSILON)`, `edges[k] =
  Unit::try_new(Σ normals of the triangles containing the undirected edge {idx[k], idx[(k+1)%3]}, 1e-6)` (sum in program
  order, from `edgeAcc_eq_sum`), `None` as soon as one of the four fails; `tncFresh_no_panic`;
* `tnc_units` — every returned vector has unit length and `face` is the positive unit multiple of the scaled normal.
-/
namespace C11
open Model Model.TM

/-- what a mesh built from these buffers with these flags answers: the cached pseudo-normals are the ones the flags ask
for, computed from the buffers -/
def tncFresh {K : Type} [Num K] [Geo (V3 K) (V3 K)] (vs : List (V3 K)) (idx : List Tri) (f : Flags) (i : Nat) : TncRes K :=
  triangleNormalConstraints
    ({ (blank vs idx : Mesh (V3 K) (V3 K)) with flags := f, pn := (derive (N := V3 K) true vs idx f).pn }) i

/-- the answer reads the flags, the buffers and the cached pseudo-normals only -/
theorem tnc_congr {K : Type} [Num K] (s s' : Mesh (V3 K) (V3 K)) (i : Nat)
    (hv : s.vertices = s'.vertices) (hi : s.indices = s'.indices) (hf : s.flags = s'.flags) (hp : s.pn = s'.pn) :
    triangleNormalConstraints s i = triangleNormalConstraints s' i := by
  unfold triangleNormalConstraints
  rw [hv, hi, hf, hp]

/-- **derived data match the buffers, for the observed item `triangle_normal_constraints`**: on a coherent mesh the
answer is the one computed from the current buffers and flags -/
theorem tnc_coherent {K : Type} [Num K] [Geo (V3 K) (V3 K)] (s : Mesh (V3 K) (V3 K)) (i : Nat) (hc : Coherent true s) :
    triangleNormalConstraints s i = tncFresh s.vertices s.indices s.flags i := by
  unfold tncFresh
  apply tnc_congr
  · rfl
  · rfl
  · rfl
  · unfold Coherent at hc
    have := congrArg Derived.pn hc
    simpa [Mesh.derived] using this

/-- `None` unless the flags contain `FIX_INTERNAL_EDGES` = bit 7 together with `MERGE_DUPLICATE_VERTICES` -/
theorem tnc_without_flag {K : Type} [Num K] (s : Mesh (V3 K) (V3 K)) (i : Nat)
    (h : ¬ (s.flags.fix7 = true ∧ s.flags.merge = true)) : triangleNormalConstraints s i = .ret none := by
  unfold triangleNormalConstraints
  have : (s.flags.fix7 && s.flags.merge) = false := by
    cases h1 : s.flags.fix7 <;> cases h2 : s.flags.merge <;> simp_all
  simp [this]

/-- the sum the entry of an undirected edge holds: the normals of the triangles (having a normal) that contain the edge, in
program order -/
def edgeSum {K : Type} [Num K] [G : Geo (V3 K) (V3 K)] (vs : List (V3 K)) (idx : List Tri) (key : Nat × Nat) : V3 K :=
  match allCoords vs idx with
  | none => G.nzero
  | some coords =>
    (((idx.zip coords).map fun tc => (tc.1, (G.contrib tc.2.1 tc.2.2.1 tc.2.2.2))).flatMap (edgeTerms key)).foldl G.nadd G.nzero

/-- **the fresh answer, spelled out** (flags with FIX_INTERNAL_EDGES, triangle `i = t` with corners `a b c`) -/
theorem tncFresh_spec {K : Type} [Num K] [G : Geo (V3 K) (V3 K)] (vs : List (V3 K)) (idx : List Tri) (f : Flags) (i : Nat)
    (t : Tri) (a b c : V3 K) (hf : f.fix7 = true ∧ f.merge = true) (ht : idx[i]? = some t)
    (hb : allCoords vs idx ≠ none) (hc : triCoords vs t = some (a, b, c)) :
    tncFresh vs idx f i = .ret (do
      let face ← tryUnit ((b.sub a).cross (c.sub a)) epsK
      let e0 ← tryUnit (edgeSum vs idx (sortedPair t.a t.b)) (lit 1 1000000)
      let e1 ← tryUnit (edgeSum vs idx (sortedPair t.b t.c)) (lit 1 1000000)
      let e2 ← tryUnit (edgeSum vs idx (sortedPair t.c t.a)) (lit 1 1000000)
      pure ⟨face, e0, e1, e2⟩) := by
  unfold tncFresh triangleNormalConstraints
  have hpf : f.pnFamily = true := by simp [Flags.pnFamily, hf.1]
  simp only [blank, hf.1, hf.2, Bool.and_self, if_true, ht, hc, derive, Bool.true_and, hpf]
  unfold computePN edgeSum
  cases hco : allCoords vs idx with
  | none => exact absurd hco hb
  | some coords =>
    simp only [List.getElem?_map, ht, Option.map_some]
    simp only [edgeAcc_eq_sum]

/-- no panic on a well-formed index buffer -/
theorem tncFresh_no_panic {K : Type} [Num K] [G : Geo (V3 K) (V3 K)] (vs : List (V3 K)) (idx : List Tri) (f : Flags) (i : Nat)
    (hw : inBounds vs.length idx = true) (hi : i < idx.length) : tncFresh vs idx f i ≠ .panic := by
  by_cases hf : f.fix7 = true ∧ f.merge = true
  · obtain ⟨t, ht⟩ : ∃ t, idx[i]? = some t := ⟨idx[i], by simp [hi]⟩
    have hb : allCoords vs idx ≠ none := by
      have := (allCoords_isSome_iff vs idx).mpr hw
      intro h; rw [h] at this; cases this
    have htb : t.a < vs.length ∧ t.b < vs.length ∧ t.c < vs.length := by
      have hm : t ∈ idx := List.mem_of_getElem? ht
      unfold inBounds at hw
      have := List.all_eq_true.mp hw t hm
      simpa [Bool.and_eq_true, and_assoc] using this
    obtain ⟨pa, hpa⟩ : ∃ p, vs[t.a]? = some p := ⟨vs[t.a]'htb.1, by simp [htb.1]⟩
    obtain ⟨pb, hpb⟩ : ∃ p, vs[t.b]? = some p := ⟨vs[t.b]'htb.2.1, by simp [htb.2.1]⟩
    obtain ⟨pc, hpc⟩ : ∃ p, vs[t.c]? = some p := ⟨vs[t.c]'htb.2.2, by simp [htb.2.2]⟩
    have hc : triCoords vs t = some (pa, pb, pc) := by simp [triCoords, hpa, hpb, hpc]
    rw [tncFresh_spec vs idx f i t pa pb pc hf ht hb hc]
    intro h; cases h
  · unfold tncFresh
    rw [tnc_without_flag _ i hf]
    intro h; cases h

section
variable {K : Type} [Field K] [LinearOrder K] [IsStrictOrderedRing K] (sq : K → K)

/-- nalgebra `Unit::try_new(v, m)`: `Some(v / sqrt(|v|²))` iff `m² < |v|²` -/
theorem tryUnit_some_iff (v u : V3 K) (m : K) :
    letI := fieldNum K sq
    tryUnit v m = some u ↔ m * m < v.dot v ∧ u = v.sdiv (sq (v.dot v)) := by
  letI := fieldNum K sq
  unfold tryUnit
  by_cases h1 : m * m < v.normSq
  · have h1' : v.normSq > m * m := h1
    rw [if_pos h1']
    constructor
    · intro h
      simp only [Option.some.injEq] at h
      exact ⟨h1, h.symm⟩
    · rintro ⟨_, rfl⟩; rfl
  · have h1' : ¬ v.normSq > m * m := h1
    rw [if_neg h1']
    constructor
    · intro h; cases h
    · rintro ⟨h2, _⟩; exact absurd h2 h1

/-- the vector `Unit::try_new` returns has unit length, is parallel to the argument and points the same way -/
theorem tryUnit_unit (hs : LawfulSqrt sq) (v u : V3 K) (m : K) :
    letI := fieldNum K sq
    tryUnit v m = some u → u.dot u = 1 ∧ 0 < u.dot v ∧ u.cross v = ⟨0, 0, 0⟩ := by
  letI := fieldNum K sq
  intro h
  obtain ⟨h1, rfl⟩ := (tryUnit_some_iff sq v u m).mp h
  have hpos : 0 < v.dot v := lt_of_le_of_lt (mul_self_nonneg m) h1
  have hr2 : sq (v.dot v) * sq (v.dot v) = v.dot v := hs.sq_mul _ hpos.le
  have hr0 : 0 ≤ sq (v.dot v) := hs.nonneg _ hpos.le
  have hrne : sq (v.dot v) ≠ 0 := by
    intro h0; rw [h0] at hr2; simp at hr2; exact (ne_of_gt hpos) hr2.symm
  have hrpos : 0 < sq (v.dot v) := lt_of_le_of_ne hr0 (Ne.symm hrne)
  generalize sq (v.dot v) = r at hr2 hrne hrpos
  simp only [V3.dot, V3.sdiv, V3.cross, V3.mk.injEq] at hr2 ⊢
  refine ⟨?_, ?_, ?_, ?_, ?_⟩
  · field_simp
    linarith
  · have : v.x / r * v.x + v.y / r * v.y + v.z / r * v.z = (v.x * v.x + v.y * v.y + v.z * v.z) / r := by
      field_simp
    rw [this, ← hr2]
    have : r * r / r = r := by field_simp
    rw [this]; exact hrpos
  · field_simp; ring
  · field_simp; ring
  · field_simp; ring

/-- **every vector `triangle_normal_constraints` returns is a unit vector, and `face` is the positive unit multiple of
`(b - a) × (c - a)`** -/
theorem tnc_units (hs : LawfulSqrt sq) (s : Mesh (V3 K) (V3 K)) (i : Nat) (r : TriPN K) :
    letI := fieldNum K sq
    triangleNormalConstraints s i = .ret (some r) →
    r.face.dot r.face = 1 ∧ r.e0.dot r.e0 = 1 ∧ r.e1.dot r.e1 = 1 ∧ r.e2.dot r.e2 = 1 ∧
    ∃ t a b c, s.indices[i]? = some t ∧ triCoords s.vertices t = some (a, b, c) ∧
      0 < r.face.dot ((b.sub a).cross (c.sub a)) ∧ r.face.cross ((b.sub a).cross (c.sub a)) = ⟨0, 0, 0⟩ := by
  letI := fieldNum K sq
  intro h
  unfold triangleNormalConstraints at h
  split at h
  · split at h
    · cases h
    · rename_i t ht
      split at h
      · cases h
      · rename_i a b c hc
        split at h
        · cases h
        · rename_i pn hpn
          split at h
          · cases h
          · rename_i e he
            simp only [TncRes.ret.injEq] at h
            cases h1 : tryUnit ((b.sub a).cross (c.sub a)) epsK with
            | none => rw [h1] at h; simp at h
            | some f =>
              cases h2 : tryUnit e.1 (lit 1 1000000) with
              | none => rw [h1, h2] at h; simp at h
              | some e0 =>
                cases h3 : tryUnit e.2.1 (lit 1 1000000) with
                | none => rw [h1, h2, h3] at h; simp at h
                | some e1 =>
                  cases h4 : tryUnit e.2.2 (lit 1 1000000) with
                  | none => rw [h1, h2, h3, h4] at h; simp at h
                  | some e2 =>
                    rw [h1, h2, h3, h4] at h
                    simp only [Option.bind_eq_bind, Option.bind_some, Option.pure_def, Option.some.injEq] at h
                    subst h
                    obtain ⟨u1, u2, u3⟩ := tryUnit_unit sq hs _ _ _ h1
                    exact ⟨u1, (tryUnit_unit sq hs _ _ _ h2).1, (tryUnit_unit sq hs _ _ _ h3).1,
                      (tryUnit_unit sq hs _ _ _ h4).1, t, a, b, c, ht, hc, u2, u3⟩
  · cases h

/-- **C11 for `triangle_normal_constraints`, concrete 3-D geometry**: after `with_flags` and any finite sequence of
`set_flags`, `reverse`, `append`, `transform_vertices` (unit quaternion) and `scaled` (any scale), the constraints of every
triangle are the ones computed from the current buffers and flags -/
theorem history2_tnc_real (acos : K → K) (vs : List (V3 K)) (idx : List Tri) (f : Flags)
    (ops : List (Op2 (V3 K) (V3 K))) :
    letI := fieldNum K sq
    letI := geoK acos
    (∀ op ∈ ops, RealOp op) →
    ∀ s0 s : Mesh (V3 K) (V3 K), withFlags true vs idx f = .ok s0 → run2 true s0 ops = some s →
      ∀ i, triangleNormalConstraints s i = tncFresh s.vertices s.indices s.flags i := by
  letI := fieldNum K sq
  letI := geoK acos
  intro hops s0 s h0 h i
  exact tnc_coherent s i (history2_coherent_real sq acos vs idx f ops hops s0 s h0 h)

end

/-- non-vacuity: one triangle in the plane `z = 0`, flags `FIX_INTERNAL_EDGES` (144 = bit 7 + MERGE): the face normal and the
three edge pseudo-normals are `(0, 0, 1)` (`sq := id` is a square root on the only value that occurs, `1`); with
`MERGE_DUPLICATE_VERTICES` alone (16) the answer is `None` -/
example :
    letI := fieldNum ℚ id
    letI : Geo (V3 ℚ) (V3 ℚ) := geoK (fun _ => 1)
    let vs : List (V3 ℚ) := [⟨0, 0, 0⟩, ⟨1, 0, 0⟩, ⟨0, 1, 0⟩]
    tncFresh vs [⟨0, 1, 2⟩] (Flags.ofNat 144) 0 = .ret (some ⟨⟨0, 0, 1⟩, ⟨0, 0, 1⟩, ⟨0, 0, 1⟩, ⟨0, 0, 1⟩⟩) ∧
    tncFresh vs [⟨0, 1, 2⟩] (Flags.ofNat 16) 0 = .ret none := by
  letI := fieldNum ℚ id
  letI : Geo (V3 ℚ) (V3 ℚ) := geoK (fun _ => 1)
  constructor
  · rw [tncFresh_spec _ _ _ 0 ⟨0, 1, 2⟩ ⟨0, 0, 0⟩ ⟨1, 0, 0⟩ ⟨0, 1, 0⟩ (by decide) rfl (by simp [allCoords, triCoords]) rfl]
    simp [edgeSum, allCoords, triCoords, edgeTerms, sortedPair, Geo.contrib, Geo.nadd, Geo.nzero, geoK, contribK, tryUnit, epsK,
      V3.sub, V3.cross, V3.norm, V3.normSq, V3.dot, V3.sdiv, V3.add, V3.zero, fieldNum_lit, fieldNum_sqrt]
    norm_num [V3.add, V3.dot, V3.sdiv]
  · exact tnc_without_flag _ _ (by decide)

end C11
