import ParryModel.Field
import ParryModel.C11.Lemmas
import ParryModel.C11.Theorems2
import ParryModel.C11.Theorems3
import ParryModel.C11.Theorems4
import ParryModel.C11.Theorems5
import ParryModel.C11.Theorems6
import ParryModel.C11.Theorems7
import ParryModel.C11.Theorems8
import ParryModel.C11.Theorems9
import ParryModel.C11.Theorems10
import ParryModel.C11.Theorems11
/-!
# C11 property theorems: TriMesh derived data always match the buffers

Everything is about the model of `C11/Model.lean`, for **every** vertex type `V`, pseudo-normal type `N` and
geometry `Geo V N` (so in particular for exact real geometry), every buffer content (duplicate vertices,
degenerate / duplicate triangles, non-manifold edges, indices out of bounds), every flag set and both
dimensions (`dim3`).

* `Coherent dim3 s` (defined in `Lemmas.lean`): `s.derived = derive dim3 s.vertices s.indices s.flags` — the cached
  topology / connected components / pseudo-normals are exactly what the flags ask for, computed from the
  buffers as they are now.  `derive` is what a fresh `TriMesh::with_flags` exposes (`withFlags_coherent`,
  `fresh_idem`).
* `setFlags`, `reverse`, `append` are the operations with `fixes/C11-*.diff` applied; `setFlagsW`, `reverseW`
  are the operations as written on the pinned tree (refuted below).
-/
namespace C11
open Model Model.TM

variable {V N : Type} [Geo V N]

/-! ## positive results (code with the fixes) -/

/-- a mesh with no flag and no cached data is coherent -/
theorem blank_coherent (dim3 : Bool) (vs : List V) (idx : List Tri) : Coherent dim3 (blank (N := N) vs idx) := by
  unfold Coherent blank
  simp [Mesh.derived, derive, Flags.empty, Flags.pnFamily, Flags.topoFamily]

/-- `set_flags` preserves coherence: from any coherent state, for any new flags, whatever the outcome
(`Ok` or a `TopologyError`), the cached data of the result are those of its (possibly changed) buffers. -/
theorem setFlags_coherent (dim3 : Bool) (s s' : Mesh V N) (f : Flags) (r : Option TopoErr)
    (hc : Coherent dim3 s) (h : setFlags dim3 s f = some (s', r)) : Coherent dim3 s' :=
  setFlags_coherent' hc h

/-- a freshly built mesh is coherent: `TriMesh::with_flags` exposes exactly `derive` of its final buffers -/
theorem withFlags_coherent (dim3 : Bool) (vs : List V) (idx : List Tri) (f : Flags) (s : Mesh V N)
    (h : withFlags dim3 vs idx f = .ok s) : Coherent dim3 s := by
  obtain ⟨s1, r, hs, he⟩ := buildCore_eq_some (withFlags_eq_ok h).2
  obtain ⟨hd, hf, _⟩ := ensureQbvh_spec he
  exact coherent_of_same (setFlags_coherent dim3 _ _ f r (blank_coherent dim3 vs idx) hs) hd hf

/-- `reverse` preserves coherence (3-D: for any geometry satisfying the laws of exact arithmetic) -/
theorem reverse_coherent (dim3 : Bool) (hl : dim3 = true → LawfulGeo V N) (s s' : Mesh V N)
    (hc : Coherent dim3 s) (h : reverse dim3 s = some s') : Coherent dim3 s' :=
  reverse_coherent' hl hc h

/-- `append` yields a coherent mesh (it rebuilds; no hypothesis on the operands) -/
theorem append_coherent (dim3 : Bool) (s rhs s' : Mesh V N) (h : append dim3 s rhs = some s') : Coherent dim3 s' := by
  exact withFlags_coherent dim3 _ _ _ _ (append_eq_some h)

/-- `transform_vertices` preserves coherence: the topology and the connected components do not look at the
coordinates, and (exact geometry: `TransformLaws`, satisfied by an isometry and the rotation of normals) rotating the
cached pseudo-normals gives the pseudo-normals of the rotated mesh -/
theorem transformVertices_coherent (dim3 : Bool) (fV : V → V) (fN : N → N) (hl : TransformLaws fV fN) (s s' : Mesh V N)
    (hc : Coherent dim3 s) (h : transformVertices fV fN s = some s') : Coherent dim3 s' :=
  transformVertices_coherent' hl hc h

/-- the `transform_vertices` steps of a history use maps satisfying `TransformLaws` -/
def OpLawful : Op V N → Prop
  | .transform fV fN => TransformLaws fV fN
  | _ => True

/-- one operation of a history preserves coherence -/
theorem step_coherent (dim3 : Bool) (hl : dim3 = true → LawfulGeo V N) (s s' : Mesh V N) (op : Op V N)
    (hop : OpLawful op) (hc : Coherent dim3 s) (h : step dim3 s op = some s') : Coherent dim3 s' := by
  cases op with
  | setFlags f =>
    simp only [step, Option.map_eq_some_iff] at h
    obtain ⟨⟨s1, r⟩, h1, rfl⟩ := h
    exact setFlags_coherent dim3 s s1 f r hc h1
  | reverse => exact reverse_coherent dim3 hl s s' hc h
  | append rhs => exact append_coherent dim3 s rhs s' h
  | transform fV fN => exact transformVertices_coherent dim3 fV fN hop s s' hc h

/-- run a history (`none` as soon as an operation panics) -/
def run (dim3 : Bool) : Mesh V N → List (Op V N) → Option (Mesh V N)
  | s, [] => some s
  | s, op :: ops => match step dim3 s op with
    | none => none
    | some s' => run dim3 s' ops

/-- **C11, full statement for the fixed code**: after `with_flags` and any finite sequence of `set_flags`,
`reverse`, `append`, `transform_vertices`, the derived data are those of the current buffers and flags. -/
theorem history_coherent (dim3 : Bool) (hl : dim3 = true → LawfulGeo V N) (vs : List V) (idx : List Tri) (f : Flags)
    (ops : List (Op V N)) (hops : ∀ op ∈ ops, OpLawful op) (s0 s : Mesh V N)
    (h0 : withFlags dim3 vs idx f = .ok s0) (h : run dim3 s0 ops = some s) : Coherent dim3 s := by
  have hc0 := withFlags_coherent dim3 vs idx f s0 h0
  clear h0
  induction ops generalizing s0 with
  | nil => simp only [run, Option.some.injEq] at h; subst h; exact hc0
  | cons op ops ih =>
    simp only [run] at h
    split at h
    · cases h
    · rename_i s1 hs
      exact ih (fun o ho => hops o (List.mem_cons_of_mem _ ho)) s1 h
        (step_coherent dim3 hl s0 s1 op (hops op List.mem_cons_self) hc0 hs)

/-! ## the QBVH (and therefore the AABB) stays the one a fresh build would construct

`Mesh.qbvh = some cs` records the triangle coordinates `rebuild_qbvh` last ran on.  `QCoherent box s`: these have,
triangle by triangle, the same `box` (`Triangle::local_aabb`) as the current triangles — `Qbvh::clear_and_rebuild`
being a function of the list of leaf boxes, the tree is then the one a fresh build constructs.  `box` is any
function satisfying `BoxLaws` (it respects the vertex equality used for merging and is symmetric in the first two
vertices), which the component-wise min/max box does. -/

/-- a fresh mesh has a QBVH built from its final buffers -/
theorem withFlags_qcoherent {B : Type} (box : V × V × V → B) (dim3 : Bool) (vs : List V) (idx : List Tri) (f : Flags)
    (s : Mesh V N) (h : withFlags dim3 vs idx f = .ok s) : QCoherent box s :=
  withFlags_qcoherent' box h

/-- `set_flags` rebuilds the QBVH only when the number of triangles changes; this is enough: when the number does not
change no triangle was deleted, and merging vertices does not move any triangle corner -/
theorem setFlags_qcoherent {B : Type} (box : V × V × V → B) (hbox : BoxLaws (N := N) box) (dim3 : Bool)
    (s s' : Mesh V N) (f : Flags) (r : Option TopoErr)
    (hq : QCoherent box s) (h : setFlags dim3 s f = some (s', r)) : QCoherent box s' :=
  setFlags_qcoherent' box hbox hq h

/-- `reverse` keeps the QBVH: "the Qbvh [is] not changed by this operation" -/
theorem reverse_qcoherent {B : Type} (box : V × V × V → B) (hbox : BoxLaws (N := N) box) (dim3 : Bool)
    (s s' : Mesh V N) (hq : QCoherent box s) (h : reverse dim3 s = some s') : QCoherent box s' :=
  reverse_qcoherent' box hbox hq h

/-- **QBVH part of C11** for the fixed code: along any history the QBVH is the one of the current buffers -/
theorem history_qcoherent {B : Type} (box : V × V × V → B) (hbox : BoxLaws (N := N) box) (dim3 : Bool)
    (vs : List V) (idx : List Tri) (f : Flags) (ops : List (Op V N)) (s0 s : Mesh V N)
    (h0 : withFlags dim3 vs idx f = .ok s0) (h : run dim3 s0 ops = some s) : QCoherent box s := by
  have hc0 := withFlags_qcoherent box dim3 vs idx f s0 h0
  clear h0
  induction ops generalizing s0 with
  | nil => simp only [run, Option.some.injEq] at h; subst h; exact hc0
  | cons op ops ih =>
    simp only [run] at h
    split at h
    · cases h
    · rename_i s1 hs
      apply ih s1 h
      cases op with
      | setFlags f' =>
        simp only [step, Option.map_eq_some_iff] at hs
        obtain ⟨⟨s2, r⟩, h1, rfl⟩ := hs
        exact setFlags_qcoherent box hbox dim3 s0 s2 f' r hc0 h1
      | reverse => exact reverse_qcoherent box hbox dim3 s0 s1 hc0 hs
      | append rhs => exact withFlags_qcoherent box dim3 _ _ _ s1 (append_eq_some hs)
      | transform fV fN => exact transformVertices_qcoherent' box hs

/-- `merge_duplicate_vertices` never produces more triangles, produces a well-formed index buffer, and when it deletes
no triangle every triangle keeps its box -/
theorem mergeBuffers_boxes {B : Type} (box : V × V × V → B) (hbox : BoxLaws (N := N) box) (dd ddup : Bool)
    (vs nv : List V) (idx ni : List Tri) (h : mergeBuffers (N := N) dd ddup vs idx = some (nv, ni)) :
    ni.length ≤ idx.length ∧ (allCoords nv ni).isSome = true ∧
    (ni.length = idx.length → ∃ cs cur, allCoords vs idx = some cs ∧ allCoords nv ni = some cur ∧ cur.map box = cs.map box) :=
  mergeBuffers_spec box hbox h

/-! ## no panic: every operation is total on the meshes that exist

`WF s`: every index of the index buffer designates a vertex.  `none` in the model is a Rust panic
(`vertices[i]` out of bounds, or the `unwrap` in `append`). -/

/-- every mesh returned by `with_flags` is well formed, whatever the input buffers (an out-of-bounds index makes
`with_flags` panic at the latest in `rebuild_qbvh`) -/
theorem withFlags_wellFormed (dim3 : Bool) (vs : List V) (idx : List Tri) (f : Flags) (s : Mesh V N)
    (h : withFlags dim3 vs idx f = .ok s) : WF s :=
  withFlags_wf' h

/-- on in-bounds buffers `with_flags` never panics: it returns `EmptyIndices` (iff there is no triangle) or a mesh -/
theorem withFlags_no_panic (dim3 : Bool) (vs : List V) (idx : List Tri) (f : Flags) (h : inBounds vs.length idx = true) :
    (idx = [] ∧ (withFlags dim3 vs idx f : Built V N) = .emptyIndices) ∨
    (idx ≠ [] ∧ ∃ s : Mesh V N, withFlags dim3 vs idx f = .ok s ∧ WF s) :=
  withFlags_no_panic' dim3 vs idx f h

/-- `set_flags` never panics on a well-formed mesh and leaves it well formed (this includes: no out-of-bounds access
in `merge_duplicate_vertices`, `compute_topology`, `compute_connected_components`, `compute_pseudo_normals`) -/
theorem setFlags_no_panic (dim3 : Bool) (s : Mesh V N) (f : Flags) (h : WF s) :
    ∃ s' r, setFlags dim3 s f = some (s', r) ∧ WF s' :=
  setFlags_no_panic' dim3 f h

/-- `reverse` never panics on a well-formed mesh and leaves it well formed -/
theorem reverse_no_panic (dim3 : Bool) (s : Mesh V N) (h : WF s) : ∃ s', reverse dim3 s = some s' ∧ WF s' :=
  reverse_no_panic' dim3 h

/-- `transform_vertices` never panics on a well-formed mesh and leaves it well formed -/
theorem transformVertices_no_panic (fV : V → V) (fN : N → N) (s : Mesh V N) (h : WF s) :
    ∃ s', transformVertices fV fN s = some s' ∧ WF s' :=
  transformVertices_no_panic' h

/-- `append` panics exactly when both meshes have lost all their triangles (`with_flags(..).unwrap()` on
`EmptyIndices`); otherwise the result is well formed -/
theorem append_panics_iff_empty (dim3 : Bool) (s rhs : Mesh V N) (h1 : WF s) (h2 : WF rhs) :
    (s.indices = [] ∧ rhs.indices = [] ∧ append dim3 s rhs = none) ∨ (∃ s', append dim3 s rhs = some s' ∧ WF s') :=
  append_no_panic' dim3 h1 h2

/-- `compute_topology` never panics on a well-formed index buffer (it returns `Ok` or a `TopologyError`) -/
theorem computeTopology_total (nv : Nat) (idx : List Tri) (h : inBounds nv idx = true) : computeTopology nv idx ≠ .panic :=
  computeTopology_no_panic h

/-- `compute_connected_components` never panics on a well-formed index buffer, and its three arrays are consistent:
one colour per face; every colour is a valid range index; `ranges[j]` is the number of faces of colour `< j`
(so range `j` has exactly as many slots as there are faces of colour `j`); `grouped_faces` has one slot per face -/
theorem connectedComponents_total (nv : Nat) (idx : List Tri) (h : inBounds nv idx = true) :
    ∃ cc, computeCC nv idx = some cc ∧ cc.faceColors.length = idx.length ∧ cc.groupedFaces.length = idx.length ∧
      (∀ c ∈ cc.faceColors, c + 1 < cc.ranges.length) ∧
      (∀ j : Nat, j < cc.ranges.length → cc.ranges[j]? = some (below cc.faceColors j)) :=
  computeCC_some h

/-- non-vacuity: a two-component mesh -/
example : ∃ cc, computeCC 6 [⟨0,1,2⟩, ⟨3,4,5⟩, ⟨2,1,0⟩] = some cc ∧ cc.faceColors = [0, 1, 0] ∧ cc.ranges = [0, 2, 3] ∧
    cc.groupedFaces = [0, 2, 1] := ⟨_, rfl, by decide, by decide, by decide⟩

/-- every state of a history is well formed -/
theorem history_wf (dim3 : Bool) (vs : List V) (idx : List Tri) (f : Flags) (ops : List (Op V N)) (s0 s : Mesh V N)
    (h0 : withFlags dim3 vs idx f = .ok s0) (h : run dim3 s0 ops = some s) : WF s := by
  have hw0 := withFlags_wellFormed dim3 vs idx f s0 h0
  clear h0
  induction ops generalizing s0 with
  | nil => simp only [run, Option.some.injEq] at h; subst h; exact hw0
  | cons op ops ih =>
    simp only [run] at h
    split at h
    · cases h
    · rename_i s1 hs
      apply ih s1 h
      cases op with
      | setFlags f' =>
        simp only [step, Option.map_eq_some_iff] at hs
        obtain ⟨⟨s2, r⟩, h1, rfl⟩ := hs
        obtain ⟨s3, r3, h3, w3⟩ := setFlags_no_panic dim3 s0 f' hw0
        rw [h1] at h3; cases h3; exact w3
      | reverse =>
        obtain ⟨s3, h3, w3⟩ := reverse_no_panic dim3 s0 hw0
        simp only [step] at hs
        rw [hs] at h3; cases h3; exact w3
      | append rhs => exact withFlags_wellFormed dim3 _ _ _ s1 (append_eq_some hs)
      | transform fV fN =>
        obtain ⟨s3, h3, w3⟩ := transformVertices_no_panic fV fN s0 hw0
        simp only [step] at hs
        rw [hs] at h3; cases h3; exact w3

/-- **no history panics**, except through `append` (which unwraps `EmptyIndices` when both meshes are empty): any sequence of
`set_flags`, `reverse`, `transform_vertices` on a mesh returned by `with_flags` runs to completion -/
theorem history_no_panic (dim3 : Bool) (vs : List V) (idx : List Tri) (f : Flags) (ops : List (Op V N)) (s0 : Mesh V N)
    (h0 : withFlags dim3 vs idx f = .ok s0) (hna : ∀ op ∈ ops, ∀ rhs, op ≠ .append rhs) :
    ∃ s, run dim3 s0 ops = some s := by
  have hw0 := withFlags_wellFormed dim3 vs idx f s0 h0
  clear h0
  induction ops generalizing s0 with
  | nil => exact ⟨s0, rfl⟩
  | cons op ops ih =>
    have hna' : ∀ o ∈ ops, ∀ rhs, o ≠ .append rhs := fun o ho => hna o (List.mem_cons_of_mem _ ho)
    simp only [run]
    cases op with
    | setFlags f' =>
      obtain ⟨s3, r3, h3, w3⟩ := setFlags_no_panic dim3 s0 f' hw0
      simp only [step, h3, Option.map_some]
      exact ih s3 hna' w3
    | reverse =>
      obtain ⟨s3, h3, w3⟩ := reverse_no_panic dim3 s0 hw0
      simp only [step, h3]
      exact ih s3 hna' w3
    | append rhs => exact absurd rfl (hna _ List.mem_cons_self rhs)
    | transform fV fN =>
      obtain ⟨s3, h3, w3⟩ := transformVertices_no_panic fV fN s0 hw0
      simp only [step, h3]
      exact ih s3 hna' w3

/-- `DELETE_BAD_TOPOLOGY_TRIANGLES` stays enforced along any history: while the flag is set, the index buffer is a
fixpoint of `delete_bad_topology_triangles` -/
theorem history_cleanBad (dim3 : Bool) (vs : List V) (idx : List Tri) (f : Flags) (ops : List (Op V N)) (s0 s : Mesh V N)
    (h0 : withFlags dim3 vs idx f = .ok s0) (h : run dim3 s0 ops = some s) : CleanBad s := by
  have hc0 : CleanBad s0 := withFlags_cleanBad' h0
  clear h0
  induction ops generalizing s0 with
  | nil => simp only [run, Option.some.injEq] at h; subst h; exact hc0
  | cons op ops ih =>
    simp only [run] at h
    split at h
    · cases h
    · rename_i s1 hs
      apply ih s1 h
      cases op with
      | setFlags f' =>
        simp only [step, Option.map_eq_some_iff] at hs
        obtain ⟨⟨s2, r⟩, h1, rfl⟩ := hs
        exact setFlags_cleanBad' hc0 h1
      | reverse => exact reverse_cleanBad' hc0 hs
      | append rhs => exact withFlags_cleanBad' (append_eq_some hs)
      | transform fV fN => exact transformVertices_cleanBad' hc0 hs

/-- **a user-level consequence**: as long as `DELETE_BAD_TOPOLOGY_TRIANGLES` is set, the half-edge topology is available
after every operation of any history (fixed code) -/
theorem history_topology_present (dim3 : Bool) (hl : dim3 = true → LawfulGeo V N) (vs : List V) (idx : List Tri) (f : Flags)
    (ops : List (Op V N)) (hops : ∀ op ∈ ops, OpLawful op) (s0 s : Mesh V N)
    (h0 : withFlags dim3 vs idx f = .ok s0) (h : run dim3 s0 ops = some s) (hd : s.flags.delBad = true) :
    s.topology.isSome = true := by
  have hc := history_coherent dim3 hl vs idx f ops hops s0 s h0 h
  have hw := history_wf dim3 vs idx f ops s0 s h0 h
  have hb := history_cleanBad dim3 vs idx f ops s0 s h0 h hd
  unfold Coherent at hc
  simp only [Mesh.derived, derive, Derived.mk.injEq] at hc
  rw [hc.2.1]
  have htf : s.flags.topoFamily = true := by simp [Flags.topoFamily, hd]
  simp only [htf, if_true]
  unfold topoOf
  have hne := computeTopology_deleteBad_no_err s.vertices.length s.indices
  rw [hb] at hne
  have hnp := computeTopology_no_panic hw
  cases hct : computeTopology s.vertices.length s.indices with
  | panic => exact absurd hct hnp
  | err e => exact absurd hct (hne e)
  | ok t => rfl

/-! ## "what a fresh build would give" is well defined -/

/-- the fixes do not change `TriMesh::with_flags`: as written and fixed, it builds the same mesh -/
theorem withFlagsW_eq_withFlags (dim3 : Bool) (vs : List V) (idx : List Tri) (f : Flags) :
    (withFlagsW dim3 vs idx f : Built V N) = withFlags dim3 vs idx f :=
  withFlagsW_eq dim3 vs idx f

/-- **fresh is idempotent on its own buffers, whenever it leaves them alone**: if rebuilding a fresh mesh from
its own buffers (same flags) does not change the buffers, it reproduces the mesh exactly — so "the derived data a
fresh build would give" is `derive` of the buffers. -/
theorem fresh_idem_of_stable (dim3 : Bool) (vs : List V) (idx : List Tri) (f : Flags) (s s2 : Mesh V N)
    (h : withFlags dim3 vs idx f = .ok s) (h2 : withFlags dim3 s.vertices s.indices f = .ok s2)
    (hv : s2.vertices = s.vertices) (hi : s2.indices = s.indices) : s2 = s :=
  coherent_unique (withFlags_coherent dim3 _ _ f s2 h2) (withFlags_coherent dim3 _ _ f s h) hv hi
    ((withFlags_flags h2).trans (withFlags_flags h).symm)
    (by rw [(withFlags_qbvh h2).1, (withFlags_qbvh h).1, hv, hi])

/-- **`Coherent` is the property's "equals what a fresh build gives"**: whenever a fresh `with_flags` on the current
buffers and flags leaves the buffers as they are, a mesh is coherent iff its derived data are those of that fresh mesh. -/
theorem coherent_iff_fresh (dim3 : Bool) (s fresh : Mesh V N)
    (h : withFlags dim3 s.vertices s.indices s.flags = .ok fresh)
    (hv : fresh.vertices = s.vertices) (hi : fresh.indices = s.indices) :
    Coherent dim3 s ↔ s.derived = fresh.derived := by
  have hc := withFlags_coherent dim3 _ _ _ fresh h
  have hf := withFlags_flags h
  unfold Coherent at hc ⊢
  rw [hc, hv, hi, hf]

/-- without `MERGE_DUPLICATE_VERTICES | DELETE_DEGENERATE_TRIANGLES | DELETE_DUPLICATE_TRIANGLES` the buffers of a
fresh mesh are always stable (`delete_bad_topology_triangles` is idempotent): the core of `with_flags`
(everything but the `indices.is_empty()` test) applied to the mesh's own buffers gives the mesh back. -/
theorem fresh_idem_noMerge (dim3 : Bool) (vs : List V) (idx : List Tri) (f : Flags) (s : Mesh V N)
    (hm : f.mergeFamily = false) (h : withFlags dim3 vs idx f = .ok s) :
    buildCore dim3 s.vertices s.indices f = some s :=
  buildCore_noMerge_idem hm (withFlags_eq_ok h).2

/-! ## the code as written on the pinned tree: where coherence fails

A small exact geometry to evaluate the model on concrete meshes: vertices are integer points of the plane
`z = 0`, a (pseudo-)normal is the `z` component of the *scaled* normal `(b - a) × (c - a)`, every angle weight
is 1.  It satisfies the laws of `LawfulGeo`. -/

abbrev Pt := Int × Int

instance planar : Geo Pt Int where
  veq p q := p == q
  nzero := 0
  nadd := (· + ·)
  nneg := (- ·)
  contrib a b c :=
    let d := (b.1 - a.1) * (c.2 - a.2) - (b.2 - a.2) * (c.1 - a.1)
    if d = 0 then none else some (d, d, d, d)

instance : LawfulGeo Pt Int where
  add_right_comm x y z := by show x + y + z = x + z + y; ring
  neg_add x y := by show -(x + y) = -x + -y; ring
  neg_zero := by show -(0 : Int) = 0; ring
  contrib_swap a b c := by
    show (let d := (a.1 - b.1) * (c.2 - b.2) - (a.2 - b.2) * (c.1 - b.1); if d = 0 then none else some (d, d, d, d)) =
      (let d := (b.1 - a.1) * (c.2 - a.2) - (b.2 - a.2) * (c.1 - a.1); if d = 0 then none else some (d, d, d, d)).map
        fun w => (-w.1, -w.2.2.1, -w.2.1, -w.2.2.2)
    have h : (a.1 - b.1) * (c.2 - b.2) - (a.2 - b.2) * (c.1 - b.1) = -((b.1 - a.1) * (c.2 - a.2) - (b.2 - a.2) * (c.1 - a.1)) := by ring
    simp only [h]
    by_cases h0 : (b.1 - a.1) * (c.2 - a.2) - (b.2 - a.2) * (c.1 - a.1) = 0
    · simp [h0]
    · have h1 : ¬ -((b.1 - a.1) * (c.2 - a.2) - (b.2 - a.2) * (c.1 - a.1)) = 0 := fun h1 => h0 (by linarith)
      simp only [h0, h1, if_false, Option.map_some]

instance (dim3 : Bool) (s : Mesh Pt Int) : Decidable (Coherent dim3 s) :=
  inferInstanceAs (Decidable (s.derived = derive dim3 s.vertices s.indices s.flags))

/-- a history with the operations **as written** -/
def runW (dim3 : Bool) : Mesh V N → List (Op V N) → Option (Mesh V N)
  | s, [] => some s
  | s, op :: ops => match stepW dim3 s op with
    | none => none
    | some s' => runW dim3 s' ops

def histW (dim3 : Bool) (vs : List V) (idx : List Tri) (f : Flags) (ops : List (Op V N)) : Option (Mesh V N) :=
  match withFlagsW dim3 vs idx f with
  | .ok s => runW dim3 s ops
  | _ => none

def hist (dim3 : Bool) (vs : List V) (idx : List Tri) (f : Flags) (ops : List (Op V N)) : Option (Mesh V N) :=
  match withFlags dim3 vs idx f with
  | .ok s => run dim3 s ops
  | _ => none

def fl (n : Nat) : Flags := Flags.ofNat n

/-- (a) `set_flags` adding `MERGE_DUPLICATE_VERTICES | DELETE_DEGENERATE_TRIANGLES` (48) after
`CONNECTED_COMPONENTS` (2): the third triangle becomes degenerate and is deleted, the face colours are not
recomputed — 2 triangles, 3 colours. -/
theorem pinned_setFlags_stale_components :
    ∃ s : Mesh Pt Int,
      histW true [(0,0),(1,0),(0,1), (5,0),(6,0),(5,1), (9,0),(9,0),(9,1)] [⟨0,1,2⟩, ⟨3,4,5⟩, ⟨6,7,8⟩] (fl 2)
        [.setFlags (fl 50)] = some s ∧
      ¬ Coherent true s ∧ s.indices.length = 2 ∧ s.cc.map (·.faceColors) = some [0, 1, 2] :=
  ⟨_, rfl, by decide, by decide, by decide⟩

/-- (b) `reverse` with pseudo-normals (`ORIENTED` = 8): the edge slots 1 and 2 are negated but not exchanged -/
theorem pinned_reverse_edge_normals :
    ∃ s : Mesh Pt Int,
      histW true [(0,0),(1,0),(0,1),(1,1)] [⟨0,1,2⟩, ⟨1,3,2⟩] (fl 8) [.reverse] = some s ∧
      ¬ Coherent true s ∧
      s.pn.map (·.edges) = some [(-1, -2, -1), (-1, -1, -2)] ∧
      (derive true s.vertices s.indices s.flags).pn.map (·.edges) = some [(-1, -1, -2), (-1, -2, -1)] :=
  ⟨_, rfl, by decide, by decide, by decide⟩

/-- (c) 2-D only: `HALF_EDGE_TOPOLOGY` (1), then adding `MERGE_DUPLICATE_VERTICES` (17): the recomputation of the
topology after the merge is under `cfg(dim3)` — the topology still has 4 vertices, the mesh has 3 -/
theorem pinned_dim2_topology_after_merge :
    ∃ s : Mesh Pt Int,
      histW false [(0,0),(1,0),(0,1),(0,0)] [⟨0,1,2⟩, ⟨3,2,1⟩] (fl 1) [.setFlags (fl 17)] = some s ∧
      ¬ Coherent false s ∧ s.vertices.length = 3 ∧ s.topology.map (·.vertices.length) = some 4 :=
  ⟨_, rfl, by decide, by decide, by decide⟩

/-- (c') in 3-D the same history is coherent as written -/
theorem pinned_dim3_topology_after_merge_ok :
    ∃ s : Mesh Pt Int,
      histW true [(0,0),(1,0),(0,1),(0,0)] [⟨0,1,2⟩, ⟨3,2,1⟩] (fl 1) [.setFlags (fl 17)] = some s ∧ Coherent true s :=
  ⟨_, rfl, by decide⟩

/-- (d) `DELETE_BAD_TOPOLOGY_TRIANGLES` (4) added after `CONNECTED_COMPONENTS` (2): a triangle is deleted, the
colours are not recomputed -/
theorem pinned_setFlags_delete_bad_stale_components :
    ∃ s : Mesh Pt Int,
      histW true [(0,0),(1,0),(0,1),(1,1)] [⟨0,1,2⟩, ⟨0,1,3⟩] (fl 2) [.setFlags (fl 6)] = some s ∧
      ¬ Coherent true s ∧ s.indices.length = 1 ∧ s.cc.map (·.faceColors.length) = some 2 :=
  ⟨_, rfl, by decide, by decide, by decide⟩

/-- (e) `DELETE_BAD_TOPOLOGY_TRIANGLES` alone computes and keeps the topology at construction, but
`set_flags` with the very same flags drops it -/
theorem pinned_setFlags_same_flags_drops_topology :
    ∃ s0 s : Mesh Pt Int,
      histW true [(0,0),(1,0),(0,1)] [⟨0,1,2⟩] (fl 4) [] = some s0 ∧ s0.topology.isSome = true ∧
      histW true [(0,0),(1,0),(0,1)] [⟨0,1,2⟩] (fl 4) [.setFlags (fl 4)] = some s ∧
      ¬ Coherent true s ∧ s.topology = none :=
  ⟨_, _, rfl, by decide, rfl, by decide, by decide⟩

/-- (f) `reverse` under `DELETE_BAD_TOPOLOGY_TRIANGLES` alone: the topology is kept but not recomputed -/
theorem pinned_reverse_stale_topology :
    ∃ s : Mesh Pt Int,
      histW true [(0,0),(1,0),(0,1)] [⟨0,1,2⟩] (fl 4) [.reverse] = some s ∧ ¬ Coherent true s :=
  ⟨_, rfl, by decide⟩

/-- (g) 3-D: `HALF_EDGE_TOPOLOGY` (1) then adding `MERGE_DUPLICATE_VERTICES` (17) when the merge makes a triangle
degenerate: `compute_topology` fails and the topology of the *old* buffers survives -/
theorem pinned_merge_failed_topology_survives :
    ∃ s : Mesh Pt Int,
      histW true [(0,0),(1,0),(0,1),(0,0)] [⟨0,1,3⟩] (fl 1) [.setFlags (fl 17)] = some s ∧
      ¬ Coherent true s ∧ s.vertices.length = 2 ∧ s.topology.map (·.vertices.length) = some 4 :=
  ⟨_, rfl, by decide, by decide, by decide⟩

/-- with merging *and* deletion the buffers of a fresh mesh need not be stable: `merge_duplicate_vertices` numbers the
vertices in order of first use by *any* triangle, including the ones it then deletes, so a vertex used only by a deleted
(degenerate) triangle stays in the vertex buffer; a second build drops it.  The derived data are nevertheless those of
the mesh's own buffers (`withFlags_coherent`). Flags 48 = MERGE | DELETE_DEGENERATE. -/
theorem fresh_not_idem_with_deletion :
    ∃ s s2 : Mesh Pt Int,
      withFlags true [(0,0),(1,0),(0,1),(1,1)] [⟨0,0,1⟩, ⟨1,2,3⟩] (fl 48) = .ok s ∧
      withFlags true s.vertices s.indices (fl 48) = .ok s2 ∧
      s.vertices = [(0,0),(1,0),(0,1),(1,1)] ∧ s.indices = [⟨1,2,3⟩] ∧
      s2.vertices = [(1,0),(0,1),(1,1)] ∧ s2.indices = [⟨0,1,2⟩] ∧ Coherent true s ∧ Coherent true s2 :=
  ⟨_, _, rfl, rfl, by decide, by decide, by decide, by decide, by decide, by decide⟩

/-- non-vacuity of `fresh_idem_noMerge` / `fresh_idem_of_stable`: a mesh with a triangle deleted by
`DELETE_BAD_TOPOLOGY_TRIANGLES` (flags 7) and a merged mesh without deletion (flags 19) are rebuilt identically -/
example : ∃ s : Mesh Pt Int,
    withFlags true [(0,0),(1,0),(0,1),(1,1)] [⟨0,1,2⟩, ⟨0,1,3⟩] (fl 7) = .ok s ∧ s.indices.length = 1 ∧
    withFlags true s.vertices s.indices (fl 7) = .ok s :=
  ⟨_, rfl, by decide, rfl⟩
example : ∃ s : Mesh Pt Int,
    withFlags true [(0,0),(1,0),(0,1),(1,0),(0,1),(1,1)] [⟨0,1,2⟩, ⟨3,5,4⟩] (fl 19) = .ok s ∧ s.vertices.length = 4 ∧
    withFlags true s.vertices s.indices (fl 19) = .ok s :=
  ⟨_, rfl, by decide, rfl⟩

/-! ### what the pinned code does preserve -/

/-- **as written**, `set_flags` preserves coherence whenever (1) it adds none of the merging flags, (2) the topology
computation it triggers deletes no triangle, and (3) it does not rely on `DELETE_BAD_TOPOLOGY_TRIANGLES` alone to keep a
topology that was already there.  (Each hypothesis is necessary: witnesses (a)/(c)/(g), (d), (e) above.) -/
theorem setFlagsW_coherent_partial (dim3 : Bool) (s s' : Mesh V N) (f : Flags) (r : Option TopoErr)
    (hc : Coherent dim3 s)
    (h1 : (f.diff s.flags).mergeFamily = false)
    (h2 : f.delBad = true → f.het = true ∨ s.flags.delBad = false)
    (h3 : (f.diff s.flags).topoFamily = true → f.delBad = true → deleteBad s.indices = s.indices)
    (h : setFlagsW dim3 s f = some (s', r)) : Coherent dim3 s' :=
  setFlagsW_coherent_partial' hc h1 h2 h3 h

/-- non-vacuity: a cube-corner fan, no flag, then `HALF_EDGE_TOPOLOGY | CONNECTED_COMPONENTS | ORIENTED` (11) -/
example : ∃ s : Mesh Pt Int, ∃ s' r,
    withFlagsW true [(0,0),(1,0),(0,1),(1,1)] [⟨0,1,2⟩, ⟨1,3,2⟩] (fl 0) = .ok s ∧
    ((fl 11).diff s.flags).mergeFamily = false ∧ (fl 11).delBad = false ∧
    setFlagsW true s (fl 11) = some (s', r) ∧ s'.topology.isSome = true ∧ s'.cc.isSome = true ∧ s'.pn.isSome = true :=
  ⟨_, _, _, rfl, by decide, by decide, rfl, by decide, by decide, by decide⟩

/-- **as written**, `reverse` preserves coherence when there are no pseudo-normals, no topology kept through
`DELETE_BAD_TOPOLOGY_TRIANGLES` alone, and the topology computation does not newly fail on the reversed buffer.
(Necessary: witnesses (b), (f).) -/
theorem reverseW_coherent_partial (dim3 : Bool) (s s' : Mesh V N)
    (hc : Coherent dim3 s)
    (hp : dim3 = true → s.flags.pnFamily = false)
    (hb : s.flags.delBad = true → s.flags.het = true)
    (hsym : topoOf s.vertices.length (revIdx s.indices) = none → topoOf s.vertices.length s.indices = none)
    (h : reverseW dim3 s = some s') : Coherent dim3 s' :=
  reverseW_coherent_partial' hc hp hb hsym h

example : ∃ s : Mesh Pt Int, ∃ s',
    withFlagsW true [(0,0),(1,0),(0,1),(1,1)] [⟨0,1,2⟩, ⟨1,3,2⟩] (fl 3) = .ok s ∧
    s.flags.pnFamily = false ∧ s.flags.delBad = false ∧
    (topoOf s.vertices.length (revIdx s.indices)).isSome = true ∧
    reverseW true s = some s' ∧ s'.topology.isSome = true ∧ s'.topology ≠ s.topology :=
  ⟨_, _, rfl, by decide, by decide, by decide, rfl, by decide, by decide⟩

/-! ## facts about the individual computations -/

/-- `delete_bad_topology_triangles` is idempotent -/
theorem deleteBad_idempotent (idx : List Tri) : deleteBad (deleteBad idx) = deleteBad idx :=
  deleteBad_idem idx

/-- `DELETE_BAD_TOPOLOGY_TRIANGLES` does what its name says: on the index buffer it leaves, `compute_topology` never
returns a `TopologyError` (whatever the input: degenerate, duplicated, non-manifold, wrongly oriented triangles) -/
theorem deleteBad_topology_never_fails (nv : Nat) (idx : List Tri) (e : TopoErr) :
    computeTopology nv (deleteBad idx) ≠ .err e :=
  computeTopology_deleteBad_no_err nv idx e

/-- `compute_connected_components` does not see the orientation of the triangles (the claim in the comment of
`reverse`) -/
theorem connectedComponents_reverse (nv : Nat) (idx : List Tri) : computeCC nv (revIdx idx) = computeCC nv idx :=
  computeCC_rev nv idx

/-- pseudo-normals of the reversed mesh: negated, **with edge slots 1 and 2 exchanged** (exact geometry) -/
theorem pseudoNormals_reverse [LawfulGeo V N] (vs : List V) (idx : List Tri) :
    (computePN vs (revIdx idx) : Option (PN N)) = (computePN vs idx).map (negPN (V := V) · true) :=
  computePN_rev vs idx

/-- `TransformLaws` are satisfiable: in the planar geometry, the quarter turn followed by a translation, with the identity
on (z-)normals -/
def quarterTurn (p : Pt) : Pt := (3 - p.2, p.1 + 5)

theorem quarterTurn_laws : TransformLaws (N := Int) quarterTurn id where
  map_zero := rfl
  map_add _ _ := rfl
  contrib_map a b c := by
    show (let d := ((3 - b.2) - (3 - a.2)) * ((c.1 + 5) - (a.1 + 5)) - ((b.1 + 5) - (a.1 + 5)) * ((3 - c.2) - (3 - a.2));
          if d = 0 then none else some (d, d, d, d)) =
      (let d := (b.1 - a.1) * (c.2 - a.2) - (b.2 - a.2) * (c.1 - a.1); if d = 0 then none else some (d, d, d, d)).map
        fun w => (id w.1, id w.2.1, id w.2.2.1, id w.2.2.2)
    have h : ((3 - b.2) - (3 - a.2)) * ((c.1 + 5) - (a.1 + 5)) - ((b.1 + 5) - (a.1 + 5)) * ((3 - c.2) - (3 - a.2)) =
        (b.1 - a.1) * (c.2 - a.2) - (b.2 - a.2) * (c.1 - a.1) := by ring
    simp only [h, id]
    by_cases h0 : (b.1 - a.1) * (c.2 - a.2) - (b.2 - a.2) * (c.1 - a.1) = 0 <;> simp [h0]

example : ∃ s : Mesh Pt Int,
    hist true [(0,0),(1,0),(0,1),(1,1)] [⟨0,1,2⟩, ⟨1,3,2⟩] (fl 11) [.transform quarterTurn id, .reverse] = some s ∧
    Coherent true s ∧ s.vertices = [(3,5),(3,6),(2,5),(2,6)] :=
  ⟨_, rfl, by decide, by decide⟩

/-- the component-wise min/max box of the planar geometry satisfies `BoxLaws` (non-vacuity of the QBVH theorems) -/
def planarBox (c : Pt × Pt × Pt) : Pt × Pt :=
  ((min (min c.1.1 c.2.1.1) c.2.2.1, min (min c.1.2 c.2.1.2) c.2.2.2),
   (max (max c.1.1 c.2.1.1) c.2.2.1, max (max c.1.2 c.2.1.2) c.2.2.2))

theorem planarBox_laws : BoxLaws (N := Int) planarBox where
  congr_a p q b c h := by have : p = q := by simpa [Geo.veq] using h
                          rw [this]
  congr_b p q a c h := by have : p = q := by simpa [Geo.veq] using h
                          rw [this]
  congr_c p q a b h := by have : p = q := by simpa [Geo.veq] using h
                          rw [this]
  swap a b c := by simp [planarBox, min_comm, max_comm]

example : ∃ s : Mesh Pt Int,
    hist true [(0,0),(1,0),(0,1),(1,0),(0,1),(1,1)] [⟨0,1,2⟩, ⟨3,5,4⟩] (fl 2) [.setFlags (fl 19), .reverse] = some s ∧
    s.vertices.length = 4 ∧ s.qbvh.map (·.length) = some 2 ∧
    s.qbvh.map (·.map planarBox) = (allCoords s.vertices s.indices).map (·.map planarBox) :=
  ⟨_, rfl, by decide, by decide, by decide⟩

/-- the same seven histories with the fixed operations end in coherent states (instances of `history_coherent`) -/
example : ∃ s : Mesh Pt Int,
    hist true [(0,0),(1,0),(0,1), (5,0),(6,0),(5,1), (9,0),(9,0),(9,1)] [⟨0,1,2⟩, ⟨3,4,5⟩, ⟨6,7,8⟩] (fl 2)
      [.setFlags (fl 50)] = some s ∧ Coherent true s ∧ s.cc.map (·.faceColors) = some [0, 1] :=
  ⟨_, rfl, by decide, by decide⟩
example : ∃ s : Mesh Pt Int,
    hist true [(0,0),(1,0),(0,1),(1,1)] [⟨0,1,2⟩, ⟨1,3,2⟩] (fl 8) [.reverse] = some s ∧ Coherent true s :=
  ⟨_, rfl, by decide⟩

/-! ## `scaled` (see `Theorems2.lean` for the general theorems): the code as written, and the fix, on concrete meshes

In the planar geometry a pseudo-normal is the `z` component of the scaled normal `(b - a) × (c - a)`.  `scaled` **as
written** multiplies every cached normal component-wise by the scale (`z` component: by `scale.z = 1` for a scale acting
in the plane) and normalises it, which keeps the sign: `fN = id`. -/

/-- the mirror `x ↦ -x` (scale `(-1, 1, 1)`) -/
def mirrorX (p : Pt) : Pt := (-p.1, p.2)
/-- the non-uniform scale `(2, 1, 1)` -/
def stretchX (p : Pt) : Pt := (2 * p.1, p.2)

/-- (h) **as written**, `scaled` by a mirroring scale keeps pseudo-normals pointing to the old side: after `x ↦ -x` the
triangles are oriented the other way round (a fresh build gives the opposite normals), the cached ones are unchanged -/
theorem scaledW_mirror_not_coherent :
    ∃ s0 : Mesh Pt Int,
      withFlags true [(0,0),(1,0),(0,1),(1,1)] [⟨0,1,2⟩, ⟨1,3,2⟩] (fl 8) = .ok s0 ∧
      ¬ Coherent true (scaledW true mirrorX id s0) ∧
      (scaledW true mirrorX id s0).pn.map (·.vertices) = some [1, 2, 2, 1] ∧
      (derive true (scaledW true mirrorX id s0).vertices (scaledW true mirrorX id s0).indices (fl 8)).pn.map (·.vertices)
        = some [-1, -2, -2, -1] :=
  ⟨_, rfl, by decide, by decide, by decide⟩

/-- (i) **as written**, `scaled` by a non-uniform scale keeps the old weights: in this geometry the weight of a triangle
is its doubled area, which `x ↦ 2x` doubles (in the real geometry: the angles at the vertices change) -/
theorem scaledW_nonuniform_not_coherent :
    ∃ s0 : Mesh Pt Int,
      withFlags true [(0,0),(1,0),(0,1),(1,1)] [⟨0,1,2⟩, ⟨1,3,2⟩] (fl 8) = .ok s0 ∧
      ¬ Coherent true (scaledW true stretchX id s0) :=
  ⟨_, rfl, by decide⟩

/-- with the fixes both histories end coherent (instances of `history2_coherent`), the QBVH holds the boxes of the
triangles of the scaled mesh (instance of `history2_qcoherent`).  Both meshes are `ORIENTED` and the scale mirrors, so
`scaled` reverses the winding (commit 1a6b99a): the index buffer is `[b, a, c]` and the pseudo-normals of the mirrored mesh
point to the same side as before the scale (`[1, 2, 2, 1]`, the doubled ones after the stretch); a `reverse` afterwards
negates them. -/
theorem scaled_fixed_witnesses :
    ∃ s1 s2 s3 : Mesh Pt Int,
      (match withFlags true [(0,0),(1,0),(0,1),(1,1)] [⟨0,1,2⟩, ⟨1,3,2⟩] (fl 8) with
        | .ok s0 => run2 true s0 [.scale mirrorX id true] | _ => none) = some s1 ∧
      (match withFlags true [(0,0),(1,0),(0,1),(1,1)] [⟨0,1,2⟩, ⟨1,3,2⟩] (fl 11) with
        | .ok s0 => run2 true s0 [.scale stretchX id false, .base (.setFlags (fl 27)), .scale mirrorX id true] | _ => none) = some s2 ∧
      run2 true s1 [.base .reverse] = some s3 ∧
      Coherent true s1 ∧ Coherent true s2 ∧ Coherent true s3 ∧
      s1.vertices = [(0,0),(-1,0),(0,1),(-1,1)] ∧ s1.indices = [⟨1,0,2⟩, ⟨3,1,2⟩] ∧
      s1.pn.map (·.vertices) = some [1, 2, 2, 1] ∧ s3.pn.map (·.vertices) = some [-1, -2, -2, -1] ∧
      s2.vertices = [(0,0),(-2,0),(0,1),(-2,1)] ∧ s2.pn.map (·.vertices) = some [2, 4, 4, 2] ∧
      s2.qbvh.map (·.map planarBox) = (allCoords s2.vertices s2.indices).map (·.map planarBox) :=
  ⟨_, _, _, rfl, rfl, rfl, by decide, by decide, by decide, by decide, by decide, by decide, by decide, by decide, by decide,
    by decide⟩

/-- the planar box satisfies the box law for the mirror (non-vacuity of `Op2BoxLawful` / `scaled_qcoherent`): mirroring
the box `[x0, x1] × [y0, y1]` to `[-x1, -x0] × [y0, y1]` gives the box of the mirrored triangle -/
theorem planarBox_mirror_law :
    ScaleBoxLaw planarBox (fun b => ((-b.2.1, b.1.2), (-b.1.1, b.2.2))) mirrorX := by
  intro c
  obtain ⟨⟨a1, a2⟩, ⟨b1, b2⟩, ⟨c1, c2⟩⟩ := c
  simp only [planarBox, mapTri, mirrorX, Prod.mk.injEq]
  refine ⟨⟨?_, trivial⟩, ⟨?_, trivial⟩⟩ <;> omega

/-! ## the 3-D statement for the real formulas, without geometric hypotheses (fu4) -/
section RealGeometry
variable {K : Type} [Field K] [LinearOrder K] [IsStrictOrderedRing K] (sq : K → K)

/-- **C11 for the concrete 3-D geometry**: vertices and pseudo-normals in `V3 K` over any ordered field, `Triangle::normal()`
and `Matrix::angle` as written (`geoK acos`, any `acos`, any square-root function): after `with_flags` and any finite
sequence of `set_flags`, `reverse`, `append` and `transform_vertices` by isometries with a unit quaternion, the derived data
are those of the current buffers and flags.  The hypotheses `LawfulGeo` / `TransformLaws` of `history_coherent` are
discharged by `geoK_lawful` and `geoK_isometry_laws`. -/
theorem history_coherent_real (acos : K → K) (vs : List (V3 K)) (idx : List Tri) (f : Flags)
    (ops : List (Op (V3 K) (V3 K))) :
    letI := fieldNum K sq
    letI := geoK acos
    (∀ op ∈ ops, match op with
      | Op.transform fV fN => ∃ m : Iso3 K,
          m.qi * m.qi + m.qj * m.qj + m.qk * m.qk + m.qw * m.qw = 1 ∧ fV = m.act ∧ fN = m.rot
      | _ => True) →
    ∀ s0 s : Mesh (V3 K) (V3 K), withFlags true vs idx f = .ok s0 → run true s0 ops = some s → Coherent true s := by
  letI := fieldNum K sq
  letI := geoK acos
  intro hops s0 s h0 h
  refine history_coherent true (fun _ => geoK_lawful sq acos) vs idx f ops ?_ s0 s h0 h
  intro op hop
  have := hops op hop
  cases op with
  | transform fV fN =>
    obtain ⟨m, hq, rfl, rfl⟩ := this
    exact geoK_isometry_laws sq acos m hq
  | _ => trivial

/-- 2-D meshes never carry pseudo-normals: whatever the flags, the derived pseudo-normals are absent -/
theorem derive_dim2_no_pn {V N : Type} [Geo V N] (vs : List V) (idx : List Tri) (f : Flags) :
    (derive (N := N) false vs idx f).pn = none := rfl

end RealGeometry

end C11
