import ParryModel.Field
import ParryModel.C11.Lemmas
/-!
# C11, what each flag's derived datum is, as a function of the buffers

## `HALF_EDGE_TOPOLOGY` / `DELETE_BAD_TOPOLOGY_TRIANGLES`: the half-edge structure

When `compute_topology` succeeds on an index buffer `idx` (`computeTopology nv idx = .ok t`):
* `t.faces[f] = 3 f` and there are exactly `3 * idx.length` half-edges (`topology_faces`, `topology_length`);
* half-edge `3 f + k` (`k = 0, 1, 2`) belongs to face `f`, starts at the `k`-th vertex of triangle `f` and its `next` is
  `3 f + (k + 1) % 3` (`topology_halfEdge`): `next` runs through cycles of length 3 that are exactly the faces
  (`topology_next_cycle`), face ↔ half-edge consistency (`topology_face_consistent`);
* the twin pass writes nothing but `twin` fields (`topoTwins_preserves`).

## `MERGE_DUPLICATE_VERTICES` / `DELETE_DEGENERATE_TRIANGLES` / `DELETE_DUPLICATE_TRIANGLES`: the rewritten buffers

`mergeLoop` resolves the vertices and filters the triangles in one pass; it factors (`mergeLoop_factor`) into
* a resolution pass that does not depend on the deletion flags (`mergeLoop_vertices_indep`): the new vertex buffer and
  the list `U` of all remapped triangles;
* `filterTris dd ddup U`: the triangles that survive.
About the survivors: they are a sublist of `U` (order kept, `merge_sublist`); with `DELETE_DEGENERATE_TRIANGLES` none has a
repeated index (`merge_no_degenerate`); with `DELETE_DUPLICATE_TRIANGLES` their sorted index triples are pairwise
distinct (`merge_no_duplicate`) and every *first occurrence* of a (kept-eligible) sorted triple survives
(`merge_keeps_first`) — so, of several triangles with the same vertex set, exactly the first one in buffer order is kept;
without either flag nothing is deleted (`merge_keeps_all`).
-/
namespace C11
open Model Model.TM

/-! ## half-edge structure -/

/-- the three half-edges of face `fid` whose first half-edge has index `base`, before the twin pass -/
def faceHes (base fid : Nat) (t : Tri) : List HalfEdge :=
  [⟨base + 1, umax, t.a, fid⟩, ⟨base + 2, umax, t.b, fid⟩, ⟨base, umax, t.c, fid⟩]

/-- all half-edges before the twin pass -/
def allHes : List Tri → Nat → Nat → List HalfEdge
  | [], _, _ => []
  | t :: ts, fid, base => faceHes base fid t ++ allHes ts (fid + 1) (base + 3)

/-- `faces[f].half_edge` -/
def allFaces : List Tri → Nat → List Nat
  | [], _ => []
  | _ :: ts, base => base :: allFaces ts (base + 3)

private theorem addHalfEdge_ok {st st' : TopoState} {fid base k v vnext : Nat}
    (h : addHalfEdge st fid base k v vnext = .ok st') :
    st'.hes = st.hes ++ [⟨base + (k + 1) % 3, umax, v, fid⟩] ∧ st'.faces = st.faces := by
  unfold addHalfEdge at h
  simp only at h
  split at h
  · split at h <;> cases h
  · split at h
    · cases h; exact ⟨rfl, rfl⟩
    · cases h

private theorem topoFaces_struct (ts : List Tri) (fid : Nat) (st st' : TopoState)
    (h : topoFaces ts fid st = .ok st') :
    st'.hes = st.hes ++ allHes ts fid st.hes.length ∧ st'.faces = st.faces ++ allFaces ts st.hes.length := by
  induction ts generalizing fid st with
  | nil =>
    rw [topoFaces] at h
    cases h
    simp [allHes, allFaces]
  | cons t ts ih =>
    rw [topoFaces_cons] at h
    split at h
    · cases h
    · split at h
      · cases h
      · cases h
      · rename_i st1 h1
        split at h
        · cases h
        · cases h
        · rename_i st2 h2
          split at h
          · cases h
          · cases h
          · rename_i st3 h3
            obtain ⟨e1, f1⟩ := addHalfEdge_ok h1
            obtain ⟨e2, f2⟩ := addHalfEdge_ok h2
            obtain ⟨e3, f3⟩ := addHalfEdge_ok h3
            have := ih (fid + 1) _ h
            simp only at this
            obtain ⟨ih1, ih2⟩ := this
            have hl : st3.hes.length = st.hes.length + 3 := by
              rw [e3, e2, e1]; simp
            rw [hl] at ih1 ih2
            constructor
            · rw [ih1, e3, e2, e1]
              simp [allHes, faceHes]
            · rw [ih2, f3, f2, f1]
              simp [allFaces]

/-- the twin pass changes `twin` fields only -/
private def core (h : HalfEdge) : Nat × Nat × Nat := (h.next, h.vertex, h.face)

private theorem setTwin_core {hes hes' : List HalfEdge} {i t : Nat} (h : setTwin hes i t = some hes') :
    hes'.map core = hes.map core := by
  unfold setTwin at h
  split at h
  · rename_i x hx
    cases h
    apply List.ext_getElem?
    intro j
    simp only [List.getElem?_map, List.getElem?_set]
    split
    · rename_i hij
      subst hij
      split
      · rw [hx]; rfl
      · rename_i hlt
        have := List.getElem?_eq_some_iff.mp hx
        exact absurd this.1 hlt
    · rfl
  · cases h

/-- `topoTwins` keeps `next`, `vertex`, `face` of every half-edge (and the number of half-edges) -/
theorem topoTwins_preserves (map l : List ((Nat × Nat) × Nat)) (hes hes' : List HalfEdge)
    (h : topoTwins map l hes = some hes') :
    hes'.map (fun h => (h.next, h.vertex, h.face)) = hes.map (fun h => (h.next, h.vertex, h.face)) := by
  induction l generalizing hes with
  | nil => rw [topoTwins] at h; cases h; rfl
  | cons x xs ih =>
    obtain ⟨⟨k0, k1⟩, he1⟩ := x
    rw [topoTwins] at h
    split at h
    · split at h
      · split at h
        · cases h
        · rename_i hes1 h1
          split at h
          · cases h
          · rename_i hes2 h2
            rw [ih _ h]
            exact (setTwin_core h2).trans (setTwin_core h1)
      · exact ih _ h
    · exact ih _ h

/-- **structure of the topology**: the half-edges, up to their `twin` fields, and the faces are the closed forms
`allHes`, `allFaces` of the index buffer -/
theorem topology_struct (nv : Nat) (idx : List Tri) (t : Topology) (h : computeTopology nv idx = .ok t) :
    t.halfEdges.map (fun h => (h.next, h.vertex, h.face)) = (allHes idx 0 0).map (fun h => (h.next, h.vertex, h.face)) ∧
    t.faces = allFaces idx 0 := by
  unfold computeTopology at h
  split at h
  · cases h
  · cases h
  · rename_i st hst
    split at h
    · cases h
    · rename_i hes hh
      cases h
      obtain ⟨e1, e2⟩ := topoFaces_struct idx 0 _ st hst
      simp only [List.nil_append, List.length_nil] at e1 e2
      exact ⟨by rw [topoTwins_preserves _ _ _ _ hh, e1], e2⟩

private theorem allFaces_eq (idx : List Tri) (base : Nat) :
    allFaces idx base = (List.range idx.length).map (fun f => base + 3 * f) := by
  induction idx generalizing base with
  | nil => rfl
  | cons t ts ih =>
    rw [allFaces, ih, List.length_cons, List.range_succ_eq_map]
    simp only [List.map_cons, List.map_map, Nat.mul_zero, Nat.add_zero, List.cons.injEq, true_and]
    apply List.map_congr_left
    intro f _
    simp only [Function.comp]
    omega

/-- `faces[f].half_edge = 3 f` -/
theorem topology_faces (nv : Nat) (idx : List Tri) (t : Topology) (h : computeTopology nv idx = .ok t) :
    t.faces = (List.range idx.length).map (fun f => 3 * f) := by
  rw [(topology_struct nv idx t h).2, allFaces_eq]
  simp

private theorem allHes_length (idx : List Tri) (fid base : Nat) : (allHes idx fid base).length = 3 * idx.length := by
  induction idx generalizing fid base with
  | nil => rfl
  | cons t ts ih => simp only [allHes, List.length_append, ih, faceHes, List.length_cons, List.length_nil]; omega

/-- there are exactly three half-edges per triangle -/
theorem topology_length (nv : Nat) (idx : List Tri) (t : Topology) (h : computeTopology nv idx = .ok t) :
    t.halfEdges.length = 3 * idx.length := by
  have := congrArg List.length (topology_struct nv idx t h).1
  simpa [allHes_length] using this

/-- the `k`-th vertex of a triangle -/
def Tri.get (t : Tri) (k : Nat) : Nat := if k = 0 then t.a else if k = 1 then t.b else t.c

private theorem allHes_get (idx : List Tri) (fid base f k : Nat) (t : Tri) (ht : idx[f]? = some t) (hk : k < 3) :
    (allHes idx fid base)[3 * f + k]? = some ⟨base + 3 * f + (k + 1) % 3, umax, Tri.get t k, fid + f⟩ := by
  induction idx generalizing fid base f with
  | nil => cases ht
  | cons x xs ih =>
    cases f with
    | zero =>
      simp only [List.getElem?_cons_zero, Option.some.injEq] at ht
      subst ht
      simp only [allHes, faceHes, Nat.mul_zero, Nat.zero_add, Nat.add_zero]
      rcases k with _ | _ | _ | k
      · simp [Tri.get]
      · simp [Tri.get]
      · simp [Tri.get]
      · omega
    | succ f =>
      simp only [List.getElem?_cons_succ] at ht
      have := ih (fid + 1) (base + 3) f ht
      simp only [allHes]
      rw [List.getElem?_append_right (by simp [faceHes]; omega)]
      have e : 3 * (f + 1) + k - (faceHes base fid x).length = 3 * f + k := by simp [faceHes]; omega
      rw [e, this]
      congr 2 <;> omega

/-- **half-edge `3 f + k`**: it belongs to face `f`, starts at the `k`-th vertex of triangle `f`, and `next` is
`3 f + (k + 1) % 3` -/
theorem topology_halfEdge (nv : Nat) (idx : List Tri) (t : Topology) (h : computeTopology nv idx = .ok t)
    (f k : Nat) (tri : Tri) (ht : idx[f]? = some tri) (hk : k < 3) :
    ∃ he, t.halfEdges[3 * f + k]? = some he ∧ he.next = 3 * f + (k + 1) % 3 ∧ he.vertex = Tri.get tri k ∧ he.face = f := by
  have hs := (topology_struct nv idx t h).1
  have hg := allHes_get idx 0 0 f k tri ht hk
  have := congrArg (fun l => l[3 * f + k]?) hs
  simp only [List.getElem?_map, hg, Option.map_some] at this
  cases hhe : t.halfEdges[3 * f + k]? with
  | none => rw [hhe] at this; cases this
  | some he =>
    rw [hhe] at this
    simp only [Option.map_some, Option.some.injEq, Prod.mk.injEq] at this
    exact ⟨he, rfl, by omega, this.2.1, by omega⟩

/-- **`next` cycles have length 3 and are the faces**: following `next` three times from any half-edge of face `f`
returns to it, and the three half-edges visited are `3f, 3f+1, 3f+2` -/
theorem topology_next_cycle (nv : Nat) (idx : List Tri) (t : Topology) (h : computeTopology nv idx = .ok t)
    (f k : Nat) (tri : Tri) (ht : idx[f]? = some tri) (hk : k < 3) :
    ∃ h0 h1 h2, t.halfEdges[3 * f + k]? = some h0 ∧ t.halfEdges[h0.next]? = some h1 ∧ t.halfEdges[h1.next]? = some h2 ∧
      h2.next = 3 * f + k ∧ h0.next = 3 * f + (k + 1) % 3 ∧ h1.next = 3 * f + (k + 2) % 3 ∧
      h0.face = f ∧ h1.face = f ∧ h2.face = f := by
  obtain ⟨h0, e0, n0, _, f0⟩ := topology_halfEdge nv idx t h f k tri ht hk
  obtain ⟨h1, e1, n1, _, f1⟩ := topology_halfEdge nv idx t h f ((k + 1) % 3) tri ht (Nat.mod_lt _ (by omega))
  obtain ⟨h2, e2, n2, _, f2⟩ := topology_halfEdge nv idx t h f ((k + 2) % 3) tri ht (Nat.mod_lt _ (by omega))
  refine ⟨h0, h1, h2, e0, by rw [n0]; exact e1, ?_, ?_, n0, ?_, f0, f1, f2⟩
  · rw [n1]
    have : ((k + 1) % 3 + 1) % 3 = (k + 2) % 3 := by omega
    rw [this]; exact e2
  · rw [n2]; omega
  · rw [n1]; omega

/-- **face ↔ half-edge consistency**: `faces[f].half_edge` is a half-edge whose `face` is `f`, and it starts at the first
vertex of triangle `f` -/
theorem topology_face_consistent (nv : Nat) (idx : List Tri) (t : Topology) (h : computeTopology nv idx = .ok t)
    (f : Nat) (tri : Tri) (ht : idx[f]? = some tri) :
    ∃ he, t.faces[f]? = some (3 * f) ∧ t.halfEdges[3 * f]? = some he ∧ he.face = f ∧ he.vertex = tri.a := by
  obtain ⟨he, e, _, v, fc⟩ := topology_halfEdge nv idx t h f 0 tri ht (by omega)
  have hf : f < idx.length := (List.getElem?_eq_some_iff.mp ht).1
  refine ⟨he, ?_, by simpa using e, fc, by simpa [Tri.get] using v⟩
  rw [topology_faces nv idx t h]
  simp [hf]

/-! ## the rewritten buffers of `merge_duplicate_vertices` -/
section Merge
variable {V N : Type} [Geo V N]

/-- the sorted index triple used as key of `triangle_set` -/
def triKey (t : Tri) : Nat × Nat × Nat :=
  let s := sort3 t.a t.b t.c
  (s.2.2, s.2.1, s.1)

/-- the deletion part of the loop of `merge_duplicate_vertices`, on the remapped triangles -/
def filterTris (dd ddup : Bool) : List Tri → List (Nat × Nat × Nat) → List Tri
  | [], _ => []
  | t :: ts, set =>
    if !isDegenerate t || !dd then
      if ddup then
        if set.contains (triKey t) then filterTris dd ddup ts set
        else t :: filterTris dd ddup ts (triKey t :: set)
      else t :: filterTris dd ddup ts set
    else filterTris dd ddup ts set

/-- the resolution part: new vertex buffer and all remapped triangles -/
def resolveAll : List (V × V × V) → List V → List V × List Tri
  | [], nv => (nv, [])
  | (pa, pb, pc) :: ts, nv =>
    let r1 := resolve (N := N) nv pa
    let r2 := resolve (N := N) r1.2 pb
    let r3 := resolve (N := N) r2.2 pc
    let r := resolveAll ts r3.2
    (r.1, ⟨r1.1, r2.1, r3.1⟩ :: r.2)

/-- **`mergeLoop` = resolve everything, then filter** -/
theorem mergeLoop_factor (dd ddup : Bool) (cs : List (V × V × V)) (nv : List V) (ni : List Tri)
    (set : List (Nat × Nat × Nat)) :
    mergeLoop (N := N) dd ddup cs nv ni set =
      ((resolveAll (N := N) cs nv).1, ni ++ filterTris dd ddup (resolveAll (N := N) cs nv).2 set) := by
  induction cs generalizing nv ni set with
  | nil => simp [mergeLoop, resolveAll, filterTris]
  | cons c cs ih =>
    obtain ⟨pa, pb, pc⟩ := c
    simp only [mergeLoop, resolveAll, filterTris, isDegenerate, triKey]
    split_ifs <;> simp_all

/-- the new vertex buffer does not depend on the deletion flags -/
theorem mergeLoop_vertices_indep (dd ddup dd' ddup' : Bool) (cs : List (V × V × V)) :
    (mergeLoop (N := N) dd ddup cs [] [] []).1 = (mergeLoop (N := N) dd' ddup' cs [] [] []).1 := by
  rw [mergeLoop_factor, mergeLoop_factor]

/-- without deletion flag every triangle is kept -/
theorem merge_keeps_all (cs : List (V × V × V)) :
    (mergeLoop (N := N) false false cs [] [] []).2 = (resolveAll (N := N) cs []).2 := by
  rw [mergeLoop_factor]
  simp only [List.nil_append]
  generalize (resolveAll (N := N) cs []).2 = U
  generalize ([] : List (Nat × Nat × Nat)) = S
  induction U with
  | nil => rfl
  | cons t ts ih => simp [filterTris, ih]

private theorem filterTris_sublist (dd ddup : Bool) (U : List Tri) (S : List (Nat × Nat × Nat)) :
    (filterTris dd ddup U S).Sublist U := by
  induction U generalizing S with
  | nil => exact List.Sublist.refl _
  | cons t ts ih =>
    simp only [filterTris]
    split_ifs
    · exact (ih S).cons _
    · exact (ih _).cons_cons _
    · exact (ih S).cons_cons _
    · exact (ih S).cons _

/-- the surviving triangles are a sublist (same relative order, same remapped indices) of all remapped triangles -/
theorem merge_sublist (dd ddup : Bool) (cs : List (V × V × V)) :
    (mergeLoop (N := N) dd ddup cs [] [] []).2.Sublist (mergeLoop (N := N) false false cs [] [] []).2 := by
  rw [merge_keeps_all, mergeLoop_factor]
  exact filterTris_sublist _ _ _ _

private theorem filterTris_nodeg (ddup : Bool) (U : List Tri) (S : List (Nat × Nat × Nat)) :
    ∀ t ∈ filterTris true ddup U S, isDegenerate t = false := by
  induction U generalizing S with
  | nil => intro t ht; cases ht
  | cons x xs ih =>
    intro t ht
    simp only [filterTris] at ht
    split_ifs at ht with h1 h2 h3
    · exact ih S t ht
    · rcases List.mem_cons.mp ht with rfl | ht
      · simpa using h1
      · exact ih _ t ht
    · rcases List.mem_cons.mp ht with rfl | ht
      · simpa using h1
      · exact ih _ t ht
    · exact ih S t ht

/-- `DELETE_DEGENERATE_TRIANGLES`: no surviving triangle has a repeated index -/
theorem merge_no_degenerate (ddup : Bool) (cs : List (V × V × V)) :
    ∀ t ∈ (mergeLoop (N := N) true ddup cs [] [] []).2, t.a ≠ t.b ∧ t.a ≠ t.c ∧ t.b ≠ t.c := by
  intro t ht
  rw [mergeLoop_factor] at ht
  have := filterTris_nodeg ddup _ _ t (by simpa using ht)
  simpa [isDegenerate, and_assoc] using this

private theorem filterTris_keys (dd : Bool) (U : List Tri) (S : List (Nat × Nat × Nat)) :
    ((filterTris dd true U S).map triKey).Nodup ∧ ∀ t ∈ filterTris dd true U S, triKey t ∉ S := by
  induction U generalizing S with
  | nil => simp [filterTris]
  | cons x xs ih =>
    simp only [filterTris]
    split_ifs with h1 h2
    · exact ih S
    · obtain ⟨n, m⟩ := ih (triKey x :: S)
      constructor
      · rw [List.map_cons, List.nodup_cons]
        refine ⟨?_, n⟩
        intro hmem
        obtain ⟨t, ht, hk⟩ := List.mem_map.mp hmem
        exact m t ht (by rw [hk]; exact List.mem_cons_self ..)
      · intro t ht
        rcases List.mem_cons.mp ht with rfl | ht
        · simpa using h2
        · intro hin
          exact m t ht (List.mem_cons_of_mem _ hin)
    · exact ih S

/-- `DELETE_DUPLICATE_TRIANGLES`: the sorted index triples of the surviving triangles are pairwise distinct -/
theorem merge_no_duplicate (dd : Bool) (cs : List (V × V × V)) :
    ((mergeLoop (N := N) dd true cs [] [] []).2.map triKey).Nodup := by
  rw [mergeLoop_factor]
  simpa using (filterTris_keys dd _ []).1

private theorem filterTris_first (dd : Bool) (l1 : List Tri) (t : Tri) (l2 : List Tri) (S : List (Nat × Nat × Nat))
    (hok : (!isDegenerate t || !dd) = true) (hS : triKey t ∉ S)
    (hfirst : ∀ t' ∈ l1, (!isDegenerate t' || !dd) = true → triKey t' ≠ triKey t) :
    t ∈ filterTris dd true (l1 ++ t :: l2) S := by
  induction l1 generalizing S with
  | nil =>
    simp only [List.nil_append, filterTris, hok, if_true]
    rw [if_neg (by simpa using hS)]
    exact List.mem_cons_self ..
  | cons x xs ih =>
    have hx := hfirst x (List.mem_cons_self ..)
    have hrest : ∀ t' ∈ xs, (!isDegenerate t' || !dd) = true → triKey t' ≠ triKey t :=
      fun t' ht' => hfirst t' (List.mem_cons_of_mem _ ht')
    simp only [List.cons_append, filterTris]
    split_ifs with h1 h2
    · exact ih S hS hrest
    · refine List.mem_cons_of_mem _ (ih _ ?_ hrest)
      intro hin
      rcases List.mem_cons.mp hin with e | e
      · exact hx h1 e.symm
      · exact hS e
    · exact ih S hS hrest

/-- **duplicate removal keeps the first occurrence**: a remapped triangle that is eligible (not deleted as degenerate)
and whose sorted index triple does not occur among the eligible triangles before it, survives.  Together with
`merge_no_duplicate` and `merge_sublist`: of the triangles with one vertex set exactly the first is kept. -/
theorem merge_keeps_first (dd : Bool) (cs : List (V × V × V)) (l1 : List Tri) (t : Tri) (l2 : List Tri)
    (hU : (mergeLoop (N := N) false false cs [] [] []).2 = l1 ++ t :: l2)
    (hok : dd = true → isDegenerate t = false)
    (hfirst : ∀ t' ∈ l1, (dd = true → isDegenerate t' = false) → triKey t' ≠ triKey t) :
    t ∈ (mergeLoop (N := N) dd true cs [] [] []).2 := by
  rw [merge_keeps_all] at hU
  rw [mergeLoop_factor, hU]
  simp only [List.nil_append]
  apply filterTris_first dd l1 t l2 []
  · cases dd <;> simp_all
  · simp
  · intro t' ht' h'
    apply hfirst t' ht'
    intro hd
    subst hd
    simpa using h'

end Merge

/-! ## non-vacuity -/

/-- two triangles sharing an edge: the topology exists, six half-edges, `next` cycles as stated -/
example : ∃ t, computeTopology 4 [⟨0, 1, 2⟩, ⟨2, 1, 3⟩] = .ok t ∧ t.halfEdges.length = 6 ∧
    t.halfEdges.map (·.next) = [1, 2, 0, 4, 5, 3] ∧ t.halfEdges.map (·.twin) = [umax, 3, umax, 1, umax, umax] := by
  refine ⟨_, rfl, ?_⟩
  decide

/-- duplicate removal on integer points: `(0,1,2)`, its rotation `(1,2,0)` and a third triangle: the first is kept -/
instance : Geo Int Unit := ⟨fun a b => a == b, (), fun _ _ => (), fun _ => (), fun _ _ _ => none⟩
example : (mergeLoop (V := Int) (N := Unit) false true [(10, 20, 30), (20, 30, 10), (10, 20, 40)] [] [] []).2
    = [⟨0, 1, 2⟩, ⟨0, 1, 3⟩] := by decide

end C11
