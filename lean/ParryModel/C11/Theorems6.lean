import ParryModel.Field
import ParryModel.C11.Lemmas
/-!
# C11: what a `TopologyError` reports, and the `TriMeshBuilderError` cases of `with_flags`

`compute_topology` stops at the first problem it meets, in buffer order:
* `TopologyError::BadTriangle(f)`: triangle `f` has a repeated index and no triangle before it has
  (`topology_badTriangle_spec`);
* `TopologyError::BadAdjacentTrianglesOrientation { triangle1, triangle2, edge }`: the directed edge `edge = (e0, e1)` is an
  edge `(a,b)`, `(b,c)` or `(c,a)` of triangle `triangle2` **and** of triangle `triangle1`, and `triangle1 <= triangle2`
  (`topology_badAdj_spec`) — i.e. two faces run along the same edge in the same direction, which is what an inconsistent
  orientation (or a non-manifold edge) is;
* no other error and, for an in-bounds buffer, no panic (`computeTopology_total`, already proved).

`TriMesh::with_flags` / `TriMesh::new`: `Err(EmptyIndices)` exactly when the index buffer is empty, whatever the flags and
the vertices (`withFlags_emptyIndices_iff`); a `TopologyError` of the embedded `set_flags` is swallowed
(`let _ = result.set_flags(flags)`): the constructor still returns `Ok` for every non-empty in-bounds buffer
(`withFlags_ok_of_inBounds`), the topology is then simply absent (`withFlags_coherent`).
-/
namespace C11
open Model Model.TM

/-- `e` is one of the three directed edges of `t` -/
def HasDirEdge (t : Tri) (e : Nat × Nat) : Prop := e = (t.a, t.b) ∨ e = (t.b, t.c) ∨ e = (t.c, t.a)

/-- every entry of `half_edge_map` designates a half-edge of a face `<= cur` that has this directed edge -/
private def MapInv (idx : List Tri) (cur : Nat) (st : TopoState) : Prop :=
  ∀ (e : Nat × Nat) (h : Nat), alookup e st.map = some h →
    ∃ (he : HalfEdge) (tri : Tri), st.hes[h]? = some he ∧ he.face ≤ cur ∧ idx[he.face]? = some tri ∧ HasDirEdge tri e

private theorem MapInv.mono {idx : List Tri} {c1 c2 : Nat} {st : TopoState} (h : MapInv idx c1 st) (hc : c1 ≤ c2) :
    MapInv idx c2 st := by
  intro e hh he
  obtain ⟨x, tri, h1, h2, h3, h4⟩ := h e hh he
  exact ⟨x, tri, h1, by omega, h3, h4⟩

private theorem addHalfEdge_ok_inv (idx : List Tri) (st st' : TopoState) (fid base k v vnext : Nat) (tri : Tri)
    (hinv : MapInv idx fid st) (hbk : base + k = st.hes.length) (htri : idx[fid]? = some tri)
    (hedge : HasDirEdge tri (v, vnext)) (h : addHalfEdge st fid base k v vnext = .ok st') :
    MapInv idx fid st' ∧ st'.hes.length = st.hes.length + 1 := by
  unfold addHalfEdge at h
  simp only at h
  split at h
  · split at h <;> cases h
  · rename_i hlk
    split at h
    · cases h
      refine ⟨?_, by simp⟩
      intro e hh hl
      simp only at hl
      rw [alookup_cons] at hl
      split at hl
      · rename_i heq
        have he : e = (v, vnext) := by simpa using heq
        cases hl
        refine ⟨⟨base + (k + 1) % 3, umax, v, fid⟩, tri, ?_, Nat.le_refl _, htri, by rw [he]; exact hedge⟩
        simp only
        rw [hbk, List.getElem?_append_right (Nat.le_refl _)]
        simp
      · obtain ⟨x, tri1, h1, h2, h3, h4⟩ := hinv e hh hl
        have hlt : hh < st.hes.length := (List.getElem?_eq_some_iff.mp h1).1
        exact ⟨x, tri1, by simp only; rw [List.getElem?_append_left hlt]; exact h1, h2, h3, h4⟩
    · cases h

private theorem addHalfEdge_err_spec (idx : List Tri) (st : TopoState) (fid base k v vnext : Nat) (e : TopoErr)
    (hinv : MapInv idx fid st) (h : addHalfEdge st fid base k v vnext = .err e) :
    ∃ t1, e = .badAdj t1 fid v vnext ∧ t1 ≤ fid ∧ ∃ tri1, idx[t1]? = some tri1 ∧ HasDirEdge tri1 (v, vnext) := by
  unfold addHalfEdge at h
  simp only at h
  split at h
  · rename_i existing hlk
    obtain ⟨he, tri1, h1, h2, h3, h4⟩ := hinv _ _ hlk
    have hlt : existing < st.hes.length := (List.getElem?_eq_some_iff.mp h1).1
    rw [List.getElem?_append_left hlt, h1] at h
    simp only at h
    cases h
    exact ⟨_, rfl, h2, tri1, h3, h4⟩
  · split at h <;> cases h

private theorem getElem?_mid (pre : List Tri) (t : Tri) (ts : List Tri) : (pre ++ t :: ts)[pre.length]? = some t := by
  rw [List.getElem?_append_right (Nat.le_refl _)]
  simp

/-- what an error of the face loop says, for the loop started on the suffix `ts` of `pre ++ ts` -/
private def ErrSpec (idx : List Tri) (lo : Nat) (r : StepRes) : Prop :=
  (∀ f, r = .err (.badTriangle f) →
      lo ≤ f ∧ (∃ t, idx[f]? = some t ∧ isDegenerate t = true) ∧
      ∀ g t', lo ≤ g → g < f → idx[g]? = some t' → isDegenerate t' = false) ∧
  (∀ t1 t2 e0 e1, r = .err (.badAdj t1 t2 e0 e1) →
      t1 ≤ t2 ∧ ∃ tri1 tri2, idx[t1]? = some tri1 ∧ idx[t2]? = some tri2 ∧
        HasDirEdge tri1 (e0, e1) ∧ HasDirEdge tri2 (e0, e1))

private theorem errSpec_panic (idx : List Tri) (lo : Nat) : ErrSpec idx lo .panic :=
  ⟨fun _ h => (by cases h), fun _ _ _ _ h => (by cases h)⟩

/-- an adjacency error raised while adding an edge of triangle `lo` -/
private theorem errSpec_adj (idx : List Tri) (lo : Nat) (t : Tri) (v vnext : Nat) (e : TopoErr)
    (hmid : idx[lo]? = some t) (hedge : HasDirEdge t (v, vnext))
    (hs : ∃ t1, e = .badAdj t1 lo v vnext ∧ t1 ≤ lo ∧ ∃ tri1, idx[t1]? = some tri1 ∧ HasDirEdge tri1 (v, vnext)) :
    ErrSpec idx lo (.err e) := by
  obtain ⟨t1, rfl, r3, tri1, r4, r5⟩ := hs
  refine ⟨fun _ h => (by cases h), ?_⟩
  intro a1 a2 x0 x1 h
  cases h
  exact ⟨r3, tri1, t, r4, hmid, r5, hedge⟩

private theorem topoFaces_err_spec (ts pre : List Tri) (st : TopoState) (hinv : MapInv (pre ++ ts) pre.length st) :
    ErrSpec (pre ++ ts) pre.length (topoFaces ts pre.length st) := by
  induction ts generalizing pre st with
  | nil =>
    rw [topoFaces]
    exact ⟨fun _ h => (by cases h), fun _ _ _ _ h => (by cases h)⟩
  | cons t ts ih =>
    have hmid := getElem?_mid pre t ts
    have hassoc : pre ++ t :: ts = (pre ++ [t]) ++ ts := by simp
    have hlen : (pre ++ [t]).length = pre.length + 1 := by simp
    rw [topoFaces_cons]
    by_cases hdeg : isDegenerate t = true
    · rw [if_pos hdeg]
      refine ⟨?_, fun _ _ _ _ h => (by cases h)⟩
      intro f h
      cases h
      exact ⟨Nat.le_refl _, ⟨t, hmid, hdeg⟩, fun g t' h1 h2 => by omega⟩
    · rw [if_neg hdeg]
      have hdeg' : isDegenerate t = false := by simpa using hdeg
      cases h1 : addHalfEdge st pre.length st.hes.length 0 t.a t.b with
      | panic => exact errSpec_panic _ _
      | err e =>
        exact errSpec_adj _ _ t _ _ e hmid (Or.inl rfl) (addHalfEdge_err_spec _ _ _ _ _ _ _ e hinv h1)
      | ok st1 =>
        obtain ⟨inv1, l1⟩ := addHalfEdge_ok_inv _ st st1 _ _ 0 _ _ t hinv (by simp) hmid (Or.inl rfl) h1
        show ErrSpec _ _ (match addHalfEdge st1 pre.length st.hes.length 1 t.b t.c with
          | .panic => .panic | .err e => .err e | .ok st2 => _)
        cases h2 : addHalfEdge st1 pre.length st.hes.length 1 t.b t.c with
        | panic => exact errSpec_panic _ _
        | err e =>
          exact errSpec_adj _ _ t _ _ e hmid (Or.inr (Or.inl rfl)) (addHalfEdge_err_spec _ _ _ _ _ _ _ e inv1 h2)
        | ok st2 =>
          obtain ⟨inv2, l2⟩ := addHalfEdge_ok_inv _ st1 st2 _ _ 1 _ _ t inv1 (by omega) hmid (Or.inr (Or.inl rfl)) h2
          show ErrSpec _ _ (match addHalfEdge st2 pre.length st.hes.length 2 t.c t.a with
            | .panic => .panic | .err e => .err e | .ok st3 => _)
          cases h3 : addHalfEdge st2 pre.length st.hes.length 2 t.c t.a with
          | panic => exact errSpec_panic _ _
          | err e =>
            exact errSpec_adj _ _ t _ _ e hmid (Or.inr (Or.inr rfl)) (addHalfEdge_err_spec _ _ _ _ _ _ _ e inv2 h3)
          | ok st3 =>
            obtain ⟨inv3, l3⟩ := addHalfEdge_ok_inv _ st2 st3 _ _ 2 _ _ t inv2 (by omega) hmid (Or.inr (Or.inr rfl)) h3
            have inv' : MapInv ((pre ++ [t]) ++ ts) (pre ++ [t]).length { st3 with faces := st3.faces ++ [st.hes.length] } := by
              rw [← hassoc, hlen]
              exact MapInv.mono (st := { st3 with faces := st3.faces ++ [st.hes.length] }) inv3 (Nat.le_succ _)
            have := ih (pre ++ [t]) _ inv'
            rw [hlen, ← hassoc] at this
            obtain ⟨ihA, ihB⟩ := this
            refine ⟨?_, ihB⟩
            intro f h
            obtain ⟨q1, q2, q3⟩ := ihA f h
            refine ⟨by omega, q2, ?_⟩
            intro g t' hg1 hg2 hg3
            by_cases hgeq : g = pre.length
            · subst hgeq
              rw [hmid] at hg3
              cases hg3
              exact hdeg'
            · exact q3 g t' (by omega) hg2 hg3

/-- **`TopologyError::BadTriangle(f)`**: triangle `f` has a repeated index and it is the first such triangle -/
theorem topology_badTriangle_spec (nv : Nat) (idx : List Tri) (f : Nat)
    (h : computeTopology nv idx = .err (.badTriangle f)) :
    (∃ t, idx[f]? = some t ∧ isDegenerate t = true) ∧ ∀ g t', g < f → idx[g]? = some t' → isDegenerate t' = false := by
  unfold computeTopology at h
  split at h
  · cases h
  · rename_i e he
    cases h
    have hinv : MapInv ([] ++ idx) ([] : List Tri).length { tv := List.replicate nv umax, faces := [], hes := [], map := [] } := by
      intro e h hl
      simp [alookup] at hl
    obtain ⟨_, q2, q3⟩ := (topoFaces_err_spec idx [] _ hinv).1 f he
    exact ⟨by simpa using q2, fun g t' hg ht => q3 g t' (by simp) hg (by simpa using ht)⟩
  · split at h <;> cases h

/-- **`TopologyError::BadAdjacentTrianglesOrientation`**: both reported triangles run along the reported directed edge -/
theorem topology_badAdj_spec (nv : Nat) (idx : List Tri) (t1 t2 e0 e1 : Nat)
    (h : computeTopology nv idx = .err (.badAdj t1 t2 e0 e1)) :
    t1 ≤ t2 ∧ ∃ tri1 tri2, idx[t1]? = some tri1 ∧ idx[t2]? = some tri2 ∧
      HasDirEdge tri1 (e0, e1) ∧ HasDirEdge tri2 (e0, e1) := by
  unfold computeTopology at h
  split at h
  · cases h
  · rename_i e he
    cases h
    have hinv : MapInv ([] ++ idx) ([] : List Tri).length { tv := List.replicate nv umax, faces := [], hes := [], map := [] } := by
      intro e h hl
      simp [alookup] at hl
    have := (topoFaces_err_spec idx [] _ hinv).2 t1 t2 e0 e1 he
    simpa using this
  · split at h <;> cases h

/-! ## `TriMeshBuilderError` -/
section Builder
variable {V N : Type} [Geo V N]

/-- `Err(TriMeshBuilderError::EmptyIndices)` iff the index buffer is empty — for every flag set, every vertex buffer -/
theorem withFlags_emptyIndices_iff (dim3 : Bool) (vs : List V) (idx : List Tri) (f : Flags) :
    (match withFlags (N := N) dim3 vs idx f with | .emptyIndices => True | _ => False) ↔ idx = [] := by
  unfold withFlags
  cases idx with
  | nil => simp
  | cons t ts =>
    simp only [List.isEmpty_cons, Bool.false_eq_true, if_false]
    constructor
    · intro h
      cases hb : buildCore (N := N) dim3 vs (t :: ts) f <;> simp [hb] at h
    · intro h; cases h

/-- a `TopologyError` inside `with_flags` is swallowed: for a non-empty in-bounds buffer the constructor returns `Ok`,
whatever the flags (so `TriMeshBuilderError::TopologyError` is never produced by `with_flags` itself) -/
theorem withFlags_ok_of_inBounds (dim3 : Bool) (vs : List V) (idx : List Tri) (f : Flags)
    (hne : idx ≠ []) (hb : inBounds vs.length idx = true) :
    ∃ s, withFlags (N := N) dim3 vs idx f = .ok s := by
  rcases withFlags_no_panic' (N := N) dim3 vs idx f hb with ⟨h, _⟩ | ⟨_, s, hs, _⟩
  · exact absurd h hne
  · exact ⟨s, hs⟩

end Builder

/-! ## non-vacuity -/

example : computeTopology 3 [⟨0, 1, 2⟩, ⟨1, 1, 2⟩] = .err (.badTriangle 1) := by decide
example : computeTopology 4 [⟨0, 1, 2⟩, ⟨0, 1, 3⟩] = .err (.badAdj 0 1 0 1) := by decide

end C11
