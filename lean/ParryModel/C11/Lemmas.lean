import ParryModel.C11.Model
/-!
# C11 helper lemmas (core Lean only): specifications of the individual stages of `set_flags`,
the stage invariant, and list-level facts about the buffer transformations.
-/
namespace C11
open Model Model.TM
variable {V N : Type}

/-- **Coherence**: the cached derived data are exactly what the flags ask for, computed from the buffers
as they are now. -/
def Coherent [Geo V N] (dim3 : Bool) (s : Mesh V N) : Prop :=
  s.derived = derive dim3 s.vertices s.indices s.flags

/-! ## stage specifications -/

theorem mergeStep_spec [Geo V N] {s s1 : Mesh V N} {dd ddup : Bool} (h : mergeStep s dd ddup = some s1) :
    s1.topology = s.topology ∧ s1.cc = s.cc ∧ s1.pn = s.pn ∧ s1.flags = s.flags ∧ s1.qbvh = s.qbvh := by
  unfold mergeStep at h
  split at h
  · cases h
  · cases h; simp

theorem topoStepW_spec {s s1 : Mesh V N} {del : Bool} {r} (h : topoStepW s del = some (s1, r)) :
    s1.vertices = s.vertices ∧ s1.indices = (if del then deleteBad s.indices else s.indices) ∧
    s1.cc = s.cc ∧ s1.pn = s.pn ∧ s1.flags = s.flags ∧
    s1.topology = (match topoOf s1.vertices.length s1.indices with | some t => some t | none => s.topology) ∧
    s1.qbvh = s.qbvh := by
  unfold topoStepW at h
  cases del <;> simp only [Bool.false_eq_true, if_false, if_true] at h ⊢ <;>
  · split at h
    · cases h
    · cases h; simp_all [topoOf]
    · cases h; simp_all [topoOf]

theorem topoStep_spec {s s1 : Mesh V N} {del : Bool} {r} (h : topoStep s del = some (s1, r)) :
    s1.vertices = s.vertices ∧ s1.indices = (if del then deleteBad s.indices else s.indices) ∧
    s1.cc = s.cc ∧ s1.pn = s.pn ∧ s1.flags = s.flags ∧
    s1.topology = topoOf s1.vertices.length s1.indices ∧ s1.qbvh = s.qbvh := by
  unfold topoStep at h
  have := topoStepW_spec h
  simp only at this
  obtain ⟨a, b, c, d, e, f, g⟩ := this
  refine ⟨a, b, c, d, e, ?_, g⟩
  rw [f]; split <;> simp_all

theorem ccStep_spec {s s1 : Mesh V N} (h : ccStep s = some s1) :
    s1.vertices = s.vertices ∧ s1.indices = s.indices ∧ s1.topology = s.topology ∧ s1.pn = s.pn ∧ s1.flags = s.flags ∧
    s1.cc = computeCC s.vertices.length s.indices ∧ s1.qbvh = s.qbvh := by
  unfold ccStep at h
  split at h
  · cases h
  · cases h; simp_all

theorem pnStep_spec [Geo V N] {s s1 : Mesh V N} (h : pnStep s = some s1) :
    s1.vertices = s.vertices ∧ s1.indices = s.indices ∧ s1.topology = s.topology ∧ s1.cc = s.cc ∧ s1.flags = s.flags ∧
    s1.pn = computePN s.vertices s.indices ∧ s1.qbvh = s.qbvh := by
  unfold pnStep at h
  split at h
  · cases h
  · cases h; simp_all

/-! ## `delete_bad_topology_triangles` only removes triangles -/

theorem deleteBadLoop_sublist (idx : List Tri) (set : List (Nat × Nat)) : (deleteBadLoop idx set).Sublist idx := by
  induction idx generalizing set with
  | nil => simp [deleteBadLoop]
  | cons t ts ih =>
    unfold deleteBadLoop
    split
    · exact (ih set).cons _
    · split
      · exact (ih set).cons _
      · exact (ih _).cons_cons _

theorem deleteBad_eq_of_length {idx : List Tri} (h : (deleteBad idx).length = idx.length) : deleteBad idx = idx :=
  (deleteBadLoop_sublist idx []).eq_of_length h

/-! ## flag algebra -/

theorem diff_topo {f g : Flags} (h1 : f.topoFamily = true) (h2 : (f.diff g).topoFamily = false) : g.topoFamily = true := by
  obtain ⟨a1, a2, a3, a4, a5, a6, a7, a8⟩ := f
  obtain ⟨b1, b2, b3, b4, b5, b6, b7, b8⟩ := g
  simp only [Flags.topoFamily, Flags.diff] at *
  cases a1 <;> cases a3 <;> cases b1 <;> cases b3 <;> simp_all

theorem diff_ccf {f g : Flags} (h1 : f.ccf = true) (h2 : (f.diff g).ccf = false) : g.ccf = true := by
  simp only [Flags.diff] at *
  cases hf : f.ccf <;> cases hg : g.ccf <;> simp_all

theorem diff_pn {f g : Flags} (h1 : f.pnFamily = true) (h2 : (f.diff g).pnFamily = false) : g.pnFamily = true := by
  obtain ⟨a1, a2, a3, a4, a5, a6, a7, a8⟩ := f
  obtain ⟨b1, b2, b3, b4, b5, b6, b7, b8⟩ := g
  simp only [Flags.pnFamily, Flags.diff] at *
  cases a4 <;> cases a5 <;> cases a8 <;> cases b4 <;> cases b5 <;> cases b8 <;> simp_all

/-- `difference ⊆ flags` on the three families -/
def SubFam (d f : Flags) : Prop :=
  (d.topoFamily = true → f.topoFamily = true) ∧ (d.ccf = true → f.ccf = true) ∧ (d.pnFamily = true → f.pnFamily = true)

theorem diff_sub (f g : Flags) : SubFam (f.diff g) f := by
  obtain ⟨a1, a2, a3, a4, a5, a6, a7, a8⟩ := f
  obtain ⟨b1, b2, b3, b4, b5, b6, b7, b8⟩ := g
  simp only [SubFam, Flags.topoFamily, Flags.pnFamily, Flags.diff]
  refine ⟨?_, ?_, ?_⟩
  · cases a1 <;> cases a3 <;> simp
  · cases a2 <;> simp
  · cases a4 <;> cases a5 <;> cases a8 <;> simp

theorem subFam_refl (f : Flags) : SubFam f f := ⟨id, id, id⟩

/-! ## projections of the reset stage -/

@[simp] theorem dropStage_vertices (dim3 : Bool) (s : Mesh V N) (f : Flags) : (dropStage dim3 s f).vertices = s.vertices := by
  unfold dropStage; split <;> split <;> split <;> rfl
@[simp] theorem dropStage_indices (dim3 : Bool) (s : Mesh V N) (f : Flags) : (dropStage dim3 s f).indices = s.indices := by
  unfold dropStage; split <;> split <;> split <;> rfl
@[simp] theorem dropStage_flags (dim3 : Bool) (s : Mesh V N) (f : Flags) : (dropStage dim3 s f).flags = s.flags := by
  unfold dropStage; split <;> split <;> split <;> rfl
theorem dropStage_topology (dim3 : Bool) (s : Mesh V N) (f : Flags) :
    (dropStage dim3 s f).topology = if f.topoFamily then s.topology else none := by
  unfold dropStage; cases f.topoFamily <;> (repeat' split) <;> simp_all
theorem dropStage_cc (dim3 : Bool) (s : Mesh V N) (f : Flags) :
    (dropStage dim3 s f).cc = if f.ccf then s.cc else none := by
  unfold dropStage; cases f.ccf <;> (repeat' split) <;> simp_all
theorem dropStage_pn (dim3 : Bool) (s : Mesh V N) (f : Flags) :
    (dropStage dim3 s f).pn = if dim3 && !f.pnFamily then none else s.pn := by
  unfold dropStage; cases dim3 <;> cases f.pnFamily <;> (repeat' split) <;> simp_all

/-! ## the stage invariant of `set_flags` -/

/-- target flags `f`; `dt dc dp` say whether topology / connected components / pseudo-normals are still
pending (the three families of the Rust variable `difference`).  Data that `f` does not ask for is absent;
data that `f` asks for and that is not pending is what the current buffers give. -/
structure Inv [Geo V N] (dim3 : Bool) (f : Flags) (dt dc dp : Bool) (s : Mesh V N) : Prop where
  t0 : f.topoFamily = false → s.topology = none
  t1 : f.topoFamily = true → dt = false → s.topology = topoOf s.vertices.length s.indices
  c0 : f.ccf = false → s.cc = none
  c1 : f.ccf = true → dc = false → s.cc = computeCC s.vertices.length s.indices
  p0 : (dim3 && f.pnFamily) = false → s.pn = none
  p1 : (dim3 && f.pnFamily) = true → dp = false → s.pn = computePN s.vertices s.indices
  st : dt = true → f.topoFamily = true
  sc : dc = true → f.ccf = true
  sp : dp = true → f.pnFamily = true

theorem drop_inv [Geo V N] (dim3 : Bool) (s : Mesh V N) (f : Flags) (hc : Coherent dim3 s) :
    Inv dim3 f (f.diff s.flags).topoFamily (f.diff s.flags).ccf (f.diff s.flags).pnFamily (dropStage dim3 s f) := by
  unfold Coherent at hc
  simp only [Mesh.derived, derive, Derived.mk.injEq] at hc
  obtain ⟨hp, ht, hcc⟩ := hc
  constructor
  · intro h; simp [dropStage_topology, h]
  · intro h1 h2; simp [dropStage_topology, h1, ht, diff_topo h1 h2]
  · intro h; simp [dropStage_cc, h]
  · intro h1 h2; simp [dropStage_cc, h1, hcc, diff_ccf h1 h2]
  · intro h
    rw [dropStage_pn, hp]
    cases dim3 <;> simp_all
  · intro h1 h2
    simp only [Bool.and_eq_true] at h1
    rw [dropStage_pn, hp]; simp [h1, diff_pn h1.2 h2]
  · exact (diff_sub f s.flags).1
  · exact (diff_sub f s.flags).2.1
  · exact (diff_sub f s.flags).2.2

theorem mergeStage_inv [Geo V N] {dim3 : Bool} {f d d1 : Flags} {s s1 : Mesh V N}
    (hi : Inv dim3 f d.topoFamily d.ccf d.pnFamily s) (h : mergeStage s f d = some (s1, d1)) :
    Inv dim3 f d1.topoFamily d1.ccf d1.pnFamily s1 := by
  unfold mergeStage at h
  split at h
  · simp only [Option.map_eq_some_iff, Prod.mk.injEq] at h
    obtain ⟨s', hm, rfl, rfl⟩ := h
    obtain ⟨e1, e2, e3, _⟩ := mergeStep_spec hm
    constructor
    · intro h; rw [e1]; exact hi.t0 h
    · intro h1 h2; simp_all
    · intro h; rw [e2]; exact hi.c0 h
    · intro h1 h2; simp_all
    · intro h; rw [e3]; exact hi.p0 h
    · intro h1 h2; simp_all
    · exact id
    · exact id
    · exact id
  · cases h; exact hi

theorem topoStage_inv [Geo V N] {dim3 : Bool} {f d d1 : Flags} {s s1 : Mesh V N} {r : Option TopoErr}
    (hi : Inv dim3 f d.topoFamily d.ccf d.pnFamily s) (h : topoStage s f d = some (s1, r, d1)) :
    Inv dim3 f false d1.ccf d1.pnFamily s1 := by
  unfold topoStage at h
  split at h
  · rename_i hd
    simp only [Option.map_eq_some_iff, Prod.mk.injEq] at h
    obtain ⟨⟨s', r'⟩, hm, rfl, rfl, rfl⟩ := h
    obtain ⟨ev, ei, e2, e3, _, et, _⟩ := topoStep_spec hm
    simp only at ev ei e2 e3 et ⊢
    by_cases hl : s'.indices.length = s.indices.length
    · -- buffers unchanged
      have hidx : s'.indices = s.indices := by
        rw [ei] at hl ⊢
        split
        · rename_i hdel; rw [if_pos hdel] at hl; exact deleteBad_eq_of_length hl
        · rfl
      simp only [hl, bne_self_eq_false, Bool.false_eq_true, if_false]
      constructor
      · intro h; have := hi.st hd; simp_all
      · intro _ _; exact et
      · intro h; rw [e2]; exact hi.c0 h
      · intro h1 h2; rw [e2, ev, hidx]; exact hi.c1 h1 h2
      · intro h; rw [e3]; exact hi.p0 h
      · intro h1 h2; rw [e3, ev, hidx]; exact hi.p1 h1 h2
      · intro h; cases h
      · exact hi.sc
      · exact hi.sp
    · have : (s'.indices.length != s.indices.length) = true := by simp [hl]
      simp only [this, if_true]
      constructor
      · intro h; have := hi.st hd; simp_all
      · intro _ _; exact et
      · intro h; rw [e2]; exact hi.c0 h
      · intro h1 h2; simp_all
      · intro h; rw [e3]; exact hi.p0 h
      · intro h1 h2; simp_all
      · intro h; cases h
      · exact id
      · exact id
  · rename_i hd
    cases h
    have hd' : d.topoFamily = false := by simpa using hd
    constructor
    · exact hi.t0
    · intro h1 _; exact hi.t1 h1 hd'
    · exact hi.c0
    · exact hi.c1
    · exact hi.p0
    · exact hi.p1
    · intro h; cases h
    · exact hi.sc
    · exact hi.sp

theorem ccStage_inv [Geo V N] {dim3 : Bool} {f d : Flags} {dt dp : Bool} {s s1 : Mesh V N}
    (hi : Inv dim3 f dt d.ccf dp s) (h : ccStage s d = some s1) :
    Inv dim3 f dt false dp s1 := by
  unfold ccStage at h
  split at h
  · rename_i hd
    obtain ⟨ev, ei, e1, e3, _, ec, _⟩ := ccStep_spec h
    constructor
    · intro h; rw [e1]; exact hi.t0 h
    · intro h1 h2; rw [e1, ev, ei]; exact hi.t1 h1 h2
    · intro h; have := hi.sc hd; simp_all
    · intro _ _; rw [ec, ev, ei]
    · intro h; rw [e3]; exact hi.p0 h
    · intro h1 h2; rw [e3, ev, ei]; exact hi.p1 h1 h2
    · exact hi.st
    · intro h; cases h
    · exact hi.sp
  · rename_i hd
    cases h
    have hd' : d.ccf = false := by simpa using hd
    exact ⟨hi.t0, hi.t1, hi.c0, fun h1 _ => hi.c1 h1 hd', hi.p0, hi.p1, hi.st, (fun h => by cases h), hi.sp⟩

theorem pnStage_inv [Geo V N] {dim3 : Bool} {f d : Flags} {dt dc : Bool} {s s1 : Mesh V N}
    (hi : Inv dim3 f dt dc d.pnFamily s) (h : pnStage dim3 s d = some s1) :
    Inv dim3 f dt dc false s1 := by
  unfold pnStage at h
  split at h
  · rename_i hd
    simp only [Bool.and_eq_true] at hd
    obtain ⟨ev, ei, e1, e2, _, ep, _⟩ := pnStep_spec h
    constructor
    · intro h; rw [e1]; exact hi.t0 h
    · intro h1 h2; rw [e1, ev, ei]; exact hi.t1 h1 h2
    · intro h; rw [e2]; exact hi.c0 h
    · intro h1 h2; rw [e2, ev, ei]; exact hi.c1 h1 h2
    · intro h; have := hi.sp hd.2; simp_all
    · intro _ _; rw [ep, ev, ei]
    · exact hi.st
    · exact hi.sc
    · intro h; cases h
  · rename_i hd
    cases h
    refine ⟨hi.t0, hi.t1, hi.c0, hi.c1, hi.p0, ?_, hi.st, hi.sc, (fun h => by cases h)⟩
    intro h1 _
    simp only [Bool.and_eq_true] at h1
    have hd' : d.pnFamily = false := by
      cases hp : d.pnFamily
      · rfl
      · exfalso; apply hd; simp [h1.1, hp]
    exact hi.p1 (by simp [h1]) hd'

theorem inv_final [Geo V N] {dim3 : Bool} {f : Flags} {s : Mesh V N} (hi : Inv dim3 f false false false s) :
    Coherent dim3 { s with flags := f } := by
  unfold Coherent
  simp only [Mesh.derived, derive, Derived.mk.injEq]
  refine ⟨?_, ?_, ?_⟩
  · cases h : (dim3 && f.pnFamily)
    · simp [hi.p0 h]
    · simp [hi.p1 h rfl]
  · cases h : f.topoFamily
    · simp [hi.t0 h]
    · simp [hi.t1 h rfl]
  · cases h : f.ccf
    · simp [hi.c0 h]
    · simp [hi.c1 h rfl]

/-- the two meshes agree on everything but the QBVH and the flags -/
def SameData (s t : Mesh V N) : Prop :=
  t.vertices = s.vertices ∧ t.indices = s.indices ∧ t.pn = s.pn ∧ t.topology = s.topology ∧ t.cc = s.cc

theorem inv_of_same [Geo V N] {dim3 : Bool} {f : Flags} {dt dc dp : Bool} {s t : Mesh V N}
    (hi : Inv dim3 f dt dc dp s) (h : SameData s t) : Inv dim3 f dt dc dp t := by
  obtain ⟨h1, h2, h3, h4, h5⟩ := h
  constructor
  · rw [h4]; exact hi.t0
  · rw [h4, h1, h2]; exact hi.t1
  · rw [h5]; exact hi.c0
  · rw [h5, h1, h2]; exact hi.c1
  · rw [h3]; exact hi.p0
  · rw [h3, h1, h2]; exact hi.p1
  · exact hi.st
  · exact hi.sc
  · exact hi.sp

theorem coherent_of_same [Geo V N] {dim3 : Bool} {s t : Mesh V N} (hc : Coherent dim3 s) (h : SameData s t)
    (hf : t.flags = s.flags) : Coherent dim3 t := by
  obtain ⟨h1, h2, h3, h4, h5⟩ := h
  unfold Coherent at hc ⊢
  simp only [Mesh.derived] at hc ⊢
  rw [h1, h2, h3, h4, h5, hf]; exact hc

theorem rebuildQbvh_spec {s t : Mesh V N} (h : rebuildQbvh s = some t) :
    SameData s t ∧ t.flags = s.flags ∧ t.qbvh = allCoords s.vertices s.indices ∧ t.qbvh.isSome = true := by
  unfold rebuildQbvh at h
  split at h
  · cases h
  · rename_i cs hcs
    cases h
    exact ⟨⟨rfl, rfl, rfl, rfl, rfl⟩, rfl, hcs.symm, rfl⟩

theorem qbvhStage_spec {n : Nat} {s t : Mesh V N} (h : qbvhStage n s = some t) :
    SameData s t ∧ t.flags = s.flags ∧
    t.qbvh = (if n != s.indices.length then allCoords s.vertices s.indices else s.qbvh) := by
  unfold qbvhStage at h
  split at h
  · rename_i hn
    obtain ⟨a, b, c, _⟩ := rebuildQbvh_spec h
    exact ⟨a, b, by rw [c, if_pos hn]⟩
  · rename_i hn
    cases h; exact ⟨⟨rfl, rfl, rfl, rfl, rfl⟩, rfl, by rw [if_neg hn]⟩

theorem ensureQbvh_spec {s t : Mesh V N} (h : ensureQbvh s = some t) :
    SameData s t ∧ t.flags = s.flags ∧
    t.qbvh = (if s.qbvh.isNone then allCoords s.vertices s.indices else s.qbvh) ∧ t.qbvh.isSome = true := by
  unfold ensureQbvh at h
  split at h
  · rename_i hn
    obtain ⟨a, b, c, d⟩ := rebuildQbvh_spec h
    exact ⟨a, b, by rw [c, if_pos hn], d⟩
  · rename_i hn
    cases h
    refine ⟨⟨rfl, rfl, rfl, rfl, rfl⟩, rfl, by rw [if_neg hn], ?_⟩
    cases hq : s.qbvh <;> simp_all

/-- `set_flags` (with the fix) re-establishes coherence from any coherent state -/
theorem setFlags_coherent' [Geo V N] {dim3 : Bool} {s s' : Mesh V N} {f : Flags} {r : Option TopoErr}
    (hc : Coherent dim3 s) (h : setFlags dim3 s f = some (s', r)) : Coherent dim3 s' := by
  unfold setFlags at h
  simp only [Option.bind_eq_some_iff] at h
  obtain ⟨⟨s1, d1⟩, h1, ⟨s2, r2, d2⟩, h2, s3, h3, s4, h4, s5, h5, h6⟩ := h
  simp only [Option.some.injEq, Prod.mk.injEq] at h6
  obtain ⟨rfl, rfl⟩ := h6
  have i0 := drop_inv dim3 s f hc
  have i1 := mergeStage_inv i0 h1
  have i2 := topoStage_inv i1 h2
  have i3 := ccStage_inv i2 h3
  have i4 := pnStage_inv i3 h4
  exact inv_final (inv_of_same i4 (qbvhStage_spec h5).1)

/-! ## connected components do not see the orientation of the triangles -/

theorem min3_swap (a b c : Nat) : min3 b a c = min3 a b c := by
  unfold min3; rw [Nat.min_comm b a]

theorem unite3_swap (l : List Nat) (t : Tri) : unite3 l ⟨t.b, t.a, t.c⟩ = unite3 l t := by
  unfold unite3
  simp only
  rw [min3_swap]
  apply List.map_congr_left
  intro x _
  have : (x = l.getD t.b umax ∨ x = l.getD t.a umax ∨ x = l.getD t.c umax) ↔
         (x = l.getD t.a umax ∨ x = l.getD t.b umax ∨ x = l.getD t.c umax) := by
    constructor <;> (intro h; rcases h with h | h | h <;> simp [h])
  simp only [this]

theorem ccLabels_rev (nv : Nat) (idx : List Tri) : ccLabels nv (revIdx idx) = ccLabels nv idx := by
  unfold ccLabels revIdx
  rw [List.foldl_map]
  congr 1
  funext l t
  exact unite3_swap l t

theorem unite3_length (l : List Nat) (t : Tri) : (unite3 l t).length = l.length := by
  unfold unite3; simp

theorem foldl_unite3_length (idx : List Tri) (l : List Nat) : (idx.foldl unite3 l).length = l.length := by
  induction idx generalizing l with
  | nil => rfl
  | cons t ts ih => simp [List.foldl_cons, ih, unite3_length]

theorem unite3_keeps_eq (l : List Nat) (t : Tri) (x y : Nat) (h : l[x]? = l[y]?) :
    (unite3 l t)[x]? = (unite3 l t)[y]? := by
  unfold unite3; simp only [List.getElem?_map, h]

theorem foldl_unite3_keeps_eq (idx : List Tri) (l : List Nat) (x y : Nat) (h : l[x]? = l[y]?) :
    (idx.foldl unite3 l)[x]? = (idx.foldl unite3 l)[y]? := by
  induction idx generalizing l with
  | nil => exact h
  | cons t ts ih => exact ih _ (unite3_keeps_eq l t x y h)

theorem unite3_joins (l : List Nat) (t : Tri) (ha : t.a < l.length) (hb : t.b < l.length) :
    (unite3 l t)[t.a]? = (unite3 l t)[t.b]? := by
  unfold unite3
  simp only [List.getElem?_map, List.getElem?_eq_getElem ha, List.getElem?_eq_getElem hb, Option.map_some,
    List.getD_eq_getElem?_getD, Option.getD_some]
  simp

/-- after the union pass the first two corners of every triangle carry the same label -/
theorem ccLabels_agree (idx : List Tri) (l : List Nat)
    (hb : ∀ t ∈ idx, t.a < l.length ∧ t.b < l.length) :
    ∀ t ∈ idx, (idx.foldl unite3 l)[t.a]? = (idx.foldl unite3 l)[t.b]? := by
  induction idx generalizing l with
  | nil => intro t ht; cases ht
  | cons t0 ts ih =>
    intro t ht
    simp only [List.foldl_cons]
    rcases List.mem_cons.mp ht with rfl | ht'
    · exact foldl_unite3_keeps_eq ts _ _ _ (unite3_joins l t (hb t (List.mem_cons_self)).1 (hb t (List.mem_cons_self)).2)
    · apply ih
      · intro t' ht''; rw [unite3_length]; exact hb t' (List.mem_cons_of_mem _ ht'')
      · exact ht'

theorem colorLoop_rev (labels : List Nat) (idx : List Tri) (vtr ranges colors : List Nat)
    (h : ∀ t ∈ idx, labels[t.a]? = labels[t.b]?) :
    colorLoop labels (revIdx idx) vtr ranges colors = colorLoop labels idx vtr ranges colors := by
  induction idx generalizing vtr ranges colors with
  | nil => rfl
  | cons t ts ih =>
    have ht := h t List.mem_cons_self
    have ih' := fun vtr ranges colors => ih vtr ranges colors (fun t' ht' => h t' (List.mem_cons_of_mem _ ht'))
    simp only [revIdx, List.map_cons] at ih' ⊢
    unfold colorLoop
    simp only [← ht, ih']

theorem inBounds_rev (nv : Nat) (idx : List Tri) : inBounds nv (revIdx idx) = inBounds nv idx := by
  unfold inBounds revIdx
  rw [List.all_map]
  congr 1
  funext t
  simp only [Function.comp]
  cases decide (t.a < nv) <;> cases decide (t.b < nv) <;> rfl

theorem inBounds_mem {nv : Nat} {idx : List Tri} (h : inBounds nv idx = true) :
    ∀ t ∈ idx, t.a < nv ∧ t.b < nv ∧ t.c < nv := by
  intro t ht
  unfold inBounds at h
  have := List.all_eq_true.mp h t ht
  simpa [Bool.and_eq_true, and_assoc] using this

/-- `compute_connected_components` gives the same result on the reversed index buffer
(the comment in `reverse`: "connected components are not changed by this operation") -/
theorem computeCC_rev (nv : Nat) (idx : List Tri) : computeCC nv (revIdx idx) = computeCC nv idx := by
  unfold computeCC
  rw [inBounds_rev]
  cases hb : inBounds nv idx
  · rfl
  · simp only [Bool.not_true, Bool.false_eq_true, if_false]
    rw [ccLabels_rev]
    have hag : ∀ t ∈ idx, (ccLabels nv idx)[t.a]? = (ccLabels nv idx)[t.b]? := by
      unfold ccLabels
      apply ccLabels_agree
      intro t ht
      have := inBounds_mem hb t ht
      simp only [List.length_range]
      exact ⟨this.1, this.2.1⟩
    rw [colorLoop_rev _ _ _ _ _ hag]
    simp [revIdx]

/-! ## pseudo-normals of the reversed mesh -/

/-- the laws of exact geometry used by `reverse`: `+` on pseudo-normals is commutative/associative enough,
negation is additive, and exchanging the first two vertices of a triangle negates its normal and exchanges the
first two angle weights. -/
class LawfulGeo (V N : Type) [Geo V N] : Prop where
  add_right_comm : ∀ x y z : N, Geo.nadd V (Geo.nadd V x y) z = Geo.nadd V (Geo.nadd V x z) y
  neg_add : ∀ x y : N, Geo.nneg V (Geo.nadd V x y) = Geo.nadd V (Geo.nneg V x) (Geo.nneg V y)
  neg_zero : Geo.nneg V (Geo.nzero V : N) = Geo.nzero V
  contrib_swap : ∀ a b c : V, (Geo.contrib b a c : Option (N × N × N × N)) =
    (Geo.contrib a b c).map fun w => (Geo.nneg V w.1, Geo.nneg V w.2.2.1, Geo.nneg V w.2.1, Geo.nneg V w.2.2.2)

def swapC (c : V × V × V) : V × V × V := (c.2.1, c.1, c.2.2)
def swapT (t : Tri) : Tri := ⟨t.b, t.a, t.c⟩
def negW [Geo V N] (w : N × N × N × N) : N × N × N × N :=
  (Geo.nneg V w.1, Geo.nneg V w.2.2.1, Geo.nneg V w.2.1, Geo.nneg V w.2.2.2)
def swapCs [Geo V N] (tc : Tri × Option (N × N × N × N)) : Tri × Option (N × N × N × N) :=
  (swapT tc.1, tc.2.map (negW (V := V)))

theorem triCoords_swap (vs : List V) (t : Tri) : triCoords vs (swapT t) = (triCoords vs t).map swapC := by
  unfold triCoords swapT
  simp only
  cases vs[t.a]? <;> cases vs[t.b]? <;> cases vs[t.c]? <;> simp [swapC]

theorem allCoords_rev (vs : List V) (idx : List Tri) :
    allCoords vs (revIdx idx) = (allCoords vs idx).map (List.map swapC) := by
  induction idx with
  | nil => rfl
  | cons t ts ih =>
    have : revIdx (t :: ts) = swapT t :: revIdx ts := rfl
    rw [this]
    unfold allCoords
    rw [ih, triCoords_swap]
    cases triCoords vs t <;> cases allCoords vs ts <;> simp

theorem sortedPair_comm (a b : Nat) : sortedPair a b = sortedPair b a := by
  unfold sortedPair
  by_cases h1 : a > b
  · have : ¬ b > a := by omega
    simp [h1, this]
  · by_cases h2 : b > a
    · simp [h1, h2]
    · have : a = b := by omega
      subst this; rfl

theorem vertexStep_swap [Geo V N] [LawfulGeo V N] (v : Nat) (acc : N) (tc : Tri × Option (N × N × N × N)) :
    vertexStep (V := V) v (Geo.nneg V acc) (swapCs (V := V) tc) = Geo.nneg V (vertexStep (V := V) v acc tc) := by
  obtain ⟨t, c⟩ := tc
  cases c with
  | none => rfl
  | some w =>
    obtain ⟨n, w1, w2, w3⟩ := w
    simp only [vertexStep, swapCs, swapT, negW, Option.map_some]
    by_cases ha : t.a = v <;> by_cases hb : t.b = v <;> by_cases hc : t.c = v <;>
      simp only [ha, hb, hc, if_true, if_false, LawfulGeo.neg_add] <;>
      first | rfl | (rw [LawfulGeo.add_right_comm (Geo.nneg V acc)])

theorem foldl_vertexStep_swap [Geo V N] [LawfulGeo V N] (cs : List (Tri × Option (N × N × N × N))) (v : Nat) (acc : N) :
    (cs.map (swapCs (V := V))).foldl (vertexStep (V := V) v) (Geo.nneg V acc) =
      Geo.nneg V (cs.foldl (vertexStep (V := V) v) acc) := by
  induction cs generalizing acc with
  | nil => rfl
  | cons tc ts ih => simp only [List.map_cons, List.foldl_cons, vertexStep_swap, ih]

theorem vertexAcc_swap [Geo V N] [LawfulGeo V N] (cs : List (Tri × Option (N × N × N × N))) (v : Nat) :
    vertexAcc (V := V) (cs.map (swapCs (V := V))) v = Geo.nneg V (vertexAcc (V := V) cs v) := by
  unfold vertexAcc
  rw [← foldl_vertexStep_swap, LawfulGeo.neg_zero]

theorem edgeAdd_neg [Geo V N] [LawfulGeo V N] (key : Nat × Nat) (n : N) (acc : Option N) (e : Nat × Nat) :
    edgeAdd (V := V) key (Geo.nneg V n) (acc.map (Geo.nneg V)) e = (edgeAdd (V := V) key n acc e).map (Geo.nneg V) := by
  unfold edgeAdd
  split
  · cases acc <;> simp [LawfulGeo.neg_add, LawfulGeo.neg_zero]
  · rfl

theorem edgeAdd_comm [Geo V N] (key : Nat × Nat) (n : N) (acc : Option N) (e1 e2 : Nat × Nat) :
    edgeAdd (V := V) key n (edgeAdd (V := V) key n acc e1) e2 = edgeAdd (V := V) key n (edgeAdd (V := V) key n acc e2) e1 := by
  unfold edgeAdd
  by_cases h1 : e1 = key <;> by_cases h2 : e2 = key <;> simp [h1, h2]

theorem edgeStep_swap [Geo V N] [LawfulGeo V N] (key : Nat × Nat) (acc : Option N) (tc : Tri × Option (N × N × N × N)) :
    edgeStep (V := V) key (acc.map (Geo.nneg V)) (swapCs (V := V) tc) = (edgeStep (V := V) key acc tc).map (Geo.nneg V) := by
  obtain ⟨t, c⟩ := tc
  cases c with
  | none => rfl
  | some w =>
    obtain ⟨n, w1, w2, w3⟩ := w
    simp only [edgeStep, swapCs, swapT, negW, Option.map_some]
    rw [sortedPair_comm t.b t.a, edgeAdd_neg, edgeAdd_neg, edgeAdd_neg, edgeAdd_comm]

theorem foldl_edgeStep_swap [Geo V N] [LawfulGeo V N] (cs : List (Tri × Option (N × N × N × N))) (key : Nat × Nat) (acc : Option N) :
    (cs.map (swapCs (V := V))).foldl (edgeStep (V := V) key) (acc.map (Geo.nneg V)) =
      (cs.foldl (edgeStep (V := V) key) acc).map (Geo.nneg V) := by
  induction cs generalizing acc with
  | nil => rfl
  | cons tc ts ih => simp only [List.map_cons, List.foldl_cons, edgeStep_swap, ih]

theorem edgeAcc_swap [Geo V N] [LawfulGeo V N] (cs : List (Tri × Option (N × N × N × N))) (key : Nat × Nat) :
    edgeAcc (V := V) (cs.map (swapCs (V := V))) key = (edgeAcc (V := V) cs key).map (Geo.nneg V) := by
  unfold edgeAcc
  exact foldl_edgeStep_swap cs key none

theorem contribs_rev [Geo V N] [LawfulGeo V N] (idx : List Tri) (coords : List (V × V × V)) :
    ((revIdx idx).zip (coords.map swapC)).map (fun tc => (tc.1, (Geo.contrib tc.2.1 tc.2.2.1 tc.2.2.2 : Option (N × N × N × N)))) =
    ((idx.zip coords).map (fun tc => (tc.1, (Geo.contrib tc.2.1 tc.2.2.1 tc.2.2.2 : Option (N × N × N × N))))).map (swapCs (V := V)) := by
  unfold revIdx
  rw [List.zip_map, List.map_map, List.map_map]
  apply List.map_congr_left
  intro tc _
  obtain ⟨t, pa, pb, pc⟩ := tc
  simp only [Function.comp, Prod.map, swapC, swapCs, swapT, LawfulGeo.contrib_swap pa pb pc]
  rfl

/-- the pseudo-normals of the reversed mesh are the negated pseudo-normals, with the edge slots 1 and 2
exchanged (what `reverse` does once `fixes/C11-reverse.diff` is applied) -/
theorem computePN_rev [Geo V N] [LawfulGeo V N] (vs : List V) (idx : List Tri) :
    (computePN vs (revIdx idx) : Option (PN N)) = (computePN vs idx).map (negPN (V := V) · true) := by
  unfold computePN
  rw [allCoords_rev]
  cases allCoords vs idx with
  | none => rfl
  | some coords =>
    simp only [Option.map_some, negPN, if_true]
    rw [contribs_rev]
    generalize ((idx.zip coords).map (fun tc => (tc.1, (Geo.contrib tc.2.1 tc.2.2.1 tc.2.2.2 : Option (N × N × N × N))))) = cs
    have hget : ∀ (e : Nat × Nat),
        (edgeAcc (V := V) (cs.map (swapCs (V := V))) e).getD (Geo.nzero V) =
          Geo.nneg V ((edgeAcc (V := V) cs e).getD (Geo.nzero V)) := by
      intro e
      rw [edgeAcc_swap]
      cases edgeAcc (V := V) cs e <;> simp [LawfulGeo.neg_zero]
    congr 2
    · rw [List.map_map]
      apply List.map_congr_left
      intro v _
      simp only [Function.comp, vertexAcc_swap]
    · unfold revIdx
      rw [List.map_map, List.map_map]
      apply List.map_congr_left
      intro t _
      simp only [Function.comp, hget, sortedPair_comm t.b t.a, sortedPair_comm t.a t.c, sortedPair_comm t.c t.b]

/-- `reverse` (with the fix) preserves coherence -/
theorem reverse_coherent' [Geo V N] {dim3 : Bool} (hl : dim3 = true → LawfulGeo V N) {s s' : Mesh V N}
    (hc : Coherent dim3 s) (h : reverse dim3 s = some s') : Coherent dim3 s' := by
  unfold Coherent at hc ⊢
  simp only [Mesh.derived, derive, Derived.mk.injEq] at hc ⊢
  obtain ⟨hp, ht, hcc⟩ := hc
  unfold reverse retopo at h
  cases dim3 with
  | false =>
    simp only [Bool.false_eq_true, if_false, Bool.false_and] at h hp ⊢
    split at h
    · rename_i htf
      split at h
      · cases h
      · rename_i s3 r hts
        cases h
        obtain ⟨ev, ei, e2, e3, ef, et, _⟩ := topoStep_spec hts
        simp only [if_false, Bool.false_eq_true] at ev ei e2 e3 ef et
        refine ⟨by rw [e3]; exact hp, ?_, ?_⟩
        · rw [et, ef]; simp [htf]
        · rw [e2, ev, ei, ef, hcc, computeCC_rev]
    · rename_i htf
      cases h
      simp only at htf ⊢
      refine ⟨hp, ?_, ?_⟩
      · rw [ht]; simp [htf]
      · rw [hcc, computeCC_rev]
  | true =>
    haveI := hl rfl
    simp only [if_true, Bool.true_and] at h hp ⊢
    split at h
    · rename_i htf
      split at h
      · cases h
      · rename_i s3 r hts
        cases h
        obtain ⟨ev, ei, e2, e3, ef, et, _⟩ := topoStep_spec hts
        simp only [if_false, Bool.false_eq_true] at ev ei e2 e3 ef et
        refine ⟨?_, ?_, ?_⟩
        · rw [e3, ev, ei, ef, hp]
          cases s.flags.pnFamily <;> simp [computePN_rev]
        · rw [et, ef]; simp [htf]
        · rw [e2, ev, ei, ef, hcc, computeCC_rev]
    · rename_i htf
      cases h
      simp only at htf ⊢
      refine ⟨?_, ?_, ?_⟩
      · rw [hp]; cases s.flags.pnFamily <;> simp [computePN_rev]
      · rw [ht]; simp [htf]
      · rw [hcc, computeCC_rev]

theorem buildCore_eq_some [Geo V N] {dim3 : Bool} {vs : List V} {idx : List Tri} {f : Flags} {s : Mesh V N}
    (h : buildCore dim3 vs idx f = some s) :
    ∃ s1 r, setFlags dim3 (blank vs idx) f = some (s1, r) ∧ ensureQbvh s1 = some s := by
  unfold buildCore at h
  cases hs : setFlags dim3 (blank (N := N) vs idx) f with
  | none => rw [hs] at h; cases h
  | some sr =>
    obtain ⟨s1, r⟩ := sr
    rw [hs] at h
    exact ⟨s1, r, rfl, h⟩

theorem withFlags_eq_ok [Geo V N] {dim3 : Bool} {vs : List V} {idx : List Tri} {f : Flags} {s : Mesh V N}
    (h : withFlags dim3 vs idx f = .ok s) : idx.isEmpty = false ∧ buildCore dim3 vs idx f = some s := by
  unfold withFlags at h
  cases he : idx.isEmpty
  · simp only [he, Bool.false_eq_true, if_false] at h
    cases hb : (buildCore dim3 vs idx f : Option (Mesh V N)) with
    | none => rw [hb] at h; cases h
    | some s1 => rw [hb] at h; cases h; exact ⟨rfl, rfl⟩
  · simp [he] at h

theorem append_eq_some [Geo V N] {dim3 : Bool} {s rhs s' : Mesh V N} (h : append dim3 s rhs = some s') :
    withFlags dim3 (appendBuffers s rhs).1 (appendBuffers s rhs).2 s.flags = .ok s' := by
  unfold append at h
  simp only at h
  cases hw : (withFlags dim3 (appendBuffers s rhs).1 (appendBuffers s rhs).2 s.flags : Built V N) with
  | panic => rw [hw] at h; cases h
  | emptyIndices => rw [hw] at h; cases h
  | ok s1 => rw [hw] at h; cases h; rfl

/-! ## the fixes do not change `with_flags` -/

theorem diff_empty (f : Flags) : f.diff Flags.empty = f := by
  cases f; simp [Flags.diff, Flags.empty]

theorem dropStage_blank (dim3 : Bool) (vs : List V) (idx : List Tri) (f : Flags) :
    dropStage dim3 (blank (N := N) vs idx) f = blank vs idx := by
  unfold dropStage blank; (repeat' split) <;> rfl

theorem dropStageW_blank (dim3 : Bool) (vs : List V) (idx : List Tri) (f : Flags) :
    dropStageW dim3 (blank (N := N) vs idx) f = blank vs idx := by
  unfold dropStageW blank; (repeat' split) <;> rfl

theorem mergeStepW_of_no_cache [Geo V N] (dim3 : Bool) (s : Mesh V N) (dd ddup : Bool) (hp : s.pn = none) (ht : s.topology = none) :
    mergeStepW dim3 s dd ddup = mergeStep s dd ddup := by
  unfold mergeStepW mergeStep
  cases mergeBuffers (N := N) dd ddup s.vertices s.indices with
  | none => rfl
  | some b => simp [hp, ht]

theorem mergeStageW_of_no_cache [Geo V N] (dim3 : Bool) (s : Mesh V N) (f : Flags) (hp : s.pn = none) (ht : s.topology = none) :
    mergeStageW dim3 s f f = (mergeStage s f f).map Prod.fst := by
  unfold mergeStageW mergeStage
  rw [mergeStepW_of_no_cache dim3 s _ _ hp ht]
  split
  · cases mergeStep s f.delDegen f.delDup <;> rfl
  · rfl

theorem mergeStage_full [Geo V N] {s s1 : Mesh V N} {f d : Flags} (h : mergeStage s f f = some (s1, d)) :
    d = f ∧ s1.topology = s.topology ∧ s1.pn = s.pn ∧ s1.cc = s.cc := by
  unfold mergeStage at h
  split at h
  · simp only [Option.map_eq_some_iff, Prod.mk.injEq] at h
    obtain ⟨s', hm, rfl, rfl⟩ := h
    obtain ⟨e1, e2, e3, _⟩ := mergeStep_spec hm
    exact ⟨rfl, e1, e3, e2⟩
  · cases h; exact ⟨rfl, rfl, rfl, rfl⟩

theorem topoStageW_of_no_topology (s : Mesh V N) (f : Flags) (ht : s.topology = none) :
    topoStageW s f f = (topoStage s f f).map fun x => (x.1, x.2.1) := by
  unfold topoStageW topoStage topoStep
  have : ({ s with topology := none } : Mesh V N) = s := by cases s; simp_all
  rw [this]
  split
  · cases topoStepW s f.delBad <;> rfl
  · rfl

theorem topoStage_full {s s2 : Mesh V N} {f d2 : Flags} {r : Option TopoErr} (h : topoStage s f f = some (s2, r, d2)) : d2 = f := by
  unfold topoStage at h
  split at h
  · simp only [Option.map_eq_some_iff, Prod.mk.injEq] at h
    obtain ⟨_, _, _, _, rfl⟩ := h
    split <;> rfl
  · cases h; rfl

/-- on a blank mesh (that is: inside `with_flags`) `set_flags` as written and `set_flags` with the fixes coincide -/
theorem setFlagsW_blank [Geo V N] (dim3 : Bool) (vs : List V) (idx : List Tri) (f : Flags) :
    setFlagsW dim3 (blank (N := N) vs idx) f = setFlags dim3 (blank vs idx) f := by
  unfold setFlagsW setFlags
  rw [dropStage_blank, dropStageW_blank]
  have e4 : (blank (N := N) vs idx).flags = Flags.empty := rfl
  simp only [e4, diff_empty]
  rw [mergeStageW_of_no_cache dim3 _ f rfl rfl]
  cases hm : mergeStage (blank (N := N) vs idx) f f with
  | none => rfl
  | some sd =>
    obtain ⟨s1, d⟩ := sd
    obtain ⟨rfl, ht, _, _⟩ := mergeStage_full hm
    simp only [Option.map_some, Option.bind_some]
    rw [topoStageW_of_no_topology s1 d ht]
    cases ht2 : topoStage s1 d d with
    | none => rfl
    | some x =>
      obtain ⟨s2, r, d2⟩ := x
      have := topoStage_full ht2
      subst this
      rfl

theorem withFlagsW_eq [Geo V N] (dim3 : Bool) (vs : List V) (idx : List Tri) (f : Flags) :
    (withFlagsW dim3 vs idx f : Built V N) = withFlags dim3 vs idx f := by
  unfold withFlagsW withFlags buildCoreW buildCore
  rw [setFlagsW_blank]

/-! ## rebuilding a mesh from its own buffers -/

theorem setFlags_flags [Geo V N] {dim3 : Bool} {s s' : Mesh V N} {f : Flags} {r : Option TopoErr}
    (h : setFlags dim3 s f = some (s', r)) : s'.flags = f := by
  unfold setFlags at h
  simp only [Option.bind_eq_some_iff] at h
  obtain ⟨_, _, _, _, _, _, _, _, s5, _, h6⟩ := h
  simp only [Option.some.injEq, Prod.mk.injEq] at h6
  obtain ⟨rfl, _⟩ := h6
  rfl

theorem withFlags_flags [Geo V N] {dim3 : Bool} {vs : List V} {idx : List Tri} {f : Flags} {s : Mesh V N}
    (h : withFlags dim3 vs idx f = .ok s) : s.flags = f := by
  obtain ⟨s1, r, hs, he⟩ := buildCore_eq_some (withFlags_eq_ok h).2
  rw [(ensureQbvh_spec he).2.1]
  exact setFlags_flags hs

/-- none of the stages before the last touches the QBVH -/
theorem stages_qbvh [Geo V N] {dim3 : Bool} {s0 t1 t2 t3 t4 : Mesh V N} {f d0 d1 d2 : Flags} {r2 : Option TopoErr}
    (h1 : mergeStage s0 f d0 = some (t1, d1)) (h2 : topoStage t1 f d1 = some (t2, r2, d2))
    (h3 : ccStage t2 d2 = some t3) (h4 : pnStage dim3 t3 d2 = some t4) : t4.qbvh = s0.qbvh := by
  have a1 : t1.qbvh = s0.qbvh := by
    unfold mergeStage at h1
    split at h1
    · simp only [Option.map_eq_some_iff, Prod.mk.injEq] at h1
      obtain ⟨s', hm, rfl, _⟩ := h1
      exact (mergeStep_spec hm).2.2.2.2
    · cases h1; rfl
  have a2 : t2.qbvh = t1.qbvh := by
    unfold topoStage at h2
    split at h2
    · simp only [Option.map_eq_some_iff, Prod.mk.injEq] at h2
      obtain ⟨⟨s', r'⟩, hm, rfl, _, _⟩ := h2
      exact (topoStep_spec hm).2.2.2.2.2.2
    · cases h2; rfl
  have a3 : t3.qbvh = t2.qbvh := by
    unfold ccStage at h3
    split at h3
    · exact (ccStep_spec h3).2.2.2.2.2.2
    · cases h3; rfl
  have a4 : t4.qbvh = t3.qbvh := by
    unfold pnStage at h4
    split at h4
    · exact (pnStep_spec h4).2.2.2.2.2.2
    · cases h4; rfl
  rw [a4, a3, a2, a1]

@[simp] theorem dropStage_qbvh (dim3 : Bool) (s : Mesh V N) (f : Flags) : (dropStage dim3 s f).qbvh = s.qbvh := by
  unfold dropStage; split <;> split <;> split <;> rfl

/-- `set_flags` rebuilds the QBVH exactly when the number of triangles changed -/
theorem setFlags_qbvh [Geo V N] {dim3 : Bool} {s s' : Mesh V N} {f : Flags} {r : Option TopoErr}
    (h : setFlags dim3 s f = some (s', r)) :
    s'.qbvh = (if s.indices.length != s'.indices.length then allCoords s'.vertices s'.indices else s.qbvh) := by
  unfold setFlags at h
  simp only [Option.bind_eq_some_iff] at h
  obtain ⟨⟨t1, d1⟩, h1, ⟨t2, r2, d2⟩, h2, t3, h3, t4, h4, t5, h5, h6⟩ := h
  simp only [Option.some.injEq, Prod.mk.injEq] at h6
  obtain ⟨rfl, _⟩ := h6
  obtain ⟨⟨qv, qi, _⟩, _, qq⟩ := qbvhStage_spec h5
  have q4 := stages_qbvh h1 h2 h3 h4
  simp only [dropStage_qbvh] at q4
  simp only
  rw [qq, q4, qv, qi]

/-- the QBVH of a freshly built mesh was built from the final buffers -/
theorem buildCore_qbvh [Geo V N] {dim3 : Bool} {vs : List V} {idx : List Tri} {f : Flags} {s : Mesh V N}
    (h : buildCore dim3 vs idx f = some s) : s.qbvh = allCoords s.vertices s.indices ∧ s.qbvh.isSome = true := by
  obtain ⟨s1, r, hs, he⟩ := buildCore_eq_some h
  obtain ⟨⟨ev, ei, _⟩, _, eq, hsome⟩ := ensureQbvh_spec he
  refine ⟨?_, hsome⟩
  rw [eq, ev, ei, setFlags_qbvh hs]
  have : (blank (N := N) vs idx).qbvh = none := rfl
  rw [this]
  split <;> simp

theorem withFlags_qbvh [Geo V N] {dim3 : Bool} {vs : List V} {idx : List Tri} {f : Flags} {s : Mesh V N}
    (h : withFlags dim3 vs idx f = .ok s) : s.qbvh = allCoords s.vertices s.indices ∧ s.qbvh.isSome = true :=
  buildCore_qbvh (withFlags_eq_ok h).2

theorem mesh_ext {s t : Mesh V N} (h1 : s.vertices = t.vertices) (h2 : s.indices = t.indices)
    (h3 : s.derived = t.derived) (h4 : s.flags = t.flags) (h5 : s.qbvh = t.qbvh) : s = t := by
  cases s; cases t
  simp only [Mesh.derived, Derived.mk.injEq] at h3
  simp_all

/-- two coherent meshes with the same buffers, flags and QBVH are equal -/
theorem coherent_unique [Geo V N] {dim3 : Bool} {s t : Mesh V N} (hs : Coherent dim3 s) (ht : Coherent dim3 t)
    (h1 : s.vertices = t.vertices) (h2 : s.indices = t.indices) (h4 : s.flags = t.flags) (h5 : s.qbvh = t.qbvh) : s = t := by
  apply mesh_ext h1 h2 _ h4 h5
  unfold Coherent at hs ht
  rw [hs, ht, h1, h2, h4]

/-! ### `delete_bad_topology_triangles` is idempotent -/

theorem deleteBadLoop_cons (t : Tri) (ts : List Tri) (S : List (Nat × Nat)) :
    deleteBadLoop (t :: ts) S =
      if isDegenerate t then deleteBadLoop ts S
      else if S.contains (t.a, t.b) || S.contains (t.b, t.c) || S.contains (t.c, t.a) then deleteBadLoop ts S
      else t :: deleteBadLoop ts ((t.c, t.a) :: (t.b, t.c) :: (t.a, t.b) :: S) := by
  rw [deleteBadLoop]

theorem deleteBadLoop_idem (idx : List Tri) (S S' : List (Nat × Nat))
    (hs : ∀ e, S'.contains e = true → S.contains e = true) :
    deleteBadLoop (deleteBadLoop idx S) S' = deleteBadLoop idx S := by
  induction idx generalizing S S' with
  | nil => rfl
  | cons t ts ih =>
    rw [deleteBadLoop_cons t ts S]
    by_cases hdeg : isDegenerate t = true
    · simp only [hdeg, if_true]; exact ih S S' hs
    · have hdeg' : isDegenerate t = false := by simpa using hdeg
      by_cases hhit : (S.contains (t.a, t.b) || S.contains (t.b, t.c) || S.contains (t.c, t.a)) = true
      · simp only [hdeg', hhit, if_true, Bool.false_eq_true, if_false]; exact ih S S' hs
      · have hhit0 : (S.contains (t.a, t.b) || S.contains (t.b, t.c) || S.contains (t.c, t.a)) = false := by simpa using hhit
        simp only [hdeg', hhit0, Bool.false_eq_true, if_false]
        rw [deleteBadLoop_cons]
        have g : ∀ e, S.contains e = false → S'.contains e = false := by
          intro e he
          cases h : S'.contains e
          · rfl
          · rw [hs e h] at he; cases he
        have hhit' : (S'.contains (t.a, t.b) || S'.contains (t.b, t.c) || S'.contains (t.c, t.a)) = false := by
          have h1 : S.contains (t.a, t.b) = false := by
            cases h : S.contains (t.a, t.b) <;> simp_all
          have h2 : S.contains (t.b, t.c) = false := by
            cases h : S.contains (t.b, t.c) <;> simp_all
          have h3 : S.contains (t.c, t.a) = false := by
            cases h : S.contains (t.c, t.a) <;> simp_all
          rw [g _ h1, g _ h2, g _ h3]; rfl
        simp only [hdeg', hhit', Bool.false_eq_true, if_false]
        congr 1
        apply ih
        intro e he
        simp only [List.contains_cons, Bool.or_eq_true] at he ⊢
        rcases he with he | he | he | he
        · exact Or.inl he
        · exact Or.inr (Or.inl he)
        · exact Or.inr (Or.inr (Or.inl he))
        · exact Or.inr (Or.inr (Or.inr (hs e he)))

theorem deleteBad_idem (idx : List Tri) : deleteBad (deleteBad idx) = deleteBad idx :=
  deleteBadLoop_idem idx [] [] (fun _ h => h)

theorem topoStepW_blank_idem {vs : List V} {idx : List Tri} {del : Bool} {s2 : Mesh V N} {r : Option TopoErr}
    (h : topoStepW (blank vs idx) del = some (s2, r)) :
    s2.vertices = vs ∧ topoStepW (blank (N := N) vs s2.indices) del = some (s2, r) := by
  unfold topoStepW at h ⊢
  cases del
  · simp only [Bool.false_eq_true, if_false] at h ⊢
    split at h
    · cases h
    · rename_i e he
      cases h
      simp only [blank] at he ⊢
      simp [he]
    · rename_i t he
      cases h
      simp only [blank] at he ⊢
      simp [he]
  · simp only [if_true] at h ⊢
    split at h
    · cases h
    · rename_i e he
      cases h
      simp only [blank, deleteBad_idem] at he ⊢
      simp [he]
    · rename_i t he
      cases h
      simp only [blank, deleteBad_idem] at he ⊢
      simp [he]

theorem topoStage_blank_idem {vs : List V} {idx : List Tri} {f d2 : Flags} {s2 : Mesh V N} {r : Option TopoErr}
    (h : topoStage (blank vs idx) f f = some (s2, r, d2)) :
    s2.vertices = vs ∧ topoStage (blank (N := N) vs s2.indices) f f = some (s2, r, f) := by
  unfold topoStage at h ⊢
  split at h
  · rename_i htf
    simp only [Option.map_eq_some_iff, Prod.mk.injEq] at h
    obtain ⟨⟨s', r'⟩, hm, rfl, rfl, _⟩ := h
    unfold topoStep at hm ⊢
    have e : ({ (blank (N := N) vs idx) with topology := none } : Mesh V N) = blank vs idx := rfl
    rw [e] at hm
    obtain ⟨hv, hi⟩ := topoStepW_blank_idem hm
    have e' : ({ (blank (N := N) vs s'.indices) with topology := none } : Mesh V N) = blank vs s'.indices := rfl
    simp only [htf, if_true, e', hi, Option.map_some, hv]
    simp [blank]
  · rename_i htf
    cases h
    simp [blank, htf]

/-- if no merging flag is set, rebuilding a fresh mesh from its own buffers reproduces it exactly -/
theorem buildCore_noMerge_idem [Geo V N] {dim3 : Bool} {vs : List V} {idx : List Tri} {f : Flags} {s : Mesh V N}
    (hm : f.mergeFamily = false) (h : buildCore dim3 vs idx f = some s) :
    buildCore dim3 s.vertices s.indices f = some s := by
  obtain ⟨hq, hqs⟩ := buildCore_qbvh h
  obtain ⟨s1, r, hs, he⟩ := buildCore_eq_some h
  obtain ⟨⟨ev, ei, ep, et, ec⟩, ef, _, _⟩ := ensureQbvh_spec he
  have hf1 := setFlags_flags hs
  unfold setFlags at hs
  rw [dropStage_blank] at hs
  have e4 : ∀ (a : List V) (b : List Tri), (blank (N := N) a b).flags = Flags.empty := fun _ _ => rfl
  simp only [e4, diff_empty] at hs
  have hms : ∀ b : Mesh V N, mergeStage b f f = some (b, f) := by
    intro b; unfold mergeStage; simp [hm]
  rw [hms] at hs
  simp only [Option.bind_some] at hs
  simp only [Option.bind_eq_some_iff] at hs
  obtain ⟨⟨s2, r2, d2⟩, h2, s3, h3, s4, h4, s5, h5, h6⟩ := hs
  simp only [Option.some.injEq, Prod.mk.injEq] at h6
  obtain ⟨rfl, rfl⟩ := h6
  have hd2 := topoStage_full h2
  subst hd2
  obtain ⟨hv, h2'⟩ := topoStage_blank_idem h2
  have q4 : s4.qbvh = none := stages_qbvh (hms _) h2 h3 h4
  have b3 : s3.vertices = s2.vertices ∧ s3.indices = s2.indices := by
    unfold ccStage at h3
    split at h3
    · obtain ⟨a, b, _⟩ := ccStep_spec h3; exact ⟨a, b⟩
    · cases h3; exact ⟨rfl, rfl⟩
  have b4 : s4.vertices = s3.vertices ∧ s4.indices = s3.indices := by
    unfold pnStage at h4
    split at h4
    · obtain ⟨a, b, _⟩ := pnStep_spec h4; exact ⟨a, b⟩
    · cases h4; exact ⟨rfl, rfl⟩
  obtain ⟨⟨v5, i5, p5, t5, c5⟩, f5, _⟩ := qbvhStage_spec h5
  simp only at ev ei ep et ec ef
  have evs : s.vertices = vs := by rw [ev, v5, b4.1, b3.1, hv]
  have eis : s.indices = s2.indices := by rw [ei, i5, b4.2, b3.2]
  -- the second build
  unfold buildCore setFlags
  rw [dropStage_blank]
  simp only [e4, diff_empty]
  rw [hms]
  simp only [Option.bind_some]
  rw [evs, eis, h2']
  simp only [Option.bind_some, h3, h4]
  have hb : (blank (N := N) vs s2.indices).indices = s2.indices := rfl
  have hq' : qbvhStage s2.indices.length s4 = some s4 := by
    unfold qbvhStage
    have : s4.indices.length = s2.indices.length := by rw [b4.2, b3.2]
    simp [this]
  rw [hb, hq']
  simp only [Option.bind_some]
  -- `ensureQbvh` rebuilds; the result is `s`
  unfold ensureQbvh
  simp only [q4, Option.isNone_none, if_true]
  unfold rebuildQbvh
  simp only
  have hc : allCoords s4.vertices s4.indices = s.qbvh := by
    rw [hq, ev, ei, v5, i5]
  cases hq0 : s.qbvh with
  | none => rw [hq0] at hqs; cases hqs
  | some cs =>
    rw [hq0] at hc
    simp only [hc]
    congr 1
    apply mesh_ext
    · simp only; rw [ev, v5]
    · simp only; rw [ei, i5]
    · simp only [Mesh.derived]; rw [ep, et, ec, p5, t5, c5]
    · simp only; rw [ef]
    · simp only; exact hq0.symm

/-! ## after `delete_bad_topology_triangles` the topology computation cannot fail -/

theorem alookup_cons {α β} [BEq α] (k k' : α) (v : β) (r : List (α × β)) :
    alookup k ((k', v) :: r) = if k == k' then some v else alookup k r := by
  rw [alookup]

theorem addHalfEdge_of_fresh (st : TopoState) (fid base k v vnext : Nat) (h : alookup (v, vnext) st.map = none) :
    addHalfEdge st fid base k v vnext =
      if v < st.tv.length then
        .ok { st with hes := st.hes ++ [{ next := base + (k + 1) % 3, twin := umax, vertex := v, face := fid }],
                      map := ((v, vnext), base + k) :: st.map, tv := st.tv.set v (base + k) }
      else .panic := by
  unfold addHalfEdge
  simp only [h]

theorem pair_ne_of_ne_left {a b c d : Nat} (h : a ≠ c) : ((a, b) == (c, d)) = false := by
  simp [h]
theorem pair_ne_of_ne_right {a b c d : Nat} (h : b ≠ d) : ((a, b) == (c, d)) = false := by
  simp [h]

theorem topoFaces_cons (t : Tri) (ts : List Tri) (fid : Nat) (st : TopoState) :
    topoFaces (t :: ts) fid st =
      if isDegenerate t then .err (.badTriangle fid) else
      match addHalfEdge st fid st.hes.length 0 t.a t.b with
      | .panic => .panic
      | .err e => .err e
      | .ok st1 =>
      match addHalfEdge st1 fid st.hes.length 1 t.b t.c with
      | .panic => .panic
      | .err e => .err e
      | .ok st2 =>
      match addHalfEdge st2 fid st.hes.length 2 t.c t.a with
      | .panic => .panic
      | .err e => .err e
      | .ok st3 => topoFaces ts (fid + 1) { st3 with faces := st3.faces ++ [st.hes.length] } := by
  rw [topoFaces]
  rfl

theorem topoFaces_deleteBad_no_err (idx : List Tri) (S : List (Nat × Nat)) (fid : Nat) (st : TopoState)
    (hk : ∀ e, S.contains e = false → alookup e st.map = none) :
    ∀ e, topoFaces (deleteBadLoop idx S) fid st ≠ .err e := by
  induction idx generalizing S fid st with
  | nil => intro e h; simp [deleteBadLoop, topoFaces] at h
  | cons t ts ih =>
    rw [deleteBadLoop_cons]
    by_cases hdeg : isDegenerate t = true
    · simp only [hdeg, if_true]; exact ih S fid st hk
    · have hdeg' : isDegenerate t = false := by simpa using hdeg
      by_cases hhit : (S.contains (t.a, t.b) || S.contains (t.b, t.c) || S.contains (t.c, t.a)) = true
      · simp only [hdeg', hhit, if_true, Bool.false_eq_true, if_false]; exact ih S fid st hk
      · have hhit0 : (S.contains (t.a, t.b) || S.contains (t.b, t.c) || S.contains (t.c, t.a)) = false := by simpa using hhit
        simp only [hdeg', hhit0, Bool.false_eq_true, if_false]
        have h1 : S.contains (t.a, t.b) = false := by cases h : S.contains (t.a, t.b) <;> simp_all
        have h2 : S.contains (t.b, t.c) = false := by cases h : S.contains (t.b, t.c) <;> simp_all
        have h3 : S.contains (t.c, t.a) = false := by cases h : S.contains (t.c, t.a) <;> simp_all
        -- the three corners are pairwise distinct
        have hd := hdeg'
        simp only [isDegenerate, Bool.or_eq_false_iff, beq_eq_false_iff_ne, ne_eq] at hd
        obtain ⟨⟨hab, hac⟩, hbc⟩ := hd
        intro e
        rw [topoFaces_cons]
        simp only [hdeg', Bool.false_eq_true, if_false]
        rw [addHalfEdge_of_fresh _ _ _ _ _ _ (hk _ h1)]
        by_cases hv1 : t.a < st.tv.length
        · simp only [hv1, if_true]
          rw [addHalfEdge_of_fresh _ _ _ _ _ _ (by
            simp only [alookup_cons]
            rw [pair_ne_of_ne_left (Ne.symm hab)]
            simpa using hk _ h2)]
          simp only [List.length_set]
          by_cases hv2 : t.b < st.tv.length
          · simp only [hv2, if_true]
            rw [addHalfEdge_of_fresh _ _ _ _ _ _ (by
              simp only [alookup_cons]
              rw [pair_ne_of_ne_left (Ne.symm hbc), pair_ne_of_ne_left (Ne.symm hac)]
              simpa using hk _ h3)]
            simp only [List.length_set]
            by_cases hv3 : t.c < st.tv.length
            · simp only [hv3, if_true]
              apply ih
              intro e' he'
              simp only [List.contains_cons, Bool.or_eq_false_iff] at he'
              obtain ⟨e1, e2, e3, e4⟩ := he'
              simp only [alookup_cons, e1, e2, e3, Bool.false_eq_true, if_false]
              exact hk _ e4
            · simp [hv3]
          · simp [hv2]
        · simp [hv1]

/-- `DELETE_BAD_TOPOLOGY_TRIANGLES` does what its name says: on the index buffer it leaves, `compute_topology`
never returns a `TopologyError` -/
theorem computeTopology_deleteBad_no_err (nv : Nat) (idx : List Tri) :
    ∀ e, computeTopology nv (deleteBad idx) ≠ .err e := by
  intro e h
  unfold computeTopology at h
  split at h
  · cases h
  · rename_i e' he
    exact topoFaces_deleteBad_no_err idx [] 0 _ (fun _ _ => rfl) e' he
  · split at h <;> cases h

/-! ## the code as written: the `set_flags` calls that do preserve coherence -/

@[simp] theorem dropStageW_vertices (dim3 : Bool) (s : Mesh V N) (f : Flags) : (dropStageW dim3 s f).vertices = s.vertices := by
  unfold dropStageW; split <;> split <;> split <;> rfl
@[simp] theorem dropStageW_indices (dim3 : Bool) (s : Mesh V N) (f : Flags) : (dropStageW dim3 s f).indices = s.indices := by
  unfold dropStageW; split <;> split <;> split <;> rfl
theorem dropStageW_topology (dim3 : Bool) (s : Mesh V N) (f : Flags) :
    (dropStageW dim3 s f).topology = if f.het then s.topology else none := by
  unfold dropStageW; cases f.het <;> (repeat' split) <;> simp_all
theorem dropStageW_cc (dim3 : Bool) (s : Mesh V N) (f : Flags) :
    (dropStageW dim3 s f).cc = if f.ccf then s.cc else none := by
  unfold dropStageW; cases f.ccf <;> (repeat' split) <;> simp_all
theorem dropStageW_pn (dim3 : Bool) (s : Mesh V N) (f : Flags) :
    (dropStageW dim3 s f).pn = if dim3 && !f.pnFamily then none else s.pn := by
  unfold dropStageW; cases dim3 <;> cases f.pnFamily <;> (repeat' split) <;> simp_all

theorem dropW_inv [Geo V N] (dim3 : Bool) (s : Mesh V N) (f : Flags) (hc : Coherent dim3 s)
    (h2 : f.delBad = true → f.het = true ∨ s.flags.delBad = false) :
    Inv dim3 f (f.diff s.flags).topoFamily (f.diff s.flags).ccf (f.diff s.flags).pnFamily (dropStageW dim3 s f) ∧
    ((dropStageW dim3 s f).topology = none ∨
     (dropStageW dim3 s f).topology = topoOf s.vertices.length s.indices) := by
  unfold Coherent at hc
  simp only [Mesh.derived, derive, Derived.mk.injEq] at hc
  obtain ⟨hp, ht, hcc⟩ := hc
  refine ⟨?_, ?_⟩
  constructor
  · intro h
    have : f.het = false := by
      cases hh : f.het
      · rfl
      · simp [Flags.topoFamily, hh] at h
    simp [dropStageW_topology, this]
  · intro h1 hd
    have hs := diff_topo h1 hd
    cases hh : f.het
    · -- only `delBad` asks for the topology: it must be new, contradiction with `hd`
      exfalso
      have hb : f.delBad = true := by simpa [Flags.topoFamily, hh] using h1
      rcases h2 hb with h | h
      · rw [hh] at h; cases h
      · have : (f.diff s.flags).topoFamily = true := by simp [Flags.topoFamily, Flags.diff, hb, h]
        rw [hd] at this; cases this
    · simp [dropStageW_topology, hh, ht, hs]
  · intro h; simp [dropStageW_cc, h]
  · intro h1 hd; simp [dropStageW_cc, h1, hcc, diff_ccf h1 hd]
  · intro h
    rw [dropStageW_pn, hp]
    cases dim3 <;> simp_all
  · intro h1 hd
    simp only [Bool.and_eq_true] at h1
    rw [dropStageW_pn, hp]; simp [h1, diff_pn h1.2 hd]
  · exact (diff_sub f s.flags).1
  · exact (diff_sub f s.flags).2.1
  · exact (diff_sub f s.flags).2.2
  · rw [dropStageW_topology, ht]
    cases f.het <;> cases s.flags.topoFamily <;> simp

theorem topoStageW_inv [Geo V N] {dim3 : Bool} {f d : Flags} {s s1 : Mesh V N} {r : Option TopoErr}
    (hi : Inv dim3 f d.topoFamily d.ccf d.pnFamily s)
    (ht2 : s.topology = none ∨ s.topology = topoOf s.vertices.length s.indices)
    (hb : d.topoFamily = true → f.delBad = true → deleteBad s.indices = s.indices)
    (h : topoStageW s f d = some (s1, r)) :
    Inv dim3 f false d.ccf d.pnFamily s1 := by
  unfold topoStageW at h
  split at h
  · rename_i hd
    obtain ⟨ev, ei, e2, e3, _, et, _⟩ := topoStepW_spec h
    have hidx : s1.indices = s.indices := by
      rw [ei]; split
      · rename_i hdel; exact hb hd hdel
      · rfl
    constructor
    · intro h; have := hi.st hd; simp_all
    · intro _ _
      rw [et, ev, hidx]
      cases hto : topoOf s.vertices.length s.indices with
      | some t => rfl
      | none => simp only; rcases ht2 with h | h
                · exact h
                · rw [h, hto]
    · intro h; rw [e2]; exact hi.c0 h
    · intro h1 h2; rw [e2, ev, hidx]; exact hi.c1 h1 h2
    · intro h; rw [e3]; exact hi.p0 h
    · intro h1 h2; rw [e3, ev, hidx]; exact hi.p1 h1 h2
    · intro h; cases h
    · exact hi.sc
    · exact hi.sp
  · rename_i hd
    cases h
    have hd' : d.topoFamily = false := by simpa using hd
    exact ⟨hi.t0, fun h1 _ => hi.t1 h1 hd', hi.c0, hi.c1, hi.p0, hi.p1, (fun h => by cases h), hi.sc, hi.sp⟩

/-- **as written**: `set_flags` preserves coherence when it adds no merging flag, does not delete a triangle, and does not
ask for the topology through `DELETE_BAD_TOPOLOGY_TRIANGLES` alone when that flag was already set -/
theorem setFlagsW_coherent_partial' [Geo V N] {dim3 : Bool} {s s' : Mesh V N} {f : Flags} {r : Option TopoErr}
    (hc : Coherent dim3 s)
    (h1 : (f.diff s.flags).mergeFamily = false)
    (h2 : f.delBad = true → f.het = true ∨ s.flags.delBad = false)
    (h3 : (f.diff s.flags).topoFamily = true → f.delBad = true → deleteBad s.indices = s.indices)
    (h : setFlagsW dim3 s f = some (s', r)) : Coherent dim3 s' := by
  unfold setFlagsW at h
  simp only [Option.bind_eq_some_iff] at h
  obtain ⟨s1, hm, ⟨s2, r2⟩, ht, s3, hcs, s4, hps, s5, h5, h6⟩ := h
  simp only [Option.some.injEq, Prod.mk.injEq] at h6
  obtain ⟨rfl, rfl⟩ := h6
  have hs1 : s1 = dropStageW dim3 s f := by
    unfold mergeStageW at hm; simp only [h1, Bool.false_eq_true, if_false, Option.some.injEq] at hm; exact hm.symm
  subst hs1
  obtain ⟨i0, t2⟩ := dropW_inv dim3 s f hc h2
  have i2 := topoStageW_inv i0 (by simpa using t2) (by simpa using h3) ht
  have i3 := ccStage_inv i2 hcs
  have i4 := pnStage_inv i3 hps
  exact inv_final (inv_of_same i4 (qbvhStage_spec h5).1)

/-- **as written**: `reverse` preserves coherence when there are no pseudo-normals, the topology is not kept through
`DELETE_BAD_TOPOLOGY_TRIANGLES` alone, and the topology computation does not newly fail on the reversed buffer -/
theorem reverseW_coherent_partial' [Geo V N] {dim3 : Bool} {s s' : Mesh V N}
    (hc : Coherent dim3 s)
    (hp : dim3 = true → s.flags.pnFamily = false)
    (hb : s.flags.delBad = true → s.flags.het = true)
    (hsym : topoOf s.vertices.length (revIdx s.indices) = none → topoOf s.vertices.length s.indices = none)
    (h : reverseW dim3 s = some s') : Coherent dim3 s' := by
  unfold Coherent at hc ⊢
  simp only [Mesh.derived, derive, Derived.mk.injEq] at hc ⊢
  obtain ⟨hpn, ht, hcc⟩ := hc
  have hpn0 : s.pn = none := by
    rw [hpn]; cases dim3
    · simp
    · simp [hp rfl]
  have hpn1 : (if (dim3 && s.flags.pnFamily) = true then (computePN s.vertices (revIdx s.indices) : Option (PN N)) else none) = none := by
    cases dim3
    · simp
    · simp [hp rfl]
  unfold reverseW at h
  have hs2 : (if dim3 = true then
      ({ ({ s with indices := revIdx s.indices } : Mesh V N) with pn := Option.map (fun x => negPN (V := V) x false) s.pn })
      else { s with indices := revIdx s.indices }) = ({ s with indices := revIdx s.indices } : Mesh V N) := by
    cases dim3 <;> simp [hpn0]
  simp only [hs2] at h
  split at h
  · rename_i hh
    split at h
    · cases h
    · rename_i s3 r hts
      cases h
      obtain ⟨ev, ei, e2, e3, ef, et, _⟩ := topoStepW_spec hts
      simp only [if_false, Bool.false_eq_true] at ev ei e2 e3 ef et hh
      refine ⟨?_, ?_, ?_⟩
      · rw [e3, ev, ei, ef, hpn0, hpn1]
      · rw [et, ev, ei, ef]
        have htf : s.flags.topoFamily = true := by simp [Flags.topoFamily, hh]
        simp only [htf, if_true] at ht ⊢
        cases hto : topoOf s.vertices.length (revIdx s.indices) with
        | some t => rfl
        | none => simp only; rw [ht]; exact hsym hto
      · rw [e2, ev, ei, ef, hcc, computeCC_rev]
  · rename_i hh
    cases h
    simp only at hh ⊢
    have hh' : s.flags.het = false := by simpa using hh
    have htf : s.flags.topoFamily = false := by
      cases hd : s.flags.delBad
      · simp [Flags.topoFamily, hh', hd]
      · have := hb hd; rw [hh'] at this; cases this
    refine ⟨?_, ?_, ?_⟩
    · rw [hpn0, hpn1]
    · rw [ht]; simp [htf]
    · rw [hcc, computeCC_rev]

/-! ## `merge_duplicate_vertices`: what the loop guarantees -/

/-- what the QBVH needs from the geometry: `box` (the triangle's `local_aabb`) only depends on the coordinates up to
the equality used for merging, and not on the order of the first two vertices -/
structure BoxLaws [Geo V N] {B : Type} (box : V × V × V → B) : Prop where
  congr_a : ∀ p q b c, Geo.veq N p q = true → box (p, b, c) = box (q, b, c)
  congr_b : ∀ p q a c, Geo.veq N p q = true → box (a, p, c) = box (a, q, c)
  congr_c : ∀ p q a b, Geo.veq N p q = true → box (a, b, p) = box (a, b, q)
  swap : ∀ a b c, box (b, a, c) = box (a, b, c)

/-- `resolve_coord_id` returns a valid id whose vertex is the point itself or equal to it, and only appends -/
theorem resolve_spec [Geo V N] (nv : List V) (p : V) :
    nv <+: (resolve (N := N) nv p).2 ∧
    ∃ q, (resolve (N := N) nv p).2[(resolve (N := N) nv p).1]? = some q ∧ (q = p ∨ Geo.veq N p q = true) := by
  unfold resolve
  cases h : nv.findIdx? (fun q => Geo.veq N p q) with
  | none =>
    simp only
    refine ⟨List.prefix_append _ _, p, ?_, Or.inl rfl⟩
    simp
  | some i =>
    simp only
    obtain ⟨hi, hp, _⟩ := List.findIdx?_eq_some_iff_getElem.mp h
    exact ⟨List.prefix_refl _, nv[i], by simp [hi], Or.inr hp⟩

theorem prefix_getElem? {α} {l1 l2 : List α} (h : l1 <+: l2) {i : Nat} {x : α} (hx : l1[i]? = some x) : l2[i]? = some x := by
  obtain ⟨t, rfl⟩ := h
  have hi : i < l1.length := by
    cases hlt : decide (i < l1.length)
    · simp only [decide_eq_false_iff_not, Nat.not_lt] at hlt
      rw [List.getElem?_eq_none hlt] at hx; cases hx
    · simpa using hlt
  rw [List.getElem?_append_left hi]; exact hx

theorem allCoords_cons (vs : List V) (t : Tri) (ts : List Tri) :
    allCoords vs (t :: ts) = match triCoords vs t, allCoords vs ts with
      | some c, some cs => some (c :: cs)
      | _, _ => none := by
  rw [allCoords]
  rfl

theorem mergeLoop_cons [Geo V N] (dd ddup : Bool) (c : V × V × V) (cs : List (V × V × V)) (nv : List V) (ni : List Tri)
    (set : List (Nat × Nat × Nat)) :
    mergeLoop (N := N) dd ddup (c :: cs) nv ni set =
      (let r1 := resolve (N := N) nv c.1
       let r2 := resolve (N := N) r1.2 c.2.1
       let r3 := resolve (N := N) r2.2 c.2.2
       let va := r1.1; let vb := r2.1; let vc := r3.1
       let isDeg := va == vb || va == vc || vb == vc
       if !isDeg || !dd then
         if ddup then
           let s := sort3 va vb vc
           let key := (s.2.2, s.2.1, s.1)
           if set.contains key then mergeLoop (N := N) dd ddup cs r3.2 ni set
           else mergeLoop (N := N) dd ddup cs r3.2 (ni ++ [⟨va, vb, vc⟩]) (key :: set)
         else mergeLoop (N := N) dd ddup cs r3.2 (ni ++ [⟨va, vb, vc⟩]) set
       else mergeLoop (N := N) dd ddup cs r3.2 ni set) := by
  obtain ⟨pa, pb, pc⟩ := c
  rw [mergeLoop]

/-- the loop of `merge_duplicate_vertices`: the index buffer only grows by valid triangles, the vertex buffer only
grows, at most one triangle is emitted per input triangle, and when none is dropped the emitted triangles have the
same boxes as the input triangles -/
theorem mergeLoop_spec [Geo V N] {B : Type} (box : V × V × V → B) (hbox : BoxLaws (N := N) box) (dd ddup : Bool)
    (cs : List (V × V × V)) (nv : List V) (ni : List Tri) (set : List (Nat × Nat × Nat)) :
    ∃ added, (mergeLoop (N := N) dd ddup cs nv ni set).2 = ni ++ added ∧
      nv <+: (mergeLoop (N := N) dd ddup cs nv ni set).1 ∧
      added.length ≤ cs.length ∧
      (∀ t ∈ added, (triCoords (mergeLoop (N := N) dd ddup cs nv ni set).1 t).isSome = true) ∧
      (added.length = cs.length →
        ∃ cur, allCoords (mergeLoop (N := N) dd ddup cs nv ni set).1 added = some cur ∧ cur.map box = cs.map box) := by
  induction cs generalizing nv ni set with
  | nil =>
    refine ⟨[], by simp [mergeLoop], by simp [mergeLoop, List.prefix_refl], Nat.le_refl _, by simp, ?_⟩
    intro _; exact ⟨[], rfl, rfl⟩
  | cons c cs ih =>
    obtain ⟨pa, pb, pc⟩ := c
    rw [mergeLoop_cons]
    simp only
    -- the three resolutions
    obtain ⟨p1, qa, ha, ra⟩ := resolve_spec (N := N) nv pa
    obtain ⟨p2, qb, hb, rb⟩ := resolve_spec (N := N) (resolve (N := N) nv pa).2 pb
    obtain ⟨p3, qc, hc, rc⟩ := resolve_spec (N := N) (resolve (N := N) (resolve (N := N) nv pa).2 pb).2 pc
    generalize hr1 : resolve (N := N) nv pa = r1 at *
    generalize hr2 : resolve (N := N) r1.2 pb = r2 at *
    generalize hr3 : resolve (N := N) r2.2 pc = r3 at *
    have p13 : nv <+: r3.2 := p1.trans (p2.trans p3)
    -- the triangle that may be emitted has its three corners in `r3.2`
    have ha3 : r3.2[r1.1]? = some qa := prefix_getElem? (p2.trans p3) ha
    have hb3 : r3.2[r2.1]? = some qb := prefix_getElem? p3 hb
    have hboxt : box (qa, qb, qc) = box (pa, pb, pc) := by
      have e1 : box (qa, qb, qc) = box (pa, qb, qc) := by
        rcases ra with h | h
        · rw [h]
        · exact (hbox.congr_a _ _ _ _ h).symm
      have e2 : box (pa, qb, qc) = box (pa, pb, qc) := by
        rcases rb with h | h
        · rw [h]
        · exact (hbox.congr_b _ _ _ _ h).symm
      have e3 : box (pa, pb, qc) = box (pa, pb, pc) := by
        rcases rc with h | h
        · rw [h]
        · exact (hbox.congr_c _ _ _ _ h).symm
      rw [e1, e2, e3]
    -- the two possible continuations
    have keep : ∀ set', ∃ added, (mergeLoop (N := N) dd ddup cs r3.2 (ni ++ [⟨r1.1, r2.1, r3.1⟩]) set').2 = ni ++ added ∧
        nv <+: (mergeLoop (N := N) dd ddup cs r3.2 (ni ++ [⟨r1.1, r2.1, r3.1⟩]) set').1 ∧
        added.length ≤ (cs.length + 1) ∧
        (∀ t ∈ added, (triCoords (mergeLoop (N := N) dd ddup cs r3.2 (ni ++ [⟨r1.1, r2.1, r3.1⟩]) set').1 t).isSome = true) ∧
        (added.length = cs.length + 1 →
          ∃ cur, allCoords (mergeLoop (N := N) dd ddup cs r3.2 (ni ++ [⟨r1.1, r2.1, r3.1⟩]) set').1 added = some cur ∧
            cur.map box = box (pa, pb, pc) :: cs.map box) := by
      intro set'
      obtain ⟨added', e1, e2, e3, e4, e5⟩ := ih r3.2 (ni ++ [⟨r1.1, r2.1, r3.1⟩]) set'
      have htc : triCoords (mergeLoop (N := N) dd ddup cs r3.2 (ni ++ [⟨r1.1, r2.1, r3.1⟩]) set').1 ⟨r1.1, r2.1, r3.1⟩ = some (qa, qb, qc) := by
        unfold triCoords
        simp only [prefix_getElem? e2 ha3, prefix_getElem? e2 hb3, prefix_getElem? e2 hc]
      refine ⟨⟨r1.1, r2.1, r3.1⟩ :: added', ?_, p13.trans e2, ?_, ?_, ?_⟩
      · rw [e1]; simp
      · simp only [List.length_cons]; omega
      · intro t ht
        rcases List.mem_cons.mp ht with rfl | ht'
        · rw [htc]; rfl
        · exact e4 t ht'
      · intro hl
        simp only [List.length_cons, Nat.add_right_cancel_iff] at hl
        obtain ⟨cur, hcur, hmap⟩ := e5 hl
        refine ⟨(qa, qb, qc) :: cur, ?_, ?_⟩
        · rw [allCoords_cons, htc, hcur]
        · simp only [List.map_cons, hmap, hboxt]
    have drop : ∃ added, (mergeLoop (N := N) dd ddup cs r3.2 ni set).2 = ni ++ added ∧
        nv <+: (mergeLoop (N := N) dd ddup cs r3.2 ni set).1 ∧
        added.length ≤ (cs.length + 1) ∧
        (∀ t ∈ added, (triCoords (mergeLoop (N := N) dd ddup cs r3.2 ni set).1 t).isSome = true) ∧
        (added.length = cs.length + 1 →
          ∃ cur, allCoords (mergeLoop (N := N) dd ddup cs r3.2 ni set).1 added = some cur ∧
            cur.map box = box (pa, pb, pc) :: cs.map box) := by
      obtain ⟨added', e1, e2, e3, e4, _⟩ := ih r3.2 ni set
      refine ⟨added', e1, p13.trans e2, by omega, e4, ?_⟩
      intro hl; omega
    simp only [List.length_cons, List.map_cons]
    split
    · split
      · split
        · exact drop
        · exact keep _
      · exact keep _
    · exact drop

theorem allCoords_of_all {vs : List V} {idx : List Tri} (h : ∀ t ∈ idx, (triCoords vs t).isSome = true) :
    (allCoords vs idx).isSome = true := by
  induction idx with
  | nil => rfl
  | cons t ts ih =>
    rw [allCoords_cons]
    have h1 := h t List.mem_cons_self
    have h2 := ih (fun t' ht' => h t' (List.mem_cons_of_mem _ ht'))
    cases hc : triCoords vs t with
    | none => rw [hc] at h1; cases h1
    | some c =>
      cases ha : allCoords vs ts with
      | none => rw [ha] at h2; cases h2
      | some cs => rfl

theorem allCoords_length {vs : List V} {idx : List Tri} {cs : List (V × V × V)} (h : allCoords vs idx = some cs) :
    cs.length = idx.length := by
  induction idx generalizing cs with
  | nil => simp [allCoords] at h; subst h; rfl
  | cons t ts ih =>
    rw [allCoords_cons] at h
    cases hc : triCoords vs t with
    | none => rw [hc] at h; cases h
    | some c =>
      cases ha : allCoords vs ts with
      | none => rw [hc, ha] at h; cases h
      | some cs' =>
        rw [hc, ha] at h; cases h
        simp [ih ha]

/-- `merge_duplicate_vertices` on the buffers: never more triangles, a well-formed result, and the same boxes
triangle by triangle when no triangle is deleted -/
theorem mergeBuffers_spec [Geo V N] {B : Type} (box : V × V × V → B) (hbox : BoxLaws (N := N) box) {dd ddup : Bool}
    {vs nv : List V} {idx ni : List Tri} (h : mergeBuffers (N := N) dd ddup vs idx = some (nv, ni)) :
    ni.length ≤ idx.length ∧ (allCoords nv ni).isSome = true ∧
    (ni.length = idx.length → ∃ cs cur, allCoords vs idx = some cs ∧ allCoords nv ni = some cur ∧ cur.map box = cs.map box) := by
  unfold mergeBuffers at h
  cases hc : allCoords vs idx with
  | none => rw [hc] at h; cases h
  | some cs =>
    rw [hc] at h
    simp only [Option.some.injEq] at h
    obtain ⟨added, e1, _, e3, e4, e5⟩ := mergeLoop_spec (N := N) box hbox dd ddup cs [] [] []
    rw [h] at e1 e4 e5
    simp only [List.nil_append] at e1
    subst e1
    have hl := allCoords_length hc
    refine ⟨by omega, allCoords_of_all e4, ?_⟩
    intro hlen
    obtain ⟨cur, h1, h2⟩ := e5 (by omega)
    exact ⟨cs, cur, rfl, h1, h2⟩

/-! ## the QBVH stays coherent -/

/-- **QBVH coherence**: the tree was built from triangles having exactly the boxes of the current triangles
(`box` = `Triangle::local_aabb`), so it is the tree a fresh build would construct -/
def QCoherent {B : Type} (box : V × V × V → B) (s : Mesh V N) : Prop :=
  ∃ cs cur, s.qbvh = some cs ∧ allCoords s.vertices s.indices = some cur ∧ cs.map box = cur.map box

/-- the buffers after `set_flags`: possibly merged, then possibly filtered by `delete_bad_topology_triangles` -/
theorem setFlags_buffers [Geo V N] {dim3 : Bool} {s s' : Mesh V N} {f : Flags} {r : Option TopoErr}
    (h : setFlags dim3 s f = some (s', r)) :
    ∃ V1 I1, ((V1 = s.vertices ∧ I1 = s.indices) ∨ ∃ dd ddup, mergeBuffers (N := N) dd ddup s.vertices s.indices = some (V1, I1)) ∧
      s'.vertices = V1 ∧ (s'.indices = I1 ∨ s'.indices = deleteBad I1) := by
  unfold setFlags at h
  simp only [Option.bind_eq_some_iff] at h
  obtain ⟨⟨t1, d1⟩, h1, ⟨t2, r2, d2⟩, h2, t3, h3, t4, h4, t5, h5, h6⟩ := h
  simp only [Option.some.injEq, Prod.mk.injEq] at h6
  obtain ⟨rfl, _⟩ := h6
  refine ⟨t1.vertices, t1.indices, ?_, ?_, ?_⟩
  · unfold mergeStage at h1
    split at h1
    · simp only [Option.map_eq_some_iff, Prod.mk.injEq] at h1
      obtain ⟨s', hm, rfl, _⟩ := h1
      right
      unfold mergeStep at hm
      simp only [dropStage_vertices, dropStage_indices] at hm
      split at hm
      · cases hm
      · rename_i nv ni hmb
        cases hm
        exact ⟨_, _, hmb⟩
    · cases h1; left; simp
  all_goals
    have b2 : t2.vertices = t1.vertices ∧ (t2.indices = t1.indices ∨ t2.indices = deleteBad t1.indices) := by
      unfold topoStage at h2
      split at h2
      · simp only [Option.map_eq_some_iff, Prod.mk.injEq] at h2
        obtain ⟨⟨s', r'⟩, hm, rfl, _, _⟩ := h2
        obtain ⟨a, b, _⟩ := topoStep_spec hm
        refine ⟨a, ?_⟩
        rw [b]; split
        · exact Or.inr rfl
        · exact Or.inl rfl
      · cases h2; exact ⟨rfl, Or.inl rfl⟩
    have b3 : t3.vertices = t2.vertices ∧ t3.indices = t2.indices := by
      unfold ccStage at h3
      split at h3
      · obtain ⟨a, b, _⟩ := ccStep_spec h3; exact ⟨a, b⟩
      · cases h3; exact ⟨rfl, rfl⟩
    have b4 : t4.vertices = t3.vertices ∧ t4.indices = t3.indices := by
      unfold pnStage at h4
      split at h4
      · obtain ⟨a, b, _⟩ := pnStep_spec h4; exact ⟨a, b⟩
      · cases h4; exact ⟨rfl, rfl⟩
    obtain ⟨⟨v5, i5, _⟩, _⟩ := qbvhStage_spec h5
    simp only
  · rw [v5, b4.1, b3.1, b2.1]
  · rw [i5, b4.2, b3.2]; exact b2.2

theorem setFlags_qbvh_some [Geo V N] {dim3 : Bool} {s s' : Mesh V N} {f : Flags} {r : Option TopoErr}
    (h : setFlags dim3 s f = some (s', r)) (hl : s.indices.length ≠ s'.indices.length) : s'.qbvh.isSome = true := by
  unfold setFlags at h
  simp only [Option.bind_eq_some_iff] at h
  obtain ⟨⟨t1, d1⟩, h1, ⟨t2, r2, d2⟩, h2, t3, h3, t4, h4, t5, h5, h6⟩ := h
  simp only [Option.some.injEq, Prod.mk.injEq] at h6
  obtain ⟨rfl, _⟩ := h6
  simp only at hl ⊢
  unfold qbvhStage at h5
  split at h5
  · exact (rebuildQbvh_spec h5).2.2.2
  · rename_i hn
    cases h5
    exfalso; apply hn; simp [hl]

theorem setFlags_qcoherent' [Geo V N] {B : Type} (box : V × V × V → B) (hbox : BoxLaws (N := N) box)
    {dim3 : Bool} {s s' : Mesh V N} {f : Flags} {r : Option TopoErr}
    (hq : QCoherent box s) (h : setFlags dim3 s f = some (s', r)) : QCoherent box s' := by
  have hqb := setFlags_qbvh h
  by_cases hl : s.indices.length = s'.indices.length
  · -- same number of triangles: the tree is kept; nothing was deleted, so the boxes are the same
    simp only [hl, bne_self_eq_false, Bool.false_eq_true, if_false] at hqb
    obtain ⟨cs, cur, hcs, hcur, hmap⟩ := hq
    obtain ⟨V1, I1, hm, hv, hi⟩ := setFlags_buffers h
    -- the merge (if any) kept every triangle
    have hI1 : I1.length ≤ s.indices.length ∧ (I1.length = s.indices.length →
        ∃ cur1, allCoords V1 I1 = some cur1 ∧ cur1.map box = cur.map box) := by
      rcases hm with ⟨rfl, rfl⟩ | ⟨dd, ddup, hmb⟩
      · exact ⟨Nat.le_refl _, fun _ => ⟨cur, hcur, rfl⟩⟩
      · obtain ⟨a, _, c⟩ := mergeBuffers_spec (N := N) box hbox hmb
        refine ⟨a, fun hlen => ?_⟩
        obtain ⟨cs0, cur1, h0, h1, h2⟩ := c hlen
        rw [hcur] at h0; cases h0
        exact ⟨cur1, h1, h2⟩
    have hsub : (deleteBad I1).length ≤ I1.length := (deleteBadLoop_sublist I1 []).length_le
    have hidx : s'.indices = I1 ∧ I1.length = s.indices.length := by
      rcases hi with hi | hi
      · exact ⟨hi, by rw [← hi]; exact hl.symm⟩
      · have : I1.length = s.indices.length := by rw [hi] at hl; omega
        refine ⟨?_, this⟩
        rw [hi]; exact deleteBad_eq_of_length (by rw [hi] at hl; omega)
    obtain ⟨cur1, hc1, hm1⟩ := hI1.2 hidx.2
    exact ⟨cs, cur1, by rw [hqb, hcs], by rw [hv, hidx.1]; exact hc1, by rw [hmap, hm1]⟩
  · -- the tree was rebuilt from the final buffers
    have hne : (s.indices.length != s'.indices.length) = true := by simp [hl]
    simp only [hne, if_true] at hqb
    have hsome := setFlags_qbvh_some h hl
    cases hq' : s'.qbvh with
    | none => rw [hq'] at hsome; cases hsome
    | some cs' => exact ⟨cs', cs', hq', by rw [← hqb, hq'], rfl⟩

theorem retopo_spec {s2 s' : Mesh V N} (h : retopo s2 = some s') :
    s'.vertices = s2.vertices ∧ s'.indices = s2.indices ∧ s'.qbvh = s2.qbvh := by
  unfold retopo at h
  split at h
  · split at h
    · cases h
    · rename_i s3 r hts
      cases h
      obtain ⟨ev, ei, _, _, _, _, eq⟩ := topoStep_spec hts
      simp only [Bool.false_eq_true, if_false] at ei
      exact ⟨ev, ei, eq⟩
  · cases h; exact ⟨rfl, rfl, rfl⟩

theorem reverse_spec_buffers [Geo V N] {dim3 : Bool} {s s' : Mesh V N} (h : reverse dim3 s = some s') :
    s'.vertices = s.vertices ∧ s'.indices = revIdx s.indices ∧ s'.qbvh = s.qbvh := by
  unfold reverse at h
  obtain ⟨a, b, c⟩ := retopo_spec h
  cases dim3 <;> exact ⟨a, b, c⟩

theorem reverse_qcoherent' [Geo V N] {B : Type} (box : V × V × V → B) (hbox : BoxLaws (N := N) box)
    {dim3 : Bool} {s s' : Mesh V N} (hq : QCoherent box s) (h : reverse dim3 s = some s') : QCoherent box s' := by
  obtain ⟨cs, cur, hcs, hcur, hmap⟩ := hq
  obtain ⟨hv, hi, hqq⟩ := reverse_spec_buffers h
  refine ⟨cs, cur.map swapC, by rw [hqq, hcs], by rw [hv, hi, allCoords_rev, hcur]; rfl, ?_⟩
  rw [hmap, List.map_map]
  apply List.map_congr_left
  intro c _
  obtain ⟨a, b, c⟩ := c
  simp only [Function.comp, swapC]
  exact (hbox.swap a b c).symm

theorem withFlags_qcoherent' [Geo V N] {B : Type} (box : V × V × V → B)
    {dim3 : Bool} {vs : List V} {idx : List Tri} {f : Flags} {s : Mesh V N}
    (h : withFlags dim3 vs idx f = .ok s) : QCoherent box s := by
  obtain ⟨h1, h2⟩ := withFlags_qbvh h
  cases hq : s.qbvh with
  | none => rw [hq] at h2; cases h2
  | some cs => exact ⟨cs, cs, hq, by rw [← h1, hq], rfl⟩

/-! ## no panic: `compute_topology` on a well-formed index buffer -/

/-- every value stored in the half-edge map is the index of an existing half-edge -/
def MapOk (st : TopoState) : Prop := ∀ x ∈ st.map, x.2 < st.hes.length

theorem alookup_mem {α β} [BEq α] {k : α} {v : β} {l : List (α × β)} (h : alookup k l = some v) :
    ∃ x ∈ l, x.2 = v := by
  induction l with
  | nil => simp [alookup] at h
  | cons y r ih =>
    obtain ⟨k', v'⟩ := y
    rw [alookup_cons] at h
    split at h
    · cases h; exact ⟨(k', v), List.mem_cons_self, rfl⟩
    · obtain ⟨x, hx, hxv⟩ := ih h
      exact ⟨x, List.mem_cons_of_mem _ hx, hxv⟩

theorem addHalfEdge_no_panic {st : TopoState} {fid base k v vnext nv : Nat}
    (hm : MapOk st) (htv : st.tv.length = nv) (hl : st.hes.length = base + k) (hv : v < nv) :
    (∃ e, addHalfEdge st fid base k v vnext = .err e) ∨
    (∃ st', addHalfEdge st fid base k v vnext = .ok st' ∧ MapOk st' ∧ st'.tv.length = nv ∧ st'.hes.length = base + k + 1 ∧
      st'.faces = st.faces) := by
  unfold addHalfEdge
  cases hlook : alookup (v, vnext) st.map with
  | some existing =>
    left
    obtain ⟨x, hx, hxv⟩ := alookup_mem hlook
    have hlt := hm x hx
    have : existing < (st.hes ++ [({ next := base + (k + 1) % 3, twin := umax, vertex := v, face := fid } : HalfEdge)]).length := by
      simp; omega
    simp only [List.getElem?_eq_getElem this]
    exact ⟨_, rfl⟩
  | none =>
    right
    have hv' : v < st.tv.length := by omega
    simp only [hv', if_true]
    refine ⟨_, rfl, ?_, by simp [htv], by simp [hl], rfl⟩
    intro x hx
    simp only at hx
    rcases List.mem_cons.mp hx with rfl | hx'
    · simp; omega
    · have := hm x hx'; simp; omega

theorem topoFaces_no_panic (idx : List Tri) (fid nv : Nat) (st : TopoState)
    (hb : ∀ t ∈ idx, t.a < nv ∧ t.b < nv ∧ t.c < nv) (hm : MapOk st) (htv : st.tv.length = nv) :
    (∃ e, topoFaces idx fid st = .err e) ∨ (∃ st', topoFaces idx fid st = .ok st' ∧ MapOk st') := by
  induction idx generalizing fid st with
  | nil => right; exact ⟨st, rfl, hm⟩
  | cons t ts ih =>
    rw [topoFaces_cons]
    obtain ⟨ha, hb', hc⟩ := hb t List.mem_cons_self
    split
    · left; exact ⟨_, rfl⟩
    · rcases addHalfEdge_no_panic (fid := fid) (base := st.hes.length) (k := 0) (vnext := t.b) hm htv rfl ha with ⟨e, he⟩ | ⟨st1, h1, m1, t1, l1, f1⟩
      · left; rw [he]; exact ⟨_, rfl⟩
      · rw [h1]; simp only
        rcases addHalfEdge_no_panic (fid := fid) (base := st.hes.length) (k := 1) (vnext := t.c) m1 t1 l1 hb' with ⟨e, he⟩ | ⟨st2, h2, m2, t2, l2, f2⟩
        · left; rw [he]; exact ⟨_, rfl⟩
        · rw [h2]; simp only
          rcases addHalfEdge_no_panic (fid := fid) (base := st.hes.length) (k := 2) (vnext := t.a) m2 t2 l2 hc with ⟨e, he⟩ | ⟨st3, h3, m3, t3, l3, f3⟩
          · left; rw [he]; exact ⟨_, rfl⟩
          · rw [h3]; simp only
            apply ih
            · intro t' ht'; exact hb t' (List.mem_cons_of_mem _ ht')
            · intro x hx; exact m3 x hx
            · exact t3

theorem setTwin_some {hes : List HalfEdge} {i t : Nat} (h : i < hes.length) :
    ∃ hes', setTwin hes i t = some hes' ∧ hes'.length = hes.length := by
  unfold setTwin
  simp only [List.getElem?_eq_getElem h]
  exact ⟨_, rfl, by simp⟩

theorem topoTwins_no_panic (map l : List ((Nat × Nat) × Nat)) (hes : List HalfEdge)
    (hm : ∀ x ∈ map, x.2 < hes.length) (hl : ∀ x ∈ l, x.2 < hes.length) :
    ∃ hes', topoTwins map l hes = some hes' := by
  induction l generalizing hes with
  | nil => exact ⟨hes, rfl⟩
  | cons x r ih =>
    obtain ⟨⟨k0, k1⟩, he1⟩ := x
    have h1 : he1 < hes.length := hl _ List.mem_cons_self
    unfold topoTwins
    split
    · cases hlook : alookup (k1, k0) map with
      | none =>
        simp only
        exact ih hes hm (fun y hy => hl y (List.mem_cons_of_mem _ hy))
      | some he2 =>
        simp only
        obtain ⟨x, hx, hxv⟩ := alookup_mem hlook
        have h2 : he2 < hes.length := by have := hm x hx; omega
        obtain ⟨hes1, e1, l1⟩ := setTwin_some (t := he2) h1
        obtain ⟨hes2, e2, l2⟩ := setTwin_some (hes := hes1) (i := he2) (t := he1) (by omega)
        rw [e1]; simp only; rw [e2]; simp only
        apply ih
        · intro y hy; have := hm y hy; omega
        · intro y hy; have := hl y (List.mem_cons_of_mem _ hy); omega
    · exact ih hes hm (fun y hy => hl y (List.mem_cons_of_mem _ hy))

/-- `compute_topology` never panics on a well-formed index buffer -/
theorem computeTopology_no_panic {nv : Nat} {idx : List Tri} (hb : inBounds nv idx = true) :
    computeTopology nv idx ≠ .panic := by
  unfold computeTopology
  rcases topoFaces_no_panic idx 0 nv { tv := List.replicate nv umax, faces := [], hes := [], map := [] }
      (inBounds_mem hb) (by intro x hx; cases hx) (by simp) with ⟨e, he⟩ | ⟨st, hst, hm⟩
  · rw [he]; simp
  · rw [hst]; simp only
    obtain ⟨hes', h'⟩ := topoTwins_no_panic st.map st.map.reverse st.hes hm
      (fun x hx => hm x (List.mem_reverse.mp hx))
    rw [h']; simp

/-! ## `compute_connected_components`: no panic, and what the colour / range passes compute -/

theorem colorLoop_cons (labels : List Nat) (t : Tri) (ts : List Tri) (vtr ranges colors : List Nat) :
    colorLoop labels (t :: ts) vtr ranges colors =
      match labels[t.a]? with
      | none => none
      | some g =>
        match vtr[g]? with
        | none => none
        | some r0 =>
          match (if r0 = umax then (vtr.set g ranges.length, ranges ++ [0]) else (vtr, ranges)) with
          | (vtr, ranges) =>
          match vtr[g]? with
          | none => none
          | some rid =>
            if rid < ranges.length then
              colorLoop labels ts vtr (ranges.modify rid (· + 1)) (colors ++ [rid - 1])
            else none := by
  rw [colorLoop]
  rfl

/-- invariant of the colouring pass -/
structure ColorInv (vtr ranges colors : List Nat) : Prop where
  pos : 1 ≤ ranges.length
  vtrOk : ∀ (g r : Nat), vtr[g]? = some r → r = umax ∨ (1 ≤ r ∧ r < ranges.length)
  colOk : ∀ c ∈ colors, c + 1 < ranges.length
  cnt : ∀ j : Nat, j + 1 < ranges.length → ranges[j + 1]? = some (colors.count j)

theorem colorLoop_spec (labels : List Nat) (idx : List Tri) (vtr ranges colors : List Nat)
    (hl : ∀ t ∈ idx, ∃ g, labels[t.a]? = some g ∧ g < vtr.length)
    (hi : ColorInv vtr ranges colors) :
    ∃ ranges' colors' vtr', colorLoop labels idx vtr ranges colors = some (ranges', colors') ∧
      ColorInv vtr' ranges' colors' ∧ colors'.length = colors.length + idx.length ∧ ranges'[0]? = ranges[0]? := by
  induction idx generalizing vtr ranges colors with
  | nil => exact ⟨ranges, colors, vtr, rfl, hi, rfl, rfl⟩
  | cons t ts ih =>
    obtain ⟨g, hg, hgl⟩ := hl t List.mem_cons_self
    have hl' : ∀ vtr' : List Nat, vtr'.length = vtr.length → ∀ t' ∈ ts, ∃ g, labels[t'.a]? = some g ∧ g < vtr'.length := by
      intro vtr' hlen t' ht'
      obtain ⟨g', h1, h2⟩ := hl t' (List.mem_cons_of_mem _ ht')
      exact ⟨g', h1, by omega⟩
    rw [colorLoop_cons]
    simp only [hg, List.getElem?_eq_getElem hgl]
    by_cases h0 : vtr[g] = umax
    · -- a new colour
      simp only [h0, if_true, List.getElem?_set, hgl, if_true]
      have hlt : ranges.length < (ranges ++ [0]).length := by simp
      simp only [hlt, if_true]
      have hinv : ColorInv (vtr.set g ranges.length) ((ranges ++ [0]).modify ranges.length (· + 1)) (colors ++ [ranges.length - 1]) := by
        constructor
        · simp
        · intro g' r hr
          rw [List.getElem?_set] at hr
          simp only [List.length_modify, List.length_append, List.length_singleton]
          by_cases hgg : g = g'
          · rw [if_pos hgg, if_pos hgl] at hr
            cases hr; right; exact ⟨hi.pos, by omega⟩
          · rw [if_neg hgg] at hr
            rcases hi.vtrOk g' r hr with h | h
            · left; exact h
            · right; omega
        · intro c hc
          simp only [List.length_modify, List.length_append, List.length_singleton]
          rcases List.mem_append.mp hc with h | h
          · have := hi.colOk c h; omega
          · simp only [List.mem_singleton] at h; have := hi.pos; omega
        · intro j hj
          simp only [List.length_modify, List.length_append, List.length_singleton] at hj
          simp only [List.getElem?_modify, List.count_append, List.count_singleton]
          by_cases hj' : j + 1 < ranges.length
          · have hne : ¬ ranges.length = j + 1 := by omega
            have hne2 : ¬ (ranges.length - 1 == j) = true := by simp; omega
            simp only [hne, if_false, hne2, Nat.add_zero]
            rw [List.getElem?_append_left hj', hi.cnt j hj']
            simp
          · have heq : ranges.length = j + 1 := by omega
            have hz : colors.count j = 0 := by
              apply List.count_eq_zero.mpr
              intro hmem
              have := hi.colOk j hmem; omega
            have hb : (ranges.length - 1 == j) = true := by simp; omega
            simp only [heq, if_true, hz, Nat.zero_add]
            rw [← heq, List.getElem?_append_right (Nat.le_refl _)]
            simp [hb]
      obtain ⟨r', c', v', e1, e2, e3, e4⟩ := ih _ _ _ (hl' _ (by simp)) hinv
      refine ⟨r', c', v', e1, e2, by rw [e3]; simp; omega, ?_⟩
      rw [e4, List.getElem?_modify]
      have : ¬ ranges.length = 0 := by have := hi.pos; omega
      simp only [this, if_false]
      rw [List.getElem?_append_left (by have := hi.pos; omega)]
      cases ranges[0]? <;> rfl
    · -- an existing colour
      simp only [h0, if_false, List.getElem?_eq_getElem hgl]
      have hr0 : 1 ≤ vtr[g] ∧ vtr[g] < ranges.length := by
        rcases hi.vtrOk g vtr[g] (List.getElem?_eq_getElem hgl) with h | h
        · exact absurd h h0
        · exact h
      simp only [hr0.2, if_true]
      have hinv : ColorInv vtr (ranges.modify vtr[g] (· + 1)) (colors ++ [vtr[g] - 1]) := by
        constructor
        · simp; exact hi.pos
        · intro g' r hr
          simp only [List.length_modify]
          exact hi.vtrOk g' r hr
        · intro c hc
          simp only [List.length_modify]
          rcases List.mem_append.mp hc with h | h
          · exact hi.colOk c h
          · simp only [List.mem_singleton] at h; omega
        · intro j hj
          simp only [List.length_modify] at hj
          simp only [List.getElem?_modify, List.count_append, List.count_singleton, hi.cnt j hj, Option.map_eq_map, Option.map_some]
          by_cases hjj : vtr[g] = j + 1
          · have : (vtr[g] - 1 == j) = true := by simp; omega
            simp [hjj, this]
          · have : ¬ (vtr[g] - 1 == j) = true := by simp; omega
            simp [hjj, this]
      obtain ⟨r', c', v', e1, e2, e3, e4⟩ := ih _ _ _ (hl' _ rfl) hinv
      refine ⟨r', c', v', e1, e2, by rw [e3]; simp; omega, ?_⟩
      rw [e4, List.getElem?_modify]
      have : ¬ vtr[g] = 0 := by omega
      simp only [this, if_false]
      cases ranges[0]? <;> rfl

/-- number of faces whose colour is `< j` -/
def below (colors : List Nat) (j : Nat) : Nat := (colors.filter (fun c => decide (c < j))).length

theorem below_succ (colors : List Nat) (j : Nat) : below colors (j + 1) = below colors j + colors.count j := by
  unfold below
  induction colors with
  | nil => rfl
  | cons c cs ih =>
    simp only [List.filter_cons, List.count_cons]
    by_cases h1 : c < j
    · have h2 : c < j + 1 := by omega
      have h3 : (c == j) = false := by simp; omega
      simp only [h1, h2, decide_true, if_true, List.length_cons, h3, Bool.false_eq_true, if_false]
      omega
    · by_cases h2 : c = j
      · subst h2
        simp only [h1, decide_false, Bool.false_eq_true, if_false, Nat.lt_add_one, decide_true, if_true, List.length_cons,
          beq_self_eq_true]
        omega
      · have h3 : ¬ c < j + 1 := by omega
        have h4 : (c == j) = false := by simp; omega
        simp only [h1, h3, decide_false, Bool.false_eq_true, if_false, h4]
        omega

theorem below_le (colors : List Nat) (j : Nat) : below colors j ≤ colors.length :=
  List.length_filter_le _ _

theorem below_zero (colors : List Nat) : below colors 0 = 0 := by
  unfold below
  induction colors with
  | nil => rfl
  | cons c cs ih => simp

theorem cumsumFrom_getElem? (prev : Nat) (xs : List Nat) (i : Nat) (hi : i < xs.length) :
    (cumsumFrom prev xs)[i]? = some (prev + (xs.take (i + 1)).sum) := by
  induction xs generalizing prev i with
  | nil => simp at hi
  | cons x xs ih =>
    rw [cumsumFrom]
    cases i with
    | zero => simp; omega
    | succ i =>
      simp only [List.length_cons, Nat.add_lt_add_iff_right] at hi
      simp only [List.getElem?_cons_succ, ih _ _ hi, List.take_succ_cons, List.sum_cons]
      congr 1; omega

theorem cumsumFrom_length (prev : Nat) (xs : List Nat) : (cumsumFrom prev xs).length = xs.length := by
  induction xs generalizing prev with
  | nil => rfl
  | cons x xs ih => rw [cumsumFrom]; simp [ih]

theorem cumsum_length (xs : List Nat) : (cumsum xs).length = xs.length := by
  cases xs with
  | nil => rfl
  | cons x xs => rw [cumsum]; simp [cumsumFrom_length]

theorem cumsum_getElem? (xs : List Nat) (i : Nat) (hi : i < xs.length) :
    (cumsum xs)[i]? = some ((xs.take (i + 1)).sum) := by
  cases xs with
  | nil => simp at hi
  | cons x xs =>
    rw [cumsum]
    cases i with
    | zero => simp
    | succ i =>
      simp only [List.length_cons, Nat.add_lt_add_iff_right] at hi
      simp only [List.getElem?_cons_succ, cumsumFrom_getElem? _ _ _ hi, List.take_succ_cons, List.sum_cons]

/-- prefix sums of the per-colour counts are the `below` counts -/
theorem take_sum_eq_below (ranges colors : List Nat) (h0 : ranges[0]? = some 0)
    (hc : ∀ j : Nat, j + 1 < ranges.length → ranges[j + 1]? = some (colors.count j)) (j : Nat) (hj : j < ranges.length) :
    (ranges.take (j + 1)).sum = below colors j := by
  induction j with
  | zero =>
    rw [List.take_add_one, h0]
    simp [below_zero]
  | succ j ih =>
    rw [List.take_add_one, hc j hj, List.sum_append, ih (by omega), below_succ]
    simp

theorem groupLoop_cons (c : Nat) (cs : List Nat) (fid : Nat) (ins grouped : List Nat) :
    groupLoop (c :: cs) fid ins grouped =
      match ins[c]? with
      | none => none
      | some i =>
        if i < grouped.length then groupLoop cs (fid + 1) (ins.modify c (· + 1)) (grouped.set i fid)
        else none := by
  rw [groupLoop]
  rfl

/-- the grouping pass never writes out of bounds: the insertion index of colour `c` plus the number of faces of
colour `c` still to come is the end of the range of `c` -/
theorem groupLoop_spec (all rem : List Nat) (fid : Nat) (ins grouped : List Nat) (k : Nat)
    (hcol : ∀ c ∈ rem, c < k)
    (hins : ∀ c : Nat, c < k → ∃ i, ins[c]? = some i ∧ i + rem.count c = below all (c + 1))
    (hlen : all.length = grouped.length) :
    ∃ g, groupLoop rem fid ins grouped = some g ∧ g.length = grouped.length := by
  induction rem generalizing fid ins grouped with
  | nil => exact ⟨grouped, rfl, rfl⟩
  | cons c cs ih =>
    rw [groupLoop_cons]
    have hck := hcol c List.mem_cons_self
    obtain ⟨i, hi, hsum⟩ := hins c hck
    simp only [hi]
    have hb := below_le all (c + 1)
    have hcnt : (c :: cs).count c = cs.count c + 1 := by simp
    have hlt : i < grouped.length := by omega
    simp only [hlt, if_true]
    obtain ⟨g, hg, hgl⟩ := ih (fid + 1) (ins.modify c (· + 1)) (grouped.set i fid)
      (fun c' hc' => hcol c' (List.mem_cons_of_mem _ hc'))
      (by
        intro c' hc'
        obtain ⟨i', hi', hsum'⟩ := hins c' hc'
        rw [List.getElem?_modify, hi']
        by_cases hcc : c = c'
        · subst hcc
          refine ⟨i' + 1, by simp, ?_⟩
          rw [hi] at hi'; cases hi'
          omega
        · refine ⟨i', by simp [hcc], ?_⟩
          have : (c :: cs).count c' = cs.count c' := by
            rw [List.count_cons]; simp [hcc]
          omega)
      (by simp [hlen])
    exact ⟨g, hg, by rw [hgl]; simp⟩

theorem unite3_lt (l : List Nat) (t : Tri) (nv : Nat) (h : ∀ x ∈ l, x < nv) (ha : t.a < l.length) :
    ∀ x ∈ unite3 l t, x < nv := by
  intro x hx
  unfold unite3 at hx
  simp only [List.mem_map] at hx
  obtain ⟨y, hy, rfl⟩ := hx
  split
  · have hla : l.getD t.a umax = l[t.a] := by simp [List.getD_eq_getElem?_getD, List.getElem?_eq_getElem ha]
    have : l[t.a] < nv := h _ (List.getElem_mem ha)
    have hm : min3 (l.getD t.a umax) (l.getD t.b umax) (l.getD t.c umax) ≤ l.getD t.a umax := by
      unfold min3; exact Nat.le_trans (Nat.min_le_left _ _) (Nat.min_le_left _ _)
    omega
  · exact h y hy

theorem ccLabels_lt (nv : Nat) (idx : List Tri) (hb : ∀ t ∈ idx, t.a < nv) :
    ∀ x ∈ ccLabels nv idx, x < nv := by
  unfold ccLabels
  have key : ∀ (l : List Nat), l.length = nv → (∀ x ∈ l, x < nv) → ∀ x ∈ idx.foldl unite3 l, x < nv := by
    induction idx with
    | nil => intro l _ h; exact h
    | cons t ts ih =>
      intro l hl h
      simp only [List.foldl_cons]
      apply ih (fun t' ht' => hb t' (List.mem_cons_of_mem _ ht')) _ (by rw [unite3_length]; exact hl)
      exact unite3_lt l t nv h (by rw [hl]; exact hb t List.mem_cons_self)
  apply key _ (by simp)
  intro x hx
  simpa using hx

/-- **`compute_connected_components` never panics on a well-formed index buffer**, and: one colour per face, colours
smaller than the number of ranges minus one, `ranges[j]` = number of faces of colour `< j` (so `ranges` are the
boundaries of the groups), `grouped_faces` as long as the index buffer -/
theorem computeCC_some {nv : Nat} {idx : List Tri} (hb : inBounds nv idx = true) :
    ∃ cc, computeCC nv idx = some cc ∧ cc.faceColors.length = idx.length ∧ cc.groupedFaces.length = idx.length ∧
      (∀ c ∈ cc.faceColors, c + 1 < cc.ranges.length) ∧
      (∀ j : Nat, j < cc.ranges.length → cc.ranges[j]? = some (below cc.faceColors j)) := by
  unfold computeCC
  simp only [hb, Bool.not_true, Bool.false_eq_true, if_false]
  have hmem := inBounds_mem hb
  have hlab : (ccLabels nv idx).length = nv := by
    unfold ccLabels; rw [foldl_unite3_length]; simp
  have hlt := ccLabels_lt nv idx (fun t ht => (hmem t ht).1)
  obtain ⟨ranges, colors, vtr', e1, inv, elen, e0⟩ := colorLoop_spec (ccLabels nv idx) idx (List.replicate nv umax) [0] []
    (by
      intro t ht
      have ha := (hmem t ht).1
      have : t.a < (ccLabels nv idx).length := by rw [hlab]; exact ha
      refine ⟨(ccLabels nv idx)[t.a], List.getElem?_eq_getElem this, ?_⟩
      simp only [List.length_replicate]
      exact hlt _ (List.getElem_mem this))
    (by
      constructor
      · simp
      · intro g r hr
        rw [List.getElem?_replicate] at hr
        split at hr
        · cases hr; left; rfl
        · cases hr
      · intro c hc; cases hc
      · intro j hj; simp at hj)
  rw [e1]
  simp only
  simp only [List.length_nil, Nat.zero_add] at elen
  have h0 : ranges[0]? = some 0 := by rw [e0]; rfl
  have hR : ∀ j : Nat, j < ranges.length → (cumsum ranges)[j]? = some (below colors j) := by
    intro j hj
    rw [cumsum_getElem? _ _ hj, take_sum_eq_below ranges colors h0 inv.cnt j hj]
  obtain ⟨g, hg, hgl⟩ := groupLoop_spec colors colors 0 (cumsum ranges) (List.replicate idx.length umax) (ranges.length - 1)
    (by intro c hc; have := inv.colOk c hc; omega)
    (by
      intro c hc
      refine ⟨below colors c, hR c (by omega), ?_⟩
      rw [below_succ])
    (by simp [elen])
  rw [hg]
  refine ⟨_, rfl, elen, by rw [hgl]; simp, ?_, ?_⟩
  · intro c hc; rw [cumsum_length]; exact inv.colOk c hc
  · intro j hj; rw [cumsum_length] at hj; exact hR j hj

/-! ## no operation on a well-formed mesh panics -/

/-- every index of the index buffer designates a vertex (what `rebuild_qbvh` establishes) -/
def WF (s : Mesh V N) : Prop := inBounds s.vertices.length s.indices = true

theorem triCoords_isSome_iff (vs : List V) (t : Tri) :
    (triCoords vs t).isSome = true ↔ t.a < vs.length ∧ t.b < vs.length ∧ t.c < vs.length := by
  unfold triCoords
  constructor
  · intro h
    cases ha : vs[t.a]? <;> cases hb : vs[t.b]? <;> cases hc : vs[t.c]? <;> simp [ha, hb, hc] at h
    have h1 := (List.getElem?_eq_some_iff.mp ha).1
    have h2 := (List.getElem?_eq_some_iff.mp hb).1
    have h3 := (List.getElem?_eq_some_iff.mp hc).1
    exact ⟨h1, h2, h3⟩
  · intro ⟨h1, h2, h3⟩
    simp [List.getElem?_eq_getElem h1, List.getElem?_eq_getElem h2, List.getElem?_eq_getElem h3]

theorem allCoords_isSome_iff (vs : List V) (idx : List Tri) :
    (allCoords vs idx).isSome = true ↔ inBounds vs.length idx = true := by
  induction idx with
  | nil => simp [allCoords, inBounds]
  | cons t ts ih =>
    rw [allCoords_cons]
    have h1 := triCoords_isSome_iff vs t
    unfold inBounds at ih ⊢
    simp only [List.all_cons, Bool.and_eq_true, decide_eq_true_eq]
    cases hc : triCoords vs t with
    | none =>
      rw [hc] at h1
      simp only [Option.isSome_none, Bool.false_eq_true, false_iff] at h1
      simp only [Option.isSome_none, Bool.false_eq_true, false_iff]
      intro h; apply h1; exact ⟨h.1.1.1, h.1.1.2, h.1.2⟩
    | some c =>
      rw [hc] at h1
      simp only [Option.isSome_some, true_iff] at h1
      cases ha : allCoords vs ts with
      | none =>
        rw [ha] at ih
        simp only [Option.isSome_none, Bool.false_eq_true, false_iff]
        intro h; exact absurd (ih.mpr h.2) (by simp)
      | some cs =>
        rw [ha] at ih
        simp only [Option.isSome_some, true_iff] at ih
        simp only [Option.isSome_some, true_iff]
        exact ⟨⟨⟨h1.1, h1.2.1⟩, h1.2.2⟩, ih⟩

theorem inBounds_sublist {nv : Nat} {l1 l2 : List Tri} (h : l1.Sublist l2) (hb : inBounds nv l2 = true) : inBounds nv l1 = true := by
  unfold inBounds at hb ⊢
  rw [List.all_eq_true] at hb ⊢
  intro t ht
  exact hb t (h.subset ht)

theorem computePN_some [Geo V N] {vs : List V} {idx : List Tri} (hb : inBounds vs.length idx = true) :
    ∃ p, (computePN vs idx : Option (PN N)) = some p := by
  unfold computePN
  have := (allCoords_isSome_iff vs idx).mpr hb
  cases h : allCoords vs idx with
  | none => rw [h] at this; cases this
  | some cs => exact ⟨_, rfl⟩

theorem rebuildQbvh_some {s : Mesh V N} (h : WF s) : ∃ s', rebuildQbvh s = some s' := by
  unfold rebuildQbvh
  have := (allCoords_isSome_iff s.vertices s.indices).mpr h
  cases h : allCoords s.vertices s.indices with
  | none => rw [h] at this; cases this
  | some cs => exact ⟨_, rfl⟩

theorem wf_of_same {s t : Mesh V N} (h : WF s) (hs : SameData s t) : WF t := by
  unfold WF at h ⊢; rw [hs.1, hs.2.1]; exact h

theorem mergeStage_no_panic [Geo V N] {s : Mesh V N} (f d : Flags) (h : WF s) :
    ∃ s1 d1, mergeStage s f d = some (s1, d1) ∧ WF s1 := by
  unfold mergeStage
  split
  · unfold mergeStep
    have := (allCoords_isSome_iff s.vertices s.indices).mpr h
    unfold mergeBuffers
    cases hc : allCoords s.vertices s.indices with
    | none => rw [hc] at this; cases this
    | some cs =>
      simp only [Option.map_some]
      refine ⟨_, _, rfl, ?_⟩
      -- well-formedness of the merged buffers
      obtain ⟨added, e1, _, _, e4, _⟩ := mergeLoop_spec (N := N) (B := Unit) (fun _ => ()) ⟨by intros; rfl, by intros; rfl, by intros; rfl, by intros; rfl⟩
        f.delDegen f.delDup cs [] [] []
      simp only [List.nil_append] at e1
      unfold WF
      simp only
      rw [← allCoords_isSome_iff, e1]
      exact allCoords_of_all e4
  · exact ⟨s, d, rfl, h⟩

theorem topoStage_no_panic {s : Mesh V N} (f d : Flags) (h : WF s) :
    ∃ s1 r d1, topoStage s f d = some (s1, r, d1) ∧ WF s1 := by
  unfold topoStage
  split
  · unfold topoStep topoStepW
    cases hdel : f.delBad
    · simp only [Bool.false_eq_true, if_false]
      have hnp := computeTopology_no_panic h
      cases hct : computeTopology s.vertices.length s.indices with
      | panic => exact absurd hct hnp
      | err e => exact ⟨_, _, _, rfl, h⟩
      | ok t => exact ⟨_, _, _, rfl, h⟩
    · simp only [if_true]
      have hwf : inBounds s.vertices.length (deleteBad s.indices) = true :=
        inBounds_sublist (deleteBadLoop_sublist _ _) h
      have hnp := computeTopology_no_panic hwf
      cases hct : computeTopology s.vertices.length (deleteBad s.indices) with
      | panic => exact absurd hct hnp
      | err e => exact ⟨_, _, _, rfl, hwf⟩
      | ok t => exact ⟨_, _, _, rfl, hwf⟩
  · exact ⟨s, none, d, rfl, h⟩

theorem ccStage_no_panic {s : Mesh V N} (d : Flags) (h : WF s) : ∃ s1, ccStage s d = some s1 ∧ WF s1 := by
  unfold ccStage
  split
  · unfold ccStep
    obtain ⟨cc, hcc, _⟩ := computeCC_some h
    rw [hcc]
    exact ⟨_, rfl, h⟩
  · exact ⟨s, rfl, h⟩

theorem pnStage_no_panic [Geo V N] {s : Mesh V N} (dim3 : Bool) (d : Flags) (h : WF s) :
    ∃ s1, pnStage dim3 s d = some s1 ∧ WF s1 := by
  unfold pnStage
  split
  · unfold pnStep
    obtain ⟨p, hp⟩ := computePN_some (N := N) h
    rw [hp]
    exact ⟨_, rfl, h⟩
  · exact ⟨s, rfl, h⟩

theorem qbvhStage_no_panic {s : Mesh V N} (n : Nat) (h : WF s) : ∃ s1, qbvhStage n s = some s1 ∧ WF s1 := by
  unfold qbvhStage
  split
  · obtain ⟨s', hs'⟩ := rebuildQbvh_some h
    exact ⟨s', hs', wf_of_same h (rebuildQbvh_spec hs').1⟩
  · exact ⟨s, rfl, h⟩

/-- `set_flags` never panics on a well-formed mesh, and leaves it well formed -/
theorem setFlags_no_panic' [Geo V N] (dim3 : Bool) {s : Mesh V N} (f : Flags) (h : WF s) :
    ∃ s' r, setFlags dim3 s f = some (s', r) ∧ WF s' := by
  unfold setFlags
  have h0 : WF (dropStage dim3 s f) := by unfold WF; simp only [dropStage_vertices, dropStage_indices]; exact h
  obtain ⟨s1, d1, e1, w1⟩ := mergeStage_no_panic f (f.diff s.flags) h0
  obtain ⟨s2, r2, d2, e2, w2⟩ := topoStage_no_panic f d1 w1
  obtain ⟨s3, e3, w3⟩ := ccStage_no_panic d2 w2
  obtain ⟨s4, e4, w4⟩ := pnStage_no_panic dim3 d2 w3
  obtain ⟨s5, e5, w5⟩ := qbvhStage_no_panic s.indices.length w4
  simp only [e1, e2, e3, e4, e5, Option.bind_some]
  exact ⟨_, _, rfl, w5⟩

theorem retopo_no_panic {s : Mesh V N} (h : WF s) : ∃ s', retopo s = some s' ∧ WF s' := by
  unfold retopo
  split
  · unfold topoStep topoStepW
    simp only [Bool.false_eq_true, if_false]
    have hnp := computeTopology_no_panic h
    cases hct : computeTopology s.vertices.length s.indices with
    | panic => exact absurd hct hnp
    | err e => exact ⟨_, rfl, h⟩
    | ok t => exact ⟨_, rfl, h⟩
  · exact ⟨s, rfl, h⟩

/-- `reverse` never panics on a well-formed mesh, and leaves it well formed -/
theorem reverse_no_panic' [Geo V N] (dim3 : Bool) {s : Mesh V N} (h : WF s) : ∃ s', reverse dim3 s = some s' ∧ WF s' := by
  unfold reverse
  apply retopo_no_panic
  unfold WF
  cases dim3 <;> simp only [Bool.false_eq_true, if_false, if_true, inBounds_rev] <;> exact h

theorem ensureQbvh_no_panic {s : Mesh V N} (h : WF s) : ∃ s', ensureQbvh s = some s' ∧ WF s' := by
  unfold ensureQbvh
  split
  · obtain ⟨s', hs'⟩ := rebuildQbvh_some h
    exact ⟨s', hs', wf_of_same h (rebuildQbvh_spec hs').1⟩
  · exact ⟨s, rfl, h⟩

/-- `with_flags` on in-bounds buffers: `EmptyIndices` or a well-formed mesh, never a panic -/
theorem withFlags_no_panic' [Geo V N] (dim3 : Bool) (vs : List V) (idx : List Tri) (f : Flags)
    (h : inBounds vs.length idx = true) :
    (idx = [] ∧ (withFlags dim3 vs idx f : Built V N) = .emptyIndices) ∨
    (idx ≠ [] ∧ ∃ s : Mesh V N, withFlags dim3 vs idx f = .ok s ∧ WF s) := by
  unfold withFlags
  cases idx with
  | nil => left; exact ⟨rfl, rfl⟩
  | cons t ts =>
    right
    refine ⟨by simp, ?_⟩
    simp only [List.isEmpty_cons, Bool.false_eq_true, if_false]
    unfold buildCore
    obtain ⟨s1, r, e1, w1⟩ := setFlags_no_panic' (N := N) dim3 f (s := blank vs (t :: ts)) h
    obtain ⟨s2, e2, w2⟩ := ensureQbvh_no_panic w1
    rw [e1]; simp only; rw [e2]
    exact ⟨s2, rfl, w2⟩

/-- a mesh returned by `with_flags` is well formed (whatever the input buffers) -/
theorem withFlags_wf' [Geo V N] {dim3 : Bool} {vs : List V} {idx : List Tri} {f : Flags} {s : Mesh V N}
    (h : withFlags dim3 vs idx f = .ok s) : WF s := by
  obtain ⟨h1, h2⟩ := withFlags_qbvh h
  unfold WF
  rw [← allCoords_isSome_iff, ← h1]; exact h2

theorem appendBuffers_wf {s rhs : Mesh V N} (h1 : WF s) (h2 : WF rhs) :
    inBounds (appendBuffers s rhs).1.length (appendBuffers s rhs).2 = true := by
  unfold appendBuffers WF inBounds at *
  simp only [List.length_append, List.all_append, List.all_map, Bool.and_eq_true, List.all_eq_true, decide_eq_true_eq] at *
  constructor
  · intro t ht; have := h1 t ht; omega
  · intro t ht; have := h2 t ht
    simp only [Function.comp, Bool.and_eq_true, decide_eq_true_eq]; omega

/-- `append` on well-formed meshes panics exactly when both index buffers are empty (`with_flags(..).unwrap()`) -/
theorem append_no_panic' [Geo V N] (dim3 : Bool) {s rhs : Mesh V N} (h1 : WF s) (h2 : WF rhs) :
    (s.indices = [] ∧ rhs.indices = [] ∧ append dim3 s rhs = none) ∨
    (∃ s', append dim3 s rhs = some s' ∧ WF s') := by
  unfold append
  simp only
  rcases withFlags_no_panic' (N := N) dim3 _ _ s.flags (appendBuffers_wf h1 h2) with ⟨he, hw⟩ | ⟨hne, s', hw, hwf⟩
  · left
    rw [hw]
    unfold appendBuffers at he
    simp only [List.append_eq_nil_iff, List.map_eq_nil_iff] at he
    exact ⟨he.1, he.2, rfl⟩
  · right; rw [hw]; exact ⟨s', rfl, hwf⟩

/-! ## `transform_vertices` -/

/-- what `transform_vertices` needs from exact geometry: the map on normals is additive and the normal / angle data of a
transformed triangle are the transformed data (an isometry rotates normals and keeps angles) -/
structure TransformLaws [Geo V N] (fV : V → V) (fN : N → N) : Prop where
  map_zero : fN (Geo.nzero V) = Geo.nzero V
  map_add : ∀ x y : N, fN (Geo.nadd V x y) = Geo.nadd V (fN x) (fN y)
  contrib_map : ∀ a b c : V, (Geo.contrib (fV a) (fV b) (fV c) : Option (N × N × N × N)) =
    (Geo.contrib a b c).map fun w => (fN w.1, fN w.2.1, fN w.2.2.1, fN w.2.2.2)

def mapC (fV : V → V) (c : V × V × V) : V × V × V := (fV c.1, fV c.2.1, fV c.2.2)
def mapW (fN : N → N) (w : N × N × N × N) : N × N × N × N := (fN w.1, fN w.2.1, fN w.2.2.1, fN w.2.2.2)
def mapCs (fN : N → N) (tc : Tri × Option (N × N × N × N)) : Tri × Option (N × N × N × N) := (tc.1, tc.2.map (mapW fN))

theorem triCoords_map (fV : V → V) (vs : List V) (t : Tri) :
    triCoords (vs.map fV) t = (triCoords vs t).map (mapC fV) := by
  unfold triCoords
  simp only [List.getElem?_map]
  cases vs[t.a]? <;> cases vs[t.b]? <;> cases vs[t.c]? <;> simp [mapC]

theorem allCoords_map (fV : V → V) (vs : List V) (idx : List Tri) :
    allCoords (vs.map fV) idx = (allCoords vs idx).map (List.map (mapC fV)) := by
  induction idx with
  | nil => rfl
  | cons t ts ih =>
    rw [allCoords_cons, allCoords_cons, ih, triCoords_map]
    cases triCoords vs t <;> cases allCoords vs ts <;> simp

theorem vertexStep_map [Geo V N] {fV : V → V} {fN : N → N} (hl : TransformLaws fV fN) (v : Nat) (acc : N)
    (tc : Tri × Option (N × N × N × N)) :
    vertexStep (V := V) v (fN acc) (mapCs fN tc) = fN (vertexStep (V := V) v acc tc) := by
  obtain ⟨t, c⟩ := tc
  cases c with
  | none => rfl
  | some w =>
    obtain ⟨n, w1, w2, w3⟩ := w
    simp only [vertexStep, mapCs, mapW, Option.map_some]
    by_cases ha : t.a = v <;> by_cases hb : t.b = v <;> by_cases hc : t.c = v <;>
      simp only [ha, hb, hc, if_true, if_false, hl.map_add]

theorem foldl_vertexStep_map [Geo V N] {fV : V → V} {fN : N → N} (hl : TransformLaws fV fN)
    (cs : List (Tri × Option (N × N × N × N))) (v : Nat) (acc : N) :
    (cs.map (mapCs fN)).foldl (vertexStep (V := V) v) (fN acc) = fN (cs.foldl (vertexStep (V := V) v) acc) := by
  induction cs generalizing acc with
  | nil => rfl
  | cons tc ts ih => simp only [List.map_cons, List.foldl_cons, vertexStep_map hl, ih]

theorem edgeAdd_map [Geo V N] {fV : V → V} {fN : N → N} (hl : TransformLaws fV fN) (key : Nat × Nat) (n : N)
    (acc : Option N) (e : Nat × Nat) :
    edgeAdd (V := V) key (fN n) (acc.map fN) e = (edgeAdd (V := V) key n acc e).map fN := by
  unfold edgeAdd
  split
  · cases acc <;> simp [hl.map_add, hl.map_zero]
  · rfl

theorem edgeStep_map [Geo V N] {fV : V → V} {fN : N → N} (hl : TransformLaws fV fN) (key : Nat × Nat) (acc : Option N)
    (tc : Tri × Option (N × N × N × N)) :
    edgeStep (V := V) key (acc.map fN) (mapCs fN tc) = (edgeStep (V := V) key acc tc).map fN := by
  obtain ⟨t, c⟩ := tc
  cases c with
  | none => rfl
  | some w =>
    obtain ⟨n, w1, w2, w3⟩ := w
    simp only [edgeStep, mapCs, mapW, Option.map_some]
    rw [edgeAdd_map hl, edgeAdd_map hl, edgeAdd_map hl]

theorem foldl_edgeStep_map [Geo V N] {fV : V → V} {fN : N → N} (hl : TransformLaws fV fN)
    (cs : List (Tri × Option (N × N × N × N))) (key : Nat × Nat) (acc : Option N) :
    (cs.map (mapCs fN)).foldl (edgeStep (V := V) key) (acc.map fN) = (cs.foldl (edgeStep (V := V) key) acc).map fN := by
  induction cs generalizing acc with
  | nil => rfl
  | cons tc ts ih => simp only [List.map_cons, List.foldl_cons, edgeStep_map hl, ih]

/-- pseudo-normals of the transformed vertex buffer = transformed pseudo-normals -/
theorem computePN_map [Geo V N] {fV : V → V} {fN : N → N} (hl : TransformLaws fV fN) (vs : List V) (idx : List Tri) :
    (computePN (vs.map fV) idx : Option (PN N)) = (computePN vs idx).map (mapPN fN) := by
  unfold computePN
  rw [allCoords_map]
  cases allCoords vs idx with
  | none => rfl
  | some coords =>
    simp only [Option.map_some, mapPN]
    have hcs : ((idx.zip (coords.map (mapC fV))).map fun tc => (tc.1, (Geo.contrib tc.2.1 tc.2.2.1 tc.2.2.2 : Option (N × N × N × N)))) =
        ((idx.zip coords).map fun tc => (tc.1, (Geo.contrib tc.2.1 tc.2.2.1 tc.2.2.2 : Option (N × N × N × N)))).map (mapCs fN) := by
      have : idx.zip (coords.map (mapC fV)) = (idx.zip coords).map (Prod.map id (mapC fV)) := by
        rw [← List.zip_map_right]
      rw [this, List.map_map, List.map_map]
      apply List.map_congr_left
      intro tc _
      obtain ⟨t, pa, pb, pc⟩ := tc
      simp only [Function.comp, Prod.map, mapC, mapCs, id, hl.contrib_map pa pb pc]
      rfl
    rw [hcs]
    generalize ((idx.zip coords).map fun tc => (tc.1, (Geo.contrib tc.2.1 tc.2.2.1 tc.2.2.2 : Option (N × N × N × N)))) = cs
    have hget : ∀ (e : Nat × Nat),
        (edgeAcc (V := V) (cs.map (mapCs fN)) e).getD (Geo.nzero V) = fN ((edgeAcc (V := V) cs e).getD (Geo.nzero V)) := by
      intro e
      unfold edgeAcc
      have := foldl_edgeStep_map hl cs e none
      simp only [Option.map_none] at this
      rw [this]
      cases cs.foldl (edgeStep (V := V) e) none <;> simp [hl.map_zero]
    congr 2
    · rw [List.length_map, List.map_map]
      apply List.map_congr_left
      intro v _
      simp only [Function.comp, vertexAcc]
      rw [← foldl_vertexStep_map hl, hl.map_zero]
    · rw [List.map_map]
      apply List.map_congr_left
      intro t _
      simp only [Function.comp, hget]

theorem transformVertices_spec {fV : V → V} {fN : N → N} {s s' : Mesh V N} (h : transformVertices fV fN s = some s') :
    s'.vertices = s.vertices.map fV ∧ s'.indices = s.indices ∧ s'.flags = s.flags ∧ s'.topology = s.topology ∧
    s'.cc = s.cc ∧ s'.pn = s.pn.map (mapPN fN) ∧ s'.qbvh = allCoords s'.vertices s'.indices ∧ s'.qbvh.isSome = true := by
  unfold transformVertices at h
  split at h
  · cases h
  · rename_i s1 hs1
    cases h
    obtain ⟨⟨a, b, c, d, e⟩, f, g, hh⟩ := rebuildQbvh_spec hs1
    simp only at a b c d e f g ⊢
    exact ⟨a, b, f, d, e, by rw [c], by rw [g, a, b], hh⟩

/-- `transform_vertices` preserves coherence (exact geometry) -/
theorem transformVertices_coherent' [Geo V N] {dim3 : Bool} {fV : V → V} {fN : N → N} (hl : TransformLaws fV fN)
    {s s' : Mesh V N} (hc : Coherent dim3 s) (h : transformVertices fV fN s = some s') : Coherent dim3 s' := by
  obtain ⟨ev, ei, ef, et, ec, ep, _, _⟩ := transformVertices_spec h
  unfold Coherent at hc ⊢
  simp only [Mesh.derived, derive, Derived.mk.injEq] at hc ⊢
  obtain ⟨hp, ht, hcc⟩ := hc
  refine ⟨?_, ?_, ?_⟩
  · rw [ep, ev, ei, ef, hp]
    cases (dim3 && s.flags.pnFamily) <;> simp [computePN_map hl]
  · rw [et, ev, ei, ef, ht]; simp
  · rw [ec, ev, ei, ef, hcc]; simp

theorem transformVertices_qcoherent' {B : Type} (box : V × V × V → B) {fV : V → V} {fN : N → N} {s s' : Mesh V N}
    (h : transformVertices fV fN s = some s') : QCoherent box s' := by
  obtain ⟨_, _, _, _, _, _, hq, hs⟩ := transformVertices_spec h
  cases hq' : s'.qbvh with
  | none => rw [hq'] at hs; cases hs
  | some cs => exact ⟨cs, cs, hq', by rw [← hq, hq'], rfl⟩

theorem transformVertices_no_panic' {fV : V → V} {fN : N → N} {s : Mesh V N} (h : WF s) :
    ∃ s', transformVertices fV fN s = some s' ∧ WF s' := by
  unfold transformVertices
  have hw : WF ({ s with vertices := s.vertices.map fV } : Mesh V N) := by
    unfold WF at h ⊢; simpa using h
  obtain ⟨s1, h1⟩ := rebuildQbvh_some hw
  rw [h1]
  refine ⟨_, rfl, ?_⟩
  have := wf_of_same hw (rebuildQbvh_spec h1).1
  unfold WF at this ⊢
  exact this

/-! ## `DELETE_BAD_TOPOLOGY_TRIANGLES` stays enforced -/

/-- the index buffer is left untouched by `delete_bad_topology_triangles` started with the half-edge set `S` -/
def GoodWrt : List (Nat × Nat) → List Tri → Prop
  | _, [] => True
  | S, t :: ts => isDegenerate t = false ∧
      (S.contains (t.a, t.b) || S.contains (t.b, t.c) || S.contains (t.c, t.a)) = false ∧
      GoodWrt ((t.c, t.a) :: (t.b, t.c) :: (t.a, t.b) :: S) ts

theorem deleteBadLoop_length_le (idx : List Tri) (S : List (Nat × Nat)) : (deleteBadLoop idx S).length ≤ idx.length :=
  (deleteBadLoop_sublist idx S).length_le

theorem deleteBadLoop_fix_iff (idx : List Tri) (S : List (Nat × Nat)) : deleteBadLoop idx S = idx ↔ GoodWrt S idx := by
  induction idx generalizing S with
  | nil => simp [deleteBadLoop, GoodWrt]
  | cons t ts ih =>
    rw [deleteBadLoop_cons]
    unfold GoodWrt
    by_cases hdeg : isDegenerate t = true
    · simp only [hdeg, if_true]
      constructor
      · intro h
        have := deleteBadLoop_length_le ts S
        rw [h] at this; simp only [List.length_cons] at this; omega
      · intro h; simp at h
    · have hdeg' : isDegenerate t = false := by simpa using hdeg
      by_cases hhit : (S.contains (t.a, t.b) || S.contains (t.b, t.c) || S.contains (t.c, t.a)) = true
      · simp only [hdeg', hhit, if_true, Bool.false_eq_true, if_false]
        constructor
        · intro h
          have := deleteBadLoop_length_le ts S
          rw [h] at this; simp only [List.length_cons] at this; omega
        · intro h; simp at h
      · have hhit0 : (S.contains (t.a, t.b) || S.contains (t.b, t.c) || S.contains (t.c, t.a)) = false := by simpa using hhit
        simp only [hdeg', hhit0, Bool.false_eq_true, if_false, true_and, List.cons.injEq]
        exact ih _

theorem goodWrt_congr (idx : List Tri) (S S' : List (Nat × Nat)) (h : ∀ e, S.contains e = S'.contains e) :
    GoodWrt S idx → GoodWrt S' idx := by
  induction idx generalizing S S' with
  | nil => intro _; trivial
  | cons t ts ih =>
    unfold GoodWrt
    intro ⟨h1, h2, h3⟩
    refine ⟨h1, by rw [← h, ← h, ← h]; exact h2, ?_⟩
    apply ih _ _ _ h3
    intro e
    simp only [List.contains_cons, h e]

def swapE (e : Nat × Nat) : Nat × Nat := (e.2, e.1)

theorem contains_map_swapE (S : List (Nat × Nat)) (e : Nat × Nat) : (S.map swapE).contains (swapE e) = S.contains e := by
  induction S with
  | nil => rfl
  | cons x xs ih =>
    simp only [List.map_cons, List.contains_cons, ih]
    congr 1
    obtain ⟨x1, x2⟩ := x; obtain ⟨e1, e2⟩ := e
    simp only [swapE]
    by_cases h : e1 = x1 ∧ e2 = x2
    · obtain ⟨rfl, rfl⟩ := h; simp
    · have h1 : ((e1, e2) == (x1, x2)) = false := by
        simp only [beq_eq_false_iff_ne, ne_eq, Prod.mk.injEq]; exact h
      have h2 : ((e2, e1) == (x2, x1)) = false := by
        simp only [beq_eq_false_iff_ne, ne_eq, Prod.mk.injEq]; exact fun hh => h ⟨hh.2, hh.1⟩
      rw [h1, h2]

theorem goodWrt_rev (idx : List Tri) (S : List (Nat × Nat)) (h : GoodWrt S idx) : GoodWrt (S.map swapE) (revIdx idx) := by
  induction idx generalizing S with
  | nil => trivial
  | cons t ts ih =>
    unfold GoodWrt at h
    obtain ⟨h1, h2, h3⟩ := h
    have hr : revIdx (t :: ts) = ⟨t.b, t.a, t.c⟩ :: revIdx ts := rfl
    rw [hr]
    unfold GoodWrt
    simp only [Bool.or_eq_false_iff] at h2
    obtain ⟨⟨ha, hb⟩, hc⟩ := h2
    refine ⟨?_, ?_, ?_⟩
    · simp only [isDegenerate, Bool.or_eq_false_iff, beq_eq_false_iff_ne, ne_eq] at h1 ⊢
      obtain ⟨⟨x, y⟩, z⟩ := h1
      exact ⟨⟨fun h => x h.symm, z⟩, y⟩
    · have e1 := contains_map_swapE S (t.a, t.b)
      have e2 := contains_map_swapE S (t.c, t.a)
      have e3 := contains_map_swapE S (t.b, t.c)
      simp only [swapE] at e1 e2 e3
      simp only [e1, e2, e3, ha, hb, hc, Bool.or_self]
    · have := ih _ h3
      apply goodWrt_congr _ _ _ _ this
      intro e
      simp only [List.map_cons, swapE, List.contains_cons]
      cases (e == (t.a, t.c)) <;> cases (e == (t.c, t.b)) <;> cases (e == (t.b, t.a)) <;> simp

/-- reversing the triangles does not create a bad-topology triangle -/
theorem deleteBad_rev {idx : List Tri} (h : deleteBad idx = idx) : deleteBad (revIdx idx) = revIdx idx := by
  unfold deleteBad at h ⊢
  rw [deleteBadLoop_fix_iff] at h ⊢
  exact goodWrt_rev idx [] h

/-- the promise of `DELETE_BAD_TOPOLOGY_TRIANGLES` about the index buffer -/
def CleanBad (s : Mesh V N) : Prop := s.flags.delBad = true → deleteBad s.indices = s.indices

theorem setFlags_cleanBad' [Geo V N] {dim3 : Bool} {s s' : Mesh V N} {f : Flags} {r : Option TopoErr}
    (hc : CleanBad s) (h : setFlags dim3 s f = some (s', r)) : CleanBad s' := by
  have hf := setFlags_flags h
  unfold CleanBad
  rw [hf]
  intro hdel
  unfold setFlags at h
  simp only [Option.bind_eq_some_iff] at h
  obtain ⟨⟨t1, d1⟩, h1, ⟨t2, r2, d2⟩, h2, t3, h3, t4, h4, t5, h5, h6⟩ := h
  simp only [Option.some.injEq, Prod.mk.injEq] at h6
  obtain ⟨rfl, _⟩ := h6
  have b3 : t3.indices = t2.indices := by
    unfold ccStage at h3
    split at h3
    · exact (ccStep_spec h3).2.1
    · cases h3; rfl
  have b4 : t4.indices = t3.indices := by
    unfold pnStage at h4
    split at h4
    · exact (pnStep_spec h4).2.1
    · cases h4; rfl
  have b5 : t5.indices = t4.indices := (qbvhStage_spec h5).1.2.1
  simp only
  rw [b5, b4, b3]
  unfold topoStage at h2
  split at h2
  · -- the topology stage ran with deletion
    simp only [Option.map_eq_some_iff, Prod.mk.injEq] at h2
    obtain ⟨⟨s2, r'⟩, hm, rfl, _, _⟩ := h2
    have := (topoStep_spec hm).2.1
    simp only [hdel, if_true] at this
    simp only
    rw [this, deleteBad_idem]
  · rename_i hd
    cases h2
    -- no topology stage: then no merge stage either, the flag was already there and the indices are the old ones
    unfold mergeStage at h1
    split at h1
    · simp only [Option.map_eq_some_iff, Prod.mk.injEq] at h1
      obtain ⟨_, _, _, rfl⟩ := h1
      exfalso; apply hd; simp [Flags.topoFamily, hdel]
    · cases h1
      simp only [dropStage_indices]
      apply hc
      -- `delBad` is in `f` but not in the difference
      cases hs : s.flags.delBad
      · exfalso; apply hd; simp [Flags.topoFamily, Flags.diff, hdel, hs]
      · rfl

theorem reverse_cleanBad' [Geo V N] {dim3 : Bool} {s s' : Mesh V N} (hc : CleanBad s) (h : reverse dim3 s = some s') : CleanBad s' := by
  obtain ⟨_, hi, _⟩ := reverse_spec_buffers h
  have hf : s'.flags = s.flags := by
    unfold reverse at h
    have key : ∀ s2 : Mesh V N, retopo s2 = some s' → s'.flags = s2.flags := by
      intro s2 h2
      unfold retopo at h2
      split at h2
      · split at h2
        · cases h2
        · rename_i s3 r hts
          cases h2
          exact (topoStep_spec hts).2.2.2.2.1
      · cases h2; rfl
    have := key _ h
    cases dim3 <;> exact this
  unfold CleanBad at hc ⊢
  rw [hf, hi]
  intro hd
  exact deleteBad_rev (hc hd)

theorem withFlags_cleanBad' [Geo V N] {dim3 : Bool} {vs : List V} {idx : List Tri} {f : Flags} {s : Mesh V N}
    (h : withFlags dim3 vs idx f = .ok s) : CleanBad s := by
  obtain ⟨s1, r, hs, he⟩ := buildCore_eq_some (withFlags_eq_ok h).2
  obtain ⟨⟨_, ei, _⟩, ef, _⟩ := ensureQbvh_spec he
  have h1 : CleanBad s1 := setFlags_cleanBad' (s := blank vs idx) (by intro hd; cases hd) hs
  unfold CleanBad at h1 ⊢
  rw [ef, ei]; exact h1

theorem transformVertices_cleanBad' {fV : V → V} {fN : N → N} {s s' : Mesh V N} (hc : CleanBad s)
    (h : transformVertices fV fN s = some s') : CleanBad s' := by
  obtain ⟨_, ei, ef, _⟩ := transformVertices_spec h
  unfold CleanBad at hc ⊢
  rw [ef, ei]; exact hc

end C11
