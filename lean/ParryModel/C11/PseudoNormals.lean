import ParryModel.Vec
import ParryModel.C11.Model
/-!
# C11 model, geometry of `compute_pseudo_normals` over any `Num`

`Model.lean` keeps the geometry abstract (`class Geo`).  This file gives the concrete 3-D geometry the Rust code uses,
polymorphic over the scalar type, with the arc-cosine as a parameter (`acos` exists at `Float` only; over an ordered
field the theorems of `Theorems3.lean` hold for every function `acos`, the sign theorems for every non-negative one):

* `angleK acos u v`    — nalgebra `Matrix::angle` (`prod / (n1 * n2)` clamped to `[-1, 1]`, `0` if a norm is `0`);
* `contribK acos a b c` — `Triangle::normal()` (`None` iff `‖(b-a)×(c-a)‖ <= f64::EPSILON`) and `n * ang1`, `n * ang2`, `n * ang3`;
* `geoK acos : Geo (V3 K) (V3 K)` — the instance the driver runs at `Float` with `acos := Float.acos` (bit-exact);
* `insideBy dpt pn`    — the sign test of `project_local_point_and_get_location`: `is_inside = dpt.dot(&pn) <= 0.0`.
-/
namespace Model
namespace TM
section PNK
variable {K : Type} [Num K]

/-- `f64::EPSILON` (`DEFAULT_EPSILON`) -/
def epsK : K := lit 1 4503599627370496

/-- nalgebra `Matrix::angle` with the arc-cosine as a parameter -/
def angleK (acos : K → K) (u v : V3 K) : K :=
  let prod := u.dot v
  let n1 := u.norm
  let n2 := v.norm
  if neq n1 0 || neq n2 0 then 0 else
    let cang := prod / (n1 * n2)
    acos (nclamp cang (-1) 1)

/-- `Triangle::normal()` + the three `angle`s of `compute_pseudo_normals` -/
def contribK (acos : K → K) (a b c : V3 K) : Option (V3 K × V3 K × V3 K × V3 K) :=
  let sn := (b.sub a).cross (c.sub a)
  let n := sn.norm
  if n ≤ epsK then none else
    let nrm := sn.sdiv n
    let ang1 := angleK acos (b.sub a) (c.sub a)
    let ang2 := angleK acos (a.sub b) (c.sub b)
    let ang3 := angleK acos (b.sub c) (a.sub c)
    some (nrm, nrm.smul ang1, nrm.smul ang2, nrm.smul ang3)

/-- the 3-D geometry of the Rust code -/
@[reducible] def geoK (acos : K → K) : Geo (V3 K) (V3 K) where
  veq p q := neq p.x q.x && neq p.y q.y && neq p.z q.z
  nzero := V3.zero
  nadd := V3.add
  nneg := V3.neg
  contrib := contribK acos

/-- `proj.is_inside = dpt.dot(&pseudo_normal) <= 0.0` -/
def insideBy (dpt pn : V3 K) : Bool := decide (dpt.dot pn ≤ 0)

/-- the weighted normals a vertex slot receives, as a list (same order as the `+=` of the program) -/
def cornerTerms {N : Type} (v : Nat) (tc : Tri × Option (N × N × N × N)) : List N :=
  match tc.2 with
  | none => []
  | some (_, w1, w2, w3) =>
    (if tc.1.a = v then [w1] else []) ++ (if tc.1.b = v then [w2] else []) ++ (if tc.1.c = v then [w3] else [])

/-- the face normals an edge entry receives, as a list (same order as the `+=` of the program) -/
def edgeTerms {N : Type} (key : Nat × Nat) (tc : Tri × Option (N × N × N × N)) : List N :=
  match tc.2 with
  | none => []
  | some (n, _, _, _) =>
    (if sortedPair tc.1.a tc.1.b = key then [n] else []) ++ (if sortedPair tc.1.a tc.1.c = key then [n] else [])
      ++ (if sortedPair tc.1.b tc.1.c = key then [n] else [])

/-! ### `TriMesh::triangle_normal_constraints` (FIX_INTERNAL_EDGES) -/

/-- nalgebra `Unit::try_new(v, min_norm)` (`try_new_and_get`): `sq_norm > min_norm * min_norm`, then every component is
divided by `sq_norm.sqrt()` -/
def tryUnit (v : V3 K) (minNorm : K) : Option (V3 K) :=
  let sq := v.normSq
  if sq > minNorm * minNorm then some (v.sdiv (Num.sqrt sq)) else none

/-- `TrianglePseudoNormals { face, edges }` -/
structure TriPN (K : Type) where
  face : V3 K
  e0 : V3 K
  e1 : V3 K
  e2 : V3 K

/-- result of `triangle_normal_constraints(i)`; `panic`: `self.indices[i]`, `self.vertices[..]` or
`edges_pseudo_normal[i]` is out of bounds -/
inductive TncRes (K : Type) where
  | panic
  | ret (r : Option (TriPN K))

/-- `TriMesh::triangle_normal_constraints(i)` (3-D), in program order: the flag test
(`flags.contains(FIX_INTERNAL_EDGES)`, i.e. bit 7 AND `MERGE_DUPLICATE_VERTICES`), `self.triangle(i)`, the cached
pseudo-normals (`?`), the entry of triangle `i`, then `triangle.normal()?` (`Unit::try_new(scaled_normal, f64::EPSILON)`)
and the three `Unit::try_new(edge pseudo-normal, 1.0e-6)?` -/
def triangleNormalConstraints (s : Mesh (V3 K) (V3 K)) (i : Nat) : TncRes K :=
  if s.flags.fix7 && s.flags.merge then
    match s.indices[i]? with
    | none => .panic
    | some t =>
      match triCoords s.vertices t with
      | none => .panic
      | some (a, b, c) =>
        match s.pn with
        | none => .ret none
        | some pn =>
          match pn.edges[i]? with
          | none => .panic
          | some e =>
            .ret (do
              let face ← tryUnit ((b.sub a).cross (c.sub a)) epsK
              let e0 ← tryUnit e.1 (lit 1 1000000)
              let e1 ← tryUnit e.2.1 (lit 1 1000000)
              let e2 ← tryUnit e.2.2 (lit 1 1000000)
              pure ⟨face, e0, e1, e2⟩)
  else .ret none

end PNK
end TM
end Model
