import ParryModel.Field
import ParryModel.C11.Lemmas
import ParryModel.C11.Theorems2
import ParryModel.C11.Theorems3
import ParryModel.C11.Theorems5
/-!
# C11, `scaled` after commit 1a6b99a (fu5): an ORIENTED mesh is outward-wound again after ANY non-degenerate scale

`TriMesh::scaled` now calls `self.reverse()` for 3-D `ORIENTED` meshes when the scale has an odd number of negative
factors.  The state-machine part (coherence of all derived data on both branches, the QBVH leaf boxes, no panic) is in
`Theorems2.lean`.  Here, over any ordered field and the concrete 3-D vertex type:

* `mirrorOf_iff` — the branch condition of the code (`count of negative factors is odd`) is `sx·sy·sz < 0` for a
  non-degenerate scale;
* `svol_scaled`, `svol_swap` — the signed volume of `(a, b, c, d)` is multiplied by `sx·sy·sz` by the scale and negated by
  the exchange of two corners;
* **`scaled_oriented_outward`** — the new clause: if every triangle `i` of an ORIENTED mesh has the witness point `d` on
  its negative side (outward winding, `d` inside), then triangle `i` of `scaled(mesh)` has `scale∘d` on its negative
  side, whatever the signs of the scale components;
* `scaled_keeps_indices_iff` — the index buffer is `[b, a, c]` exactly on the branch 3-D ∧ ORIENTED ∧ mirroring, and kept
  otherwise; `scaledKeep_inward_witness` — the rule before the commit (index buffer kept) turns the unit tetrahedron
  inside out under `(-1, 1, 1)`;
* `history2_coherent_real`, `history2_qcoherent_real` — C11's main statements for histories WITH `scaled` at the concrete
  3-D geometry (`geoK acos`, `Triangle::local_aabb`, `Aabb::scaled`): no geometric hypothesis left.
-/
namespace C11
open Model Model.TM

/-- signed volume (×6) of the tetrahedron `(a, b, c, d)`: negative iff `d` is on the negative side of the
counter-clockwise triangle `(a, b, c)`, i.e. behind its normal `(b - a) × (c - a)` -/
def svol {K : Type} [Num K] (c : V3 K × V3 K × V3 K) (d : V3 K) : K := ((c.2.1.sub c.1).cross (c.2.2.sub c.1)).dot (d.sub c.1)

/-- every triangle has `d` strictly on its negative side: the mesh is wound outwards as seen from `d` -/
def OutwardFrom {K : Type} [Num K] (cs : List (V3 K × V3 K × V3 K)) (d : V3 K) : Prop := ∀ c ∈ cs, svol c d < 0

section
variable {K : Type} [Field K] [LinearOrder K] [IsStrictOrderedRing K] (sq : K → K)

/-- `scale.iter().filter(|s| **s < 0.0).count() % 2 == 1` is `sx·sy·sz < 0` when no factor is zero -/
theorem mirrorOf_iff (x y z : K) (hx : x ≠ 0) (hy : y ≠ 0) (hz : z ≠ 0) :
    letI := fieldNum K sq
    (mirrorOf [x, y, z] = true ↔ x * y * z < 0) ∧ (mirrorOf [x, y, z] = false ↔ 0 < x * y * z) := by
  letI := fieldNum K sq
  rcases lt_or_gt_of_ne hx with hx' | hx' <;> rcases lt_or_gt_of_ne hy with hy' | hy' <;> rcases lt_or_gt_of_ne hz with hz' | hz'
  · have : x * y * z < 0 := mul_neg_of_pos_of_neg (mul_pos_of_neg_of_neg hx' hy') hz'
    simp [mirrorOf, List.filter, hx', hy', hz', this, not_lt.mpr this.le]
  · have : 0 < x * y * z := mul_pos (mul_pos_of_neg_of_neg hx' hy') hz'
    simp [mirrorOf, List.filter, hx', hy', not_lt.mpr hz'.le, this, not_lt.mpr this.le]
  · have : 0 < x * y * z := mul_pos_of_neg_of_neg (mul_neg_of_neg_of_pos hx' hy') hz'
    simp [mirrorOf, List.filter, hx', hz', not_lt.mpr hy'.le, this, not_lt.mpr this.le]
  · have : x * y * z < 0 := mul_neg_of_neg_of_pos (mul_neg_of_neg_of_pos hx' hy') hz'
    simp [mirrorOf, List.filter, hx', not_lt.mpr hy'.le, not_lt.mpr hz'.le, this, not_lt.mpr this.le]
  · have : 0 < x * y * z := mul_pos_of_neg_of_neg (mul_neg_of_pos_of_neg hx' hy') hz'
    simp [mirrorOf, List.filter, hy', hz', not_lt.mpr hx'.le, this, not_lt.mpr this.le]
  · have : x * y * z < 0 := mul_neg_of_neg_of_pos (mul_neg_of_pos_of_neg hx' hy') hz'
    simp [mirrorOf, List.filter, hy', not_lt.mpr hx'.le, not_lt.mpr hz'.le, this, not_lt.mpr this.le]
  · have : x * y * z < 0 := mul_neg_of_pos_of_neg (mul_pos hx' hy') hz'
    simp [mirrorOf, List.filter, hz', not_lt.mpr hx'.le, not_lt.mpr hy'.le, this, not_lt.mpr this.le]
  · have : 0 < x * y * z := mul_pos (mul_pos hx' hy') hz'
    simp [mirrorOf, List.filter, not_lt.mpr hx'.le, not_lt.mpr hy'.le, not_lt.mpr hz'.le, this, not_lt.mpr this.le]

/-- the scale multiplies the signed volume by its determinant -/
theorem svol_scaled (s : V3 K) (c : V3 K × V3 K × V3 K) (d : V3 K) :
    letI := fieldNum K sq
    svol (mapTri (scalePt3 s) c) (scalePt3 s d) = s.x * s.y * s.z * svol c d := by
  simp only [svol, mapTri, scalePt3, V3.cmul, V3.sub, V3.cross, V3.dot]
  ring

/-- exchanging the first two corners (`TriMesh::reverse`) negates the signed volume -/
theorem svol_swap (c : V3 K × V3 K × V3 K) (d : V3 K) :
    letI := fieldNum K sq
    svol (swapC c) d = - svol c d := by
  simp only [svol, swapC, V3.sub, V3.cross, V3.dot]
  ring

/-- **the index buffer after `scaled`**: reversed exactly on the branch 3-D ∧ ORIENTED ∧ mirroring scale -/
theorem scaled_keeps_indices_iff {V N : Type} [Geo V N] (dim3 mirror : Bool) (fV : V → V) (s s' : Mesh V N)
    (h : scaled dim3 mirror fV s = some s') :
    (dim3 = true ∧ s.flags.oriented = true ∧ mirror = true → s'.indices = revIdx s.indices) ∧
    (¬ (dim3 = true ∧ s.flags.oriented = true ∧ mirror = true) → s'.indices = s.indices) := by
  obtain ⟨_, ei, _⟩ := scaled_spec h
  unfold rewinds at ei
  constructor
  · rintro ⟨a, b, c⟩; rw [ei]; simp [a, b, c]
  · intro hn; rw [ei]
    have : (dim3 && s.flags.oriented && mirror) = false := by
      by_contra hc
      simp only [Bool.not_eq_false, Bool.and_eq_true] at hc
      exact hn ⟨hc.1.1, hc.1.2, hc.2⟩
    simp [this]

/-- **an ORIENTED mesh is outward-wound again after `scaled`, for every non-degenerate scale of any sign** (the clause
added by commit 1a6b99a): if every triangle of the mesh has `d` on its negative side, then every triangle of the scaled
mesh — read from the buffers of the result: scaled vertices, index buffer reversed when the scale mirrors — has `scale∘d`
on its negative side.  (`d` = any point the faces are seen from behind, e.g. an interior point of a star-shaped solid;
applied face by face it is the statement for any closed outward-wound mesh.) -/
theorem scaled_oriented_outward {N : Type} [G : Geo (V3 K) N] (sc : V3 K) (hx : sc.x ≠ 0) (hy : sc.y ≠ 0) (hz : sc.z ≠ 0)
    (s s' : Mesh (V3 K) N) (ho : s.flags.oriented = true) (cur : List (V3 K × V3 K × V3 K)) (d : V3 K) :
    letI := fieldNum K sq
    scaled true (mirrorOf [sc.x, sc.y, sc.z]) (scalePt3 sc) s = some s' →
    allCoords s.vertices s.indices = some cur → OutwardFrom cur d →
    ∃ cur', allCoords s'.vertices s'.indices = some cur' ∧ cur'.length = cur.length ∧ OutwardFrom cur' (scalePt3 sc d) := by
  letI := fieldNum K sq
  intro h hcur hout
  obtain ⟨ev, ei, _⟩ := scaled_spec h
  obtain ⟨hm, hn⟩ := mirrorOf_iff sq sc.x sc.y sc.z hx hy hz
  have hrw : rewinds true (mirrorOf [sc.x, sc.y, sc.z]) s.flags = mirrorOf [sc.x, sc.y, sc.z] := by
    simp [rewinds, ho]
  rw [hrw] at ei
  refine ⟨_, by rw [ev, ei]; exact allCoords_scaledIdx (scalePt3 sc) _ _ _ cur hcur, ?_, ?_⟩
  · cases mirrorOf [sc.x, sc.y, sc.z] <;> simp
  · intro c' hc'
    cases hmir : mirrorOf [sc.x, sc.y, sc.z] with
    | true =>
      rw [hmir] at hc'
      simp only [if_true, List.map_map, List.mem_map, Function.comp] at hc'
      obtain ⟨c, hc, rfl⟩ := hc'
      rw [svol_scaled, svol_swap]
      have h1 := hout c hc
      have h2 := hm.mp hmir
      nlinarith [mul_pos_of_neg_of_neg h2 h1]
    | false =>
      rw [hmir] at hc'
      simp only [Bool.false_eq_true, if_false, List.mem_map] at hc'
      obtain ⟨c, hc, rfl⟩ := hc'
      rw [svol_scaled]
      exact mul_neg_of_pos_of_neg (hn.mp hmir) (hout c hc)

end

/-! ### witnesses over `ℚ` -/

/-- non-vacuity of `scaled_oriented_outward` and refutation of the rule before the commit: the unit tetrahedron
(ORIENTED, wound outwards as seen from the interior point `(1/4, 1/4, 1/4)`) under the mirroring scale `(-1, 2, 1/2)`:
`scaled` reverses the index buffer and the mesh is outward again as seen from the image of the point, while with the index
buffer kept (`scaledKeep`) every face has that point on its POSITIVE side — the mesh is inside out. -/
theorem scaledKeep_inward_witness :
    letI := fieldNum ℚ id
    letI : Geo (V3 ℚ) (V3 ℚ) := geoK (fun _ => 1)
    let vs : List (V3 ℚ) := [⟨0, 0, 0⟩, ⟨1, 0, 0⟩, ⟨0, 1, 0⟩, ⟨0, 0, 1⟩]
    let idx : List Tri := [⟨0, 2, 1⟩, ⟨0, 1, 3⟩, ⟨0, 3, 2⟩, ⟨1, 2, 3⟩]
    let s0 : Mesh (V3 ℚ) (V3 ℚ) := { (blank vs idx : Mesh (V3 ℚ) (V3 ℚ)) with flags := Flags.ofNat 8 }
    let sc : V3 ℚ := ⟨-1, 2, 1/2⟩
    let d : V3 ℚ := ⟨1/4, 1/4, 1/4⟩
    mirrorOf [sc.x, sc.y, sc.z] = true ∧
    (∀ cur, allCoords vs idx = some cur → OutwardFrom cur d) ∧
    (∀ s', scaled true true (scalePt3 sc) s0 = some s' → s'.indices = revIdx idx ∧
      ∀ cur', allCoords s'.vertices s'.indices = some cur' → OutwardFrom cur' (scalePt3 sc d)) ∧
    (∀ s', scaledKeep true (scalePt3 sc) s0 = some s' → s'.indices = idx ∧
      ∀ cur', allCoords s'.vertices s'.indices = some cur' → ∀ c ∈ cur', 0 < svol c (scalePt3 sc d)) := by
  letI := fieldNum ℚ id
  letI : Geo (V3 ℚ) (V3 ℚ) := geoK (fun _ => 1)
  refine ⟨(mirrorOf_iff id (-1 : ℚ) 2 (1/2) (by norm_num) (by norm_num) (by norm_num)).1.mpr (by norm_num), ?_, ?_, ?_⟩
  · intro cur h
    simp only [allCoords, triCoords, List.getElem?_cons_zero, List.getElem?_cons_succ, Option.some.injEq] at h
    subst h
    intro c hc
    simp only [List.mem_cons, List.not_mem_nil, or_false] at hc
    rcases hc with rfl | rfl | rfl | rfl <;> simp only [svol, V3.sub, V3.cross, V3.dot] <;> norm_num
  · intro s' h
    obtain ⟨ev, ei, _⟩ := scaled_spec h
    have hr : rewinds true true (Flags.ofNat 8) = true := by decide
    simp only [blank, hr, if_true] at ev ei
    refine ⟨ei, ?_⟩
    intro cur' h'
    rw [ev, ei] at h'
    simp only [revIdx, List.map, scalePt3, V3.cmul, allCoords, triCoords, List.getElem?_cons_zero, List.getElem?_cons_succ,
      Option.some.injEq] at h'
    subst h'
    intro c hc
    simp only [List.mem_cons, List.not_mem_nil, or_false] at hc
    rcases hc with rfl | rfl | rfl | rfl <;> simp only [svol, scalePt3, V3.cmul, V3.sub, V3.cross, V3.dot] <;> norm_num
  · intro s' h
    unfold scaledKeep at h
    simp only [blank, Option.isSome_none, Bool.and_false, Bool.false_eq_true, if_false, Option.some.injEq] at h
    subst h
    refine ⟨rfl, ?_⟩
    intro cur' h'
    simp only [List.map, scalePt3, V3.cmul, allCoords, triCoords, List.getElem?_cons_zero, List.getElem?_cons_succ,
      Option.some.injEq] at h'
    subst h'
    intro c hc
    simp only [List.mem_cons, List.not_mem_nil, or_false] at hc
    rcases hc with rfl | rfl | rfl | rfl <;> simp only [svol, scalePt3, V3.cmul, V3.sub, V3.cross, V3.dot] <;> norm_num

/-! ### C11's main statements with `scaled`, at the concrete 3-D geometry -/

/-- the steps of a concrete 3-D history: isometries have a unit quaternion, `scaled` steps are a component-wise product
with a scale vector, the mirror bit being the one the code computes from that vector -/
def RealOp {K : Type} [Num K] : Op2 (V3 K) (V3 K) → Prop
  | .base (.transform fV fN) => ∃ m : Iso3 K,
      m.qi * m.qi + m.qj * m.qj + m.qk * m.qk + m.qw * m.qw = 1 ∧ fV = m.act ∧ fN = m.rot
  | .scale fV _ mirror => ∃ sc : V3 K, fV = scalePt3 sc ∧ mirror = mirrorOf [sc.x, sc.y, sc.z]
  | _ => True

section RealGeometry
variable {K : Type} [Field K] [LinearOrder K] [IsStrictOrderedRing K] (sq : K → K)

/-- `Triangle::local_aabb` respects the vertex equality used by `merge_duplicate_vertices` (`==` on every coordinate) and
does not depend on the order of the corners: the hypothesis `BoxLaws` of the QBVH theorems holds for the real box -/
theorem triBox3_boxLaws (acos : K → K) :
    letI := fieldNum K sq
    @BoxLaws (V3 K) (V3 K) (geoK acos) _ triBox3 := by
  letI := fieldNum K sq
  have veq_eq : ∀ p q : V3 K, @Geo.veq (V3 K) (V3 K) (geoK acos) p q = true → p = q := by
    intro p q h
    have h' : (neq p.x q.x && neq p.y q.y && neq p.z q.z) = true := h
    simp only [neq, Bool.and_eq_true, decide_eq_true_eq] at h'
    obtain ⟨⟨⟨a1, a2⟩, b1, b2⟩, c1, c2⟩ := h'
    cases p; cases q
    simp only [V3.mk.injEq]
    exact ⟨le_antisymm a1 a2, le_antisymm b1 b2, le_antisymm c1 c2⟩
  refine @BoxLaws.mk (V3 K) (V3 K) (geoK acos) _ triBox3 ?_ ?_ ?_ ?_
  · intro p q b c h; rw [veq_eq p q h]
  · intro p q a c h; rw [veq_eq p q h]
  · intro p q a b h; rw [veq_eq p q h]
  · intro a b c
    simp only [triBox3, V3.inf, V3.sup, fieldNum_nmin, fieldNum_nmax, Prod.mk.injEq, V3.mk.injEq]
    refine ⟨⟨?_, ?_, ?_⟩, ⟨?_, ?_, ?_⟩⟩ <;>
      first | (congr 1; exact min_comm _ _) | (congr 1; exact max_comm _ _)

/-- **C11 with `scaled`, concrete 3-D geometry**: after `with_flags` and any finite sequence of `set_flags`, `reverse`,
`append`, `transform_vertices` (unit quaternion) and `scaled` (ANY scale vector, any signs, zero factors included), the
topology, connected components and pseudo-normals are those of the current buffers and flags — `Triangle::normal()` and
`Matrix::angle` as written, any `acos`, any square-root function -/
theorem history2_coherent_real (acos : K → K) (vs : List (V3 K)) (idx : List Tri) (f : Flags)
    (ops : List (Op2 (V3 K) (V3 K))) :
    letI := fieldNum K sq
    letI := geoK acos
    (∀ op ∈ ops, RealOp op) →
    ∀ s0 s : Mesh (V3 K) (V3 K), withFlags true vs idx f = .ok s0 → run2 true s0 ops = some s → Coherent true s := by
  letI := fieldNum K sq
  letI := geoK acos
  intro hops s0 s h0 h
  refine history2_coherent true (fun _ => geoK_lawful sq acos) vs idx f ops ?_ s0 s h0 h
  intro op hop
  have := hops op hop
  cases op with
  | scale fV fN mirror => trivial
  | base op =>
    cases op with
    | transform fV fN =>
      obtain ⟨m, hq, rfl, rfl⟩ := this
      exact geoK_isometry_laws sq acos m hq
    | _ => trivial

/-- **QBVH part, concrete 3-D geometry**: along any such history the QBVH holds, leaf for leaf, `Triangle::local_aabb` of
the current triangles — `Qbvh::scaled` applying `Aabb::scaled` to the stored boxes, the `reverse()` inside `scaled`
leaving the tree alone -/
theorem history2_qcoherent_real (acos : K → K) (vs : List (V3 K)) (idx : List Tri) (f : Flags)
    (ops : List (Op2 (V3 K) (V3 K))) :
    letI := fieldNum K sq
    letI := geoK acos
    (∀ op ∈ ops, RealOp op) →
    ∀ s0 s : Mesh (V3 K) (V3 K), withFlags true vs idx f = .ok s0 → run2 true s0 ops = some s → QCoherent triBox3 s := by
  letI := fieldNum K sq
  letI := geoK acos
  intro hops s0 s h0 h
  refine history2_qcoherent triBox3 (triBox3_boxLaws sq acos) true vs idx f ops ?_ s0 s h0 h
  intro op hop
  have := hops op hop
  cases op with
  | scale fV fN mirror =>
    obtain ⟨sc, rfl, _⟩ := this
    exact ⟨fun b => aabbScaled3 b sc, scaleBoxLaw3 sq sc⟩
  | base op => trivial

end RealGeometry

end C11
