import ParryModel.Field
import ParryModel.C11.Lemmas
import ParryModel.C11.PseudoNormals
/-!
# C11, pseudo-normals: what `compute_pseudo_normals` stores and what its sign says

* **Closed form, any geometry.**  `vertices_pseudo_normal[v]` is the sum, in program order, of the angle-weighted normals
  of the corners that sit on vertex `v` (`vertexAcc_eq_sum`); the entry of an edge is the sum of the normals of the
  triangles that have that edge, once per occurrence (`edgeAcc_eq_sum`); with a commutative sum (exact arithmetic) both
  are independent of the order of the triangles in the index buffer (`vertexAcc_perm`, `edgeAcc_perm`).
* **The concrete 3-D geometry is lawful.**  `geoK acos` (the `Triangle::normal()` / `Matrix::angle` transliteration of
  `PseudoNormals.lean`) over any ordered field and for **every** function `acos` satisfies `LawfulGeo` (`geoK_lawful`:
  exchanging two vertices negates the normal and exchanges the two angle weights) and `TransformLaws` for translations
  (`geoK_translate_laws`): the hypotheses of `history_coherent` / `pseudoNormals_reverse` / `transformVertices_coherent`
  are theorems for the real formulas, not assumptions.
* **Sign (Baerentzen–Aanaes), partial.**  With non-negative angle weights: if the query point is on the outer side of the
  planes of all faces around a vertex (one of them strictly, with a positive weight) the test `dpt.dot(pn) <= 0` answers
  "outside"; if it is on the inner side of all of them it answers "inside" (`vertex_sign_partial`).  Edges, complete in
  the cross-section orthogonal to the edge: for the sum `n1 + n2` of the two unit face normals and a point whose
  closest point is on the edge, the test answers "inside" exactly when the point is in the solid wedge — both for a convex
  and for a reflex edge (`edge_sign_section`).  GAP (`vertex_sign_full`, not proved): a vertex whose faces are seen from
  different sides (the spherical-projection argument of the paper is not formalised), and the reduction of the 3-D edge
  statement to its cross-section.
-/
namespace C11
open Model Model.TM
set_option linter.style.haveILetI false
set_option linter.unusedSimpArgs false

/-! ## closed forms, any geometry -/
section Closed
variable {V N : Type} [Geo V N]

private theorem vertexStep_eq (v : Nat) (acc : N) (tc : Tri × Option (N × N × N × N)) :
    vertexStep (V := V) v acc tc = (cornerTerms v tc).foldl (Geo.nadd V) acc := by
  unfold vertexStep cornerTerms
  rcases tc with ⟨t, _ | ⟨n, w1, w2, w3⟩⟩
  · rfl
  · simp only
    split_ifs <;> simp

/-- `vertices_pseudo_normal[v]` = zero plus the weighted normals of the corners on `v`, in program order -/
theorem vertexAcc_eq_sum (cs : List (Tri × Option (N × N × N × N))) (v : Nat) :
    vertexAcc (V := V) cs v = (cs.flatMap (cornerTerms v)).foldl (Geo.nadd V) (Geo.nzero V) := by
  unfold vertexAcc
  rw [List.foldl_flatMap]
  congr 1
  funext acc tc
  exact vertexStep_eq v acc tc

private theorem edgeStep_eq (key : Nat × Nat) (acc : Option N) (tc : Tri × Option (N × N × N × N)) :
    (edgeStep (V := V) key acc tc).getD (Geo.nzero V) = (edgeTerms key tc).foldl (Geo.nadd V) (acc.getD (Geo.nzero V)) := by
  unfold edgeStep edgeTerms edgeAdd
  rcases tc with ⟨t, _ | ⟨n, w1, w2, w3⟩⟩
  · rfl
  · simp only
    split_ifs <;> simp

/-- the entry of an edge = zero plus the normals of the triangles that contain the edge, in program order -/
theorem edgeAcc_eq_sum (cs : List (Tri × Option (N × N × N × N))) (key : Nat × Nat) :
    (edgeAcc (V := V) cs key).getD (Geo.nzero V) = (cs.flatMap (edgeTerms key)).foldl (Geo.nadd V) (Geo.nzero V) := by
  unfold edgeAcc
  rw [List.foldl_flatMap]
  have : ∀ (l : List (Tri × Option (N × N × N × N))) (acc : Option N),
      (l.foldl (edgeStep (V := V) key) acc).getD (Geo.nzero V)
        = l.foldl (fun a tc => (edgeTerms key tc).foldl (Geo.nadd V) a) (acc.getD (Geo.nzero V)) := by
    intro l
    induction l with
    | nil => intro acc; rfl
    | cons x xs ih =>
      intro acc
      rw [List.foldl_cons, List.foldl_cons, ih, edgeStep_eq]
  exact this cs none

/-- with a commutative sum the vertex pseudo-normal does not depend on the order of the triangles -/
theorem vertexAcc_perm [LawfulGeo V N] (cs cs' : List (Tri × Option (N × N × N × N))) (h : cs.Perm cs') (v : Nat) :
    vertexAcc (V := V) cs v = vertexAcc (V := V) cs' v := by
  rw [vertexAcc_eq_sum, vertexAcc_eq_sum]
  exact List.Perm.foldl_eq' (h.flatMap_right _) (fun x _ y _ z => LawfulGeo.add_right_comm z x y) _

/-- the same for the edge entries -/
theorem edgeAcc_perm [LawfulGeo V N] (cs cs' : List (Tri × Option (N × N × N × N))) (h : cs.Perm cs') (key : Nat × Nat) :
    (edgeAcc (V := V) cs key).getD (Geo.nzero V) = (edgeAcc (V := V) cs' key).getD (Geo.nzero V) := by
  rw [edgeAcc_eq_sum, edgeAcc_eq_sum]
  exact List.Perm.foldl_eq' (h.flatMap_right _) (fun x _ y _ z => LawfulGeo.add_right_comm z x y) _

end Closed

/-! ## the concrete geometry over an ordered field -/
section FieldGeo
variable {K : Type} [Field K] [LinearOrder K] [IsStrictOrderedRing K] (sq : K → K)

private theorem dot_comm3 (u v : V3 K) : letI := fieldNum K sq; u.dot v = v.dot u := by
  simp only [V3.dot]; ring

/-- `Matrix::angle` is symmetric (exact arithmetic), whatever `acos` is -/
theorem angleK_comm (acos : K → K) (u v : V3 K) :
    letI := fieldNum K sq
    angleK acos u v = angleK acos v u := by
  simp only [angleK]
  rw [dot_comm3 sq u v, Bool.or_comm, mul_comm]

private theorem cross_swap (a b c : V3 K) :
    letI := fieldNum K sq
    (a.sub b).cross (c.sub b) = ((b.sub a).cross (c.sub a)).neg := by
  simp only [V3.cross, V3.sub, V3.neg, V3.mk.injEq]
  refine ⟨by ring, by ring, by ring⟩

private theorem norm_neg (u : V3 K) : letI := fieldNum K sq; u.neg.norm = u.norm := by
  simp only [V3.norm, V3.normSq, V3.dot, V3.neg]
  congr 1; ring

/-- **the real formulas satisfy the laws `reverse` needs**: `+` commutes, negation is additive, and exchanging the first
two vertices of a triangle negates `Triangle::normal()` and exchanges the angle weights of those two vertices — for every
`acos`, every square-root function and every ordered field. -/
theorem geoK_lawful (acos : K → K) :
    letI := fieldNum K sq
    @LawfulGeo (V3 K) (V3 K) (geoK acos) := by
  letI := fieldNum K sq
  refine @LawfulGeo.mk (V3 K) (V3 K) (geoK acos) ?_ ?_ ?_ ?_
  · intro x y z
    show V3.add (V3.add x y) z = V3.add (V3.add x z) y
    simp only [V3.add, V3.mk.injEq]
    refine ⟨by ring, by ring, by ring⟩
  · intro x y
    show V3.neg (V3.add x y) = V3.add (V3.neg x) (V3.neg y)
    simp only [V3.add, V3.neg, V3.mk.injEq]
    refine ⟨by ring, by ring, by ring⟩
  · show V3.neg (V3.zero : V3 K) = V3.zero
    simp only [V3.neg, V3.zero, V3.mk.injEq]
    refine ⟨by ring, by ring, by ring⟩
  · intro a b c
    show contribK acos b a c = (contribK acos a b c).map _
    simp only [contribK]
    rw [cross_swap sq a b c, norm_neg sq, angleK_comm sq acos (a.sub c) (b.sub c)]
    split_ifs
    · rfl
    · simp only [Option.map_some, Option.some.injEq, Prod.mk.injEq]
      refine ⟨?_, ?_, ?_, ?_⟩ <;>
        (show _ = V3.neg _
         simp only [V3.sdiv, V3.smul, V3.neg, V3.mk.injEq]
         refine ⟨by ring, by ring, by ring⟩)

/-- a translation of the vertices leaves every pseudo-normal contribution unchanged: `TransformLaws` holds for the real
formulas with the identity on normals -/
theorem geoK_translate_laws (acos : K → K) (t : V3 K) :
    letI := fieldNum K sq
    @TransformLaws (V3 K) (V3 K) (geoK acos) (fun p => p.add t) id := by
  letI := fieldNum K sq
  have hsub : ∀ p q : V3 K, (p.add t).sub (q.add t) = p.sub q := by
    intro p q
    simp only [V3.add, V3.sub, V3.mk.injEq]
    refine ⟨by ring, by ring, by ring⟩
  refine @TransformLaws.mk (V3 K) (V3 K) (geoK acos) _ _ rfl (fun _ _ => rfl) ?_
  intro a b c
  show contribK acos (a.add t) (b.add t) (c.add t) = (contribK acos a b c).map _
  simp only [contribK, hsub]
  split_ifs <;> rfl

/-! ## sign of the pseudo-normal test -/

private theorem foldl_add_dot (l : List (V3 K)) (z d : V3 K) :
    letI := fieldNum K sq
    (l.foldl V3.add z).dot d = z.dot d + (l.map fun w => w.dot d).sum := by
  letI := fieldNum K sq
  induction l generalizing z with
  | nil => simp
  | cons x xs ih =>
    rw [List.foldl_cons, ih, List.map_cons, List.sum_cons]
    simp only [V3.add, V3.dot]
    ring

private theorem sum_nonneg' (l : List K) (h : ∀ x ∈ l, 0 ≤ x) : 0 ≤ l.sum := by
  induction l with
  | nil => simp
  | cons x xs ih =>
    rw [List.sum_cons]
    exact add_nonneg (h x (List.mem_cons_self ..)) (ih fun y hy => h y (List.mem_cons_of_mem _ hy))

private theorem sum_pos' (l : List K) (h : ∀ x ∈ l, 0 ≤ x) (hs : ∃ x ∈ l, 0 < x) : 0 < l.sum := by
  induction l with
  | nil => obtain ⟨x, hx, _⟩ := hs; cases hx
  | cons x xs ih =>
    rw [List.sum_cons]
    obtain ⟨y, hy, hy0⟩ := hs
    have hxs := sum_nonneg' xs fun y hy => h y (List.mem_cons_of_mem _ hy)
    rcases List.mem_cons.mp hy with rfl | hy'
    · exact add_pos_of_pos_of_nonneg hy0 hxs
    · exact add_pos_of_nonneg_of_pos (h x (List.mem_cons_self ..))
        (ih (fun y hy => h y (List.mem_cons_of_mem _ hy)) ⟨y, hy', hy0⟩)

/-- sign of `pn · d` for a pseudo-normal that is a sum of terms all seen from the same side -/
theorem sum_sign (l : List (V3 K)) (d : V3 K) :
    letI := fieldNum K sq
    ((∀ w ∈ l, 0 ≤ w.dot d) → 0 ≤ (l.foldl V3.add V3.zero).dot d) ∧
    ((∀ w ∈ l, 0 ≤ w.dot d) → (∃ w ∈ l, 0 < w.dot d) → 0 < (l.foldl V3.add V3.zero).dot d) ∧
    ((∀ w ∈ l, w.dot d ≤ 0) → (l.foldl V3.add V3.zero).dot d ≤ 0) := by
  letI := fieldNum K sq
  have hz : (V3.zero : V3 K).dot d = 0 := by simp only [V3.zero, V3.dot]; ring
  refine ⟨?_, ?_, ?_⟩
  · intro h
    rw [foldl_add_dot, hz, zero_add]
    exact sum_nonneg' _ (by simpa using h)
  · intro h ⟨w, hw, hw0⟩
    rw [foldl_add_dot, hz, zero_add]
    exact sum_pos' _ (by simpa using h) ⟨w.dot d, List.mem_map.mpr ⟨w, hw, rfl⟩, hw0⟩
  · intro h
    rw [foldl_add_dot, hz, zero_add]
    have := sum_nonneg' (l.map fun w => -(w.dot d)) (by
      intro x hx
      obtain ⟨w, hw, rfl⟩ := List.mem_map.mp hx
      exact neg_nonneg.mpr (h w hw))
    have e : (l.map fun w => -(w.dot d)).sum = -(l.map fun w => w.dot d).sum := by
      clear this h
      induction l with
      | nil => simp
      | cons x xs ih => simp only [List.map_cons, List.sum_cons, ih]; ring
    rw [e] at this
    exact neg_nonneg.mp this

/-- the angle weights are non-negative when `acos` is -/
theorem angleK_nonneg (acos : K → K) (hac : ∀ x, 0 ≤ acos x) (u v : V3 K) :
    letI := fieldNum K sq
    0 ≤ angleK acos u v := by
  simp only [angleK]
  split_ifs
  · exact le_refl _
  · exact hac _

/-- what `contribK` returns: a normal `n` and `n * ang_i` with `ang_i >= 0` -/
theorem contribK_weights (acos : K → K) (hac : ∀ x, 0 ≤ acos x) (a b c n w1 w2 w3 : V3 K) :
    letI := fieldNum K sq
    contribK acos a b c = some (n, w1, w2, w3) →
      ∃ α1 α2 α3 : K, 0 ≤ α1 ∧ 0 ≤ α2 ∧ 0 ≤ α3 ∧ w1 = n.smul α1 ∧ w2 = n.smul α2 ∧ w3 = n.smul α3 := by
  letI := fieldNum K sq
  intro h
  simp only [contribK] at h
  split_ifs at h
  simp only [Option.some.injEq, Prod.mk.injEq] at h
  obtain ⟨rfl, rfl, rfl, rfl⟩ := h
  exact ⟨_, _, _, angleK_nonneg sq acos hac _ _, angleK_nonneg sq acos hac _ _, angleK_nonneg sq acos hac _ _, rfl, rfl, rfl⟩

/-- the full Baerentzen–Aanaes statement for a vertex (NOT proved): whenever the closest point of the mesh to `p` is the
vertex, the sign of `(p - vertex) · pn` tells on which side of a closed oriented mesh `p` is, also when the faces around
the vertex are seen from different sides.  `Outside` is left abstract: stating it needs the solid bounded by the mesh. -/
def vertex_sign_full : Prop :=
  ∀ (Outside : List (V3 K) → List Tri → V3 K → Prop) (Closest : List (V3 K) → List Tri → V3 K → Nat → Prop),
    ∀ (acos : K → K) (vs : List (V3 K)) (idx : List Tri) (p : V3 K) (v : Nat) (pv : V3 K) (pn : PN (V3 K)) (nv : V3 K),
      letI := fieldNum K sq
      letI := geoK acos
      Closest vs idx p v → vs[v]? = some pv → computePN vs idx = some pn → pn.vertices[v]? = some nv →
        (insideBy (p.sub pv) nv = false ↔ Outside vs idx p)

/-- **vertex pseudo-normal, same-side case.**  `d = point - vertex`.  The slot of vertex `v` after
`compute_pseudo_normals` (`vertexAcc`, real formulas, any non-negative `acos`):
* if every corner on `v` belongs to a face seen from outside or edge-on (`n · d >= 0`) the test does not answer "inside"
  unless `pn · d = 0`, and answers "outside" as soon as one such corner has `w · d > 0` (positive weight, face seen
  strictly from outside);
* if every corner on `v` belongs to a face seen from inside or edge-on (`n · d <= 0`) the test answers "inside".
Gap: faces seen from different sides (`vertex_sign_full`). -/
theorem vertex_sign_partial (acos : K → K) (cs : List (Tri × Option (V3 K × V3 K × V3 K × V3 K))) (v : Nat) (d : V3 K) :
    letI := fieldNum K sq
    letI := geoK acos
    ((∀ w ∈ cs.flatMap (cornerTerms v), 0 ≤ w.dot d) → (∃ w ∈ cs.flatMap (cornerTerms v), 0 < w.dot d) →
        insideBy d (vertexAcc (V := V3 K) cs v) = false) ∧
    ((∀ w ∈ cs.flatMap (cornerTerms v), w.dot d ≤ 0) → insideBy d (vertexAcc (V := V3 K) cs v) = true) := by
  letI := fieldNum K sq
  letI := geoK acos
  have hs := sum_sign sq (cs.flatMap (cornerTerms v)) d
  have e : vertexAcc (V := V3 K) cs v = (cs.flatMap (cornerTerms v)).foldl V3.add V3.zero := vertexAcc_eq_sum cs v
  constructor
  · intro h1 h2
    have := hs.2.1 h1 h2
    simp only [insideBy, e, decide_eq_false_iff_not, not_le]
    rw [dot_comm3 sq]; exact this
  · intro h1
    have := hs.2.2 h1
    simp only [insideBy, e, decide_eq_true_eq]
    rw [dot_comm3 sq]; exact this

/-- the side of a corner term is the side of its face normal: `(n * ang) · d = ang * (n · d)` -/
theorem smul_dot (n d : V3 K) (α : K) : letI := fieldNum K sq; (n.smul α).dot d = α * n.dot d := by
  simp only [V3.smul, V3.dot]; ring

/-- edge entry, same-side case (3-D, any number of incident faces) -/
theorem edge_sign_same_side (acos : K → K) (cs : List (Tri × Option (V3 K × V3 K × V3 K × V3 K))) (key : Nat × Nat) (d : V3 K) :
    letI := fieldNum K sq
    letI := geoK acos
    ((∀ n ∈ cs.flatMap (edgeTerms key), 0 ≤ n.dot d) → (∃ n ∈ cs.flatMap (edgeTerms key), 0 < n.dot d) →
        insideBy d ((edgeAcc (V := V3 K) cs key).getD V3.zero) = false) ∧
    ((∀ n ∈ cs.flatMap (edgeTerms key), n.dot d ≤ 0) → insideBy d ((edgeAcc (V := V3 K) cs key).getD V3.zero) = true) := by
  letI := fieldNum K sq
  letI := geoK acos
  have hs := sum_sign sq (cs.flatMap (edgeTerms key)) d
  have e : (edgeAcc (V := V3 K) cs key).getD V3.zero = (cs.flatMap (edgeTerms key)).foldl V3.add V3.zero :=
    edgeAcc_eq_sum cs key
  constructor
  · intro h1 h2
    have := hs.2.1 h1 h2
    simp only [insideBy, e, decide_eq_false_iff_not, not_le]
    rw [dot_comm3 sq]; exact this
  · intro h1
    have := hs.2.2 h1
    simp only [insideBy, e, decide_eq_true_eq]
    rw [dot_comm3 sq]; exact this

/-! ### edges, complete in the cross-section -/

private theorem wedge_key (p q r1 r2 s cc : K) (hp : p = cc * q + s * r2) (hq : q = cc * p + s * r1) :
    (p + q) * (1 - cc) = s * (r1 + r2) := by
  linear_combination (1 : K) * hp + (1 : K) * hq

private theorem cc_lt_one (s cc : K) (h : cc * cc + s * s = 1) (hs : s ≠ 0) : cc < 1 := by
  have : 0 < s * s := mul_self_pos.mpr hs
  nlinarith [sq_nonneg (cc - 1)]

/-- **edge pseudo-normal, both kinds of edge**, in the plane orthogonal to the edge (where the query point lies when its
closest point is interior to the edge).  `n1`, `n2`: unit outward normals of the two faces; face 1 leaves the edge in the
direction `t1 = (n1.y, -n1.x)`, face 2 in the direction `t2 = (-n2.y, n2.x)` (consistent orientation); `d = point -
closest point` with `d · t1 <= 0`, `d · t2 <= 0` (no point of either face is closer).  Then `d · (n1 + n2) <= 0` — the
test of `project_local_point_and_get_location` with `edges_pseudo_normal` — holds
* for a convex edge (`t2 · n1 < 0`) iff `d` is in the solid wedge `{n1 · x <= 0 and n2 · x <= 0}` (only `d = 0` there);
* for a reflex edge (`t2 · n1 > 0`) iff `d` is in the solid wedge `{n1 · x <= 0 or n2 · x <= 0}` (always). -/
theorem edge_sign_section (n1 n2 d : V2 K) :
    letI := fieldNum K sq
    n1.dot n1 = 1 → n2.dot n2 = 1 →
    d.dot ⟨n1.y, -n1.x⟩ ≤ 0 → d.dot ⟨-n2.y, n2.x⟩ ≤ 0 →
    ((⟨-n2.y, n2.x⟩ : V2 K).dot n1 < 0 → (d.dot (n1.add n2) ≤ 0 ↔ (n1.dot d ≤ 0 ∧ n2.dot d ≤ 0))) ∧
    (0 < (⟨-n2.y, n2.x⟩ : V2 K).dot n1 → (d.dot (n1.add n2) ≤ 0 ↔ (n1.dot d ≤ 0 ∨ n2.dot d ≤ 0))) := by
  letI := fieldNum K sq
  obtain ⟨a, b⟩ := n1
  obtain ⟨c, e⟩ := n2
  obtain ⟨x, y⟩ := d
  simp only [V2.dot, V2.add]
  intro h1 h2 hc1 hc2
  -- p = n1·d, q = n2·d, r1 = d·t1, r2 = d·t2, s = t2·n1, cc = n1·n2
  have hp : a * x + b * y = (a * c + b * e) * (c * x + e * y) + (-e * a + c * b) * (x * -e + y * c) := by
    linear_combination (-(a * x + b * y)) * h2
  have hq : c * x + e * y = (a * c + b * e) * (a * x + b * y) + (-e * a + c * b) * (x * b + y * -a) := by
    linear_combination (-(c * x + e * y)) * h1
  have hcs : (a * c + b * e) * (a * c + b * e) + (-e * a + c * b) * (-e * a + c * b) = 1 := by
    linear_combination (c * c + e * e) * h1 + h2
  have key := wedge_key _ _ _ _ _ _ hp hq
  have hsum : x * (a + c) + y * (b + e) = (a * x + b * y) + (c * x + e * y) := by ring
  rw [hsum]
  constructor
  · intro hs
    have hcc := cc_lt_one _ _ hcs (ne_of_lt hs)
    have h1c : 0 < 1 - (a * c + b * e) := by linarith
    have hr : 0 ≤ (-e * a + c * b) * ((x * b + y * -a) + (x * -e + y * c)) :=
      mul_nonneg_of_nonpos_of_nonpos (le_of_lt hs) (by linarith)
    constructor
    · intro hle
      -- (p+q)(1-cc) >= 0 and p+q <= 0, so p+q = 0, then s*r1 = s*r2 = 0 and p = q = 0
      have hge : 0 ≤ (a * x + b * y) + (c * x + e * y) := by
        by_contra hneg
        push Not at hneg
        have := mul_neg_of_neg_of_pos hneg h1c
        linarith
      have hz : (a * x + b * y) + (c * x + e * y) = 0 := le_antisymm hle hge
      have hr1 : 0 ≤ (-e * a + c * b) * (x * b + y * -a) := mul_nonneg_of_nonpos_of_nonpos (le_of_lt hs) hc1
      have hr2 : 0 ≤ (-e * a + c * b) * (x * -e + y * c) := mul_nonneg_of_nonpos_of_nonpos (le_of_lt hs) hc2
      have hz' : (-e * a + c * b) * (x * b + y * -a) + (-e * a + c * b) * (x * -e + y * c) = 0 := by
        rw [hz, zero_mul] at key
        linarith
      have e1 : (-e * a + c * b) * (x * b + y * -a) = 0 := by linarith
      have e2 : (-e * a + c * b) * (x * -e + y * c) = 0 := by linarith
      -- p = cc q, q = cc p, p = -q  =>  p (1 + cc) = 0 ; and p (1 - cc) ... use p = cc*q = -cc*p
      have hpq : a * x + b * y = (a * c + b * e) * (c * x + e * y) := by rw [e2] at hp; linarith
      have hqp : c * x + e * y = (a * c + b * e) * (a * x + b * y) := by rw [e1] at hq; linarith
      have hss : 0 < (-e * a + c * b) * (-e * a + c * b) := mul_self_pos.mpr (ne_of_lt hs)
      have hp0 : (a * x + b * y) * ((-e * a + c * b) * (-e * a + c * b)) = 0 := by
        have : (a * x + b * y) * (1 - (a * c + b * e) * (a * c + b * e)) = 0 := by
          have h3 : a * x + b * y = (a * c + b * e) * ((a * c + b * e) * (a * x + b * y)) := by rw [← hqp]; exact hpq
          linear_combination h3
        rw [← hcs] at this
        linear_combination this
      have hp0' : a * x + b * y = 0 := by
        rcases mul_eq_zero.mp hp0 with h | h
        · exact h
        · exact absurd h (ne_of_gt hss)
      have hq0' : c * x + e * y = 0 := by linarith
      exact ⟨le_of_eq hp0', le_of_eq hq0'⟩
    · rintro ⟨h3, h4⟩
      linarith
  · intro hs
    have hcc := cc_lt_one _ _ hcs (ne_of_gt hs)
    have h1c : 0 < 1 - (a * c + b * e) := by linarith
    have hr : (-e * a + c * b) * ((x * b + y * -a) + (x * -e + y * c)) ≤ 0 :=
      mul_nonpos_of_nonneg_of_nonpos (le_of_lt hs) (by linarith)
    have hle : (a * x + b * y) + (c * x + e * y) ≤ 0 := by
      by_contra hpos
      push Not at hpos
      have := mul_pos hpos h1c
      linarith
    constructor
    · intro _
      by_contra hcon
      push Not at hcon
      linarith [hcon.1, hcon.2]
    · intro _
      exact hle

end FieldGeo

/-! ## non-vacuity -/

/-- convex square corner: faces with normals `(1,0)` and `(0,1)`; the point `(1/2, 1)` (closest point = the corner) is
outside and the test says so; hypotheses of `edge_sign_section` hold -/
example :
    let n1 : V2 ℚ := ⟨1, 0⟩
    let n2 : V2 ℚ := ⟨0, 1⟩
    let d : V2 ℚ := ⟨1 / 2, 1⟩
    n1.dot n1 = 1 ∧ n2.dot n2 = 1 ∧ d.dot ⟨n1.y, -n1.x⟩ ≤ 0 ∧ d.dot ⟨-n2.y, n2.x⟩ ≤ 0 ∧
      (⟨-n2.y, n2.x⟩ : V2 ℚ).dot n1 < 0 ∧ ¬ d.dot (n1.add n2) ≤ 0 := by
  simp only [V2.dot, V2.add]
  norm_num

/-- reflex corner (normals `(0,1)` and `(1,0)` exchanged): every point whose closest point is the corner is inside -/
example :
    let n1 : V2 ℚ := ⟨0, 1⟩
    let n2 : V2 ℚ := ⟨1, 0⟩
    let d : V2 ℚ := ⟨-1 / 2, -1⟩
    n1.dot n1 = 1 ∧ n2.dot n2 = 1 ∧ d.dot ⟨n1.y, -n1.x⟩ ≤ 0 ∧ d.dot ⟨-n2.y, n2.x⟩ ≤ 0 ∧
      0 < (⟨-n2.y, n2.x⟩ : V2 ℚ).dot n1 ∧ d.dot (n1.add n2) ≤ 0 := by
  simp only [V2.dot, V2.add]
  norm_num

end C11
