import ParryModel.Field
import ParryModel.C11.Lemmas
import ParryModel.C11.Theorems5
/-!
# C11, `CONNECTED_COMPONENTS`: the face colours are the connectivity classes of the faces

`compute_connected_components` colours face `k` with the range id (minus one) that `vertex_to_range` gives to the
union–find representative of the face's first vertex, creating a new range the first time a representative is met.
`faceColors_eq_iff_label`: two faces get the same colour iff the representatives of their first vertices are equal
(the numbering of the classes is injective), provided the number of triangles is below `u32::MAX - 1` (beyond that the
fresh range id `ranges.len()` could collide with the `u32::MAX` that marks "no range yet").
`faceColors_eq_iff_conn`: hence, for an in-bounds buffer, iff the two faces are connected (`Conn` of `Theorems5`, through
their first vertices — all three vertices of a face are in one class).
-/
namespace C11
open Model Model.TM

/-- invariant of the colouring pass over the already processed faces `done` -/
private structure FInv (labels : List Nat) (done : List Tri) (vtr ranges colors : List Nat) : Prop where
  pos : 1 ≤ ranges.length
  vtrOk : ∀ (g r : Nat), vtr[g]? = some r → r = umax ∨ (1 ≤ r ∧ r < ranges.length)
  inj : ∀ (g g' r : Nat), vtr[g]? = some r → vtr[g']? = some r → r ≠ umax → g = g'
  len : colors.length = done.length
  col : ∀ (k : Nat) (t : Tri) (g : Nat), done[k]? = some t → labels[t.a]? = some g →
    ∃ c, colors[k]? = some c ∧ vtr[g]? = some (c + 1) ∧ c + 1 ≠ umax

private theorem colorLoop_finv (labels : List Nat) (ts done : List Tri) (vtr ranges colors R C : List Nat)
    (hi : FInv labels done vtr ranges colors) (hb : ranges.length + ts.length < umax)
    (h : colorLoop labels ts vtr ranges colors = some (R, C)) :
    ∃ vtr', FInv labels (done ++ ts) vtr' R C := by
  induction ts generalizing done vtr ranges colors with
  | nil =>
    rw [colorLoop] at h
    cases h
    exact ⟨vtr, by simpa using hi⟩
  | cons t ts ih =>
    rw [colorLoop_cons] at h
    cases hg : labels[t.a]? with
    | none => simp [hg] at h
    | some g =>
      simp only [hg] at h
      cases hr0 : vtr[g]? with
      | none => simp [hr0] at h
      | some r0 =>
        simp only [hr0] at h
        have hgl : g < vtr.length := (List.getElem?_eq_some_iff.mp hr0).1
        have hassoc : done ++ t :: ts = (done ++ [t]) ++ ts := by simp
        simp only [List.length_cons] at hb
        by_cases h0 : r0 = umax
        · -- a new colour
          simp only [h0, if_true, List.getElem?_set, hgl, if_true] at h
          have hlt : ranges.length < (ranges ++ [0]).length := by simp
          simp only [hlt, if_true] at h
          have hL : ranges.length ≠ umax := by omega
          have hinv : FInv labels (done ++ [t]) (vtr.set g ranges.length)
              ((ranges ++ [0]).modify ranges.length (· + 1)) (colors ++ [ranges.length - 1]) := by
            constructor
            · simp
            · intro g' r hr
              rw [List.getElem?_set] at hr
              simp only [List.length_modify, List.length_append, List.length_singleton]
              by_cases hgg : g = g'
              · rw [if_pos hgg, if_pos hgl] at hr
                cases hr; right; exact ⟨hi.pos, by omega⟩
              · rw [if_neg hgg] at hr
                rcases hi.vtrOk g' r hr with h | h
                · left; exact h
                · right; omega
            · intro g1 g2 r h1 h2 hr
              rw [List.getElem?_set] at h1 h2
              by_cases e1 : g = g1
              · by_cases e2 : g = g2
                · rw [← e1, ← e2]
                · rw [if_pos e1, if_pos hgl] at h1
                  rw [if_neg e2] at h2
                  cases h1
                  rcases hi.vtrOk g2 _ h2 with h | h
                  · exact absurd h hL
                  · omega
              · by_cases e2 : g = g2
                · rw [if_pos e2, if_pos hgl] at h2
                  rw [if_neg e1] at h1
                  cases h2
                  rcases hi.vtrOk g1 _ h1 with h | h
                  · exact absurd h hL
                  · omega
                · rw [if_neg e1] at h1
                  rw [if_neg e2] at h2
                  exact hi.inj g1 g2 r h1 h2 hr
            · simp [hi.len]
            · intro k t' g' hk hl
              by_cases hkd : k < done.length
              · rw [List.getElem?_append_left hkd] at hk
                obtain ⟨c, c1, c2, c3⟩ := hi.col k t' g' hk hl
                have hne : g ≠ g' := by
                  intro e
                  rw [← e, hr0, h0] at c2
                  exact c3 (Option.some.inj c2).symm
                refine ⟨c, ?_, ?_, c3⟩
                · rw [List.getElem?_append_left (by rw [hi.len]; exact hkd)]; exact c1
                · rw [List.getElem?_set, if_neg hne]; exact c2
              · have hk' := hk
                rw [List.getElem?_append_right (by omega)] at hk
                have hk0 : k - done.length = 0 := by
                  by_contra hne
                  have : (k - done.length) = (k - done.length - 1) + 1 := by omega
                  rw [this] at hk
                  simp at hk
                rw [hk0] at hk
                simp only [List.getElem?_cons_zero, Option.some.injEq] at hk
                subst hk
                rw [hg] at hl
                cases hl
                have hkeq : k = colors.length := by rw [hi.len]; omega
                refine ⟨ranges.length - 1, ?_, ?_, ?_⟩
                · rw [hkeq, List.getElem?_append_right (Nat.le_refl _)]; simp
                · rw [List.getElem?_set, if_pos rfl, if_pos hgl]
                  have := hi.pos
                  congr 1; omega
                · have := hi.pos; omega
          have hb' : ((ranges ++ [0]).modify ranges.length (· + 1)).length + ts.length < umax := by
            simp only [List.length_modify, List.length_append, List.length_singleton]; omega
          obtain ⟨v', hv'⟩ := ih _ _ _ _ hinv hb' h
          exact ⟨v', by rw [hassoc]; exact hv'⟩
        · -- an existing colour
          simp only [h0, if_false, hr0] at h
          have hr : 1 ≤ r0 ∧ r0 < ranges.length := by
            rcases hi.vtrOk g r0 hr0 with h | h
            · exact absurd h h0
            · exact h
          simp only [hr.2, if_true] at h
          have hinv : FInv labels (done ++ [t]) vtr (ranges.modify r0 (· + 1)) (colors ++ [r0 - 1]) := by
            constructor
            · simp; exact hi.pos
            · intro g' r hr'
              simp only [List.length_modify]
              exact hi.vtrOk g' r hr'
            · exact hi.inj
            · simp [hi.len]
            · intro k t' g' hk hl
              by_cases hkd : k < done.length
              · rw [List.getElem?_append_left hkd] at hk
                obtain ⟨c, c1, c2, c3⟩ := hi.col k t' g' hk hl
                exact ⟨c, by rw [List.getElem?_append_left (by rw [hi.len]; exact hkd)]; exact c1, c2, c3⟩
              · rw [List.getElem?_append_right (by omega)] at hk
                have hk0 : k - done.length = 0 := by
                  by_contra hne
                  have : (k - done.length) = (k - done.length - 1) + 1 := by omega
                  rw [this] at hk
                  simp at hk
                rw [hk0] at hk
                simp only [List.getElem?_cons_zero, Option.some.injEq] at hk
                subst hk
                rw [hg] at hl
                cases hl
                have hkeq : k = colors.length := by rw [hi.len]; omega
                refine ⟨r0 - 1, ?_, ?_, ?_⟩
                · rw [hkeq, List.getElem?_append_right (Nat.le_refl _)]; simp
                · rw [hr0]; congr 1; omega
                · have : r0 - 1 + 1 = r0 := by omega
                  rw [this]; exact h0
          have hb' : (ranges.modify r0 (· + 1)).length + ts.length < umax := by
            simp only [List.length_modify]; omega
          obtain ⟨v', hv'⟩ := ih _ _ _ _ hinv hb' h
          exact ⟨v', by rw [hassoc]; exact hv'⟩

/-- **same colour iff same union–find representative** (of the faces' first vertices) -/
theorem faceColors_eq_iff_label (nv : Nat) (idx : List Tri) (cc : CC) (h : computeCC nv idx = some cc)
    (hsmall : idx.length + 1 < umax) (k k' : Nat) (t t' : Tri) (g g' : Nat)
    (hk : idx[k]? = some t) (hk' : idx[k']? = some t')
    (hg : (ccLabels nv idx)[t.a]? = some g) (hg' : (ccLabels nv idx)[t'.a]? = some g') :
    (cc.faceColors[k]? = cc.faceColors[k']? ↔ g = g') := by
  unfold computeCC at h
  split at h
  · cases h
  · simp only at h
    split at h
    · cases h
    · rename_i ranges colors hcl
      split at h
      · cases h
      · cases h
        simp only
        have hinit : FInv (ccLabels nv idx) [] (List.replicate nv umax) [0] [] := by
          constructor
          · simp
          · intro g r hr
            left
            have := List.getElem?_eq_some_iff.mp hr
            obtain ⟨hlt, e⟩ := this
            simp at e
            exact e.symm
          · intro g1 g2 r h1 _ hr
            exfalso
            have := List.getElem?_eq_some_iff.mp h1
            obtain ⟨hlt, e⟩ := this
            simp at e
            exact hr e.symm
          · rfl
          · intro k t g hk; simp at hk
        obtain ⟨v', hv'⟩ := colorLoop_finv _ idx [] _ _ _ _ _ hinit (by simp; omega) hcl
        simp only [List.nil_append] at hv'
        obtain ⟨c, c1, c2, c3⟩ := hv'.col k t g hk hg
        obtain ⟨c', d1, d2, d3⟩ := hv'.col k' t' g' hk' hg'
        rw [c1, d1]
        constructor
        · intro e
          have e' : c = c' := Option.some.inj e
          subst e'
          exact hv'.inj g g' _ c2 d2 c3
        · intro e
          subst e
          rw [c2] at d2
          have := Option.some.inj d2
          congr 1; omega

/-- **same colour iff connected**: for an in-bounds index buffer two faces have the same colour iff their (first)
vertices are connected through triangles of the mesh -/
theorem faceColors_eq_iff_conn (nv : Nat) (idx : List Tri) (cc : CC) (h : computeCC nv idx = some cc)
    (hb : inBounds nv idx = true) (hsmall : idx.length + 1 < umax) (k k' : Nat) (t t' : Tri)
    (hk : idx[k]? = some t) (hk' : idx[k']? = some t') :
    (cc.faceColors[k]? = cc.faceColors[k']? ↔ Conn idx t.a t'.a) := by
  have hin : ∀ (j : Nat) (x : Tri), idx[j]? = some x → x.a < nv := by
    intro j x hj
    have hm : x ∈ idx := List.mem_of_getElem? hj
    have := List.all_eq_true.mp hb x hm
    simp only [Bool.and_eq_true, decide_eq_true_eq] at this
    exact this.1.1
  have ha := hin k t hk
  have ha' := hin k' t' hk'
  have hfold : ∀ (l : List Tri) (l0 : List Nat), (l.foldl unite3 l0).length = l0.length := by
    intro l
    induction l with
    | nil => intro l0; rfl
    | cons x xs ih => intro l0; rw [List.foldl_cons, ih]; simp [unite3]
  have hlen : (ccLabels nv idx).length = nv := by unfold ccLabels; rw [hfold]; simp
  have e1 := List.getElem?_eq_getElem (show t.a < (ccLabels nv idx).length by omega)
  have e2 := List.getElem?_eq_getElem (show t'.a < (ccLabels nv idx).length by omega)
  rw [faceColors_eq_iff_label nv idx cc h hsmall k k' t t' _ _ hk hk' e1 e2]
  have := ccLabels_eq_iff_conn nv idx hb t.a t'.a ha ha'
  rw [e1, e2] at this
  constructor
  · intro e; exact this.mp (by rw [e])
  · intro c; exact Option.some.inj (this.mpr c)

/-- non-vacuity: two components, colours `[0, 1, 0]` -/
example : (computeCC 8 [⟨0, 1, 2⟩, ⟨5, 6, 7⟩, ⟨2, 3, 4⟩]).map (·.faceColors) = some [0, 1, 0] := by decide

/-! ### the colours are numbered in first-occurrence order (fu5) -/

/-- every range id below `ranges.len()` is in use, and before a colour `c` appears every smaller colour has appeared -/
private structure FirstInv (ranges colors : List Nat) : Prop where
  used : ∀ c : Nat, c + 1 < ranges.length → ∃ j : Nat, colors[j]? = some c
  first : ∀ (k c : Nat), colors[k]? = some c → ∀ c2 : Nat, c2 < c → ∃ j : Nat, j < k ∧ colors[j]? = some c2

private theorem firstInv_push {ranges colors : List Nat} {rid : Nat} (R : List Nat) (hi : FirstInv ranges colors)
    (hrid : rid ≤ ranges.length)
    (hR : R.length = ranges.length ∨ (R.length = ranges.length + 1 ∧ rid = ranges.length)) :
    FirstInv R (colors ++ [rid - 1]) := by
  have lift : ∀ c, c + 1 < ranges.length → ∃ j, j < colors.length ∧ (colors ++ [rid - 1])[j]? = some c := by
    intro c hc
    obtain ⟨j, hj⟩ := hi.used c hc
    have hlt : j < colors.length := (List.getElem?_eq_some_iff.mp hj).1
    exact ⟨j, hlt, by rw [List.getElem?_append_left hlt]; exact hj⟩
  constructor
  · intro c hc
    by_cases hcl : c + 1 < ranges.length
    · obtain ⟨j, _, hj⟩ := lift c hcl
      exact ⟨j, hj⟩
    · rcases hR with hR | ⟨hR, hr⟩
      · omega
      · have : c = rid - 1 := by omega
        exact ⟨colors.length, by rw [this]; simp⟩
  · intro k c hk c' hc'
    by_cases hlt : k < colors.length
    · rw [List.getElem?_append_left hlt] at hk
      obtain ⟨j, hj, hjc⟩ := hi.first k c hk c' hc'
      exact ⟨j, hj, by rw [List.getElem?_append_left (by omega)]; exact hjc⟩
    · have hk2 : k = colors.length := by
        have := (List.getElem?_eq_some_iff.mp hk).1
        simp at this; omega
      subst hk2
      simp at hk
      subst hk
      obtain ⟨j, hj, hjc⟩ := lift c' (by omega)
      exact ⟨j, hj, hjc⟩

private theorem colorLoop_first (labels : List Nat) (ts : List Tri) (vtr ranges colors R C : List Nat)
    (hi : FirstInv ranges colors) (h : colorLoop labels ts vtr ranges colors = some (R, C)) : FirstInv R C := by
  induction ts generalizing vtr ranges colors with
  | nil => rw [colorLoop] at h; cases h; exact hi
  | cons t ts ih =>
    rw [colorLoop_cons] at h
    cases hg : labels[t.a]? with
    | none => simp [hg] at h
    | some g =>
      simp only [hg] at h
      cases hr0 : vtr[g]? with
      | none => simp [hr0] at h
      | some r0 =>
        simp only [hr0] at h
        by_cases h0 : r0 = umax
        · simp only [h0, if_true] at h
          cases hrid : (vtr.set g ranges.length)[g]? with
          | none => simp [hrid] at h
          | some rid =>
            simp only [hrid] at h
            split at h
            · rename_i hlt
              have hgl : g < vtr.length := (List.getElem?_eq_some_iff.mp hr0).1
              have : rid = ranges.length := by
                rw [List.getElem?_set, if_pos rfl, if_pos hgl] at hrid
                exact (Option.some.inj hrid).symm
              subst this
              exact ih _ _ _ (firstInv_push (ranges := ranges) _ hi (le_refl _) (Or.inr ⟨by simp, rfl⟩)) h
            · cases h
        · simp only [h0, if_false, hr0] at h
          split at h
          · rename_i hlt
            exact ih _ _ _ (firstInv_push (ranges := ranges) _ hi (by omega) (Or.inl (by simp))) h
          · cases h

/-- **the colours are numbered in first-occurrence order**: when face `k` has colour `c`, every smaller colour `c' < c`
is the colour of an earlier face `j < k` (so the first face has colour 0 and each new component gets the next unused
number).  Together with `faceColors_eq_iff_conn` this determines the colouring completely. -/
theorem faceColors_first_occurrence (nv : Nat) (idx : List Tri) (cc : CC) (h : computeCC nv idx = some cc)
    (k c : Nat) (hk : cc.faceColors[k]? = some c) : ∀ c' < c, ∃ j < k, cc.faceColors[j]? = some c' := by
  unfold computeCC at h
  split at h
  · cases h
  · simp only at h
    split at h
    · cases h
    · rename_i ranges colors hcl
      split at h
      · cases h
      · cases h
        simp only at hk ⊢
        have hinit : FirstInv [0] [] := ⟨fun c hc => by simp at hc, fun k c hk => by simp at hk⟩
        exact (colorLoop_first _ _ _ _ _ _ _ hinit hcl).first k c hk

/-- non-vacuity: three components met in the order 0, 1, 0, 2, 1 -/
example : (computeCC 12 [⟨0, 1, 2⟩, ⟨5, 6, 7⟩, ⟨2, 3, 4⟩, ⟨9, 10, 11⟩, ⟨7, 8, 5⟩]).map (·.faceColors) = some [0, 1, 0, 2, 1] := by
  decide

end C11
