import ParryModel.C11.Theorems
#print axioms C11.blank_coherent
#print axioms C11.setFlags_coherent
#print axioms C11.withFlags_coherent
#print axioms C11.reverse_coherent
#print axioms C11.append_coherent
#print axioms C11.step_coherent
#print axioms C11.history_coherent
#print axioms C11.pinned_setFlags_stale_components
#print axioms C11.pinned_reverse_edge_normals
#print axioms C11.pinned_dim2_topology_after_merge
#print axioms C11.pinned_dim3_topology_after_merge_ok
#print axioms C11.pinned_setFlags_delete_bad_stale_components
#print axioms C11.pinned_setFlags_same_flags_drops_topology
#print axioms C11.pinned_reverse_stale_topology
#print axioms C11.pinned_merge_failed_topology_survives
