import ParryModel.Field
import ParryModel.C11.Lemmas
import ParryModel.C11.PseudoNormals
import ParryModel.C11.Theorems3
/-!
# C11, pseudo-normals: the angle weights of a non-degenerate triangle are strictly positive

With a lawful square root and an `acos` that is positive below 1 (as the real arc-cosine), the three weights
`ang1, ang2, ang3` that `compute_pseudo_normals` gives to a triangle whose `normal()` exists are strictly positive
(`angleK_pos`, `contribK_pos_weights`): `cos(angle) = u·v / (|u| |v|) < 1` because `|u|²|v|² - (u·v)² = |u × v|² > 0`
(Lagrange).  Hence the same-side sign theorem can be stated on the *face normals* around the vertex
(`vertex_sign_faces_partial`): all incident faces seen from outside or edge-on and one strictly from outside ⇒ the test
answers "outside"; all seen from inside or edge-on ⇒ "inside".  The gap (faces seen from both sides) is
`vertex_sign_full`; on explored inputs it is covered by the protocol function `pnsign3` (exact parity oracle).
-/
namespace C11
open Model Model.TM
set_option linter.style.haveILetI false
set_option linter.unusedSimpArgs false

section
variable {K : Type} [Field K] [LinearOrder K] [IsStrictOrderedRing K] (sq : K → K)

private theorem lagrange (u v : V3 K) :
    letI := fieldNum K sq
    u.dot u * v.dot v = u.dot v * u.dot v + (u.cross v).normSq := by
  simp only [V3.dot, V3.cross, V3.normSq]; ring

private theorem normSq_nonneg (u : V3 K) : letI := fieldNum K sq; 0 ≤ u.normSq := by
  simp only [V3.normSq, V3.dot]
  nlinarith [mul_self_nonneg u.x, mul_self_nonneg u.y, mul_self_nonneg u.z]

private theorem sq_pos' (hsq : LawfulSqrt sq) (x : K) (hx : 0 < x) : 0 < sq x := by
  have h1 := hsq.nonneg x (le_of_lt hx)
  have h2 := hsq.sq_mul x (le_of_lt hx)
  rcases eq_or_lt_of_le h1 with h | h
  · rw [← h] at h2; simp at h2; exact absurd h2 (ne_of_lt hx)
  · exact h

/-- **the angle between two non-parallel vectors gets a positive weight** -/
theorem angleK_pos (hsq : LawfulSqrt sq) (acos : K → K) (hac : ∀ x, x < 1 → 0 < acos x) (u v : V3 K) :
    letI := fieldNum K sq
    (u.cross v).normSq ≠ 0 → 0 < angleK acos u v := by
  letI := fieldNum K sq
  intro hcr
  have hc : 0 < (u.cross v).normSq := lt_of_le_of_ne (normSq_nonneg sq _) (Ne.symm hcr)
  have hl := lagrange sq u v
  have hu0 : 0 ≤ u.dot u := normSq_nonneg sq u
  have hv0 : 0 ≤ v.dot v := normSq_nonneg sq v
  have hprod : 0 < u.dot u * v.dot v := by nlinarith [mul_self_nonneg (u.dot v)]
  have hu : 0 < u.dot u := by
    rcases eq_or_lt_of_le hu0 with h | h
    · rw [← h] at hprod; simp at hprod
    · exact h
  have hv : 0 < v.dot v := by
    rcases eq_or_lt_of_le hv0 with h | h
    · rw [← h] at hprod; simp at hprod
    · exact h
  have hn1 : 0 < sq (u.dot u) := sq_pos' sq hsq _ hu
  have hn2 : 0 < sq (v.dot v) := sq_pos' sq hsq _ hv
  have e1 := hsq.sq_mul _ hu0
  have e2 := hsq.sq_mul _ hv0
  have hnn : 0 < sq (u.dot u) * sq (v.dot v) := mul_pos hn1 hn2
  have hlt : u.dot v < sq (u.dot u) * sq (v.dot v) := by
    by_contra hge
    push Not at hge
    have : sq (u.dot u) * sq (v.dot v) * (sq (u.dot u) * sq (v.dot v)) ≤ u.dot v * u.dot v :=
      mul_le_mul hge hge (le_of_lt hnn) (le_trans (le_of_lt hnn) hge)
    have e3 : sq (u.dot u) * sq (v.dot v) * (sq (u.dot u) * sq (v.dot v)) = u.dot u * v.dot v := by
      calc _ = (sq (u.dot u) * sq (u.dot u)) * (sq (v.dot v) * sq (v.dot v)) := by ring
        _ = _ := by rw [e1, e2]
    rw [e3, hl] at this
    linarith
  have hcang : u.dot v / (sq (u.dot u) * sq (v.dot v)) < 1 := (div_lt_one hnn).mpr hlt
  have hne1 : neq (V3.norm u) (0 : K) = false := by
    simp only [neq, V3.norm, V3.normSq, fieldNum_sqrt]
    have : ¬ sq (u.dot u) ≤ 0 := not_le.mpr hn1
    simp [this]
  have hne2 : neq (V3.norm v) (0 : K) = false := by
    simp only [neq, V3.norm, V3.normSq, fieldNum_sqrt]
    have : ¬ sq (v.dot v) ≤ 0 := not_le.mpr hn2
    simp [this]
  simp only [angleK, hne1, hne2, Bool.or_self, Bool.false_eq_true, if_false]
  apply hac
  have key : ∀ x : K, x < 1 → (if x < -1 then (-1 : K) else if 1 < x then 1 else x) < 1 := by
    intro x hx
    split_ifs <;> linarith
  exact key _ hcang

private theorem cross_b (a b c : V3 K) :
    letI := fieldNum K sq
    ((a.sub b).cross (c.sub b)).normSq = ((b.sub a).cross (c.sub a)).normSq := by
  simp only [V3.cross, V3.sub, V3.normSq, V3.dot]; ring

private theorem cross_c (a b c : V3 K) :
    letI := fieldNum K sq
    ((b.sub c).cross (a.sub c)).normSq = ((b.sub a).cross (c.sub a)).normSq := by
  simp only [V3.cross, V3.sub, V3.normSq, V3.dot]; ring

/-- what `contribK` returns for a triangle whose normal exists: the normal `n` and `n * ang_i` with `ang_i > 0` -/
theorem contribK_pos_weights (hsq : LawfulSqrt sq) (acos : K → K) (hac : ∀ x, x < 1 → 0 < acos x)
    (a b c n w1 w2 w3 : V3 K) :
    letI := fieldNum K sq
    contribK acos a b c = some (n, w1, w2, w3) →
      ∃ α1 α2 α3 : K, 0 < α1 ∧ 0 < α2 ∧ 0 < α3 ∧ w1 = n.smul α1 ∧ w2 = n.smul α2 ∧ w3 = n.smul α3 := by
  letI := fieldNum K sq
  intro h
  simp only [contribK] at h
  split_ifs at h with hle
  simp only [Option.some.injEq, Prod.mk.injEq] at h
  obtain ⟨rfl, rfl, rfl, rfl⟩ := h
  have hns : ((b.sub a).cross (c.sub a)).normSq ≠ 0 := by
    intro h0
    apply hle
    have hz : sq (0 : K) = 0 := by
      have := hsq.sq_mul 0 (le_refl _)
      exact mul_self_eq_zero.mp this
    show sq ((b.sub a).cross (c.sub a)).normSq ≤ epsK
    rw [h0, hz]
    simp only [epsK, fieldNum_lit]
    have : (0 : ℚ) ≤ mkRat 1 4503599627370496 := by norm_num
    exact_mod_cast this
  refine ⟨_, _, _, angleK_pos sq hsq acos hac _ _ hns, angleK_pos sq hsq acos hac _ _ ?_,
    angleK_pos sq hsq acos hac _ _ ?_, rfl, rfl, rfl⟩
  · rw [cross_b]; exact hns
  · rw [cross_c]; exact hns

/-- **vertex pseudo-normal, same-side case, stated on the face normals.**  `cs` are the per-triangle data of
`compute_pseudo_normals` (every `some` entry is a `contribK` of some triangle), `d = point - vertex`. -/
theorem vertex_sign_faces_partial (hsq : LawfulSqrt sq) (acos : K → K) (hac : ∀ x, x < 1 → 0 < acos x)
    (cs : List (Tri × Option (V3 K × V3 K × V3 K × V3 K))) (v : Nat) (d : V3 K) :
    letI := fieldNum K sq
    letI := geoK acos
    (∀ tc ∈ cs, ∀ w, tc.2 = some w → ∃ a b c, contribK acos a b c = some w) →
    (((∀ tc ∈ cs, ∀ n w1 w2 w3, tc.2 = some (n, w1, w2, w3) → (tc.1.a = v ∨ tc.1.b = v ∨ tc.1.c = v) → 0 ≤ n.dot d) →
      (∃ tc ∈ cs, ∃ n w1 w2 w3, tc.2 = some (n, w1, w2, w3) ∧ (tc.1.a = v ∨ tc.1.b = v ∨ tc.1.c = v) ∧ 0 < n.dot d) →
        insideBy d (vertexAcc (V := V3 K) cs v) = false) ∧
     ((∀ tc ∈ cs, ∀ n w1 w2 w3, tc.2 = some (n, w1, w2, w3) → (tc.1.a = v ∨ tc.1.b = v ∨ tc.1.c = v) → n.dot d ≤ 0) →
        insideBy d (vertexAcc (V := V3 K) cs v) = true)) := by
  letI := fieldNum K sq
  letI := geoK acos
  intro hcs
  have hp := vertex_sign_partial sq acos cs v d
  -- every corner term on `v` is `n * α` with `α > 0`, `n` the normal of an incident face
  have hterm : ∀ w ∈ cs.flatMap (cornerTerms v), ∃ tc ∈ cs, ∃ n w1 w2 w3 α, tc.2 = some (n, w1, w2, w3) ∧
      (tc.1.a = v ∨ tc.1.b = v ∨ tc.1.c = v) ∧ 0 < α ∧ w = n.smul α := by
    intro w hw
    obtain ⟨tc, htc, hw⟩ := List.mem_flatMap.mp hw
    obtain ⟨t, o⟩ := tc
    cases o with
    | none => simp [cornerTerms] at hw
    | some x =>
      obtain ⟨n, w1, w2, w3⟩ := x
      obtain ⟨a, b, c, hc⟩ := hcs _ htc _ rfl
      obtain ⟨α1, α2, α3, p1, p2, p3, rfl, rfl, rfl⟩ := contribK_pos_weights sq hsq acos hac a b c n w1 w2 w3 hc
      simp only [cornerTerms, List.mem_append] at hw
      rcases hw with (hw | hw) | hw
      · split_ifs at hw with hv
        · simp at hw; exact ⟨_, htc, n, _, _, _, α1, rfl, Or.inl hv, p1, hw⟩
        · cases hw
      · split_ifs at hw with hv
        · simp at hw; exact ⟨_, htc, n, _, _, _, α2, rfl, Or.inr (Or.inl hv), p2, hw⟩
        · cases hw
      · split_ifs at hw with hv
        · simp at hw; exact ⟨_, htc, n, _, _, _, α3, rfl, Or.inr (Or.inr hv), p3, hw⟩
        · cases hw
  constructor
  · intro h1 h2
    apply hp.1
    · intro w hw
      obtain ⟨tc, htc, n, w1, w2, w3, α, e, hv, hα, rfl⟩ := hterm w hw
      rw [smul_dot]
      exact mul_nonneg (le_of_lt hα) (h1 tc htc n w1 w2 w3 e hv)
    · obtain ⟨tc, htc, n, w1, w2, w3, e, hv, hpos⟩ := h2
      obtain ⟨t, o⟩ := tc
      simp only at e hv
      subst e
      obtain ⟨a, b, c, hc⟩ := hcs _ htc _ rfl
      obtain ⟨α1, α2, α3, p1, p2, p3, rfl, rfl, rfl⟩ := contribK_pos_weights sq hsq acos hac a b c n w1 w2 w3 hc
      rcases hv with hv | hv | hv
      · refine ⟨n.smul α1, List.mem_flatMap.mpr ⟨_, htc, ?_⟩, by rw [smul_dot]; exact mul_pos p1 hpos⟩
        simp [cornerTerms, hv]
      · refine ⟨n.smul α2, List.mem_flatMap.mpr ⟨_, htc, ?_⟩, by rw [smul_dot]; exact mul_pos p2 hpos⟩
        simp [cornerTerms, hv]
      · refine ⟨n.smul α3, List.mem_flatMap.mpr ⟨_, htc, ?_⟩, by rw [smul_dot]; exact mul_pos p3 hpos⟩
        simp [cornerTerms, hv]
  · intro h1
    apply hp.2
    intro w hw
    obtain ⟨tc, htc, n, w1, w2, w3, α, e, hv, hα, rfl⟩ := hterm w hw
    rw [smul_dot]
    exact mul_nonpos_of_nonneg_of_nonpos (le_of_lt hα) (h1 tc htc n w1 w2 w3 e hv)

end

end C11
