import ParryModel.Proto
import ParryModel.C11.Model
import ParryModel.C11.PseudoNormals
/-!
C11 protocol handlers (`hist3`, `hist2`): the model of the TriMesh state machine run on an operation
history at `Float` (bit-exact print of every state), and the oracle that re-judges the real mesh's state
after every operation:
* against the two real fresh builds printed by the harness (`G`: same derived data asked for, buffers not
  touched; `L`: literally the current flags, compared when that build leaves the buffers as they are);
* against an independent, declarative specification of the half-edge topology and of the connected
  components (brute force, shares no code with the model functions).
-/
namespace C11
open Model Model.TM Proto

/-! ## geometry at `Float` -/

/-- the 3-D geometry at `Float`: the scalar-polymorphic `geoK` of `C11/PseudoNormals.lean` (nalgebra `Matrix::angle`,
`Triangle::normal()`, the three angle weights) with the libm arc-cosine -/
def angle3 (u v : V3 Float) : Float := angleK Float.acos u v

def contrib3 (a b c : V3 Float) : Option (V3 Float × V3 Float × V3 Float × V3 Float) := contribK Float.acos a b c

instance geo3 : Geo (V3 Float) (V3 Float) := geoK Float.acos

/-- 2-D: no pseudo-normals -/
instance geo2 : Geo (V2 Float) Unit where
  veq p q := p.x == q.x && p.y == q.y
  nzero := ()
  nadd _ _ := ()
  nneg _ := ()
  contrib _ _ _ := none

/-! ## parsing the case -/

structure RawMesh (V : Type) where
  vs : List V
  idx : List Tri
  flags : Nat

def ptri : P Tri := do let a ← pnat; let b ← pnat; let c ← pnat; pure ⟨a, b, c⟩
def pmesh {V} (pv : P V) : P (RawMesh V) := do
  let vs ← plist pv; let idx ← plist ptri; let f ← pnat; pure ⟨vs, idx, f⟩

inductive RawOp (V : Type) where
  | sf (f : Nat)
  | rev
  | app (m : RawMesh V)
  | tv (iso : List Float)
  | sc (scale : List Float)

def repP {α} (p : P α) : Nat → P (List α)
  | 0 => pure []
  | k + 1 => do let x ← p; let xs ← repP p k; pure (x :: xs)

def pop {V} (pv : P V) : P (RawOp V) := do
  let t ← tok
  if t = "sf" then do let f ← pnat; pure (.sf f)
  else if t = "rev" then pure .rev
  else if t = "app" then do let m ← pmesh pv; pure (.app m)
  else if t = "tv" then do let n ← pnat; let xs ← repP pf n; pure (.tv xs)
  else if t = "sc" then do let n ← pnat; let xs ← repP pf n; pure (.sc xs)
  else failure

def pcase {V} (pv : P V) : P (RawMesh V × List (RawOp V)) := do
  let m ← pmesh pv; let ops ← plist (pop pv); pend; pure (m, ops)

/-! ## printing a state (must match `harness/src/c11.rs`) -/

def nats (l : List Nat) : List String := toString l.length :: l.map toString

def showTopo : Option Topology → List String
  | none => ["T", "-"]
  | some t => ["T"] ++ nats t.vertices ++ nats t.faces ++
      (toString t.halfEdges.length :: t.halfEdges.flatMap fun h => [toString h.next, toString h.twin, toString h.vertex, toString h.face])
def showCC : Option CC → List String
  | none => ["C", "-"]
  | some c => ["C"] ++ nats c.faceColors ++ nats c.groupedFaces ++ nats c.ranges

class ShowN (N : Type) where
  showN : N → List String
  /-- `Isometry * Vector` (rotation only) -/
  isoRot : List Float → N → N
  /-- `scaled` as written: `n.component_mul_assign(scale); n.try_normalize_mut(0.0)` -/
  scaleN : List Float → N → N
instance : ShowN (V3 Float) := ⟨fun v => [ff v.x, ff v.y, ff v.z],
  fun xs n => (⟨xs.getD 0 0, xs.getD 1 0, xs.getD 2 0, xs.getD 3 0, ⟨0, 0, 0⟩⟩ : Iso3 Float).rot n,
  fun xs n => scaleNormal3 ⟨xs.getD 0 0, xs.getD 1 0, xs.getD 2 0⟩ n⟩
instance : ShowN Unit := ⟨fun _ => [], fun _ n => n, fun _ n => n⟩
/-- printing of vertices, and the box operations of `Triangle::local_aabb` / `Aabb::merged` (Rust `f64::min/max`) -/
class ShowV (V : Type) where
  showV : V → List String
  vinf : V → V → V
  vsup : V → V → V
  /-- `Aabb::new_invalid()`: mins = `+f64::MAX`, maxs = `-f64::MAX` -/
  invMin : V
  invMax : V
  /-- `Isometry * Point` for the isometry given by its protocol components -/
  isoAct : List Float → V → V
  /-- `pt.coords.component_mul_assign(scale)` -/
  scaleAct : List Float → V → V
def fmaxv : Float := Float.ofBits 0x7FEFFFFFFFFFFFFF
def iso3Of (xs : List Float) : Iso3 Float :=
  ⟨xs.getD 0 0, xs.getD 1 0, xs.getD 2 0, xs.getD 3 0, ⟨xs.getD 4 0, xs.getD 5 0, xs.getD 6 0⟩⟩
def iso2Of (xs : List Float) : Iso2 Float := ⟨xs.getD 0 0, xs.getD 1 0, ⟨xs.getD 2 0, xs.getD 3 0⟩⟩
instance : ShowV (V3 Float) := ⟨fun v => [ff v.x, ff v.y, ff v.z], V3.inf, V3.sup, ⟨fmaxv, fmaxv, fmaxv⟩, ⟨-fmaxv, -fmaxv, -fmaxv⟩,
  fun xs p => (iso3Of xs).act p, fun xs p => scalePt3 ⟨xs.getD 0 0, xs.getD 1 0, xs.getD 2 0⟩ p⟩
instance : ShowV (V2 Float) := ⟨fun v => [ff v.x, ff v.y], V2.inf, V2.sup, ⟨fmaxv, fmaxv⟩, ⟨-fmaxv, -fmaxv⟩,
  fun xs p => (iso2Of xs).act p, fun xs p => scalePt2 ⟨xs.getD 0 0, xs.getD 1 0⟩ p⟩

/-- `Triangle::local_aabb` -/
def triBox {V} [ShowV V] (c : V × V × V) : V × V :=
  (ShowV.vinf (ShowV.vinf c.1 c.2.1) c.2.2, ShowV.vsup (ShowV.vsup c.1 c.2.1) c.2.2)
/-- root box of the QBVH: the merge of all leaf boxes (min / max are exact, so the tree shape does not matter) -/
def rootBox {V} [ShowV V] (cs : List (V × V × V)) : V × V :=
  cs.foldl (fun acc c => let b := triBox c; (ShowV.vinf acc.1 b.1, ShowV.vsup acc.2 b.2)) (ShowV.invMin, ShowV.invMax)

def showPN {N} [ShowN N] : Option (PN N) → List String
  | none => ["P", "-"]
  | some p => ["P", toString p.vertices.length] ++ p.vertices.flatMap ShowN.showN ++
      (toString p.edges.length :: p.edges.flatMap fun e => ShowN.showN e.1 ++ ShowN.showN e.2.1 ++ ShowN.showN e.2.2)

def showDerived {N} [ShowN N] (d : Derived N) : List String := showTopo d.topology ++ showCC d.cc ++ showPN d.pn

def sameVerts {V N} [Geo V N] : List V → List V → Bool
  | [], [] => true
  | a :: as, b :: bs => Geo.veq N a b && sameVerts (N := N) as bs
  | _, _ => false

def showState {V N} [Geo V N] [ShowV V] [ShowN N] (w dim3 : Bool) (s : Mesh V N) : List String :=
  let head := ["V", toString s.vertices.length] ++ s.vertices.flatMap ShowV.showV ++
    ["I", toString s.indices.length] ++ s.indices.flatMap (fun t => [toString t.a, toString t.b, toString t.c]) ++
    ["F", toString s.flags.toNat, "A"] ++
    (let rb := rootBox (s.qbvh.getD []); ShowV.showV rb.1 ++ ShowV.showV rb.2) ++
    -- `Q 1`: the leaf boxes the QBVH was built from are the boxes of the current triangles
    ["Q", (match s.qbvh, allCoords s.vertices s.indices with
           | some cs, some cur => if (cs.map fun c => let b := triBox c; ShowV.showV b.1 ++ ShowV.showV b.2) ==
                                     (cur.map fun c => let b := triBox c; ShowV.showV b.1 ++ ShowV.showV b.2) then "1" else "0"
           | _, _ => "0")] ++
    -- `B`: the box held by the leaf of every triangle; `H 1`: the model's tree is a bounding hierarchy by construction
    (match s.qbvh with
     | some cs => ["B", toString cs.length] ++ cs.flatMap (fun c => let b := triBox c; ShowV.showV b.1 ++ ShowV.showV b.2) ++ ["H", "1"]
     | none => ["B", "0", "H", "0"]) ++ ["D"] ++ showDerived s.derived
  let lit : List String :=
    if s.indices.isEmpty then ["e"] else
    match (if w then buildCoreW dim3 s.vertices s.indices s.flags else buildCore dim3 s.vertices s.indices s.flags) with
    | none => ["panic"]
    | some (fr : Mesh V N) =>
      if sameVerts (N := N) fr.vertices s.vertices && decide (fr.indices = s.indices) then showDerived fr.derived else ["u"]
  let der : List String :=
    if s.indices.isEmpty then ["e"] else showDerived (derive (N := N) dim3 s.vertices s.indices s.flags)
  head ++ ["L"] ++ lit ++ ["G"] ++ der

def showErr : Option TopoErr → List String
  | none => ["ok"]
  | some (.badTriangle f) => ["badtri", toString f]
  | some (.badAdj a b c d) => ["badadj", toString a, toString b, toString c, toString d]

/-- run the history with the model; segments as in the harness -/
def runOps {V N} [Geo V N] [ShowV V] [ShowN N] (w dim3 sw : Bool) : Mesh V N → List (RawOp V) → List (List String)
  | _, [] => []
  | s, .sf f :: ops =>
    match (if w then setFlagsW dim3 s (Flags.ofNat f) else setFlags dim3 s (Flags.ofNat f)) with
    | none => [["panic"]]
    | some (s', r) => (showErr r ++ showState w dim3 s') :: runOps w dim3 sw s' ops
  | s, .rev :: ops =>
    match (if w then reverseW dim3 s else reverse dim3 s) with
    | none => [["panic"]]
    | some s' => showState w dim3 s' :: runOps w dim3 sw s' ops
  | s, .app m :: ops =>
    match (if w then withFlagsW (N := N) dim3 m.vs m.idx (Flags.ofNat m.flags) else withFlags (N := N) dim3 m.vs m.idx (Flags.ofNat m.flags)) with
    | .ok rhs =>
      match (if w then appendW dim3 s rhs else append dim3 s rhs) with
      | none => [["panic"]]
      | some s' => showState w dim3 s' :: runOps w dim3 sw s' ops
    | _ => ["rhsfail"] :: runOps w dim3 sw s ops
  | s, .tv xs :: ops =>
    match transformVertices (ShowV.isoAct xs) (ShowN.isoRot xs) s with
    | none => [["panic"]]
    | some s' => showState w dim3 s' :: runOps w dim3 sw s' ops
  | s, .sc xs :: ops =>
    -- a mesh that has lost all its triangles is outside the explored domain of `scaled`: the operation is skipped
    if s.indices.isEmpty then ["emptysc"] :: runOps w dim3 sw s ops else
    -- `sw`: `scaled` as written (cached pseudo-normals scaled and normalised); otherwise with the fix (recomputed)
    match (if sw then some (scaledW dim3 (ShowV.scaleAct xs) (ShowN.scaleN xs) s) else scaled dim3 (mirrorOf xs) (ShowV.scaleAct xs) s) with
    | none => [["panic"]]
    | some s' => showState w dim3 s' :: runOps w dim3 sw s' ops

def runHist {V N} [Geo V N] [ShowV V] [ShowN N] (w dim3 : Bool) (m : RawMesh V) (ops : List (RawOp V)) (sw : Bool := w) : String :=
  match (if w then withFlagsW (N := N) dim3 m.vs m.idx (Flags.ofNat m.flags) else withFlags (N := N) dim3 m.vs m.idx (Flags.ofNat m.flags)) with
  | .panic => "panic"
  | .emptyIndices => "empty"
  | .ok s =>
    let segs := showState w dim3 s :: runOps w dim3 sw s ops
    " ; ".intercalate (segs.map (" ".intercalate ·))

/-! ## the oracle -/

/-- derived data as printed by the implementation (pseudo-normal floats kept as `Float`) -/
structure ODerived where
  topo : Option Topology
  cc : Option CC
  pn : Option (List Float × List Float)   -- flattened vertex normals, flattened edge normals

structure OState where
  nv : Nat
  coords : List (List Float)
  box : List Float
  q : Nat
  /-- leaf box of every triangle (`none`: the proxy designates no leaf slot) -/
  leaf : List (Option (List Float)) := []
  hier : Nat := 1
  idx : List Tri
  flags : Flags
  d : ODerived
  lit : Option ODerived      -- none: `e`/`u`
  litTag : String
  der : Option ODerived

def pnats : P (List Nat) := plist pnat
def expect (s : String) : P Unit := do let t ← tok; if t = s then pure () else failure
def peek : P String := fun s => match s with | [] => none | t :: _ => some (t, s)
def poptDash {α} (p : P α) : P (Option α) := do
  let t ← peek
  if t = "-" then do let _ ← tok; pure none else do let x ← p; pure (some x)
def rep {α} (p : P α) : Nat → P (List α)
  | 0 => pure []
  | k + 1 => do let x ← p; let xs ← rep p k; pure (x :: xs)
def poptX {α} (p : P α) : P (Option α) := do
  let t ← peek
  if t = "x" then do let _ ← tok; pure none else do let x ← p; pure (some x)

def pderived (dimN : Nat) : P ODerived := do
  expect "T"
  let topo ← poptDash (do
    let vs ← pnats; let fs ← pnats
    let hs ← plist (do let a ← pnat; let b ← pnat; let c ← pnat; let d ← pnat; pure (⟨a, b, c, d⟩ : HalfEdge))
    pure (⟨vs, fs, hs⟩ : Topology))
  expect "C"
  let cc ← poptDash (do let a ← pnats; let b ← pnats; let c ← pnats; pure (⟨a, b, c⟩ : CC))
  expect "P"
  let pn ← poptDash (do
    let n ← pnat; let vn ← rep pfo (n * dimN)
    let m ← pnat; let en ← rep pfo (m * 3 * dimN)
    pure (vn, en))
  pure ⟨topo, cc, pn⟩

def pstate (dim : Nat) : P OState := do
  expect "V"; let nv ← pnat; let coords ← rep (rep pfo dim) nv
  expect "I"; let idx ← plist ptri
  expect "F"; let f ← pnat
  expect "A"; let box ← rep pfo (2 * dim)
  expect "Q"; let qv ← pnat
  expect "B"; let leaf ← plist (poptX (rep pfo (2 * dim)))
  expect "H"; let hv ← pnat
  expect "D"; let d ← pderived dim
  expect "L"
  let t ← peek
  let (lit, tag) ← (if t = "e" ∨ t = "u" ∨ t = "panic" then do let _ ← tok; pure (none, t)
                     else do let x ← pderived dim; pure (some x, "ok") : P (Option ODerived × String))
  expect "G"
  let t ← peek
  let der ← (if t = "e" ∨ t = "panic" then do let _ ← tok; pure none else do let x ← pderived dim; pure (some x) : P (Option ODerived))
  pend
  pure { nv := nv, coords := coords, box := box, q := qv, leaf := leaf, hier := hv, idx := idx, flags := Flags.ofNat f, d := d,
         lit := lit, litTag := tag, der := der }

/-- numeric equality of printed floats (`-0 = 0` by the canonical print; NaN only equals NaN) -/
def feq (x y : Float) : Bool :=
  if x.isNaN || y.isNaN then x.isNaN && y.isNaN else
  if !(FloatIO.isFinite x && FloatIO.isFinite y) then x == y else
  let a := q x; let b := q y
  leTol a b tolDefault && leTol b a tolDefault
def feqs : List Float → List Float → Bool
  | [], [] => true
  | a :: as, b :: bs => feq a b && feqs as bs
  | _, _ => false

/-- which fields differ -/
def diffDerived (a b : ODerived) : List String :=
  (if a.topo = b.topo then [] else ["T"]) ++ (if a.cc = b.cc then [] else ["C"]) ++
  (match a.pn, b.pn with
   | none, none => []
   | some (v1, e1), some (v2, e2) => (if feqs v1 v2 then [] else ["Pv"]) ++ (if feqs e1 e2 then [] else ["Pe"])
   | _, _ => ["P"])

/-! ### declarative specification of the topology (independent of `computeTopology`) -/

def corner (t : Tri) (k : Nat) : Nat := if k % 3 = 0 then t.a else if k % 3 = 1 then t.b else t.c
def triDegenerate (t : Tri) : Bool := t.a == t.b || t.a == t.c || t.b == t.c
/-- all directed edges `(face, k, from, to)` -/
def dirEdges (idx : List Tri) : List (Nat × Nat × Nat × Nat) :=
  idx.zipIdx.flatMap fun (t, f) => (List.range 3).map fun k => (f, k, corner t k, corner t (k + 1))
def hasDupEdge (es : List (Nat × Nat × Nat × Nat)) : Bool :=
  es.any fun (f, k, a, b) => es.any fun (f', k', a', b') => (f != f' || k != k') && a == a' && b == b'
/-- the buffers admit a half-edge topology -/
def topoOk (idx : List Tri) : Bool := !(idx.any triDegenerate) && !hasDupEdge (dirEdges idx)

def checkTopo (nv : Nat) (idx : List Tri) (t : Topology) : Option String :=
  let es := dirEdges idx
  if !topoOk idx then some "topology-present-but-buffers-not-manifold-oriented" else
  if t.vertices.length != nv then some s!"topo.vertices.len={t.vertices.length} nv={nv}" else
  if t.faces.length != idx.length then some s!"topo.faces.len={t.faces.length} ni={idx.length}" else
  if t.halfEdges.length != 3 * idx.length then some "topo.half_edges.len" else
  if !(t.faces.zipIdx.all fun (h, f) => h == 3 * f) then some "face.half_edge" else
  let badHe := es.find? fun (f, k, a, b) =>
    match t.halfEdges[3 * f + k]? with
    | none => true
    | some h =>
      let twins := es.filter fun (_, _, a', b') => a' == b && b' == a
      let twinOk := match twins with
        | [] => h.twin == umax
        | (f', k', _, _) :: _ => h.twin == 3 * f' + k'
      !(h.next == 3 * f + (k + 1) % 3 && h.vertex == a && h.face == f && twinOk)
  match badHe with
  | some (f, k, _, _) => some s!"half-edge {3 * f + k} wrong"
  | none =>
    let badV := (List.range nv).find? fun v =>
      let last := (es.filter fun (_, _, a, _) => a == v).foldl (fun acc (f, k, _, _) => max acc (3 * f + k + 1)) 0
      match t.vertices[v]? with
      | none => true
      | some h => if last = 0 then h != umax else h + 1 != last
    match badV with
    | some v => some s!"vertex {v} half_edge wrong"
    | none => none

/-! ### declarative specification of the connected components (independent of `computeCC`) -/

def shareVertex (s t : Tri) : Bool :=
  [s.a, s.b, s.c].any fun x => x == t.a || x == t.b || x == t.c
/-- component id of each face = smallest face index reachable through shared vertices (fixpoint iteration) -/
def faceComponents (idx : List Tri) : List Nat :=
  let n := idx.length
  let stepFn (lab : List Nat) : List Nat :=
    idx.zipIdx.map fun (t, f) =>
      idx.zipIdx.foldl (fun m (t', f') => if shareVertex t t' then min m (lab.getD f' f) else m) (lab.getD f f)
  (List.range n).foldl (fun lab _ => stepFn lab) (List.range n)

def checkCC (idx : List Tri) (c : CC) : Option String :=
  let n := idx.length
  if c.faceColors.length != n then some s!"face_colors.len={c.faceColors.length} ni={n}" else
  if c.groupedFaces.length != n then some "grouped_faces.len" else
  let comp := faceComponents idx
  -- same colour iff same component
  let pairs := (List.range n).flatMap fun i => (List.range n).map fun j => (i, j)
  if !(pairs.all fun (i, j) => (c.faceColors.getD i 0 == c.faceColors.getD j 0) == (comp.getD i 0 == comp.getD j 0)) then
    some "colours-are-not-the-components" else
  -- colours numbered in order of first occurrence
  let firstOcc := c.faceColors.foldl (fun (acc : Nat × Bool) col =>
      if col < acc.1 then acc else if col = acc.1 then (acc.1 + 1, acc.2) else (acc.1, false)) (0, true)
  if !firstOcc.2 then some "colours-not-in-first-occurrence-order" else
  let ncol := firstOcc.1
  let expRanges := (List.range (ncol + 1)).map fun k => (c.faceColors.filter (· < k)).length
  if c.ranges != expRanges then some "ranges" else
  let expGrouped := (List.range ncol).flatMap fun k => (List.range n).filter fun f => c.faceColors.getD f 0 == k
  if c.groupedFaces != expGrouped then some "grouped_faces" else none

/-- what the cleaning flags promise about the buffers themselves (a fresh build would enforce it again):
no degenerate triangle under `DELETE_DEGENERATE_TRIANGLES`, no two triangles on the same three vertices under
`DELETE_DUPLICATE_TRIANGLES`, a half-edge-compatible index buffer under `DELETE_BAD_TOPOLOGY_TRIANGLES`, pairwise
distinct vertices under any of the merging flags -/
def checkBuffers (s : OState) : Option String :=
  let coordEq (i j : Nat) : Bool := match s.coords[i]?, s.coords[j]? with
    | some p, some q => p.length == q.length && (p.zip q).all fun (x, y) => x == y
    | _, _ => false
  let sorted (t : Tri) : List Nat := let l := [t.a, t.b, t.c]; (l.mergeSort (· ≤ ·))
  if s.flags.delDegen && s.idx.any (fun t => triDegenerate t || coordEq t.a t.b || coordEq t.a t.c || coordEq t.b t.c) then
    some "spec:B degenerate-triangle-under-DELETE_DEGENERATE" else
  if s.flags.delDup && (s.idx.zipIdx.any fun (t, i) => s.idx.zipIdx.any fun (t', j) => i < j && sorted t == sorted t') then
    some "spec:B duplicate-triangle-under-DELETE_DUPLICATE" else
  if s.flags.delBad && !topoOk s.idx then some "spec:B bad-topology-triangle-under-DELETE_BAD_TOPOLOGY" else
  if s.flags.mergeFamily && ((List.range s.nv).any fun i => (List.range s.nv).any fun j => i < j && coordEq i j) then
    some "spec:B duplicate-vertex-under-MERGE" else none

def specCheck (dim3 : Bool) (s : OState) : Option String :=
  -- presence
  let wantT := s.flags.topoFamily && topoOk s.idx
  let tRes : Option String := match s.d.topo with
    | none => if wantT then some "spec:T missing" else none
    | some t => if !s.flags.topoFamily then some "spec:T present-without-flag" else (checkTopo s.nv s.idx t).map ("spec:T " ++ ·)
  let cRes : Option String := match s.d.cc with
    | none => if s.flags.ccf then some "spec:C missing" else none
    | some c => if !s.flags.ccf then some "spec:C present-without-flag" else (checkCC s.idx c).map ("spec:C " ++ ·)
  let pRes : Option String := match s.d.pn with
    | none => if dim3 && s.flags.pnFamily then some "spec:P missing" else none
    | some (vn, en) =>
      if !(dim3 && s.flags.pnFamily) then some "spec:P present-without-flag" else
      if vn.length != 3 * s.nv then some s!"spec:P vertices_pseudo_normal.len={vn.length / 3} nv={s.nv}" else
      if en.length != 9 * s.idx.length then some s!"spec:P edges_pseudo_normal.len={en.length / 9} ni={s.idx.length}" else none
  match tRes, cRes, pRes with
  | some e, _, _ => some e
  | _, some e, _ => some e
  | _, _, some e => some e
  | _, _, _ => none

/-- the root box of the QBVH is the exact bounding box of the vertices used by the triangles -/
def checkBox (dim : Nat) (s : OState) : Option String :=
  let used : List (List Float) := s.idx.flatMap fun t => [t.a, t.b, t.c].filterMap fun i => s.coords[i]?
  if used.length != 3 * s.idx.length then some "spec:A index-out-of-bounds" else
  if s.box.any (fun x => x.isNaN) then some "spec:A nan" else
  let bad := (List.range dim).find? fun k =>
    let xs := used.map fun p => q (p.getD k 0)
    let lo := s.box.getD k 0
    let hi := s.box.getD (dim + k) 0
    match xs with
    | [] => !(lo == fmaxv && hi == -fmaxv)
    | x :: r => !(q lo == r.foldl min x && q hi == r.foldl max x)
  match bad with
  | some k => some s!"spec:A root-aabb-axis-{k}"
  | none =>
    -- every triangle has a leaf, and the box of that leaf is exactly the bounding box of the triangle's current vertices
    if s.leaf.length != s.idx.length then some s!"spec:B qbvh-leaves={s.leaf.length} ni={s.idx.length}" else
    let badLeaf := (s.idx.zip s.leaf).zipIdx.find? fun ((t, lb), _) =>
      match lb, s.coords[t.a]?, s.coords[t.b]?, s.coords[t.c]? with
      | some b, some pa, some pb, some pc =>
        if b.any (fun x => x.isNaN) then true else
        (List.range dim).any fun k =>
          let xa := q (pa.getD k 0); let xb := q (pb.getD k 0); let xc := q (pc.getD k 0)
          !(q (b.getD k 0) == min (min xa xb) xc && q (b.getD (dim + k) 0) == max (max xa xb) xc)
      | _, _, _, _ => true
    match badLeaf with
    | some (_, i) => some s!"spec:B qbvh-leaf-box-of-triangle-{i}-is-not-the-box-of-its-vertices"
    | none =>
      if s.hier != 1 then some "spec:H qbvh-not-a-bounding-hierarchy-of-its-leaves" else
      if s.q = 1 then none else some "qbvh-differs-from-fresh"

/-- some triangle is rounding-sensitive for `Triangle::normal()`: it is (nearly) flat, `|ab × ac|² ≤ 1e-12 · (longest edge)⁴`,
and its cross product is not computed exactly in binary64 (two corners do not coincide, and the coordinates are not all
small multiples of 1/8).  For such a triangle the exact value of the normal is `None` or meaningless, while the floating
point value is a unit vector made of rounding noise that differs between the cached data (computed in another frame or
with the vertices in another order) and a fresh build.  The exact model and the Float model take different branches: the
pseudo-normal comparison is skipped on these states (DESIGN §3, rounding-sensitive inputs); everything else is still
compared, and the model/implementation correspondence stays bit-exact. -/
def nearlyFlat (s : OState) : Bool :=
  s.idx.any fun t =>
    match s.coords[t.a]?, s.coords[t.b]?, s.coords[t.c]? with
    | some a, some b, some c =>
      if a.length != 3 then false else
      let A : V3 Rat := ⟨q (a.getD 0 0), q (a.getD 1 0), q (a.getD 2 0)⟩
      let B : V3 Rat := ⟨q (b.getD 0 0), q (b.getD 1 0), q (b.getD 2 0)⟩
      let C : V3 Rat := ⟨q (c.getD 0 0), q (c.getD 1 0), q (c.getD 2 0)⟩
      let n2 := ((B.sub A).cross (C.sub A)).normSq
      let m := max (max (B.sub A).normSq (C.sub A).normSq) (C.sub B).normSq
      let coincide := decide (A.x = B.x ∧ A.y = B.y ∧ A.z = B.z) || decide (A.x = C.x ∧ A.y = C.y ∧ A.z = C.z) ||
        decide (B.x = C.x ∧ B.y = C.y ∧ B.z = C.z)
      let exact := [A.x, A.y, A.z, B.x, B.y, B.z, C.x, C.y, C.z].all fun x => decide ((x * 8).den = 1) && decide (rabs x ≤ 1024)
      decide (n2 * 1000000000000 ≤ m * m) && !coincide && !exact
    | _, _, _ => false

def judgeState (dim3 : Bool) (s : OState) (pnExcused : Bool := false) : Option String :=
  let dropPN (fs : List String) : List String :=
    if nearlyFlat s || pnExcused then fs.filter (fun f => f != "Pv" && f != "Pe") else fs
  let g : Option String := match s.der with
    | none => none
    | some d => match dropPN (diffDerived s.d d) with
      | [] => none
      | fs => some ("differs-from-fresh(G) fields=" ++ ",".intercalate fs)
  let l : Option String := match s.lit with
    | none => if s.litTag = "panic" then some "fresh-build-panics" else none
    | some d => match dropPN (diffDerived s.d d) with
      | [] => none
      | fs => some ("differs-from-fresh(L) fields=" ++ ",".intercalate fs)
  -- the QBVH / AABB verdict first: it must not be masked by a difference in the other derived data
  match checkBox (if dim3 then 3 else 2) s, g, l, specCheck dim3 s, checkBuffers s with
  | some e, _, _, _, _ => some e
  | _, some e, _, _, _ => some e
  | _, _, some e, _, _ => some e
  | _, _, _, some e, _ => some e
  | _, _, _, _, some e => some e
  | _, _, _, _, _ => none

def splitSegs (toks : List String) : List (List String) :=
  let r := toks.foldl (fun (acc : List (List String) × List String) t =>
    if t = ";" then (acc.2.reverse :: acc.1, []) else (acc.1, t :: acc.2)) ([], [])
  (r.2.reverse :: r.1).reverse

/-- strip the `set_flags` result prefix of a segment -/
def stripRes : List String → List String
  | "ok" :: r => r
  | "badtri" :: _ :: r => r
  | "badadj" :: _ :: _ :: _ :: _ :: r => r
  | r => r

def opName {V} : RawOp V → String
  | .sf f => s!"sf({f})"
  | .rev => "rev"
  | .app m => s!"app({m.flags})"
  | .tv _ => "tv"
  | .sc xs => "sc(" ++ ",".intercalate (xs.map fun x => if x < 0 then "-" else "+") ++ ")"

/-- `false`: the model and the oracle follow `scaled` with `fixes/C11-scaled-pseudo-normals.diff` (cached pseudo-normals
recomputed: everything equals a fresh build).  `true` (fallback, should the fix be declined): the model follows `scaled` **as
written** and, in 3-D, a pseudo-normal difference with the fresh builds on a state reached through `sc` (until the next
`append`, which rebuilds) is not an immediate failure: every other check still runs on every state, and if nothing else
fails the history is reported with the verdict tag `scaled-pseudo-normals-not-recomputed` (for a `known:` line). -/
def scaledAsWritten : Bool := false

def oracleHist {V} (dim : Nat) (dim3 : Bool) (m : RawMesh V) (ops : List (RawOp V)) (out : List String)
    (asw : Bool := scaledAsWritten) : String :=
  let segs := splitSegs out
  let names := s!"new({m.flags})" :: ops.map opName
  let wf := inBounds m.vs.length m.idx
  let rec go (segs : List (List String)) (names : List String) (k : Nat) (hist : String) (judged : Nat)
      (tainted : Bool) (deferred : Option String) : String :=
    let done (judged : Nat) : String := match deferred with
      | some e => e
      | none => if judged = 0 then "skip no-state" else "pass"
    match segs, names with
    | [], _ => done judged
    | seg :: rest, nm :: nms =>
      let hist := if hist = "" then nm else hist ++ ">" ++ nm
      let tainted := if nm.startsWith "app" then false else if nm.startsWith "sc(" then (asw && dim3) else tainted
      match seg with
      | ["rhsfail"] => go rest nms (k + 1) hist judged tainted deferred
      | ["emptysc"] => go rest nms (k + 1) hist judged tainted deferred
      | ["empty"] => if m.idx.isEmpty then (if judged = 0 then "skip empty-indices" else "pass") else s!"fail step={k} hist={hist} unexpected-empty"
      | ["panic"] =>
        -- a panic is legitimate only for out-of-bounds input buffers or `append` producing an empty index buffer
        if !wf then (if judged = 0 then "skip out-of-bounds-input" else done judged)
        else if nm.startsWith "app" then (if judged = 0 then "skip append-panic" else done judged)
        else s!"fail step={k} hist={hist} panic"
      | _ =>
        match run (pstate dim) (stripRes seg) with
        | none => s!"fail step={k} hist={hist} unparsable-output"
        | some s =>
          match judgeState dim3 s tainted with
          | some e => s!"fail step={k} hist={hist} {e}"
          | none =>
            -- excused pseudo-normal difference (fallback mode only): remember the first one
            let deferred := if tainted && deferred.isNone && (judgeState dim3 s false).isSome
              then some s!"fail step={k} hist={hist} scaled-pseudo-normals-not-recomputed" else deferred
            go rest nms (k + 1) hist (judged + 1) tainted deferred
    | _ :: _, [] => "fail more-segments-than-ops"
  go segs names 0 "" 0 false none

/-! ## `contains3`: the inside test of a closed, outward-oriented mesh against the exact crossing parity -/

/-- final state of the model after the history (no dump) -/
def finalState {V N} [Geo V N] [ShowV V] [ShowN N] (dim3 : Bool) (m : RawMesh V) (ops : List (RawOp V)) : Option (Mesh V N) :=
  match withFlags (N := N) dim3 m.vs m.idx (Flags.ofNat m.flags) with
  | .ok s => ops.foldlM (fun s op => match op with
      | .sf f => (setFlags dim3 s (Flags.ofNat f)).map (·.1)
      | .rev => reverse dim3 s
      | .app r => match withFlags (N := N) dim3 r.vs r.idx (Flags.ofNat r.flags) with
        | .ok rhs => append dim3 s rhs
        | _ => some s
      | .tv xs => transformVertices (ShowV.isoAct xs) (ShowN.isoRot xs) s
      | .sc xs => if s.indices.isEmpty then some s else scaled dim3 (mirrorOf xs) (ShowV.scaleAct xs) s) s
  | _ => none

inductive Hit where
  | miss
  | hit
  | degenerate

/-- exact Möller–Trumbore: does the open ray `p + t d` (`t > 0`) cross the open triangle; `degenerate` when it meets the
boundary of the triangle or lies in its plane -/
def rayTri (p d a b c : V3 Rat) : Hit :=
  let e1 := b.sub a; let e2 := c.sub a
  let h := d.cross e2
  let det := e1.dot h
  let s := p.sub a
  if det = 0 then
    -- parallel: degenerate only if the ray lies in the plane of the triangle
    if (e1.cross e2).dot s = 0 then .degenerate else .miss
  else
    let u := s.dot h / det
    let qv := s.cross e1
    let v := d.dot qv / det
    let t := e2.dot qv / det
    if t < 0 then .miss else
    if u < 0 ∨ v < 0 ∨ u + v > 1 then .miss else
    if t = 0 ∨ u = 0 ∨ v = 0 ∨ u + v = 1 then .degenerate else .hit

/-- crossing parity along the first direction of `dirs` that meets no degenerate configuration -/
def insideParity (tris : List (V3 Rat × V3 Rat × V3 Rat)) (p : V3 Rat) : List (V3 Rat) → Option Bool
  | [] => none
  | d :: ds =>
    let r := tris.foldl (fun (acc : Option Nat) t => match acc with
      | none => none
      | some n => match rayTri p d t.1 t.2.1 t.2.2 with
        | .miss => some n
        | .hit => some (n + 1)
        | .degenerate => none) (some 0)
    match r with
    | some n => some (n % 2 == 1)
    | none => insideParity tris p ds

def dirsA : List (V3 Rat) := [⟨3/7, 5/11, 13/17⟩, ⟨-2/9, 7/13, 11/19⟩, ⟨5/23, -9/29, 4/31⟩, ⟨-7/37, -3/41, -8/43⟩]
def dirsB : List (V3 Rat) := [⟨-5/13, -3/17, 7/23⟩, ⟨11/29, -13/31, -2/37⟩, ⟨1/47, 6/53, -9/59⟩, ⟨-4/61, 10/67, 3/71⟩]

/-- squared distance from `p` to the triangle `abc` (Ericson's closest point, exact) -/
def distSqTri (p a b c : V3 Rat) : Rat :=
  let ab := b.sub a; let ac := c.sub a; let ap := p.sub a
  let d1 := ab.dot ap; let d2 := ac.dot ap
  if d1 ≤ 0 ∧ d2 ≤ 0 then ap.normSq else
  let bp := p.sub b
  let d3 := ab.dot bp; let d4 := ac.dot bp
  if d3 ≥ 0 ∧ d4 ≤ d3 then bp.normSq else
  let vc := d1 * d4 - d3 * d2
  if vc ≤ 0 ∧ d1 ≥ 0 ∧ d3 ≤ 0 then
    let v := d1 / (d1 - d3); (p.sub (a.add (ab.smul v))).normSq else
  let cp := p.sub c
  let d5 := ab.dot cp; let d6 := ac.dot cp
  if d6 ≥ 0 ∧ d5 ≤ d6 then cp.normSq else
  let vb := d5 * d2 - d1 * d6
  if vb ≤ 0 ∧ d2 ≥ 0 ∧ d6 ≤ 0 then
    let w := d2 / (d2 - d6); (p.sub (a.add (ac.smul w))).normSq else
  let va := d3 * d6 - d5 * d4
  if va ≤ 0 ∧ (d4 - d3) ≥ 0 ∧ (d5 - d6) ≥ 0 then
    let w := (d4 - d3) / ((d4 - d3) + (d5 - d6)); (p.sub (b.add ((c.sub b).smul w))).normSq else
  let denom := 1 / (va + vb + vc)
  let v := vb * denom; let w := vc * denom
  (p.sub ((a.add (ab.smul v)).add (ac.smul w))).normSq

def pcontains : P (RawMesh (V3 Float) × List (RawOp (V3 Float)) × List (V3 Float)) := do
  let m ← pmesh pv3; let ops ← plist (pop pv3); let pts ← plist pv3; pend; pure (m, ops, pts)

def trisOf (s : Mesh (V3 Float) (V3 Float)) : List (V3 Rat × V3 Rat × V3 Rat) :=
  ((allCoords s.vertices s.indices).getD []).map fun c => (q3 c.1, q3 c.2.1, q3 c.2.2)

/-! ## `pnsign3`: the pseudo-normal sign test at vertices and edges of a closed oriented mesh

Item: `v vid 0 p f` / `e tri slot p f` — `p` the query point, `f` the point of the feature the generator built `p` over.
Model: `insideBy (p - feature point) pn` with the model's own pseudo-normals of the final state (`vertices_pseudo_normal[vid]`,
`edges_pseudo_normal[tri][slot]`), i.e. the decision `dpt.dot(&pseudo_normal) <= 0.0` of `project_local_point_and_get_location`
under the assumption that the closest point is on that feature; for a vertex also the dot product itself (bit for bit).
Oracle (independent of the model): exact crossing parity on the input triangles; only points whose exact closest point on
the mesh is `f` (squared distance to `f` = minimum over all triangles of the exact squared distance) and that are farther
than 1e-6 from the surface are judged. -/
def ppnitem : P (Bool × Nat × Nat × V3 Float × V3 Float) := do
  let k ← tok; let i0 ← pnat; let i1 ← pnat; let p ← pv3; let f ← pv3; pure (k == "v", i0, i1, p, f)

def ppnsign : P (RawMesh (V3 Float) × List (RawOp (V3 Float)) × List (Bool × Nat × Nat × V3 Float × V3 Float)) := do
  let m ← pmesh pv3; let ops ← plist (pop pv3); let its ← plist ppnitem; pend; pure (m, ops, its)

def pnsignModel (s : Mesh (V3 Float) (V3 Float)) (it : Bool × Nat × Nat × V3 Float × V3 Float) : String :=
  let (isV, i0, i1, p, f) := it
  match s.pn with
  | none => "nopn"
  | some pn =>
    if isV then
      match s.vertices[i0]?, pn.vertices[i0]? with
      | some v, some n => let d := p.sub v; s!"{fb (insideBy d n)} {ff (d.dot n)}"
      | _, _ => "bad"
    else
      match pn.edges[i0]? with
      | some (e0, e1, e2) =>
        if i1 > 2 then "bad" else
        let n := if i1 = 0 then e0 else if i1 = 1 then e1 else e2
        s!"{fb (insideBy (p.sub f) n)} -"
      | none => "bad"

def pnsignOracle (m : RawMesh (V3 Float)) (its : List (Bool × Nat × Nat × V3 Float × V3 Float)) (o : List String) : String :=
  if o = ["nobuild"] then "skip nobuild" else
  if o.length != 2 * its.length then "fail unparsable-output" else
  let bits := (List.range its.length).map fun k => o.getD (2 * k) "?"
  let tris : List (V3 Rat × V3 Rat × V3 Rat) :=
    ((allCoords m.vs m.idx).getD []).map fun c => (q3 c.1, q3 c.2.1, q3 c.2.2)
  let tol : Rat := 1 / 1000000
  let res := (its.zip bits).map fun (it, bit) =>
    let P := q3 it.2.2.2.1
    let F := q3 it.2.2.2.2
    match tris.map (fun t => distSqTri P t.1 t.2.1 t.2.2) with
    | [] => (0 : Nat)
    | d0 :: ds =>
      let dmin := ds.foldl (fun a b => if b < a then b else a) d0
      if dmin < tol * tol then 0 else
      if (P.sub F).normSq != dmin then 0 else
      match insideParity tris P dirsB with
      | none => 0
      | some ins => if fb ins = bit then 1 else 2
  match res.findIdx? (· == 2) with
  | some k => s!"fail item {k} pseudo-normal sign test disagrees with the crossing parity"
  | none => if res.any (· == 1) then "pass" else "skip no-point-with-that-closest-feature"


/-! ## `histq3` / `histq2`: real queries on the final mesh of a history (oracle only, C20's panic / NaN clause)

The harness replays the history of a `hist3` / `hist2` case and runs ray casts, point projections and ball queries on the
final mesh (`harness/src/c11.rs`, `histq`).  The verdict: a panic in a query is a failure, a NaN / infinite float in a result
is a failure, and every result must pass a cheap sanity test against the exact box `B` of the triangles' vertices and one
vertex `W` of the mesh (both printed from the vertex / index buffers, not from the QBVH). -/
namespace HQ

inductive Item where
  | ray (o d : List Float) (mx : Float) (t1 : Option Float) (t2 : Option (Float × List Float))
  | proj (p pr : List Float)
  | ball (c : List Float) (r pred : Float) (dist : Option Float) (it : Option Bool)
         (con : Option (Option (Float × List Float × List Float × List Float × List Float)))

/-- `u` (query unsupported) → none -/
def punsup {α} (p : P α) : P (Option α) := do
  let t ← peek
  if t = "u" then do let _ ← tok; pure none else do let x ← p; pure (some x)

def pitem (d : Nat) : P Item := do
  let t ← tok
  if t = "r" then do
    let o ← rep pf d; let u ← rep pf d; let mx ← pf; let _ ← pbool
    let t1 ← poptDash pfo
    let t2 ← poptDash pfo
    match t2 with
    | none => do expect "-"; pure (.ray o u mx t1 none)
    | some x => do let n ← rep pfo d; pure (.ray o u mx t1 (some (x, n)))
  else if t = "p" then do
    let p ← rep pf d; let pr ← rep pfo d; let _ ← pbool; pure (.proj p pr)
  else if t = "b" then do
    let c ← rep pf d; let r ← pf; let pred ← pf
    let dist ← punsup pfo; let it ← punsup pbool
    let k ← peek
    if k = "u" then do let _ ← tok; pure (.ball c r pred dist it none)
    else if k = "-" then do let _ ← tok; pure (.ball c r pred dist it (some none))
    else do
      expect "c"; let cd ← pfo; let p1 ← rep pfo d; let p2 ← rep pfo d; let n1 ← rep pfo d; let n2 ← rep pfo d
      pure (.ball c r pred dist it (some (some (cd, p1, p2, n1, n2))))
  else failure

def pitems (d : Nat) : Nat → P (List Item)
  | 0 => pure []
  | fuel + 1 => fun s => match s with
    | [] => some ([], [])
    | _ => (do let x ← pitem d; let xs ← pitems d fuel; pure (x :: xs)) s

structure Head where
  dim : Nat
  flags : Nat
  ntri : Nat
  lo : List Rat
  hi : List Rat
  /-- one vertex of the mesh (first corner of the first triangle) -/
  w : List Rat
  /-- some triangle has (nearly) zero area: `area² ≤ 1e-12 · (longest edge)⁴` -/
  degenerate : Bool
  /-- 3-D mesh with pseudo-normals (`ORIENTED` / `FIX_INTERNAL_EDGES`): solid for point queries -/
  solid : Bool

def fin (l : List Float) : Bool := l.all FloatIO.isFinite
def qs (l : List Float) : List Rat := l.map q
def maxAbs (l : List Rat) : Rat := l.foldl (fun m x => max m (rabs x)) 0
def dist2 (a b : List Rat) : Rat := (a.zip b).foldl (fun s (x, y) => s + (x - y) * (x - y)) 0
def norm2 (a : List Rat) : Rat := a.foldl (fun s x => s + x * x) 0
def dotL (a b : List Rat) : Rat := (a.zip b).foldl (fun s (x, y) => s + x * y) 0
def inBox (lo hi p : List Rat) (tol : Rat) : Bool :=
  (lo.zip (hi.zip p)).all fun (l, h, x) => decide (l - tol ≤ x) && decide (x ≤ h + tol)
/-- squared distance from `p` to the box -/
def boxDist2 (lo hi p : List Rat) : Rat :=
  (lo.zip (hi.zip p)).foldl (fun s (l, h, x) => let e := max (max (l - x) (x - h)) 0; s + e * e) 0
def eps6 : Rat := 1 / 1000000

/-- `4 · area²` of the triangle (Lagrange identity, any dimension) against its longest edge -/
def triDegenerateGeo (a b c : List Rat) : Bool :=
  let ab := (b.zip a).map fun (x, y) => x - y
  let ac := (c.zip a).map fun (x, y) => x - y
  let bc := (c.zip b).map fun (x, y) => x - y
  let cr2 := norm2 ab * norm2 ac - dotL ab ac * dotL ab ac
  let m := max (max (norm2 ab) (norm2 ac)) (norm2 bc)
  decide (cr2 * 1000000000000 ≤ m * m)

/-- header: the final buffers as printed by the harness; box, vertex and degeneracy are computed here -/
def phead : P (Option Head) := do
  expect "Q"; let d ← pnat; expect "F"; let f ← pnat
  expect "V"; let nv ← pnat; let vs ← rep (rep pfo d) nv
  expect "I"; let idx ← plist ptri
  if !(vs.all fin) then pure none else
  let V := vs.map qs
  let corners : List (List Rat) := idx.flatMap fun t => [t.a, t.b, t.c].filterMap fun i => V[i]?
  if corners.length != 3 * idx.length then failure else
  let lo := (List.range d).map fun k => match corners with
    | [] => (0 : Rat)
    | x :: r => r.foldl (fun m p => min m (p.getD k 0)) (x.getD k 0)
  let hi := (List.range d).map fun k => match corners with
    | [] => (0 : Rat)
    | x :: r => r.foldl (fun m p => max m (p.getD k 0)) (x.getD k 0)
  let deg := idx.any fun t => match V[t.a]?, V[t.b]?, V[t.c]? with
    | some a, some b, some c => triDegenerateGeo a b c
    | _, _, _ => true
  pure (some ⟨d, f, idx.length, lo, hi, corners.headD [], deg, d == 3 && (f / 8 % 2 == 1 || f / 128 % 2 == 1)⟩)

inductive V where
  | ok
  | nan (why : String)
  | bad (why : String)

/-- `full = false` (a zero-area triangle is present, the geometric answers on it are not specified): only the NaN scan and
the sign tests -/
def judgeItem (h : Head) (full : Bool) : Item → V
  | .ray o u mx t1 t2 =>
    let lo := h.lo; let hi := h.hi; let O := qs o; let U := qs u
    let chk (t : Float) (n : Option (List Rat)) : V :=
      if !FloatIO.isFinite t then .nan "ray-toi" else
      let T := q t
      if T < 0 then .bad "ray-toi-negative" else
      if T > q mx * (1 + eps6) then .bad "ray-toi-beyond-max" else
      if !full then .ok else
      -- a ray (nearly) parallel to the face it hits is rounding-sensitive (the exact ray lies in the plane): not judged
      let grazing := match n with
        | some N => decide (dotL N U * dotL N U ≤ (1 / 1000000000000000000) * norm2 U)
        | none => false
      if grazing then .ok else
      let P := (O.zip U).map fun (a, b) => a + T * b
      let tol := eps6 * (1 + maxAbs lo + maxAbs hi + maxAbs O + T * maxAbs U)
      if inBox lo hi P tol then .ok else .bad "ray-hit-outside-mesh-aabb"
    match t1, t2 with
    | none, none => .ok
    | some a, some (b, n) =>
      if !fin n then .nan "ray-normal" else
      match chk a (some (qs n)), chk b (some (qs n)) with
      | .ok, .ok =>
        if norm2 (qs n) > 1 + eps6 then .bad "ray-normal-longer-than-1" else
        let tol := eps6 * (1 + rabs (q a) + rabs (q b))
        if rabs (q a - q b) ≤ tol then .ok else .bad "cast_local_ray-and-cast_local_ray_and_get_normal-differ"
      | .ok, e => e
      | e, _ => e
    | _, _ => .bad "cast_local_ray-and-cast_local_ray_and_get_normal-differ(hit/miss)"
  | .proj p pr =>
    if !fin pr then .nan "projection" else
    if !full then .ok else
    let lo := h.lo; let hi := h.hi; let Pt := qs p; let R := qs pr
    let tol := eps6 * (1 + maxAbs lo + maxAbs hi + maxAbs Pt)
    if !inBox lo hi R tol then .bad "projection-outside-mesh-aabb" else
    -- the vertex `w` belongs to the mesh: the projection is not farther than it
    if leTol (dist2 Pt R) (dist2 Pt h.w) eps6 then .ok else .bad "projection-farther-than-a-vertex"
  | .ball c r pred dist it con =>
    match dist, it, con with
    | some dd, some itv, some k =>
      if !FloatIO.isFinite dd then .nan "distance" else
      let lo := h.lo; let hi := h.hi; let C := qs c; let D := q dd; let R := q r
      let tol := eps6 * (1 + maxAbs lo + maxAbs hi + maxAbs C)
      if D < 0 then .bad "distance-negative" else
      let conFinite : Bool := match k with
        | none => true
        | some (cd, p1, p2, n1, n2) => FloatIO.isFinite cd && fin p1 && fin p2 && fin n1 && fin n2
      if !conFinite then .nan "contact" else
      if !full then .ok else
      if (D + R + tol) * (D + R + tol) < boxDist2 lo hi C then .bad "distance-smaller-than-distance-to-aabb" else
      if D > tol && (D - tol) * (D - tol) > dist2 C h.w then .bad "distance-larger-than-distance-to-a-vertex" else
      -- an ORIENTED 3-D mesh is solid for the ball / point-query route of `intersection_test` only (known, C03 `o_it`)
      if itv && D > tol && !h.solid then .bad "intersection_test-true-but-distance-positive" else
      match k with
      | none => if D + tol < q pred then .bad "contact-none-but-distance-below-prediction" else .ok
      | some (cd, p1, p2, n1, n2) =>
        let CD := q cd
        if CD > q pred + tol then .bad "contact-dist-above-prediction" else
        if D > tol && rabs (CD - D) > tol then .bad "contact-dist-differs-from-distance" else
        if D ≤ tol && CD > 2 * tol then .bad "contact-dist-positive-but-distance-zero" else
        if !inBox lo hi (qs p1) tol then .bad "contact-point1-outside-mesh-aabb" else
        -- world-space witness on the ball
        if rabs (dist2 (qs p2) C - R * R) > eps6 * (1 + maxAbs C) then .bad "contact-point2-not-on-the-ball" else
        if rabs (norm2 (qs n1) - 1) > eps6 || rabs (norm2 (qs n2) - 1) > eps6 then .bad "contact-normal-not-unit" else .ok
    | _, _, _ => .bad "query-unsupported"

def kind : Item → String
  | .ray .. => "ray"
  | .proj .. => "proj"
  | .ball .. => "ball"

def oracle (o : List String) : String :=
  match o with
  | ["histpanic"] => "skip history-panicked(judged-by-hist)"
  | ["empty"] => "skip empty-indices"
  | "emptyfinal" :: _ => "skip empty-final-mesh(non-empty-meshes-only)"
  | "panic" :: r =>
    -- `panic <query> <msg> <header>`: the header tells whether the final mesh has a zero-area triangle
    let tag := match phead (r.drop 2) with
      | some (some h, _) => if h.degenerate then "[degenerate-triangle]" else ""
      | _ => ""
    "fail panic-in-query-after-history " ++ " ".intercalate (r.take 2) ++ tag
  | _ =>
    match phead o with
    | none => "fail unparsable-output"
    | some (none, _) => "skip non-finite-vertices"
    | some (some h, rest) =>
      if h.ntri = 0 then "skip empty-final-mesh(non-empty-meshes-only)" else
      match run (do let xs ← pitems h.dim (rest.length + 1); pend; pure xs) rest with
      | none => "fail unparsable-output"
      | some items =>
        let tag := if h.degenerate then "[degenerate-triangle]" else ""
        let rec go : List Item → Nat → Option String
          | [], _ => none
          | it :: r, k => match judgeItem h (!h.degenerate) it with
            | .ok => go r (k + 1)
            | .nan w => some s!"fail nan-in-query-after-history item={k} {w}{tag}"
            | .bad w => some s!"fail query-after-history item={k} {kind it} {w}{tag}"
        match go items 0 with
        | some e => e
        | none => if items.isEmpty then "skip no-queries" else "pass"

end HQ

/-! ## `bvhq3` / `bvhq2`: a QBVH-backed query (`project_local_point`) after a history, against brute force

The real mesh projects every query point with a best-first traversal of its QBVH.  Whatever the history did to the tree
(`scaled` transforms it in place, `set_flags` keeps or rebuilds it, ...), the answer must be the distance to the nearest
triangle of the **current** buffers.  Model: the history run by the model, then the exact (rational) brute-force distance
over all triangles of the model's final buffers (correspondence: buffers bit-exact, distances within `reltol`, see
`relations.json`).  Oracle: the same brute force on the buffers printed by the implementation. -/

/-- nearest `Float` (up to an ulp) of a rational -/
def ratToFloat (r : Rat) : Float :=
  if r = 0 then 0 else
  let n := r.num.natAbs
  let d := r.den
  let k : Int := 64 + (d.log2 : Int) - (n.log2 : Int)
  let qn : Nat := if k ≥ 0 then (n <<< k.toNat) / d else n / (d <<< (-k).toNat)
  let f := (Float.ofNat qn).scaleB (-k)
  if r < 0 then -f else f

class Embed3 (V : Type) where
  /-- the point as an exact point of space (2-D: `z = 0`) -/
  toQ3 : V → V3 Rat
  ofList : List Float → V
instance : Embed3 (V3 Float) := ⟨q3, fun l => ⟨l.getD 0 0, l.getD 1 0, l.getD 2 0⟩⟩
instance : Embed3 (V2 Float) := ⟨fun p => ⟨q p.x, q p.y, 0⟩, fun l => ⟨l.getD 0 0, l.getD 1 0⟩⟩

/-- exact squared distance from `p` to the nearest triangle (`none`: no triangle) -/
def minDistSq (tris : List (V3 Rat × V3 Rat × V3 Rat)) (p : V3 Rat) : Option Rat :=
  tris.foldl (fun acc t => let d := distSqTri p t.1 t.2.1 t.2.2
    match acc with | none => some d | some m => some (min m d)) none

/-- a triangle on which Ericson's closest-point case analysis (and parry's) divides by a vanishing quantity:
zero area -/
def flatTri (t : V3 Rat × V3 Rat × V3 Rat) : Bool :=
  let n := (t.2.1.sub t.1).cross (t.2.2.sub t.1)
  let m := max (max (t.2.1.sub t.1).normSq (t.2.2.sub t.1).normSq) (t.2.2.sub t.2.1).normSq
  decide (n.normSq * 1000000000000 ≤ m * m)

def pbvhq {V} (pv : P V) : P (RawMesh V × List (RawOp V) × List V) := do
  let m ← pmesh pv; let ops ← plist (pop pv); let pts ← plist pv; pend; pure (m, ops, pts)

def bvhqHandler {V N} [Geo V N] [ShowV V] [ShowN N] [Embed3 V] (pv : P V) (dim : Nat) (dim3 : Bool) : Handler where
  model := fun a => (run (pbvhq pv) a).map fun (m, ops, pts) =>
    match finalState (N := N) dim3 m ops with
    | none => "nobuild"
    | some s =>
      let tris := ((allCoords s.vertices s.indices).getD []).map fun c => (Embed3.toQ3 c.1, Embed3.toQ3 c.2.1, Embed3.toQ3 c.2.2)
      " ".intercalate (["V", toString s.vertices.length] ++ s.vertices.flatMap ShowV.showV ++
        ["I", toString s.indices.length] ++ s.indices.flatMap (fun t => [toString t.a, toString t.b, toString t.c]) ++ ["R"] ++
        pts.map fun p => match minDistSq tris (Embed3.toQ3 p) with
          | some d => ff (Float.sqrt (ratToFloat d))
          | none => "nan")
  oracle := fun a o => match run (pbvhq pv) a with
    | none => "skip bad-args"
    | some (_, _, pts) =>
      if o = ["nobuild"] then "skip nobuild" else
      let parsed : Option (List (List Float) × List Tri × List Float) := run (do
        expect "V"; let nv ← pnat; let coords ← rep (rep pfo dim) nv
        expect "I"; let idx ← plist ptri
        expect "R"; let ds ← rep pfo pts.length
        pend; pure (coords, idx, ds)) o
      match parsed with
      | none => "fail unparsable-output"
      | some (coords, idx, ds) =>
        let vs : List V := coords.map Embed3.ofList
        match allCoords vs idx with
        | none => "fail index-out-of-bounds"
        | some cs =>
          let tris := cs.map fun c => (Embed3.toQ3 c.1, Embed3.toQ3 c.2.1, Embed3.toQ3 c.2.2)
          if tris.any flatTri then "skip degenerate-triangle" else
          let bad := (pts.zip ds).zipIdx.find? fun ((p, d), _) =>
            if d.isNaN || !FloatIO.isFinite d then true else
            match minDistSq tris (Embed3.toQ3 p) with
            | none => true
            | some e2 =>
              let r2 := q d * q d
              let tol : Rat := tolDefault * (1 + e2 + r2)
              !(decide (r2 ≤ e2 + tol) && decide (e2 ≤ r2 + tol))
          match bad with
          | some (_, k) => s!"fail point {k}: project_local_point (QBVH traversal) is not at the brute-force distance of the current triangles"
          | none => if pts.isEmpty then "skip no-point" else "pass"

/-! ## `boxscale3` / `boxscale2`: `Aabb::scaled` of a triangle's box is the box of the scaled triangle -/

def fbox3 (b : V3 Float × V3 Float) : String := fv3 b.1 ++ " " ++ fv3 b.2
def fbox2 (b : V2 Float × V2 Float) : String := fv2 b.1 ++ " " ++ fv2 b.2

/-- oracle: both printed boxes are, axis by axis, the exact min / max of the three products `v_k * s` up to rounding, and
they are the same box -/
def boxscaleOracle (dim : Nat) (a : List Float) (o : List String) : String :=
  match run (do let xs ← rep pfo (4 * dim); pend; pure xs) o with
  | none => "fail unparsable-output"
  | some out =>
    if a.length != 4 * dim then "skip bad-args" else
    if out.any (fun x => x.isNaN) then "fail nan" else
    let b1 := out.take (2 * dim)
    let b2 := out.drop (2 * dim)
    if !((b1.zip b2).all fun (x, y) => x == y) then "fail Aabb::scaled(box(triangle)) differs from box(scaled triangle)" else
    let bad := (List.range dim).find? fun k =>
      let sk := q (a.getD (3 * dim + k) 0)
      let xs := [q (a.getD k 0) * sk, q (a.getD (dim + k) 0) * sk, q (a.getD (2 * dim + k) 0) * sk]
      let lo := xs.foldl min (xs.headD 0)
      let hi := xs.foldl max (xs.headD 0)
      let l := q (b1.getD k 0); let h := q (b1.getD (dim + k) 0)
      !(leTol l lo tolDefault && leTol lo l tolDefault && leTol h hi tolDefault && leTol hi h tolDefault)
    match bad with
    | some k => s!"fail axis {k}: the scaled box is not the bounding interval of the scaled vertices"
    | none => "pass"

/-! ## `tnc3`: `TriMesh::triangle_normal_constraints(i)` for every triangle of the final mesh of a history

Output (harness and model): `V nv coords I ni idx F flags N { - | panic | face e0 e1 e2 (12 floats) }*ni` | `nobuild`. -/

def tncShow (s : Mesh (V3 Float) (V3 Float)) : String :=
  let head := ["V", toString s.vertices.length] ++ s.vertices.flatMap ShowV.showV ++
    ["I", toString s.indices.length] ++ s.indices.flatMap (fun t => [toString t.a, toString t.b, toString t.c]) ++
    ["F", toString s.flags.toNat, "N"]
  let ents := (List.range s.indices.length).flatMap fun i =>
    match triangleNormalConstraints s i with
    | .panic => ["panic"]
    | .ret none => ["-"]
    | .ret (some r) => [fv3 r.face, fv3 r.e0, fv3 r.e1, fv3 r.e2]
  " ".intercalate (head ++ ents)

def ptncOut : P (List (V3 Float) × List Tri × Nat × List (Option (List Float))) := do
  expect "V"; let nv ← pnat; let coords ← rep (rep pfo 3) nv
  expect "I"; let idx ← plist ptri
  expect "F"; let f ← pnat
  expect "N"
  let ents ← rep (poptDash (rep pfo 12)) idx.length
  pend
  pure (coords.map (fun c => (⟨c.getD 0 0, c.getD 1 0, c.getD 2 0⟩ : V3 Float)), idx, f, ents)

/-- approximate square root of a non-negative rational (relative error about `1e-16`) -/
def rsqrt (x : Rat) : Rat := q (Float.sqrt (ratToFloat x))

/-- the oracle of `tnc3`, from the buffers and flags the implementation printed (independent of the model's accumulation):
* without `FIX_INTERNAL_EDGES` (bit 7 and `MERGE_DUPLICATE_VERTICES`) every answer is `None`;
* with it, for triangle `i = (a, b, c)`: `face` is the unit vector along `(b - a) x (c - a)`; `edges[k]` is the unit vector
  along the sum of the unit normals of ALL triangles (having a normal) that contain the undirected edge
  `{idx[k], idx[(k+1)%3]}`; `None` exactly when the triangle has no normal (norm <= f64::EPSILON) or one of the three sums
  is not longer than `1e-6`.  Thresholds are judged with a relative margin of `1e-6`, values with `1e-9` (`1e-13 / |sum|`
  added for the cancellation in short sums). -/
def tncOracle (o : List String) : String :=
  if o = ["nobuild"] then "skip nobuild" else
  if o.contains "panic" then "fail triangle_normal_constraints panicked" else
  match run ptncOut o with
  | none => "fail unparsable-output"
  | some (vsF, idx, f, ents) =>
    let fl := Flags.ofNat f
    if !(fl.fix7 && fl.merge) then
      (if ents.all Option.isNone then (if ents.isEmpty then "skip no-triangle" else "pass")
       else "fail constraints returned without FIX_INTERNAL_EDGES")
    else
    let vs := vsF.map q3
    match allCoords vs idx with
    | none => "skip index-out-of-bounds"
    | some cs =>
      let eps2 : Rat := (1 / 4503599627370496) * (1 / 4503599627370496)
      let mrg : Rat := 1 / 1000000
      let nrm := cs.map fun c => (c.2.1.sub c.1).cross (c.2.2.sub c.1)
      let sqs := nrm.map fun n => n.dot n
      if sqs.any (fun x => eps2 * (1 - mrg) ≤ x && x ≤ eps2 * (1 + mrg)) then "skip normal-at-threshold" else
      let units : List (Option (V3 Rat)) := (nrm.zip sqs).map fun (n, x) => if x > eps2 then some (n.sdiv (rsqrt x)) else none
      let key (a b : Nat) : Nat × Nat := if a ≤ b then (a, b) else (b, a)
      let has (t : Tri) (k : Nat × Nat) : Bool := key t.a t.b == k || key t.a t.c == k || key t.b t.c == k
      let esum (k : Nat × Nat) : V3 Rat := (idx.zip units).foldl (fun acc (t, u) => match u with
        | some u => if has t k then acc.add u else acc
        | none => acc) ⟨0, 0, 0⟩
      let close (x y tol : Rat) : Bool := rabs (x - y) ≤ tol
      let closeV (u v : V3 Rat) (tol : Rat) : Bool := close u.x v.x tol && close u.y v.y tol && close u.z v.z tol
      let res : List (Option String) := (List.range idx.length).map fun i =>
        match idx[i]?, units[i]?, ents[i]? with
        | some t, some u, some ent =>
          let sums := [esum (key t.a t.b), esum (key t.b t.c), esum (key t.c t.a)]
          let lens := sums.map fun e => e.dot e
          let lim : Rat := 1 / 1000000000000
          match ent with
          | none =>
            if u.isNone || lens.any (fun l => l ≤ lim * (1 + mrg)) then none
            else some s!"triangle {i}: None although the triangle has a normal and the three edge sums are longer than 1e-6"
          | some xs =>
            match u with
            | none => some s!"triangle {i}: constraints returned for a triangle without normal"
            | some u =>
              if lens.any (fun l => l ≤ lim * (1 - mrg)) then some s!"triangle {i}: constraints returned with an edge sum not longer than 1e-6" else
              let g (k : Nat) : V3 Rat := ⟨q (xs.getD (3 * k) 0), q (xs.getD (3 * k + 1) 0), q (xs.getD (3 * k + 2) 0)⟩
              if !closeV (g 0) u tolDefault then some s!"triangle {i}: face is not the unit normal of the triangle" else
              match (List.range 3).find? (fun k =>
                  let e := sums.getD k ⟨0, 0, 0⟩
                  let l := rsqrt (e.dot e)
                  !closeV (g (k + 1)) (e.sdiv l) (tolDefault + (1 / 10000000000000) / l)) with
              | some k => some s!"triangle {i}: edges[{k}] is not the normalised sum of the normals of the triangles around the edge"
              | none => none
        | _, _, _ => some s!"triangle {i}: missing entry"
      match res.find? Option.isSome with
      | some (some e) => s!"fail {e}"
      | _ => if ents.isEmpty then "skip no-triangle" else "pass"

def handler (fn : String) : Option Handler :=
  match fn with
  | "bvhq3" => some (bvhqHandler (N := V3 Float) pv3 3 true)
  | "bvhq2" => some (bvhqHandler (N := Unit) pv2 2 false)
  | "boxscale3" => some {
      model := fun a => run (do
        let pa ← pv3; let pb ← pv3; let pc ← pv3; let s ← pv3; pend
        pure (fbox3 (aabbScaled3 (triBox3 (pa, pb, pc)) s) ++ " " ++ fbox3 (triBox3 (scalePt3 s pa, scalePt3 s pb, scalePt3 s pc)))) a
      oracle := fun a o => match run (rep pf 12) a with
        | some xs => boxscaleOracle 3 xs o
        | none => "skip bad-args" }
  | "boxscale2" => some {
      model := fun a => run (do
        let pa ← pv2; let pb ← pv2; let pc ← pv2; let s ← pv2; pend
        pure (fbox2 (aabbScaled2 (triBox2 (pa, pb, pc)) s) ++ " " ++ fbox2 (triBox2 (scalePt2 s pa, scalePt2 s pb, scalePt2 s pc)))) a
      oracle := fun a o => match run (rep pf 8) a with
        | some xs => boxscaleOracle 2 xs o
        | none => "skip bad-args" }
  -- `scaled` as written on the current tree (cached pseudo-normals scaled and normalised), everything else fixed
  | "hist3s" => some {
      model := fun a => (run (pcase pv3) a).map fun (m, ops) => runHist (N := V3 Float) false true m ops true
      oracle := fun a o => match run (pcase pv3) a with
        | some (m, ops) => oracleHist 3 true m ops o true
        | none => "skip bad-args" }
  | "hist2s" => some {
      model := fun a => (run (pcase pv2) a).map fun (m, ops) => runHist (N := Unit) false false m ops true
      oracle := fun a o => match run (pcase pv2) a with
        | some (m, ops) => oracleHist 2 false m ops o true
        | none => "skip bad-args" }
  | "hist3" => some {
      model := fun a => (run (pcase pv3) a).map fun (m, ops) => runHist (N := V3 Float) false true m ops scaledAsWritten
      oracle := fun a o => match run (pcase pv3) a with
        | some (m, ops) => oracleHist 3 true m ops o
        | none => "skip bad-args" }
  | "hist2" => some {
      model := fun a => (run (pcase pv2) a).map fun (m, ops) => runHist (N := Unit) false false m ops scaledAsWritten
      oracle := fun a o => match run (pcase pv2) a with
        | some (m, ops) => oracleHist 2 false m ops o
        | none => "skip bad-args" }
  | "contains3" => some {
      -- specification as model: crossing parity (directions `dirsA`) on the model's final buffers
      model := fun a => (run pcontains a).map fun (m, ops, pts) =>
        match finalState (N := V3 Float) true m ops with
        | none => "nobuild"
        | some s =>
          let tris := trisOf s
          " ".intercalate (pts.map fun p => match insideParity tris (q3 p) dirsA with
            | some true => "1" | some false => "0" | none => "?")
      -- oracle: an independent parity (directions `dirsB`) on the input buffers; points closer than 1e-6 to the
      -- surface are outside the property's domain
      oracle := fun a o => match run pcontains a with
        | none => "skip bad-args"
        | some (m, ops, pts) =>
          if o = ["nobuild"] then "skip nobuild" else
          if o.length != pts.length then "fail unparsable-output" else
          -- the histories keep the surface and its orientation; `sc` (any sign pattern: `scaled` rewinds ORIENTED meshes) is
          -- applied here in exact arithmetic
          let scaleOf (p : V3 Rat) : V3 Rat := ops.foldl (fun p op => match op with
            | .sc xs => (⟨p.x * q (xs.getD 0 1), p.y * q (xs.getD 1 1), p.z * q (xs.getD 2 1)⟩ : V3 Rat)
            | _ => p) p
          let tris : List (V3 Rat × V3 Rat × V3 Rat) :=
            ((allCoords m.vs m.idx).getD []).map fun c => (scaleOf (q3 c.1), scaleOf (q3 c.2.1), scaleOf (q3 c.2.2))
          let tol : Rat := 1 / 1000000
          let res := (pts.zip o).map fun (p, bit) =>
            let P := q3 p
            if tris.any (fun t => distSqTri P t.1 t.2.1 t.2.2 < tol * tol) then (0 : Nat) else
            match insideParity tris P dirsB with
            | none => 0
            | some ins => if (if ins then "1" else "0") = bit then 1 else 2
          match res.findIdx? (· == 2) with
          | some k => s!"fail point {k} contains_local_point disagrees with the crossing parity"
          | none => if res.any (· == 1) then "pass" else "skip all-points-near-surface" }
  | "tnc3" => some {
      model := fun a => (run (pcase pv3) a).map fun (m, ops) =>
        match finalState (N := V3 Float) true m ops with
        | none => "nobuild"
        | some s => tncShow s
      oracle := fun a o => match run (pcase pv3) a with
        | some _ => tncOracle o
        | none => "skip bad-args" }
  | "pnsign3" => some {
      model := fun a => (run ppnsign a).map fun (m, ops, its) =>
        match finalState (N := V3 Float) true m ops with
        | none => "nobuild"
        | some s => " ".intercalate (its.map (pnsignModel s))
      oracle := fun a o => match run ppnsign a with
        | none => "skip bad-args"
        | some (m, _, its) => pnsignOracle m its o }
  | "hist3w" => some {
      model := fun a => (run (pcase pv3) a).map fun (m, ops) => runHist (N := V3 Float) true true m ops
      oracle := fun a o => match run (pcase pv3) a with
        | some (m, ops) => oracleHist 3 true m ops o
        | none => "skip bad-args" }
  | "hist2w" => some {
      model := fun a => (run (pcase pv2) a).map fun (m, ops) => runHist (N := Unit) true false m ops
      oracle := fun a o => match run (pcase pv2) a with
        | some (m, ops) => oracleHist 2 false m ops o
        | none => "skip bad-args" }
  | "histq3" => some {
      model := fun _ => some "oracle-only"
      oracle := fun a o => match run (pcase pv3) a with
        | some _ => HQ.oracle o
        | none => "skip bad-args" }
  | "histq2" => some {
      model := fun _ => some "oracle-only"
      oracle := fun a o => match run (pcase pv2) a with
        | some _ => HQ.oracle o
        | none => "skip bad-args" }
  | _ => none

end C11
