import ParryModel.Field
import ParryModel.C11.Lemmas
import ParryModel.C11.Theorems4
/-!
# C11, `HALF_EDGE_TOPOLOGY`: `twin` is an involution

`topology_twin_involution`: in the topology `compute_topology` builds (fewer than `u32::MAX / 3` triangles, so that no
half-edge id equals the `u32::MAX` that marks "no twin"), if half-edge `i` has a twin `j` then `j` is a half-edge and its
twin is `i`.  Proof: the keys of `half_edge_map` (directed edges) and its values (half-edge ids) are both pairwise distinct;
the twin pass only ever writes the pair `twin[h(a,b)] = h(b,a)`, `twin[h(b,a)] = h(a,b)`, both at once.
-/
namespace C11
open Model Model.TM

private abbrev Entry := (Nat × Nat) × Nat

/-- keys pairwise distinct, values pairwise distinct, values are half-edge ids, no twin set yet -/
private structure MapKV (st : TopoState) : Prop where
  keys : ∀ x ∈ st.map, ∀ y ∈ st.map, x.1 = y.1 → x = y
  vals : ∀ x ∈ st.map, ∀ y ∈ st.map, x.2 = y.2 → x = y
  bound : ∀ x ∈ st.map, x.2 < st.hes.length
  notwin : ∀ h ∈ st.hes, h.twin = umax

private theorem alookup_none_not_mem {k : Nat × Nat} {l : List Entry} (h : alookup k l = none) :
    ∀ x ∈ l, x.1 ≠ k := by
  induction l with
  | nil => intro x hx; cases hx
  | cons y ys ih =>
    obtain ⟨k', v⟩ := y
    rw [alookup_cons] at h
    split at h
    · cases h
    · rename_i hne
      intro x hx
      rcases List.mem_cons.mp hx with rfl | hx
      · intro e
        apply hne
        simp only at e
        rw [e]
        simp
      · exact ih h x hx

private theorem alookup_mem_pair {k : Nat × Nat} {v : Nat} {l : List Entry} (h : alookup k l = some v) :
    (k, v) ∈ l := by
  induction l with
  | nil => simp [alookup] at h
  | cons y ys ih =>
    obtain ⟨k', v'⟩ := y
    rw [alookup_cons] at h
    split at h
    · rename_i he
      cases h
      have : k = k' := by simpa using he
      rw [this]
      exact List.mem_cons_self ..
    · exact List.mem_cons_of_mem _ (ih h)

private theorem addHalfEdge_kv {st st' : TopoState} {fid base k v vnext : Nat} (hi : MapKV st)
    (hbk : base + k = st.hes.length) (h : addHalfEdge st fid base k v vnext = .ok st') :
    MapKV st' ∧ st'.hes.length = st.hes.length + 1 := by
  unfold addHalfEdge at h
  simp only at h
  split at h
  · split at h <;> cases h
  · rename_i hlk
    have hfresh := alookup_none_not_mem hlk
    split at h
    · cases h
      refine ⟨?_, by simp⟩
      constructor
      · intro x hx y hy e
        simp only at hx hy
        rcases List.mem_cons.mp hx with rfl | hx <;> rcases List.mem_cons.mp hy with rfl | hy
        · rfl
        · exact absurd e.symm (hfresh y hy)
        · exact absurd e (hfresh x hx)
        · exact hi.keys x hx y hy e
      · intro x hx y hy e
        simp only at hx hy
        rcases List.mem_cons.mp hx with rfl | hx <;> rcases List.mem_cons.mp hy with rfl | hy
        · rfl
        · have := hi.bound y hy; simp only at e; omega
        · have := hi.bound x hx; simp only at e; omega
        · exact hi.vals x hx y hy e
      · intro x hx
        simp only at hx
        simp only [List.length_append, List.length_singleton]
        rcases List.mem_cons.mp hx with rfl | hx
        · simp only; omega
        · have := hi.bound x hx; omega
      · intro h hh
        simp only at hh
        rcases List.mem_append.mp hh with hh | hh
        · exact hi.notwin h hh
        · simp only [List.mem_singleton] at hh; rw [hh]
    · cases h

private theorem topoFaces_kv (ts : List Tri) (fid : Nat) (st st' : TopoState) (hi : MapKV st)
    (h : topoFaces ts fid st = .ok st') : MapKV st' := by
  induction ts generalizing fid st with
  | nil => rw [topoFaces] at h; cases h; exact hi
  | cons t ts ih =>
    rw [topoFaces_cons] at h
    split at h
    · cases h
    · cases h1 : addHalfEdge st fid st.hes.length 0 t.a t.b with
      | panic => rw [h1] at h; cases h
      | err e => rw [h1] at h; cases h
      | ok st1 =>
        rw [h1] at h
        simp only at h
        obtain ⟨i1, l1⟩ := addHalfEdge_kv hi (by simp) h1
        cases h2 : addHalfEdge st1 fid st.hes.length 1 t.b t.c with
        | panic => rw [h2] at h; cases h
        | err e => rw [h2] at h; cases h
        | ok st2 =>
          rw [h2] at h
          simp only at h
          obtain ⟨i2, l2⟩ := addHalfEdge_kv i1 (by omega) h2
          cases h3 : addHalfEdge st2 fid st.hes.length 2 t.c t.a with
          | panic => rw [h3] at h; cases h
          | err e => rw [h3] at h; cases h
          | ok st3 =>
            rw [h3] at h
            simp only at h
            obtain ⟨i3, l3⟩ := addHalfEdge_kv i2 (by omega) h3
            exact ih (fid + 1) { st3 with faces := st3.faces ++ [st.hes.length] } ⟨i3.keys, i3.vals, i3.bound, i3.notwin⟩ h

/-- invariant of the twin pass -/
private structure TwinInv (M : List Entry) (n : Nat) (hes : List HalfEdge) : Prop where
  len : hes.length = n
  char : ∀ (i : Nat) (he : HalfEdge), hes[i]? = some he → he.twin ≠ umax →
    ∃ x ∈ M, ∃ y ∈ M, x.2 = i ∧ y.2 = he.twin ∧ y.1 = (x.1.2, x.1.1)
  both : ∀ (i : Nat) (he : HalfEdge), hes[i]? = some he → he.twin ≠ umax →
    ∃ he', hes[he.twin]? = some he' ∧ he'.twin ≠ umax

private theorem setTwin_get {hes hes' : List HalfEdge} {i t : Nat} (h : setTwin hes i t = some hes') :
    hes'.length = hes.length ∧ ∃ h0, hes[i]? = some h0 ∧ hes'[i]? = some { h0 with twin := t } ∧
      ∀ k, k ≠ i → hes'[k]? = hes[k]? := by
  unfold setTwin at h
  split at h
  · rename_i h0 hx
    cases h
    have hlt : i < hes.length := (List.getElem?_eq_some_iff.mp hx).1
    refine ⟨by simp, h0, hx, ?_, ?_⟩
    · rw [List.getElem?_set, if_pos rfl, if_pos hlt]
    · intro k hk
      rw [List.getElem?_set, if_neg (Ne.symm hk)]
  · cases h

private theorem topoTwins_inv (M l : List Entry) (n : Nat) (hes hes' : List HalfEdge) (hn : n < umax)
    (hl : ∀ x ∈ l, x ∈ M) (hb : ∀ x ∈ M, x.2 < n)
    (hv : ∀ x ∈ M, ∀ y ∈ M, x.2 = y.2 → x = y)
    (hi : TwinInv M n hes) (h : topoTwins M l hes = some hes') : TwinInv M n hes' := by
  induction l generalizing hes with
  | nil => rw [topoTwins] at h; cases h; exact hi
  | cons x xs ih =>
    obtain ⟨⟨k0, k1⟩, he1⟩ := x
    have hl' : ∀ x ∈ xs, x ∈ M := fun x hx => hl x (List.mem_cons_of_mem _ hx)
    have hxM : ((k0, k1), he1) ∈ M := hl _ (List.mem_cons_self ..)
    rw [topoTwins] at h
    split at h
    · rename_i hlt
      split at h
      · rename_i he2 hlk
        have hyM : ((k1, k0), he2) ∈ M := alookup_mem_pair hlk
        have hne : he1 ≠ he2 := by
          intro e
          have := hv _ hxM _ hyM e
          simp only [Prod.mk.injEq] at this
          omega
        split at h
        · cases h
        · rename_i hes1 h1
          split at h
          · cases h
          · rename_i hes2 h2
            obtain ⟨len1, a0, ga, ga', gk⟩ := setTwin_get h1
            obtain ⟨len2, b0, gb, gb', gk2⟩ := setTwin_get h2
            have h1lt : he1 < n := hb _ hxM
            have h2lt : he2 < n := hb _ hyM
            -- the state after the two writes
            have get1 : hes2[he1]? = some { a0 with twin := he2 } := by rw [gk2 he1 hne, ga']
            have get2 : ∃ b, hes2[he2]? = some b ∧ b.twin = he1 := ⟨_, gb', rfl⟩
            have getk : ∀ k, k ≠ he1 → k ≠ he2 → hes2[k]? = hes[k]? := by
              intro k e1 e2; rw [gk2 k e2, gk k e1]
            have hinv2 : TwinInv M n hes2 := by
              constructor
              · rw [len2, len1, hi.len]
              · intro i he hget htw
                by_cases e1 : i = he1
                · subst e1
                  rw [get1] at hget
                  cases hget
                  exact ⟨_, hxM, _, hyM, rfl, rfl, rfl⟩
                · by_cases e2 : i = he2
                  · subst e2
                    obtain ⟨b, gb2, tb⟩ := get2
                    rw [gb2] at hget
                    cases hget
                    exact ⟨_, hyM, _, hxM, rfl, tb.symm, rfl⟩
                  · rw [getk i e1 e2] at hget
                    exact hi.char i he hget htw
              · intro i he hget htw
                have known : ∀ j, (j = he1 ∨ j = he2) → ∃ he', hes2[j]? = some he' ∧ he'.twin ≠ umax := by
                  intro j hj
                  rcases hj with rfl | rfl
                  · exact ⟨_, get1, by simp only; omega⟩
                  · obtain ⟨b, gb2, tb⟩ := get2
                    exact ⟨b, gb2, by rw [tb]; omega⟩
                by_cases e1 : i = he1
                · subst e1
                  rw [get1] at hget
                  cases hget
                  exact known he2 (Or.inr rfl)
                · by_cases e2 : i = he2
                  · subst e2
                    obtain ⟨b, gb2, tb⟩ := get2
                    rw [gb2] at hget
                    cases hget
                    rw [tb]
                    exact known he1 (Or.inl rfl)
                  · rw [getk i e1 e2] at hget
                    obtain ⟨he', g', t'⟩ := hi.both i he hget htw
                    by_cases f1 : he.twin = he1
                    · rw [f1]; exact known he1 (Or.inl rfl)
                    · by_cases f2 : he.twin = he2
                      · rw [f2]; exact known he2 (Or.inr rfl)
                      · exact ⟨he', by rw [getk _ f1 f2]; exact g', t'⟩
            exact ih hes2 hl' hinv2 h
      · exact ih hes hl' hi h
    · exact ih hes hl' hi h

/-- **`twin` is an involution**: if half-edge `i` has a twin `j` (`j != u32::MAX`), then `j` is a half-edge and its
twin is `i` -/
theorem topology_twin_involution (nv : Nat) (idx : List Tri) (t : Topology) (h : computeTopology nv idx = .ok t)
    (hsmall : 3 * idx.length < umax) (i : Nat) (he : HalfEdge) (hget : t.halfEdges[i]? = some he)
    (htw : he.twin ≠ umax) :
    ∃ he', t.halfEdges[he.twin]? = some he' ∧ he'.twin = i := by
  have hlen := topology_length nv idx t h
  unfold computeTopology at h
  split at h
  · cases h
  · cases h
  · rename_i st hst
    split at h
    · cases h
    · rename_i hes hh
      cases h
      simp only at hget hlen ⊢
      have hkv : MapKV st := topoFaces_kv idx 0 _ st
        ⟨fun x hx => (by cases hx), fun x hx => (by cases hx), fun x hx => (by cases hx), fun h hh => (by cases hh)⟩ hst
      have hpres := congrArg List.length (topoTwins_preserves _ _ _ _ hh)
      simp only [List.length_map] at hpres
      have hn : st.hes.length < umax := by omega
      have hinit : TwinInv st.map st.hes.length st.hes := by
        refine ⟨rfl, ?_, ?_⟩
        · intro i he hg ht
          exact absurd (hkv.notwin he (List.mem_of_getElem? hg)) ht
        · intro i he hg ht
          exact absurd (hkv.notwin he (List.mem_of_getElem? hg)) ht
      have hfin := topoTwins_inv st.map st.map.reverse st.hes.length st.hes hes hn
        (fun x hx => List.mem_reverse.mp hx) hkv.bound hkv.vals hinit hh
      obtain ⟨x, hx, y, hy, ex, ey, eyk⟩ := hfin.char i he hget htw
      obtain ⟨he', g', t'⟩ := hfin.both i he hget htw
      obtain ⟨x', hx', y', hy', ex', ey', eyk'⟩ := hfin.char _ he' g' t'
      -- x' is the entry with value `he.twin`, i.e. y; so y' has the key of x, i.e. is x
      have e1 : x' = y := hkv.vals x' hx' y hy (by rw [ex', ey])
      subst e1
      have e2 : y' = x := hkv.keys y' hy' x hx (by rw [eyk', eyk])
      subst e2
      exact ⟨he', g', by rw [← ey', ex]⟩

/-- non-vacuity: two triangles sharing the edge `1-2`: half-edges 1 and 3 are twins of each other -/
example : ∃ t, computeTopology 4 [⟨0, 1, 2⟩, ⟨2, 1, 3⟩] = .ok t ∧ t.halfEdges.map (·.twin) = [umax, 3, umax, 1, umax, umax] := by
  refine ⟨_, rfl, ?_⟩
  decide

/-! ### the twin of a half-edge is the oppositely directed half-edge (fu5) -/

/-- every entry `((a, b), h)` of `half_edge_map` is the half-edge `h = 3 f + k` of a triangle `f` of the index buffer, going
from its `k`-th corner `a` to its next corner `b` -/
private def MapGeom (idx : List Tri) (m : List Entry) : Prop :=
  ∀ x ∈ m, ∃ f k tri, idx[f]? = some tri ∧ k < 3 ∧ x.2 = 3 * f + k ∧ x.1 = (Tri.get tri k, Tri.get tri ((k + 1) % 3))

private theorem addHalfEdge_map {st st' : TopoState} {fid base k v vnext : Nat}
    (h : addHalfEdge st fid base k v vnext = .ok st') :
    st'.map = ((v, vnext), base + k) :: st.map ∧ st'.hes.length = st.hes.length + 1 := by
  unfold addHalfEdge at h
  simp only at h
  split at h
  · split at h <;> cases h
  · split at h
    · cases h; simp
    · cases h

private theorem topoFaces_geom (idx pre ts : List Tri) (st st' : TopoState) (hidx : idx = pre ++ ts)
    (hlen : st.hes.length = 3 * pre.length) (hi : MapGeom idx st.map)
    (h : topoFaces ts pre.length st = .ok st') : MapGeom idx st'.map := by
  induction ts generalizing pre st with
  | nil => rw [topoFaces] at h; cases h; exact hi
  | cons t ts ih =>
    rw [topoFaces_cons] at h
    split at h
    · cases h
    · have htri : idx[pre.length]? = some t := by rw [hidx]; simp
      cases h1 : addHalfEdge st pre.length st.hes.length 0 t.a t.b with
      | panic => rw [h1] at h; cases h
      | err e => rw [h1] at h; cases h
      | ok st1 =>
        rw [h1] at h
        simp only at h
        obtain ⟨m1, l1⟩ := addHalfEdge_map h1
        cases h2 : addHalfEdge st1 pre.length st.hes.length 1 t.b t.c with
        | panic => rw [h2] at h; cases h
        | err e => rw [h2] at h; cases h
        | ok st2 =>
          rw [h2] at h
          simp only at h
          obtain ⟨m2, l2⟩ := addHalfEdge_map h2
          cases h3 : addHalfEdge st2 pre.length st.hes.length 2 t.c t.a with
          | panic => rw [h3] at h; cases h
          | err e => rw [h3] at h; cases h
          | ok st3 =>
            rw [h3] at h
            simp only at h
            obtain ⟨m3, l3⟩ := addHalfEdge_map h3
            have hpre : (pre ++ [t]).length = pre.length + 1 := by simp
            rw [← hpre] at h
            refine ih (pre ++ [t]) { st3 with faces := st3.faces ++ [st.hes.length] } (by rw [hidx]; simp)
              (by simp only; rw [l3, l2, l1, hlen, hpre]; omega) ?_ h
            simp only
            rw [m3, m2, m1]
            intro x hx
            simp only [List.mem_cons] at hx
            rcases hx with rfl | rfl | rfl | hx
            · exact ⟨pre.length, 2, t, htri, by omega, by simp only; omega, by simp [Tri.get]⟩
            · exact ⟨pre.length, 1, t, htri, by omega, by simp only; omega, by simp [Tri.get]⟩
            · exact ⟨pre.length, 0, t, htri, by omega, by simp only; omega, by simp [Tri.get]⟩
            · exact hi x hx

/-- **the twin of a half-edge is the oppositely directed half-edge**: if half-edge `i` (from vertex `a` to the vertex `b`
of `next(i)`) has a twin `j`, then `j` starts at `b` and its `next` starts at `a` -/
theorem topology_twin_opposite (nv : Nat) (idx : List Tri) (t : Topology) (h : computeTopology nv idx = .ok t)
    (hsmall : 3 * idx.length < umax) (i : Nat) (he : HalfEdge) (hget : t.halfEdges[i]? = some he)
    (htw : he.twin ≠ umax) :
    ∃ hn tw twn, t.halfEdges[he.next]? = some hn ∧ t.halfEdges[he.twin]? = some tw ∧ t.halfEdges[tw.next]? = some twn ∧
      tw.vertex = hn.vertex ∧ twn.vertex = he.vertex := by
  have hlen := topology_length nv idx t h
  have hE := fun f k tri ht hk => topology_halfEdge nv idx t h f k tri ht hk
  unfold computeTopology at h
  split at h
  · cases h
  · cases h
  · rename_i st hst
    split at h
    · cases h
    · rename_i hes hh
      cases h
      simp only at hget hlen hE ⊢
      have hkv : MapKV st := topoFaces_kv idx 0 _ st
        ⟨fun x hx => (by cases hx), fun x hx => (by cases hx), fun x hx => (by cases hx), fun h hh => (by cases hh)⟩ hst
      have hgeo : MapGeom idx st.map := topoFaces_geom idx [] idx _ st rfl rfl (fun x hx => by cases hx) hst
      have hpres := congrArg List.length (topoTwins_preserves _ _ _ _ hh)
      simp only [List.length_map] at hpres
      have hn : st.hes.length < umax := by omega
      have hinit : TwinInv st.map st.hes.length st.hes := by
        refine ⟨rfl, ?_, ?_⟩
        · intro i he hg ht
          exact absurd (hkv.notwin he (List.mem_of_getElem? hg)) ht
        · intro i he hg ht
          exact absurd (hkv.notwin he (List.mem_of_getElem? hg)) ht
      have hfin := topoTwins_inv st.map st.map.reverse st.hes.length st.hes hes hn
        (fun x hx => List.mem_reverse.mp hx) hkv.bound hkv.vals hinit hh
      obtain ⟨x, hx, y, hy, ex, ey, eyk⟩ := hfin.char i he hget htw
      obtain ⟨f, k, tri, ht, hk, e2, e1⟩ := hgeo x hx
      obtain ⟨f', k', tri', ht', hk', e2', e1'⟩ := hgeo y hy
      -- half-edge i = 3f+k and its next
      obtain ⟨h0, g0, n0, v0, _⟩ := hE f k tri ht hk
      obtain ⟨h1, g1, n1, v1, _⟩ := hE f ((k + 1) % 3) tri ht (Nat.mod_lt _ (by omega))
      obtain ⟨h0', g0', n0', v0', _⟩ := hE f' k' tri' ht' hk'
      obtain ⟨h1', g1', n1', v1', _⟩ := hE f' ((k' + 1) % 3) tri' ht' (Nat.mod_lt _ (by omega))
      rw [← e2, ex, hget] at g0
      cases g0
      rw [← e2', ey] at g0'
      rw [e1, e1'] at eyk
      simp only [Prod.mk.injEq] at eyk
      refine ⟨h1, h0', h1', by rw [n0]; exact g1, g0', by rw [n0']; exact g1', ?_, ?_⟩
      · rw [v0', v1, eyk.1]
      · rw [v1', v0, eyk.2]

/-- non-vacuity: two triangles sharing the edge `1-2`: half-edge 1 goes `1 → 2`, its twin 3 goes `2 → 1` -/
example : ∃ t, computeTopology 4 [⟨0, 1, 2⟩, ⟨2, 1, 3⟩] = .ok t ∧
    t.halfEdges.map (fun h => (h.vertex, h.next, h.twin)) =
      [(0, 1, umax), (1, 2, 3), (2, 0, umax), (2, 4, 1), (1, 5, umax), (3, 3, umax)] := by
  refine ⟨_, rfl, ?_⟩
  decide

/-! ### `vertices[v].half_edge` is the last half-edge leaving `v` (fu5) -/

/-- `tv[v]` is `u32::MAX` when no half-edge leaves `v`, otherwise the largest id of a half-edge leaving `v`
(`vl` = the `vertex` fields of the half-edges) -/
private def LastInv (tv vl : List Nat) : Prop :=
  ∀ (v h : Nat), tv[v]? = some h → (h = umax ∧ v ∉ vl) ∨ (vl[h]? = some v ∧ ∀ i : Nat, vl[i]? = some v → i ≤ h)

private theorem lastInv_push {tv vl : List Nat} (v0 : Nat) (hi : LastInv tv vl) :
    LastInv (tv.set v0 vl.length) (vl ++ [v0]) := by
  intro v h hget
  rw [List.getElem?_set] at hget
  by_cases hv : v0 = v
  · subst hv
    rw [if_pos rfl] at hget
    split at hget
    · cases hget
      right
      refine ⟨by simp, ?_⟩
      intro i hi'
      have := (List.getElem?_eq_some_iff.mp hi').1
      simp at this; omega
    · cases hget
  · rw [if_neg hv] at hget
    rcases hi v h hget with ⟨h1, h2⟩ | ⟨h1, h2⟩
    · left
      refine ⟨h1, ?_⟩
      simp only [List.mem_append, List.mem_singleton, not_or]
      exact ⟨h2, fun e => hv e.symm⟩
    · right
      have hlt : h < vl.length := (List.getElem?_eq_some_iff.mp h1).1
      refine ⟨by rw [List.getElem?_append_left hlt]; exact h1, ?_⟩
      intro i hi'
      by_cases hil : i < vl.length
      · rw [List.getElem?_append_left hil] at hi'
        exact h2 i hi'
      · have hlen := (List.getElem?_eq_some_iff.mp hi').1
        simp at hlen
        have : i = vl.length := by omega
        subst this
        simp at hi'
        exact absurd hi' hv

private theorem addHalfEdge_tv {st st' : TopoState} {fid base k v vnext : Nat}
    (h : addHalfEdge st fid base k v vnext = .ok st') :
    st'.hes.map (·.vertex) = st.hes.map (·.vertex) ++ [v] ∧ st'.tv = st.tv.set v (base + k) := by
  unfold addHalfEdge at h
  simp only at h
  split at h
  · split at h <;> cases h
  · split at h
    · cases h; simp
    · cases h

private theorem topoFaces_last (ts : List Tri) (fid : Nat) (st st' : TopoState)
    (hi : LastInv st.tv (st.hes.map (·.vertex))) (h : topoFaces ts fid st = .ok st') :
    LastInv st'.tv (st'.hes.map (·.vertex)) := by
  induction ts generalizing fid st with
  | nil => rw [topoFaces] at h; cases h; exact hi
  | cons t ts ih =>
    rw [topoFaces_cons] at h
    split at h
    · cases h
    · cases h1 : addHalfEdge st fid st.hes.length 0 t.a t.b with
      | panic => rw [h1] at h; cases h
      | err e => rw [h1] at h; cases h
      | ok st1 =>
        rw [h1] at h
        simp only at h
        obtain ⟨v1, t1⟩ := addHalfEdge_tv h1
        obtain ⟨_, l1⟩ := addHalfEdge_map h1
        cases h2 : addHalfEdge st1 fid st.hes.length 1 t.b t.c with
        | panic => rw [h2] at h; cases h
        | err e => rw [h2] at h; cases h
        | ok st2 =>
          rw [h2] at h
          simp only at h
          obtain ⟨v2, t2⟩ := addHalfEdge_tv h2
          obtain ⟨_, l2⟩ := addHalfEdge_map h2
          cases h3 : addHalfEdge st2 fid st.hes.length 2 t.c t.a with
          | panic => rw [h3] at h; cases h
          | err e => rw [h3] at h; cases h
          | ok st3 =>
            rw [h3] at h
            simp only at h
            obtain ⟨v3, t3⟩ := addHalfEdge_tv h3
            have i1 : LastInv st1.tv (st1.hes.map (·.vertex)) := by
              rw [v1, t1]
              have := lastInv_push t.a hi
              simpa using this
            have i2 : LastInv st2.tv (st2.hes.map (·.vertex)) := by
              rw [v2, t2]
              have := lastInv_push t.b i1
              have e : (st1.hes.map (·.vertex)).length = st.hes.length + 1 := by simp [l1]
              rw [e] at this
              exact this
            have i3 : LastInv st3.tv (st3.hes.map (·.vertex)) := by
              rw [v3, t3]
              have := lastInv_push t.c i2
              have e : (st2.hes.map (·.vertex)).length = st.hes.length + 2 := by simp [l2, l1]
              rw [e] at this
              exact this
            exact ih (fid + 1) { st3 with faces := st3.faces ++ [st.hes.length] } i3 h

/-- **`vertices[v].half_edge`**: `u32::MAX` when no half-edge leaves vertex `v`; otherwise a half-edge leaving `v`, and the
one with the largest id among them (the code overwrites the entry at every half-edge it creates) -/
theorem topology_vertex_last (nv : Nat) (idx : List Tri) (t : Topology) (h : computeTopology nv idx = .ok t)
    (v hh : Nat) (hv : t.vertices[v]? = some hh) :
    (hh = umax ∧ ∀ he ∈ t.halfEdges, he.vertex ≠ v) ∨
    (∃ he, t.halfEdges[hh]? = some he ∧ he.vertex = v ∧
      ∀ (i : Nat) (he' : HalfEdge), t.halfEdges[i]? = some he' → he'.vertex = v → i ≤ hh) := by
  unfold computeTopology at h
  split at h
  · cases h
  · cases h
  · rename_i st hst
    split at h
    · cases h
    · rename_i hes hh'
      cases h
      simp only at hv ⊢
      have hinit : LastInv (List.replicate nv umax) (([] : List HalfEdge).map (·.vertex)) := by
        intro v h hg
        left
        have := List.getElem?_eq_some_iff.mp hg
        obtain ⟨_, e⟩ := this
        simp at e
        exact ⟨e.symm, by simp⟩
      have hl := topoFaces_last idx 0 _ st hinit hst
      have hp : hes.map (·.vertex) = st.hes.map (·.vertex) := by
        have := congrArg (List.map (fun x : Nat × Nat × Nat => x.2.1)) (topoTwins_preserves _ _ _ _ hh')
        rw [List.map_map, List.map_map] at this
        exact this
      rw [← hp] at hl
      rcases hl v hh hv with ⟨h1, h2⟩ | ⟨h1, h2⟩
      · left
        refine ⟨h1, ?_⟩
        intro he hm e
        exact h2 (by rw [← e]; exact List.mem_map_of_mem hm)
      · right
        rw [List.getElem?_map] at h1
        cases hg : hes[hh]? with
        | none => rw [hg] at h1; cases h1
        | some he =>
          rw [hg] at h1
          simp only [Option.map_some, Option.some.injEq] at h1
          refine ⟨he, rfl, h1, ?_⟩
          intro i he' hi' e
          exact h2 i (by rw [List.getElem?_map, hi']; simp [e])

/-- non-vacuity: vertex 1 is left by half-edges 1 and 4, vertex 2 by 2 and 3; vertex 4 by none -/
example : ∃ t, computeTopology 5 [⟨0, 1, 2⟩, ⟨2, 1, 3⟩] = .ok t ∧ t.vertices = [0, 4, 3, 5, umax] := by
  refine ⟨_, rfl, ?_⟩
  decide

end C11
