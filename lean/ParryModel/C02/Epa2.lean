import ParryModel.C03.Model
/-!
# C02 model: the 2-D Expanding Polytope Algorithm, `src/query/epa/epa2.rs`, literal transliteration

`EPA::closest_points(pos12, g1, g2, simplex)` over two abstract support functions
`supp1 d = g1.local_support_point(d)` and `supp2 d = g2.support_point(pos12, d)`; the CSO point of a direction is
`CSOPoint::from_shapes = CSOPoint::new(supp1 d, supp2 (-d))`.

* `FaceId` ordering (`Ord::cmp` on `neg_dist`) and `alloc::collections::BinaryHeap` (`push` = `sift_up(0, len-1)`,
  `pop` = `swap(last, data[0])` + `sift_down_to_bottom(0)` (+ its trailing `sift_up`)) are modelled on `Array FaceId2`
  with swaps instead of the `Hole` optimisation (same final array), so ties are popped in the same order.
* `Face::new`, `Face::new_with_proj`, `Face::closest_points`, `project_origin`, `utils::ccw_face_normal`,
  `Unit::try_new` (nalgebra: `sq > min*min` then divide every component by `sqrt sq`).
* the three initialisations (simplex dimension 0: vertex/vertex normal search with its two 100-step loops; 1: two faces at
  distance 0; 2: triangle made counter-clockwise, faces queued when the origin projects inside them) and the expansion loop with
  every exit: heap exhausted / `niter > 100` (`best_face`), bounds met (`max_dist - curr_dist < eps_tol`: the face being expanded),
  the "stuck" disjunct, the "numerical errors" exit (`dist < curr_dist` on a new face), and `FaceId::new(..)?` (`None`).
* `v[i]` that could panic is an explicit `.panic` result (never reached: see `Theorems3`), loop fuel exhaustion is `.fuel`
  (the code's own cap is 101 expansions + at most 3 skipped deleted initial faces; the driver runs with fuel 128).
-/
namespace Model
variable {K : Type} [Num K]

/-- `CSOPoint` (dim2) -/
structure CSOPoint2 (K : Type) where
  point : V2 K
  orig1 : V2 K
  orig2 : V2 K

/-- `CSOPoint::new(orig1, orig2)` -/
@[inline] def CSOPoint2.new (o1 o2 : V2 K) : CSOPoint2 K := ⟨o1.sub o2, o1, o2⟩

/-- `CSOPoint::from_shapes(pos12, g1, g2, dir)` -/
@[inline] def csoFromShapes (supp1 supp2 : V2 K → V2 K) (dir : V2 K) : CSOPoint2 K :=
  CSOPoint2.new (supp1 dir) (supp2 dir.neg)

/-- `DEFAULT_EPSILON` (f64) -/
@[inline] def epsDefault : K := lit 1 4503599627370496
/-- `gjk::eps_tol()` = `DEFAULT_EPSILON * 10.0` -/
@[inline] def epaGjkEpsTol : K := epsDefault * lit 10
/-- `_eps_tol` of `EPA::closest_points` = `DEFAULT_EPSILON * 100.0` -/
@[inline] def epaEpsTol : K := epsDefault * lit 100

/-- `Unit::try_new(v, min_norm)` (nalgebra `try_new_and_get`) -/
def unitTryNew2 (v : V2 K) (minNorm : K) : Option (V2 K) :=
  let sq := v.normSq
  if minNorm * minNorm < sq then some (v.sdiv (Num.sqrt sq)) else none

/-- `utils::ccw_face_normal([a, b])` (dim2) -/
def ccwFaceNormal2 (a b : V2 K) : Option (V2 K) :=
  let ab := b.sub a
  unitTryNew2 ⟨ab.y, -ab.x⟩ epsDefault

/-- `project_origin(a, b)` of epa2.rs: `(proj, [1 - t, t])` or `None` (vertex regions / zero-length segment) -/
def epaProjectOrigin2 (a b : V2 K) : Option (V2 K × K × K) :=
  let ab := b.sub a
  let ap := a.neg
  let abAp := ab.dot ap
  let sqnab := ab.normSq
  if neq sqnab 0 then none else
  if abAp < -epaGjkEpsTol || sqnab + epaGjkEpsTol < abAp then none else
  let pos := abAp / sqnab
  let res := a.add (ab.smul pos)
  some (res, 1 - pos, pos)

/-- `FaceId` -/
structure FaceId2 (K : Type) where
  id : Nat
  negDist : K

/-- `FaceId::new(id, neg_dist)` -/
def FaceId2.new? (id : Nat) (negDist : K) : Option (FaceId2 K) :=
  if epaGjkEpsTol < negDist then none else some ⟨id, negDist⟩

/-- `a <= b` through `PartialOrd::partial_cmp = Some(Ord::cmp)`: `cmp` is `Less` / `Greater` / else `Equal` -/
def FaceId2.le (a b : FaceId2 K) : Bool :=
  if a.negDist < b.negDist then true else if b.negDist < a.negDist then false else true

/-- `Face` -/
structure Face2 (K : Type) where
  pts0 : Nat
  pts1 : Nat
  normal : V2 K
  proj : V2 K
  bc0 : K
  bc1 : K
  deleted : Bool

/-- `Face::new_with_proj(vertices, proj, bcoords, pts)`; `none` = index panic -/
def Face2.newWithProj (vs : Array (CSOPoint2 K)) (proj : V2 K) (bc0 bc1 : K) (p0 p1 : Nat) : Option (Face2 K) :=
  match vs[p0]?, vs[p1]? with
  | some a, some b =>
    match ccwFaceNormal2 a.point b.point with
    | some n => some ⟨p0, p1, n, proj, bc0, bc1, false⟩
    | none => some ⟨p0, p1, V2.zero, proj, bc0, bc1, true⟩
  | _, _ => none

/-- `Face::new(vertices, pts)`: the face and `proj_is_inside`; `none` = index panic -/
def Face2.new (vs : Array (CSOPoint2 K)) (p0 p1 : Nat) : Option (Face2 K × Bool) :=
  match vs[p0]?, vs[p1]? with
  | some a, some b =>
    match epaProjectOrigin2 a.point b.point with
    | some (proj, b0, b1) => (Face2.newWithProj vs proj b0 b1 p0 p1).map (·, true)
    | none => (Face2.newWithProj vs V2.zero 0 0 p0 p1).map (·, false)
  | _, _ => none

/-- `Face::closest_points(vertices)`; `none` = index panic -/
def Face2.closestPoints (f : Face2 K) (vs : Array (CSOPoint2 K)) : Option (V2 K × V2 K) :=
  match vs[f.pts0]?, vs[f.pts1]? with
  | some a, some b =>
    some ((a.orig1.smul f.bc0).add (b.orig1.smul f.bc1), (a.orig2.smul f.bc0).add (b.orig2.smul f.bc1))
  | _, _ => none

/-! ### `BinaryHeap<FaceId>` -/

/-- `sift_up(0, pos)` -/
def heapSiftUp : Nat → Array (FaceId2 K) → Nat → Array (FaceId2 K)
  | 0, a, _ => a
  | fuel + 1, a, pos =>
    if 0 < pos then
      let parent := (pos - 1) / 2
      match a[pos]?, a[parent]? with
      | some e, some p => if e.le p then a else heapSiftUp fuel (a.swapIfInBounds pos parent) parent
      | _, _ => a
    else a

/-- `BinaryHeap::push` -/
def heapPush (h : Array (FaceId2 K)) (x : FaceId2 K) : Array (FaceId2 K) :=
  heapSiftUp (h.size + 1) (h.push x) h.size

/-- the `while child <= end.saturating_sub(2)` loop and the `child == end - 1` step of `sift_down_to_bottom`;
returns the array and the final hole position -/
def heapSiftDown : Nat → Array (FaceId2 K) → Nat → Array (FaceId2 K) × Nat
  | 0, a, pos => (a, pos)
  | fuel + 1, a, pos =>
    let child := 2 * pos + 1
    if child ≤ a.size - 2 then
      match a[child]?, a[child + 1]? with
      | some c0, some c1 =>
        let child := if c0.le c1 then child + 1 else child
        heapSiftDown fuel (a.swapIfInBounds pos child) child
      | _, _ => (a, pos)
    else if child + 1 = a.size then (a.swapIfInBounds pos child, child)
    else (a, pos)

/-- `BinaryHeap::pop` -/
def heapPop (h : Array (FaceId2 K)) : Option (FaceId2 K × Array (FaceId2 K)) :=
  let s := h.swapIfInBounds 0 (h.size - 1)
  match s.back? with
  | none => none
  | some item =>
    let r := s.pop
    if r.size = 0 then some (item, r) else
    let (r, pos) := heapSiftDown r.size r 0
    some (item, heapSiftUp (pos + 1) r pos)

/-! ### `EPA::closest_points` -/

/-- which `return Some(..)` of `EPA::closest_points` produced the result (ghost information: the Rust function does not
report it; the driver does not print it) -/
inductive Epa2Exit where
  /-- `max_dist - curr_dist < _eps_tol`: the face being expanded -/
  | boundsMet
  /-- the "algorithm is stuck" disjunct: `best_face` -/
  | stuck
  /-- `dist < curr_dist` on a new face ("numerical errors") -/
  | numerical
  /-- heap exhausted or `niter > 100`: `best_face` -/
  | finished
  /-- 0-dimensional start simplex -/
  | vertexVertex
deriving DecidableEq, Repr

/-- result of `EPA::closest_points`; `.panic` = an indexing panic, `.fuel` = model fuel exhausted (both unreachable) -/
inductive Epa2Result (K : Type) where
  | panic
  | fuel
  | none
  | some (p1 p2 n : V2 K) (why : Epa2Exit)

/-- the loop state of `EPA::closest_points` -/
structure Epa2State (K : Type) where
  vertices : Array (CSOPoint2 K)
  faces : Array (Face2 K)
  heap : Array (FaceId2 K)
  niter : Nat
  maxDist : K
  best : FaceId2 K
  oldDist : K

/-- `Some((cpts.0, cpts.1, face.normal))` -/
def epa2Return (f : Face2 K) (vs : Array (CSOPoint2 K)) (why : Epa2Exit) : Epa2Result K :=
  match f.closestPoints vs with
  | some (p1, p2) => .some p1 p2 f.normal why
  | none => .panic

/-- the code after the loop: `best_face = &self.faces[best_face_id.id]` -/
def epa2Finish (st : Epa2State K) : Epa2Result K :=
  match st.faces[st.best.id]? with
  | some f => epa2Return f st.vertices .finished
  | none => .panic

/-- one turn of `for f in new_faces.iter()`: `.inl` = early return -/
def epa2AddFace (vs : Array (CSOPoint2 K)) (curr : K) (faces : Array (Face2 K)) (heap : Array (FaceId2 K))
    (f : Face2 K × Bool) : Sum (Epa2Result K) (Array (Face2 K) × Array (FaceId2 K)) :=
  if f.2 then
    let dist := f.1.normal.dot f.1.proj
    if dist < curr then .inl (epa2Return f.1 vs .numerical)
    else if !f.1.deleted then
      match FaceId2.new? faces.size (-dist) with
      | some fid => .inr (faces.push f.1, heapPush heap fid)
      | none => .inl .none
    else .inr (faces.push f.1, heap)
  else .inr (faces.push f.1, heap)

/-- one iteration of `while let Some(face_id) = self.heap.pop()`; `.inl` = the function returns -/
def epa2Step (supp1 supp2 : V2 K → V2 K) (st : Epa2State K) : Sum (Epa2Result K) (Epa2State K) :=
  match heapPop st.heap with
  | none => .inl (epa2Finish st)
  | some (fid, heap) =>
    match st.faces[fid.id]? with
    | none => .inl .panic
    | some face =>
      if face.deleted then .inr { st with heap := heap } else
      let cso := csoFromShapes supp1 supp2 face.normal
      let sid := st.vertices.size
      let vs := st.vertices.push cso
      let cand := cso.point.dot face.normal
      let best := if cand < st.maxDist then fid else st.best
      let maxDist := if cand < st.maxDist then cand else st.maxDist
      let curr := -fid.negDist
      if maxDist - curr < epaEpsTol || (nabs (curr - st.oldDist) < epsDefault && cand < maxDist) then
        if maxDist - curr < epaEpsTol then .inl (epa2Return face vs .boundsMet)
        else match st.faces[best.id]? with
          | some bf => .inl (epa2Return bf vs .stuck)
          | none => .inl .panic
      else
        match Face2.new vs face.pts0 sid, Face2.new vs sid face.pts1 with
        | some f1, some f2 =>
          match epa2AddFace vs curr st.faces heap f1 with
          | .inl r => .inl r
          | .inr (faces, heap) =>
            match epa2AddFace vs curr faces heap f2 with
            | .inl r => .inl r
            | .inr (faces, heap) =>
              let st' : Epa2State K := ⟨vs, faces, heap, st.niter + 1, maxDist, best, curr⟩
              if 100 < st'.niter then .inl (epa2Finish st') else .inr st'
        | _, _ => .inl .panic

/-- the expansion loop -/
def epa2Loop (supp1 supp2 : V2 K → V2 K) : Nat → Epa2State K → Epa2Result K
  | 0, _ => .fuel
  | fuel + 1, st =>
    match epa2Step supp1 supp2 st with
    | .inl r => r
    | .inr st' => epa2Loop supp1 supp2 fuel st'

/-- `Real::max_value()` -/
@[inline] def realMax : K := lit ((2 ^ 53 - 1) * 2 ^ 971 : Nat) 1

/-- start of the loop: `max_dist = MAX`, `best_face_id = *heap.peek().unwrap()`, `old_dist = 0` -/
def epa2Start (supp1 supp2 : V2 K → V2 K) (fuel : Nat) (vs : Array (CSOPoint2 K)) (faces : Array (Face2 K))
    (heap : Array (FaceId2 K)) : Epa2Result K :=
  match heap[0]? with
  | none => .panic
  | some top => epa2Loop supp1 supp2 fuel ⟨vs, faces, heap, 0, realMax, top, 0⟩

/-- initial queueing of one triangle face (`if proj_inside { heap.push(FaceId::new(i, -dist)?) }`); `none` = `?` -/
def epa2InitPush (heap : Array (FaceId2 K)) (i : Nat) (f : Face2 K × Bool) (v : CSOPoint2 K) : Option (Array (FaceId2 K)) :=
  if f.2 then
    let dist := f.1.normal.dot v.point
    (FaceId2.new? i (-dist)).map (heapPush heap)
  else some heap

/-- one of the two tangent-cone loops of the vertex/vertex case; `sp n` is the support point, `o` the vertex, `s n` the
direction tested (`n` or `-n`) -/
def epa2ConeLoop (sp : V2 K → V2 K) (o : V2 K) (flip : Bool) : Nat → V2 K → V2 K
  | 0, n => n
  | fuel + 1, n =>
    let d := if flip then n.neg else n
    match unitTryNew2 ((sp d).sub o) epaEpsTol with
    | some tangent =>
      if d.dot tangent < epaEpsTol then n
      else epa2ConeLoop sp o flip fuel ⟨-tangent.y, tangent.x⟩
    | none => n

/-- `EPA::closest_points(pos12, g1, g2, simplex)` with `simplex.dimension() + 1 = simplex.length` (1, 2 or 3 points) -/
def epa2ClosestPoints (supp1 supp2 : V2 K → V2 K) (fuel : Nat) (simplex : List (CSOPoint2 K)) : Epa2Result K :=
  match simplex with
  | [v0] =>
    let n : V2 K := ⟨0, 1⟩
    let n := epa2ConeLoop supp1 v0.orig1 false 100 n
    let n := epa2ConeLoop supp2 v0.orig2 true 100 n
    .some V2.zero V2.zero n .vertexVertex
  | [v0, v1] =>
    let vs : Array (CSOPoint2 K) := #[v0, v1]
    match Face2.newWithProj vs V2.zero 1 0 0 1, Face2.newWithProj vs V2.zero 1 0 1 0 with
    | some f1, some f2 =>
      match FaceId2.new? 0 (0 : K), FaceId2.new? 1 (0 : K) with
      | some i1, some i2 => epa2Start supp1 supp2 fuel vs #[f1, f2] (heapPush (heapPush #[] i1) i2)
      | _, _ => .none
    | _, _ => .panic
  | [v0, v1, v2] =>
    let dp1 := v1.point.sub v0.point
    let dp2 := v2.point.sub v0.point
    let vs : Array (CSOPoint2 K) := if dp1.perp dp2 < 0 then #[v0, v2, v1] else #[v0, v1, v2]
    match Face2.new vs 0 1, Face2.new vs 1 2, Face2.new vs 2 0, vs[0]?, vs[1]?, vs[2]? with
    | some f1, some f2, some f3, some w0, some w1, some w2 =>
      match epa2InitPush #[] 0 f1 w0 with
      | none => .none
      | some h =>
        match epa2InitPush h 1 f2 w1 with
        | none => .none
        | some h =>
          match epa2InitPush h 2 f3 w2 with
          | none => .none
          | some h =>
            if !(f1.2 || f2.2 || f3.2) then .none
            else epa2Start supp1 supp2 fuel vs #[f1.1, f2.1, f3.1] h
    | _, _, _, _, _, _ => .panic
  | _ => .panic

/-- `contact_support_map_support_map(pos12, g1, g2, prediction)` (dim2) from the point where `gjk::closest_points` has
answered `Intersection` on `simplex`: EPA, then `dist = (point2_1 - point1)·normal1`,
`point2 = pos12⁻¹ · point2_1`, `normal2 = pos12⁻¹ · (-normal1)`; EPA's `None` becomes `NoIntersection` = `None`.
Outer `none` = panic / fuel. -/
def contactFromEpa2 (pos12 : Iso2 K) (supp1 supp2 : V2 K → V2 K) (fuel : Nat) (simplex : List (CSOPoint2 K)) :
    Option (Option (Contact2 K)) :=
  match epa2ClosestPoints supp1 supp2 fuel simplex with
  | .some point1 point2_1 normal1 _ =>
    let dist := (point2_1.sub point1).dot normal1
    let point2 := pos12.invAct point2_1
    let normal2 := pos12.invRot normal1.neg
    some (some ⟨point1, point2, normal1, normal2, dist⟩)
  | .none => some none
  | _ => none

end Model
