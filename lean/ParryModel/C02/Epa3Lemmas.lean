import ParryModel.Field
import ParryModel.C02.Epa3
import ParryModel.C02.Epa2Lemmas
/-!
Core-only lemmas about the 3-D EPA model (`Epa3.lean`), for every `Num` instance: the shape of the barycentric coordinates
returned by the triangle projection, and the invariant "every stored face refers to three stored vertices, carries their
counter-clockwise normal (or zero) and coordinates of a known shape" through the deletions, the silhouette recursion, the
re-triangulation and the adjacency patches of one expansion.
-/
namespace C02
open Model
variable {K : Type} [Num K]

/-- shape of a `TrianglePointLocation`: edge coordinates are `[1 - x, x]`, face coordinates `[1 - v - w, v, w]` -/
def LocOK : TriLoc K → Prop
  | .edge _ u v => ∃ x, u = 1 - x ∧ v = x
  | .face _ a b c => ∃ v w, a = 1 - v - w ∧ b = v ∧ c = w
  | _ => True

theorem LocOK_ite {c : Prop} [Decidable c] {a b : PP3 K × TriLoc K} (ha : c → LocOK a.2) (hb : ¬c → LocOK b.2) :
    LocOK (if c then a else b).2 := by
  split
  · exact ha ‹_›
  · exact hb ‹_›

theorem projectLoc_locOK (s : Triangle3 K) (pt : V3 K) (solid : Bool) : LocOK (s.projectLoc pt solid).2 := by
  unfold Triangle3.projectLoc
  repeat (first
    | exact ⟨_, rfl, rfl⟩
    | exact ⟨_, _, rfl, rfl, rfl⟩
    | exact True.intro
    | (refine LocOK_ite (fun _ => ?_) (fun _ => ?_)))

/-! ## the face invariant of the 3-D `EPA::closest_points` -/

variable (GV : CSOPoint3 K → Prop)

/-- shapes of `bcoords`: a vertex, an edge `[1 - x, x]` on one of the three index pairs, a face `[1 - v - w, v, w]`,
or all zero (`OnSolid`: degenerate triangle) -/
def BcOK3 (b0 b1 b2 : K) : Prop :=
  (b0 = 1 ∧ b1 = 0 ∧ b2 = 0) ∨ (b0 = 0 ∧ b1 = 1 ∧ b2 = 0) ∨ (b0 = 0 ∧ b1 = 0 ∧ b2 = 1) ∨
  (∃ x, b0 = 1 - x ∧ b1 = x ∧ b2 = 0) ∨ (∃ x, b0 = 0 ∧ b1 = 1 - x ∧ b2 = x) ∨ (∃ x, b0 = 1 - x ∧ b1 = 0 ∧ b2 = x) ∨
  (∃ v w, b0 = 1 - v - w ∧ b1 = v ∧ b2 = w) ∨ (b0 = 0 ∧ b1 = 0 ∧ b2 = 0)

def FaceOK3 (vs : Array (CSOPoint3 K)) (f : Face3 K) : Prop :=
  ∃ a b c, vs[f.p0]? = some a ∧ vs[f.p1]? = some b ∧ vs[f.p2]? = some c ∧
    (ccwFaceNormal3 a.point b.point c.point = some f.normal ∨
     (ccwFaceNormal3 a.point b.point c.point = none ∧ f.normal = V3.zero)) ∧
    BcOK3 f.bc0 f.bc1 f.bc2

def AllOK (vs : Array (CSOPoint3 K)) (faces : Array (Face3 K)) : Prop :=
  ∀ (i : Nat) (f : Face3 K), faces[i]? = some f → FaceOK3 vs f

/-- every `Some((p1, p2, n))` is the `bcoords` combination of three stored CSO points and their counter-clockwise normal -/
def OutOK3 : Epa3Result K → Prop
  | .some p1 p2 n _ => ∃ (a b c : CSOPoint3 K) (b0 b1 b2 : K), GV a ∧ GV b ∧ GV c ∧ BcOK3 b0 b1 b2 ∧
      (ccwFaceNormal3 a.point b.point c.point = some n ∨ (ccwFaceNormal3 a.point b.point c.point = none ∧ n = V3.zero)) ∧
      p1 = ((a.orig1.smul b0).add (b.orig1.smul b1)).add (c.orig1.smul b2) ∧
      p2 = ((a.orig2.smul b0).add (b.orig2.smul b1)).add (c.orig2.smul b2)
  | _ => True

theorem return3_ok {vs : Array (CSOPoint3 K)} {f : Face3 K} (hv : ∀ (i : Nat) (v : CSOPoint3 K), vs[i]? = some v → GV v)
    (hf : FaceOK3 vs f) (why : Epa2Exit) : OutOK3 GV (epa3Return f vs why) := by
  obtain ⟨a, b, c, ha, hb, hc, hn, hbc⟩ := hf
  unfold epa3Return Face3.closestPoints
  simp only [ha, hb, hc, OutOK3]
  exact ⟨a, b, c, f.bc0, f.bc1, f.bc2, hv _ _ ha, hv _ _ hb, hv _ _ hc, hbc, hn, rfl, rfl⟩

theorem FaceOK3_push {vs : Array (CSOPoint3 K)} {f : Face3 K} (x : CSOPoint3 K) (hf : FaceOK3 vs f) :
    FaceOK3 (vs.push x) f := by
  obtain ⟨a, b, c, ha, hb, hc, hn⟩ := hf
  exact ⟨a, b, c, getElem?_push_of_some x ha, getElem?_push_of_some x hb, getElem?_push_of_some x hc, hn⟩

theorem FaceOK3_congr {vs : Array (CSOPoint3 K)} {f g : Face3 K} (h0 : g.p0 = f.p0) (h1 : g.p1 = f.p1) (h2 : g.p2 = f.p2)
    (hn : g.normal = f.normal) (b0 : g.bc0 = f.bc0) (b1 : g.bc1 = f.bc1) (b2 : g.bc2 = f.bc2) (hf : FaceOK3 vs f) :
    FaceOK3 vs g := by
  unfold FaceOK3 at hf ⊢
  rw [h0, h1, h2, hn, b0, b1, b2]; exact hf

theorem FaceOK3_setAdj {vs : Array (CSOPoint3 K)} {f : Face3 K} (i v : Nat) (hf : FaceOK3 vs f) :
    FaceOK3 vs (f.setAdj i v) := by
  unfold Face3.setAdj
  split
  · exact FaceOK3_congr rfl rfl rfl rfl rfl rfl rfl hf
  · split
    · exact FaceOK3_congr rfl rfl rfl rfl rfl rfl rfl hf
    · exact FaceOK3_congr rfl rfl rfl rfl rfl rfl rfl hf

theorem AllOK_set {vs : Array (CSOPoint3 K)} {faces : Array (Face3 K)} (i : Nat) {g : Face3 K}
    (h : AllOK vs faces) (hg : FaceOK3 vs g) : AllOK vs (faces.setIfInBounds i g) := by
  intro j f hf
  rw [Array.getElem?_setIfInBounds] at hf
  split at hf
  · split at hf
    · cases hf; exact hg
    · cases hf
  · exact h j f hf

theorem AllOK_push {vs : Array (CSOPoint3 K)} {faces : Array (Face3 K)} {g : Face3 K}
    (h : AllOK vs faces) (hg : FaceOK3 vs g) : AllOK vs (faces.push g) := by
  intro j f hf
  rw [Array.getElem?_push] at hf
  split at hf
  · cases hf; exact hg
  · exact h j f hf

theorem AllOK_modify {vs : Array (CSOPoint3 K)} {faces : Array (Face3 K)} (i : Nat) (m : Face3 K → Face3 K)
    (hm : ∀ f, FaceOK3 vs f → FaceOK3 vs (m f)) (h : AllOK vs faces) : AllOK vs (faces.modify i m) := by
  intro j f hf
  rw [Array.getElem?_modify] at hf
  split at hf
  · rw [Option.map_eq_some_iff] at hf
    obtain ⟨g, hg, he⟩ := hf
    subst he; exact hm g (h j g hg)
  · exact h j f hf

theorem AllOK_vpush {vs : Array (CSOPoint3 K)} {faces : Array (Face3 K)} (x : CSOPoint3 K) (h : AllOK vs faces) :
    AllOK (vs.push x) faces := fun i f hf => FaceOK3_push x (h i f hf)

theorem newWithProj3_ok {vs : Array (CSOPoint3 K)} {b0 b1 b2 : K} {p0 p1 p2 a0 a1 a2 : Nat} {f : Face3 K}
    (h : Face3.newWithProj vs b0 b1 b2 p0 p1 p2 a0 a1 a2 = some f) (hb : BcOK3 b0 b1 b2) : FaceOK3 vs f := by
  unfold Face3.newWithProj at h
  split at h
  · rename_i a b c ha hb' hc
    split at h
    · rename_i n hn; cases h; exact ⟨a, b, c, ha, hb', hc, Or.inl hn, hb⟩
    · rename_i hn; cases h; exact ⟨a, b, c, ha, hb', hc, Or.inr ⟨hn, rfl⟩, hb⟩
  · cases h

theorem new3_ok {vs : Array (CSOPoint3 K)} {p0 p1 p2 a0 a1 a2 : Nat} {f : Face3 K} {ins : Bool}
    (h : Face3.new vs p0 p1 p2 a0 a1 a2 = some (f, ins)) : FaceOK3 vs f := by
  unfold Face3.new at h
  split at h
  · rename_i a b c _ _ _
    have hloc := projectLoc_locOK (Triangle3.mk a.point b.point c.point) V3.zero true
    simp only at h
    split at h
    · rename_i i hi
      rw [Option.map_eq_some_iff] at h
      obtain ⟨g, hg, he⟩ := h
      cases he
      refine newWithProj3_ok hg ?_
      by_cases h0 : i = 0
      · subst h0; exact Or.inl ⟨rfl, rfl, rfl⟩
      · by_cases h1 : i = 1
        · subst h1; exact Or.inr (Or.inl ⟨rfl, rfl, rfl⟩)
        · by_cases h2 : i = 2
          · subst h2; exact Or.inr (Or.inr (Or.inl ⟨rfl, rfl, rfl⟩))
          · simp only [h0, h1, h2, if_false]
            exact Or.inr (Or.inr (Or.inr (Or.inr (Or.inr (Or.inr (Or.inr ⟨rfl, rfl, rfl⟩))))))
    · rename_i i u v hi
      rw [hi] at hloc
      obtain ⟨x, hu, hv⟩ := hloc
      rw [Option.map_eq_some_iff] at h
      obtain ⟨g, hg, he⟩ := h
      cases he
      refine newWithProj3_ok hg ?_
      subst hu; subst hv
      by_cases h0 : i = 0
      · simp only [h0, if_true]; exact Or.inr (Or.inr (Or.inr (Or.inl ⟨_, rfl, rfl, rfl⟩)))
      · by_cases h1 : i = 1
        · simp only [h1, if_true]; exact Or.inr (Or.inr (Or.inr (Or.inr (Or.inl ⟨_, rfl, rfl, rfl⟩))))
        · simp only [h0, h1, if_false]; exact Or.inr (Or.inr (Or.inr (Or.inr (Or.inr (Or.inl ⟨_, rfl, rfl, rfl⟩)))))
    · rename_i sd b0 b1 b2 hi
      rw [hi] at hloc
      obtain ⟨v, w, e0, e1, e2⟩ := hloc
      rw [Option.map_eq_some_iff] at h
      obtain ⟨g, hg, he⟩ := h
      cases he
      exact newWithProj3_ok hg (Or.inr (Or.inr (Or.inr (Or.inr (Or.inr (Or.inr (Or.inl ⟨v, w, e0, e1, e2⟩)))))))
    · rw [Option.map_eq_some_iff] at h
      obtain ⟨g, hg, he⟩ := h
      cases he
      exact newWithProj3_ok hg (Or.inr (Or.inr (Or.inr (Or.inr (Or.inr (Or.inr (Or.inr ⟨rfl, rfl, rfl⟩)))))))
  · cases h

theorem FaceOK3_deleted {vs : Array (CSOPoint3 K)} {f : Face3 K} (hf : FaceOK3 vs f) :
    FaceOK3 vs { f with deleted := true } := FaceOK3_congr rfl rfl rfl rfl rfl rfl rfl hf

theorem silhouette_ok {vs : Array (CSOPoint3 K)} (point : Nat) (fuel : Nat) :
    ∀ (faces : Array (Face3 K)) (sil : Array (Nat × Nat)) (id opp : Nat) (faces' : Array (Face3 K)) (sil' : Array (Nat × Nat)),
      epa3Silhouette vs point fuel faces sil id opp = some (faces', sil') → AllOK vs faces → AllOK vs faces' := by
  induction fuel with
  | zero => intro faces sil id opp faces' sil' h; unfold epa3Silhouette at h; cases h
  | succ n ih =>
    intro faces sil id opp faces' sil' h hall
    unfold epa3Silhouette at h
    split at h
    · cases h
    · rename_i f hf
      split at h
      · cases h; exact hall
      · split at h
        · cases h
        · cases h; exact hall
        · simp only at h
          have hall1 : AllOK vs (faces.setIfInBounds id { f with deleted := true }) :=
            AllOK_set id hall (FaceOK3_deleted (hall _ _ hf))
          split at h
          · split at h
            · cases h
            · rename_i faces1 sil1 h1
              exact ih _ _ _ _ _ _ h (ih _ _ _ _ _ _ h1 hall1)
          · cases h

theorem addFace3_ok {vs : Array (CSOPoint3 K)} {sid : Nat} {curr : K} {face : Face3 K} {faces : Array (Face3 K)}
    {heap : Array (FaceId2 K)} {edge : Nat × Nat} (hv : ∀ (i : Nat) (v : CSOPoint3 K), vs[i]? = some v → GV v)
    (hface : FaceOK3 vs face) (hall : AllOK vs faces) :
    (∀ r, epa3AddFace vs sid curr face faces heap edge = .inl r → OutOK3 GV r) ∧
    (∀ faces' heap', epa3AddFace vs sid curr face faces heap edge = .inr (faces', heap') → AllOK vs faces') := by
  have key : ∀ x, epa3AddFace vs sid curr face faces heap edge = x →
      match x with
      | .inl r => OutOK3 GV r
      | .inr (faces', _) => AllOK vs faces' := by
    intro x hx
    unfold epa3AddFace at hx
    split at hx
    · subst hx; trivial
    · rename_i fa hfa
      split at hx
      · subst hx; exact hall
      · simp only at hx
        split at hx
        · subst hx; trivial
        · split at hx
          · subst hx; trivial
          · rename_i nf hnf
            have hnew : FaceOK3 vs nf.1 := new3_ok (f := nf.1) (ins := nf.2) (by rw [hnf])
            have hall2 : AllOK vs ((faces.setIfInBounds edge.1 (fa.setAdj ((edge.2 + 1) % 3) faces.size)).push nf.1) :=
              AllOK_push (AllOK_set _ hall (FaceOK3_setAdj _ _ (hall _ _ hfa))) hnew
            split at hx
            · split at hx
              · subst hx; trivial
              · split at hx
                · subst hx; exact return3_ok GV hv hface _
                · split at hx
                  · subst hx; exact hall2
                  · subst hx; trivial
            · subst hx; exact hall2
  exact ⟨fun r hr => key _ hr, fun f' h' hr => key _ hr⟩

theorem addFaces3_ok {vs : Array (CSOPoint3 K)} {sid : Nat} {curr : K} {face : Face3 K}
    (hv : ∀ (i : Nat) (v : CSOPoint3 K), vs[i]? = some v → GV v) (hface : FaceOK3 vs face) (es : List (Nat × Nat)) :
    ∀ (faces : Array (Face3 K)) (heap : Array (FaceId2 K)), AllOK vs faces →
    (∀ r, epa3AddFaces vs sid curr face es faces heap = .inl r → OutOK3 GV r) ∧
    (∀ faces' heap', epa3AddFaces vs sid curr face es faces heap = .inr (faces', heap') → AllOK vs faces') := by
  induction es with
  | nil =>
    intro faces heap hall
    unfold epa3AddFaces
    exact ⟨(fun r hr => by cases hr), (fun f' h' hr => by cases hr; exact hall)⟩
  | cons e es ih =>
    intro faces heap hall
    have A := addFace3_ok GV (sid := sid) (curr := curr) (heap := heap) (edge := e) hv hface hall
    unfold epa3AddFaces
    split
    · rename_i r hr
      exact ⟨(fun r' hr' => by cases hr'; exact A.1 r hr), (fun f' h' hr' => by cases hr')⟩
    · rename_i faces1 heap1 hr
      exact ih faces1 heap1 (A.2 faces1 heap1 hr)

structure Inv3 (st : Epa3State K) : Prop where
  verts : ∀ (i : Nat) (v : CSOPoint3 K), st.vertices[i]? = some v → GV v
  faces : AllOK st.vertices st.faces

theorem finish3_ok {st : Epa3State K} (h : Inv3 GV st) : OutOK3 GV (epa3Finish st) := by
  unfold epa3Finish
  split
  · rename_i f hf; exact return3_ok GV h.verts (h.faces _ _ hf) _
  · trivial

theorem verts3_push {vs : Array (CSOPoint3 K)} {c : CSOPoint3 K}
    (hv : ∀ (i : Nat) (v : CSOPoint3 K), vs[i]? = some v → GV v) (hc : GV c) :
    ∀ (i : Nat) (v : CSOPoint3 K), (vs.push c)[i]? = some v → GV v := by
  intro i v h
  rw [Array.getElem?_push] at h
  split at h
  · cases h; exact hc
  · exact hv i v h

theorem step3_ok {supp1 supp2 : V3 K → V3 K} (hs : ∀ d, GV (csoFromShapes3 supp1 supp2 d)) {st : Epa3State K}
    (h : Inv3 GV st) :
    (∀ r, epa3Step supp1 supp2 st = .inl r → OutOK3 GV r) ∧
    (∀ st', epa3Step supp1 supp2 st = .inr st' → Inv3 GV st') := by
  have key : ∀ x, epa3Step supp1 supp2 st = x →
      match x with
      | .inl r => OutOK3 GV r
      | .inr st' => Inv3 GV st' := by
    intro x hx
    unfold epa3Step at hx
    split at hx
    · subst hx; exact finish3_ok GV h
    · rename_i fid heap hpop
      split at hx
      · subst hx; trivial
      · rename_i face hface
        have hfok := h.faces _ _ hface
        split at hx
        · subst hx; exact ⟨h.verts, h.faces⟩
        · have hvs := verts3_push GV h.verts (hs face.normal)
          have hall := AllOK_vpush (csoFromShapes3 supp1 supp2 face.normal) h.faces
          simp only at hx
          generalize hB : (if (csoFromShapes3 supp1 supp2 face.normal).point.dot face.normal < st.maxDist
              then fid else st.best) = best' at hx
          generalize hM : (if (csoFromShapes3 supp1 supp2 face.normal).point.dot face.normal < st.maxDist
              then (csoFromShapes3 supp1 supp2 face.normal).point.dot face.normal else st.maxDist) = maxDist' at hx
          split at hx
          · split at hx
            · subst hx; exact return3_ok GV hvs (FaceOK3_push _ hfok) _
            · split at hx
              · rename_i bf hbf; subst hx; exact return3_ok GV hvs (hall _ _ hbf) _
              · subst hx; trivial
          · have hall1 := AllOK_set fid.id hall (FaceOK3_deleted (FaceOK3_push _ hfok))
            split at hx
            · split at hx
              · subst hx; trivial
              · rename_i faces1 sil1 h1
                have hall2 := silhouette_ok _ _ _ _ _ _ _ _ h1 hall1
                split at hx
                · subst hx; trivial
                · rename_i faces2 sil2 h2
                  have hall3 := silhouette_ok _ _ _ _ _ _ _ _ h2 hall2
                  split at hx
                  · subst hx; trivial
                  · rename_i faces3 sil3 h3
                    have hall4 := silhouette_ok _ _ _ _ _ _ _ _ h3 hall3
                    split at hx
                    · subst hx; trivial
                    · have A := addFaces3_ok GV (sid := st.vertices.size) (curr := -fid.negDist) hvs
                        (FaceOK3_push _ hfok) sil3.toList faces3 heap hall4
                      split at hx
                      · rename_i r hr; subst hx; exact A.1 r hr
                      · rename_i faces4 heap4 hr
                        have hall5 := A.2 faces4 heap4 hr
                        split at hx
                        · subst hx; trivial
                        · split at hx
                          · have hall6 := AllOK_modify (faces4.size - 1) (fun f => f.setAdj 1 faces3.size)
                              (fun f hf => FaceOK3_setAdj _ _ hf)
                              (AllOK_modify faces3.size (fun f => f.setAdj 2 (faces4.size - 1))
                                (fun f hf => FaceOK3_setAdj _ _ hf) hall5)
                            have hI : Inv3 GV ⟨st.vertices.push (csoFromShapes3 supp1 supp2 face.normal),
                                (faces4.modify faces3.size (fun f => f.setAdj 2 (faces4.size - 1))).modify
                                  ((faces4.modify faces3.size (fun f => f.setAdj 2 (faces4.size - 1))).size - 1)
                                  (fun f => f.setAdj 1 faces3.size),
                                heap4, st.niter + 1, maxDist', best', -fid.negDist⟩ := by
                              refine ⟨hvs, ?_⟩
                              simp only [Array.size_modify]
                              exact hall6
                            split at hx
                            · subst hx; exact finish3_ok GV hI
                            · subst hx; exact hI
                          · subst hx; trivial
            · subst hx; trivial
  exact ⟨fun r hr => key _ hr, fun st' hr => key _ hr⟩

theorem loop3_ok {supp1 supp2 : V3 K → V3 K} (hs : ∀ d, GV (csoFromShapes3 supp1 supp2 d)) (fuel : Nat)
    {st : Epa3State K} (h : Inv3 GV st) : OutOK3 GV (epa3Loop supp1 supp2 fuel st) := by
  induction fuel generalizing st with
  | zero => unfold epa3Loop; trivial
  | succ n ih =>
    unfold epa3Loop
    have hk := step3_ok GV hs h
    split
    · rename_i r hr; exact hk.1 r hr
    · rename_i st' hr; exact ih (hk.2 st' hr)

theorem start3_ok {supp1 supp2 : V3 K → V3 K} (hs : ∀ d, GV (csoFromShapes3 supp1 supp2 d)) (fuel : Nat)
    {vs : Array (CSOPoint3 K)} {faces : Array (Face3 K)} {heap : Array (FaceId2 K)}
    (hv : ∀ (i : Nat) (v : CSOPoint3 K), vs[i]? = some v → GV v) (hf : AllOK vs faces) :
    OutOK3 GV (epa3Start supp1 supp2 fuel vs faces heap) := by
  unfold epa3Start
  split
  · trivial
  · exact loop3_ok GV hs fuel ⟨hv, hf⟩

theorem flatStart3_ok {supp1 supp2 : V3 K → V3 K} (hs : ∀ d, GV (csoFromShapes3 supp1 supp2 d)) (fuel : Nat)
    {vs : Array (CSOPoint3 K)} (hv : ∀ (i : Nat) (v : CSOPoint3 K), vs[i]? = some v → GV v) :
    OutOK3 GV (epa3FlatStart supp1 supp2 fuel vs) := by
  unfold epa3FlatStart
  split
  · rename_i f1 f2 hf1 hf2
    have n1 : FaceOK3 vs f1.1 := new3_ok (f := f1.1) (ins := f1.2) hf1
    have n2 : FaceOK3 vs f2.1 := new3_ok (f := f2.1) (ins := f2.2) hf2
    split
    · apply start3_ok GV hs fuel hv
      intro i g h
      match i, h with
      | 0, h => simp at h; subst h; exact n1
      | 1, h => simp at h; subst h; exact n2
      | n + 2, h => simp at h
    · trivial
  · trivial

/-- **invariant theorem** for the 3-D `EPA::closest_points` started from a 1-, 2- or 3-dimensional simplex -/
theorem closestPoints3_ok {supp1 supp2 : V3 K → V3 K} (hs : ∀ d, GV (csoFromShapes3 supp1 supp2 d)) (fuel : Nat)
    (simplex : List (CSOPoint3 K)) (hg : ∀ v ∈ simplex, GV v) (hlen : 2 ≤ simplex.length) :
    OutOK3 GV (epa3ClosestPoints supp1 supp2 fuel simplex) := by
  match simplex, hlen with
  | [v0, v1], _ =>
    have g0 : GV v0 := hg v0 (by simp)
    have g1 : GV v1 := hg v1 (by simp)
    unfold epa3ClosestPoints
    simp only
    apply flatStart3_ok GV hs fuel
    intro i v h
    match i, h with
    | 0, h => simp at h; subst h; exact g0
    | 1, h => simp at h; subst h; exact g1
    | 2, h => simp at h; subst h; exact hs _
    | n + 3, h => simp at h
  | [v0, v1, v2], _ =>
    have g0 : GV v0 := hg v0 (by simp)
    have g1 : GV v1 := hg v1 (by simp)
    have g2 : GV v2 := hg v2 (by simp)
    unfold epa3ClosestPoints
    apply flatStart3_ok GV hs fuel
    intro i v h
    match i, h with
    | 0, h => simp at h; subst h; exact g0
    | 1, h => simp at h; subst h; exact g1
    | 2, h => simp at h; subst h; exact g2
    | n + 3, h => simp at h
  | [v0, v1, v2, v3], _ =>
    have g0 : GV v0 := hg v0 (by simp)
    have g1 : GV v1 := hg v1 (by simp)
    have g2 : GV v2 := hg v2 (by simp)
    have g3 : GV v3 := hg v3 (by simp)
    unfold epa3ClosestPoints
    simp only
    generalize hvs : (if 0 < ((v1.point.sub v0.point).cross (v2.point.sub v0.point)).dot (v3.point.sub v0.point)
      then (#[v0, v2, v1, v3] : Array (CSOPoint3 K)) else #[v0, v1, v2, v3]) = vs
    have hv : ∀ (i : Nat) (v : CSOPoint3 K), vs[i]? = some v → GV v := by
      intro i v h
      rw [← hvs] at h
      split at h
      · match i, h with
        | 0, h => simp at h; subst h; exact g0
        | 1, h => simp at h; subst h; exact g2
        | 2, h => simp at h; subst h; exact g1
        | 3, h => simp at h; subst h; exact g3
        | n + 4, h => simp at h
      · match i, h with
        | 0, h => simp at h; subst h; exact g0
        | 1, h => simp at h; subst h; exact g1
        | 2, h => simp at h; subst h; exact g2
        | 3, h => simp at h; subst h; exact g3
        | n + 4, h => simp at h
    split
    · rename_i f1 f2 f3 f4 hf1 hf2 hf3 hf4
      have n1 : FaceOK3 vs f1.1 := new3_ok (f := f1.1) (ins := f1.2) hf1
      have n2 : FaceOK3 vs f2.1 := new3_ok (f := f2.1) (ins := f2.2) hf2
      have n3 : FaceOK3 vs f3.1 := new3_ok (f := f3.1) (ins := f3.2) hf3
      have n4 : FaceOK3 vs f4.1 := new3_ok (f := f4.1) (ins := f4.2) hf4
      split
      · repeat' split
        all_goals first
          | trivial
          | (apply start3_ok GV hs fuel hv
             intro i g h
             match i, h with
             | 0, h => simp at h; subst h; exact n1
             | 1, h => simp at h; subst h; exact n2
             | 2, h => simp at h; subst h; exact n3
             | 3, h => simp at h; subst h; exact n4
             | n + 4, h => simp at h)
      · trivial
    · trivial
  | [], h => simp at h
  | [_], h => simp at h
  | _ :: _ :: _ :: _ :: _ :: _, _ => unfold epa3ClosestPoints; trivial

end C02
