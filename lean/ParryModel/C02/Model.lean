import ParryModel.C03.Model
/-!
# C02 model (closed forms): the four overlap verdicts of a pair, computed from the closed-form
`details::` functions modelled in `C03/Model.lean`
(`contact_ball_ball`, `contact_halfspace_support_map` (+ mirrored), `intersection_test_ball_ball`,
`distance_ball_ball`, `closest_points_ball_ball`, and the half-space / support-map family).

`verdicts` is what a caller observes: `intersection_test(..)`, `distance(..) == 0.0`,
`closest_points(..) == Intersecting`, `contact(..).map(|c| c.dist <= 0.0)`.
-/
namespace Model
variable {K : Type} [Num K]

/-- the four overlap verdicts -/
structure Verdicts where
  intersectionTest : Bool
  distanceZero : Bool
  closestPointsIntersecting : Bool
  contactNonPositive : Bool
deriving DecidableEq, Repr

/-- `closest_points(..) == ClosestPoints::Intersecting` -/
def ClosestPoints3.isIntersecting : ClosestPoints3 K → Bool
  | .intersecting => true
  | _ => false

/-- `contact(..)` is `Some(c)` with `c.dist <= 0.0` -/
def contactNonPositive (c : Option (Contact3 K)) : Bool :=
  match c with
  | some c => decide (c.dist ≤ 0)
  | none => false

/-- assemble the four verdicts from the four query results (`none` = no closed-form route; inner `none` of
`closest_points` = assert panic) -/
def mkVerdicts (it : Option Bool) (d : Option K) (cp : Option (Option (ClosestPoints3 K)))
    (c : Option (Option (Contact3 K))) : Option Verdicts :=
  match it, d, cp, c with
  | some it, some d, some (some cp), some c => some ⟨it, neq d 0, cp.isIntersecting, contactNonPositive c⟩
  | _, _, _, _ => none

/-- the four verdicts of a closed-form pair; `none` when the pair has no closed-form route or `closest_points` panics
(negative margin). -/
def verdicts (s1 s2 : Shape3 K) (pos12 : Iso3 K) (margin prediction : K) : Option Verdicts :=
  mkVerdicts (detailsIntersectionTest s1 s2 pos12) (detailsDistance s1 s2 pos12)
    (detailsClosestPoints s1 s2 pos12 margin) (detailsContact s1 s2 pos12 prediction)

end Model
