import ParryModel.C03.Model
/-!
# C02 model (closed forms): the four overlap verdicts of a pair, computed from the closed-form
`details::` functions modelled in `C03/Model.lean`
(`contact_ball_ball`, `contact_halfspace_support_map` (+ mirrored), `intersection_test_ball_ball`,
`distance_ball_ball`, `closest_points_ball_ball`, and the half-space / support-map family).

`verdicts` is what a caller observes: `intersection_test(..)`, `distance(..) == 0.0`,
`closest_points(..) == Intersecting`, `contact(..).map(|c| c.dist <= 0.0)`.
-/
namespace Model
variable {K : Type} [Num K]

/-- the four overlap verdicts -/
structure Verdicts where
  intersectionTest : Bool
  distanceZero : Bool
  closestPointsIntersecting : Bool
  contactNonPositive : Bool
deriving DecidableEq, Repr

/-- `closest_points(..) == ClosestPoints::Intersecting` -/
def ClosestPoints3.isIntersecting : ClosestPoints3 K → Bool
  | .intersecting => true
  | _ => false

/-- `contact(..)` is `Some(c)` with `c.dist <= 0.0` -/
def contactNonPositive (c : Option (Contact3 K)) : Bool :=
  match c with
  | some c => decide (c.dist ≤ 0)
  | none => false

/-- assemble the four verdicts from the four query results (`none` = no closed-form route; inner `none` of
`closest_points` = assert panic) -/
def mkVerdicts (it : Option Bool) (d : Option K) (cp : Option (Option (ClosestPoints3 K)))
    (c : Option (Option (Contact3 K))) : Option Verdicts :=
  match it, d, cp, c with
  | some it, some d, some (some cp), some c => some ⟨it, neq d 0, cp.isIntersecting, contactNonPositive c⟩
  | _, _, _, _ => none

/-- the four verdicts of a closed-form pair; `none` when the pair has no closed-form route or `closest_points` panics
(negative margin). -/
def verdicts (s1 s2 : Shape3 K) (pos12 : Iso3 K) (margin prediction : K) : Option Verdicts :=
  mkVerdicts (detailsIntersectionTest s1 s2 pos12) (detailsDistance s1 s2 pos12)
    (detailsClosestPoints s1 s2 pos12 margin) (detailsContact s1 s2 pos12 prediction)


/-! ## `sat_cuboid_cuboid.rs` and `intersection_test_cuboid_cuboid` (3-D), literal transliteration -/

/-- `-Real::MAX` : `-(2^53 - 1) · 2^971` -/
@[inline] def negRealMax : K := -(lit ((2 ^ 53 - 1) * 2 ^ 971 : Nat) 1)

/-- `cuboid_cuboid_compute_separation_wrt_local_line(cuboid1, cuboid2, pos12, axis1)` -/
def satSeparationWrtLine (he1 he2 : V3 K) (pos12 : Iso3 K) (axis1 : V3 K) : K × V3 K :=
  let signum := copySign (pos12.t.dot axis1) 1
  let axis1 := axis1.smul signum
  let axis2 := pos12.invRot axis1.neg
  let localPt1 := cuboidLocalSupport he1 axis1
  let localPt2 := cuboidLocalSupport he2 axis2
  let pt2 := pos12.act localPt2
  ((pt2.sub localPt1).dot axis1, axis1)

/-- the table of the 9 edge-edge axes of `cuboid_cuboid_find_local_separating_edge_twoway`:
`{x, y, z} × x2`, `{x, y, z} × y2`, `{x, y, z} × z2` with `x2 = pos12 * x` etc. -/
def satEdgeAxes (pos12 : Iso3 K) : List (V3 K) :=
  let x2 := pos12.rot ⟨1, 0, 0⟩
  let y2 := pos12.rot ⟨0, 1, 0⟩
  let z2 := pos12.rot ⟨0, 0, 1⟩
  [⟨0, -x2.z, x2.y⟩, ⟨x2.z, 0, -x2.x⟩, ⟨-x2.y, x2.x, 0⟩,
   ⟨0, -y2.z, y2.y⟩, ⟨y2.z, 0, -y2.x⟩, ⟨-y2.y, y2.x, 0⟩,
   ⟨0, -z2.z, z2.y⟩, ⟨z2.z, 0, -z2.x⟩, ⟨-z2.y, z2.x, 0⟩]

/-- one iteration of the loop over the edge axes -/
def satEdgeStep (he1 he2 : V3 K) (pos12 : Iso3 K) (best : K × V3 K) (axis1 : V3 K) : K × V3 K :=
  let norm1 := axis1.norm
  if lit 1 4503599627370496 < norm1 then
    let r := satSeparationWrtLine he1 he2 pos12 (axis1.sdiv norm1)
    if best.1 < r.1 then r else best
  else best

/-- `cuboid_cuboid_find_local_separating_edge_twoway` -/
def satEdgeTwoway (he1 he2 : V3 K) (pos12 : Iso3 K) : K × V3 K :=
  (satEdgeAxes pos12).foldl (satEdgeStep he1 he2 pos12) (negRealMax, V3.zero)

/-- `Vector::ith(i, s)` -/
@[inline] def V3.ith (i : Nat) (s : K) : V3 K := if i = 0 then ⟨s, 0, 0⟩ else if i = 1 then ⟨0, s, 0⟩ else ⟨0, 0, s⟩

/-- one iteration of the loop of `cuboid_cuboid_find_local_separating_normal_oneway` -/
def satNormalStep (he1 he2 : V3 K) (pos12 : Iso3 K) (best : K × V3 K) (i : Nat) : K × V3 K :=
  let sign := copySign (pos12.t.get i) 1
  let axis1 := V3.ith i sign
  let axis2 := pos12.invRot axis1.neg
  let localPt2 := cuboidLocalSupport he2 axis2
  let pt2 := pos12.act localPt2
  let separation := pt2.get i * sign - he1.get i
  if best.1 < separation then (separation, axis1) else best

/-- `cuboid_cuboid_find_local_separating_normal_oneway` -/
def satNormalOneway (he1 he2 : V3 K) (pos12 : Iso3 K) : K × V3 K :=
  [0, 1, 2].foldl (satNormalStep he1 he2 pos12) (negRealMax, V3.zero)

/-- `intersection_test_cuboid_cuboid(pos12, cuboid1, cuboid2)` (dim3) -/
def intersectionTestCuboidCuboid (pos12 : Iso3 K) (he1 he2 : V3 K) : Bool :=
  let sep1 := (satNormalOneway he1 he2 pos12).1
  if 0 < sep1 then false else
  let pos21 := pos12.inverse
  let sep2 := (satNormalOneway he2 he1 pos21).1
  if 0 < sep2 then false else
  let sep3 := (satEdgeTwoway he1 he2 pos12).1
  decide (sep3 ≤ 0)

/-! ## follow-up 2: closed form of the contact distance of two rectangles with parallel axes (2-D)
`query::contact(pos1, Cuboid(he1), pos1 * Translation(t), Cuboid(he2), prediction).dist` goes through GJK (apart) or
GJK + EPA (overlapping); for parallel axes the answer has a closed form in the per-axis gaps
`g = |t| - (he1 + he2)`: the Euclidean norm of the positive gaps when some gap is positive (the distance), otherwise the
largest (least negative) gap (minus the minimum separating translation).  This is a *specification* model (the
iterative algorithms are not transliterated): its correspondence leg is a relative tolerance, see `relations.json`. -/
def rectSignedDist (he1 he2 t : V2 K) : K :=
  let gx := nabs t.x - (he1.x + he2.x)
  let gy := nabs t.y - (he1.y + he2.y)
  if 0 < gx then (if 0 < gy then Num.sqrt (gx * gx + gy * gy) else gx)
  else if 0 < gy then gy
  else nmax gx gy

end Model
