import ParryModel.C02.Epa2
/-!
Core-only lemmas about the `BinaryHeap<FaceId>` model of `Epa2.lean`: `push` and `pop` only permute the stored entries
(plus the pushed / minus the popped one), for every `Num` instance (no order laws are needed).
-/
namespace C02
open Model
variable {K : Type} [Num K]

theorem swapIfInBounds_perm {α : Type} (a : Array α) (i j : Nat) : (a.swapIfInBounds i j).Perm a := by
  rw [Array.swapIfInBounds_def]
  split
  · split
    · exact Array.swap_perm _ _
    · exact Array.Perm.refl _
  · exact Array.Perm.refl _

theorem mem_of_mem_pop {α : Type} {a : Array α} {y : α} (h : y ∈ a.pop) : y ∈ a := by
  rw [Array.mem_def, Array.toList_pop] at h
  exact Array.mem_def.2 ((List.dropLast_sublist _).subset h)

theorem heapSiftUp_perm (fuel : Nat) (a : Array (FaceId2 K)) (pos : Nat) : (heapSiftUp fuel a pos).Perm a := by
  induction fuel generalizing a pos with
  | zero => exact Array.Perm.refl _
  | succ n ih =>
    unfold heapSiftUp
    split
    · simp only
      split
      · split
        · exact Array.Perm.refl _
        · exact (ih _ _).trans (swapIfInBounds_perm _ _ _)
      · exact Array.Perm.refl _
    · exact Array.Perm.refl _

theorem heapSiftDown_perm (fuel : Nat) (a : Array (FaceId2 K)) (pos : Nat) : (heapSiftDown fuel a pos).1.Perm a := by
  induction fuel generalizing a pos with
  | zero => exact Array.Perm.refl _
  | succ n ih =>
    unfold heapSiftDown
    simp only
    split
    · split
      · exact (ih _ _).trans (swapIfInBounds_perm _ _ _)
      · exact Array.Perm.refl _
    · split
      · exact swapIfInBounds_perm _ _ _
      · exact Array.Perm.refl _

theorem mem_heapPush {h : Array (FaceId2 K)} {x y : FaceId2 K} (hy : y ∈ heapPush h x) : y ∈ h ∨ y = x := by
  unfold heapPush at hy
  have := ((heapSiftUp_perm (h.size + 1) (h.push x) h.size).mem_iff (a := y)).1 hy
  simpa using this

theorem mem_of_heapPop {h h' : Array (FaceId2 K)} {m : FaceId2 K} (hp : heapPop h = some (m, h')) :
    m ∈ h ∧ ∀ y ∈ h', y ∈ h := by
  unfold heapPop at hp
  simp only at hp
  have hs := swapIfInBounds_perm h 0 (h.size - 1)
  split at hp
  · cases hp
  · rename_i item hb
    have hitem : item ∈ h.swapIfInBounds 0 (h.size - 1) := by
      rw [Array.back?_eq_getElem?] at hb
      exact Array.mem_of_getElem? hb
    have hpopmem : ∀ y ∈ (h.swapIfInBounds 0 (h.size - 1)).pop, y ∈ h := by
      intro y hy
      exact (hs.mem_iff).1 (mem_of_mem_pop hy)
    split at hp
    · cases hp
      exact ⟨(hs.mem_iff).1 hitem, hpopmem⟩
    · cases hp
      refine ⟨(hs.mem_iff).1 hitem, ?_⟩
      intro y hy
      have h1 := ((heapSiftUp_perm _ _ _).mem_iff (a := y)).1 hy
      have h2 := ((heapSiftDown_perm _ _ _).mem_iff (a := y)).1 h1
      exact hpopmem y h2

/-! ## the loop invariant of `EPA::closest_points` (any `Num` instance: only equalities are used) -/

variable (GV : CSOPoint2 K → Prop)

/-- the face refers to two stored vertices and carries their counter-clockwise unit normal, or is flagged deleted with a
zero normal when `ccw_face_normal` failed (edge shorter than `DEFAULT_EPSILON`) -/
def FaceOK (vs : Array (CSOPoint2 K)) (f : Face2 K) : Prop :=
  ∃ a b, vs[f.pts0]? = some a ∧ vs[f.pts1]? = some b ∧
    ((ccwFaceNormal2 a.point b.point = some f.normal ∧ f.deleted = false) ∨
     (ccwFaceNormal2 a.point b.point = none ∧ f.normal = V2.zero ∧ f.deleted = true))

/-- the face's `proj` / `bcoords` are the literal `[1, 0]` of the 1-D start, or what `project_origin` returned for the
face's own two end points (`proj_is_inside`) -/
def InsOK (vs : Array (CSOPoint2 K)) (f : Face2 K) : Prop :=
  (f.bc0 = 1 ∧ f.bc1 = 0 ∧ f.proj = V2.zero) ∨
  ∃ a b, vs[f.pts0]? = some a ∧ vs[f.pts1]? = some b ∧ epaProjectOrigin2 a.point b.point = some (f.proj, f.bc0, f.bc1)

/-- the upper bound `max_dist` is still `Real::MAX` or the extent `cso(m)·m` of the configuration-space obstacle along the
unit normal `m` of some (non-degenerate) face that was expanded -/
def MaxOK (supp1 supp2 : V2 K → V2 K) (M : K) : Prop :=
  M = realMax ∨ ∃ (a b : CSOPoint2 K) (m : V2 K), GV a ∧ GV b ∧ ccwFaceNormal2 a.point b.point = some m ∧
    M = (csoFromShapes supp1 supp2 m).point.dot m

/-- the heap key of a face is `0` (1-D start), `-(normal·proj)` (faces made by the loop) or `-(normal·vertex)` with the
face's first end point (2-D start) -/
def KeyOK (vs : Array (CSOPoint2 K)) (f : Face2 K) (nd : K) : Prop :=
  nd = 0 ∨ nd = -(f.normal.dot f.proj) ∨ ∃ a, vs[f.pts0]? = some a ∧ nd = -(f.normal.dot a.point)

/-- what every `Some((p1, p2, n))` of the loop is made of: two stored CSO points `a b`, coordinates `[1 - t, t]`,
the witnesses are those combinations of the `orig1` / `orig2` parts, `n` is `ccw_face_normal(a, b)` (or zero if that failed);
at the bounds-met exit moreover the key `nd` of the returned face and the upper bound `M` with `M - (-nd) < eps_tol`;
`.panic` never happens -/
def OutOK (supp1 supp2 : V2 K → V2 K) : Epa2Result K → Prop
  | .some p1 p2 n why => ∃ (a b : CSOPoint2 K) (b0 b1 : K) (proj : V2 K), GV a ∧ GV b ∧
      ((b0 = 1 ∧ b1 = 0 ∧ proj = V2.zero) ∨ epaProjectOrigin2 a.point b.point = some (proj, b0, b1)) ∧
      (ccwFaceNormal2 a.point b.point = some n ∨ (ccwFaceNormal2 a.point b.point = none ∧ n = V2.zero)) ∧
      p1 = (a.orig1.smul b0).add (b.orig1.smul b1) ∧ p2 = (a.orig2.smul b0).add (b.orig2.smul b1) ∧
      (why = .boundsMet → ∃ nd M : K, M - -nd < epaEpsTol ∧ MaxOK GV supp1 supp2 M ∧
        (nd = 0 ∨ nd = -(n.dot proj) ∨ nd = -(n.dot a.point)))
  | .none => True
  | .fuel => True
  | .panic => False

structure Inv (supp1 supp2 : V2 K → V2 K) (st : Epa2State K) : Prop where
  verts : ∀ (i : Nat) (v : CSOPoint2 K), st.vertices[i]? = some v → GV v
  faces : ∀ (i : Nat) (f : Face2 K), st.faces[i]? = some f → FaceOK st.vertices f
  heap : ∀ fid ∈ st.heap, ∃ f, st.faces[fid.id]? = some f ∧ InsOK st.vertices f ∧ KeyOK st.vertices f fid.negDist
  best : ∃ f, st.faces[st.best.id]? = some f ∧ InsOK st.vertices f
  maxd : MaxOK GV supp1 supp2 st.maxDist

theorem return_ok {supp1 supp2 : V2 K → V2 K} {vs : Array (CSOPoint2 K)} {f : Face2 K}
    (hv : ∀ (i : Nat) (v : CSOPoint2 K), vs[i]? = some v → GV v)
    (hf : FaceOK vs f) (hb : InsOK vs f) (why : Epa2Exit)
    (hw : why = .boundsMet → ∃ nd M : K, M - -nd < epaEpsTol ∧ MaxOK GV supp1 supp2 M ∧ KeyOK vs f nd) :
    OutOK GV supp1 supp2 (epa2Return f vs why) := by
  obtain ⟨a, b, ha, hb', hn⟩ := hf
  unfold epa2Return Face2.closestPoints
  simp only [ha, hb', OutOK]
  refine ⟨a, b, f.bc0, f.bc1, f.proj, hv _ _ ha, hv _ _ hb', ?_, ?_, rfl, rfl, ?_⟩
  · rcases hb with h | ⟨a', b', ha', hb'', hp⟩
    · exact Or.inl h
    · rw [ha] at ha'; rw [hb'] at hb''; cases ha'; cases hb''
      exact Or.inr hp
  · rcases hn with ⟨h1, _⟩ | ⟨h1, h2, _⟩
    · exact Or.inl h1
    · exact Or.inr ⟨h1, h2⟩
  · intro hwhy
    obtain ⟨nd, M, h1, h2, h3⟩ := hw hwhy
    refine ⟨nd, M, h1, h2, ?_⟩
    rcases h3 with h | h | ⟨a', ha', h⟩
    · exact Or.inl h
    · exact Or.inr (Or.inl h)
    · rw [ha] at ha'; cases ha'; exact Or.inr (Or.inr h)

theorem KeyOK_push {vs : Array (CSOPoint2 K)} {f : Face2 K} {nd : K} (c : CSOPoint2 K) (h : KeyOK vs f nd) :
    KeyOK (vs.push c) f nd := by
  rcases h with h | h | ⟨a, ha, h⟩
  · exact Or.inl h
  · exact Or.inr (Or.inl h)
  · refine Or.inr (Or.inr ⟨a, ?_, h⟩)
    rw [Array.getElem?_push]; split
    · rename_i h'; rw [h'] at ha; simp at ha
    · exact ha

theorem FaceOK_push {vs : Array (CSOPoint2 K)} {f : Face2 K} (c : CSOPoint2 K) (hf : FaceOK vs f) :
    FaceOK (vs.push c) f := by
  obtain ⟨a, b, ha, hb, hn⟩ := hf
  refine ⟨a, b, ?_, ?_, hn⟩
  · rw [Array.getElem?_push]; split
    · rename_i h; rw [h] at ha; simp at ha
    · exact ha
  · rw [Array.getElem?_push]; split
    · rename_i h; rw [h] at hb; simp at hb
    · exact hb

theorem getElem?_push_of_some {α : Type} {vs : Array α} {i : Nat} {a : α} (c : α) (h : vs[i]? = some a) :
    (vs.push c)[i]? = some a := by
  rw [Array.getElem?_push]; split
  · rename_i h'; rw [h'] at h; simp at h
  · exact h

theorem InsOK_push {vs : Array (CSOPoint2 K)} {f : Face2 K} (c : CSOPoint2 K) (hf : InsOK vs f) :
    InsOK (vs.push c) f := by
  rcases hf with h | ⟨a, b, ha, hb, hp⟩
  · exact Or.inl h
  · exact Or.inr ⟨a, b, getElem?_push_of_some c ha, getElem?_push_of_some c hb, hp⟩

theorem newWithProj_ok {vs : Array (CSOPoint2 K)} {proj : V2 K} {b0 b1 : K} {p0 p1 : Nat} {f : Face2 K}
    (h : Face2.newWithProj vs proj b0 b1 p0 p1 = some f) :
    FaceOK vs f ∧ f.bc0 = b0 ∧ f.bc1 = b1 ∧ f.pts0 = p0 ∧ f.pts1 = p1 ∧ f.proj = proj := by
  unfold Face2.newWithProj at h
  split at h
  · rename_i a b ha hb
    split at h
    · rename_i n hn
      cases h
      exact ⟨⟨a, b, ha, hb, Or.inl ⟨hn, rfl⟩⟩, rfl, rfl, rfl, rfl, rfl⟩
    · rename_i hn
      cases h
      exact ⟨⟨a, b, ha, hb, Or.inr ⟨hn, rfl, rfl⟩⟩, rfl, rfl, rfl, rfl, rfl⟩
  · cases h

theorem newWithProj_isSome {vs : Array (CSOPoint2 K)} (proj : V2 K) (b0 b1 : K) {p0 p1 : Nat}
    (h0 : p0 < vs.size) (h1 : p1 < vs.size) : ∃ f, Face2.newWithProj vs proj b0 b1 p0 p1 = some f := by
  unfold Face2.newWithProj
  rw [Array.getElem?_eq_getElem h0, Array.getElem?_eq_getElem h1]
  simp only
  split <;> exact ⟨_, rfl⟩

theorem new_ok {vs : Array (CSOPoint2 K)} {p0 p1 : Nat} {f : Face2 K} {ins : Bool}
    (h : Face2.new vs p0 p1 = some (f, ins)) :
    FaceOK vs f ∧ (ins = true → InsOK vs f) ∧ f.pts0 = p0 := by
  unfold Face2.new at h
  split at h
  · rename_i a b ha hb
    split at h
    · rename_i proj b0 b1 hp
      rw [Option.map_eq_some_iff] at h
      obtain ⟨g, hg, he⟩ := h
      cases he
      obtain ⟨h1, h2, h3, h4, h5, h6⟩ := newWithProj_ok hg
      refine ⟨h1, fun _ => Or.inr ⟨a, b, ?_, ?_, ?_⟩, h4⟩
      · rw [h4]; exact ha
      · rw [h5]; exact hb
      · rw [h2, h3, h6]; exact hp
    · rw [Option.map_eq_some_iff] at h
      obtain ⟨g, hg, he⟩ := h
      cases he
      exact ⟨(newWithProj_ok hg).1, (fun h => by cases h), (newWithProj_ok hg).2.2.2.1⟩
  · cases h

theorem new_isSome {vs : Array (CSOPoint2 K)} {p0 p1 : Nat} (h0 : p0 < vs.size) (h1 : p1 < vs.size) :
    ∃ f, Face2.new vs p0 p1 = some f := by
  unfold Face2.new
  rw [Array.getElem?_eq_getElem h0, Array.getElem?_eq_getElem h1]
  simp only
  split
  · rename_i proj b0 b1 _
    obtain ⟨f, hf⟩ := newWithProj_isSome (vs := vs) proj b0 b1 h0 h1
    exact ⟨_, by rw [hf]; rfl⟩
  · obtain ⟨f, hf⟩ := newWithProj_isSome (vs := vs) V2.zero 0 0 h0 h1
    exact ⟨_, by rw [hf]; rfl⟩

/-- one turn of the loop over the two new faces keeps the face / heap invariants (or returns a good result) -/
theorem addFace_ok {supp1 supp2 : V2 K → V2 K} {vs : Array (CSOPoint2 K)} {curr : K} {faces : Array (Face2 K)} {heap : Array (FaceId2 K)}
    {f : Face2 K × Bool} (hv : ∀ (i : Nat) (v : CSOPoint2 K), vs[i]? = some v → GV v)
    (hf : ∀ (i : Nat) (g : Face2 K), faces[i]? = some g → FaceOK vs g)
    (hh : ∀ fid ∈ heap, ∃ g, faces[fid.id]? = some g ∧ InsOK vs g ∧ KeyOK vs g fid.negDist)
    (hok : FaceOK vs f.1) (hin : f.2 = true → InsOK vs f.1) :
    (∀ r, epa2AddFace vs curr faces heap f = .inl r → OutOK GV supp1 supp2 r) ∧
    (∀ faces' heap', epa2AddFace vs curr faces heap f = .inr (faces', heap') →
      (∀ (i : Nat) (g : Face2 K), faces'[i]? = some g → FaceOK vs g) ∧
      (∀ fid ∈ heap', ∃ g, faces'[fid.id]? = some g ∧ InsOK vs g ∧ KeyOK vs g fid.negDist) ∧
      (∀ (i : Nat) (g : Face2 K), faces[i]? = some g → faces'[i]? = some g)) := by
  have hpushF : ∀ (i : Nat) (g : Face2 K), (faces.push f.1)[i]? = some g → FaceOK vs g := by
    intro i g hg
    rw [Array.getElem?_push] at hg
    split at hg
    · cases hg; exact hok
    · exact hf i g hg
  have hkeep : ∀ (i : Nat) (g : Face2 K), faces[i]? = some g → (faces.push f.1)[i]? = some g := by
    intro i g hg
    rw [Array.getElem?_push]; split
    · rename_i h; rw [h] at hg; simp at hg
    · exact hg
  have hheapOld : ∀ fid ∈ heap, ∃ g, (faces.push f.1)[fid.id]? = some g ∧ InsOK vs g ∧ KeyOK vs g fid.negDist := by
    intro fid hfid
    obtain ⟨g, hg, hb⟩ := hh fid hfid
    exact ⟨g, hkeep _ _ hg, hb⟩
  constructor
  · intro r hr
    unfold epa2AddFace at hr
    split at hr
    · rename_i hins
      simp only at hr
      split at hr
      · cases hr; exact return_ok GV hv hok (hin hins) .numerical (fun h => by cases h)
      · split at hr
        · split at hr
          · cases hr
          · cases hr; trivial
        · cases hr
    · cases hr
  · intro faces' heap' hr
    unfold epa2AddFace at hr
    split at hr
    · rename_i hins
      simp only at hr
      split at hr
      · cases hr
      · split at hr
        · split at hr
          · rename_i fid hfid
            cases hr
            refine ⟨hpushF, ?_, hkeep⟩
            intro y hy
            rcases mem_heapPush hy with h | h
            · exact hheapOld y h
            · subst h
              unfold FaceId2.new? at hfid
              split at hfid
              · cases hfid
              · cases hfid
                exact ⟨f.1, Array.getElem?_push_size, hin hins, Or.inr (Or.inl rfl)⟩
          · cases hr
        · cases hr; exact ⟨hpushF, hheapOld, hkeep⟩
    · cases hr; exact ⟨hpushF, hheapOld, hkeep⟩

theorem finish_ok {supp1 supp2 : V2 K → V2 K} {st : Epa2State K} (h : Inv GV supp1 supp2 st) : OutOK GV supp1 supp2 (epa2Finish st) := by
  obtain ⟨f, hf, hb⟩ := h.best
  unfold epa2Finish
  rw [hf]
  exact return_ok GV h.verts (h.faces _ _ hf) hb .finished (fun h => by cases h)

theorem verts_push {vs : Array (CSOPoint2 K)} {c : CSOPoint2 K} (hv : ∀ (i : Nat) (v : CSOPoint2 K), vs[i]? = some v → GV v)
    (hc : GV c) : ∀ (i : Nat) (v : CSOPoint2 K), (vs.push c)[i]? = some v → GV v := by
  intro i v h
  rw [Array.getElem?_push] at h
  split at h
  · cases h; exact hc
  · exact hv i v h

theorem lt_size_of_getElem? {α : Type} {a : Array α} {i : Nat} {x : α} (h : a[i]? = some x) : i < a.size := by
  rcases Nat.lt_or_ge i a.size with hlt | hge
  · exact hlt
  · rw [Array.getElem?_eq_none hge] at h; cases h

theorem step_ok {supp1 supp2 : V2 K → V2 K} (hs : ∀ d, GV (csoFromShapes supp1 supp2 d)) {st : Epa2State K}
    (h : Inv GV supp1 supp2 st) :
    (∀ r, epa2Step supp1 supp2 st = .inl r → OutOK GV supp1 supp2 r) ∧
    (∀ st', epa2Step supp1 supp2 st = .inr st' → Inv GV supp1 supp2 st') := by
  have key : ∀ x, epa2Step supp1 supp2 st = x →
      match x with
      | .inl r => OutOK GV supp1 supp2 r
      | .inr st' => Inv GV supp1 supp2 st' := by
    intro x hx
    unfold epa2Step at hx
    split at hx
    · subst hx; exact finish_ok GV h
    · rename_i fid heap hpop
      obtain ⟨hfid, hsub⟩ := mem_of_heapPop hpop
      obtain ⟨face, hface, hbc, hkey⟩ := h.heap fid hfid
      rw [hface] at hx
      simp only at hx
      have hfok := h.faces _ _ hface
      split at hx
      · subst hx
        exact ⟨h.verts, h.faces, fun y hy => h.heap y (hsub y hy), h.best, h.maxd⟩
      · rename_i hdel
        have hvs := verts_push GV h.verts (hs face.normal)
        have hfaces' : ∀ (i : Nat) (g : Face2 K), st.faces[i]? = some g →
            FaceOK (st.vertices.push (csoFromShapes supp1 supp2 face.normal)) g :=
          fun i g hg => FaceOK_push _ (h.faces i g hg)
        have hbest0 : ∃ f, st.faces[(if (csoFromShapes supp1 supp2 face.normal).point.dot face.normal < st.maxDist
            then fid else st.best).id]? = some f ∧
            InsOK (st.vertices.push (csoFromShapes supp1 supp2 face.normal)) f := by
          split
          · exact ⟨face, hface, InsOK_push _ hbc⟩
          · obtain ⟨f, hf, hb⟩ := h.best
            exact ⟨f, hf, InsOK_push _ hb⟩
        generalize hB : (if (csoFromShapes supp1 supp2 face.normal).point.dot face.normal < st.maxDist
            then fid else st.best) = best' at hx hbest0
        have hmax0 : MaxOK GV supp1 supp2 (if (csoFromShapes supp1 supp2 face.normal).point.dot face.normal < st.maxDist
            then (csoFromShapes supp1 supp2 face.normal).point.dot face.normal else st.maxDist) := by
          split
          · obtain ⟨a, b, ha, hb, hn⟩ := hfok
            rcases hn with ⟨h1, _⟩ | ⟨_, _, h3⟩
            · exact Or.inr ⟨a, b, face.normal, h.verts _ _ ha, h.verts _ _ hb, h1, rfl⟩
            · exact absurd h3 hdel
          · exact h.maxd
        generalize hM : (if (csoFromShapes supp1 supp2 face.normal).point.dot face.normal < st.maxDist
            then (csoFromShapes supp1 supp2 face.normal).point.dot face.normal else st.maxDist) = maxDist' at hx hmax0
        have hbest := hbest0
        split at hx
        · split at hx
          · rename_i hcond
            subst hx
            exact return_ok GV hvs (FaceOK_push _ hfok) (InsOK_push _ hbc) .boundsMet
              (fun _ => ⟨fid.negDist, maxDist', hcond, hmax0, KeyOK_push _ hkey⟩)
          · obtain ⟨bf, hbf, hbb⟩ := hbest
            rw [hbf] at hx
            subst hx
            exact return_ok GV hvs (hfaces' _ _ hbf) hbb .stuck (fun h => by cases h)
        · obtain ⟨a, b, ha, hb, _⟩ := hfok
          have h0 : face.pts0 < (st.vertices.push (csoFromShapes supp1 supp2 face.normal)).size := by
            rw [Array.size_push]; exact Nat.lt_succ_of_lt (lt_size_of_getElem? ha)
          have h1 : face.pts1 < (st.vertices.push (csoFromShapes supp1 supp2 face.normal)).size := by
            rw [Array.size_push]; exact Nat.lt_succ_of_lt (lt_size_of_getElem? hb)
          have hsid : st.vertices.size < (st.vertices.push (csoFromShapes supp1 supp2 face.normal)).size := by
            rw [Array.size_push]; exact Nat.lt_succ_self _
          obtain ⟨f1, hf1⟩ := new_isSome h0 hsid
          obtain ⟨f2, hf2⟩ := new_isSome hsid h1
          rw [hf1, hf2] at hx
          simp only at hx
          obtain ⟨g1, hg1⟩ : ∃ g, f1 = g := ⟨_, rfl⟩
          have hn1 := new_ok (f := f1.1) (ins := f1.2) (by rw [hf1])
          have hn2 := new_ok (f := f2.1) (ins := f2.2) (by rw [hf2])
          have hheap0 : ∀ y ∈ heap, ∃ g, st.faces[y.id]? = some g ∧
              InsOK (st.vertices.push (csoFromShapes supp1 supp2 face.normal)) g ∧
              KeyOK (st.vertices.push (csoFromShapes supp1 supp2 face.normal)) g y.negDist := by
            intro y hy
            obtain ⟨g, hg, hb, hk⟩ := h.heap y (hsub y hy)
            exact ⟨g, hg, InsOK_push _ hb, KeyOK_push _ hk⟩
          have A1 := addFace_ok GV (supp1 := supp1) (supp2 := supp2) (curr := -fid.negDist) hvs hfaces' hheap0 hn1.1 hn1.2.1
          split at hx
          · rename_i r hr
            subst hx; exact A1.1 r hr
          · rename_i faces1 heap1 hr
            obtain ⟨B1, B2, B3⟩ := A1.2 faces1 heap1 hr
            have A2 := addFace_ok GV (supp1 := supp1) (supp2 := supp2) (curr := -fid.negDist) hvs B1 B2 hn2.1 hn2.2.1
            split at hx
            · rename_i r hr2
              subst hx; exact A2.1 r hr2
            · rename_i faces2 heap2 hr2
              obtain ⟨C1, C2, C3⟩ := A2.2 faces2 heap2 hr2
              obtain ⟨bf, hbf, hbb⟩ := hbest
              have hI : Inv GV supp1 supp2 ⟨st.vertices.push (csoFromShapes supp1 supp2 face.normal), faces2, heap2, st.niter + 1,
                  maxDist', best', -fid.negDist⟩ := ⟨hvs, C1, C2, ⟨bf, C3 _ _ (B3 _ _ hbf), hbb⟩, hmax0⟩
              split at hx
              · subst hx; exact finish_ok GV hI
              · subst hx; exact hI
  constructor
  · intro r hr; exact key _ hr
  · intro st' hr; exact key _ hr

theorem loop_ok {supp1 supp2 : V2 K → V2 K} (hs : ∀ d, GV (csoFromShapes supp1 supp2 d)) (fuel : Nat)
    {st : Epa2State K} (h : Inv GV supp1 supp2 st) : OutOK GV supp1 supp2 (epa2Loop supp1 supp2 fuel st) := by
  induction fuel generalizing st with
  | zero => unfold epa2Loop; trivial
  | succ n ih =>
    unfold epa2Loop
    have hk := step_ok GV hs h
    split
    · rename_i r hr; exact hk.1 r hr
    · rename_i st' hr; exact ih (hk.2 st' hr)

theorem start_ok {supp1 supp2 : V2 K → V2 K} (hs : ∀ d, GV (csoFromShapes supp1 supp2 d)) (fuel : Nat)
    {vs : Array (CSOPoint2 K)} {faces : Array (Face2 K)} {heap : Array (FaceId2 K)}
    (hv : ∀ (i : Nat) (v : CSOPoint2 K), vs[i]? = some v → GV v)
    (hf : ∀ (i : Nat) (g : Face2 K), faces[i]? = some g → FaceOK vs g)
    (hh : ∀ fid ∈ heap, ∃ g, faces[fid.id]? = some g ∧ InsOK vs g ∧ KeyOK vs g fid.negDist)
    (hne : heap.size ≠ 0) : OutOK GV supp1 supp2 (epa2Start supp1 supp2 fuel vs faces heap) := by
  unfold epa2Start
  split
  · rename_i h0
    have : 0 < heap.size := Nat.pos_of_ne_zero hne
    rw [Array.getElem?_eq_getElem this] at h0; cases h0
  · rename_i top htop
    obtain ⟨g, hg, hins, _⟩ := hh top (Array.mem_of_getElem? htop)
    exact loop_ok GV hs fuel ⟨hv, hf, hh, ⟨g, hg, hins⟩, Or.inl rfl⟩

theorem size_heapPush (h : Array (FaceId2 K)) (x : FaceId2 K) : (heapPush h x).size = h.size + 1 := by
  unfold heapPush
  rw [(heapSiftUp_perm _ _ _).size_eq, Array.size_push]

theorem initPush_ok {heap heap' : Array (FaceId2 K)} {i : Nat} {f : Face2 K × Bool} {v : CSOPoint2 K}
    (h : epa2InitPush heap i f v = some heap') :
    (∀ y ∈ heap', y ∈ heap ∨ (y.id = i ∧ f.2 = true ∧ y.negDist = -(f.1.normal.dot v.point))) ∧
    (f.2 = true → heap'.size ≠ 0) ∧
    (heap.size ≠ 0 → heap'.size ≠ 0) := by
  unfold epa2InitPush at h
  split at h
  · rename_i hins
    simp only at h
    rw [Option.map_eq_some_iff] at h
    obtain ⟨fid, hfid, he⟩ := h
    subst he
    unfold FaceId2.new? at hfid
    split at hfid
    · cases hfid
    · cases hfid
      refine ⟨?_, fun _ => by rw [size_heapPush]; exact Nat.succ_ne_zero _, fun _ => by rw [size_heapPush]; exact Nat.succ_ne_zero _⟩
      intro y hy
      rcases mem_heapPush hy with h | h
      · exact Or.inl h
      · subst h; exact Or.inr ⟨rfl, hins, rfl⟩
  · cases h
    refine ⟨fun y hy => Or.inl hy, fun h => ?_, fun h => h⟩
    rename_i hn; exact absurd h hn

/-- **invariant theorem** for `EPA::closest_points` started from a 1-D or 2-D simplex: if the simplex points and every
CSO support point satisfy `GV`, every result satisfies `OutOK` (in particular no indexing panic) -/
theorem closestPoints_ok {supp1 supp2 : V2 K → V2 K} (hs : ∀ d, GV (csoFromShapes supp1 supp2 d)) (fuel : Nat)
    (simplex : List (CSOPoint2 K)) (hg : ∀ v ∈ simplex, GV v) (hlen : simplex.length = 2 ∨ simplex.length = 3) :
    OutOK GV supp1 supp2 (epa2ClosestPoints supp1 supp2 fuel simplex) := by
  match simplex, hlen with
  | [v0, v1], _ =>
    have g0 : GV v0 := hg v0 (by simp)
    have g1 : GV v1 := hg v1 (by simp)
    have hv : ∀ (i : Nat) (v : CSOPoint2 K), (#[v0, v1] : Array (CSOPoint2 K))[i]? = some v → GV v := by
      intro i v h
      match i, h with
      | 0, h => simp at h; subst h; exact g0
      | 1, h => simp at h; subst h; exact g1
      | n + 2, h => simp at h
    unfold epa2ClosestPoints
    simp only
    split
    · rename_i f1 f2 hf1 hf2
      obtain ⟨k1, k1a, k1b⟩ := newWithProj_ok hf1
      obtain ⟨k2, k2a, k2b⟩ := newWithProj_ok hf2
      split
      · rename_i i1 i2 hi1 hi2
        have e1 : i1.id = 0 ∧ i1.negDist = 0 := by
          unfold FaceId2.new? at hi1; split at hi1
          · cases hi1
          · cases hi1; exact ⟨rfl, rfl⟩
        have e2 : i2.id = 1 ∧ i2.negDist = 0 := by
          unfold FaceId2.new? at hi2; split at hi2
          · cases hi2
          · cases hi2; exact ⟨rfl, rfl⟩
        apply start_ok GV hs fuel hv
        · intro i g h
          match i, h with
          | 0, h => simp at h; subst h; exact k1
          | 1, h => simp at h; subst h; exact k2
          | n + 2, h => simp at h
        · intro y hy
          rcases mem_heapPush hy with h | h
          · rcases mem_heapPush h with h' | h'
            · simp at h'
            · subst h'; rw [e1.1]; exact ⟨f1, by simp, Or.inl ⟨k1a, k1b.1, k1b.2.2.2⟩, Or.inl e1.2⟩
          · subst h; rw [e2.1]; exact ⟨f2, by simp, Or.inl ⟨k2a, k2b.1, k2b.2.2.2⟩, Or.inl e2.2⟩
        · rw [size_heapPush]; exact Nat.succ_ne_zero _
      · trivial
    · rename_i hno
      obtain ⟨f1, hf1⟩ := newWithProj_isSome (vs := #[v0, v1]) V2.zero 1 0 (p0 := 0) (p1 := 1) (by simp) (by simp)
      obtain ⟨f2, hf2⟩ := newWithProj_isSome (vs := #[v0, v1]) V2.zero 1 0 (p0 := 1) (p1 := 0) (by simp) (by simp)
      exact absurd hf2 (hno f1 f2 hf1)
  | [v0, v1, v2], _ =>
    have g0 : GV v0 := hg v0 (by simp)
    have g1 : GV v1 := hg v1 (by simp)
    have g2 : GV v2 := hg v2 (by simp)
    unfold epa2ClosestPoints
    simp only
    generalize hvs : (if (v1.point.sub v0.point).perp (v2.point.sub v0.point) < 0 then (#[v0, v2, v1] : Array (CSOPoint2 K))
      else #[v0, v1, v2]) = vs
    have hsz : vs.size = 3 := by
      rw [← hvs]; split <;> rfl
    have hv : ∀ (i : Nat) (v : CSOPoint2 K), vs[i]? = some v → GV v := by
      intro i v h
      rw [← hvs] at h
      split at h
      · match i, h with
        | 0, h => simp at h; subst h; exact g0
        | 1, h => simp at h; subst h; exact g2
        | 2, h => simp at h; subst h; exact g1
        | n + 3, h => simp at h
      · match i, h with
        | 0, h => simp at h; subst h; exact g0
        | 1, h => simp at h; subst h; exact g1
        | 2, h => simp at h; subst h; exact g2
        | n + 3, h => simp at h
    split
    · rename_i f1 f2 f3 w0 w1 w2 hf1 hf2 hf3 hw0 hw1 hw2
      have n1 := new_ok (f := f1.1) (ins := f1.2) hf1
      have n2 := new_ok (f := f2.1) (ins := f2.2) hf2
      have n3 := new_ok (f := f3.1) (ins := f3.2) hf3
      split
      · trivial
      · rename_i h1 hh1
        have p1 := initPush_ok hh1
        split
        · trivial
        · rename_i h2 hh2
          have p2 := initPush_ok hh2
          split
          · trivial
          · rename_i h3 hh3
            have p3 := initPush_ok hh3
            split
            · trivial
            · rename_i hany
              apply start_ok GV hs fuel hv
              · intro i g h
                match i, h with
                | 0, h => simp at h; subst h; exact n1.1
                | 1, h => simp at h; subst h; exact n2.1
                | 2, h => simp at h; subst h; exact n3.1
                | n + 3, h => simp at h
              · intro y hy
                rcases p3.1 y hy with h | ⟨hid, hin, hnd⟩
                · rcases p2.1 y h with h | ⟨hid, hin, hnd⟩
                  · rcases p1.1 y h with h | ⟨hid, hin, hnd⟩
                    · simp at h
                    · rw [hid]; exact ⟨f1.1, by simp, n1.2.1 hin, Or.inr (Or.inr ⟨w0, by rw [n1.2.2]; exact hw0, hnd⟩)⟩
                  · rw [hid]; exact ⟨f2.1, by simp, n2.2.1 hin, Or.inr (Or.inr ⟨w1, by rw [n2.2.2]; exact hw1, hnd⟩)⟩
                · rw [hid]; exact ⟨f3.1, by simp, n3.2.1 hin, Or.inr (Or.inr ⟨w2, by rw [n3.2.2]; exact hw2, hnd⟩)⟩
              · have : f1.2 = true ∨ f2.2 = true ∨ f3.2 = true := by
                  cases hA : f1.2 <;> cases hB : f2.2 <;> cases hC : f3.2 <;> simp_all
                rcases this with h | h | h
                · exact p3.2.2 (p2.2.2 (p1.2.1 h))
                · exact p3.2.2 (p2.2.1 h)
                · exact p3.2.1 h
    · rename_i hno
      have i0 : 0 < vs.size := by omega
      have i1 : 1 < vs.size := by omega
      have i2 : 2 < vs.size := by omega
      obtain ⟨f1, hf1⟩ := new_isSome (vs := vs) i0 i1
      obtain ⟨f2, hf2⟩ := new_isSome (vs := vs) i1 i2
      obtain ⟨f3, hf3⟩ := new_isSome (vs := vs) i2 i0
      exact absurd (Array.getElem?_eq_getElem i2) (hno f1 f2 f3 _ _ _ hf1 hf2 hf3 (Array.getElem?_eq_getElem i0) (Array.getElem?_eq_getElem i1))


/-! ## the expansion replaces the edge `a → b` by `a → s → b` (2-D silhouette: two edges) -/

theorem new_pts {vs : Array (CSOPoint2 K)} {p0 p1 : Nat} {f : Face2 K} {ins : Bool}
    (h : Face2.new vs p0 p1 = some (f, ins)) : f.pts0 = p0 ∧ f.pts1 = p1 := by
  unfold Face2.new at h
  split at h
  · split at h
    · rw [Option.map_eq_some_iff] at h
      obtain ⟨g, hg, he⟩ := h
      cases he
      obtain ⟨_, _, _, h4, h5, _⟩ := newWithProj_ok hg
      exact ⟨h4, h5⟩
    · rw [Option.map_eq_some_iff] at h
      obtain ⟨g, hg, he⟩ := h
      cases he
      obtain ⟨_, _, _, h4, h5, _⟩ := newWithProj_ok hg
      exact ⟨h4, h5⟩
  · cases h

theorem addFace_faces {vs : Array (CSOPoint2 K)} {curr : K} {faces faces' : Array (Face2 K)} {heap heap' : Array (FaceId2 K)}
    {f : Face2 K × Bool} (h : epa2AddFace vs curr faces heap f = .inr (faces', heap')) : faces' = faces.push f.1 := by
  unfold epa2AddFace at h
  split at h
  · simp only at h
    split at h
    · cases h
    · split at h
      · split at h
        · cases h; rfl
        · cases h
      · cases h; rfl
  · cases h; rfl

/-- one loop iteration that continues either only drops a deleted face from the heap, or pushes the support point `s` of a
queued face `[a, b]` and appends exactly the two faces `[a, s]` and `[s, b]` -/
theorem step_splits_face {supp1 supp2 : V2 K → V2 K} {st st' : Epa2State K}
    (h : epa2Step supp1 supp2 st = .inr st') :
    (st'.vertices = st.vertices ∧ st'.faces = st.faces) ∨
    ∃ (fid : FaceId2 K) (face g1 g2 : Face2 K), fid ∈ st.heap ∧ st.faces[fid.id]? = some face ∧
      st'.vertices = st.vertices.push (csoFromShapes supp1 supp2 face.normal) ∧
      st'.faces = (st.faces.push g1).push g2 ∧
      g1.pts0 = face.pts0 ∧ g1.pts1 = st.vertices.size ∧ g2.pts0 = st.vertices.size ∧ g2.pts1 = face.pts1 := by
  unfold epa2Step at h
  split at h
  · cases h
  · rename_i fid heap hpop
    obtain ⟨hfid, _⟩ := mem_of_heapPop hpop
    split at h
    · cases h
    · rename_i face hface
      split at h
      · cases h; exact Or.inl ⟨rfl, rfl⟩
      · simp only at h
        generalize hB : (if (csoFromShapes supp1 supp2 face.normal).point.dot face.normal < st.maxDist
            then fid else st.best) = best' at h
        generalize hM : (if (csoFromShapes supp1 supp2 face.normal).point.dot face.normal < st.maxDist
            then (csoFromShapes supp1 supp2 face.normal).point.dot face.normal else st.maxDist) = maxDist' at h
        split at h
        · split at h
          · cases h
          · split at h <;> cases h
        · split at h
          · rename_i f1 f2 hf1 hf2
            have q1 := new_pts (f := f1.1) (ins := f1.2) hf1
            have q2 := new_pts (f := f2.1) (ins := f2.2) hf2
            split at h
            · cases h
            · rename_i faces1 heap1 hr1
              have e1 := addFace_faces hr1
              split at h
              · cases h
              · rename_i faces2 heap2 hr2
                have e2 := addFace_faces hr2
                split at h
                · cases h
                · cases h
                  refine Or.inr ⟨fid, face, f1.1, f2.1, hfid, hface, rfl, ?_, q1.1, q1.2, q2.1, q2.2⟩
                  show faces2 = _
                  rw [e2, e1]
          · cases h

end C02
