import ParryModel.C02.Theorems
#print axioms C02.contactBallBall_consistent
#print axioms C02.contactBallBall_none_iff
#print axioms C02.contactHS_consistent
#print axioms C02.contactHS_none_iff
#print axioms C02.contactConsistent_flipped
#print axioms C02.fieldNum_copySign
#print axioms C02.cuboid_localSupport_spec
#print axioms C02.contactHS_cuboid_dist_is_separation
#print axioms C02.halfspace_verdicts
#print axioms C02.support_eq_supportToward
#print axioms C02.halfspace_verdicts_mirrored
#print axioms C02.ballBall_verdicts
#print axioms C02.ballBall_verdicts_pred0
#print axioms C02.intersectionTestCuboidCuboid_sound
#print axioms C02.satEdgeAxes_spec
