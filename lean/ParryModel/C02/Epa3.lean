import ParryModel.C05.Model
import ParryModel.C02.Epa2
/-!
# C02 model: the 3-D Expanding Polytope Algorithm, `src/query/epa/epa3.rs`, literal transliteration

`EPA::closest_points(pos12, g1, g2, simplex)` (dim3) over two abstract support functions (as `Epa2.lean`):
`Face::new` (through `Triangle::project_local_point_and_get_location`, modelled in `C05/Model.lean`, with
`barycentric_coordinates`, `is_inside_eps`), `Face::new_with_proj`, `ccw_face_normal` (dim3), `can_be_seen_by`
(`Triangle::is_affinely_dependent`: `relative_eq!(|p1p2 × p1p3|², 0, (100 ε)²)`), `next_ccw_pt_id`, the recursive
`compute_silhouette` (fuelled: every call deletes a face or records an edge), the four initialisations (dimension 0: the
constant answer; 1: `Vector::orthonormal_subspace_basis(&[dpt], ..)` adds one support point; 1 / 2: two coincident faces with
keys 0; 3: tetrahedron made outward-oriented) and the expansion loop with every exit.  The `BinaryHeap<FaceId>` is the one of
`Epa2.lean` (same `FaceId`).  `.panic` = an indexing panic (`usize` underflow of `new_face_id - 1` cannot happen: at least two
faces exist), `.fuel` = model fuel exhausted (deleted faces stay in the heap and are skipped without counting as an iteration: the driver runs with fuel 4096).
-/
namespace Model
variable {K : Type} [Num K]

/-- `CSOPoint` (dim3) -/
structure CSOPoint3 (K : Type) where
  point : V3 K
  orig1 : V3 K
  orig2 : V3 K

@[inline] def CSOPoint3.new (o1 o2 : V3 K) : CSOPoint3 K := ⟨o1.sub o2, o1, o2⟩
@[inline] def csoFromShapes3 (supp1 supp2 : V3 K → V3 K) (dir : V3 K) : CSOPoint3 K :=
  CSOPoint3.new (supp1 dir) (supp2 dir.neg)

def unitTryNew3 (v : V3 K) (minNorm : K) : Option (V3 K) :=
  let sq := v.normSq
  if minNorm * minNorm < sq then some (v.sdiv (Num.sqrt sq)) else none

/-- `utils::ccw_face_normal([a, b, c])` (dim3) -/
def ccwFaceNormal3 (a b c : V3 K) : Option (V3 K) :=
  unitTryNew3 ((b.sub a).cross (c.sub a)) epsDefault

/-- `Triangle::new(a, b, c).is_affinely_dependent()`: `relative_eq!(x, 0.0, epsilon = EPS * EPS)` with
`EPS = DEFAULT_EPSILON * 100`, `max_relative = f64::EPSILON` (finite `x`) -/
def triAffinelyDependent (a b c : V3 K) : Bool :=
  let x := ((b.sub a).cross (c.sub a)).normSq
  let e : K := epaEpsTol
  if neq x 0 then true else
  let absDiff := nabs (x - 0)
  if absDiff ≤ e * e then true else
  let largest := if nabs x < nabs (0 : K) then nabs (0 : K) else nabs x
  decide (absDiff ≤ largest * epsDefault)

structure Face3 (K : Type) where
  p0 : Nat
  p1 : Nat
  p2 : Nat
  a0 : Nat
  a1 : Nat
  a2 : Nat
  normal : V3 K
  bc0 : K
  bc1 : K
  bc2 : K
  deleted : Bool

@[inline] def Face3.pt (f : Face3 K) (i : Nat) : Nat := if i = 0 then f.p0 else if i = 1 then f.p1 else f.p2
@[inline] def Face3.adj (f : Face3 K) (i : Nat) : Nat := if i = 0 then f.a0 else if i = 1 then f.a1 else f.a2
@[inline] def Face3.setAdj (f : Face3 K) (i v : Nat) : Face3 K :=
  if i = 0 then { f with a0 := v } else if i = 1 then { f with a1 := v } else { f with a2 := v }

/-- `Face::new_with_proj` -/
def Face3.newWithProj (vs : Array (CSOPoint3 K)) (b0 b1 b2 : K) (p0 p1 p2 a0 a1 a2 : Nat) : Option (Face3 K) :=
  match vs[p0]?, vs[p1]?, vs[p2]? with
  | some a, some b, some c =>
    match ccwFaceNormal3 a.point b.point c.point with
    | some n => some ⟨p0, p1, p2, a0, a1, a2, n, b0, b1, b2, false⟩
    | none => some ⟨p0, p1, p2, a0, a1, a2, V3.zero, b0, b1, b2, false⟩
  | _, _, _ => none

/-- `Face::new`: the face and `proj_is_inside` -/
def Face3.new (vs : Array (CSOPoint3 K)) (p0 p1 p2 a0 a1 a2 : Nat) : Option (Face3 K × Bool) :=
  match vs[p0]?, vs[p1]?, vs[p2]? with
  | some a, some b, some c =>
    let r := (Triangle3.mk a.point b.point c.point).projectLoc V3.zero true
    let proj := r.1
    let insideEps : Bool := proj.inside || decide ((proj.pt.sub V3.zero).normSq < epaEpsTol * epaEpsTol)
    match r.2 with
    | .vertex i =>
      let b0 : K := if i = 0 then 1 else 0
      let b1 : K := if i = 1 then 1 else 0
      let b2 : K := if i = 2 then 1 else 0
      (Face3.newWithProj vs b0 b1 b2 p0 p1 p2 a0 a1 a2).map (·, insideEps)
    | .edge i u v =>
      let (b0, b1, b2) : K × K × K := if i = 0 then (u, v, 0) else if i = 1 then (0, u, v) else (u, 0, v)
      (Face3.newWithProj vs b0 b1 b2 p0 p1 p2 a0 a1 a2).map (·, insideEps)
    | .face _ b0 b1 b2 => (Face3.newWithProj vs b0 b1 b2 p0 p1 p2 a0 a1 a2).map (·, true)
    | .solid => (Face3.newWithProj vs 0 0 0 p0 p1 p2 a0 a1 a2).map (·, false)
  | _, _, _ => none

def Face3.closestPoints (f : Face3 K) (vs : Array (CSOPoint3 K)) : Option (V3 K × V3 K) :=
  match vs[f.p0]?, vs[f.p1]?, vs[f.p2]? with
  | some a, some b, some c =>
    some (((a.orig1.smul f.bc0).add (b.orig1.smul f.bc1)).add (c.orig1.smul f.bc2),
          ((a.orig2.smul f.bc0).add (b.orig2.smul f.bc1)).add (c.orig2.smul f.bc2))
  | _, _, _ => none

/-- `next_ccw_pt_id` -/
def Face3.nextCcwPtId (f : Face3 K) (id : Nat) : Nat := if f.p0 = id then 1 else if f.p1 = id then 2 else 0

/-- `can_be_seen_by(vertices, point, opp_pt_id)`; `none` = index panic -/
def Face3.canBeSeenBy (f : Face3 K) (vs : Array (CSOPoint3 K)) (point opp : Nat) : Option Bool :=
  match vs[f.pt opp]?, vs[f.pt ((opp + 1) % 3)]?, vs[f.pt ((opp + 2) % 3)]?, vs[point]? with
  | some q0, some q1, some q2, some pt =>
    some (decide (-epaGjkEpsTol ≤ (pt.point.sub q0.point).dot f.normal) || triAffinelyDependent q1.point q2.point pt.point)
  | _, _, _, _ => none

/-- `compute_silhouette(point, id, opp_pt_id)`; state = (faces, silhouette); `none` = panic / fuel -/
def epa3Silhouette (vs : Array (CSOPoint3 K)) (point : Nat) :
    Nat → Array (Face3 K) → Array (Nat × Nat) → Nat → Nat → Option (Array (Face3 K) × Array (Nat × Nat))
  | 0, _, _, _, _ => none
  | fuel + 1, faces, sil, id, opp =>
    match faces[id]? with
    | none => none
    | some f =>
      if f.deleted then some (faces, sil) else
      match f.canBeSeenBy vs point opp with
      | none => none
      | some false => some (faces, sil.push (id, opp))
      | some true =>
        let faces := faces.setIfInBounds id { f with deleted := true }
        let adjPt1 := (opp + 2) % 3
        let adjPt2 := opp
        let adj1 := f.adj adjPt1
        let adj2 := f.adj adjPt2
        match faces[adj1]?, faces[adj2]? with
        | some g1, some g2 =>
          let o1 := g1.nextCcwPtId (f.pt adjPt1)
          let o2 := g2.nextCcwPtId (f.pt adjPt2)
          match epa3Silhouette vs point fuel faces sil adj1 o1 with
          | none => none
          | some (faces, sil) => epa3Silhouette vs point fuel faces sil adj2 o2
        | _, _ => none

inductive Epa3Result (K : Type) where
  | panic
  | fuel
  | none
  | some (p1 p2 n : V3 K) (why : Epa2Exit)

structure Epa3State (K : Type) where
  vertices : Array (CSOPoint3 K)
  faces : Array (Face3 K)
  heap : Array (FaceId2 K)
  niter : Nat
  maxDist : K
  best : FaceId2 K
  oldDist : K

def epa3Return (f : Face3 K) (vs : Array (CSOPoint3 K)) (why : Epa2Exit) : Epa3Result K :=
  match f.closestPoints vs with
  | some (p1, p2) => .some p1 p2 f.normal why
  | none => .panic

def epa3Finish (st : Epa3State K) : Epa3Result K :=
  match st.faces[st.best.id]? with
  | some f => epa3Return f st.vertices .finished
  | none => .panic

/-- one turn of `for edge in &self.silhouette` -/
def epa3AddFace (vs : Array (CSOPoint3 K)) (sid : Nat) (curr : K) (face : Face3 K) (faces : Array (Face3 K))
    (heap : Array (FaceId2 K)) (edge : Nat × Nat) : Sum (Epa3Result K) (Array (Face3 K) × Array (FaceId2 K)) :=
  match faces[edge.1]? with
  | none => .inl .panic
  | some fa =>
    if fa.deleted then .inr (faces, heap) else
    let newId := faces.size
    let ptId1 := fa.pt ((edge.2 + 2) % 3)
    let ptId2 := fa.pt ((edge.2 + 1) % 3)
    if newId = 0 then .inl .panic else
    match Face3.new vs ptId1 ptId2 sid edge.1 (newId + 1) (newId - 1) with
    | none => .inl .panic
    | some nf =>
      let faces := faces.setIfInBounds edge.1 (fa.setAdj ((edge.2 + 1) % 3) newId)
      let faces := faces.push nf.1
      if nf.2 then
        match vs[nf.1.p0]? with
        | none => .inl .panic
        | some v =>
          let dist := nf.1.normal.dot v.point
          if dist < curr - epaEpsTol then .inl (epa3Return face vs .numerical)
          else match FaceId2.new? newId (-dist) with
            | some fid => .inr (faces, heapPush heap fid)
            | none => .inl .none
      else .inr (faces, heap)

def epa3AddFaces (vs : Array (CSOPoint3 K)) (sid : Nat) (curr : K) (face : Face3 K) :
    List (Nat × Nat) → Array (Face3 K) → Array (FaceId2 K) → Sum (Epa3Result K) (Array (Face3 K) × Array (FaceId2 K))
  | [], faces, heap => .inr (faces, heap)
  | e :: es, faces, heap =>
    match epa3AddFace vs sid curr face faces heap e with
    | .inl r => .inl r
    | .inr (faces, heap) => epa3AddFaces vs sid curr face es faces heap

def epa3Step (supp1 supp2 : V3 K → V3 K) (st : Epa3State K) : Sum (Epa3Result K) (Epa3State K) :=
  match heapPop st.heap with
  | none => .inl (epa3Finish st)
  | some (fid, heap) =>
    match st.faces[fid.id]? with
    | none => .inl .panic
    | some face =>
      if face.deleted then .inr { st with heap := heap } else
      let cso := csoFromShapes3 supp1 supp2 face.normal
      let sid := st.vertices.size
      let vs := st.vertices.push cso
      let cand := cso.point.dot face.normal
      let best := if cand < st.maxDist then fid else st.best
      let maxDist := if cand < st.maxDist then cand else st.maxDist
      let curr := -fid.negDist
      if maxDist - curr < epaEpsTol || (nabs (curr - st.oldDist) < epsDefault && cand < maxDist) then
        if maxDist - curr < epaEpsTol then .inl (epa3Return face vs .boundsMet)
        else match st.faces[best.id]? with
          | some bf => .inl (epa3Return bf vs .stuck)
          | none => .inl .panic
      else
        let faces := st.faces.setIfInBounds fid.id { face with deleted := true }
        match faces[face.a0]?, faces[face.a1]?, faces[face.a2]? with
        | some g0, some g1, some g2 =>
          let o0 := g0.nextCcwPtId face.p0
          let o1 := g1.nextCcwPtId face.p1
          let o2 := g2.nextCcwPtId face.p2
          let sfuel := 3 * faces.size + 8
          match epa3Silhouette vs sid sfuel faces #[] face.a0 o0 with
          | none => .inl .panic
          | some (faces, sil) =>
          match epa3Silhouette vs sid sfuel faces sil face.a1 o1 with
          | none => .inl .panic
          | some (faces, sil) =>
          match epa3Silhouette vs sid sfuel faces sil face.a2 o2 with
          | none => .inl .panic
          | some (faces, sil) =>
            let firstNew := faces.size
            if sil.size = 0 then .inl .none else
            match epa3AddFaces vs sid curr face sil.toList faces heap with
            | .inl r => .inl r
            | .inr (faces, heap) =>
              if firstNew = faces.size then .inl .none else
              match faces[firstNew]?, faces[faces.size - 1]? with
              | some _, some _ =>
                let faces := faces.modify firstNew (fun f => f.setAdj 2 (faces.size - 1))
                let faces := faces.modify (faces.size - 1) (fun f => f.setAdj 1 firstNew)
                let st' : Epa3State K := ⟨vs, faces, heap, st.niter + 1, maxDist, best, curr⟩
                if 100 < st'.niter then .inl (epa3Finish st') else .inr st'
              | _, _ => .inl .panic
        | _, _, _ => .inl .panic

def epa3Loop (supp1 supp2 : V3 K → V3 K) : Nat → Epa3State K → Epa3Result K
  | 0, _ => .fuel
  | fuel + 1, st =>
    match epa3Step supp1 supp2 st with
    | .inl r => r
    | .inr st' => epa3Loop supp1 supp2 fuel st'

def epa3Start (supp1 supp2 : V3 K → V3 K) (fuel : Nat) (vs : Array (CSOPoint3 K)) (faces : Array (Face3 K))
    (heap : Array (FaceId2 K)) : Epa3Result K :=
  match heap[0]? with
  | none => .none
  | some top => epa3Loop supp1 supp2 fuel ⟨vs, faces, heap, 0, realMax, top, 0⟩

def epa3InitPush (heap : Array (FaceId2 K)) (i : Nat) (f : Face3 K × Bool) (v : CSOPoint3 K) : Option (Array (FaceId2 K)) :=
  if f.2 then
    let dist := f.1.normal.dot v.point
    (FaceId2.new? i (-dist)).map (heapPush heap)
  else some heap

/-- the flat start (dimension 1 after the extra support point, or 2): two coincident faces with keys 0 -/
def epa3FlatStart (supp1 supp2 : V3 K → V3 K) (fuel : Nat) (vs : Array (CSOPoint3 K)) : Epa3Result K :=
  match Face3.new vs 0 1 2 1 1 1, Face3.new vs 0 2 1 0 0 0 with
  | some f1, some f2 =>
    match FaceId2.new? 0 (0 : K), FaceId2.new? 1 (0 : K) with
    | some i1, some i2 => epa3Start supp1 supp2 fuel vs #[f1.1, f2.1] (heapPush (heapPush #[] i1) i2)
    | _, _ => .none
  | _, _ => .panic

/-- `EPA::closest_points(pos12, g1, g2, simplex)` (dim3), `simplex.length = simplex.dimension() + 1` -/
def epa3ClosestPoints (supp1 supp2 : V3 K → V3 K) (fuel : Nat) (simplex : List (CSOPoint3 K)) : Epa3Result K :=
  match simplex with
  | [_] => .some V3.zero V3.zero ⟨0, 1, 0⟩ .vertexVertex
  | [v0, v1] =>
    let dpt := v1.point.sub v0.point
    let a : V3 K := if nabs dpt.y < nabs dpt.x then ⟨dpt.z, 0, -dpt.x⟩ else ⟨0, -dpt.z, dpt.y⟩
    let a := a.sdiv a.norm
    let dir := a.cross dpt
    epa3FlatStart supp1 supp2 fuel #[v0, v1, csoFromShapes3 supp1 supp2 dir]
  | [v0, v1, v2] => epa3FlatStart supp1 supp2 fuel #[v0, v1, v2]
  | [v0, v1, v2, v3] =>
    let dp1 := v1.point.sub v0.point
    let dp2 := v2.point.sub v0.point
    let dp3 := v3.point.sub v0.point
    let vs : Array (CSOPoint3 K) := if 0 < (dp1.cross dp2).dot dp3 then #[v0, v2, v1, v3] else #[v0, v1, v2, v3]
    match Face3.new vs 0 1 2 3 1 2, Face3.new vs 1 3 2 3 2 0, Face3.new vs 0 2 3 0 1 3, Face3.new vs 0 3 1 2 1 0 with
    | some f1, some f2, some f3, some f4 =>
      match vs[0]?, vs[1]?, vs[2]?, vs[3]? with
      | some w0, some w1, some w2, some w3 =>
        match epa3InitPush #[] 0 f1 w0 with
        | none => .none
        | some h =>
        match epa3InitPush h 1 f2 w1 with
        | none => .none
        | some h =>
        match epa3InitPush h 2 f3 w2 with
        | none => .none
        | some h =>
        match epa3InitPush h 3 f4 w3 with
        | none => .none
        | some h =>
          if !(f1.2 || f2.2 || f3.2 || f4.2) then .none
          else epa3Start supp1 supp2 fuel vs #[f1.1, f2.1, f3.1, f4.1] h
      | _, _, _, _ => .panic
    | _, _, _, _ => .panic
  | _ => .panic

/-- `contact_support_map_support_map(pos12, g1, g2, prediction)` (dim3) from the point where `gjk::closest_points` has
answered `Intersection` on `simplex` (see `contactFromEpa2`) -/
def contactFromEpa3 (pos12 : Iso3 K) (supp1 supp2 : V3 K → V3 K) (fuel : Nat) (simplex : List (CSOPoint3 K)) :
    Option (Option (Contact3 K)) :=
  match epa3ClosestPoints supp1 supp2 fuel simplex with
  | .some point1 point2_1 normal1 _ =>
    let dist := (point2_1.sub point1).dot normal1
    let point2 := pos12.invAct point2_1
    let normal2 := pos12.invRot normal1.neg
    some (some ⟨point1, point2, normal1, normal2, dist⟩)
  | .none => some none
  | _ => none

end Model
