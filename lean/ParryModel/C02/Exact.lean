import ParryModel.Proto
import ParryModel.C03.Oracle
/-!
# C02 exact referees (follow-up 2): signed separation of posed shapes in exact rational arithmetic

Independent of every query function of the library and of every model function: the shapes are turned into
*rounded convex polytopes* (a vertex list, its edges and faces, and a rounding radius) posed in the world frame, and

* the **separation distance** of two disjoint cores is the least feature distance (2-D: vertex–edge; 3-D: vertex–face
  and edge–edge), computed with rational clamped projections; only the final square root is approximated (absolute
  error below `2^-40`);
* the cores **intersect** iff a feature distance is exactly `0`, an edge pierces a face, or a vertex of one lies in the
  solid of the other (2-D: no separating axis among the edge normals / directions);
* the **penetration depth** (minimum translation separating the shapes) of two intersecting 2-D cores is the least
  support overlap over the edge normals of both (the facet normals of the configuration-space obstacle), plus the radii;
  for rounded shapes with disjoint cores it is `r1 + r2 - distance`.  In 3-D the depth of two boxes is the exact 15-axis
  SAT of `Driver.lean`.

A composite (Compound / Polyline / TriMesh) is the list of its parts; its separation is the least over the parts (only
the sign is meaningful when negative).
-/
namespace C02
open Model Proto C03

def rmin (a b : Rat) : Rat := if b < a then b else a
def rmax (a b : Rat) : Rat := if a < b then b else a
def minList : List Rat → Option Rat
  | [] => none
  | v :: vs => some (vs.foldl rmin v)
def rclamp01 (x : Rat) : Rat := if x < 0 then 0 else if 1 < x then 1 else x

/-! ## wire shapes with their parts kept -/
inductive XShape2 where
  | prim (w : WShape2)
  | compound (parts : List (Iso2 Float × WShape2))
  | polyline (vs : List (V2 Float))

def pxshape2 : P XShape2 := do
  let k ← tok
  match k with
  | "compound" => do
      let ps ← plist (do let m ← piso2; let k' ← tok; let w ← pprim2 k'; pure (m, w))
      pure (.compound ps)
  | "polyline" => do let vs ← plist pv2; pure (.polyline vs)
  | _ => do let w ← pprim2 k; pure (.prim w)

def XShape2.kind : XShape2 → String
  | .prim w => w.kind
  | .compound _ => "compound"
  | .polyline _ => "polyline"
def XShape2.isComposite : XShape2 → Bool
  | .prim _ => false
  | _ => true
def XShape2.nparts : XShape2 → Nat
  | .prim _ => 1
  | .compound ps => ps.length
  | .polyline vs => vs.length - 1
def XShape2.size : XShape2 → Rat
  | .prim w => w.size
  | .compound ps => (ps.map fun (m, w) => vmag2 (q2 m.t) + w.size).foldl rmax 0
  | .polyline vs => (vs.map fun v => vmag2 (q2 v)).foldl rmax 0

inductive XShape3 where
  | prim (w : WShape)
  | compound (parts : List (Iso3 Float × WShape))
  | trimesh (flags : Nat) (vs : List (V3 Float)) (ts : List (Nat × Nat × Nat))

def pxshape3 : P XShape3 := do
  let k ← tok
  match k with
  | "compound" => do
      let ps ← plist (do let m ← piso3; let k' ← tok; let w ← pprim k'; pure (m, w))
      pure (.compound ps)
  | "trimesh" => do
      let f ← pnat
      let vs ← plist pv3
      let ts ← plist (do let a ← pnat; let b ← pnat; let c ← pnat; pure (a, b, c))
      pure (.trimesh f vs ts)
  | _ => do let w ← pprim k; pure (.prim w)

def wsize3 : WShape → Rat
  | .ball r => rabs (q r)
  | .cuboid h => vmag (q3 h)
  | .halfspace _ => 0
  | .capsule a b r => vmag (q3 a) + vmag (q3 b) + rabs (q r)
  | .triangle a b c => vmag (q3 a) + vmag (q3 b) + vmag (q3 c)
  | .segment a b => vmag (q3 a) + vmag (q3 b)
  | .composite _ s => rabs (q s)
def wkind3 : WShape → String
  | .ball _ => "ball" | .cuboid _ => "cuboid" | .halfspace _ => "halfspace"
  | .capsule .. => "capsule" | .triangle .. => "triangle" | .segment .. => "segment"
  | .composite k _ => k
def XShape3.kind : XShape3 → String
  | .prim w => wkind3 w
  | .compound _ => "compound"
  | .trimesh .. => "trimesh"
def XShape3.isComposite : XShape3 → Bool
  | .prim _ => false
  | _ => true
def XShape3.nparts : XShape3 → Nat
  | .prim _ => 1
  | .compound ps => ps.length
  | .trimesh _ _ ts => ts.length
def XShape3.size : XShape3 → Rat
  | .prim w => wsize3 w
  | .compound ps => (ps.map fun (m, w) => vmag (q3 m.t) + wsize3 w).foldl rmax 0
  | .trimesh _ vs _ => (vs.map fun v => vmag (q3 v)).foldl rmax 0

/-! ## 2-D -/
/-- rounded convex polygon in the world frame: 1 vertex = disc, 2 = stadium, ≥ 3 = convex polygon (vertices in order) -/
structure RP2 where
  vs : List (V2 Rat)
  r : Rat

/-- posed exact geometry -/
inductive G2 where
  | conv (p : RP2)
  /-- the half-plane `n·(x - base) ≤ 0` -/
  | half (base n : V2 Rat)
  | comp (parts : List RP2)

def edges2 (vs : List (V2 Rat)) : List (V2 Rat × V2 Rat) :=
  match vs with
  | [] => []
  | [a] => [(a, a)]
  | [a, b] => [(a, b)]
  | a :: rest => vs.zip (rest ++ [a])

def primRP2 (w : WShape2) (act : V2 Rat → V2 Rat) : Option RP2 :=
  match w with
  | .ball r => some ⟨[act ⟨0, 0⟩], q r⟩
  | .cuboid h =>
    let H := q2 h
    some ⟨[act ⟨H.x, H.y⟩, act ⟨-H.x, H.y⟩, act ⟨-H.x, -H.y⟩, act ⟨H.x, -H.y⟩], 0⟩
  | .capsule a b r => some ⟨[act (q2 a), act (q2 b)], q r⟩
  | .triangle a b c => some ⟨[act (q2 a), act (q2 b), act (q2 c)], 0⟩
  | .segment a b => some ⟨[act (q2 a), act (q2 b)], 0⟩
  | _ => none

def geom2 (s : XShape2) (m : Iso2 Rat) : Option G2 :=
  match s with
  | .prim (.halfspace n) => some (.half m.t (m.rot (q2 n)))
  | .prim w => (primRP2 w m.act).map .conv
  | .compound ps =>
    (ps.mapM fun (pm, w) => primRP2 w (fun v => m.act ((qiso2 pm).act v))).map .comp
  | .polyline vs =>
    let ws := vs.map fun v => m.act (q2 v)
    some (.comp ((ws.zip (ws.drop 1)).map fun (a, b) => ⟨[a, b], 0⟩))

/-- squared distance from `p` to the segment `ab` -/
def ptSeg2 (p a b : V2 Rat) : Rat :=
  let ab := b.sub a
  let l2 := ab.normSq
  if l2 == 0 then (p.sub a).normSq else
  let t := rclamp01 ((p.sub a).dot ab / l2)
  (p.sub (a.add (ab.smul t))).normSq

def projRange2 (vs : List (V2 Rat)) (n : V2 Rat) : Rat × Rat :=
  match vs.map (·.dot n) with
  | [] => (0, 0)
  | v :: rest => (rest.foldl rmin v, rest.foldl rmax v)

/-- candidate separating axes: normals and directions of every edge of both cores, and the difference of the first vertices -/
def axes2 (A B : List (V2 Rat)) : List (V2 Rat) :=
  let es := edges2 A ++ edges2 B
  let ds := es.map fun (a, b) => b.sub a
  let d0 := match A, B with
    | a :: _, b :: _ => [b.sub a]
    | _, _ => []
  (ds.flatMap fun d => [⟨-d.y, d.x⟩, d]) ++ d0

/-- the two convex cores have a strictly separating axis (then they are disjoint; for convex polygons, segments and points
the listed axes are complete) -/
def coresDisjoint2 (A B : List (V2 Rat)) : Bool :=
  (axes2 A B).any fun n =>
    n.normSq != 0 &&
      (let (a0, a1) := projRange2 A n; let (b0, b1) := projRange2 B n; a1 < b0 || b1 < a0)

/-- squared distance of two disjoint convex cores: least vertex–edge distance -/
def coreDist2 (A B : List (V2 Rat)) : Rat :=
  let d1 := A.flatMap fun p => (edges2 B).map fun (a, b) => ptSeg2 p a b
  let d2 := B.flatMap fun p => (edges2 A).map fun (a, b) => ptSeg2 p a b
  (minList (d1 ++ d2)).getD 0

/-- squared penetration depth of two intersecting cores: least over the edge normals `±n` of both of
`(max_A n·a − min_B n·b)² / |n|²` (`0` when there is no edge at all: two coincident points) -/
def coreDepthSq2 (A B : List (V2 Rat)) : Rat :=
  let es := (edges2 A ++ edges2 B).map fun (a, b) => b.sub a
  let ns := (es.filter fun d => d.normSq != 0).flatMap fun d => [(⟨-d.y, d.x⟩ : V2 Rat), ⟨d.y, -d.x⟩]
  let vals := ns.map fun n =>
    let (_, a1) := projRange2 A n; let (b0, _) := projRange2 B n
    let o := rmax (a1 - b0) 0
    o * o / n.normSq
  (minList vals).getD 0

/-- signed separation of two rounded convex polygons: distance when disjoint, `-(minimum separating translation)` when
they overlap -/
def sepRP2 (A B : RP2) : Rat :=
  if coresDisjoint2 A.vs B.vs then rsqrt (coreDist2 A.vs B.vs) - A.r - B.r
  else -(rsqrt (coreDepthSq2 A.vs B.vs) + A.r + B.r)

/-- rounded shapes whose cores touch (core distance or core depth below `1e-9`): the boundary of the rounded
configuration-space obstacle nearest to the origin is an arc CENTRED at the origin, so the minimising direction is not
unique (the configuration on which EPA stops at its iteration cap) -/
def roundTouching2 (A B : RP2) : Bool :=
  A.r + B.r > 0 &&
    (if coresDisjoint2 A.vs B.vs then coreDist2 A.vs B.vs else coreDepthSq2 A.vs B.vs) ≤ 1 / 1000000000000000000

/-- overlap of the two shapes along the unit direction `n` (how far shape 2 must move along `+n` to clear shape 1) -/
def overlapAlong2 (A B : RP2) (n : V2 Rat) : Rat :=
  let (_, a1) := projRange2 A.vs n; let (b0, _) := projRange2 B.vs n
  a1 + A.r - (b0 - B.r)

def sepHalf2 (base n : V2 Rat) (P : RP2) : Rat :=
  let (lo, _) := projRange2 (P.vs.map fun v => v.sub base) n
  lo - P.r

def G2.parts : G2 → List RP2
  | .conv p => [p]
  | .comp ps => ps
  | .half .. => []

/-- signed separation (sign and, when positive, the distance; for two convex shapes also the depth when negative) -/
def sepG2 (a b : G2) : Option Rat :=
  match a, b with
  | .half .., .half .. => none
  | .half base n, g => minList (g.parts.map (sepHalf2 base n))
  | g, .half base n => minList (g.parts.map (sepHalf2 base n))
  | g, h => minList (g.parts.flatMap fun p => h.parts.map fun p' => sepRP2 p p')

/-! ## 3-D
The feature computations are written once over any `Num` scalar: they are run at `Float` only to *select* the few
feature pairs that can realise the minimum (a filter with a generous slack), and at `Rat` on the selected pairs to get
the exact value. -/
/-- rounded convex polytope in the world frame -/
structure RP3 (K : Type) where
  vs : List (V3 K)
  es : List (V3 K × V3 K)
  /-- planar convex faces, as vertex loops -/
  fs : List (List (V3 K))
  /-- half-spaces `n·(x - p) ≤ 0` whose intersection is the solid (empty for flat / thin cores) -/
  hs : List (V3 K × V3 K)
  /-- the distinct edge directions -/
  ds : List (V3 K)
  r : K

section generic
variable {K : Type} [Num K]

def triRP3 (A B C : V3 K) : RP3 K :=
  ⟨[A, B, C], [(A, B), (B, C), (C, A)], [[A, B, C]], [], [B.sub A, C.sub B, A.sub C], 0⟩

def primRP3 (cv : Float → K) (w : WShape) (act : V3 K → V3 K) : Option (RP3 K) :=
  let c3 (v : V3 Float) : V3 K := ⟨cv v.x, cv v.y, cv v.z⟩
  match w with
  | .ball r => some ⟨[act ⟨0, 0, 0⟩], [], [], [], [], cv r⟩
  | .capsule a b r => some ⟨[act (c3 a), act (c3 b)], [(act (c3 a), act (c3 b))], [], [], [(act (c3 b)).sub (act (c3 a))], cv r⟩
  | .segment a b => some ⟨[act (c3 a), act (c3 b)], [(act (c3 a), act (c3 b))], [], [], [(act (c3 b)).sub (act (c3 a))], 0⟩
  | .triangle a b c => some (triRP3 (act (c3 a)) (act (c3 b)) (act (c3 c)))
  | .cuboid h =>
    let H := c3 h
    let c (sx sy sz : K) : V3 K := act ⟨sx * H.x, sy * H.y, sz * H.z⟩
    let v000 := c (-1) (-1) (-1); let v100 := c 1 (-1) (-1); let v010 := c (-1) 1 (-1); let v110 := c 1 1 (-1)
    let v001 := c (-1) (-1) 1; let v101 := c 1 (-1) 1; let v011 := c (-1) 1 1; let v111 := c 1 1 1
    let fs := [[v000, v010, v011, v001], [v100, v110, v111, v101], [v000, v100, v101, v001], [v010, v110, v111, v011],
               [v000, v100, v110, v010], [v001, v101, v111, v011]]
    let ctr := act ⟨0, 0, 0⟩
    -- outward normal of a face: from the centre towards the face centre (×4, not normalised)
    let hs := fs.map fun f => match f with
      | [a, b, c', d] => (a, (((a.add b).add c').add d).sub (ctr.smul (two + two)))
      | _ => (ctr, ⟨0, 0, 0⟩)
    some ⟨[v000, v100, v010, v110, v001, v101, v011, v111],
          [(v000, v100), (v010, v110), (v001, v101), (v011, v111), (v000, v010), (v100, v110), (v001, v011), (v101, v111),
           (v000, v001), (v100, v101), (v010, v011), (v110, v111)], fs, hs,
          [v100.sub v000, v010.sub v000, v001.sub v000], 0⟩
  | _ => none

def clamp01 (x : K) : K := if x < 0 then 0 else if 1 < x then 1 else x

def ptSeg3 (p a b : V3 K) : K :=
  let ab := b.sub a
  let l2 := ab.normSq
  if neq l2 0 then (p.sub a).normSq else
  let t := clamp01 ((p.sub a).dot ab / l2)
  (p.sub (a.add (ab.smul t))).normSq

/-- squared distance between the segments `p1 q1` and `p2 q2` (clamped closest-point computation) -/
def segSeg3 (p1 q1 p2 q2 : V3 K) : K :=
  let d1 := q1.sub p1; let d2 := q2.sub p2; let r := p1.sub p2
  let a := d1.normSq; let e := d2.normSq; let f := d2.dot r
  if neq a 0 then ptSeg3 p1 p2 q2
  else if neq e 0 then ptSeg3 p2 p1 q1
  else
    let c := d1.dot r
    let b := d1.dot d2
    let den := a * e - b * b
    let s0 := if neq den 0 then 0 else clamp01 ((b * f - c * e) / den)
    let t0 := (b * s0 + f) / e
    let st : K × K :=
      if t0 < 0 then (clamp01 (-c / a), 0)
      else if 1 < t0 then (clamp01 ((b - c) / a), 1)
      else (s0, t0)
    ((p1.add (d1.smul st.1)).sub (p2.add (d2.smul st.2))).normSq

def faceNormal (f : List (V3 K)) : V3 K :=
  match f with
  | a :: b :: c :: _ => (b.sub a).cross (c.sub a)
  | _ => ⟨0, 0, 0⟩

def loop3 (f : List (V3 K)) : List (V3 K × V3 K) :=
  match f with
  | [] => []
  | a :: rest => f.zip (rest ++ [a])

/-- `x` (in the plane of the convex face `f` with normal `n`) lies in the face, boundary included -/
def inFace (f : List (V3 K)) (n x : V3 K) : Bool :=
  let ss := (loop3 f).map fun (a, b) => ((b.sub a).cross (x.sub a)).dot n
  ss.all (fun s => decide (0 ≤ s)) || ss.all (fun s => decide (s ≤ 0))

def gmin (l : List K) (dflt : K) : K :=
  match l with
  | [] => dflt
  | v :: vs => vs.foldl nmin v

/-- squared distance from `p` to the planar convex face `f` -/
def ptFace3 (p : V3 K) (f : List (V3 K)) : K :=
  let n := faceNormal f
  let n2 := n.normSq
  let edgeMin := gmin ((loop3 f).map fun (a, b) => ptSeg3 p a b) 0
  match f with
  | a :: _ =>
    if neq n2 0 then edgeMin else
    let h := n.dot (p.sub a)
    let x := p.sub (n.smul (h / n2))
    if inFace f n x then h * h / n2 else edgeMin
  | [] => 0

/-- the open segment `pq` crosses the face `f` (strictly from one side to the other) -/
def pierces (p qq : V3 K) (f : List (V3 K)) : Bool :=
  let n := faceNormal f
  match f with
  | a :: _ =>
    let sp := n.dot (p.sub a); let sq := n.dot (qq.sub a)
    if sp * sq < 0 then
      let x := p.add ((qq.sub p).smul (sp / (sp - sq)))
      inFace f n x
    else false
  | [] => false

def inSolid (P : RP3 K) (x : V3 K) : Bool :=
  !P.hs.isEmpty && P.hs.all fun (p, n) => decide (n.dot (x.sub p) ≤ 0)

/-- the squared feature distances of two cores (vertex–face, edge–edge, vertex–edge, vertex–vertex), as thunks in a
fixed order (the same for every scalar type) -/
def featureThunks (A B : RP3 K) : List (Unit → K) :=
  (A.vs.flatMap fun p => B.fs.map fun f => fun (_ : Unit) => ptFace3 p f)
  ++ (B.vs.flatMap fun p => A.fs.map fun f => fun (_ : Unit) => ptFace3 p f)
  ++ (A.es.flatMap fun (a, b) => B.es.map fun (c, d) => fun (_ : Unit) => segSeg3 a b c d)
  ++ (A.vs.flatMap fun p => B.es.map fun (c, d) => fun (_ : Unit) => ptSeg3 p c d)
  ++ (B.vs.flatMap fun p => A.es.map fun (c, d) => fun (_ : Unit) => ptSeg3 p c d)
  ++ (A.vs.flatMap fun p => B.vs.map fun p' => fun (_ : Unit) => (p.sub p').normSq)

/-- an edge pierces a face, or a vertex lies in the solid of the other -/
def crossing3 (A B : RP3 K) : Bool :=
  (A.es.any fun (a, b) => B.fs.any (pierces a b)) || (B.es.any fun (a, b) => A.fs.any (pierces a b))
    || A.vs.any (inSolid B) || B.vs.any (inSolid A)

end generic

inductive G3 where
  | conv (p : RP3 Rat) (f : RP3 Float)
  | half (base n : V3 Rat)
  | comp (parts : List (RP3 Rat × RP3 Float))

/-- posed vertices are rounded to multiples of `2^-64` (a perturbation of the shape twelve orders of magnitude below the
oracle tolerances) so that the rational arithmetic below stays on short numerators -/
def rq (x : Rat) : Rat := ((x * ((2 ^ 64 : Nat) : Rat)).floor : Rat) / ((2 ^ 64 : Nat) : Rat)
def rq3 (v : V3 Rat) : V3 Rat := ⟨rq v.x, rq v.y, rq v.z⟩
def toF (x : Rat) : Float := Float.ofInt x.num / Float.ofNat x.den
def toF3 (v : V3 Rat) : V3 Float := ⟨toF v.x, toF v.y, toF v.z⟩
def rpToF (P : RP3 Rat) : RP3 Float :=
  ⟨P.vs.map toF3, P.es.map fun (a, b) => (toF3 a, toF3 b), P.fs.map (·.map toF3), P.hs.map fun (a, b) => (toF3 a, toF3 b),
   P.ds.map toF3, toF P.r⟩

def geom3 (s : XShape3) (m : Iso3 Rat) : Option G3 :=
  let both (P : RP3 Rat) : RP3 Rat × RP3 Float := (P, rpToF P)
  match s with
  | .prim (.halfspace n) => some (.half m.t (m.rot (q3 n)))
  | .prim w => (primRP3 q w (fun v => rq3 (m.act v))).map fun P => .conv P (rpToF P)
  | .compound ps =>
    (ps.mapM fun (pm, w) => (primRP3 q w (fun v => rq3 (m.act ((qiso3 pm).act v)))).map both).map .comp
  | .trimesh _ vs ts =>
    let ws := (vs.map fun v => rq3 (m.act (q3 v))).toArray
    let tri (t : Nat × Nat × Nat) : Option (RP3 Rat × RP3 Float) := do
      let A ← ws[t.1]?; let B ← ws[t.2.1]?; let C ← ws[t.2.2]?
      pure (both (triRP3 A B C))
    (ts.mapM tri).map .comp

/-- exact least squared feature distance: the `Float` run selects the candidates (slack `1e-6` relative plus `1e-12` of
the squared coordinate scale, far above the rounding error of the filter), the `Rat` run evaluates them -/
def featureDist3 (A : RP3 Rat) (Af : RP3 Float) (B : RP3 Rat) (Bf : RP3 Float) : Rat :=
  let fl := (featureThunks Af Bf).map (· ())
  let ex := featureThunks A B
  let all := fun (_ : Unit) => (minList (ex.map (· ()))).getD 0
  match fl with
  | [] => 0
  | v :: vs =>
    let m := vs.foldl (fun a b => if b < a then b else a) v
    let sc := ((Af.vs ++ Bf.vs).map fun p => p.x.abs + p.y.abs + p.z.abs).foldl max 1.0
    let thr := m + 1e-6 * (1.0 + m) + 1e-12 * sc * sc
    if m.isNaN then all () else
    match minList ((fl.zip ex).filterMap fun (x, th) => if x ≤ thr then some (th ()) else none) with
    | some r => r
    | none => all ()

def projRange3 (vs : List (V3 Rat)) (n : V3 Rat) : Rat × Rat :=
  match vs.map (·.dot n) with
  | [] => (0, 0)
  | v :: rest => (rest.foldl rmin v, rest.foldl rmax v)

/-- squared penetration depth of two intersecting cores: least support overlap over the facet normals of the
configuration-space obstacle (face normals of both, cross products of an edge direction of each), both signs;
`0` when there is no such axis (both cores thin and parallel / points) -/
def coreDepthSq3 (A B : RP3 Rat) : Rat :=
  let ns := (A.fs ++ B.fs).map faceNormal ++ (A.ds.flatMap fun u => B.ds.map fun v => u.cross v)
  let vals := (ns.filter fun n => n.normSq != 0).flatMap fun n =>
    let (a0, a1) := projRange3 A.vs n; let (b0, b1) := projRange3 B.vs n
    let o1 := rmax (a1 - b0) 0; let o2 := rmax (b1 - a0) 0
    [o1 * o1 / n.normSq, o2 * o2 / n.normSq]
  (minList vals).getD 0

/-- signed separation of two rounded convex polytopes: distance when disjoint, `-(minimum separating translation)` when
they overlap.  The cores intersect iff a feature distance is exactly `0`, or an edge pierces a face / a vertex lies in the
other solid (sign tests evaluated at `Float`: they can only be misjudged within rounding distance of a grazing contact,
where the feature distance — hence the answer — is within rounding distance of `0` either way). -/
def sepRP3 (A : RP3 Rat) (Af : RP3 Float) (B : RP3 Rat) (Bf : RP3 Float) : Rat :=
  let d2 := featureDist3 A Af B Bf
  if d2 == 0 || crossing3 Af Bf then -(rsqrt (coreDepthSq3 A B) + A.r + B.r)
  else rsqrt d2 - A.r - B.r

/-- 3-D version of `roundTouching2` -/
def roundTouching3 (A : RP3 Rat) (Af : RP3 Float) (B : RP3 Rat) (Bf : RP3 Float) : Bool :=
  A.r + B.r > 0 &&
    (let d2 := featureDist3 A Af B Bf
     (if d2 == 0 || crossing3 Af Bf then coreDepthSq3 A B else d2) ≤ 1 / 1000000000000000000)

def overlapAlong3 (A B : RP3 Rat) (n : V3 Rat) : Rat :=
  let (_, a1) := projRange3 A.vs n; let (b0, _) := projRange3 B.vs n
  a1 + A.r - (b0 - B.r)

def sepHalf3 (base n : V3 Rat) (P : RP3 Rat) : Rat :=
  match minList (P.vs.map fun v => n.dot (v.sub base)) with
  | some lo => lo - P.r
  | none => 0

def G3.parts : G3 → List (RP3 Rat × RP3 Float)
  | .conv p f => [(p, f)]
  | .comp ps => ps
  | .half .. => []

/-- centre and radius of a ball containing the rounded polytope (centre = vertex mean, a point of the core) -/
def bound3 (P : RP3 Rat) : V3 Rat × Rat :=
  let n : Rat := P.vs.length
  let c := (P.vs.foldl V3.add ⟨0, 0, 0⟩).sdiv (if n == 0 then 1 else n)
  let r2 := (P.vs.map fun v => (v.sub c).normSq).foldl rmax 0
  (c, rsqrt r2 + 1 / 1000000000 + P.r)

/-- least signed separation over the parts; part pairs whose bounding balls are farther apart than the smallest
centre distance (an upper bound of the answer, the centres being points of the cores) are not examined -/
def sepG3 (a b : G3) : Option Rat :=
  match a, b with
  | .half .., .half .. => none
  | .half base n, g => minList (g.parts.map fun p => sepHalf3 base n p.1)
  | g, .half base n => minList (g.parts.map fun p => sepHalf3 base n p.1)
  | g, h =>
    let pa := g.parts.map fun p => (p, bound3 p.1)
    let pb := h.parts.map fun p => (p, bound3 p.1)
    let pairs := pa.flatMap fun (p, c, r) => pb.map fun (p', c', r') =>
      let d := rsqrt (c.sub c').normSq
      (p, p', d - r - r' - 1 / 1000000000, d + 1 / 1000000000 - p.1.r - p'.1.r)
    match minList (pairs.map fun x => x.2.2.2) with
    | none => none
    | some ub => minList ((pairs.filter fun x => x.2.2.1 ≤ ub).map fun x => sepRP3 x.1.1 x.1.2 x.2.1.1 x.2.1.2)

end C02
