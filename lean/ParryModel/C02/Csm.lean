import ParryModel.C01.ModelGjk
import ParryModel.C02.Epa2
import ParryModel.C02.Epa3
/-!
# C02 model, follow-up 5: the COMPLETE `contact_support_map_support_map` (2-D and 3-D)

`src/query/contact/contact_support_map_support_map.rs`: the start direction (`Unit::try_new(pos12.translation, EPS)` or the
x axis), `simplex.reset(from_shapes(dir))`, `gjk::closest_points(pos12, g1, g2, prediction, true, simplex)` (the GJK model of
`C01/ModelGjk.lean`, bit-exact there), and when GJK answers `Intersection` the EPA of `Epa2.lean` / `Epa3.lean` on the simplex GJK
stopped on (`simplex.point(i)` for `i ≤ simplex.dimension()`), then the assembly of the `Contact`.  Nothing is an input any more
besides the two support maps, `pos12` and `prediction` (in follow-up 4 the start simplex of EPA was an input taken from the
library's own GJK run).

Result: outer `none` = panic (`unreachable!()` for `Proximity`, simplex panics, EPA index panics) / EPA fuel; `some none` = `None`.
-/
namespace Model
open Model.Gjk
variable {K : Type} [Num K]

/-- `simplex.point(i)` for `i in 0..=simplex.dimension()` (2-D), as EPA reads them -/
def vs2Points (s : Vs2 K) : List (CSOPoint2 K) :=
  (List.range (s.dim + 1)).map fun i => let c := s.get i; ⟨c.point, c.orig1, c.orig2⟩

/-- `simplex.point(i)` for `i in 0..=simplex.dimension()` (3-D) -/
def vs3Points (s : Vs3 K) : List (CSOPoint3 K) :=
  (List.range (s.dim + 1)).map fun i => let c := s.get i; ⟨c.point, c.orig1, c.orig2⟩

/-- the `Contact` of the `GJKResult::ClosestPoints(point1, point2_1, normal1)` arm -/
@[inline] def contactOfClosest2 (pos12 : Iso2 K) (point1 point2_1 normal1 : V2 K) : Contact2 K :=
  ⟨point1, pos12.invAct point2_1, normal1, pos12.invRot normal1.neg, (point2_1.sub point1).dot normal1⟩

@[inline] def contactOfClosest3 (pos12 : Iso3 K) (point1 point2_1 normal1 : V3 K) : Contact3 K :=
  ⟨point1, pos12.invAct point2_1, normal1, pos12.invRot normal1.neg, (point2_1.sub point1).dot normal1⟩

/-- `contact_support_map_support_map(pos12, g1, g2, prediction)` (dim2); `supp1 = g1.local_support_point`,
`supp2 = g2.support_point(pos12, ·)`; `fuel` bounds the EPA loop of the model only -/
def contactSmSm2 (pos12 : Iso2 K) (supp1 supp2 : V2 K → V2 K) (prediction : K) (fuel : Nat) : Option (Option (Contact2 K)) :=
  let fs := fromShapes2 supp1 supp2
  match closestPointsSmSmWithParams2 fs pos12.t prediction Vs2.new (some pos12.t) with
  | (.closest point1 point2_1 normal1, _) => some (some (contactOfClosest2 pos12 point1 point2_1 normal1))
  | (.noIntersection _, _) => some none
  | (.intersection, s) => contactFromEpa2 pos12 supp1 supp2 fuel (vs2Points s)
  | _ => none

/-- `contact_support_map_support_map(pos12, g1, g2, prediction)` (dim3) -/
def contactSmSm3 (pos12 : Iso3 K) (supp1 supp2 : V3 K → V3 K) (prediction : K) (fuel : Nat) : Option (Option (Contact3 K)) :=
  let fs := fromShapes3 supp1 supp2
  match closestPointsSmSmWithParams3 fs pos12.t prediction Vs3.new (some pos12.t) with
  | (.closest point1 point2_1 normal1, _) => some (some (contactOfClosest3 pos12 point1 point2_1 normal1))
  | (.noIntersection _, _) => some none
  | (.intersection, s) => contactFromEpa3 pos12 supp1 supp2 fuel (vs3Points s)
  | _ => none

end Model
