import ParryModel.Field
import ParryModel.C03.Lemmas
import ParryModel.C02.Epa2Lemmas
/-!
# C02 follow-up 4: partial correctness of the 2-D Expanding Polytope Algorithm (`epa2.rs`)

`Model.epa2ClosestPoints` (Epa2.lean) is the literal transliteration of `EPA::closest_points` (bit-exact correspondence leg
`epa2`).  The theorems hold for **every exit** of the function (bounds met, "stuck", "numerical errors", iteration cap, heap
exhausted), for any two point sets `S1 S2` and any support functions that return points of them, at the lawful instance (any
linearly ordered field); they come from the loop invariant proved in `Epa2Lemmas.lean`.

* `epa2_never_panics` — no `vertices[..]` / `faces[..]` index of the function can be out of bounds, `heap.peek().unwrap()` is safe.
* `epa2_result_spec` — a returned `(p1, p2, n)` is built from two CSO points `a b` of the final polytope (each is
  `orig1 - orig2` with `orig1 ∈ S1`, `orig2 ∈ S2`): `p1 = (1-t)·a.orig1 + t·b.orig1`, `p2 = (1-t)·a.orig2 + t·b.orig2` with
  `-ε ≤ t·|b-a|² ≤ |b-a|² + ε` (`ε = gjk::eps_tol()`), and `n` is `ccw_face_normal(a, b)` — or the zero vector exactly when
  that edge is shorter than `DEFAULT_EPSILON` (the documented `null-contact` finding).
* `epa2_witnesses_on_shapes` — if moreover `0 ≤ t ≤ 1` could be violated only by the `ε` slack: for convex `S1`, `S2` and
  `t ∈ [0, 1]` the witnesses are points of the shapes (stated for the combination itself).
* `ccwFaceNormal2_spec` — the face normal is a unit vector orthogonal to the edge, on its right-hand side.
* `epa2_depth_is_face_plane_distance`, `epa2_depth_le_overlap_along_normal` — the reported depth `(p1 - p2)·n` is the distance
  of the face's supporting line from the origin, `= a·n`, and therefore **never exceeds the true overlap along `n`**
  (`max {(x1 - x2)·n}` over the two shapes): the clause "|dist| never exceeds the true overlap along normal1".
* `epa2_vertexVertex_origins` — started from a 0-dimensional simplex the function returns the two frame origins as witnesses
  (the `witnesses at the frame origins` finding), whatever the shapes.
-/
namespace C02
open Model C03

variable {K : Type} [Field K] [LinearOrder K] [IsStrictOrderedRing K] (sq : K → K)

/-- a consistent CSO point of two point sets: `point = orig1 - orig2`, `orig1 ∈ S1`, `orig2 ∈ S2` -/
def CsoOf (S1 S2 : V2 K → Prop) (v : CSOPoint2 K) : Prop :=
  v.point = ⟨v.orig1.x - v.orig2.x, v.orig1.y - v.orig2.y⟩ ∧ S1 v.orig1 ∧ S2 v.orig2

/-- `gjk::eps_tol()` as a field element: `10 · 2⁻⁵²` -/
def epsGjk (K : Type) [Field K] : K := 10 / 2 ^ 52
/-- `DEFAULT_EPSILON`: `2⁻⁵²` -/
def epsDef (K : Type) [Field K] : K := 1 / 2 ^ 52

/-- what a result `(p1, p2, n)` of the 2-D EPA is made of -/
def Epa2Out (S1 S2 : V2 K → Prop) (p1 p2 n : V2 K) : Prop :=
  ∃ (a b : CSOPoint2 K) (t : K), CsoOf S1 S2 a ∧ CsoOf S1 S2 b ∧
    p1 = ⟨(1 - t) * a.orig1.x + t * b.orig1.x, (1 - t) * a.orig1.y + t * b.orig1.y⟩ ∧
    p2 = ⟨(1 - t) * a.orig2.x + t * b.orig2.x, (1 - t) * a.orig2.y + t * b.orig2.y⟩ ∧
    (-epsGjk K ≤ t * ((b.point.x - a.point.x) ^ 2 + (b.point.y - a.point.y) ^ 2) ∧
      t * ((b.point.x - a.point.x) ^ 2 + (b.point.y - a.point.y) ^ 2) ≤
        ((b.point.x - a.point.x) ^ 2 + (b.point.y - a.point.y) ^ 2) + epsGjk K) ∧
    (letI := fieldNum K sq
     ccwFaceNormal2 a.point b.point = some n ∨ (ccwFaceNormal2 a.point b.point = none ∧ n = ⟨0, 0⟩))

private theorem epsGjk_eq : (letI := fieldNum K sq; (epaGjkEpsTol : K)) = epsGjk K := by
  simp only [epaGjkEpsTol, epsDefault, fieldNum_lit, epsGjk]
  show ((mkRat 1 4503599627370496 : ℚ) : K) * ((mkRat 10 1 : ℚ) : K) = 10 / 2 ^ 52
  have h1 : ((mkRat 1 4503599627370496 : ℚ) : K) = 1 / 2 ^ 52 := by
    rw [show (mkRat 1 4503599627370496 : ℚ) = 1 / 2 ^ 52 by norm_num [Rat.mkRat_eq_div]]; push_cast; ring
  have h2 : ((mkRat 10 1 : ℚ) : K) = 10 := by
    rw [show (mkRat 10 1 : ℚ) = 10 by norm_num [Rat.mkRat_eq_div]]; push_cast; ring
  rw [h1, h2]; ring

private theorem csoFromShapes_ok (S1 S2 : V2 K → Prop) (supp1 supp2 : V2 K → V2 K)
    (h1 : ∀ d, S1 (supp1 d)) (h2 : ∀ d, S2 (supp2 d)) (d : V2 K) :
    letI := fieldNum K sq
    CsoOf S1 S2 (csoFromShapes supp1 supp2 d) := ⟨rfl, h1 _, h2 _⟩

private theorem projectOrigin_spec (a b proj : V2 K) (b0 b1 : K)
    (h : letI := fieldNum K sq; epaProjectOrigin2 a b = some (proj, b0, b1)) :
    b0 = 1 - b1 ∧ -epsGjk K ≤ b1 * ((b.x - a.x) ^ 2 + (b.y - a.y) ^ 2) ∧
      b1 * ((b.x - a.x) ^ 2 + (b.y - a.y) ^ 2) ≤ ((b.x - a.x) ^ 2 + (b.y - a.y) ^ 2) + epsGjk K ∧
      proj = ⟨a.x + (b.x - a.x) * b1, a.y + (b.y - a.y) * b1⟩ := by
  have he := epsGjk_eq (K := K) sq
  simp only [epaProjectOrigin2, fieldNum_neq, V2.sub, V2.neg, V2.dot, V2.normSq, V2.add, V2.smul] at h
  simp only [Bool.or_eq_true, decide_eq_true_eq] at h
  split_ifs at h with c1 c2
  simp only [Option.some.injEq, Prod.mk.injEq] at h
  obtain ⟨hpr, hb0, hb1⟩ := h
  simp only [not_or] at c2
  have c1' : (b.x - a.x) * (b.x - a.x) + (b.y - a.y) * (b.y - a.y) ≠ 0 := by simpa using c1
  rw [he] at c2
  refine ⟨by rw [← hb0, ← hb1], ?_, ?_, by rw [← hpr, ← hb1]⟩
  · rw [← hb1, show (b.x - a.x) ^ 2 + (b.y - a.y) ^ 2 = (b.x - a.x) * (b.x - a.x) + (b.y - a.y) * (b.y - a.y) by ring,
      div_mul_cancel₀ _ c1']
    exact not_lt.mp (fun hp => c2.1 (decide_eq_true hp))
  · rw [← hb1, show (b.x - a.x) ^ 2 + (b.y - a.y) ^ 2 = (b.x - a.x) * (b.x - a.x) + (b.y - a.y) * (b.y - a.y) by ring,
      div_mul_cancel₀ _ c1']
    exact not_lt.mp (fun hp => c2.2 (decide_eq_true hp))

/-- **No panic**: started from a 1-D or 2-D simplex, `EPA::closest_points` never indexes out of bounds (for any support
functions, any fuel). -/
theorem epa2_never_panics (supp1 supp2 : V2 K → V2 K) (fuel : Nat) (simplex : List (CSOPoint2 K))
    (hlen : simplex.length = 2 ∨ simplex.length = 3) :
    letI := fieldNum K sq
    epa2ClosestPoints supp1 supp2 fuel simplex ≠ .panic := by
  letI := fieldNum K sq
  have := closestPoints_ok (K := K) (fun _ => True) (supp1 := supp1) (supp2 := supp2) (fun _ => trivial) fuel simplex
    (fun _ _ => trivial) hlen
  intro h
  rw [h] at this
  exact this

/-- **Every exit returns witnesses built from support points and the normal of a polytope face.** -/
theorem epa2_result_spec (S1 S2 : V2 K → Prop) (supp1 supp2 : V2 K → V2 K)
    (h1 : ∀ d, S1 (supp1 d)) (h2 : ∀ d, S2 (supp2 d)) (fuel : Nat) (simplex : List (CSOPoint2 K))
    (hsim : ∀ v ∈ simplex, CsoOf S1 S2 v) (hlen : simplex.length = 2 ∨ simplex.length = 3) (p1 p2 n : V2 K) (why : Epa2Exit)
    (hr : letI := fieldNum K sq; epa2ClosestPoints supp1 supp2 fuel simplex = .some p1 p2 n why) :
    Epa2Out sq S1 S2 p1 p2 n := by
  letI := fieldNum K sq
  have := closestPoints_ok (K := K) (CsoOf S1 S2) (supp1 := supp1) (supp2 := supp2)
    (csoFromShapes_ok sq S1 S2 supp1 supp2 h1 h2) fuel simplex hsim hlen
  rw [hr] at this
  obtain ⟨a, b, b0, b1, proj, ga, gb, hbc, hn, hp1, hp2, _⟩ := this
  have hn' : ccwFaceNormal2 a.point b.point = some n ∨ (ccwFaceNormal2 a.point b.point = none ∧ n = ⟨0, 0⟩) := hn
  rcases hbc with ⟨e0, e1, _⟩ | hproj
  · refine ⟨a, b, 0, ga, gb, ?_, ?_, ⟨?_, ?_⟩, hn'⟩
    · rw [hp1, e0, e1]; simp only [V2.add, V2.smul]; congr 1 <;> ring
    · rw [hp2, e0, e1]; simp only [V2.add, V2.smul]; congr 1 <;> ring
    · rw [zero_mul]; unfold epsGjk; norm_num
    · rw [zero_mul]; unfold epsGjk; positivity
  · obtain ⟨e0, r1, r2, _⟩ := projectOrigin_spec sq a.point b.point proj b0 b1 hproj
    refine ⟨a, b, b1, ga, gb, ?_, ?_, ⟨r1, r2⟩, hn'⟩
    · rw [hp1, e0]; simp only [V2.add, V2.smul]; congr 1 <;> ring
    · rw [hp2, e0]; simp only [V2.add, V2.smul]; congr 1 <;> ring

example : CsoOf (fun p : V2 ℚ => |p.x| ≤ 1 ∧ |p.y| ≤ 1) (fun p => |p.x - 1| ≤ 1 ∧ |p.y| ≤ 1)
    ⟨⟨1, 2⟩, ⟨1, 1⟩, ⟨0, -1⟩⟩ := by
  refine ⟨by norm_num, ?_, ?_⟩ <;> norm_num [abs_le]

private theorem epsDef_eq : (letI := fieldNum K sq; (epsDefault : K)) = epsDef K := by
  simp only [epsDefault, fieldNum_lit, epsDef]
  rw [show (mkRat 1 4503599627370496 : ℚ) = 1 / 2 ^ 52 by norm_num [Rat.mkRat_eq_div]]; push_cast; ring

/-- **`ccw_face_normal`**: when it succeeds the edge is longer than `DEFAULT_EPSILON` and the result is a unit vector,
orthogonal to the edge `a → b`, on its right-hand side (outward for a counter-clockwise polygon); it fails exactly when
`|b - a| ≤ DEFAULT_EPSILON`. -/
theorem ccwFaceNormal2_spec (hs : LawfulSqrt sq) (a b : V2 K) :
    letI := fieldNum K sq
    (∀ n, ccwFaceNormal2 a b = some n →
      epsDef K * epsDef K < (b.x - a.x) ^ 2 + (b.y - a.y) ^ 2 ∧ n.x * n.x + n.y * n.y = 1 ∧
      n.x * (b.x - a.x) + n.y * (b.y - a.y) = 0 ∧ (b.x - a.x) * n.y - (b.y - a.y) * n.x < 0) ∧
    (ccwFaceNormal2 a b = none → (b.x - a.x) ^ 2 + (b.y - a.y) ^ 2 ≤ epsDef K * epsDef K) := by
  have he := epsDef_eq (K := K) sq
  have hsqrt : ∀ x, @Num.sqrt K (fieldNum K sq) x = sq x := fun _ => rfl
  simp only [ccwFaceNormal2, unitTryNew2, V2.sub, V2.normSq, V2.dot, V2.sdiv, hsqrt, he]
  set L : K := (b.y - a.y) * (b.y - a.y) + -(b.x - a.x) * -(b.x - a.x) with hL
  have hL2 : (b.x - a.x) ^ 2 + (b.y - a.y) ^ 2 = L := by rw [hL]; ring
  rw [hL2]
  constructor
  · intro n hn
    split_ifs at hn with c
    simp only [Option.some.injEq] at hn
    have hpos : 0 < L := lt_of_le_of_lt (mul_self_nonneg _) c
    have hs0 : 0 ≤ sq L := hs.nonneg L hpos.le
    have hss : sq L * sq L = L := hs.sq_mul L hpos.le
    have hne : sq L ≠ 0 := by
      intro h0; rw [h0, mul_zero] at hss; exact absurd hss.symm (ne_of_gt hpos)
    have hsp : 0 < sq L := lt_of_le_of_ne hs0 (Ne.symm hne)
    subst hn
    refine ⟨c, ?_, ?_, ?_⟩
    · simp only
      rw [div_mul_div_comm, div_mul_div_comm, ← add_div, hss, ← hL, div_self (ne_of_gt hpos)]
    · simp only
      field_simp
      ring
    · simp only
      have : (b.x - a.x) * (-(b.x - a.x) / sq L) - (b.y - a.y) * ((b.y - a.y) / sq L) = -(L / sq L) := by
        rw [hL]; field_simp; ring
      rw [this]
      exact neg_neg_of_pos (div_pos hpos hsp)
  · intro hn
    split_ifs at hn with c
    exact not_lt.mp c

example : (⟨0, 0⟩ : V2 ℚ) ≠ ⟨1, 0⟩ := by simp

/-- **The reported depth is the distance of the face's supporting line from the origin**: `(p1 - p2)·n = a·n = b·n`
for the two CSO points `a b` spanning the returned face (exact arithmetic), whatever the coordinate `t`. -/
theorem epa2_depth_is_face_plane_distance (hs : LawfulSqrt sq) (S1 S2 : V2 K → Prop) (p1 p2 n : V2 K)
    (h : Epa2Out sq S1 S2 p1 p2 n) :
    ∃ a b : CSOPoint2 K, CsoOf S1 S2 a ∧ CsoOf S1 S2 b ∧
      (p1.x - p2.x) * n.x + (p1.y - p2.y) * n.y = a.point.x * n.x + a.point.y * n.y ∧
      (p1.x - p2.x) * n.x + (p1.y - p2.y) * n.y = b.point.x * n.x + b.point.y * n.y := by
  obtain ⟨a, b, t, ga, gb, hp1, hp2, _, hn⟩ := h
  refine ⟨a, b, ga, gb, ?_⟩
  have ha := ga.1
  have hb := gb.1
  have hax : a.point.x = a.orig1.x - a.orig2.x := by rw [ha]
  have hay : a.point.y = a.orig1.y - a.orig2.y := by rw [ha]
  have hbx : b.point.x = b.orig1.x - b.orig2.x := by rw [hb]
  have hby : b.point.y = b.orig1.y - b.orig2.y := by rw [hb]
  have horth : n.x * (b.point.x - a.point.x) + n.y * (b.point.y - a.point.y) = 0 := by
    rcases hn with h | ⟨_, h⟩
    · exact ((ccwFaceNormal2_spec sq hs a.point b.point).1 n h).2.2.1
    · rw [h]; ring
  rw [hp1, hp2]
  simp only
  constructor
  · linear_combination t * horth - (t * n.x) * hbx + (t * n.x) * hax - (t * n.y) * hby + (t * n.y) * hay - n.x * hax - n.y * hay
  · linear_combination (-(1 - t)) * horth - ((1 - t) * n.x) * hax - (t * n.x) * hbx - ((1 - t) * n.y) * hay - (t * n.y) * hby

/-- **The reported depth never exceeds the true overlap along the returned normal** (`|dist| ≤ overlap along normal1`):
if `H` bounds `(x1 - x2)·n` over all points of the two shapes (`H` = the extent of the configuration-space obstacle along `n`,
i.e. the translation along `n` that separates the shapes), then `(p1 - p2)·n ≤ H`. -/
theorem epa2_depth_le_overlap_along_normal (hs : LawfulSqrt sq) (S1 S2 : V2 K → Prop) (p1 p2 n : V2 K)
    (h : Epa2Out sq S1 S2 p1 p2 n) (H : K)
    (hH : ∀ x1 x2 : V2 K, S1 x1 → S2 x2 → (x1.x - x2.x) * n.x + (x1.y - x2.y) * n.y ≤ H) :
    (p1.x - p2.x) * n.x + (p1.y - p2.y) * n.y ≤ H := by
  obtain ⟨a, _, ga, _, e, _⟩ := epa2_depth_is_face_plane_distance sq hs S1 S2 p1 p2 n h
  rw [e, ga.1]
  exact hH _ _ ga.2.1 ga.2.2

example : ∀ x1 x2 : V2 ℚ, (|x1.x| ≤ 1 ∧ |x1.y| ≤ 1) → (|x2.x - 1| ≤ 1 ∧ |x2.y| ≤ 1) →
    (x1.x - x2.x) * 1 + (x1.y - x2.y) * 0 ≤ 1 := by
  intro x1 x2 h1 h2
  have := abs_le.mp h1.1; have := abs_le.mp h2.1
  linarith [this.1]

/-- **Vertex/vertex start**: from a 0-dimensional simplex `EPA::closest_points` returns the two frame origins as
witnesses, whatever the shapes (only the direction is computed). -/
theorem epa2_vertexVertex_origins (supp1 supp2 : V2 K → V2 K) (fuel : Nat) (v0 : CSOPoint2 K) :
    letI := fieldNum K sq
    ∃ n, epa2ClosestPoints supp1 supp2 fuel [v0] = .some ⟨0, 0⟩ ⟨0, 0⟩ n .vertexVertex := ⟨_, rfl⟩

/-- `_eps_tol` of `EPA::closest_points` as a field element: `100 · 2⁻⁵²` -/
def epsEpa (K : Type) [Field K] : K := 100 / 2 ^ 52

private theorem epsEpa_eq : (letI := fieldNum K sq; (epaEpsTol : K)) = epsEpa K := by
  simp only [epaEpsTol, epsDefault, fieldNum_lit, epsEpa]
  show ((mkRat 1 4503599627370496 : ℚ) : K) * ((mkRat 100 1 : ℚ) : K) = 100 / 2 ^ 52
  have h1 : ((mkRat 1 4503599627370496 : ℚ) : K) = 1 / 2 ^ 52 := by
    rw [show (mkRat 1 4503599627370496 : ℚ) = 1 / 2 ^ 52 by norm_num [Rat.mkRat_eq_div]]; push_cast; ring
  have h2 : ((mkRat 100 1 : ℚ) : K) = 100 := by
    rw [show (mkRat 100 1 : ℚ) = 100 by norm_num [Rat.mkRat_eq_div]]; push_cast; ring
  rw [h1, h2]; ring

/-- **Bounds-met exit (`max_dist - curr_dist < _eps_tol`): the reported depth is within `_eps_tol` of an upper bound of the
minimum separating translation.**  With `κ` the key of the returned face — the reported depth `(p1 - p2)·n`, or `0` for
the two start faces of a 1-D simplex — there is a unit vector `m` (the normal of an expanded face) such that the extent of
the configuration-space obstacle along `m`, as measured by the support functions, is below `κ + _eps_tol`
(or `max_dist` is still `Real::MAX`, which needs `κ > MAX - _eps_tol`). -/
theorem epa2_boundsMet_upper_bound (hs : LawfulSqrt sq) (S1 S2 : V2 K → Prop) (supp1 supp2 : V2 K → V2 K)
    (h1 : ∀ d, S1 (supp1 d)) (h2 : ∀ d, S2 (supp2 d)) (fuel : Nat) (simplex : List (CSOPoint2 K))
    (hsim : ∀ v ∈ simplex, CsoOf S1 S2 v) (hlen : simplex.length = 2 ∨ simplex.length = 3) (p1 p2 n : V2 K)
    (hr : letI := fieldNum K sq; epa2ClosestPoints supp1 supp2 fuel simplex = .some p1 p2 n .boundsMet) :
    letI := fieldNum K sq
    ∃ κ : K, (κ = 0 ∨ κ = (p1.x - p2.x) * n.x + (p1.y - p2.y) * n.y) ∧
      ((realMax : K) - κ < epsEpa K ∨
       ∃ m : V2 K, m.x * m.x + m.y * m.y = 1 ∧
        (csoFromShapes supp1 supp2 m).point.x * m.x + (csoFromShapes supp1 supp2 m).point.y * m.y - κ < epsEpa K) := by
  letI := fieldNum K sq
  have hout := epa2_result_spec sq S1 S2 supp1 supp2 h1 h2 fuel simplex hsim hlen p1 p2 n _ hr
  have := closestPoints_ok (K := K) (CsoOf S1 S2) (supp1 := supp1) (supp2 := supp2)
    (csoFromShapes_ok sq S1 S2 supp1 supp2 h1 h2) fuel simplex hsim hlen
  rw [hr] at this
  obtain ⟨a, b, b0, b1, proj, ga, gb, hbc, hn, hp1, hp2, hw⟩ := this
  obtain ⟨nd, M, hlt, hM, hnd⟩ := hw rfl
  have hn' : ccwFaceNormal2 a.point b.point = some n ∨ (ccwFaceNormal2 a.point b.point = none ∧ n = ⟨0, 0⟩) := hn
  have horth : n.x * (b.point.x - a.point.x) + n.y * (b.point.y - a.point.y) = 0 := by
    rcases hn' with h | ⟨_, h⟩
    · exact ((ccwFaceNormal2_spec sq hs a.point b.point).1 n h).2.2.1
    · rw [h]; ring
  -- the reported depth is `a·n`
  have hdepth : (p1.x - p2.x) * n.x + (p1.y - p2.y) * n.y = a.point.x * n.x + a.point.y * n.y := by
    have hax : a.point.x = a.orig1.x - a.orig2.x := by rw [ga.1]
    have hay : a.point.y = a.orig1.y - a.orig2.y := by rw [ga.1]
    have hbx : b.point.x = b.orig1.x - b.orig2.x := by rw [gb.1]
    have hby : b.point.y = b.orig1.y - b.orig2.y := by rw [gb.1]
    rcases hbc with ⟨e0, e1, _⟩ | hproj
    · rw [hp1, hp2, e0, e1]; simp only [V2.add, V2.smul]
      linear_combination (-n.x) * hax - n.y * hay
    · obtain ⟨e0, _, _, _⟩ := projectOrigin_spec sq a.point b.point proj b0 b1 hproj
      rw [hp1, hp2, e0]; simp only [V2.add, V2.smul]
      linear_combination b1 * horth - ((1 - b1) * n.x) * hax - (b1 * n.x) * hbx - ((1 - b1) * n.y) * hay - (b1 * n.y) * hby
  have hκ : -nd = 0 ∨ -nd = (p1.x - p2.x) * n.x + (p1.y - p2.y) * n.y := by
    rcases hnd with h | h | h
    · left; rw [h]; exact neg_zero
    · rcases hbc with ⟨_, _, e2⟩ | hproj
      · left; rw [h, e2]; simp only [V2.dot, V2.zero]; ring
      · right
        obtain ⟨_, _, _, e3⟩ := projectOrigin_spec sq a.point b.point proj b0 b1 hproj
        rw [h, hdepth, e3]; simp only [V2.dot]
        linear_combination b1 * horth
    · right; rw [h, hdepth]; simp only [V2.dot]; ring
  have he := epsEpa_eq (K := K) sq
  refine ⟨-nd, hκ, ?_⟩
  rcases hM with hM | ⟨a', b', m, _, _, hm, hM⟩
  · left; rw [← hM, ← he]; exact hlt
  · right
    refine ⟨m, ((ccwFaceNormal2_spec sq hs a'.point b'.point).1 m hm).2.1, ?_⟩
    have : M = (csoFromShapes supp1 supp2 m).point.x * m.x + (csoFromShapes supp1 supp2 m).point.y * m.y := hM
    rw [← this, ← he]; exact hlt

/-- **… hence the minimum separating translation is at most `κ + _eps_tol`**: when `supp1`, `supp2` really are support
functions of the two point sets (`(x1 - x2)·d ≤ (supp1 d - supp2 (-d))·d` for all points), at the bounds-met exit there
is a unit vector `m` along which **every** pair of points of the shapes satisfies `(x1 - x2)·m < κ + _eps_tol`: moving shape 2
by `(κ + _eps_tol)·m` separates them.  Together with `epa2_depth_le_overlap_along_normal` (`κ ≤` overlap along `n`)
this brackets the reported depth. -/
theorem epa2_boundsMet_separating_translation (hs : LawfulSqrt sq) (S1 S2 : V2 K → Prop) (supp1 supp2 : V2 K → V2 K)
    (h1 : ∀ d, S1 (supp1 d)) (h2 : ∀ d, S2 (supp2 d))
    (hsup : letI := fieldNum K sq; ∀ (d x1 x2 : V2 K), S1 x1 → S2 x2 →
      (x1.x - x2.x) * d.x + (x1.y - x2.y) * d.y ≤
        (csoFromShapes supp1 supp2 d).point.x * d.x + (csoFromShapes supp1 supp2 d).point.y * d.y)
    (fuel : Nat) (simplex : List (CSOPoint2 K))
    (hsim : ∀ v ∈ simplex, CsoOf S1 S2 v) (hlen : simplex.length = 2 ∨ simplex.length = 3) (p1 p2 n : V2 K)
    (hr : letI := fieldNum K sq; epa2ClosestPoints supp1 supp2 fuel simplex = .some p1 p2 n .boundsMet) :
    letI := fieldNum K sq
    ∃ κ : K, (κ = 0 ∨ κ = (p1.x - p2.x) * n.x + (p1.y - p2.y) * n.y) ∧
      ((realMax : K) - κ < epsEpa K ∨
       ∃ m : V2 K, m.x * m.x + m.y * m.y = 1 ∧
        ∀ x1 x2 : V2 K, S1 x1 → S2 x2 → (x1.x - x2.x) * m.x + (x1.y - x2.y) * m.y < κ + epsEpa K) := by
  letI := fieldNum K sq
  obtain ⟨κ, hκ, hb⟩ := epa2_boundsMet_upper_bound sq hs S1 S2 supp1 supp2 h1 h2 fuel simplex hsim hlen p1 p2 n hr
  refine ⟨κ, hκ, ?_⟩
  rcases hb with h | ⟨m, hm, h⟩
  · exact Or.inl h
  · refine Or.inr ⟨m, hm, fun x1 x2 s1 s2 => ?_⟩
    have := hsup m x1 x2 s1 s2
    linarith

/-- the support-function hypothesis of `epa2_boundsMet_separating_translation` holds for two axis-parallel boxes (1-D check
of the per-coordinate fact `x·d ≤ |x|·|d| ≤ h·|d|`) -/
example (h x d : ℚ) (hx : |x| ≤ h) : x * d ≤ h * |d| := by
  calc x * d ≤ |x * d| := le_abs_self _
    _ = |x| * |d| := abs_mul _ _
    _ ≤ h * |d| := mul_le_mul_of_nonneg_right hx (abs_nonneg _)

/-- **`contact_support_map_support_map` (2-D, EPA route) returns a self-consistent contact whose depth never exceeds the
true overlap along `normal1`.**  For a unit rotation, whenever the function returns `Some(c)` after GJK reported
`Intersection` on a 1-D / 2-D simplex of consistent CSO points:
`dist = (pos12·point2 - point1)·normal1`, `normal2 = -normal1` in the frame of shape 1 (`pos12.rot normal2 = -normal1`),
`normal1` is a unit vector (or the zero vector of the degenerate-edge finding), the witnesses are the `Epa2Out` combinations
of support points, and `-dist ≤ H` for every bound `H` of `(x1 - x2)·normal1` over the two shapes. -/
theorem contactFromEpa2_consistent (hs : LawfulSqrt sq) (pos12 : Iso2 K) (hu : pos12.re * pos12.re + pos12.im * pos12.im = 1)
    (S1 S2 : V2 K → Prop) (supp1 supp2 : V2 K → V2 K)
    (h1 : ∀ d, S1 (supp1 d)) (h2 : ∀ d, S2 (supp2 d)) (fuel : Nat) (simplex : List (CSOPoint2 K))
    (hsim : ∀ v ∈ simplex, CsoOf S1 S2 v) (hlen : simplex.length = 2 ∨ simplex.length = 3) (c : Contact2 K)
    (hr : letI := fieldNum K sq; contactFromEpa2 pos12 supp1 supp2 fuel simplex = some (some c)) :
    letI := fieldNum K sq
    Epa2Out sq S1 S2 c.point1 (pos12.act c.point2) c.normal1 ∧
    c.dist = ((pos12.act c.point2).x - c.point1.x) * c.normal1.x + ((pos12.act c.point2).y - c.point1.y) * c.normal1.y ∧
    (pos12.rot c.normal2).x = -c.normal1.x ∧ (pos12.rot c.normal2).y = -c.normal1.y ∧
    (c.normal1 = ⟨0, 0⟩ ∨ c.normal1.x * c.normal1.x + c.normal1.y * c.normal1.y = 1) ∧
    (∀ H : K, (∀ x1 x2 : V2 K, S1 x1 → S2 x2 → (x1.x - x2.x) * c.normal1.x + (x1.y - x2.y) * c.normal1.y ≤ H) →
      -c.dist ≤ H) := by
  letI := fieldNum K sq
  unfold contactFromEpa2 at hr
  split at hr
  · rename_i p1 p2 n why hres
    simp only [Option.some.injEq] at hr
    have hout := epa2_result_spec sq S1 S2 supp1 supp2 h1 h2 fuel simplex hsim hlen p1 p2 n why hres
    have hact : pos12.act (pos12.invAct p2) = p2 := by
      simp only [Iso2.act, Iso2.invAct, Iso2.rot, Iso2.invRot, V2.add, V2.sub]
      have e1 : pos12.re * (pos12.re * (p2.x - pos12.t.x) - -pos12.im * (p2.y - pos12.t.y)) -
          pos12.im * (-pos12.im * (p2.x - pos12.t.x) + pos12.re * (p2.y - pos12.t.y)) + pos12.t.x = p2.x := by
        linear_combination (p2.x - pos12.t.x) * hu
      have e2 : pos12.im * (pos12.re * (p2.x - pos12.t.x) - -pos12.im * (p2.y - pos12.t.y)) +
          pos12.re * (-pos12.im * (p2.x - pos12.t.x) + pos12.re * (p2.y - pos12.t.y)) + pos12.t.y = p2.y := by
        linear_combination (p2.y - pos12.t.y) * hu
      rw [e1, e2]
    subst hr
    simp only [hact]
    refine ⟨hout, ?_, ?_, ?_, ?_, ?_⟩
    · simp only [V2.sub, V2.dot]
    · simp only [Iso2.rot, Iso2.invRot, V2.neg]; linear_combination (-n.x) * hu
    · simp only [Iso2.rot, Iso2.invRot, V2.neg]; linear_combination (-n.y) * hu
    · obtain ⟨a, b, t, _, _, _, _, _, hn⟩ := hout
      rcases hn with h | ⟨_, h⟩
      · exact Or.inr ((ccwFaceNormal2_spec sq hs a.point b.point).1 n h).2.1
      · exact Or.inl h
    · intro H hH
      have := epa2_depth_le_overlap_along_normal sq hs S1 S2 p1 p2 n hout H hH
      simp only [V2.sub, V2.dot]
      linarith
  · cases hr
  · cases hr

example : (3 / 5 : ℚ) * (3 / 5) + (4 / 5) * (4 / 5) = 1 := by norm_num

/-- **The 2-D "silhouette" is two edges: an expansion replaces the queued edge `a → b` by the chain `a → s → b`.**
Every loop iteration that continues either only discards a deleted face from the heap (vertices and faces unchanged), or
pushes exactly one vertex `s` (the support point along the normal of a queued face `[a, b]`) and appends exactly the two
faces `[a, s]` and `[s, b]`: the boundary of the expanding polygon stays a closed chain through the same end points. -/
theorem epa2_expansion_splits_face (supp1 supp2 : V2 K → V2 K) (st st' : Epa2State K)
    (h : letI := fieldNum K sq; epa2Step supp1 supp2 st = .inr st') :
    letI := fieldNum K sq
    (st'.vertices = st.vertices ∧ st'.faces = st.faces) ∨
    ∃ (fid : FaceId2 K) (face g1 g2 : Face2 K), fid ∈ st.heap ∧ st.faces[fid.id]? = some face ∧
      st'.vertices = st.vertices.push (csoFromShapes supp1 supp2 face.normal) ∧
      st'.faces = (st.faces.push g1).push g2 ∧
      g1.pts0 = face.pts0 ∧ g1.pts1 = st.vertices.size ∧ g2.pts0 = st.vertices.size ∧ g2.pts1 = face.pts1 := by
  letI := fieldNum K sq
  exact step_splits_face h

end C02
