import ParryModel.Field
import ParryModel.C02.Model
/-!
# C02 follow-up 2: the contact distance of two rectangles with parallel axes is the separation distance when they are
apart and minus the **minimum separating translation** when they overlap.

`rectSignedDist he1 he2 t` (Model.lean) is the closed form of `contact(..).dist` for `Cuboid(he1)` at the origin and
`Cuboid(he2)` translated by `t` (2-D, parallel axes); the real value comes out of GJK (apart) or GJK + EPA (overlapping)
and is tied to this model by the `rect2_dist` correspondence leg.  The theorems state, at the lawful instance (any
linearly ordered field, `LawfulSqrt sq` where the square root is taken), the two clauses of the property about `dist`:

* apart (`0 ≤ dist`): `dist² ≤ |p - q|²` for every point `p` of rectangle 1 and `q` of rectangle 2, with equality for
  some pair — `dist` is the separation distance;
* overlapping (`dist < 0`): some translation of length `|dist|` makes the interiors disjoint and **no shorter
  translation does** — `|dist|` is the minimum translation that separates the shapes; and `dist < 0` exactly when
  the interiors meet.
-/
namespace C02
open Model

variable {K : Type} [Field K] [LinearOrder K] [IsStrictOrderedRing K] (sq : K → K)

/-- closed rectangle with centre `c` and half-extents `he` -/
def InRect (c he p : V2 K) : Prop := |p.x - c.x| ≤ he.x ∧ |p.y - c.y| ≤ he.y
/-- its interior -/
def InRectInt (c he p : V2 K) : Prop := |p.x - c.x| < he.x ∧ |p.y - c.y| < he.y
/-- the interiors of rectangle 1 (centre `0`, half-extents `he1`) and rectangle 2 (centre `t`, half-extents `he2`) share a
point -/
def InteriorsMeet (he1 he2 t : V2 K) : Prop := ∃ p : V2 K, InRectInt ⟨0, 0⟩ he1 p ∧ InRectInt t he2 p

private theorem axis_meet_iff (a c t : K) (ha : 0 < a) (hc : 0 < c) :
    (∃ x : K, |x - 0| < a ∧ |x - t| < c) ↔ |t| < a + c := by
  constructor
  · rintro ⟨x, h1, h2⟩
    rw [sub_zero] at h1
    rw [abs_lt] at h1 h2 ⊢
    constructor <;> linarith [h1.1, h1.2, h2.1, h2.2]
  · intro h
    have hs : 0 < a + c := by linarith
    refine ⟨t * a / (a + c), ?_, ?_⟩
    · rw [sub_zero, abs_div, abs_mul, abs_of_pos ha, abs_of_pos hs, div_lt_iff₀ hs]
      nlinarith [abs_nonneg t]
    · have e : t * a / (a + c) - t = -(t * c) / (a + c) := by field_simp; ring
      rw [e, abs_div, abs_neg, abs_mul, abs_of_pos hc, abs_of_pos hs, div_lt_iff₀ hs]
      nlinarith [abs_nonneg t]

/-- the interiors meet iff they meet on both axes: `|t.x| < he1.x + he2.x` and `|t.y| < he1.y + he2.y` -/
theorem interiorsMeet_iff (he1 he2 t : V2 K) (h1 : 0 < he1.x ∧ 0 < he1.y) (h2 : 0 < he2.x ∧ 0 < he2.y) :
    InteriorsMeet he1 he2 t ↔ |t.x| < he1.x + he2.x ∧ |t.y| < he1.y + he2.y := by
  constructor
  · rintro ⟨p, ⟨a1, a2⟩, ⟨b1, b2⟩⟩
    exact ⟨(axis_meet_iff he1.x he2.x t.x h1.1 h2.1).mp ⟨p.x, a1, b1⟩,
           (axis_meet_iff he1.y he2.y t.y h1.2 h2.2).mp ⟨p.y, a2, b2⟩⟩
  · rintro ⟨hx, hy⟩
    obtain ⟨x, x1, x2⟩ := (axis_meet_iff he1.x he2.x t.x h1.1 h2.1).mpr hx
    obtain ⟨y, y1, y2⟩ := (axis_meet_iff he1.y he2.y t.y h1.2 h2.2).mpr hy
    exact ⟨⟨x, y⟩, ⟨x1, y1⟩, ⟨x2, y2⟩⟩

example : InteriorsMeet (⟨1, 2⟩ : V2 ℚ) ⟨1, 2⟩ ⟨1/2, 1⟩ :=
  (interiorsMeet_iff _ _ _ (by norm_num) (by norm_num)).mpr (by norm_num [abs_lt])

private theorem rsd_unfold (he1 he2 t : V2 K) :
    letI := fieldNum K sq
    rectSignedDist he1 he2 t =
      (if 0 < |t.x| - (he1.x + he2.x) then
        (if 0 < |t.y| - (he1.y + he2.y) then
          sq ((|t.x| - (he1.x + he2.x)) * (|t.x| - (he1.x + he2.x)) + (|t.y| - (he1.y + he2.y)) * (|t.y| - (he1.y + he2.y)))
         else |t.x| - (he1.x + he2.x))
       else if 0 < |t.y| - (he1.y + he2.y) then |t.y| - (he1.y + he2.y)
       else max (|t.x| - (he1.x + he2.x)) (|t.y| - (he1.y + he2.y))) := by
  letI := fieldNum K sq
  simp only [rectSignedDist, fieldNum_nabs, fieldNum_nmax]
  rfl

/-- **`dist < 0` exactly when the interiors of the two rectangles meet.** -/
theorem rectSignedDist_neg_iff (hs : LawfulSqrt sq) (he1 he2 t : V2 K) (h1 : 0 < he1.x ∧ 0 < he1.y)
    (h2 : 0 < he2.x ∧ 0 < he2.y) :
    letI := fieldNum K sq
    rectSignedDist he1 he2 t < 0 ↔ InteriorsMeet he1 he2 t := by
  letI := fieldNum K sq
  rw [interiorsMeet_iff he1 he2 t h1 h2, rsd_unfold]
  split_ifs with c1 c2 c3
  · have hn := hs.nonneg ((|t.x| - (he1.x + he2.x)) * (|t.x| - (he1.x + he2.x)) + (|t.y| - (he1.y + he2.y)) * (|t.y| - (he1.y + he2.y)))
      (by nlinarith [mul_self_nonneg (|t.x| - (he1.x + he2.x)), mul_self_nonneg (|t.y| - (he1.y + he2.y))])
    constructor
    · intro h; linarith
    · rintro ⟨hx, _⟩; linarith
  · constructor
    · intro h; linarith
    · rintro ⟨hx, _⟩; linarith
  · constructor
    · intro h; linarith
    · rintro ⟨_, hy⟩; linarith
  · rw [max_lt_iff]
    constructor
    · rintro ⟨a, b⟩; exact ⟨by linarith, by linarith⟩
    · rintro ⟨a, b⟩; exact ⟨by linarith, by linarith⟩

example : (0 : ℚ) < 1 ∧ (0 : ℚ) < 2 := by norm_num

private theorem axis_gap_sq (a c t p q : K) (hp : |p - 0| ≤ a) (hq : |q - t| ≤ c) (hg : 0 ≤ |t| - (a + c)) :
    (|t| - (a + c)) * (|t| - (a + c)) ≤ (p - q) * (p - q) := by
  rw [sub_zero] at hp
  have h1 : |t| - (a + c) ≤ |p - q| := by
    have : |t| ≤ |p| + |p - q| + |q - t| := by
      calc |t| = |p - (p - q) - (q - t)| := by ring_nf
        _ ≤ |p - (p - q)| + |q - t| := abs_sub _ _
        _ ≤ |p| + |p - q| + |q - t| := by linarith [abs_sub p (p - q)]
    linarith
  calc (|t| - (a + c)) * (|t| - (a + c)) ≤ |p - q| * |p - q| := by nlinarith [abs_nonneg (p - q)]
    _ = (p - q) * (p - q) := abs_mul_abs_self _

/-- **apart: `dist` never exceeds the distance between a point of rectangle 1 and a point of rectangle 2.** -/
theorem rectSignedDist_le_dist (hs : LawfulSqrt sq) (he1 he2 t p q : V2 K)
    (hp : InRect ⟨0, 0⟩ he1 p) (hq : InRect t he2 q) :
    letI := fieldNum K sq
    0 ≤ rectSignedDist he1 he2 t →
      rectSignedDist he1 he2 t * rectSignedDist he1 he2 t ≤ (p.sub q).normSq := by
  letI := fieldNum K sq
  rw [rsd_unfold]
  simp only [V2.normSq, V2.dot, V2.sub]
  obtain ⟨px, py⟩ := hp; obtain ⟨qx, qy⟩ := hq
  have sx := mul_self_nonneg (p.x - q.x); have sy := mul_self_nonneg (p.y - q.y)
  split_ifs with c1 c2 c3
  · intro _
    have hx := axis_gap_sq he1.x he2.x t.x p.x q.x px qx c1.le
    have hy := axis_gap_sq he1.y he2.y t.y p.y q.y py qy c2.le
    rw [hs.sq_mul _ (by nlinarith [mul_self_nonneg (|t.x| - (he1.x + he2.x)), mul_self_nonneg (|t.y| - (he1.y + he2.y))])]
    linarith
  · intro _
    have hx := axis_gap_sq he1.x he2.x t.x p.x q.x px qx c1.le
    linarith
  · intro _
    have hy := axis_gap_sq he1.y he2.y t.y p.y q.y py qy c3.le
    linarith
  · intro h0
    have hm : max (|t.x| - (he1.x + he2.x)) (|t.y| - (he1.y + he2.y)) ≤ 0 := max_le (by linarith) (by linarith)
    have e : max (|t.x| - (he1.x + he2.x)) (|t.y| - (he1.y + he2.y)) = 0 := le_antisymm hm h0
    rw [e]; linarith

example : InRect (⟨0, 0⟩ : V2 ℚ) ⟨1, 2⟩ ⟨1, -2⟩ ∧ InRect (⟨4, 0⟩ : V2 ℚ) ⟨1, 2⟩ ⟨3, 1⟩ := by
  unfold InRect; norm_num [abs_le]

/-- on one axis: two points of the intervals `[-a, a]` and `[t - c, t + c]` at distance exactly the positive part of the gap
`|t| - (a + c)` -/
private theorem axis_attain (a c t : K) (ha : 0 < a) (hc : 0 < c) :
    ∃ p q : K, |p - 0| ≤ a ∧ |q - t| ≤ c ∧
      (p - q) * (p - q) = max (|t| - (a + c)) 0 * max (|t| - (a + c)) 0 := by
  by_cases hg : 0 < |t| - (a + c)
  · rw [max_eq_left hg.le]
    rcases le_total 0 t with ht | ht
    · rw [abs_of_nonneg ht] at hg ⊢
      refine ⟨a, t - c, ?_, ?_, by ring⟩
      · rw [sub_zero, abs_of_pos ha]
      · rw [show t - c - t = -c by ring, abs_neg, abs_of_pos hc]
    · rw [abs_of_nonpos ht] at hg ⊢
      refine ⟨-a, t + c, ?_, ?_, by ring⟩
      · rw [sub_zero, abs_neg, abs_of_pos ha]
      · rw [show t + c - t = c by ring, abs_of_pos hc]
  · push Not at hg
    rw [max_eq_right hg]
    have hs : 0 < a + c := by linarith
    have hle : |t| ≤ a + c := by linarith
    refine ⟨t * a / (a + c), t * a / (a + c), ?_, ?_, by ring⟩
    · rw [sub_zero, abs_div, abs_mul, abs_of_pos ha, abs_of_pos hs, div_le_iff₀ hs]
      nlinarith [abs_nonneg t]
    · have e : t * a / (a + c) - t = -(t * c) / (a + c) := by field_simp; ring
      rw [e, abs_div, abs_neg, abs_mul, abs_of_pos hc, abs_of_pos hs, div_le_iff₀ hs]
      nlinarith [abs_nonneg t]

/-- **apart: the bound is attained** — some point of rectangle 1 and some point of rectangle 2 are exactly `dist` apart, so
`dist` is the separation distance. -/
theorem rectSignedDist_attained (hs : LawfulSqrt sq) (he1 he2 t : V2 K) (h1 : 0 < he1.x ∧ 0 < he1.y)
    (h2 : 0 < he2.x ∧ 0 < he2.y) :
    letI := fieldNum K sq
    0 ≤ rectSignedDist he1 he2 t →
      ∃ p q : V2 K, InRect ⟨0, 0⟩ he1 p ∧ InRect t he2 q ∧
        (p.sub q).normSq = rectSignedDist he1 he2 t * rectSignedDist he1 he2 t := by
  letI := fieldNum K sq
  obtain ⟨px, qx, hpx, hqx, ex⟩ := axis_attain he1.x he2.x t.x h1.1 h2.1
  obtain ⟨py, qy, hpy, hqy, ey⟩ := axis_attain he1.y he2.y t.y h1.2 h2.2
  intro h0
  refine ⟨⟨px, py⟩, ⟨qx, qy⟩, ⟨hpx, hpy⟩, ⟨hqx, hqy⟩, ?_⟩
  rw [rsd_unfold] at h0 ⊢
  simp only [V2.normSq, V2.dot, V2.sub]
  rw [ex, ey]
  split_ifs at h0 ⊢ with c1 c2 c3
  · rw [max_eq_left c1.le, max_eq_left c2.le,
      hs.sq_mul _ (by nlinarith [mul_self_nonneg (|t.x| - (he1.x + he2.x)), mul_self_nonneg (|t.y| - (he1.y + he2.y))])]
  · push Not at c2
    rw [max_eq_left c1.le, max_eq_right c2]; ring
  · push Not at c1
    rw [max_eq_right c1, max_eq_left c3.le]; ring
  · push Not at c1 c3
    have hm : max (|t.x| - (he1.x + he2.x)) (|t.y| - (he1.y + he2.y)) ≤ 0 := max_le c1 c3
    have e : max (|t.x| - (he1.x + he2.x)) (|t.y| - (he1.y + he2.y)) = 0 := le_antisymm hm h0
    rw [max_eq_right c1, max_eq_right c3, e]; ring

example : (0 : ℚ) < 1 ∧ (0 : ℚ) < 1 / 4 := by norm_num

private theorem axis_push (s t : K) (hs : |t| ≤ s) :
    ∃ u : K, u * u = (|t| - s) * (|t| - s) ∧ ¬ |t + u| < s := by
  rcases le_total 0 t with ht | ht
  · refine ⟨s - |t|, by ring, ?_⟩
    rw [abs_of_nonneg ht] at hs ⊢
    rw [show t + (s - t) = s by ring]
    intro h; rw [abs_lt] at h; linarith [h.2]
  · refine ⟨-(s - |t|), by ring, ?_⟩
    rw [abs_of_nonpos ht] at hs ⊢
    rw [show t + -(s - -t) = -s by ring, abs_neg]
    intro h; rw [abs_lt] at h; linarith [h.2]

/-- **overlapping: a translation of length `|dist|` separates** — moving rectangle 2 by some `u` with `|u| = |dist|`
makes the interiors disjoint. -/
theorem rect_mtd_separates (hs : LawfulSqrt sq) (he1 he2 t : V2 K) (h1 : 0 < he1.x ∧ 0 < he1.y) (h2 : 0 < he2.x ∧ 0 < he2.y) :
    letI := fieldNum K sq
    rectSignedDist he1 he2 t ≤ 0 →
      ∃ u : V2 K, u.normSq = rectSignedDist he1 he2 t * rectSignedDist he1 he2 t ∧ ¬ InteriorsMeet he1 he2 (t.add u) := by
  letI := fieldNum K sq
  rw [rsd_unfold]
  split_ifs with c1 c2 c3
  · -- both gaps positive: the value is a square root of a positive number; it is ≤ 0 only if it is 0 — still apart
    intro h
    have hpos : 0 < (|t.x| - (he1.x + he2.x)) * (|t.x| - (he1.x + he2.x)) + (|t.y| - (he1.y + he2.y)) * (|t.y| - (he1.y + he2.y)) := by
      nlinarith [mul_pos c1 c1, mul_pos c2 c2]
    have hn := hs.nonneg _ hpos.le
    have e := hs.sq_mul _ hpos.le
    have h0 : sq ((|t.x| - (he1.x + he2.x)) * (|t.x| - (he1.x + he2.x)) + (|t.y| - (he1.y + he2.y)) * (|t.y| - (he1.y + he2.y))) = 0 :=
      le_antisymm h hn
    rw [h0] at e
    exact absurd e (by nlinarith)
  · intro h; exact absurd h (by linarith)
  · intro h; exact absurd h (by linarith)
  · push Not at c1 c3
    intro _
    rcases le_total (|t.y| - (he1.y + he2.y)) (|t.x| - (he1.x + he2.x)) with hm | hm
    · rw [max_eq_left hm]
      obtain ⟨u, eu, hu⟩ := axis_push (he1.x + he2.x) t.x (by linarith)
      refine ⟨⟨u, 0⟩, ?_, ?_⟩
      · simp only [V2.normSq, V2.dot]; rw [eu]; ring
      · rw [interiorsMeet_iff _ _ _ h1 h2]
        simp only [V2.add]
        intro h; exact hu h.1
    · rw [max_eq_right hm]
      obtain ⟨u, eu, hu⟩ := axis_push (he1.y + he2.y) t.y (by linarith)
      refine ⟨⟨0, u⟩, ?_, ?_⟩
      · simp only [V2.normSq, V2.dot]; rw [eu]; ring
      · rw [interiorsMeet_iff _ _ _ h1 h2]
        simp only [V2.add]
        intro h; exact hu h.2

/-- **overlapping: no shorter translation separates** — after any translation `u` of rectangle 2 with `|u| < |dist|` the
interiors still meet: `|dist|` is the minimum translation that separates the shapes. -/
theorem rect_mtd_minimal (hs : LawfulSqrt sq) (he1 he2 t u : V2 K) (h1 : 0 < he1.x ∧ 0 < he1.y) (h2 : 0 < he2.x ∧ 0 < he2.y) :
    letI := fieldNum K sq
    rectSignedDist he1 he2 t < 0 →
      u.normSq < rectSignedDist he1 he2 t * rectSignedDist he1 he2 t → InteriorsMeet he1 he2 (t.add u) := by
  letI := fieldNum K sq
  rw [rsd_unfold]
  simp only [V2.normSq, V2.dot]
  split_ifs with c1 c2 c3
  · intro h
    have hn := hs.nonneg ((|t.x| - (he1.x + he2.x)) * (|t.x| - (he1.x + he2.x)) + (|t.y| - (he1.y + he2.y)) * (|t.y| - (he1.y + he2.y)))
      (by nlinarith [mul_self_nonneg (|t.x| - (he1.x + he2.x)), mul_self_nonneg (|t.y| - (he1.y + he2.y))])
    exact absurd h (by linarith)
  · intro h; exact absurd h (by linarith)
  · intro h; exact absurd h (by linarith)
  · push Not at c1 c3
    intro hneg hu
    rw [interiorsMeet_iff _ _ _ h1 h2]
    simp only [V2.add]
    set m := max (|t.x| - (he1.x + he2.x)) (|t.y| - (he1.y + he2.y)) with hm
    have mx : |t.x| - (he1.x + he2.x) ≤ m := le_max_left _ _
    have my : |t.y| - (he1.y + he2.y) ≤ m := le_max_right _ _
    have hux : |u.x| < -m := by
      by_contra hc; push Not at hc
      have : m * m ≤ |u.x| * |u.x| := by nlinarith
      rw [abs_mul_abs_self] at this
      nlinarith [mul_self_nonneg u.y]
    have huy : |u.y| < -m := by
      by_contra hc; push Not at hc
      have : m * m ≤ |u.y| * |u.y| := by nlinarith
      rw [abs_mul_abs_self] at this
      nlinarith [mul_self_nonneg u.x]
    constructor
    · calc |t.x + u.x| ≤ |t.x| + |u.x| := abs_add_le _ _
        _ < he1.x + he2.x := by linarith
    · calc |t.y + u.y| ≤ |t.y| + |u.y| := abs_add_le _ _
        _ < he1.y + he2.y := by linarith

/-- the hypotheses are satisfiable: rectangles `(1, 2)` and `(1, 2)`, the second at `(1/2, 1)` (the seeded-change
configuration): `dist = -3/2`, and the translation `(1/4, 0)` is shorter than `3/2` -/
example : (letI := fieldNum ℚ (fun x => x); rectSignedDist (⟨1, 2⟩ : V2 ℚ) ⟨1, 2⟩ ⟨1/2, 1⟩) = -3/2 := by
  rw [rsd_unfold]; norm_num [abs_of_pos]
example : (letI := fieldNum ℚ (fun x => x); rectSignedDist (⟨1, 2⟩ : V2 ℚ) ⟨1, 2⟩ ⟨4, 0⟩) = 2 := by
  rw [rsd_unfold]; norm_num [abs_of_pos]
example : (⟨1/4, 0⟩ : V2 ℚ).normSq < (-3/2 : ℚ) * (-3/2) := by
  simp only [V2.normSq, V2.dot]; norm_num

end C02
