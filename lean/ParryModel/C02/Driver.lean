import ParryModel.Proto
import ParryModel.C02.Model
import ParryModel.C03.Oracle
import ParryModel.C03.Driver
/-!
C02 protocol handlers (closed forms).  The closed-form `details::` functions and their exact world-frame judges
(`judgeContact` = contact validity: unit normals, `normal2 = -normal1` in world space, `dist = (p2 - p1)·n1`,
witnesses on their shapes, `dist` = exact separation, `None` ⇔ beyond prediction) are shared with C03.
`v_closed`: the four verdicts of a closed-form pair; `v_dispatch`: the four verdicts through the real dispatcher.
-/
namespace C02
open Model Proto C03

def fverdicts (v : Option Verdicts) (panicked : Bool) : String :=
  match v with
  | some v => s!"{fb v.intersectionTest} {fb v.distanceZero} {fb v.closestPointsIntersecting} {fb v.contactNonPositive}"
  | none => if panicked then "panic" else "noroute"

def pVClosed : P (Shape3 Float × Shape3 Float × Iso3 Float × Float × Float) := do
  let (a, b, m) ← pDetails; let margin ← pf; let pred ← pf; pure (a, b, m, margin, pred)

def pVDispatch : P (WShape × Iso3 Float × WShape × Iso3 Float × Float × Float) := do
  let a ← pshape; let m1 ← piso3; let b ← pshape; let m2 ← piso3; let margin ← pf; let pred ← pf
  pure (a, m1, b, m2, margin, pred)

/-- all four verdicts equal `expected` -/
def allAre (vs : List Bool) (expected : Bool) : Bool := vs.all (· == expected)

def handler (fn : String) : Option Handler :=
  match fn with
  | "d_contact" | "d_distance" | "d_it" | "d_cp" | "q_contact" | "q_distance" | "q_it" | "q_cp"
  | "w_contact_ball_cp" => C03.handler fn
  | "v_closed" => some {
      model := fun a => run (do
        let (s1, s2, m, margin, pred) ← pVClosed
        let routed := (detailsIntersectionTest s1 s2 m).isSome
        pure (fverdicts (verdicts s1 s2 m margin pred) routed)) a
      oracle := fun a o => match run pVClosed a with
        | some (s1, s2, m, margin, pred) =>
          if o = ["panic"] then (if q margin < 0 then "pass" else "fail panic-with-nonnegative-margin") else
          if o = ["noroute"] then "skip no-closed-form-route" else
          match run (do let a ← pbool; let b ← pbool; let c ← pbool; let d ← pbool; pure [a, b, c, d]) o with
          | none => "fail unparsable-output"
          | some vs =>
            if q margin < 0 || q pred < 0 then "skip negative-parameter" else
            let P := localPair s1 s2 m
            match P.sep with
            | none => "skip no-exact-separation (pair kind or non-unit input)"
            | some (sep, _) =>
              let t : Rat := (1 / 1000000) * (1 + P.scale)
              if sep > t then (if allAre vs false then "pass" else s!"fail verdicts-disagree separated-by={sep.toF} got={vs}")
              else if sep < -t then (if allAre vs true then "pass" else s!"fail verdicts-disagree overlapping-by={sep.toF} got={vs}")
              else "skip near-touching"
        | none => "skip bad-args" }
  | "v_dispatch" => some {
      model := fun _ => some "oracle-only"
      oracle := fun a o => match run pVDispatch a with
        | some (s1, m1, s2, m2, margin, pred) =>
          if o = ["unsupported"] then "skip unsupported-pair" else
          match o with
          | "panic" :: _ => "fail panic"
          | _ =>
          match run (do let a ← pbool; let b ← pbool; let c ← pbool; let d ← pbool; let x ← pfo; let y ← pfo; pure ([a, b, c, d], x, y)) o with
          | none => "fail unparsable-output"
          | some (vs, dist, cdist) =>
            if q margin < 0 || q pred < 0 then "skip negative-parameter" else
            if !(unitQ (qiso3 m1) && unitQ (qiso3 m2)) then "skip non-unit-rotation" else
            let pair := s!"pair={wkind s1}/{wkind s2}"
            let sz := wsize s1 + wsize s2
            let t : Rat := (1 / 1000000) * (1 + sz + vmag (q3 m1.t) + vmag (q3 m2.t))
            -- `distance == 0` is read up to the numeric tolerance (GJK returns ~1e-15 instead of 0 on some overlaps)
            let vs := match vs with
              | [a, _, c, d] => [a, FloatIO.isFinite dist && q dist ≤ t, c, d]
              | vs => vs
            -- referee: exact separation where a closed form exists, otherwise the implementation's own numbers
            let exact : Option Rat := match s1.closed, s2.closed with
              | some a, some b => (worldPair a m1 b m2).sep.map (·.1)
              | _, _ => none
            match exact with
            | some sep =>
              if sep > t then (if allAre vs false then "pass" else s!"fail verdicts-disagree {pair} exact-separation={sep.toF} got={vs}")
              else if sep < -t then (if allAre vs true then "pass" else s!"fail verdicts-disagree {pair} exact-overlap={sep.toF} got={vs}")
              else "skip near-touching"
            | none =>
              if !FloatIO.isFinite dist then "fail nonfinite-distance" else
              if q dist > t then (if allAre vs false then "pass" else s!"fail verdicts-disagree {pair} distance={dist} got={vs}")
              else if FloatIO.isFinite cdist && q cdist < -t then
                (if allAre vs true then "pass" else s!"fail verdicts-disagree {pair} contact-dist={cdist} got={vs}")
              else "skip near-touching"
        | none => "skip bad-args" }
  | _ => none

end C02
