import ParryModel.Proto
import ParryModel.C02.Model
import ParryModel.C03.Oracle
import ParryModel.C03.Driver
/-!
C02 protocol handlers (closed forms).  The closed-form `details::` functions and their exact world-frame judges
(`judgeContact` = contact validity: unit normals, `normal2 = -normal1` in world space, `dist = (p2 - p1)·n1`,
witnesses on their shapes, `dist` = exact separation, `None` ⇔ beyond prediction) are shared with C03.
`v_closed`: the four verdicts of a closed-form pair; `v_dispatch`: the four verdicts through the real dispatcher.
-/
namespace C02
open Model Proto C03

def fverdicts (v : Option Verdicts) (panicked : Bool) : String :=
  match v with
  | some v => s!"{fb v.intersectionTest} {fb v.distanceZero} {fb v.closestPointsIntersecting} {fb v.contactNonPositive}"
  | none => if panicked then "panic" else "noroute"

def pVClosed : P (Shape3 Float × Shape3 Float × Iso3 Float × Float × Float) := do
  let (a, b, m) ← pDetails; let margin ← pf; let pred ← pf; pure (a, b, m, margin, pred)

def pVDispatch : P (WShape × Iso3 Float × WShape × Iso3 Float × Float × Float) := do
  let a ← pshape; let m1 ← piso3; let b ← pshape; let m2 ← piso3; let margin ← pf; let pred ← pf
  pure (a, m1, b, m2, margin, pred)

/-- all four verdicts equal `expected` -/
def allAre (vs : List Bool) (expected : Bool) : Bool := vs.all (· == expected)

/-- exact separating-axis test for two boxes over all 15 axes (3 + 3 face normals, 9 edge cross products):
the largest separation along an axis (`> 0`: disjoint, and it bounds the distance from below; `< 0`: the boxes
overlap and `-value` is the penetration depth).  Rational arithmetic on the given poses; only the normalisation of the
axis uses a square root (absolute error below 2^-40). -/
def satCuboids (he1 : V3 Rat) (P1 : Iso3 Rat) (he2 : V3 Rat) (P2 : Iso3 Rat) : Option Rat :=
  let a : List (V3 Rat) := [P1.rot ⟨1, 0, 0⟩, P1.rot ⟨0, 1, 0⟩, P1.rot ⟨0, 0, 1⟩]
  let b : List (V3 Rat) := [P2.rot ⟨1, 0, 0⟩, P2.rot ⟨0, 1, 0⟩, P2.rot ⟨0, 0, 1⟩]
  let h1 := [he1.x, he1.y, he1.z]; let h2 := [he2.x, he2.y, he2.z]
  let c := P2.t.sub P1.t
  let axes := a ++ b ++ (a.flatMap fun u => b.map fun v => u.cross v)
  let sepOn (l : V3 Rat) : Option Rat :=
    let n2 := l.normSq
    if n2 * 1000000000000 < 1 then none else
    let ra := ((a.zip h1).map fun (u, h) => h * rabs (u.dot l)).foldl (· + ·) 0
    let rb := ((b.zip h2).map fun (u, h) => h * rabs (u.dot l)).foldl (· + ·) 0
    some ((rabs (c.dot l) - ra - rb) / rsqrt n2)
  match axes.filterMap sepOn with
  | [] => none
  | v :: vs => some (vs.foldl max v)

def pKArgs : P (WShape × Iso3 Float × WShape × Iso3 Float × Float) := do
  let a ← pshape; let m1 ← piso3; let b ← pshape; let m2 ← piso3; let p ← pf; pure (a, m1, b, m2, p)

/-- self-consistency of a world-frame contact: unit normals, `normal2 = -normal1`, `dist = (p2 - p1)·n1`,
each witness on its own shape (membership distances `m1 m2` from the point query), `dist ≤ prediction` -/
def judgeSelf (tag : String) (sz S pred : Rat) (c : Contact3 Rat) (memb : List String) : String :=
  let t6 : Rat := (1 / 1000000) * (1 + sz) + tol * S
  let wtol : Rat := (2 / 1000) * (sz + rabs c.dist) + (1 / 1000000) * (1 + S)
  if c.normal1.normSq == 0 && c.dist == 0 then s!"fail null-contact {tag} (zero normals, dist 0: EPA gave up)"
  else if !close c.normal1.normSq 1 1000 then s!"fail normal1-not-unit {tag}"
  else if !close c.normal2.normSq 1 1000 then s!"fail normal2-not-unit {tag}"
  else if !closeV c.normal2 c.normal1.neg 1000 then s!"fail normal2-is-not-minus-normal1-in-world {tag}"
  else if rabs ((c.point2.sub c.point1).dot c.normal1 - c.dist) > t6 + (1 / 1000000) * rabs c.dist then
    s!"fail dist-is-not-(p2-p1).n1 {tag} dist={c.dist.toF} (p2-p1).n1={((c.point2.sub c.point1).dot c.normal1).toF}"
  else if c.dist > pred + t6 then s!"fail dist-beyond-prediction {tag}"
  else match run (do let a ← pfo; let b ← pfo; pure (a, b)) memb with
    | none => "fail unparsable-output"
    | some (m1, m2) =>
      let touch := if c.dist == 0 then " exactly-touching" else ""
      if !(FloatIO.isFinite m1 && FloatIO.isFinite m2) then s!"fail membership-nonfinite {tag}"
      else if q m1 > wtol then s!"fail witness1-not-on-its-shape {tag}{touch} off-by={m1}"
      else if q m2 > wtol then s!"fail witness2-not-on-its-shape {tag}{touch} off-by={m2}"
      else "pass"

def handlerCore (fn : String) : Option Handler :=
  match fn with
  | "d_contact" | "d_distance" | "d_it" | "d_cp" | "q_contact" | "q_distance" | "q_it" | "q_cp"
  | "w_contact_ball_cp" | "x_contact" | "x_cp" | "x_distance" | "x_it" => C03.handler fn
  | "v_closed" => some {
      model := fun a => run (do
        let (s1, s2, m, margin, pred) ← pVClosed
        let routed := (detailsIntersectionTest s1 s2 m).isSome
        pure (fverdicts (verdicts s1 s2 m margin pred) routed)) a
      oracle := fun a o => match run pVClosed a with
        | some (s1, s2, m, margin, pred) =>
          if o = ["panic"] then (if q margin < 0 then "pass" else "fail panic-with-nonnegative-margin") else
          if o = ["noroute"] then "skip no-closed-form-route" else
          match run (do let a ← pbool; let b ← pbool; let c ← pbool; let d ← pbool; pure [a, b, c, d]) o with
          | none => "fail unparsable-output"
          | some vs =>
            if q margin < 0 || q pred < 0 then "skip negative-parameter" else
            let P := localPair s1 s2 m
            match P.sep with
            | none => "skip no-exact-separation (pair kind or non-unit input)"
            | some (sep, _) =>
              let t : Rat := (1 / 1000000) * (1 + P.scale)
              if sep > t then (if allAre vs false then "pass" else s!"fail verdicts-disagree separated-by={sep.toF} got={vs}")
              else if sep < -t then (if allAre vs true then "pass" else s!"fail verdicts-disagree overlapping-by={sep.toF} got={vs}")
              else "skip near-touching"
        | none => "skip bad-args" }
  | "v_dispatch" => some {
      model := fun _ => some "oracle-only"
      oracle := fun a o => match run pVDispatch a with
        | some (s1, m1, s2, m2, margin, pred) =>
          if o = ["unsupported"] then "skip unsupported-pair" else
          match o with
          | "panic" :: _ => "fail panic"
          | _ =>
          match run (do let a ← pbool; let b ← pbool; let c ← pbool; let d ← pbool; let x ← pfo; let y ← pfo; pure ([a, b, c, d], x, y)) o with
          | none => "fail unparsable-output"
          | some (vs, dist, cdist) =>
            if q margin < 0 || q pred < 0 then "skip negative-parameter" else
            if !(unitQ (qiso3 m1) && unitQ (qiso3 m2)) then "skip non-unit-rotation" else
            let pair := s!"pair={wkind s1}/{wkind s2}"
            let sz := wsize s1 + wsize s2
            let t : Rat := (1 / 1000000) * (1 + sz + vmag (q3 m1.t) + vmag (q3 m2.t))
            -- `distance == 0` is read up to the numeric tolerance (GJK returns ~1e-15 instead of 0 on some overlaps)
            let vs := match vs with
              | [a, _, c, d] => [a, FloatIO.isFinite dist && q dist ≤ t, c, d]
              | vs => vs
            -- referee: exact separation where a closed form exists, otherwise the implementation's own numbers
            let exact : Option Rat := match s1, s2 with
              | .cuboid h1, .cuboid h2 => satCuboids (q3 h1) (qiso3 m1) (q3 h2) (qiso3 m2)
              | _, _ => match s1.closed, s2.closed with
                | some a, some b => (worldPair a m1 b m2).sep.map (·.1)
                | _, _ => (XPair.sep ⟨s1, qiso3 m1, s2, qiso3 m2⟩).map (·.1)   -- ball against segment / triangle / capsule
            match exact with
            | some sep =>
              if sep > t then (if allAre vs false then "pass" else s!"fail verdicts-disagree {pair} exact-separation={sep.toF} got={vs}")
              else if sep < -t then (if allAre vs true then "pass" else s!"fail verdicts-disagree {pair} exact-overlap={sep.toF} got={vs}")
              else "skip near-touching"
            | none =>
              if !FloatIO.isFinite dist then "fail nonfinite-distance" else
              if q dist > t then (if allAre vs false then "pass" else s!"fail verdicts-disagree {pair} distance={dist} got={vs}")
              else if FloatIO.isFinite cdist && q cdist < -t then
                (if allAre vs true then "pass" else s!"fail verdicts-disagree {pair} contact-dist={cdist} got={vs}")
              else "skip near-touching"
        | none => "skip bad-args" }
  | "sat_normal" | "sat_edge" | "it_cc" => some {
      model := fun a => run (do
        let he1 ← pv3; let he2 ← pv3; let m ← piso3
        match fn with
        | "sat_normal" => let r := satNormalOneway he1 he2 m; pure s!"{ff r.1} {fv3 r.2}"
        | "sat_edge" => let r := satEdgeTwoway he1 he2 m; pure s!"{ff r.1} {fv3 r.2}"
        | _ => pure (fb (intersectionTestCuboidCuboid m he1 he2))) a
      oracle := fun a o => match run (do let he1 ← pv3; let he2 ← pv3; let m ← piso3; pure (he1, he2, m)) a with
        | some (he1, he2, m) =>
          let M := qiso3 m; let H1 := q3 he1; let H2 := q3 he2
          if !unitQ M then "skip non-unit-rotation" else
          let t : Rat := (1 / 1000000) * (1 + vmag H1 + vmag H2 + vmag M.t)
          match satCuboids H1 Iso3.identity H2 M with
          | none => "skip degenerate"
          | some ex =>
            if fn = "it_cc" then
              withOut pbool o fun r =>
                if ex > t && r then s!"fail intersecting-but-separated-by {ex.toF} (exact 15-axis SAT)"
                else if ex < -t && !r then s!"fail disjoint-but-overlapping-by {ex.toF} (exact 15-axis SAT)"
                else if rabs ex ≤ t then "skip near-touching" else "pass"
            else
              withOut (do let s ← pfo; let d ← pov3; pure (s, d)) o fun (s, d) =>
                if !(FloatIO.isFinite s && finite3 d) then "fail nonfinite-output" else
                let D := q3 d
                if D.normSq == 0 then (if fn = "sat_edge" then "skip no-edge-axis" else "fail zero-axis") else
                -- the reported value is the separation along the reported (unit) axis, and never exceeds the best axis
                let a1 : List (V3 Rat) := [⟨1, 0, 0⟩, ⟨0, 1, 0⟩, ⟨0, 0, 1⟩]
                let b1 : List (V3 Rat) := a1.map M.rot
                let ra := ((a1.zip [H1.x, H1.y, H1.z]).map fun (u, h) => h * rabs (u.dot D)).foldl (· + ·) 0
                let rb := ((b1.zip [H2.x, H2.y, H2.z]).map fun (u, h) => h * rabs (u.dot D)).foldl (· + ·) 0
                let along := M.t.dot D - ra - rb
                if !close D.normSq 1 1000 then "fail axis-not-unit"
                else if rabs (along - q s) > t then s!"fail separation-along-reported-axis reported={s} exact={along.toF}"
                else if q s > ex + t then s!"fail separation-exceeds-exact-SAT reported={s} exact={ex.toF}"
                else "pass"
        | none => "skip bad-args" }
  | "k_contact" => some {
      model := fun _ => some "oracle-only"
      oracle := fun a o => match run pKArgs a with
        | some (s1, m1, s2, m2, pred) =>
          let tag := s!"pair={wkind s1}/{wkind s2}"
          match o with
          | "panic" :: _ => s!"fail panic {tag}"
          | ["unsupported"] => "skip unsupported-pair"
          | ["none"] => "skip no-contact-within-prediction"
          | _ =>
            let (res, memb) := splitAt o
            match run pcontactOut res with
            | some (some c) =>
              if !finiteContact c then s!"fail nonfinite-output {tag}" else
              if !(unitQ (qiso3 m1) && unitQ (qiso3 m2)) then "skip non-unit-rotation" else
              judgeSelf tag (wsize s1 + wsize s2) (vmag (q3 m1.t) + vmag (q3 m2.t)) (q pred) (qcontact c) memb
            | _ => "fail unparsable-output"
        | none => "skip bad-args" }
  | "k2_contact" => some {
      model := fun _ => some "oracle-only"
      oracle := fun a o => match run (do let a ← pshape2; let m1 ← piso2; let b ← pshape2; let m2 ← piso2; let p ← pf; pure (a, m1, b, m2, p)) a with
        | some (s1, m1, s2, m2, pred) =>
          let tag := s!"pair={s1.kind}/{s2.kind}"
          match o with
          | "panic" :: _ => s!"fail panic {tag}"
          | ["unsupported"] => "skip unsupported-pair"
          | ["none"] => "skip no-contact-within-prediction"
          | _ =>
            let (res, memb) := splitAt o
            match run pcontactOut2 res with
            | some (some c) =>
              if !finiteContact2 c then s!"fail nonfinite-output {tag}" else
              if !(unitC (qiso2 m1) && unitC (qiso2 m2)) then "skip non-unit-rotation" else
              judgeSelf tag (s1.size + s2.size) (vmag2 (q2 m1.t) + vmag2 (q2 m2.t)) (q pred) (embedC (qcontact2 c)) memb
            | _ => "fail unparsable-output"
        | none => "skip bad-args" }
  | _ => none

/-- every C02 oracle starts with the totality clause (`fail non-finite-output …`, see `C03.guardFinite`) -/
def handler (fn : String) : Option Handler := (handlerCore fn).map (guardFinite fn)

end C02
