import ParryModel.Proto
import ParryModel.C02.Model
import ParryModel.C03.Oracle
import ParryModel.C03.Driver
import ParryModel.C02.Exact
import ParryModel.C02.Epa2
import ParryModel.C02.Epa3
import ParryModel.C02.Csm
/-!
C02 protocol handlers (closed forms).  The closed-form `details::` functions and their exact world-frame judges
(`judgeContact` = contact validity: unit normals, `normal2 = -normal1` in world space, `dist = (p2 - p1)·n1`,
witnesses on their shapes, `dist` = exact separation, `None` ⇔ beyond prediction) are shared with C03.
`v_closed`: the four verdicts of a closed-form pair; `v_dispatch`: the four verdicts through the real dispatcher.
-/
namespace C02
open Model Proto C03

def fverdicts (v : Option Verdicts) (panicked : Bool) : String :=
  match v with
  | some v => s!"{fb v.intersectionTest} {fb v.distanceZero} {fb v.closestPointsIntersecting} {fb v.contactNonPositive}"
  | none => if panicked then "panic" else "noroute"

def pVClosed : P (Shape3 Float × Shape3 Float × Iso3 Float × Float × Float) := do
  let (a, b, m) ← pDetails; let margin ← pf; let pred ← pf; pure (a, b, m, margin, pred)

def pVDispatch : P (WShape × Iso3 Float × WShape × Iso3 Float × Float × Float) := do
  let a ← pshape; let m1 ← piso3; let b ← pshape; let m2 ← piso3; let margin ← pf; let pred ← pf
  pure (a, m1, b, m2, margin, pred)

/-- all four verdicts equal `expected` -/
def allAre (vs : List Bool) (expected : Bool) : Bool := vs.all (· == expected)

/-- exact separating-axis test for two boxes over all 15 axes (3 + 3 face normals, 9 edge cross products):
the largest separation along an axis (`> 0`: disjoint, and it bounds the distance from below; `< 0`: the boxes
overlap and `-value` is the penetration depth).  Rational arithmetic on the given poses; only the normalisation of the
axis uses a square root (absolute error below 2^-40). -/
def satCuboids (he1 : V3 Rat) (P1 : Iso3 Rat) (he2 : V3 Rat) (P2 : Iso3 Rat) : Option Rat :=
  let a : List (V3 Rat) := [P1.rot ⟨1, 0, 0⟩, P1.rot ⟨0, 1, 0⟩, P1.rot ⟨0, 0, 1⟩]
  let b : List (V3 Rat) := [P2.rot ⟨1, 0, 0⟩, P2.rot ⟨0, 1, 0⟩, P2.rot ⟨0, 0, 1⟩]
  let h1 := [he1.x, he1.y, he1.z]; let h2 := [he2.x, he2.y, he2.z]
  let c := P2.t.sub P1.t
  let axes := a ++ b ++ (a.flatMap fun u => b.map fun v => u.cross v)
  let sepOn (l : V3 Rat) : Option Rat :=
    let n2 := l.normSq
    if n2 * 1000000000000 < 1 then none else
    let ra := ((a.zip h1).map fun (u, h) => h * rabs (u.dot l)).foldl (· + ·) 0
    let rb := ((b.zip h2).map fun (u, h) => h * rabs (u.dot l)).foldl (· + ·) 0
    some ((rabs (c.dot l) - ra - rb) / rsqrt n2)
  match axes.filterMap sepOn with
  | [] => none
  | v :: vs => some (vs.foldl max v)

def pKArgs : P (WShape × Iso3 Float × WShape × Iso3 Float × Float) := do
  let a ← pshape; let m1 ← piso3; let b ← pshape; let m2 ← piso3; let p ← pf; pure (a, m1, b, m2, p)

/-- self-consistency of a world-frame contact: unit normals, `normal2 = -normal1`, `dist = (p2 - p1)·n1`,
each witness on its own shape (membership distances `m1 m2` from the point query), `dist ≤ prediction` -/
def judgeSelf (tag : String) (sz S pred : Rat) (c : Contact3 Rat) (memb : List String) : String :=
  let t6 : Rat := (1 / 1000000) * (1 + sz) + tol * S
  let wtol : Rat := (2 / 1000) * (sz + rabs c.dist) + (1 / 1000000) * (1 + S)
  if c.normal1.normSq == 0 && c.dist == 0 then s!"fail null-contact {tag} (zero normals, dist 0: EPA gave up)"
  else if !close c.normal1.normSq 1 1000 then s!"fail normal1-not-unit {tag}"
  else if !close c.normal2.normSq 1 1000 then s!"fail normal2-not-unit {tag}"
  else if !closeV c.normal2 c.normal1.neg 1000 then s!"fail normal2-is-not-minus-normal1-in-world {tag}"
  else if rabs ((c.point2.sub c.point1).dot c.normal1 - c.dist) > t6 + (1 / 1000000) * rabs c.dist then
    s!"fail dist-is-not-(p2-p1).n1 {tag} dist={c.dist.toF} (p2-p1).n1={((c.point2.sub c.point1).dot c.normal1).toF}"
  else if c.dist > pred + t6 then s!"fail dist-beyond-prediction {tag}"
  else match run (do let a ← pfo; let b ← pfo; pure (a, b)) memb with
    | none => "fail unparsable-output"
    | some (m1, m2) =>
      let touch := if c.dist == 0 then " exactly-touching" else ""
      if !(FloatIO.isFinite m1 && FloatIO.isFinite m2) then s!"fail membership-nonfinite {tag}"
      else if q m1 > wtol then s!"fail witness1-not-on-its-shape {tag}{touch} off-by={m1}"
      else if q m2 > wtol then s!"fail witness2-not-on-its-shape {tag}{touch} off-by={m2}"
      else "pass"


/-! ## follow-up 2: judges against the exact signed separation (`Exact.lean`) -/

/-- one evaluation of the four queries: `<it> <distance> <intersecting | disjoint | within gap> <none | some dist>` -/
structure Four where
  it : Bool
  dist : Float
  /-- `0` intersecting, `1` within margin (gap in `gap`), `2` disjoint -/
  cp : Nat
  gap : Float
  contact : Option Float

def pFour : P Four := do
  let it ← pbool; let d ← pfo
  let k ← tok
  let (cp, gap) ← (match k with
    | "intersecting" => pure (0, 0.0)
    | "disjoint" => pure (2, 0.0)
    | "within" => do let g ← pfo; pure (1, g)
    | _ => failure : P (Nat × Float))
  let c ← tok
  let contact ← (match c with
    | "none" => pure none
    | "some" => do let x ← pfo; pure (some x)
    | _ => failure : P (Option Float))
  pure ⟨it, d, cp, gap, contact⟩

/-- the four answers against the exact signed separation `sep` of the pair (for composites: least over the parts; a
negative value then only means "overlapping by more than the tolerance") -/
def judgeFourExact (tag : String) (sep t margin pred : Rat) (f : Four) : String :=
  let fin := FloatIO.isFinite f.dist && FloatIO.isFinite f.gap && (f.contact.map FloatIO.isFinite).getD true
  if !fin then s!"fail nonfinite-output {tag}" else
  let d := q f.dist; let g := q f.gap
  if sep > t then
    if f.it then s!"fail intersection-test-true-but-separated {tag} exact-separation={sep.toF}"
    else if rabs (d - sep) > t then s!"fail distance-is-not-the-separation {tag} distance={f.dist} exact-separation={sep.toF}"
    else if f.cp == 0 then s!"fail closest-points-intersecting-but-separated {tag} exact-separation={sep.toF}"
    else if f.cp == 1 && sep > margin + t then s!"fail closest-points-within-but-beyond-margin {tag} exact-separation={sep.toF}"
    else if f.cp == 1 && rabs (g - sep) > t then s!"fail closest-points-gap-is-not-the-separation {tag} gap={f.gap} exact-separation={sep.toF}"
    else if f.cp == 2 && sep < margin - t then s!"fail closest-points-disjoint-but-within-margin {tag} exact-separation={sep.toF}"
    else match f.contact with
      | none => if sep < pred - t then s!"fail no-contact-but-within-prediction {tag} exact-separation={sep.toF}" else "pass"
      | some c =>
        if sep > pred + t then s!"fail contact-beyond-prediction {tag} exact-separation={sep.toF}"
        else if rabs (q c - sep) > t then s!"fail contact-dist-is-not-the-separation {tag} contact-dist={c} exact-separation={sep.toF}"
        else "pass"
  else if sep < -t then
    if !f.it then s!"fail intersection-test-false-but-overlapping {tag} exact-overlap={sep.toF}"
    else if d > t then s!"fail distance-positive-but-overlapping {tag} distance={f.dist} exact-overlap={sep.toF}"
    else if f.cp == 1 && g ≤ t then s!"fail closest-points-within-zero-gap-while-overlapping {tag} exact-overlap={sep.toF}"
    else if f.cp != 0 then s!"fail closest-points-not-intersecting-while-overlapping {tag} exact-overlap={sep.toF}"
    else match f.contact with
      | none => s!"fail no-contact-but-overlapping {tag} exact-overlap={sep.toF}"
      | some c => if q c > t then s!"fail contact-dist-positive-but-overlapping {tag} contact-dist={c} exact-overlap={sep.toF}" else "pass"
  else "skip near-touching"

/-- no exact referee: the four answers against each other (independent traversals / algorithms of the library) -/
def judgeFourCross (tag : String) (t margin pred : Rat) (f : Four) : String :=
  let fin := FloatIO.isFinite f.dist && FloatIO.isFinite f.gap && (f.contact.map FloatIO.isFinite).getD true
  if !fin then s!"fail nonfinite-output {tag}" else
  let d := q f.dist; let g := q f.gap
  let tt := t + (1 / 1000000) * rabs d
  if d > tt then
    if f.it then s!"fail verdicts-disagree {tag} distance={f.dist} intersection-test=true"
    else if f.cp == 0 then s!"fail verdicts-disagree {tag} distance={f.dist} closest-points=intersecting"
    else if f.cp == 1 && rabs (g - d) > tt then s!"fail distances-disagree {tag} distance={f.dist} closest-points-gap={f.gap}"
    else if f.cp == 2 && d < margin - tt then s!"fail closest-points-disjoint-but-distance-within-margin {tag} distance={f.dist}"
    else match f.contact with
      | none => if d < pred - tt then s!"fail no-contact-but-distance-within-prediction {tag} distance={f.dist}" else "pass"
      | some c => if rabs (q c - d) > tt then s!"fail distances-disagree {tag} distance={f.dist} contact-dist={c}" else "pass"
  else match f.contact with
    | some c =>
      if q c < -tt then
        (if f.it && f.cp == 0 then "pass" else s!"fail verdicts-disagree {tag} contact-dist={c} intersection-test={f.it} closest-points-kind={f.cp}")
      else "skip near-touching"
    | none => s!"fail no-contact-but-distance-zero {tag}"

def judgeBoth (sep : Option Rat) (tag : String) (t margin pred : Rat) (o : List String) : String :=
  match o with
  | "panic" :: _ => s!"fail panic {tag}"
  | ["unsupported"] => "skip unsupported-pair"
  | _ =>
    let A := o.takeWhile (· ≠ ";"); let B := (o.dropWhile (· ≠ ";")).drop 1
    match run pFour A, run pFour B with
    | some a, some b =>
      let one (ord : String) (f : Four) : String :=
        match sep with
        | some s => judgeFourExact s!"{tag} order={ord}" s (t + (1 / 1000000) * rabs s) margin pred f
        | none => judgeFourCross s!"{tag} order={ord}" t margin pred f
      let ra := one "12" a
      if ra.startsWith "fail" then ra else
      let rb := one "21" b
      if rb.startsWith "fail" then rb else
      if ra.startsWith "pass" || rb.startsWith "pass" then "pass" else ra
    | _, _ => "fail unparsable-output"

/-- two boxes with parallel faces whose centre offset lies in a symmetry plane of box 1 (the configuration of the known EPA
finding: coplanar faces of the expanding polytope, non-minimal depth) -/
def symmetricParallelBoxes (s1 s2 : XShape3) (m1 m2 : Iso3 Rat) : Bool :=
  match s1, s2 with
  | .prim (.cuboid _), .prim (.cuboid _) =>
    let small (c : Rat) : Bool := rabs c ≤ 1 / 1000000000
    let axisLike (v : V3 Rat) : Bool := [v.x, v.y, v.z].all fun c => small c || small (rabs c - 1)
    let ax : List (V3 Rat) := [⟨1, 0, 0⟩, ⟨0, 1, 0⟩, ⟨0, 0, 1⟩]
    let d := m1.invRot (m2.t.sub m1.t)
    (ax.all fun e => axisLike (m1.invRot (m2.rot e))) && (small d.x || small d.y || small d.z)
  | _, _ => false

/-- the centre (vertex mean) of one core coincides with a vertex or the centre of the other: a configuration in which support
points of the configuration-space obstacle are coplanar with faces of EPA's expanding polytope (known EPA finding) -/
def centreOnVertex3 (A B : RP3 Rat) : Bool :=
  let ctr (P : RP3 Rat) : V3 Rat := (bound3 P).1
  let near (p q : V3 Rat) : Bool := vmag (p.sub q) ≤ 1 / 1000000000
  let one (P Q : RP3 Rat) : Bool := P.vs.length > 1 && (near (ctr P) (ctr Q) || Q.vs.any (near (ctr P)))
  one A B || one B A

/-- contact of a convex pair against the exact signed separation `sep` (distance when apart, minus the minimum separating
translation when overlapping) and the overlap `over` along the reported normal (when available) -/
def judgeExactContact (tag : String) (sep t pred : Rat) (over : V3 Rat → Option Rat) (self : Contact3 Rat → String)
    (out : Option (Contact3 Rat)) : String :=
  match out with
  | none =>
    if sep < pred - t then s!"fail none-but-within-prediction {tag} exact-separation={sep.toF} prediction={pred.toF}"
    else if sep > pred + t then "pass" else "skip near-prediction"
  | some c =>
    -- the value first (a wrong depth is the more fundamental failure), then the record's self-consistency
    if sep > pred + t then s!"fail some-but-beyond-prediction {tag} exact-separation={sep.toF} prediction={pred.toF}"
    else if rabs (c.dist - sep) > t then
      (if sep > 0 then s!"fail dist-is-not-the-separation {tag} dist={c.dist.toF} exact-separation={sep.toF}"
       else
        -- the reported normal is a minimising direction but the witnesses are not `depth` apart along it
        let shortAlongRightNormal := match over c.normal1 with
          | some ov => rabs (ov + sep) ≤ t && c.dist < 0 && -c.dist < ov - t
          | none => false
        if shortAlongRightNormal then s!"fail witnesses-short-of-the-depth-along-a-minimising-normal1 {tag} dist={c.dist.toF} exact={sep.toF}"
        else s!"fail depth-is-not-the-minimum-translation {tag} dist={c.dist.toF} exact={sep.toF}")
    else
    let s := self c
    if s != "pass" then s
    else match over c.normal1 with
      | some ov => if c.dist < 0 && -c.dist > ov + t then s!"fail depth-exceeds-overlap-along-normal1 {tag} dist={c.dist.toF} overlap={ov.toF}" else "pass"
      | none => "pass"

/-! ## follow-up 4: `epa2` — the 2-D EPA run on a given start simplex -/

structure Epa2Args where
  k1 : Nat
  a1 : Float
  b1 : Float
  k2 : Nat
  a2 : Float
  b2 : Float
  pos12 : Iso2 Float
  pts : List (V2 Float × V2 Float)

def pEpa2 : P Epa2Args := do
  let k1 ← pnat; let a1 ← pf; let b1 ← pf; let k2 ← pnat; let a2 ← pf; let b2 ← pf; let m ← piso2; let n ← pnat
  let rec go : Nat → P (List (V2 Float × V2 Float))
    | 0 => pure []
    | k + 1 => do let o1 ← pv2; let o2 ← pv2; let r ← go k; pure ((o1, o2) :: r)
  let pts ← go n
  pure ⟨k1, a1, b1, k2, a2, b2, m, pts⟩

/-- `g1.local_support_point(dir)`: Cuboid (`copy_sign_to`) / Ball (`origin + normalize(dir) * r`) -/
def epaSupp1 {K} [Num K] (k : Nat) (a b : K) (d : V2 K) : V2 K :=
  if k = 0 then cuboidLocalSupport2 ⟨a, b⟩ d else V2.zero.add ((V2.normalize d).smul a)
/-- `g2.support_point(pos12, dir)` -/
def epaSupp2 {K} [Num K] (k : Nat) (a b : K) (m : Iso2 K) (d : V2 K) : V2 K :=
  if k = 0 then (cuboidSupportMap2 ⟨a, b⟩).support m d else (ballSupportMap2 a).support m d

/-- exact support value `max { x·n : x in the posed shape }` (ball: `|n|` through the rational square root, 2^-40) -/
def epaH (k : Nat) (a b : Rat) (m : Iso2 Rat) (n : V2 Rat) : Rat :=
  if k = 0 then m.t.dot n + a * rabs ((m.rot ⟨1, 0⟩).dot n) + b * rabs ((m.rot ⟨0, 1⟩).dot n)
  else m.t.dot n + a * rsqrt n.normSq
/-- how far `p` is outside the posed shape (0 inside), in the max norm of the local frame / radially -/
def epaOutside (k : Nat) (a b : Rat) (m : Iso2 Rat) (p : V2 Rat) : Rat :=
  let l := m.invAct p
  if k = 0 then rmax 0 (rmax (rabs l.x - a) (rabs l.y - b)) else rmax 0 (rsqrt l.normSq - a)

def epa2Oracle (A : Epa2Args) (o : List String) : String :=
  let M := qiso2 A.pos12
  if !unitC M then "skip non-unit-rotation" else
  let I : Iso2 Rat := ⟨1, 0, ⟨0, 0⟩⟩
  let (a1, b1, a2, b2) := (q A.a1, q A.b1, q A.a2, q A.b2)
  let sh (k : Nat) (a b : Float) : XShape2 := .prim (if k = 0 then .cuboid ⟨a, b⟩ else .ball a)
  -- a ball whose centre is exactly a vertex of the box: the round corner of the configuration-space obstacle is an arc centred at the origin
  let onCorner : Bool :=
    if A.k1 != 0 && A.k2 = 0 then (let l := M.invAct ⟨0, 0⟩; rabs l.x == a2 && rabs l.y == b2)
    else if A.k1 = 0 && A.k2 != 0 then (rabs M.t.x == a1 && rabs M.t.y == b1) else false
  let pair := s!"{if A.k1 = 0 then "cuboid" else "ball"}/{if A.k2 = 0 then "cuboid" else "ball"}{if A.k1 != 0 && A.k2 != 0 && vmag2 M.t == 0 then "[concentric]" else ""}{if onCorner then "[round-cores-touching]" else ""}"
  let scale : Rat := 1 + a1 + b1 + a2 + b2 + vmag2 M.t
  let pts := A.pts.map fun (o1, o2) => (q2 o1).sub (q2 o2)
  -- the contract of EPA: the start simplex consists of points of the two shapes and contains the origin
  let inShapes := A.pts.all fun (o1, o2) =>
    epaOutside A.k1 a1 b1 I (q2 o1) ≤ (1 / 1000000000) * scale && epaOutside A.k2 a2 b2 M (q2 o2) ≤ (1 / 1000000000) * scale
  if !inShapes then "skip simplex-not-from-the-shapes" else
  let t9 : Rat := (1 / 1000000000) * scale * scale
  let originIn : Bool := match pts with
    | [p] => vmag2 p ≤ (1 / 1000000000) * scale
    | [p, r] => rabs (p.perp r) ≤ t9 && p.dot r ≤ t9
    | [p, r, s] =>
      let (c1, c2, c3) := (p.perp r, r.perp s, s.perp p)
      (c1 ≥ -t9 && c2 ≥ -t9 && c3 ≥ -t9) || (c1 ≤ t9 && c2 ≤ t9 && c3 ≤ t9)
    | _ => false
  if !originIn then "skip origin-not-in-the-simplex" else
  match geom2 (sh A.k1 A.a1 A.b1) I, geom2 (sh A.k2 A.a2 A.b2) M with
  | some G1, some G2 =>
    match sepG2 G1 G2 with
    | none => "skip no-exact-separation"
    | some sep =>
      let pen := -sep
      match o with
      | ["none"] =>
        if pen > (1 / 1000000) * scale then s!"fail none-for-overlapping-shapes pair={pair} dim={A.pts.length - 1} exact-depth={(toF pen)}"
        else "skip touching"
      | ["degenerate-simplex"] => "skip degenerate-simplex"
      | _ =>
      withOut (do let p1 ← pfo; let p1y ← pfo; let p2 ← pfo; let p2y ← pfo; let nx ← pfo; let ny ← pfo
                  pure ((⟨p1, p1y⟩ : V2 Float), (⟨p2, p2y⟩ : V2 Float), (⟨nx, ny⟩ : V2 Float))) o fun (p1, p2, n) =>
        let (P1, P2, N) := (q2 p1, q2 p2, q2 n)
        if A.pts.length = 1 then
          -- vertex/vertex start: only a direction is produced; it must be a unit vector
          if !close N.normSq 1 1000 then s!"fail normal-not-unit pair={pair} dim=0" else "pass"
        else if pen ≤ (1 / 1000000) * scale then "skip touching" else
        let wt : Rat := (1 / 1000000) * scale
        let d := (P1.sub P2).dot N
        let H := epaH A.k1 a1 b1 I N + epaH A.k2 a2 b2 M N.neg
        let rel : Rat := if A.k1 = 0 && A.k2 = 0 then 0 else (5 / 1000)
        if !close N.normSq 1 1000 then s!"fail normal-not-unit pair={pair} n2={toF N.normSq}"
        else if epaOutside A.k1 a1 b1 I P1 > wt then s!"fail witness1-not-on-its-shape pair={pair} dim={A.pts.length - 1} off={toF (epaOutside A.k1 a1 b1 I P1)}"
        else if epaOutside A.k2 a2 b2 M P2 > wt then s!"fail witness2-not-on-its-shape pair={pair} dim={A.pts.length - 1} off={toF (epaOutside A.k2 a2 b2 M P2)}"
        else if d > H + wt then s!"fail depth-exceeds-the-overlap-along-the-normal pair={pair} depth={toF d} overlap={toF H}"
        else if rabs (d - pen) > wt + rel * pen then
          s!"fail depth-is-not-the-minimum-translation pair={pair} dim={A.pts.length - 1} depth={toF d} exact={toF pen} overlap-along-normal={toF H}"
        else "pass"
  | _, _ => "skip no-exact-geometry"

def fEpa2 : Epa2Result Float → String
  | .panic => "panic"
  | .fuel => "fuel"
  | .none => "none"
  | .some p1 p2 n _ => s!"{fv2 p1} {fv2 p2} {fv2 n}"


/-! ## `epa3` — the 3-D EPA run on the start simplex of the library's own GJK -/

structure Epa3Args where
  k1 : Nat
  h1 : V3 Float
  k2 : Nat
  h2 : V3 Float
  pos12 : Iso3 Float
  pts : List (V3 Float × V3 Float)

def pEpa3 : P Epa3Args := do
  let k1 ← pnat; let h1 ← pv3; let k2 ← pnat; let h2 ← pv3; let m ← piso3; let n ← pnat
  let rec go : Nat → P (List (V3 Float × V3 Float))
    | 0 => pure []
    | k + 1 => do let o1 ← pv3; let o2 ← pv3; let r ← go k; pure ((o1, o2) :: r)
  let pts ← go n
  pure ⟨k1, h1, k2, h2, m, pts⟩

def epa3Supp1 {K} [Num K] (k : Nat) (h : V3 K) (d : V3 K) : V3 K :=
  if k = 0 then cuboidLocalSupport h d else V3.zero.add ((V3.normalize d).smul h.x)
def epa3Supp2 {K} [Num K] (k : Nat) (h : V3 K) (m : Iso3 K) (d : V3 K) : V3 K :=
  if k = 0 then (cuboidSupportMap h).support m d else (ballSupportMap h.x).support m d

/-- exact support value of the posed shape along `n` -/
def epa3H (k : Nat) (h : V3 Rat) (m : Iso3 Rat) (n : V3 Rat) : Rat :=
  if k = 0 then m.t.dot n + h.x * rabs ((m.rot ⟨1, 0, 0⟩).dot n) + h.y * rabs ((m.rot ⟨0, 1, 0⟩).dot n) + h.z * rabs ((m.rot ⟨0, 0, 1⟩).dot n)
  else m.t.dot n + h.x * rsqrt n.normSq
def epa3Outside (k : Nat) (h : V3 Rat) (m : Iso3 Rat) (p : V3 Rat) : Rat :=
  let l := m.invAct p
  if k = 0 then rmax 0 (rmax (rabs l.x - h.x) (rmax (rabs l.y - h.y) (rabs l.z - h.z))) else rmax 0 (rsqrt l.normSq - h.x)

def epa3Oracle (A : Epa3Args) (o : List String) : String :=
  let M := qiso3 A.pos12
  if !unitQ M then "skip non-unit-rotation" else
  let I : Iso3 Rat := ⟨0, 0, 0, 1, ⟨0, 0, 0⟩⟩
  let (h1, h2) := (q3 A.h1, q3 A.h2)
  let sh (k : Nat) (h : V3 Float) : XShape3 := .prim (if k = 0 then .cuboid h else .ball h.x)
  -- a ball whose centre lies exactly on an edge / vertex of the box (a rounded edge of the obstacle is centred at the origin)
  let onB (l h : V3 Rat) : Bool :=
    rabs l.x ≤ h.x && rabs l.y ≤ h.y && rabs l.z ≤ h.z &&
    ((if rabs l.x == h.x then 1 else 0) + (if rabs l.y == h.y then 1 else 0) + (if rabs l.z == h.z then 1 else 0) : Nat) ≥ 2
  let onEdge : Bool :=
    if A.k1 != 0 && A.k2 = 0 then onB (M.invAct ⟨0, 0, 0⟩) h2
    else if A.k1 = 0 && A.k2 != 0 then onB M.t h1 else false
  let pair := s!"{if A.k1 = 0 then "cuboid" else "ball"}/{if A.k2 = 0 then "cuboid" else "ball"}{if A.k1 != 0 && A.k2 != 0 && vmag M.t == 0 then "[concentric]" else ""}{if onEdge then "[round-cores-touching]" else ""}"
  let scale : Rat := 1 + vmag h1 + vmag h2 + vmag M.t
  let inShapes := A.pts.all fun (o1, o2) =>
    epa3Outside A.k1 h1 I (q3 o1) ≤ (1 / 1000000000) * scale && epa3Outside A.k2 h2 M (q3 o2) ≤ (1 / 1000000000) * scale
  if !inShapes then "skip simplex-not-from-the-shapes" else
  match geom3 (sh A.k1 A.h1) I, geom3 (sh A.k2 A.h2) M with
  | some G1, some G2 =>
    match sepG3 G1 G2 with
    | none => "skip no-exact-separation"
    | some sep =>
      let pen := -sep
      let dim := A.pts.length - 1
      match o with
      | ["none"] =>
        if pen > (1 / 1000000) * scale then s!"fail none-for-overlapping-shapes pair={pair} dim={dim} exact-depth={(toF pen)}"
        else "skip touching"
      | ["degenerate-simplex"] => "skip degenerate-simplex"
      | _ =>
      withOut (do let p1 ← pov3; let p2 ← pov3; let n ← pov3; pure (p1, p2, n)) o fun (p1, p2, n) =>
        let (P1, P2, N) := (q3 p1, q3 p2, q3 n)
        if dim = 0 then (if !close N.normSq 1 1000 then s!"fail normal-not-unit pair={pair} dim=0" else "pass")
        else if pen ≤ (1 / 1000000) * scale then "skip touching" else
        let wt : Rat := (1 / 1000000) * scale
        let d := (P1.sub P2).dot N
        let H := epa3H A.k1 h1 I N + epa3H A.k2 h2 M N.neg
        let rel : Rat := if A.k1 = 0 && A.k2 = 0 then 0 else (2 / 100)
        if N.normSq == 0 && d == 0 then s!"fail null-contact pair={pair} dim={dim}"
        else if !close N.normSq 1 1000 then s!"fail normal-not-unit pair={pair} n2={toF N.normSq}"
        else if epa3Outside A.k1 h1 I P1 > wt then s!"fail witness1-not-on-its-shape pair={pair} dim={dim} off={toF (epa3Outside A.k1 h1 I P1)}"
        else if epa3Outside A.k2 h2 M P2 > wt then s!"fail witness2-not-on-its-shape pair={pair} dim={dim} off={toF (epa3Outside A.k2 h2 M P2)}"
        else if d > H + wt then s!"fail depth-exceeds-the-overlap-along-the-normal pair={pair} depth={toF d} overlap={toF H}"
        else if H - d > wt + rel * pen then s!"fail witnesses-short-of-the-overlap-along-the-normal pair={pair} dim={dim} depth={toF d} overlap={toF H} exact={toF pen}"
        else if H > pen + wt + rel * pen then s!"fail normal-is-not-a-minimising-direction pair={pair} dim={dim} overlap-along-normal={toF H} exact={toF pen}"
        else "pass"
  | _, _ => "skip no-exact-geometry"

def fEpa3 : Epa3Result Float → String
  | .panic => "panic"
  | .fuel => "fuel"
  | .none => "none"
  | .some p1 p2 n _ => s!"{fv3 p1} {fv3 p2} {fv3 n}"


def handlerCore (fn : String) : Option Handler :=
  match fn with
  | "d_contact" | "d_distance" | "d_it" | "d_cp" | "q_contact" | "q_distance" | "q_it" | "q_cp"
  | "w_contact_ball_cp" | "x_contact" | "x_cp" | "x_distance" | "x_it" => C03.handler fn
  | "v_closed" => some {
      model := fun a => run (do
        let (s1, s2, m, margin, pred) ← pVClosed
        let routed := (detailsIntersectionTest s1 s2 m).isSome
        pure (fverdicts (verdicts s1 s2 m margin pred) routed)) a
      oracle := fun a o => match run pVClosed a with
        | some (s1, s2, m, margin, pred) =>
          if o = ["panic"] then (if q margin < 0 then "pass" else "fail panic-with-nonnegative-margin") else
          if o = ["noroute"] then "skip no-closed-form-route" else
          match run (do let a ← pbool; let b ← pbool; let c ← pbool; let d ← pbool; pure [a, b, c, d]) o with
          | none => "fail unparsable-output"
          | some vs =>
            if q margin < 0 || q pred < 0 then "skip negative-parameter" else
            let P := localPair s1 s2 m
            match P.sep with
            | none => "skip no-exact-separation (pair kind or non-unit input)"
            | some (sep, _) =>
              let t : Rat := (1 / 1000000) * (1 + P.scale)
              if sep > t then (if allAre vs false then "pass" else s!"fail verdicts-disagree separated-by={sep.toF} got={vs}")
              else if sep < -t then (if allAre vs true then "pass" else s!"fail verdicts-disagree overlapping-by={sep.toF} got={vs}")
              else "skip near-touching"
        | none => "skip bad-args" }
  | "v_dispatch" => some {
      model := fun _ => some "oracle-only"
      oracle := fun a o => match run pVDispatch a with
        | some (s1, m1, s2, m2, margin, pred) =>
          if o = ["unsupported"] then "skip unsupported-pair" else
          match o with
          | "panic" :: _ => "fail panic"
          | _ =>
          match run (do let a ← pbool; let b ← pbool; let c ← pbool; let d ← pbool; let x ← pfo; let y ← pfo; pure ([a, b, c, d], x, y)) o with
          | none => "fail unparsable-output"
          | some (vs, dist, cdist) =>
            if q margin < 0 || q pred < 0 then "skip negative-parameter" else
            if !(unitQ (qiso3 m1) && unitQ (qiso3 m2)) then "skip non-unit-rotation" else
            let pair := s!"pair={wkind s1}/{wkind s2}"
            let sz := wsize s1 + wsize s2
            let t : Rat := (1 / 1000000) * (1 + sz + vmag (q3 m1.t) + vmag (q3 m2.t))
            -- `distance == 0` is read up to the numeric tolerance (GJK returns ~1e-15 instead of 0 on some overlaps)
            let vs := match vs with
              | [a, _, c, d] => [a, FloatIO.isFinite dist && q dist ≤ t, c, d]
              | vs => vs
            -- referee: exact separation where a closed form exists, otherwise the implementation's own numbers
            let exact : Option Rat := match s1, s2 with
              | .cuboid h1, .cuboid h2 => satCuboids (q3 h1) (qiso3 m1) (q3 h2) (qiso3 m2)
              | _, _ => match s1.closed, s2.closed with
                | some a, some b => (worldPair a m1 b m2).sep.map (·.1)
                | _, _ => (XPair.sep ⟨s1, qiso3 m1, s2, qiso3 m2⟩).map (·.1)   -- ball against segment / triangle / capsule
            match exact with
            | some sep =>
              if sep > t then (if allAre vs false then "pass" else s!"fail verdicts-disagree {pair} exact-separation={sep.toF} got={vs}")
              else if sep < -t then (if allAre vs true then "pass" else s!"fail verdicts-disagree {pair} exact-overlap={sep.toF} got={vs} contact-dist={cdist}")
              else "skip near-touching"
            | none =>
              if !FloatIO.isFinite dist then "fail nonfinite-distance" else
              if q dist > t then (if allAre vs false then "pass" else s!"fail verdicts-disagree {pair} distance={dist} got={vs}")
              else if FloatIO.isFinite cdist && q cdist < -t then
                (if allAre vs true then "pass" else s!"fail verdicts-disagree {pair} contact-dist={cdist} got={vs}")
              else "skip near-touching"
        | none => "skip bad-args" }
  | "sat_normal" | "sat_edge" | "it_cc" => some {
      model := fun a => run (do
        let he1 ← pv3; let he2 ← pv3; let m ← piso3
        match fn with
        | "sat_normal" => let r := satNormalOneway he1 he2 m; pure s!"{ff r.1} {fv3 r.2}"
        | "sat_edge" => let r := satEdgeTwoway he1 he2 m; pure s!"{ff r.1} {fv3 r.2}"
        | _ => pure (fb (intersectionTestCuboidCuboid m he1 he2))) a
      oracle := fun a o => match run (do let he1 ← pv3; let he2 ← pv3; let m ← piso3; pure (he1, he2, m)) a with
        | some (he1, he2, m) =>
          let M := qiso3 m; let H1 := q3 he1; let H2 := q3 he2
          if !unitQ M then "skip non-unit-rotation" else
          let t : Rat := (1 / 1000000) * (1 + vmag H1 + vmag H2 + vmag M.t)
          match satCuboids H1 Iso3.identity H2 M with
          | none => "skip degenerate"
          | some ex =>
            if fn = "it_cc" then
              withOut pbool o fun r =>
                if ex > t && r then s!"fail intersecting-but-separated-by {ex.toF} (exact 15-axis SAT)"
                else if ex < -t && !r then s!"fail disjoint-but-overlapping-by {ex.toF} (exact 15-axis SAT)"
                else if rabs ex ≤ t then "skip near-touching" else "pass"
            else
              withOut (do let s ← pfo; let d ← pov3; pure (s, d)) o fun (s, d) =>
                if !(FloatIO.isFinite s && finite3 d) then "fail nonfinite-output" else
                let D := q3 d
                if D.normSq == 0 then (if fn = "sat_edge" then "skip no-edge-axis" else "fail zero-axis") else
                -- the reported value is the separation along the reported (unit) axis, and never exceeds the best axis
                let a1 : List (V3 Rat) := [⟨1, 0, 0⟩, ⟨0, 1, 0⟩, ⟨0, 0, 1⟩]
                let b1 : List (V3 Rat) := a1.map M.rot
                let ra := ((a1.zip [H1.x, H1.y, H1.z]).map fun (u, h) => h * rabs (u.dot D)).foldl (· + ·) 0
                let rb := ((b1.zip [H2.x, H2.y, H2.z]).map fun (u, h) => h * rabs (u.dot D)).foldl (· + ·) 0
                let along := M.t.dot D - ra - rb
                if !close D.normSq 1 1000 then "fail axis-not-unit"
                else if rabs (along - q s) > t then s!"fail separation-along-reported-axis reported={s} exact={along.toF}"
                else if q s > ex + t then s!"fail separation-exceeds-exact-SAT reported={s} exact={ex.toF}"
                else "pass"
        | none => "skip bad-args" }
  | "k_contact" => some {
      model := fun _ => some "oracle-only"
      oracle := fun a o => match run pKArgs a with
        | some (s1, m1, s2, m2, pred) =>
          let tag := s!"pair={wkind s1}/{wkind s2}"
          match o with
          | "panic" :: _ => s!"fail panic {tag}"
          | ["unsupported"] => "skip unsupported-pair"
          | ["none"] => "skip no-contact-within-prediction"
          | _ =>
            let (res, memb) := splitAt o
            match run pcontactOut res with
            | some (some c) =>
              if !finiteContact c then s!"fail nonfinite-output {tag}" else
              if !(unitQ (qiso3 m1) && unitQ (qiso3 m2)) then "skip non-unit-rotation" else
              judgeSelf tag (wsize s1 + wsize s2) (vmag (q3 m1.t) + vmag (q3 m2.t)) (q pred) (qcontact c) memb
            | _ => "fail unparsable-output"
        | none => "skip bad-args" }
  | "k2_contact" => some {
      model := fun _ => some "oracle-only"
      oracle := fun a o => match run (do let a ← pshape2; let m1 ← piso2; let b ← pshape2; let m2 ← piso2; let p ← pf; pure (a, m1, b, m2, p)) a with
        | some (s1, m1, s2, m2, pred) =>
          let tag := s!"pair={s1.kind}/{s2.kind}"
          match o with
          | "panic" :: _ => s!"fail panic {tag}"
          | ["unsupported"] => "skip unsupported-pair"
          | ["none"] => "skip no-contact-within-prediction"
          | _ =>
            let (res, memb) := splitAt o
            match run pcontactOut2 res with
            | some (some c) =>
              if !finiteContact2 c then s!"fail nonfinite-output {tag}" else
              if !(unitC (qiso2 m1) && unitC (qiso2 m2)) then "skip non-unit-rotation" else
              judgeSelf tag (s1.size + s2.size) (vmag2 (q2 m1.t) + vmag2 (q2 m2.t)) (q pred) (embedC (qcontact2 c)) memb
            | _ => "fail unparsable-output"
        | none => "skip bad-args" }
  | "e2_contact" => some {
      model := fun _ => some "oracle-only"
      oracle := fun a o => match run (do let a ← pxshape2; let m1 ← piso2; let b ← pxshape2; let m2 ← piso2; let p ← pf; pure (a, m1, b, m2, p)) a with
        | some (s1, m1, s2, m2, pred) =>
          let tag := s!"pair={s1.kind}/{s2.kind}"
          match o with
          | "panic" :: _ => s!"fail panic {tag}"
          | ["unsupported"] => "skip unsupported-pair"
          | _ =>
            if s1.isComposite || s2.isComposite then "skip composite" else
            if !(unitC (qiso2 m1) && unitC (qiso2 m2)) then "skip non-unit-rotation" else
            if q pred < 0 then "skip negative-parameter" else
            let (res, memb) := splitAt o
            match run pcontactOut2 res, geom2 s1 (qiso2 m1), geom2 s2 (qiso2 m2) with
            | some out, some G1, some G2 =>
              (match sepG2 G1 G2 with
              | none => "skip no-exact-separation"
              | some sep =>
                if (out.map finiteContact2).getD true == false then s!"fail nonfinite-output {tag}" else
                let sz := s1.size + s2.size; let S := vmag2 (q2 m1.t) + vmag2 (q2 m2.t)
                let t : Rat := (1 / 1000000) * (1 + sz + S + rabs sep)
                let over (n : V3 Rat) : Option Rat := match G1, G2 with
                  | .conv A, .conv B => some (overlapAlong2 A B ⟨n.x, n.y⟩)
                  | _, _ => none
                let tag := match G1, G2 with
                  | .conv A, .conv B => if roundTouching2 A B then tag ++ "[round-cores-touching]" else if A.r + B.r > 0 then tag ++ "[round]" else tag
                  | _, _ => tag
                judgeExactContact tag sep t (q pred) over (fun c => judgeSelf tag sz S (q pred) c memb)
                  (out.map fun c => embedC (qcontact2 c)))
            | none, _, _ => "fail unparsable-output"
            | _, _, _ => "skip no-exact-geometry"
        | none => "skip bad-args" }
  | "e_contact" => some {
      model := fun _ => some "oracle-only"
      oracle := fun a o => match run (do let a ← pxshape3; let m1 ← piso3; let b ← pxshape3; let m2 ← piso3; let p ← pf; pure (a, m1, b, m2, p)) a with
        | some (s1, m1, s2, m2, pred) =>
          let tag := s!"pair={s1.kind}/{s2.kind}" ++ (if symmetricParallelBoxes s1 s2 (qiso3 m1) (qiso3 m2) then "[symmetric-parallel-boxes]" else "")
          match o with
          | "panic" :: _ => s!"fail panic {tag}"
          | ["unsupported"] => "skip unsupported-pair"
          | _ =>
            if s1.isComposite || s2.isComposite then "skip composite" else
            if !(unitQ (qiso3 m1) && unitQ (qiso3 m2)) then "skip non-unit-rotation" else
            if q pred < 0 then "skip negative-parameter" else
            let (res, memb) := splitAt o
            match run pcontactOut res, geom3 s1 (qiso3 m1), geom3 s2 (qiso3 m2) with
            | some out, some G1, some G2 =>
              (match sepG3 G1 G2 with
              | none => "skip no-exact-separation"
              | some sep =>
                if (out.map finiteContact).getD true == false then s!"fail nonfinite-output {tag}" else
                let sz := s1.size + s2.size; let S := vmag (q3 m1.t) + vmag (q3 m2.t)
                let t : Rat := (1 / 1000000) * (1 + sz + S + rabs sep)
                let over (n : V3 Rat) : Option Rat := match G1, G2 with
                  | .conv A _, .conv B _ => some (overlapAlong3 A B n)
                  | _, _ => none
                let tag := match G1, G2 with
                  | .conv A Af, .conv B Bf => if roundTouching3 A Af B Bf then tag ++ "[round-cores-touching]" else if A.r + B.r > 0 then tag ++ "[round]" else tag
                  | _, _ => tag
                let tag := match G1, G2 with
                  | .conv A _, .conv B _ => if centreOnVertex3 A B then tag ++ "[centre-on-vertex]" else tag
                  | _, _ => tag
                judgeExactContact tag sep t (q pred) over (fun c => judgeSelf tag sz S (q pred) c memb)
                  (out.map qcontact))
            | none, _, _ => "fail unparsable-output"
            | _, _, _ => "skip no-exact-geometry"
        | none => "skip bad-args" }
  | "v2_comp" => some {
      model := fun _ => some "oracle-only"
      oracle := fun a o => match run (do let a ← pxshape2; let m1 ← piso2; let b ← pxshape2; let m2 ← piso2; let mg ← pf; let p ← pf; pure (a, m1, b, m2, mg, p)) a with
        | some (s1, m1, s2, m2, margin, pred) =>
          let tag := s!"pair={s1.kind}/{s2.kind} parts={s1.nparts}/{s2.nparts}"
          if q margin < 0 || q pred < 0 then "skip negative-parameter" else
          if !(unitC (qiso2 m1) && unitC (qiso2 m2)) then "skip non-unit-rotation" else
          let sz := s1.size + s2.size; let S := vmag2 (q2 m1.t) + vmag2 (q2 m2.t)
          let t : Rat := (1 / 1000000) * (1 + sz + S)
          let sep : Option Rat := match geom2 s1 (qiso2 m1), geom2 s2 (qiso2 m2) with
            | some G1, some G2 => sepG2 G1 G2
            | _, _ => none
          judgeBoth sep tag t (q margin) (q pred) o
        | none => "skip bad-args" }
  | "v_comp" => some {
      model := fun _ => some "oracle-only"
      oracle := fun a o => match run (do let a ← pxshape3; let m1 ← piso3; let b ← pxshape3; let m2 ← piso3; let mg ← pf; let p ← pf; pure (a, m1, b, m2, mg, p)) a with
        | some (s1, m1, s2, m2, margin, pred) =>
          let tag := s!"pair={s1.kind}/{s2.kind} parts={s1.nparts}/{s2.nparts}"
          if q margin < 0 || q pred < 0 then "skip negative-parameter" else
          if !(unitQ (qiso3 m1) && unitQ (qiso3 m2)) then "skip non-unit-rotation" else
          let sz := s1.size + s2.size; let S := vmag (q3 m1.t) + vmag (q3 m2.t)
          let t : Rat := (1 / 1000000) * (1 + sz + S)
          -- a TriMesh with flags is not a plain union of triangles for every query (ORIENTED: solid for point queries)
          let plain (s : XShape3) : Bool := match s with
            | .trimesh f _ _ => f == 0
            | _ => true
          let sep : Option Rat :=
            if !(plain s1 && plain s2) then none else
            match geom3 s1 (qiso3 m1), geom3 s2 (qiso3 m2) with
            | some G1, some G2 => sepG3 G1 G2
            | _, _ => none
          judgeBoth sep tag t (q margin) (q pred) o
        | none => "skip bad-args" }
  | "rect2_dist" => some {
      -- args: he1 he2 t pos1 ; output: the contact distance (prediction 1e6)
      model := fun a => run (do
        let he1 ← pv2; let he2 ← pv2; let t ← pv2; let _ ← piso2
        pure (ff (rectSignedDist he1 he2 t))) a
      oracle := fun a o => match run (do let he1 ← pv2; let he2 ← pv2; let t ← pv2; let m ← piso2; pure (he1, he2, t, m)) a with
        | some (he1, he2, t, m1) =>
          let M1 := qiso2 m1
          if !unitC M1 then "skip non-unit-rotation" else
          withOut pfo o fun d =>
            if !FloatIO.isFinite d then "fail nonfinite-output" else
            -- independent referee: the generic rounded-polygon separation of `Exact.lean` on the posed rectangles
            let M2 : Iso2 Rat := ⟨M1.re, M1.im, M1.act (q2 t)⟩
            match geom2 (.prim (.cuboid he1)) M1, geom2 (.prim (.cuboid he2)) M2 with
            | some G1, some G2 =>
              (match sepG2 G1 G2 with
              | some sep =>
                let tl : Rat := (1 / 1000000) * (1 + vmag2 (q2 he1) + vmag2 (q2 he2) + vmag2 (q2 t) + vmag2 M1.t)
                if rabs (q d - sep) ≤ tl then "pass"
                else if sep > 0 then s!"fail dist-is-not-the-separation dist={d} exact-separation={sep.toF}"
                else s!"fail depth-is-not-the-minimum-translation dist={d} exact={sep.toF}"
              | none => "skip no-exact-separation")
            | _, _ => "skip no-exact-geometry"
        | none => "skip bad-args" }
  | "epa2" => some {
      model := fun a => run (do
        let A ← pEpa2
        let pts := A.pts.map fun (o1, o2) => CSOPoint2.new o1 o2
        pure (fEpa2 (epa2ClosestPoints (epaSupp1 A.k1 A.a1 A.b1) (epaSupp2 A.k2 A.a2 A.b2 A.pos12) 128 pts))) a
      oracle := fun a o => match run pEpa2 a with
        | some A => epa2Oracle A o
        | none => "skip bad-args" }
  | "epa2c" => some {
      model := fun a => run (do
        let A ← pEpa2
        let pts := A.pts.map fun (o1, o2) => CSOPoint2.new o1 o2
        pure (match contactFromEpa2 A.pos12 (epaSupp1 A.k1 A.a1 A.b1) (epaSupp2 A.k2 A.a2 A.b2 A.pos12) 128 pts with
          | some (some c) => s!"some {fv2 c.point1} {fv2 c.point2} {fv2 c.normal1} {fv2 c.normal2} {ff c.dist}"
          | some none => "none"
          | none => "panic")) a
      oracle := fun a o => match run pEpa2 a with
        | some A =>
          (match o with
          | ["none"] => epa2Oracle A o
          | "some" :: rest =>
            withOut (do let p1 ← pov2; let p2 ← pov2; let n1 ← pov2; let n2 ← pov2; let d ← pfo; pure (p1, p2, n1, n2, d)) rest
              fun (p1, p2, n1, n2, d) =>
                let M := qiso2 A.pos12
                let (P1, P2, N1, N2, D) := (q2 p1, q2 p2, q2 n1, q2 n2, q d)
                let scale : Rat := 1 + q A.a1 + q A.b1 + q A.a2 + q A.b2 + vmag2 M.t
                let P2w := M.act P2
                let t9 : Rat := (1 / 1000000000) * scale
                if A.pts.length = 1 then epa2Oracle A [ff p1.x, ff p1.y, ff (A.pos12.act p2).x, ff (A.pos12.act p2).y, ff n1.x, ff n1.y]
                else if vmag2 ((M.rot N2).add N1) > t9 then "fail normal2-is-not-minus-normal1-in-the-frame-of-shape-1"
                else if rabs (D - (P2w.sub P1).dot N1) > t9 then "fail dist-is-not-(p2-p1).n1"
                else epa2Oracle A [ff p1.x, ff p1.y, ff (A.pos12.act p2).x, ff (A.pos12.act p2).y, ff n1.x, ff n1.y]
          | _ => "fail unparsable-output")
        | none => "skip bad-args" }
  | "epa3" => some {
      model := fun a => run (do
        let A ← pEpa3
        let pts := A.pts.map fun (o1, o2) => CSOPoint3.new o1 o2
        pure (fEpa3 (epa3ClosestPoints (epa3Supp1 A.k1 A.h1) (epa3Supp2 A.k2 A.h2 A.pos12) 4096 pts))) a
      oracle := fun a o => match run pEpa3 a with
        | some A => epa3Oracle A o
        | none => "skip bad-args" }
  | "epa3c" => some {
      model := fun a => run (do
        let A ← pEpa3
        let pts := A.pts.map fun (o1, o2) => CSOPoint3.new o1 o2
        pure (match contactFromEpa3 A.pos12 (epa3Supp1 A.k1 A.h1) (epa3Supp2 A.k2 A.h2 A.pos12) 4096 pts with
          | some (some c) => s!"some {fv3 c.point1} {fv3 c.point2} {fv3 c.normal1} {fv3 c.normal2} {ff c.dist}"
          | some none => "none"
          | none => "panic")) a
      oracle := fun a o => match run pEpa3 a with
        | some A =>
          (match o with
          | ["none"] => epa3Oracle A o
          | "some" :: rest =>
            withOut (do let p1 ← pov3; let p2 ← pov3; let n1 ← pov3; let n2 ← pov3; let d ← pfo; pure (p1, p2, n1, n2, d)) rest
              fun (p1, p2, n1, n2, d) =>
                let M := qiso3 A.pos12
                let (P1, P2, N1, N2, D) := (q3 p1, q3 p2, q3 n1, q3 n2, q d)
                let scale : Rat := 1 + vmag (q3 A.h1) + vmag (q3 A.h2) + vmag M.t
                let P2w := M.act P2
                let t9 : Rat := (1 / 1000000000) * scale
                let p2w := A.pos12.act p2
                let inner := epa3Oracle A [ff p1.x, ff p1.y, ff p1.z, ff p2w.x, ff p2w.y, ff p2w.z, ff n1.x, ff n1.y, ff n1.z]
                if A.pts.length = 1 then inner
                else if vmag ((M.rot N2).add N1) > t9 then "fail normal2-is-not-minus-normal1-in-the-frame-of-shape-1"
                else if rabs (D - (P2w.sub P1).dot N1) > t9 then "fail dist-is-not-(p2-p1).n1"
                else inner
          | _ => "fail unparsable-output")
        | none => "skip bad-args" }
  | _ => none

/-! ## follow-up 5: `csm2` / `csm3` — the complete `details::contact_support_map_support_map` (own GJK, EPA and assembly) on
Cuboid / Ball support maps.  Model: `Model.contactSmSm2/3` (C01 GJK model + C02 EPA model, Csm.lean), bit-exact.
Oracle (independent of both models): the exact signed separation of `Exact.lean` decides `None` iff beyond `prediction`,
`dist` = separation distance when apart, `dist` = -(minimum separating translation) when overlapping, `|dist|` ≤ overlap along
`normal1`; then the record itself: unit normals, `normal2 = -normal1` in the frame of shape 1,
`dist = (pos12·point2 - point1)·normal1`, `dist ≤ prediction`, witnesses on their own shapes (exact membership excess). -/

/-- self-consistency of a contact expressed in the frame of shape 1, with exact membership excesses `m1 m2` -/
def judgeSelfExact (tag : String) (sz S pred : Rat) (c : Contact3 Rat) (m1 m2 : Rat) : String :=
  let t6 : Rat := (1 / 1000000) * (1 + sz) + tol * S
  let wtol : Rat := (1 / 1000000) * (1 + sz + S + rabs c.dist)
  if c.normal1.normSq == 0 && c.dist == 0 then s!"fail null-contact {tag} (zero normals, dist 0: EPA gave up)"
  else if !close c.normal1.normSq 1 1000 then s!"fail normal1-not-unit {tag}"
  else if !close c.normal2.normSq 1 1000 then s!"fail normal2-not-unit {tag}"
  else if !closeV c.normal2 c.normal1.neg 1000 then s!"fail normal2-is-not-minus-normal1-in-the-frame-of-shape-1 {tag}"
  else if rabs ((c.point2.sub c.point1).dot c.normal1 - c.dist) > t6 + (1 / 1000000) * rabs c.dist then
    s!"fail dist-is-not-(p2-p1).n1 {tag} dist={c.dist.toF} (p2-p1).n1={((c.point2.sub c.point1).dot c.normal1).toF}"
  else if c.dist > pred + t6 then s!"fail dist-beyond-prediction {tag}"
  else
    let touch := if c.dist == 0 then " exactly-touching" else ""
    if m1 > wtol then s!"fail witness1-not-on-its-shape {tag}{touch} off-by={m1.toF}"
    else if m2 > wtol then s!"fail witness2-not-on-its-shape {tag}{touch} off-by={m2.toF}"
    else "pass"

def csm2Oracle (k1 : Nat) (fa1 fb1 : Float) (k2 : Nat) (fa2 fb2 : Float) (pos12 : Iso2 Float) (pred : Float) (o : List String) : String :=
  let M := qiso2 pos12
  if !unitC M then "skip non-unit-rotation" else
  if q pred < 0 then "skip negative-parameter" else
  let I : Iso2 Rat := ⟨1, 0, ⟨0, 0⟩⟩
  let (a1, b1, a2, b2) := (q fa1, q fb1, q fa2, q fb2)
  let sh (k : Nat) (a b : Float) : XShape2 := .prim (if k = 0 then .cuboid ⟨a, b⟩ else .ball a)
  let onCorner : Bool :=
    if k1 != 0 && k2 = 0 then (let l := M.invAct ⟨0, 0⟩; rabs l.x == a2 && rabs l.y == b2)
    else if k1 = 0 && k2 != 0 then (rabs M.t.x == a1 && rabs M.t.y == b1) else false
  let tag := s!"pair={if k1 = 0 then "cuboid" else "ball"}/{if k2 = 0 then "cuboid" else "ball"}{if k1 != 0 && k2 != 0 && vmag2 M.t == 0 then "[concentric]" else if onCorner then "[round-cores-touching]" else if k1 != 0 || k2 != 0 then "[round]" else ""}"
  match o with
  | "panic" :: _ => s!"fail panic {tag}"
  | _ =>
  match run pcontactOut2 o, geom2 (sh k1 fa1 fb1) I, geom2 (sh k2 fa2 fb2) M with
  | some out, some G1, some G2 =>
    (match sepG2 G1 G2 with
    | none => "skip no-exact-separation"
    | some sep =>
      if (out.map finiteContact2).getD true == false then s!"fail nonfinite-output {tag}" else
      let sz := a1 + b1 + a2 + b2; let S := vmag2 M.t
      let t : Rat := (1 / 1000000) * (1 + sz + S + rabs sep)
      let over (n : V3 Rat) : Option Rat := match G1, G2 with
        | .conv A, .conv B => some (overlapAlong2 A B ⟨n.x, n.y⟩)
        | _, _ => none
      let self (c : Contact3 Rat) : String :=
        judgeSelfExact tag sz S (q pred) c (epaOutside k1 a1 b1 I ⟨c.point1.x, c.point1.y⟩) (epaOutside k2 a2 b2 M ⟨c.point2.x, c.point2.y⟩)
      -- the contact in the frame of shape 1: point2 and normal2 are local to shape 2
      let inFrame1 (c : Contact2 Rat) : Contact3 Rat := embedC ⟨c.point1, M.act c.point2, c.normal1, M.rot c.normal2, c.dist⟩
      -- `[round]` marks the accuracy class of GJK / EPA on a curved obstacle (value within 0.5 % of the exact one); a coarser
      -- error on a round shape is tagged `[round-coarse]` and is not covered by any known line
      let tag := match out with
        | some c => if rabs (q c.dist - sep) > (5 / 1000) * rabs sep then tag.replace "[round]" "[round-coarse]" else tag
        | none => tag
      judgeExactContact tag sep t (q pred) over self (out.map fun c => inFrame1 (qcontact2 c)))
  | none, _, _ => "fail unparsable-output"
  | _, _, _ => "skip no-exact-geometry"

def csm3Oracle (k1 : Nat) (fh1 : V3 Float) (k2 : Nat) (fh2 : V3 Float) (pos12 : Iso3 Float) (pred : Float) (o : List String) : String :=
  let M := qiso3 pos12
  if !unitQ M then "skip non-unit-rotation" else
  if q pred < 0 then "skip negative-parameter" else
  let I : Iso3 Rat := ⟨0, 0, 0, 1, ⟨0, 0, 0⟩⟩
  let (h1, h2) := (q3 fh1, q3 fh2)
  let sh (k : Nat) (h : V3 Float) : XShape3 := .prim (if k = 0 then .cuboid h else .ball h.x)
  let onB (l h : V3 Rat) : Bool :=
    rabs l.x ≤ h.x && rabs l.y ≤ h.y && rabs l.z ≤ h.z &&
    ((if rabs l.x == h.x then 1 else 0) + (if rabs l.y == h.y then 1 else 0) + (if rabs l.z == h.z then 1 else 0) : Nat) ≥ 2
  let onEdge : Bool :=
    if k1 != 0 && k2 = 0 then onB (M.invAct ⟨0, 0, 0⟩) h2
    else if k1 = 0 && k2 != 0 then onB M.t h1 else false
  let tag := s!"pair={if k1 = 0 then "cuboid" else "ball"}/{if k2 = 0 then "cuboid" else "ball"}{if k1 != 0 && k2 != 0 && vmag M.t == 0 then "[concentric]" else if onEdge then "[round-cores-touching]" else if k1 != 0 || k2 != 0 then "[round]" else ""}"
  let tag := tag ++ (if k1 = 0 && k2 = 0 && symmetricParallelBoxes (sh k1 fh1) (sh k2 fh2) I M then "[symmetric-parallel-boxes]" else "")
  match o with
  | "panic" :: _ => s!"fail panic {tag}"
  | _ =>
  match run pcontactOut o, geom3 (sh k1 fh1) I, geom3 (sh k2 fh2) M with
  | some out, some G1, some G2 =>
    (match sepG3 G1 G2 with
    | none => "skip no-exact-separation"
    | some sep =>
      if (out.map finiteContact).getD true == false then s!"fail nonfinite-output {tag}" else
      let sz := (if k1 = 0 then vmag h1 else h1.x) + (if k2 = 0 then vmag h2 else h2.x); let S := vmag M.t
      let t : Rat := (1 / 1000000) * (1 + sz + S + rabs sep)
      let over (n : V3 Rat) : Option Rat := match G1, G2 with
        | .conv A _, .conv B _ => some (overlapAlong3 A B n)
        | _, _ => none
      let tag := match G1, G2 with
        | .conv A _, .conv B _ => if centreOnVertex3 A B then tag ++ "[centre-on-vertex]" else tag
        | _, _ => tag
      let self (c : Contact3 Rat) : String :=
        judgeSelfExact tag sz S (q pred) c (epa3Outside k1 h1 I c.point1) (epa3Outside k2 h2 M c.point2)
      let inFrame1 (c : Contact3 Rat) : Contact3 Rat := ⟨c.point1, M.act c.point2, c.normal1, M.rot c.normal2, c.dist⟩
      let tag := match out with
        | some c => if rabs (q c.dist - sep) > (5 / 1000) * rabs sep then tag.replace "[round]" "[round-coarse]" else tag
        | none => tag
      judgeExactContact tag sep t (q pred) over self (out.map fun c => inFrame1 (qcontact c)))
  | none, _, _ => "fail unparsable-output"
  | _, _, _ => "skip no-exact-geometry"

def fContact2 : Option (Option (Contact2 Float)) → String
  | some (some c) => s!"some {fv2 c.point1} {fv2 c.point2} {fv2 c.normal1} {fv2 c.normal2} {ff c.dist}"
  | some none => "none"
  | none => "panic"
def fContact3 : Option (Option (Contact3 Float)) → String
  | some (some c) => s!"some {fv3 c.point1} {fv3 c.point2} {fv3 c.normal1} {fv3 c.normal2} {ff c.dist}"
  | some none => "none"
  | none => "panic"

def pCsm2 : P (Nat × Float × Float × Nat × Float × Float × Iso2 Float × Float) := do
  let k1 ← pnat; let a1 ← pf; let b1 ← pf; let k2 ← pnat; let a2 ← pf; let b2 ← pf; let m ← piso2; let p ← pf
  pure (k1, a1, b1, k2, a2, b2, m, p)
def pCsm3 : P (Nat × V3 Float × Nat × V3 Float × Iso3 Float × Float) := do
  let k1 ← pnat; let h1 ← pv3; let k2 ← pnat; let h2 ← pv3; let m ← piso3; let p ← pf
  pure (k1, h1, k2, h2, m, p)

def handlerCsm (fn : String) : Option Handler :=
  match fn with
  | "csm2" => some {
      model := fun a => run (do
        let (k1, a1, b1, k2, a2, b2, m, p) ← pCsm2
        pure (fContact2 (contactSmSm2 m (epaSupp1 k1 a1 b1) (epaSupp2 k2 a2 b2 m) p 128))) a
      oracle := fun a o => match run pCsm2 a with
        | some (k1, a1, b1, k2, a2, b2, m, p) => csm2Oracle k1 a1 b1 k2 a2 b2 m p o
        | none => "skip bad-args" }
  | "csm3" => some {
      model := fun a => run (do
        let (k1, h1, k2, h2, m, p) ← pCsm3
        pure (fContact3 (contactSmSm3 m (epa3Supp1 k1 h1) (epa3Supp2 k2 h2 m) p 4096))) a
      oracle := fun a o => match run pCsm3 a with
        | some (k1, h1, k2, h2, m, p) => csm3Oracle k1 h1 k2 h2 m p o
        | none => "skip bad-args" }
  | _ => none

/-- every C02 oracle starts with the totality clause (`fail non-finite-output …`, see `C03.guardFinite`) -/
def handler (fn : String) : Option Handler := ((handlerCore fn).orElse fun _ => handlerCsm fn).map (guardFinite fn)

end C02
