import ParryModel.Field
import ParryModel.C01.TheoremsGjk
import ParryModel.C02.Csm
import ParryModel.C02.Theorems3
import ParryModel.C02.Theorems4
set_option linter.style.haveILetI false
set_option linter.unusedSimpArgs false
set_option linter.unusedVariables false
/-!
# C02 follow-up 5: the COMPLETE `contact_support_map_support_map` (GJK + EPA + assembly), 2-D and 3-D

`Model.contactSmSm2/3` (Csm.lean; bit-exact correspondence legs `csm2`, `csm3`) is the whole function: start direction, `reset`,
`gjk::closest_points(.., prediction, true, ..)` (the C01 GJK model), EPA on the simplex GJK stopped on, assembly of the `Contact`.
Theorems (any ordered field, any two point sets, any support functions returning points of them):

* `contactSmSm2_cases` / `contactSmSm3_cases` — the three arms: `ClosestPoints` of GJK, `NoIntersection` of GJK, or EPA on GJK's simplex;
* `contactOfClosest2_consistent` / `…3…` — the `ClosestPoints` arm assembles a record with `dist = (pos12·point2 - point1)·normal1`
  and `normal2 = -normal1` in the frame of shape 1;
* `gjkClosest2_dir_unit` / `gjkClosest3_dir_unit` — the direction GJK returns with `ClosestPoints` is a UNIT vector (loop invariant:
  the "previous direction" of the upper-bound-inconsistency exit is the normalised direction of an earlier iteration);
* `gjkSimplex2_from_shapes` — every live vertex of the simplex GJK leaves behind is `from_shapes(d)` for some direction `d`
  (loop invariant through `add_point` and the swaps of `project_origin_and_reduce`), so EPA's precondition holds;
* `contactSmSm2_consistent` — EVERY `Some(contact)` the complete 2-D function returns is self-consistent
  (`dist = (pos12·point2 - point1)·normal1`, `normal2 = -normal1` in frame 1, unit normal — or zero on EPA's degenerate edge), and on
  the EPA arm `-dist ≤` the overlap along `normal1`;
* `contactSmSm2_none_sound` / `contactSmSm3_none_sound` — `None` is returned only when the shapes are MORE than `prediction` apart
  (every point of the configuration-space obstacle is farther than `prediction` from the origin), or through one of the two
  documented give-ups (GJK's 100-iteration fallback `NoIntersection(x_axis)`, EPA's `None`);
* `gjkBody2_closest_disjoint_partial` / `gjkBody3_…` — a `ClosestPoints` answer through the precision exit or the full-simplex exit
  certifies that the origin is not in the configuration-space obstacle (the shapes are disjoint: verdict `dist > 0`); the two other
  `ClosestPoints` exits carry no certificate (stated gap);
* `faceId_clamped_key_accepted` / `faceId_clamped_key_exact` — in support of `fixes/C02-epa3-new-face-noise.diff`.
-/
namespace C02
open Model Model.Gjk C03 C01

/-! ## generic part (any `Num`) -/
section generic
variable {K : Type} [Num K]

/-- the three arms of `contact_support_map_support_map` (2-D) -/
theorem contactSmSm2_cases (pos12 : Iso2 K) (supp1 supp2 : V2 K → V2 K) (pred : K) (fuel : Nat) (r : Option (Contact2 K))
    (h : contactSmSm2 pos12 supp1 supp2 pred fuel = some r) :
    (∃ p1 p2 n, (closestPointsSmSmWithParams2 (fromShapes2 supp1 supp2) pos12.t pred Vs2.new (some pos12.t)).1 = .closest p1 p2 n ∧
        r = some (contactOfClosest2 pos12 p1 p2 n)) ∨
    (∃ d, (closestPointsSmSmWithParams2 (fromShapes2 supp1 supp2) pos12.t pred Vs2.new (some pos12.t)).1 = .noIntersection d ∧ r = none) ∨
    ((closestPointsSmSmWithParams2 (fromShapes2 supp1 supp2) pos12.t pred Vs2.new (some pos12.t)).1 = .intersection ∧
      contactFromEpa2 pos12 supp1 supp2 fuel
        (vs2Points (closestPointsSmSmWithParams2 (fromShapes2 supp1 supp2) pos12.t pred Vs2.new (some pos12.t)).2) = some r) := by
  unfold contactSmSm2 at h
  dsimp only at h
  rcases hg : closestPointsSmSmWithParams2 (fromShapes2 supp1 supp2) pos12.t pred Vs2.new (some pos12.t) with ⟨res, s⟩
  rw [hg] at h
  cases res with
  | intersection => exact Or.inr (Or.inr ⟨rfl, h⟩)
  | closest p1 p2 n =>
    simp only [Option.some.injEq] at h
    exact Or.inl ⟨p1, p2, n, rfl, h.symm⟩
  | proximity d => simp at h
  | noIntersection d =>
    simp only [Option.some.injEq] at h
    exact Or.inr (Or.inl ⟨d, rfl, h.symm⟩)
  | panic => simp at h

/-- the three arms of `contact_support_map_support_map` (3-D) -/
theorem contactSmSm3_cases (pos12 : Iso3 K) (supp1 supp2 : V3 K → V3 K) (pred : K) (fuel : Nat) (r : Option (Contact3 K))
    (h : contactSmSm3 pos12 supp1 supp2 pred fuel = some r) :
    (∃ p1 p2 n, (closestPointsSmSmWithParams3 (fromShapes3 supp1 supp2) pos12.t pred Vs3.new (some pos12.t)).1 = .closest p1 p2 n ∧
        r = some (contactOfClosest3 pos12 p1 p2 n)) ∨
    (∃ d, (closestPointsSmSmWithParams3 (fromShapes3 supp1 supp2) pos12.t pred Vs3.new (some pos12.t)).1 = .noIntersection d ∧ r = none) ∨
    ((closestPointsSmSmWithParams3 (fromShapes3 supp1 supp2) pos12.t pred Vs3.new (some pos12.t)).1 = .intersection ∧
      contactFromEpa3 pos12 supp1 supp2 fuel
        (vs3Points (closestPointsSmSmWithParams3 (fromShapes3 supp1 supp2) pos12.t pred Vs3.new (some pos12.t)).2) = some r) := by
  unfold contactSmSm3 at h
  dsimp only at h
  rcases hg : closestPointsSmSmWithParams3 (fromShapes3 supp1 supp2) pos12.t pred Vs3.new (some pos12.t) with ⟨res, s⟩
  rw [hg] at h
  cases res with
  | intersection => exact Or.inr (Or.inr ⟨rfl, h⟩)
  | closest p1 p2 n =>
    simp only [Option.some.injEq] at h
    exact Or.inl ⟨p1, p2, n, rfl, h.symm⟩
  | proximity d => simp at h
  | noIntersection d =>
    simp only [Option.some.injEq] at h
    exact Or.inr (Or.inl ⟨d, rfl, h.symm⟩)
  | panic => simp at h

/-- a continuing pass of the 2-D loop body hands on the direction it normalised itself -/
private theorem gjkBody2_next_dir (fs : V2 K → CSO2 K) (maxDist : Option K) (exact : Bool) (s s' : Vs2 K)
    (proj oldDir pr d : V2 K) (maxBound : Option K) (mb : K) :
    gjkBody2 fs maxDist exact s proj oldDir maxBound = .next s' pr d mb →
    ∃ s1, tryNewAndGet2 proj.neg epsTol = some (d, mb) ∧ s.addPoint (fs d) = some (s1, true) ∧
      s1.projectOriginAndReduce = some (s', pr) := by
  intro h
  unfold gjkBody2 at h
  rcases ht : tryNewAndGet2 proj.neg epsTol with _ | ⟨dir, m⟩
  · rw [ht] at h; simp at h
  · rw [ht] at h
    dsimp only at h
    split_ifs at h with c1 c2 c3 c4 c5 c6
    all_goals
      rcases ha : s.addPoint (fs dir) with _ | ⟨s1, b⟩
      · rw [ha] at h; simp at h
      · rw [ha] at h
        cases b with
        | false => simp at h
        | true =>
          dsimp only at h
          rcases hp : s1.projectOriginAndReduce with _ | ⟨s2, pr2⟩
          · rw [hp] at h; simp at h
          · rw [hp] at h
            dsimp only at h
            split_ifs at h
            simp only [GjkStep2.next.injEq] at h
            obtain ⟨e1, e2, e3, e4⟩ := h
            subst e1 e2 e3 e4
            exact ⟨s1, rfl, ha, hp⟩

/-- a continuing pass of the 3-D loop body hands on the direction it normalised itself -/
private theorem gjkBody3_next_dir (fs : V3 K → CSO3 K) (maxDist : Option K) (exact : Bool) (s s' : Vs3 K)
    (proj oldDir pr d : V3 K) (maxBound : Option K) (mb : K) :
    gjkBody3 fs maxDist exact s proj oldDir maxBound = .next s' pr d mb →
    ∃ s1, tryNewAndGet3 proj.neg epsTol = some (d, mb) ∧ s.addPoint (fs d) = some (s1, true) ∧
      s1.projectOriginAndReduce = some (s', pr) := by
  intro h
  unfold gjkBody3 at h
  rcases ht : tryNewAndGet3 proj.neg epsTol with _ | ⟨dir, m⟩
  · rw [ht] at h; simp at h
  · rw [ht] at h
    dsimp only at h
    split_ifs at h with c1 c2 c3 c4 c5 c6
    all_goals
      rcases ha : s.addPoint (fs dir) with _ | ⟨s1, b⟩
      · rw [ha] at h; simp at h
      · rw [ha] at h
        cases b with
        | false => simp at h
        | true =>
          dsimp only at h
          rcases hp : s1.projectOriginAndReduce with _ | ⟨s2, pr2⟩
          · rw [hp] at h; simp at h
          · rw [hp] at h
            dsimp only at h
            split_ifs at h
            simp only [GjkStep3.next.injEq] at h
            obtain ⟨e1, e2, e3, e4⟩ := h
            subst e1 e2 e3 e4
            exact ⟨s1, rfl, ha, hp⟩

/-- the 2-D loop with an invariant `I` on (simplex, previous direction) that every continuing pass preserves: the exit pass
starts from a state satisfying `I` -/
private theorem gjkLoop2_inv (fs : V2 K → CSO2 K) (maxDist : Option K) (exact : Bool) (I : Vs2 K → V2 K → Prop)
    (hI : ∀ s proj oldDir mbd s' pr d mb, I s oldDir → gjkBody2 fs maxDist exact s proj oldDir mbd = .next s' pr d mb → I s' d)
    (fuel : Nat) :
    ∀ (s : Vs2 K) (proj oldDir : V2 K) (maxBound : Option K) (r : GjkRes2 K) (s' : Vs2 K), I s oldDir →
    gjkLoop2 fs maxDist exact fuel s proj oldDir maxBound = (r, s') →
    r = .noIntersection ⟨1, 0⟩ ∨
    ∃ s0 p0 o0 m0, I s0 o0 ∧ gjkBody2 fs maxDist exact s0 p0 o0 m0 = .exit r s' := by
  induction fuel with
  | zero =>
    intro s proj oldDir maxBound r s' _ h
    simp only [gjkLoop2, Prod.mk.injEq] at h
    exact Or.inl h.1.symm
  | succ n ih =>
    intro s proj oldDir maxBound r s' hi h
    simp only [gjkLoop2] at h
    rcases hb : gjkBody2 fs maxDist exact s proj oldDir maxBound with ⟨r0, s0⟩ | ⟨s1, p1, o1, m1⟩
    · rw [hb] at h
      simp only [Prod.mk.injEq] at h
      exact Or.inr ⟨s, proj, oldDir, maxBound, hi, by rw [hb, h.1, h.2]⟩
    · rw [hb] at h
      exact ih s1 p1 o1 (some m1) r s' (hI _ _ _ _ _ _ _ _ hi hb) h

private theorem gjkLoop3_inv (fs : V3 K → CSO3 K) (maxDist : Option K) (exact : Bool) (I : Vs3 K → V3 K → Prop)
    (hI : ∀ s proj oldDir mbd s' pr d mb, I s oldDir → gjkBody3 fs maxDist exact s proj oldDir mbd = .next s' pr d mb → I s' d)
    (fuel : Nat) :
    ∀ (s : Vs3 K) (proj oldDir : V3 K) (maxBound : Option K) (r : GjkRes3 K) (s' : Vs3 K), I s oldDir →
    gjkLoop3 fs maxDist exact fuel s proj oldDir maxBound = (r, s') →
    r = .noIntersection ⟨1, 0, 0⟩ ∨
    ∃ s0 p0 o0 m0, I s0 o0 ∧ gjkBody3 fs maxDist exact s0 p0 o0 m0 = .exit r s' := by
  induction fuel with
  | zero =>
    intro s proj oldDir maxBound r s' _ h
    simp only [gjkLoop3, Prod.mk.injEq] at h
    exact Or.inl h.1.symm
  | succ n ih =>
    intro s proj oldDir maxBound r s' hi h
    simp only [gjkLoop3] at h
    rcases hb : gjkBody3 fs maxDist exact s proj oldDir maxBound with ⟨r0, s0⟩ | ⟨s1, p1, o1, m1⟩
    · rw [hb] at h
      simp only [Prod.mk.injEq] at h
      exact Or.inr ⟨s, proj, oldDir, maxBound, hi, by rw [hb, h.1, h.2]⟩
    · rw [hb] at h
      exact ih s1 p1 o1 (some m1) r s' (hI _ _ _ _ _ _ _ _ hi hb) h

/-- after `add_point` the live vertices are old live vertices or the added point -/
private theorem addPoint2_live (s s1 : Vs2 K) (pt : CSO2 K) (b : Bool) (h : s.addPoint pt = some (s1, b)) :
    ∀ c, Live2 s1 c → Live2 s c ∨ c = pt := by
  intro c hc
  unfold Vs2.addPoint at h
  dsimp only at h
  split_ifs at h with c1 c2 c3
  · simp only [Option.some.injEq, Prod.mk.injEq] at h
    obtain ⟨rfl, _⟩ := h
    exact Or.inl hc
  · simp only [Option.some.injEq, Prod.mk.injEq] at h
    obtain ⟨rfl, _⟩ := h
    have hd : s.dim = 0 ∨ s.dim = 1 := by omega
    rcases hd with hd | hd
    · simp only [hd, Vs2.set, Live2] at hc ⊢
      rcases hc with rfl | ⟨_, rfl⟩ | ⟨h2, _⟩
      · exact Or.inl (Or.inl rfl)
      · exact Or.inr rfl
      · omega
    · simp only [hd, Vs2.set, Live2] at hc ⊢
      rcases hc with rfl | ⟨_, rfl⟩ | ⟨_, rfl⟩
      · exact Or.inl (Or.inl rfl)
      · exact Or.inl (Or.inr (Or.inl ⟨le_refl _, rfl⟩))
      · exact Or.inr rfl

/-- `project_origin_and_reduce` only drops and permutes live vertices (2-D) -/
private theorem reduce2_live (s s' : Vs2 K) (p : V2 K) (h : s.projectOriginAndReduce = some (s', p)) :
    ∀ c, Live2 s' c → Live2 s c := by
  intro c hc
  unfold Vs2.projectOriginAndReduce at h
  split_ifs at h with d0 d1 d2
  · simp only [Option.some.injEq, Prod.mk.injEq] at h
    obtain ⟨rfl, _⟩ := h
    simpa only [Live2] using hc
  · dsimp only at h
    rcases hr : (Segment2.projectLoc ⟨s.v0.point, s.v1.point⟩ V2.zero).2 with i | ⟨b0, b1⟩
    · rw [hr] at h
      match i, h with
      | 0, h =>
        simp only [Option.some.injEq, Prod.mk.injEq] at h
        obtain ⟨rfl, _⟩ := h
        simp only [Live2] at hc ⊢
        rcases hc with rfl | ⟨h1, _⟩ | ⟨h2, _⟩
        · exact Or.inl rfl
        · omega
        · omega
      | 1, h =>
        simp only [Option.some.injEq, Prod.mk.injEq] at h
        obtain ⟨rfl, _⟩ := h
        simp only [Live2, Vs2.swap, Vs2.get, Vs2.set, Vs2.getPv, Vs2.setPv] at hc ⊢
        rcases hc with rfl | ⟨h1, _⟩ | ⟨h2, _⟩
        · exact Or.inr (Or.inl ⟨by omega, rfl⟩)
        · omega
        · omega
      | (n + 2), h => simp at h
    · rw [hr] at h
      simp only [Option.some.injEq, Prod.mk.injEq] at h
      obtain ⟨rfl, _⟩ := h
      simpa only [Live2] using hc
  · dsimp only at h
    rcases hr : (Triangle2.projectLoc ⟨s.v0.point, s.v1.point, s.v2.point⟩ V2.zero true).2 with i | ⟨i, b0, b1⟩ | ⟨sd, b0, b1, b2⟩ | _
    · rw [hr] at h
      dsimp only at h
      split_ifs at h with hi
      simp only [Option.some.injEq, Prod.mk.injEq] at h
      obtain ⟨rfl, _⟩ := h
      have hi3 : i = 0 ∨ i = 1 ∨ i = 2 := by omega
      simp only [Live2] at hc ⊢
      rcases hc with rfl | ⟨h1, _⟩ | ⟨h2, _⟩
      · rcases hi3 with rfl | rfl | rfl
        · exact Or.inl (by simp [Vs2.swap, Vs2.get, Vs2.set, Vs2.getPv, Vs2.setPv])
        · exact Or.inr (Or.inl ⟨by omega, by simp [Vs2.swap, Vs2.get, Vs2.set, Vs2.getPv, Vs2.setPv]⟩)
        · exact Or.inr (Or.inr ⟨by omega, by simp [Vs2.swap, Vs2.get, Vs2.set, Vs2.getPv, Vs2.setPv]⟩)
      · simp at h1
      · simp at h2
    · rw [hr] at h
      match i, h with
      | 0, h =>
        simp only [Option.some.injEq, Prod.mk.injEq] at h
        obtain ⟨rfl, _⟩ := h
        simp only [Live2] at hc ⊢
        rcases hc with rfl | ⟨_, rfl⟩ | ⟨h2, _⟩
        · exact Or.inl rfl
        · exact Or.inr (Or.inl ⟨by omega, rfl⟩)
        · simp at h2
      | 1, h =>
        simp only [Option.some.injEq, Prod.mk.injEq] at h
        obtain ⟨rfl, _⟩ := h
        simp only [Live2] at hc ⊢
        rcases hc with rfl | ⟨_, rfl⟩ | ⟨h2, _⟩
        · exact Or.inr (Or.inr ⟨by omega, by simp [Vs2.swap, Vs2.get, Vs2.set, Vs2.getPv, Vs2.setPv]⟩)
        · exact Or.inr (Or.inl ⟨by omega, by simp [Vs2.swap, Vs2.get, Vs2.set, Vs2.getPv, Vs2.setPv]⟩)
        · simp at h2
      | 2, h =>
        simp only [Option.some.injEq, Prod.mk.injEq] at h
        obtain ⟨rfl, _⟩ := h
        simp only [Live2] at hc ⊢
        rcases hc with rfl | ⟨_, rfl⟩ | ⟨h2, _⟩
        · exact Or.inl (by simp [Vs2.swap, Vs2.get, Vs2.set, Vs2.getPv, Vs2.setPv])
        · exact Or.inr (Or.inr ⟨by omega, by simp [Vs2.swap, Vs2.get, Vs2.set, Vs2.getPv, Vs2.setPv]⟩)
        · simp at h2
      | (n + 3), h =>
        simp only [Option.some.injEq, Prod.mk.injEq] at h
        obtain ⟨rfl, _⟩ := h
        exact hc
    · rw [hr] at h
      simp only [Option.some.injEq, Prod.mk.injEq] at h
      obtain ⟨rfl, _⟩ := h
      exact hc
    · rw [hr] at h
      simp only [Option.some.injEq, Prod.mk.injEq] at h
      obtain ⟨rfl, _⟩ := h
      exact hc

/-- every exit of the 2-D loop body leaves a simplex whose live vertices are old live vertices or the support point
`from_shapes(dir)` of this pass -/
private theorem gjkBody2_exit_live (fs : V2 K → CSO2 K) (maxDist : Option K) (exact : Bool) (s s' : Vs2 K)
    (proj oldDir : V2 K) (maxBound : Option K) (r : GjkRes2 K) :
    gjkBody2 fs maxDist exact s proj oldDir maxBound = .exit r s' →
    ∀ c, Live2 s' c → Live2 s c ∨ ∃ d, c = fs d := by
  intro h c hc
  unfold gjkBody2 at h
  rcases ht : tryNewAndGet2 proj.neg epsTol with _ | ⟨dir, m⟩
  · rw [ht] at h
    simp only [GjkStep2.exit.injEq] at h
    obtain ⟨_, rfl⟩ := h
    exact Or.inl hc
  · rw [ht] at h
    dsimp only at h
    split_ifs at h with c1 c2 c3 c4 c5 c6
    all_goals try (simp only [GjkStep2.exit.injEq] at h; obtain ⟨_, rfl⟩ := h; exact Or.inl hc)
    all_goals
      rcases ha : s.addPoint (fs dir) with _ | ⟨s1, b⟩
      · rw [ha] at h
        simp only [GjkStep2.exit.injEq] at h
        obtain ⟨_, rfl⟩ := h
        exact Or.inl hc
      · rw [ha] at h
        have hl1 := addPoint2_live s s1 (fs dir) b ha
        cases b with
        | false =>
          dsimp only at h
          try split_ifs at h
          all_goals
            simp only [GjkStep2.exit.injEq] at h
            obtain ⟨_, rfl⟩ := h
            rcases hl1 c hc with h1 | h1
            · exact Or.inl h1
            · exact Or.inr ⟨dir, h1⟩
        | true =>
          dsimp only at h
          rcases hp : s1.projectOriginAndReduce with _ | ⟨s2, pr2⟩
          · rw [hp] at h
            simp only [GjkStep2.exit.injEq] at h
            obtain ⟨_, rfl⟩ := h
            rcases hl1 c hc with h1 | h1
            · exact Or.inl h1
            · exact Or.inr ⟨dir, h1⟩
          · rw [hp] at h
            dsimp only at h
            have hl2 := reduce2_live s1 s2 pr2 hp
            try split_ifs at h
            all_goals
              simp only [GjkStep2.exit.injEq] at h
              obtain ⟨_, rfl⟩ := h
              rcases hl1 c (hl2 c hc) with h1 | h1
              · exact Or.inl h1
              · exact Or.inr ⟨dir, h1⟩

/-- **the simplex `gjk::closest_points` leaves behind consists of support points** (2-D, from the `*_with_params` entry points,
whatever the result except the 100-iteration fallback): every live vertex is `from_shapes(d)` for some direction `d`. -/
theorem gjkSimplex2_from_shapes (fs : V2 K → CSO2 K) (t : V2 K) (pred : K) (init : Option (V2 K)) (s0 : Vs2 K) (r : GjkRes2 K) (s' : Vs2 K)
    (h : closestPointsSmSmWithParams2 fs t pred s0 init = (r, s')) :
    r = .noIntersection ⟨1, 0⟩ ∨ ∀ c, Live2 s' c → ∃ d, c = fs d := by
  unfold closestPointsSmSmWithParams2 at h
  obtain ⟨hd0, _, d0, hv0⟩ := gjkStart2_spec fs t init s0
  have hstart : ∀ c, Live2 (gjkStart2 fs t init s0) c → ∃ d, c = fs d := by
    intro c hc
    simp only [Live2, hd0] at hc
    rcases hc with rfl | ⟨h1, _⟩ | ⟨h2, _⟩
    · exact ⟨d0, hv0 s0⟩
    · omega
    · omega
  unfold gjkClosestPoints2 at h
  rcases hp : (gjkStart2 fs t init s0).projectOriginAndReduce with _ | ⟨s1, pr⟩
  · rw [hp] at h
    simp only [Prod.mk.injEq] at h
    obtain ⟨_, rfl⟩ := h
    exact Or.inr hstart
  · rw [hp] at h
    dsimp only at h
    have h1 : ∀ c, Live2 s1 c → ∃ d, c = fs d := fun c hc => hstart c (reduce2_live _ _ _ hp c hc)
    rcases htn : C10.tryNew2 pr 0 with _ | pd
    · rw [htn] at h
      simp only [Prod.mk.injEq] at h
      obtain ⟨_, rfl⟩ := h
      exact Or.inr h1
    · rw [htn] at h
      have := gjkLoop2_inv fs (some pred) true (fun s _ => ∀ c, Live2 s c → ∃ d, c = fs d)
        (by
          intro s proj oldDir mbd s2 pr2 d mb hi hb c hc
          obtain ⟨sa, _, ha, hr⟩ := gjkBody2_next_dir fs (some pred) true s s2 proj oldDir pr2 d mbd mb hb
          rcases addPoint2_live s sa (fs d) true ha c (reduce2_live sa s2 pr2 hr c hc) with hh | hh
          · exact hi c hh
          · exact ⟨d, hh⟩)
        100 s1 pr pd.neg none r s' h1 h
      rcases this with hfb | ⟨sx, px, ox, mx, hix, hbx⟩
      · exact Or.inl hfb
      · right
        intro c hc
        rcases gjkBody2_exit_live fs (some pred) true sx s' px ox mx r hbx c hc with hh | hh
        · exact hix c hh
        · exact hh

/-- `c` is one of the `dim + 1` live vertices of the 3-D simplex (all four slots, unlike `C01.Live3`) -/
def Live3' (s : Vs3 K) (c : CSO3 K) : Prop :=
  c = s.v0 ∨ (1 ≤ s.dim ∧ c = s.v1) ∨ (2 ≤ s.dim ∧ c = s.v2) ∨ (3 ≤ s.dim ∧ c = s.v3)

private theorem addPoint3_live (s s1 : Vs3 K) (pt : CSO3 K) (b : Bool) (h : s.addPoint pt = some (s1, b)) :
    ∀ c, Live3' s1 c → Live3' s c ∨ c = pt := by
  intro c hc
  unfold Vs3.addPoint at h
  dsimp only at h
  have hd : s.dim = 0 ∨ s.dim = 1 ∨ s.dim = 2 ∨ 3 ≤ s.dim := by omega
  rcases hd with hd | hd | hd | hd
  · simp only [hd, ↓reduceIte] at h
    split at h
    · simp at h
    · simp only [Option.some.injEq, Prod.mk.injEq] at h
      obtain ⟨rfl, _⟩ := h
      left
      simpa only [Live3', hd] using hc
    · simp only [Option.some.injEq, Prod.mk.injEq] at h
      obtain ⟨rfl, _⟩ := h
      simp only [Live3', hd, Vs3.set] at hc ⊢
      rcases hc with rfl | ⟨_, rfl⟩ | ⟨h2, _⟩ | ⟨h2, _⟩
      · exact Or.inl (Or.inl rfl)
      · exact Or.inr rfl
      · omega
      · omega
  · simp only [hd, ↓reduceIte, one_ne_zero] at h
    split at h
    · simp at h
    · simp only [Option.some.injEq, Prod.mk.injEq] at h
      obtain ⟨rfl, _⟩ := h
      left
      simpa only [Live3', hd] using hc
    · simp only [Option.some.injEq, Prod.mk.injEq] at h
      obtain ⟨rfl, _⟩ := h
      simp only [Live3', hd, Vs3.set] at hc ⊢
      rcases hc with rfl | ⟨_, rfl⟩ | ⟨_, rfl⟩ | ⟨h2, _⟩
      · exact Or.inl (Or.inl rfl)
      · exact Or.inl (Or.inr (Or.inl ⟨le_refl _, rfl⟩))
      · exact Or.inr rfl
      · omega
  · simp only [hd, ↓reduceIte, OfNat.ofNat_ne_zero, OfNat.ofNat_ne_one] at h
    split at h
    · simp at h
    · simp only [Option.some.injEq, Prod.mk.injEq] at h
      obtain ⟨rfl, _⟩ := h
      left
      simpa only [Live3', hd] using hc
    · simp only [Option.some.injEq, Prod.mk.injEq] at h
      obtain ⟨rfl, _⟩ := h
      simp only [Live3', hd, Vs3.set] at hc ⊢
      rcases hc with rfl | ⟨_, rfl⟩ | ⟨_, rfl⟩ | ⟨_, rfl⟩
      · exact Or.inl (Or.inl rfl)
      · exact Or.inl (Or.inr (Or.inl ⟨by omega, rfl⟩))
      · exact Or.inl (Or.inr (Or.inr (Or.inl ⟨le_refl _, rfl⟩)))
      · exact Or.inr rfl
  · have e0 : ¬ s.dim = 0 := by omega
    have e1 : ¬ s.dim = 1 := by omega
    have e2 : ¬ s.dim = 2 := by omega
    simp only [e0, e1, e2, ↓reduceIte] at h
    simp at h


end generic

/-! ## at the lawful instance -/
section field
variable {K : Type} [Field K] [LinearOrder K] [IsStrictOrderedRing K] (sq : K → K)

private theorem tryNew2_unit (hs : LawfulSqrt sq) (v d : V2 K) (m : K) :
    letI := fieldNum K sq
    C10.tryNew2 v m = some d → d.x * d.x + d.y * d.y = 1 := by
  letI := fieldNum K sq
  intro h
  have : tryNewAndGet2 v m = some (d, Num.sqrt v.normSq) := by
    unfold C10.tryNew2 at h
    unfold tryNewAndGet2
    dsimp only at h ⊢
    split_ifs at h ⊢ with hlt
    simp only [Option.some.injEq] at h ⊢
    rw [h]
  exact (tryNewAndGet2_spec sq hs v d m _ this).1

/-- **the `ClosestPoints` arm assembles a self-consistent record** (2-D): with a unit rotation, `pos12·point2` is GJK's second
witness, `dist = (pos12·point2 - point1)·normal1` and `normal2 = -normal1` in the frame of shape 1. -/
theorem contactOfClosest2_consistent (pos12 : Iso2 K) (hu : pos12.re * pos12.re + pos12.im * pos12.im = 1) (p1 p2 n : V2 K) :
    letI := fieldNum K sq
    pos12.act (contactOfClosest2 pos12 p1 p2 n).point2 = p2 ∧
    (contactOfClosest2 pos12 p1 p2 n).dist = (p2.x - p1.x) * n.x + (p2.y - p1.y) * n.y ∧
    (pos12.rot (contactOfClosest2 pos12 p1 p2 n).normal2).x = -n.x ∧
    (pos12.rot (contactOfClosest2 pos12 p1 p2 n).normal2).y = -n.y := by
  letI := fieldNum K sq
  have hact : pos12.act (pos12.invAct p2) = p2 := by
    simp only [Iso2.act, Iso2.invAct, Iso2.rot, Iso2.invRot, V2.add, V2.sub]
    have e1 : pos12.re * (pos12.re * (p2.x - pos12.t.x) - -pos12.im * (p2.y - pos12.t.y)) -
        pos12.im * (-pos12.im * (p2.x - pos12.t.x) + pos12.re * (p2.y - pos12.t.y)) + pos12.t.x = p2.x := by
      linear_combination (p2.x - pos12.t.x) * hu
    have e2 : pos12.im * (pos12.re * (p2.x - pos12.t.x) - -pos12.im * (p2.y - pos12.t.y)) +
        pos12.re * (-pos12.im * (p2.x - pos12.t.x) + pos12.re * (p2.y - pos12.t.y)) + pos12.t.y = p2.y := by
      linear_combination (p2.y - pos12.t.y) * hu
    rw [e1, e2]
  refine ⟨hact, ?_, ?_, ?_⟩
  · simp only [contactOfClosest2, V2.sub, V2.dot]
  · simp only [contactOfClosest2, Iso2.rot, Iso2.invRot, V2.neg]; linear_combination (-n.x) * hu
  · simp only [contactOfClosest2, Iso2.rot, Iso2.invRot, V2.neg]; linear_combination (-n.y) * hu

/-- **every `Some(contact)` of the complete 2-D `contact_support_map_support_map` is self-consistent**, whichever arm produced
it (GJK `ClosestPoints`, or EPA from any simplex, the vertex/vertex start included): for a unit rotation
`dist = (pos12·point2 - point1)·normal1` and `normal2 = -normal1` in the frame of shape 1.  No assumption on the shapes. -/
theorem contactSmSm2_consistent (pos12 : Iso2 K) (hu : pos12.re * pos12.re + pos12.im * pos12.im = 1)
    (supp1 supp2 : V2 K → V2 K) (pred : K) (fuel : Nat) (c : Contact2 K)
    (h : letI := fieldNum K sq; contactSmSm2 pos12 supp1 supp2 pred fuel = some (some c)) :
    letI := fieldNum K sq
    c.dist = ((pos12.act c.point2).x - c.point1.x) * c.normal1.x + ((pos12.act c.point2).y - c.point1.y) * c.normal1.y ∧
    (pos12.rot c.normal2).x = -c.normal1.x ∧ (pos12.rot c.normal2).y = -c.normal1.y := by
  letI := fieldNum K sq
  have key : ∃ p1 p2 n, c = contactOfClosest2 pos12 p1 p2 n := by
    rcases contactSmSm2_cases pos12 supp1 supp2 pred fuel (some c) h with ⟨p1, p2, n, _, hc⟩ | ⟨d, _, hc⟩ | ⟨_, he⟩
    · exact ⟨p1, p2, n, by simpa using hc⟩
    · simp at hc
    · unfold contactFromEpa2 at he
      split at he
      · rename_i p1 p2 n why hres
        simp only [Option.some.injEq] at he
        exact ⟨p1, p2, n, he.symm⟩
      · simp at he
      · simp at he
  obtain ⟨p1, p2, n, rfl⟩ := key
  obtain ⟨e1, e2, e3, e4⟩ := contactOfClosest2_consistent sq pos12 hu p1 p2 n
  rw [e1]
  exact ⟨e2, e3, e4⟩

/-- **the direction `gjk::closest_points` returns with `ClosestPoints` is a unit vector** (2-D): it is either the direction
normalised in the returning pass, or (exit "upper bounds inconsistencies") the one normalised in an earlier pass. -/
theorem gjkClosest2_dir_unit (hs : LawfulSqrt sq) (fs : V2 K → CSO2 K) (maxDist : Option K) (s s' : Vs2 K) (p1 p2 d : V2 K) :
    letI := fieldNum K sq
    gjkClosestPoints2 fs maxDist true s = (.closest p1 p2 d, s') → d.x * d.x + d.y * d.y = 1 := by
  letI := fieldNum K sq
  intro h
  unfold gjkClosestPoints2 at h
  rcases hp : s.projectOriginAndReduce with _ | ⟨s1, pr⟩
  · rw [hp] at h; simp at h
  · rw [hp] at h
    dsimp only at h
    rcases htn : C10.tryNew2 pr 0 with _ | pd
    · rw [htn] at h; simp at h
    · rw [htn] at h
      have hpd := tryNew2_unit sq hs pr pd 0 htn
      have := gjkLoop2_inv fs maxDist true (fun _ o => o.x * o.x + o.y * o.y = 1)
        (by
          intro s proj oldDir mbd s2 pr2 d2 mb _ hb
          obtain ⟨_, ht, _, _⟩ := gjkBody2_next_dir fs maxDist true s s2 proj oldDir pr2 d2 mbd mb hb
          exact (tryNewAndGet2_spec sq hs proj.neg d2 epsTol mb ht).1)
        100 s1 pr pd.neg none _ s' (by simp only [V2.neg]; linear_combination hpd) h
      rcases this with hfb | ⟨sx, px, ox, mx, hix, hbx⟩
      · simp at hfb
      · obtain ⟨dir, mb, ht, hc⟩ := gjkBody2_closest_cases fs maxDist sx s' px ox p1 p2 d mx hbx
        have hdir := (tryNewAndGet2_spec sq hs px.neg dir epsTol mb ht).1
        rcases hc with ⟨rfl, _⟩ | ⟨rfl, _⟩ | ⟨rfl, _⟩ | ⟨rfl, _⟩
        · exact hix
        · exact hdir
        · exact hdir
        · exact hdir

/-- **the GJK arm of the complete function returns a unit `normal1`** (2-D) -/
theorem contactSmSm2_gjk_arm_unit_normal (hs : LawfulSqrt sq) (pos12 : Iso2 K) (supp1 supp2 : V2 K → V2 K) (pred : K) (p1 p2 n : V2 K) :
    letI := fieldNum K sq
    (closestPointsSmSmWithParams2 (fromShapes2 supp1 supp2) pos12.t pred Vs2.new (some pos12.t)).1 = .closest p1 p2 n →
    n.x * n.x + n.y * n.y = 1 := by
  letI := fieldNum K sq
  intro h
  unfold closestPointsSmSmWithParams2 at h
  exact gjkClosest2_dir_unit sq hs _ _ _ _ p1 p2 n (Prod.ext h rfl)

private theorem vs2Points_mem {K : Type} [Num K] (s : Vs2 K) (v : CSOPoint2 K) (hv : v ∈ vs2Points s) :
    ∃ c, Live2 s c ∧ v = ⟨c.point, c.orig1, c.orig2⟩ := by
  unfold vs2Points at hv
  simp only [List.mem_map, List.mem_range] at hv
  obtain ⟨i, hi, rfl⟩ := hv
  match i, hi with
  | 0, _ => exact ⟨s.v0, Or.inl rfl, rfl⟩
  | 1, hi => exact ⟨s.v1, Or.inr (Or.inl ⟨by omega, rfl⟩), rfl⟩
  | (n + 2), hi => exact ⟨s.v2, Or.inr (Or.inr ⟨by omega, rfl⟩), rfl⟩

/-- **the EPA arm of the complete 2-D function: EPA's precondition is established by GJK, and the result is a valid certificate.**
For any two point sets `S1 S2` and support functions returning points of them: when GJK answers `Intersection` on a simplex of
dimension ≥ 1, every vertex handed to EPA is a genuine CSO point (`point = orig1 - orig2`, `orig1 ∈ S1`, `orig2 ∈ S2` — the loop
invariant `gjkSimplex2_from_shapes`), hence a returned contact has witnesses that are barycentric combinations of support points
(`Epa2Out`), `dist = (pos12·point2 - point1)·normal1`, `normal2 = -normal1` in frame 1, a unit (or, degenerate edge, zero)
`normal1`, and `-dist ≤` every bound of `(x1 - x2)·normal1` over the shapes: `|dist|` never exceeds the true overlap along `normal1`. -/
theorem contactSmSm2_epa_arm (hs : LawfulSqrt sq) (pos12 : Iso2 K) (hu : pos12.re * pos12.re + pos12.im * pos12.im = 1)
    (S1 S2 : V2 K → Prop) (supp1 supp2 : V2 K → V2 K) (h1 : ∀ d, S1 (supp1 d)) (h2 : ∀ d, S2 (supp2 d))
    (pred : K) (fuel : Nat) (c : Contact2 K)
    (h : letI := fieldNum K sq; contactSmSm2 pos12 supp1 supp2 pred fuel = some (some c))
    (hi : letI := fieldNum K sq;
      (closestPointsSmSmWithParams2 (fromShapes2 supp1 supp2) pos12.t pred Vs2.new (some pos12.t)).1 = .intersection)
    (hd : letI := fieldNum K sq;
      1 ≤ (closestPointsSmSmWithParams2 (fromShapes2 supp1 supp2) pos12.t pred Vs2.new (some pos12.t)).2.dim) :
    letI := fieldNum K sq
    Epa2Out sq S1 S2 c.point1 (pos12.act c.point2) c.normal1 ∧
    c.dist = ((pos12.act c.point2).x - c.point1.x) * c.normal1.x + ((pos12.act c.point2).y - c.point1.y) * c.normal1.y ∧
    (pos12.rot c.normal2).x = -c.normal1.x ∧ (pos12.rot c.normal2).y = -c.normal1.y ∧
    (c.normal1 = ⟨0, 0⟩ ∨ c.normal1.x * c.normal1.x + c.normal1.y * c.normal1.y = 1) ∧
    (∀ H : K, (∀ x1 x2 : V2 K, S1 x1 → S2 x2 → (x1.x - x2.x) * c.normal1.x + (x1.y - x2.y) * c.normal1.y ≤ H) →
      -c.dist ≤ H) := by
  letI := fieldNum K sq
  rcases contactSmSm2_cases pos12 supp1 supp2 pred fuel (some c) h with ⟨p1, p2, n, hg, _⟩ | ⟨d, hg, _⟩ | ⟨_, he⟩
  · rw [hi] at hg; simp at hg
  · rw [hi] at hg; simp at hg
  · rcases hg : closestPointsSmSmWithParams2 (fromShapes2 supp1 supp2) pos12.t pred Vs2.new (some pos12.t) with ⟨r, s'⟩
    rw [hg] at hi hd he
    dsimp only at hi hd he
    subst hi
    have hlive : ∀ c, Live2 s' c → ∃ d, c = fromShapes2 supp1 supp2 d := by
      rcases gjkSimplex2_from_shapes _ _ _ _ _ _ _ hg with hfb | hl
      · simp at hfb
      · exact hl
    have hsim : ∀ v ∈ vs2Points s', CsoOf S1 S2 v := by
      intro v hv
      obtain ⟨c0, hc0, rfl⟩ := vs2Points_mem s' v hv
      obtain ⟨d, rfl⟩ := hlive c0 hc0
      exact ⟨rfl, h1 _, h2 _⟩
    have hlen0 : (vs2Points s').length = s'.dim + 1 := by simp [vs2Points]
    have hlen : (vs2Points s').length = 2 ∨ (vs2Points s').length = 3 := by
      rcases hl : vs2Points s' with _ | ⟨a, _ | ⟨b, _ | ⟨c', _ | ⟨d', t⟩⟩⟩⟩
      · rw [hl] at hlen0; simp at hlen0
      · rw [hl] at hlen0; simp at hlen0; omega
      · simp
      · simp
      · rw [hl] at he
        simp [contactFromEpa2, epa2ClosestPoints] at he
    exact contactFromEpa2_consistent sq hs pos12 hu S1 S2 supp1 supp2 h1 h2 fuel (vs2Points s') hsim hlen c he

/-- **`None` is returned only beyond `prediction`** (2-D, complete function): if `contact_support_map_support_map` returns `None`
then every point of the configuration-space obstacle `C` (any set for which `from_shapes` is a support function) is farther than
`prediction` from the origin — the shapes are more than `prediction` apart —, or one of the two documented give-ups happened:
GJK's 100-iteration fallback `NoIntersection(x_axis)`, or GJK said `Intersection` and EPA returned `None`. -/
theorem contactSmSm2_none_sound (hs : LawfulSqrt sq) (pos12 : Iso2 K) (supp1 supp2 : V2 K → V2 K) (C : V2 K → Prop)
    (hsup : SupportsCSO2 C (letI := fieldNum K sq; fromShapes2 supp1 supp2)) (pred : K) (hpred : 0 ≤ pred) (fuel : Nat)
    (h : letI := fieldNum K sq; contactSmSm2 pos12 supp1 supp2 pred fuel = some none) :
    letI := fieldNum K sq
    (∀ c, C c → pred * pred < c.x * c.x + c.y * c.y) ∨
    (closestPointsSmSmWithParams2 (fromShapes2 supp1 supp2) pos12.t pred Vs2.new (some pos12.t)).1 = .noIntersection ⟨1, 0⟩ ∨
    ((closestPointsSmSmWithParams2 (fromShapes2 supp1 supp2) pos12.t pred Vs2.new (some pos12.t)).1 = .intersection ∧
      epa2ClosestPoints supp1 supp2 fuel
        (vs2Points (closestPointsSmSmWithParams2 (fromShapes2 supp1 supp2) pos12.t pred Vs2.new (some pos12.t)).2) = .none) := by
  letI := fieldNum K sq
  rcases contactSmSm2_cases pos12 supp1 supp2 pred fuel none h with ⟨p1, p2, n, _, hc⟩ | ⟨d, hg, _⟩ | ⟨hg, he⟩
  · simp at hc
  · rcases hgg : closestPointsSmSmWithParams2 (fromShapes2 supp1 supp2) pos12.t pred Vs2.new (some pos12.t) with ⟨r, s'⟩
    rw [hgg] at hg
    dsimp only at hg
    subst hg
    have hgg' := hgg
    unfold closestPointsSmSmWithParams2 at hgg'
    rcases gjkClosestPoints2_cases _ _ _ _ _ _ hgg' with hp | hp | hp | ⟨s0, p0, o0, m0, hb⟩
    · simp at hp
    · simp at hp
    · right; left; exact hp
    · left
      exact gjkBody2_noIntersection_sound sq hs C _ hsup pred hpred true s0 s' p0 o0 d m0 hb
  · right; right
    refine ⟨hg, ?_⟩
    unfold contactFromEpa2 at he
    split at he
    · simp at he
    · assumption
    · simp at he

/-! ### 3-D -/

private theorem tryNew3_unit (hs : LawfulSqrt sq) (v d : V3 K) (m : K) :
    letI := fieldNum K sq
    C10.tryNew3 v m = some d → d.x * d.x + d.y * d.y + d.z * d.z = 1 := by
  letI := fieldNum K sq
  intro h
  have : tryNewAndGet3 v m = some (d, Num.sqrt v.normSq) := by
    unfold C10.tryNew3 at h
    unfold tryNewAndGet3
    dsimp only at h ⊢
    split_ifs at h ⊢ with hlt
    simp only [Option.some.injEq] at h ⊢
    rw [h]
  exact (tryNewAndGet3_spec sq hs v d m _ this).1

/-- **the `ClosestPoints` arm assembles a self-consistent record** (3-D) -/
theorem contactOfClosest3_consistent (pos12 : Iso3 K) (hu : Unit3 pos12) (p1 p2 n : V3 K) :
    letI := fieldNum K sq
    pos12.act (contactOfClosest3 pos12 p1 p2 n).point2 = p2 ∧
    (contactOfClosest3 pos12 p1 p2 n).dist = (p2.x - p1.x) * n.x + (p2.y - p1.y) * n.y + (p2.z - p1.z) * n.z ∧
    pos12.rot (contactOfClosest3 pos12 p1 p2 n).normal2 = n.neg := by
  letI := fieldNum K sq
  refine ⟨iso3_invAct_act' sq pos12 p2 hu, ?_, rot_invRot sq pos12 n.neg hu⟩
  simp only [contactOfClosest3, V3.sub, V3.dot]

/-- **every `Some(contact)` of the complete 3-D `contact_support_map_support_map` is self-consistent**, whichever arm produced it:
for a unit quaternion `dist = (pos12·point2 - point1)·normal1` and `normal2 = -normal1` in the frame of shape 1. -/
theorem contactSmSm3_consistent (pos12 : Iso3 K) (hu : Unit3 pos12)
    (supp1 supp2 : V3 K → V3 K) (pred : K) (fuel : Nat) (c : Contact3 K)
    (h : letI := fieldNum K sq; contactSmSm3 pos12 supp1 supp2 pred fuel = some (some c)) :
    letI := fieldNum K sq
    c.dist = ((pos12.act c.point2).x - c.point1.x) * c.normal1.x + ((pos12.act c.point2).y - c.point1.y) * c.normal1.y +
      ((pos12.act c.point2).z - c.point1.z) * c.normal1.z ∧
    pos12.rot c.normal2 = c.normal1.neg := by
  letI := fieldNum K sq
  have key : ∃ p1 p2 n, c = contactOfClosest3 pos12 p1 p2 n := by
    rcases contactSmSm3_cases pos12 supp1 supp2 pred fuel (some c) h with ⟨p1, p2, n, _, hc⟩ | ⟨d, _, hc⟩ | ⟨_, he⟩
    · exact ⟨p1, p2, n, by simpa using hc⟩
    · simp at hc
    · unfold contactFromEpa3 at he
      split at he
      · rename_i p1 p2 n why hres
        simp only [Option.some.injEq] at he
        exact ⟨p1, p2, n, he.symm⟩
      · simp at he
      · simp at he
  obtain ⟨p1, p2, n, rfl⟩ := key
  obtain ⟨e1, e2, e3⟩ := contactOfClosest3_consistent sq pos12 hu p1 p2 n
  rw [e1]
  exact ⟨e2, e3⟩

/-- **the direction `gjk::closest_points` returns with `ClosestPoints` is a unit vector** (3-D) -/
theorem gjkClosest3_dir_unit (hs : LawfulSqrt sq) (fs : V3 K → CSO3 K) (maxDist : Option K) (s s' : Vs3 K) (p1 p2 d : V3 K) :
    letI := fieldNum K sq
    gjkClosestPoints3 fs maxDist true s = (.closest p1 p2 d, s') → d.x * d.x + d.y * d.y + d.z * d.z = 1 := by
  letI := fieldNum K sq
  intro h
  unfold gjkClosestPoints3 at h
  rcases hp : s.projectOriginAndReduce with _ | ⟨s1, pr⟩
  · rw [hp] at h; simp at h
  · rw [hp] at h
    dsimp only at h
    rcases htn : C10.tryNew3 pr 0 with _ | pd
    · rw [htn] at h; simp at h
    · rw [htn] at h
      have hpd := tryNew3_unit sq hs pr pd 0 htn
      have := gjkLoop3_inv fs maxDist true (fun _ o => o.x * o.x + o.y * o.y + o.z * o.z = 1)
        (by
          intro s proj oldDir mbd s2 pr2 d2 mb _ hb
          obtain ⟨_, ht, _, _⟩ := gjkBody3_next_dir fs maxDist true s s2 proj oldDir pr2 d2 mbd mb hb
          exact (tryNewAndGet3_spec sq hs proj.neg d2 epsTol mb ht).1)
        100 s1 pr pd.neg none _ s' (by simp only [V3.neg]; linear_combination hpd) h
      rcases this with hfb | ⟨sx, px, ox, mx, hix, hbx⟩
      · simp at hfb
      · obtain ⟨dir, mb, ht, hc⟩ := gjkBody3_closest_cases fs maxDist sx s' px ox p1 p2 d mx hbx
        have hdir := (tryNewAndGet3_spec sq hs px.neg dir epsTol mb ht).1
        rcases hc with ⟨rfl, _⟩ | ⟨rfl, _⟩ | ⟨rfl, _⟩ | ⟨rfl, _⟩
        · exact hix
        · exact hdir
        · exact hdir
        · exact hdir

/-- **the GJK arm of the complete function returns a unit `normal1`** (3-D) -/
theorem contactSmSm3_gjk_arm_unit_normal (hs : LawfulSqrt sq) (pos12 : Iso3 K) (supp1 supp2 : V3 K → V3 K) (pred : K) (p1 p2 n : V3 K) :
    letI := fieldNum K sq
    (closestPointsSmSmWithParams3 (fromShapes3 supp1 supp2) pos12.t pred Vs3.new (some pos12.t)).1 = .closest p1 p2 n →
    n.x * n.x + n.y * n.y + n.z * n.z = 1 := by
  letI := fieldNum K sq
  intro h
  unfold closestPointsSmSmWithParams3 at h
  exact gjkClosest3_dir_unit sq hs _ _ _ _ p1 p2 n (Prod.ext h rfl)

/-- **`None` is returned only beyond `prediction`** (3-D, complete function), up to the two documented give-ups
(GJK's 100-iteration fallback `NoIntersection(x_axis)`; `Intersection` followed by EPA's `None`). -/
theorem contactSmSm3_none_sound (hs : LawfulSqrt sq) (pos12 : Iso3 K) (supp1 supp2 : V3 K → V3 K) (C : V3 K → Prop)
    (hsup : SupportsCSO3 C (letI := fieldNum K sq; fromShapes3 supp1 supp2)) (pred : K) (hpred : 0 ≤ pred) (fuel : Nat)
    (h : letI := fieldNum K sq; contactSmSm3 pos12 supp1 supp2 pred fuel = some none) :
    letI := fieldNum K sq
    (∀ c, C c → pred * pred < c.x * c.x + c.y * c.y + c.z * c.z) ∨
    (closestPointsSmSmWithParams3 (fromShapes3 supp1 supp2) pos12.t pred Vs3.new (some pos12.t)).1 = .noIntersection ⟨1, 0, 0⟩ ∨
    ((closestPointsSmSmWithParams3 (fromShapes3 supp1 supp2) pos12.t pred Vs3.new (some pos12.t)).1 = .intersection ∧
      epa3ClosestPoints supp1 supp2 fuel
        (vs3Points (closestPointsSmSmWithParams3 (fromShapes3 supp1 supp2) pos12.t pred Vs3.new (some pos12.t)).2) = .none) := by
  letI := fieldNum K sq
  rcases contactSmSm3_cases pos12 supp1 supp2 pred fuel none h with ⟨p1, p2, n, _, hc⟩ | ⟨d, hg, _⟩ | ⟨hg, he⟩
  · simp at hc
  · rcases hgg : closestPointsSmSmWithParams3 (fromShapes3 supp1 supp2) pos12.t pred Vs3.new (some pos12.t) with ⟨r, s'⟩
    rw [hgg] at hg
    dsimp only at hg
    subst hg
    have hgg' := hgg
    unfold closestPointsSmSmWithParams3 at hgg'
    rcases gjkClosestPoints3_cases _ _ _ _ _ _ hgg' with hp | hp | hp | ⟨s0, p0, o0, m0, hb⟩
    · simp at hp
    · simp at hp
    · right; left; exact hp
    · left
      exact gjkBody3_noIntersection_sound sq hs C _ hsup pred hpred true s0 s' p0 o0 d m0 hb
  · right; right
    refine ⟨hg, ?_⟩
    unfold contactFromEpa3 at he
    split at he
    · simp at he
    · assumption
    · simp at he

private theorem reduce3_live (s s' : Vs3 K) (p : V3 K) :
    letI := fieldNum K sq
    s.projectOriginAndReduce = some (s', p) → ∀ c, Live3' s' c → Live3' s c := by
  letI := fieldNum K sq
  intro h c hc
  unfold Vs3.projectOriginAndReduce at h
  split_ifs at h with d0 d1 d2 d3
  · simp only [Option.some.injEq, Prod.mk.injEq] at h
    obtain ⟨rfl, _⟩ := h
    simpa only [Live3'] using hc
  · dsimp only at h
    generalize Segment3.projectLoc ⟨s.v0.point, s.v1.point⟩ V3.zero = r at h
    obtain ⟨pp, loc⟩ := r
    cases loc with
    | vertex i =>
      match i, h with
      | 0, h =>
        simp only [Option.some.injEq, Prod.mk.injEq] at h
        obtain ⟨rfl, _⟩ := h
        simp only [Live3'] at hc ⊢
        rcases hc with rfl | ⟨h1, _⟩ | ⟨h1, _⟩ | ⟨h1, _⟩
        · exact Or.inl rfl
        all_goals omega
      | 1, h =>
        simp only [Option.some.injEq, Prod.mk.injEq] at h
        obtain ⟨rfl, _⟩ := h
        simp only [Live3', Vs3.swap, Vs3.get, Vs3.set, Vs3.getPv, Vs3.setPv] at hc ⊢
        rcases hc with rfl | ⟨h1, _⟩ | ⟨h1, _⟩ | ⟨h1, _⟩
        · exact Or.inr (Or.inl ⟨by omega, rfl⟩)
        all_goals omega
      | (n + 2), h => simp at h
    | edge b0 b1 =>
      simp only [Option.some.injEq, Prod.mk.injEq] at h
      obtain ⟨rfl, _⟩ := h
      simpa only [Live3'] using hc
  · dsimp only at h
    have hl := C05.tri3_location_sound sq ⟨s.v0.point, s.v1.point, s.v2.point⟩ V3.zero true
    generalize Triangle3.projectLoc ⟨s.v0.point, s.v1.point, s.v2.point⟩ V3.zero true = r at h hl
    obtain ⟨pp, loc⟩ := r
    cases loc with
    | vertex i =>
      dsimp only at hl h
      rcases hl with ⟨rfl, e⟩ | ⟨rfl, e⟩ | ⟨rfl, e⟩
      all_goals
        norm_num at h
        obtain ⟨rfl, _⟩ := h
        simp only [Live3', Vs3.swap, Vs3.get, Vs3.set, Vs3.getPv, Vs3.setPv, d2] at hc ⊢
        rcases hc with rfl | ⟨h1, _⟩ | ⟨h1, _⟩ | ⟨h1, _⟩
        · simp
        all_goals omega
    | edge i b0 b1 =>
      match i, h with
      | 0, h =>
        simp only [Option.some.injEq, Prod.mk.injEq] at h
        obtain ⟨rfl, _⟩ := h
        simp only [Live3', d2] at hc ⊢
        rcases hc with rfl | ⟨_, rfl⟩ | ⟨h1, _⟩ | ⟨h1, _⟩
        · simp
        · simp
        all_goals omega
      | 1, h =>
        simp only [Option.some.injEq, Prod.mk.injEq] at h
        obtain ⟨rfl, _⟩ := h
        simp only [Live3', Vs3.swap, Vs3.get, Vs3.set, Vs3.getPv, Vs3.setPv, d2] at hc ⊢
        rcases hc with rfl | ⟨_, rfl⟩ | ⟨h1, _⟩ | ⟨h1, _⟩
        · simp
        · simp
        all_goals omega
      | 2, h =>
        simp only [Option.some.injEq, Prod.mk.injEq] at h
        obtain ⟨rfl, _⟩ := h
        simp only [Live3', Vs3.swap, Vs3.get, Vs3.set, Vs3.getPv, Vs3.setPv, d2] at hc ⊢
        rcases hc with rfl | ⟨_, rfl⟩ | ⟨h1, _⟩ | ⟨h1, _⟩
        · simp
        · simp
        all_goals omega
      | (n + 3), h =>
        simp only [Option.some.injEq, Prod.mk.injEq] at h
        obtain ⟨rfl, _⟩ := h
        exact hc
    | face sd b0 b1 b2 =>
      simp only [Option.some.injEq, Prod.mk.injEq] at h
      obtain ⟨rfl, _⟩ := h
      simpa only [Live3'] using hc
    | solid =>
      simp only [Option.some.injEq, Prod.mk.injEq] at h
      obtain ⟨rfl, _⟩ := h
      exact hc
  · -- dim = 3: all four slots are live, any permutation / selection of them is fine
    have all4 : ∀ x, (x = s.v0 ∨ x = s.v1 ∨ x = s.v2 ∨ x = s.v3) → Live3' s x := by
      intro x hx
      simp only [Live3', d3]
      rcases hx with rfl | rfl | rfl | rfl <;> simp
    apply all4
    rcases ht : Tetrahedron.projectLoc ⟨s.v0.point, s.v1.point, s.v2.point, s.v3.point⟩ V3.zero true with ⟨pp, loc⟩ | _
    case panic => rw [ht] at h; simp at h
    case ok =>
      rw [ht] at h
      dsimp only at h
      cases loc with
      | vertex i =>
        dsimp only at h
        split_ifs at h with hi
        simp only [Option.some.injEq, Prod.mk.injEq] at h
        obtain ⟨rfl, _⟩ := h
        have hi4 : i = 0 ∨ i = 1 ∨ i = 2 ∨ i = 3 := by omega
        simp only [Live3'] at hc
        rcases hc with rfl | ⟨h1, _⟩ | ⟨h1, _⟩ | ⟨h1, _⟩
        · rcases hi4 with rfl | rfl | rfl | rfl <;> simp [Vs3.swap, Vs3.get, Vs3.set, Vs3.getPv, Vs3.setPv]
        all_goals simp at h1
      | edge i b0 b1 =>
        dsimp only at h
        match i, h with
        | 0, h | 1, h | 2, h | 3, h | 4, h | 5, h =>
          simp only [Nat.reduceEqDiff, or_false, or_true, ↓reduceIte, Option.some.injEq, Prod.mk.injEq] at h
          try norm_num at h
          obtain ⟨rfl, _⟩ := h
          simp only [Live3', Vs3.swap, Vs3.get, Vs3.set, Vs3.getPv, Vs3.setPv] at hc
          rcases hc with rfl | ⟨_, rfl⟩ | ⟨h1, _⟩ | ⟨h1, _⟩
          · simp
          · simp
          all_goals omega
        | (n + 6), h => simp at h
      | face i b0 b1 b2 =>
        match i, h with
        | 0, h | 1, h | 2, h | 3, h =>
          simp only [Option.some.injEq, Prod.mk.injEq] at h
          obtain ⟨rfl, _⟩ := h
          simp only [Live3'] at hc
          rcases hc with rfl | ⟨_, rfl⟩ | ⟨_, rfl⟩ | ⟨h1, _⟩
          · simp
          · simp
          · simp
          · omega
        | (n + 4), h => simp at h
      | solid =>
        simp only [Option.some.injEq, Prod.mk.injEq] at h
        obtain ⟨rfl, _⟩ := h
        simp only [Live3', d3] at hc
        rcases hc with rfl | ⟨_, rfl⟩ | ⟨_, rfl⟩ | ⟨_, rfl⟩ <;> simp

private theorem gjkBody3_exit_live (fs : V3 K → CSO3 K) (maxDist : Option K) (exact : Bool) (s s' : Vs3 K)
    (proj oldDir : V3 K) (maxBound : Option K) (r : GjkRes3 K) :
    letI := fieldNum K sq
    gjkBody3 fs maxDist exact s proj oldDir maxBound = .exit r s' →
    ∀ c, Live3' s' c → Live3' s c ∨ ∃ d, c = fs d := by
  letI := fieldNum K sq
  intro h c hc
  unfold gjkBody3 at h
  rcases ht : tryNewAndGet3 proj.neg epsTol with _ | ⟨dir, m⟩
  · rw [ht] at h
    simp only [GjkStep3.exit.injEq] at h
    obtain ⟨_, rfl⟩ := h
    exact Or.inl hc
  · rw [ht] at h
    dsimp only at h
    split_ifs at h with c1 c2 c3 c4 c5 c6
    all_goals try (simp only [GjkStep3.exit.injEq] at h; obtain ⟨_, rfl⟩ := h; exact Or.inl hc)
    all_goals
      rcases ha : s.addPoint (fs dir) with _ | ⟨s1, b⟩
      · rw [ha] at h
        simp only [GjkStep3.exit.injEq] at h
        obtain ⟨_, rfl⟩ := h
        exact Or.inl hc
      · rw [ha] at h
        have hl1 := addPoint3_live s s1 (fs dir) b ha
        cases b with
        | false =>
          dsimp only at h
          try split_ifs at h
          all_goals
            simp only [GjkStep3.exit.injEq] at h
            obtain ⟨_, rfl⟩ := h
            rcases hl1 c hc with h1 | h1
            · exact Or.inl h1
            · exact Or.inr ⟨dir, h1⟩
        | true =>
          dsimp only at h
          rcases hp : s1.projectOriginAndReduce with _ | ⟨s2, pr2⟩
          · rw [hp] at h
            simp only [GjkStep3.exit.injEq] at h
            obtain ⟨_, rfl⟩ := h
            rcases hl1 c hc with h1 | h1
            · exact Or.inl h1
            · exact Or.inr ⟨dir, h1⟩
          · rw [hp] at h
            dsimp only at h
            have hl2 := reduce3_live sq s1 s2 pr2 hp
            try split_ifs at h
            all_goals
              simp only [GjkStep3.exit.injEq] at h
              obtain ⟨_, rfl⟩ := h
              rcases hl1 c (hl2 c hc) with h1 | h1
              · exact Or.inl h1
              · exact Or.inr ⟨dir, h1⟩

/-- **the simplex `gjk::closest_points` leaves behind consists of support points** (3-D; all exits except the 100-iteration
fallback): every live vertex (`dimension() + 1` of the four slots) is `from_shapes(d)` for some direction `d` — through `add_point`,
the swaps and the face selections of `project_origin_and_reduce` (vertex, 6 edges, 4 faces of the tetrahedron). -/
theorem gjkSimplex3_from_shapes (fs : V3 K → CSO3 K) (t : V3 K) (pred : K) (init : Option (V3 K)) (s0 : Vs3 K) (r : GjkRes3 K) (s' : Vs3 K) :
    letI := fieldNum K sq
    closestPointsSmSmWithParams3 fs t pred s0 init = (r, s') →
    r = .noIntersection ⟨1, 0, 0⟩ ∨ ∀ c, Live3' s' c → ∃ d, c = fs d := by
  letI := fieldNum K sq
  intro h
  unfold closestPointsSmSmWithParams3 at h
  obtain ⟨hd0, _, d0, hv0⟩ := gjkStart3_spec fs t init s0
  have hstart : ∀ c, Live3' (gjkStart3 fs t init s0) c → ∃ d, c = fs d := by
    intro c hc
    simp only [Live3', hd0] at hc
    rcases hc with rfl | ⟨h1, _⟩ | ⟨h2, _⟩ | ⟨h2, _⟩
    · exact ⟨d0, hv0 s0⟩
    all_goals omega
  unfold gjkClosestPoints3 at h
  rcases hp : (gjkStart3 fs t init s0).projectOriginAndReduce with _ | ⟨s1, pr⟩
  · rw [hp] at h
    simp only [Prod.mk.injEq] at h
    obtain ⟨_, rfl⟩ := h
    exact Or.inr hstart
  · rw [hp] at h
    dsimp only at h
    have h1 : ∀ c, Live3' s1 c → ∃ d, c = fs d := fun c hc => hstart c (reduce3_live sq _ _ _ hp c hc)
    rcases htn : C10.tryNew3 pr 0 with _ | pd
    · rw [htn] at h
      simp only [Prod.mk.injEq] at h
      obtain ⟨_, rfl⟩ := h
      exact Or.inr h1
    · rw [htn] at h
      have := gjkLoop3_inv fs (some pred) true (fun s _ => ∀ c, Live3' s c → ∃ d, c = fs d)
        (by
          intro s proj oldDir mbd s2 pr2 d mb hi hb c hc
          obtain ⟨sa, _, ha, hr⟩ := gjkBody3_next_dir fs (some pred) true s s2 proj oldDir pr2 d mbd mb hb
          rcases addPoint3_live s sa (fs d) true ha c (reduce3_live sq sa s2 pr2 hr c hc) with hh | hh
          · exact hi c hh
          · exact ⟨d, hh⟩)
        100 s1 pr pd.neg none r s' h1 h
      rcases this with hfb | ⟨sx, px, ox, mx, hix, hbx⟩
      · exact Or.inl hfb
      · right
        intro c hc
        rcases gjkBody3_exit_live sq fs (some pred) true sx s' px ox mx r hbx c hc with hh | hh
        · exact hix c hh
        · exact hh

private theorem vs3Points_mem {K : Type} [Num K] (s : Vs3 K) (v : CSOPoint3 K) (hv : v ∈ vs3Points s) :
    ∃ c, Live3' s c ∧ v = ⟨c.point, c.orig1, c.orig2⟩ := by
  unfold vs3Points at hv
  simp only [List.mem_map, List.mem_range] at hv
  obtain ⟨i, hi, rfl⟩ := hv
  match i, hi with
  | 0, _ => exact ⟨s.v0, Or.inl rfl, rfl⟩
  | 1, hi => exact ⟨s.v1, Or.inr (Or.inl ⟨by omega, rfl⟩), rfl⟩
  | 2, hi => exact ⟨s.v2, Or.inr (Or.inr (Or.inl ⟨by omega, rfl⟩)), rfl⟩
  | (n + 3), hi => exact ⟨s.v3, Or.inr (Or.inr (Or.inr ⟨by omega, rfl⟩)), rfl⟩

/-- **the EPA arm of the complete 3-D function: EPA's precondition is established by GJK, and the result is a valid certificate.**
When GJK answers `Intersection` on a simplex of dimension ≥ 1, every vertex handed to EPA is a genuine CSO point of the two point
sets (loop invariant `gjkSimplex3_from_shapes`), hence a returned contact has witnesses that are barycentric combinations of
support points (`Epa3Out`), `dist = (pos12·point2 - point1)·normal1`, `normal2 = -normal1` in frame 1, a unit (or zero)
`normal1`, and `-dist ≤` every bound of `(x1 - x2)·normal1` over the shapes (or both witnesses are the frame origins: the
`OnSolid` start face). -/
theorem contactSmSm3_epa_arm (hs : LawfulSqrt sq) (pos12 : Iso3 K) (hu : Unit3 pos12)
    (S1 S2 : V3 K → Prop) (supp1 supp2 : V3 K → V3 K) (h1 : ∀ d, S1 (supp1 d)) (h2 : ∀ d, S2 (supp2 d))
    (pred : K) (fuel : Nat) (c : Contact3 K)
    (h : letI := fieldNum K sq; contactSmSm3 pos12 supp1 supp2 pred fuel = some (some c))
    (hi : letI := fieldNum K sq;
      (closestPointsSmSmWithParams3 (fromShapes3 supp1 supp2) pos12.t pred Vs3.new (some pos12.t)).1 = .intersection)
    (hd : letI := fieldNum K sq;
      1 ≤ (closestPointsSmSmWithParams3 (fromShapes3 supp1 supp2) pos12.t pred Vs3.new (some pos12.t)).2.dim) :
    letI := fieldNum K sq
    Epa3Out sq S1 S2 c.point1 (pos12.act c.point2) c.normal1 ∧
    c.dist = ((pos12.act c.point2).x - c.point1.x) * c.normal1.x + ((pos12.act c.point2).y - c.point1.y) * c.normal1.y +
      ((pos12.act c.point2).z - c.point1.z) * c.normal1.z ∧
    pos12.rot c.normal2 = c.normal1.neg ∧
    (c.normal1 = ⟨0, 0, 0⟩ ∨ c.normal1.x * c.normal1.x + c.normal1.y * c.normal1.y + c.normal1.z * c.normal1.z = 1) ∧
    (∀ H : K, (∀ x1 x2 : V3 K, S1 x1 → S2 x2 →
        (x1.x - x2.x) * c.normal1.x + (x1.y - x2.y) * c.normal1.y + (x1.z - x2.z) * c.normal1.z ≤ H) →
      (c.point1 = ⟨0, 0, 0⟩ ∧ pos12.act c.point2 = ⟨0, 0, 0⟩) ∨ -c.dist ≤ H) := by
  letI := fieldNum K sq
  rcases contactSmSm3_cases pos12 supp1 supp2 pred fuel (some c) h with ⟨p1, p2, n, hg, _⟩ | ⟨d, hg, _⟩ | ⟨_, he⟩
  · rw [hi] at hg; simp at hg
  · rw [hi] at hg; simp at hg
  · rcases hg : closestPointsSmSmWithParams3 (fromShapes3 supp1 supp2) pos12.t pred Vs3.new (some pos12.t) with ⟨r, s'⟩
    rw [hg] at hi hd he
    dsimp only at hi hd he
    subst hi
    have hlive : ∀ c, Live3' s' c → ∃ d, c = fromShapes3 supp1 supp2 d := by
      rcases gjkSimplex3_from_shapes sq _ _ _ _ _ _ _ hg with hfb | hl
      · simp at hfb
      · exact hl
    have hsim : ∀ v ∈ vs3Points s', CsoOf3 S1 S2 v := by
      intro v hv
      obtain ⟨c0, hc0, rfl⟩ := vs3Points_mem s' v hv
      obtain ⟨d, rfl⟩ := hlive c0 hc0
      exact ⟨rfl, h1 _, h2 _⟩
    have hlen : 2 ≤ (vs3Points s').length := by simp [vs3Points]; omega
    exact contactFromEpa3_consistent sq hs pos12 hu S1 S2 supp1 supp2 h1 h2 fuel (vs3Points s') hsim hlen c he


/-! ### a `ClosestPoints` answer certifies disjointness (the verdict `contact.dist > 0 ⇒ no overlap`) -/

private theorem gjkEpsTol_eq : (letI := fieldNum K sq; (Model.Gjk.epsTol : K)) = 10 / 2 ^ 52 := by
  simp only [Model.Gjk.epsTol, Model.eps, fieldNum_lit]
  show ((mkRat 1 4503599627370496 : ℚ) : K) * ((mkRat 10 1 : ℚ) : K) = 10 / 2 ^ 52
  have h1 : ((mkRat 1 4503599627370496 : ℚ) : K) = 1 / 2 ^ 52 := by
    rw [show (mkRat 1 4503599627370496 : ℚ) = 1 / 2 ^ 52 by norm_num [Rat.mkRat_eq_div]]; push_cast; ring
  have h2 : ((mkRat 10 1 : ℚ) : K) = 10 := by
    rw [show (mkRat 10 1 : ℚ) = 10 by norm_num [Rat.mkRat_eq_div]]; push_cast; ring
  rw [h1, h2]; ring

private theorem gjkEpsRel_bounds (hs : LawfulSqrt sq) :
    letI := fieldNum K sq
    0 < (Model.Gjk.epsTol : K) ∧ 0 ≤ (Num.sqrt (Model.Gjk.epsTol : K) : K) ∧ (Num.sqrt (Model.Gjk.epsTol : K) : K) < 1 := by
  letI := fieldNum K sq
  have he := gjkEpsTol_eq (K := K) sq
  have hpos : (0 : K) < 10 / 2 ^ 52 := by positivity
  have hlt : (10 : K) / 2 ^ 52 < 1 := by
    rw [div_lt_one (by positivity)]; norm_num
  rw [he]
  have h0 : 0 ≤ sq (10 / 2 ^ 52) := hs.nonneg _ hpos.le
  have hm : sq (10 / 2 ^ 52) * sq (10 / 2 ^ 52) = 10 / 2 ^ 52 := hs.sq_mul _ hpos.le
  refine ⟨hpos, h0, ?_⟩
  by_contra hge
  push Not at hge
  have hge' : (1 : K) ≤ sq (10 / 2 ^ 52) := hge
  have : (1 : K) ≤ sq (10 / 2 ^ 52) * sq (10 / 2 ^ 52) := by nlinarith
  linarith

/-- **a `ClosestPoints` answer of the 2-D loop body certifies that the shapes do not overlap** — partial: it does so at two of
the four `ClosestPoints` return sites. If the pass left through the precision test `max_bound - min_bound ≤ ε_rel·max_bound`, or
because the simplex became a triangle while `min_bound ≥ ε_tol`, then the origin is not a point of the configuration-space
obstacle `C` (every `c ∈ C` has `|c| > 0`): the shapes are disjoint, in agreement with the positive `dist` the contact reports.
GAP (stated as the first two alternatives): the exits "upper bounds inconsistencies" (previous direction returned) and
"`add_point` refused the support point" carry no certificate. -/
theorem gjkBody2_closest_disjoint_partial (hs : LawfulSqrt sq) (C : V2 K → Prop) (fs : V2 K → CSO2 K) (hsup : SupportsCSO2 C fs)
    (maxDist : Option K) (s s' : Vs2 K) (proj oldDir p1 p2 d : V2 K) (maxBound : Option K) :
    letI := fieldNum K sq
    gjkBody2 fs maxDist true s proj oldDir maxBound = .exit (.closest p1 p2 d) s' →
    (d = oldDir ∧ s' = s) ∨ (∃ s1, s.addPoint (fs d) = some (s1, false)) ∨
    ∀ c, C c → 0 < c.x * c.x + c.y * c.y := by
  letI := fieldNum K sq
  intro h
  obtain ⟨hepos, hr0, hr1⟩ := gjkEpsRel_bounds sq hs
  obtain ⟨dir, mb, ht, hc⟩ := gjkBody2_closest_cases fs maxDist s s' proj oldDir p1 p2 d maxBound h
  obtain ⟨hunit, hmb, _, _⟩ := tryNewAndGet2_spec sq hs proj.neg dir epsTol mb ht
  rcases hc with ⟨e, _, _, e', _⟩ | ⟨rfl, _, _, _, htest⟩ | ⟨rfl, s1, ha, _⟩ | ⟨rfl, s1, s2, pr, _, _, _, hmin, _⟩
  · exact Or.inl ⟨e, e'⟩
  · right; right
    intro c hcC
    obtain ⟨_, hall⟩ := gjk_precise_certificate2 sq hs C fs hsup proj d mb (Num.sqrt epsTol) hr0 hr1.le ht htest
    have := hall c hcC
    have hp : 0 < (1 - Num.sqrt (epsTol : K)) * mb := mul_pos (by linarith) hmb
    nlinarith
  · exact Or.inr (Or.inl ⟨s1, ha⟩)
  · right; right
    intro c hcC
    have := gjk_lower_bound2 C d epsTol hunit hepos.le
      (fun c hc => by have := hsup d c hc; simp only [V2.dot] at hmin; linarith) c hcC
    nlinarith

/-- the same in 3-D (`gjkBody3`): precision exit, or tetrahedron with `min_bound ≥ ε_tol` ⇒ the origin is not in the obstacle -/
theorem gjkBody3_closest_disjoint_partial (hs : LawfulSqrt sq) (C : V3 K → Prop) (fs : V3 K → CSO3 K) (hsup : SupportsCSO3 C fs)
    (maxDist : Option K) (s s' : Vs3 K) (proj oldDir p1 p2 d : V3 K) (maxBound : Option K) :
    letI := fieldNum K sq
    gjkBody3 fs maxDist true s proj oldDir maxBound = .exit (.closest p1 p2 d) s' →
    (d = oldDir ∧ s' = s) ∨ (∃ s1, s.addPoint (fs d) = some (s1, false)) ∨
    ∀ c, C c → 0 < c.x * c.x + c.y * c.y + c.z * c.z := by
  letI := fieldNum K sq
  intro h
  obtain ⟨hepos, hr0, hr1⟩ := gjkEpsRel_bounds sq hs
  obtain ⟨dir, mb, ht, hc⟩ := gjkBody3_closest_cases fs maxDist s s' proj oldDir p1 p2 d maxBound h
  obtain ⟨hunit, hmb, _, _⟩ := tryNewAndGet3_spec sq hs proj.neg dir epsTol mb ht
  rcases hc with ⟨e, _, _, e', _⟩ | ⟨rfl, _, _, _, htest⟩ | ⟨rfl, s1, ha, _⟩ | ⟨rfl, s1, s2, pr, _, _, _, hmin, _⟩
  · exact Or.inl ⟨e, e'⟩
  · right; right
    intro c hcC
    obtain ⟨_, hall⟩ := gjk_precise_certificate3 sq hs C fs hsup proj d mb (Num.sqrt epsTol) hr0 hr1.le ht htest
    have := hall c hcC
    have hp : 0 < (1 - Num.sqrt (epsTol : K)) * mb := mul_pos (by linarith) hmb
    nlinarith
  · exact Or.inr (Or.inl ⟨s1, ha⟩)
  · right; right
    intro c hcC
    have := gjk_lower_bound3 C d epsTol hunit hepos.le
      (fun c hc => by have := hsup d c hc; simp only [V3.dot] at hmin; linarith) c hcC
    nlinarith

/-- non-vacuity of the hypotheses of `contactSmSm2_epa_arm` / `contactSmSm2_none_sound`: a unit rotation, a support function of
the rectangle `|x| ≤ 1, |y| ≤ 2` returning its corners, and the support contract for a set of CSO points -/
example : ((3 / 5 : ℚ) * (3 / 5) + (4 / 5) * (4 / 5) = 1) ∧
    (∀ d : V2 ℚ, (fun x : V2 ℚ => |x.x| ≤ 1 ∧ |x.y| ≤ 2) ⟨if 0 ≤ d.x then 1 else -1, if 0 ≤ d.y then 2 else -2⟩) ∧
    SupportsCSO2 (K := ℚ) (fun c => |c.x| ≤ 1 ∧ |c.y| ≤ 2)
      (fun d => ⟨⟨if 0 ≤ d.x then 1 else -1, if 0 ≤ d.y then 2 else -2⟩, ⟨0, 0⟩, ⟨0, 0⟩⟩) := by
  refine ⟨by norm_num, ?_, ?_⟩
  · intro d
    dsimp only
    split_ifs <;> norm_num
  · intro d c hc
    obtain ⟨h1, h2⟩ := hc
    have := abs_le.mp h1; have := abs_le.mp h2
    dsimp only
    split_ifs with a b b <;> nlinarith

/-! ### the key of a new EPA face (in support of `fixes/C02-epa3-new-face-noise.diff`)

`epa3.rs` pushes a new face with key `-dist` after having checked `dist ≥ curr_dist - 100ε`; `FaceId::new` rejects keys above
`10ε` and the `?` turns that into `None` for the whole query (known finding: overlapping balls, 1-D start). The proposed key is
`-max(dist, curr_dist)`. -/

/-- **the clamped key is always accepted and never precedes the face being expanded**: if `-curr_dist` was an accepted key (the
face being expanded came out of the heap), then `FaceId::new(id, -max(dist, curr_dist))` succeeds whatever `dist` is, with a key
`≤ -curr_dist` (the new face is not popped before faces at distance `curr_dist`). -/
theorem faceId_clamped_key_accepted (id id' : Nat) (dist curr : K) (f : FaceId2 K) :
    letI := fieldNum K sq
    FaceId2.new? id' (-curr) = some f →
    ∃ g, FaceId2.new? id (-(nmax dist curr)) = some g ∧ g.id = id ∧ g.negDist = -(max dist curr) ∧ g.negDist ≤ f.negDist := by
  letI := fieldNum K sq
  intro h
  unfold FaceId2.new? at h ⊢
  split_ifs at h with hc
  simp only [Option.some.injEq] at h
  subst h
  have hm : nmax dist curr = max dist curr := fieldNum_nmax sq dist curr
  rw [hm]
  have hle : -(max dist curr) ≤ -curr := neg_le_neg (le_max_right _ _)
  rw [if_neg (by intro hlt; exact hc (lt_of_lt_of_le hlt hle))]
  exact ⟨_, rfl, rfl, rfl, hle⟩

/-- **in exact arithmetic the clamp changes nothing**: the distance of a new face of the expanded polytope is never below the
distance of the face being expanded (`curr_dist ≤ dist`), and then `max(dist, curr_dist) = dist`: the repair only affects
differences that are rounding noise. -/
theorem faceId_clamped_key_exact (dist curr : K) (h : curr ≤ dist) :
    letI := fieldNum K sq
    nmax dist curr = dist := by
  letI := fieldNum K sq
  rw [fieldNum_nmax sq dist curr]
  exact max_eq_left h

example : (letI := fieldNum ℚ (fun x => x); FaceId2.new? 7 (-(0 : ℚ))) = some ⟨7, -0⟩ := by
  simp only [FaceId2.new?, epaGjkEpsTol, epsDefault, fieldNum_lit]
  norm_num [Rat.mkRat_eq_div]

end field

end C02
