import ParryModel.Field
import ParryModel.C03.Lemmas
import ParryModel.C02.Epa3Lemmas
import ParryModel.C02.Theorems3
/-!
# C02 follow-up 4: partial correctness of the 3-D Expanding Polytope Algorithm (`epa3.rs`)

`Model.epa3ClosestPoints` (Epa3.lean) is the literal transliteration of the 3-D `EPA::closest_points` (bit-exact
correspondence leg `epa3`).  For every exit of the function started from a simplex of dimension ≥ 1 (any point sets, any
support functions returning points of them, any linearly ordered field):

* `epa3_result_spec` — a returned `(p1, p2, n)` is made of three CSO points `a b c` of the final polytope
  (`point = orig1 - orig2`, `orig1 ∈ S1`, `orig2 ∈ S2`): `p1 = b0·a.orig1 + b1·b.orig1 + b2·c.orig1`, `p2` likewise, with
  `b0 + b1 + b2 = 1` (or all three zero: the triangle projection answered `OnSolid` on a degenerate start face), and `n` is
  `ccw_face_normal(a, b, c)` (or zero when that failed: the `null-contact` finding);
* `ccwFaceNormal3_spec` — that normal is a unit vector orthogonal to both edges;
* `epa3_depth_is_face_plane_distance`, `epa3_depth_le_overlap_along_normal` — the reported depth `(p1 - p2)·n` equals `a·n`
  (the distance of the face plane from the origin) and therefore never exceeds the overlap of the shapes along `n`.
-/
namespace C02
open Model C03

variable {K : Type} [Field K] [LinearOrder K] [IsStrictOrderedRing K] (sq : K → K)

def CsoOf3 (S1 S2 : V3 K → Prop) (v : CSOPoint3 K) : Prop :=
  v.point = ⟨v.orig1.x - v.orig2.x, v.orig1.y - v.orig2.y, v.orig1.z - v.orig2.z⟩ ∧ S1 v.orig1 ∧ S2 v.orig2

/-- what a result `(p1, p2, n)` of the 3-D EPA is made of -/
def Epa3Out (S1 S2 : V3 K → Prop) (p1 p2 n : V3 K) : Prop :=
  ∃ (a b c : CSOPoint3 K) (b0 b1 b2 : K), CsoOf3 S1 S2 a ∧ CsoOf3 S1 S2 b ∧ CsoOf3 S1 S2 c ∧
    (b0 + b1 + b2 = 1 ∨ (b0 = 0 ∧ b1 = 0 ∧ b2 = 0)) ∧
    p1 = ⟨b0 * a.orig1.x + b1 * b.orig1.x + b2 * c.orig1.x, b0 * a.orig1.y + b1 * b.orig1.y + b2 * c.orig1.y,
          b0 * a.orig1.z + b1 * b.orig1.z + b2 * c.orig1.z⟩ ∧
    p2 = ⟨b0 * a.orig2.x + b1 * b.orig2.x + b2 * c.orig2.x, b0 * a.orig2.y + b1 * b.orig2.y + b2 * c.orig2.y,
          b0 * a.orig2.z + b1 * b.orig2.z + b2 * c.orig2.z⟩ ∧
    (letI := fieldNum K sq
     ccwFaceNormal3 a.point b.point c.point = some n ∨ (ccwFaceNormal3 a.point b.point c.point = none ∧ n = ⟨0, 0, 0⟩))

private theorem bcOK3_sum (b0 b1 b2 : K) (h : letI := fieldNum K sq; BcOK3 b0 b1 b2) :
    b0 + b1 + b2 = 1 ∨ (b0 = 0 ∧ b1 = 0 ∧ b2 = 0) := by
  rcases h with ⟨h0, h1, h2⟩ | ⟨h0, h1, h2⟩ | ⟨h0, h1, h2⟩ | ⟨x, h0, h1, h2⟩ | ⟨x, h0, h1, h2⟩ | ⟨x, h0, h1, h2⟩ |
    ⟨v, w, h0, h1, h2⟩ | ⟨h0, h1, h2⟩
  all_goals first
    | (right; exact ⟨h0, h1, h2⟩)
    | (left; rw [h0, h1, h2]; ring)

/-- **Every exit of the 3-D EPA returns the barycentric combination of three support points and the normal of their face.** -/
theorem epa3_result_spec (S1 S2 : V3 K → Prop) (supp1 supp2 : V3 K → V3 K)
    (h1 : ∀ d, S1 (supp1 d)) (h2 : ∀ d, S2 (supp2 d)) (fuel : Nat) (simplex : List (CSOPoint3 K))
    (hsim : ∀ v ∈ simplex, CsoOf3 S1 S2 v) (hlen : 2 ≤ simplex.length) (p1 p2 n : V3 K) (why : Epa2Exit)
    (hr : letI := fieldNum K sq; epa3ClosestPoints supp1 supp2 fuel simplex = .some p1 p2 n why) :
    Epa3Out sq S1 S2 p1 p2 n := by
  letI := fieldNum K sq
  have := closestPoints3_ok (K := K) (CsoOf3 S1 S2) (supp1 := supp1) (supp2 := supp2)
    (fun d => ⟨rfl, h1 _, h2 _⟩) fuel simplex hsim hlen
  rw [hr] at this
  obtain ⟨a, b, c, b0, b1, b2, ga, gb, gc, hbc, hn, hp1, hp2⟩ := this
  refine ⟨a, b, c, b0, b1, b2, ga, gb, gc, bcOK3_sum sq b0 b1 b2 hbc, ?_, ?_, hn⟩
  · rw [hp1]; simp only [V3.add, V3.smul]; congr 1 <;> ring
  · rw [hp2]; simp only [V3.add, V3.smul]; congr 1 <;> ring

example : CsoOf3 (fun p : V3 ℚ => |p.x| ≤ 1) (fun p => |p.x - 1| ≤ 1) ⟨⟨1, 2, 0⟩, ⟨1, 1, 0⟩, ⟨0, -1, 0⟩⟩ := by
  refine ⟨by norm_num, ?_, ?_⟩ <;> norm_num [abs_le]

/-- **`ccw_face_normal` (dim3)**: when it succeeds the result is a unit vector orthogonal to the edges `a → b` and `a → c`. -/
theorem ccwFaceNormal3_spec (hs : LawfulSqrt sq) (a b c n : V3 K)
    (h : letI := fieldNum K sq; ccwFaceNormal3 a b c = some n) :
    n.x * n.x + n.y * n.y + n.z * n.z = 1 ∧
    n.x * (b.x - a.x) + n.y * (b.y - a.y) + n.z * (b.z - a.z) = 0 ∧
    n.x * (c.x - a.x) + n.y * (c.y - a.y) + n.z * (c.z - a.z) = 0 := by
  have hsqrt : ∀ x, @Num.sqrt K (fieldNum K sq) x = sq x := fun _ => rfl
  simp only [ccwFaceNormal3, unitTryNew3, V3.sub, V3.cross, V3.normSq, V3.dot, V3.sdiv, hsqrt] at h
  split_ifs at h with c1
  simp only [Option.some.injEq] at h
  set L : K := ((b.y - a.y) * (c.z - a.z) - (b.z - a.z) * (c.y - a.y)) * ((b.y - a.y) * (c.z - a.z) - (b.z - a.z) * (c.y - a.y)) +
      ((b.z - a.z) * (c.x - a.x) - (b.x - a.x) * (c.z - a.z)) * ((b.z - a.z) * (c.x - a.x) - (b.x - a.x) * (c.z - a.z)) +
      ((b.x - a.x) * (c.y - a.y) - (b.y - a.y) * (c.x - a.x)) * ((b.x - a.x) * (c.y - a.y) - (b.y - a.y) * (c.x - a.x)) with hL
  have hpos : 0 < L := lt_of_le_of_lt (mul_self_nonneg _) c1
  have hss : sq L * sq L = L := hs.sq_mul L hpos.le
  have hne : sq L ≠ 0 := by
    intro h0; rw [h0, mul_zero] at hss; exact absurd hss.symm (ne_of_gt hpos)
  subst h
  refine ⟨?_, ?_, ?_⟩
  · simp only
    rw [div_mul_div_comm, div_mul_div_comm, div_mul_div_comm, ← add_div, ← add_div, hss, ← hL, div_self (ne_of_gt hpos)]
  · simp only; field_simp; ring
  · simp only; field_simp; ring

/-- **The reported depth is the distance of the face plane from the origin** (`= a·n`) when the coordinates sum to 1. -/
theorem epa3_depth_is_face_plane_distance (hs : LawfulSqrt sq) (S1 S2 : V3 K → Prop) (p1 p2 n : V3 K)
    (h : Epa3Out sq S1 S2 p1 p2 n) :
    (p1 = ⟨0, 0, 0⟩ ∧ p2 = ⟨0, 0, 0⟩) ∨
    ∃ a : CSOPoint3 K, CsoOf3 S1 S2 a ∧
      (p1.x - p2.x) * n.x + (p1.y - p2.y) * n.y + (p1.z - p2.z) * n.z = a.point.x * n.x + a.point.y * n.y + a.point.z * n.z := by
  obtain ⟨a, b, c, b0, b1, b2, ga, gb, gc, hsum, hp1, hp2, hn⟩ := h
  rcases hsum with hsum | ⟨z0, z1, z2⟩
  · right
    refine ⟨a, ga, ?_⟩
    have hax : a.point.x = a.orig1.x - a.orig2.x := by rw [ga.1]
    have hay : a.point.y = a.orig1.y - a.orig2.y := by rw [ga.1]
    have haz : a.point.z = a.orig1.z - a.orig2.z := by rw [ga.1]
    have hbx : b.point.x = b.orig1.x - b.orig2.x := by rw [gb.1]
    have hby : b.point.y = b.orig1.y - b.orig2.y := by rw [gb.1]
    have hbz : b.point.z = b.orig1.z - b.orig2.z := by rw [gb.1]
    have hcx : c.point.x = c.orig1.x - c.orig2.x := by rw [gc.1]
    have hcy : c.point.y = c.orig1.y - c.orig2.y := by rw [gc.1]
    have hcz : c.point.z = c.orig1.z - c.orig2.z := by rw [gc.1]
    have horth : n.x * (b.point.x - a.point.x) + n.y * (b.point.y - a.point.y) + n.z * (b.point.z - a.point.z) = 0 ∧
        n.x * (c.point.x - a.point.x) + n.y * (c.point.y - a.point.y) + n.z * (c.point.z - a.point.z) = 0 := by
      rcases hn with h | ⟨_, h⟩
      · exact (ccwFaceNormal3_spec sq hs a.point b.point c.point n h).2
      · rw [h]; constructor <;> ring
    have hb0 : b0 = 1 - b1 - b2 := by linarith
    rw [hp1, hp2, hb0]
    simp only
    linear_combination b1 * horth.1 + b2 * horth.2 - ((1 - b1 - b2) * n.x) * hax - ((1 - b1 - b2) * n.y) * hay -
      ((1 - b1 - b2) * n.z) * haz - (b1 * n.x) * hbx - (b1 * n.y) * hby - (b1 * n.z) * hbz -
      (b2 * n.x) * hcx - (b2 * n.y) * hcy - (b2 * n.z) * hcz
  · left
    rw [hp1, hp2, z0, z1, z2]
    constructor <;> (congr 1 <;> ring)

/-- **The reported depth never exceeds the true overlap along the returned normal** (3-D). -/
theorem epa3_depth_le_overlap_along_normal (hs : LawfulSqrt sq) (S1 S2 : V3 K → Prop) (p1 p2 n : V3 K)
    (h : Epa3Out sq S1 S2 p1 p2 n) (H : K)
    (hH : ∀ x1 x2 : V3 K, S1 x1 → S2 x2 → (x1.x - x2.x) * n.x + (x1.y - x2.y) * n.y + (x1.z - x2.z) * n.z ≤ H) :
    (p1 = ⟨0, 0, 0⟩ ∧ p2 = ⟨0, 0, 0⟩) ∨ (p1.x - p2.x) * n.x + (p1.y - p2.y) * n.y + (p1.z - p2.z) * n.z ≤ H := by
  rcases epa3_depth_is_face_plane_distance sq hs S1 S2 p1 p2 n h with h0 | ⟨a, ga, e⟩
  · exact Or.inl h0
  · right; rw [e, ga.1]; exact hH _ _ ga.2.1 ga.2.2

example : ∀ x1 x2 : V3 ℚ, |x1.x| ≤ 1 → |x2.x - 1| ≤ 1 →
    (x1.x - x2.x) * 1 + (x1.y - x2.y) * 0 + (x1.z - x2.z) * 0 ≤ 1 := by
  intro x1 x2 h1 h2
  have := abs_le.mp h1; have := abs_le.mp h2
  linarith [this.1]

/-- **Vertex/vertex start (3-D)**: the constant answer `(origin, origin, y)`. -/
theorem epa3_vertexVertex_origins (supp1 supp2 : V3 K → V3 K) (fuel : Nat) (v0 : CSOPoint3 K) :
    letI := fieldNum K sq
    epa3ClosestPoints supp1 supp2 fuel [v0] = .some ⟨0, 0, 0⟩ ⟨0, 0, 0⟩ ⟨0, 1, 0⟩ .vertexVertex := rfl

/-- **`contact_support_map_support_map` (3-D, EPA route) returns a self-consistent contact whose depth never exceeds the
true overlap along `normal1`** (unit rotation; after GJK reported `Intersection` on a simplex of dimension ≥ 1):
`dist = (pos12·point2 - point1)·normal1`, `pos12.rot normal2 = -normal1`, `normal1` is a unit vector or zero, the
witnesses are the `Epa3Out` combinations of support points, and `-dist ≤ H` for every bound `H` of `(x1 - x2)·normal1`
over the two shapes (unless both witnesses are the frame origins: the degenerate-start finding). -/
theorem contactFromEpa3_consistent (hs : LawfulSqrt sq) (pos12 : Iso3 K) (hu : Unit3 pos12)
    (S1 S2 : V3 K → Prop) (supp1 supp2 : V3 K → V3 K)
    (h1 : ∀ d, S1 (supp1 d)) (h2 : ∀ d, S2 (supp2 d)) (fuel : Nat) (simplex : List (CSOPoint3 K))
    (hsim : ∀ v ∈ simplex, CsoOf3 S1 S2 v) (hlen : 2 ≤ simplex.length) (c : Contact3 K)
    (hr : letI := fieldNum K sq; contactFromEpa3 pos12 supp1 supp2 fuel simplex = some (some c)) :
    letI := fieldNum K sq
    Epa3Out sq S1 S2 c.point1 (pos12.act c.point2) c.normal1 ∧
    c.dist = ((pos12.act c.point2).x - c.point1.x) * c.normal1.x + ((pos12.act c.point2).y - c.point1.y) * c.normal1.y +
      ((pos12.act c.point2).z - c.point1.z) * c.normal1.z ∧
    pos12.rot c.normal2 = c.normal1.neg ∧
    (c.normal1 = ⟨0, 0, 0⟩ ∨ c.normal1.x * c.normal1.x + c.normal1.y * c.normal1.y + c.normal1.z * c.normal1.z = 1) ∧
    (∀ H : K, (∀ x1 x2 : V3 K, S1 x1 → S2 x2 →
        (x1.x - x2.x) * c.normal1.x + (x1.y - x2.y) * c.normal1.y + (x1.z - x2.z) * c.normal1.z ≤ H) →
      (c.point1 = ⟨0, 0, 0⟩ ∧ pos12.act c.point2 = ⟨0, 0, 0⟩) ∨ -c.dist ≤ H) := by
  letI := fieldNum K sq
  unfold contactFromEpa3 at hr
  split at hr
  · rename_i p1 p2 n why hres
    simp only [Option.some.injEq] at hr
    have hout := epa3_result_spec sq S1 S2 supp1 supp2 h1 h2 fuel simplex hsim hlen p1 p2 n why hres
    have hact : pos12.act (pos12.invAct p2) = p2 := iso3_invAct_act' sq pos12 p2 hu
    have hrot : pos12.rot (pos12.invRot n.neg) = n.neg := rot_invRot sq pos12 n.neg hu
    subst hr
    simp only [hact]
    refine ⟨hout, ?_, hrot, ?_, ?_⟩
    · simp only [V3.sub, V3.dot]
    · obtain ⟨a, b, c', _, _, _, _, _, _, _, _, _, hn⟩ := hout
      rcases hn with h | ⟨_, h⟩
      · exact Or.inr (ccwFaceNormal3_spec sq hs a.point b.point c'.point n h).1
      · exact Or.inl h
    · intro H hH
      rcases epa3_depth_le_overlap_along_normal sq hs S1 S2 p1 p2 n hout H hH with h0 | hle
      · exact Or.inl h0
      · right
        simp only [V3.sub, V3.dot]
        linarith
  · cases hr
  · cases hr

example : Unit3 (⟨0, 0, 3/5, 4/5, ⟨1, -2, 3⟩⟩ : Iso3 ℚ) := by unfold Unit3; norm_num

end C02
