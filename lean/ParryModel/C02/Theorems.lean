import ParryModel.Field
import ParryModel.C02.Model
import ParryModel.C03.Lemmas
import ParryModel.C03.Theorems
import ParryModel.C02.Theorems2
import ParryModel.C02.Theorems3
import ParryModel.C02.Theorems4
import ParryModel.C02.Theorems5
/-!
# C02 property theorems for the closed forms: contacts are self-consistent certificates and the four overlap
verdicts agree.

Models: `contactBallBall`, `contactHS` / `contactSH`, `intersectionTestBallBall`, `distanceBallBall`,
`closestPointsBallBall`, and the half-space / support-map family of `C03/Model.lean`, at the lawful instance
`fieldNum K sq` (any linearly ordered field; `LawfulSqrt sq` where a square root is taken).
`C03.Unit3 m` is `|q|² = 1`.
-/
namespace C02
open Model C03

variable {K : Type} [Field K] [LinearOrder K] [IsStrictOrderedRing K] (sq : K → K)

/-- **Self-consistency of a `Contact`** whose `point1, normal1` live in the frame of shape 1 and `point2, normal2`
in the frame of shape 2, `pos12` being the pose of shape 2 in the frame of shape 1:
`|normal1| = 1`, `normal2 = -R12ᵀ normal1`, `dist = (pos12·point2 - point1)·normal1`. -/
def ContactConsistent (pos12 : Iso3 K) (c : Contact3 K) : Prop :=
  letI := fieldNum K sq
  c.normal1.normSq = 1 ∧ c.normal2 = (pos12.invRot c.normal1).neg ∧
  c.dist = ((pos12.act c.point2).sub c.point1).dot c.normal1

/-- the algebra shared by both branches of `contact_ball_ball`: unit `n` with `t·n = s` -/
private theorem ballBall_core (pos12 : Iso3 K) (n : V3 K) (r1 r2 s : K) (h : Unit3 pos12)
    (hn : n.x * n.x + n.y * n.y + n.z * n.z = 1)
    (htn : pos12.t.x * n.x + pos12.t.y * n.y + pos12.t.z * n.z = s) :
    letI := fieldNum K sq
    ((pos12.act ((pos12.invRot n).neg.smul r2)).sub (n.smul r1)).dot n = s - (r1 + r2) := by
  have e := rot_invRot sq pos12 n h
  obtain ⟨i, j, k, w, tx, ty, tz⟩ := pos12; obtain ⟨x, y, z⟩ := n
  simp only [Iso3.act, Iso3.invRot, Iso3.rot, Iso3.qv, Iso3.rotQ, V3.add, V3.sub, V3.neg, V3.smul, V3.cross, V3.dot,
    fieldNum_two, V3.mk.injEq] at e hn htn ⊢
  obtain ⟨e1, e2, e3⟩ := e
  linear_combination (-r2 * x) * e1 + (-r2 * y) * e2 + (-r2 * z) * e3 + htn + (-(r1 + r2)) * hn

private theorem sumsq_zero {a b c : K} (h : a * a + b * b + c * c = 0) : a = 0 ∧ b = 0 ∧ c = 0 := by
  have ha : a * a = 0 := by nlinarith [mul_self_nonneg a, mul_self_nonneg b, mul_self_nonneg c]
  have hb : b * b = 0 := by nlinarith [mul_self_nonneg a, mul_self_nonneg b, mul_self_nonneg c]
  have hc : c * c = 0 := by nlinarith [mul_self_nonneg a, mul_self_nonneg b, mul_self_nonneg c]
  exact ⟨mul_self_eq_zero.mp ha, mul_self_eq_zero.mp hb, mul_self_eq_zero.mp hc⟩

/-- **`contact_ball_ball` returns a self-consistent contact** (every input, coincident centres included):
unit `normal1`, `normal2 = -R12ᵀ normal1`, `dist = (pos12·point2 - point1)·normal1 = |centre2| - (r1 + r2)`,
and the witnesses are the points of the two spheres along the normals. -/
theorem contactBallBall_consistent (hs : LawfulSqrt sq) (pos12 : Iso3 K) (r1 r2 pred : K) (h : Unit3 pos12)
    (c : Contact3 K)
    (hc : letI := fieldNum K sq; contactBallBall pos12 r1 r2 pred = some c) :
    letI := fieldNum K sq
    ContactConsistent sq pos12 c ∧ c.dist = sq pos12.t.normSq - (r1 + r2) ∧
    c.point1 = c.normal1.smul r1 ∧ c.point2 = c.normal2.smul r2 := by
  have hsqrt : ∀ x, @Num.sqrt K (fieldNum K sq) x = sq x := fun _ => rfl
  simp only [contactBallBall, V3.normalize, V3.norm, fieldNum_neq, hsqrt] at hc
  split_ifs at hc with c1 c2
  · -- distinct centres: normal1 = t / |t|
    simp only [Option.some.injEq] at hc
    subst hc
    have hd0 : (0 : K) ≤ @V3.normSq K (fieldNum K sq) pos12.t := by
      simp only [V3.normSq, V3.dot]; nlinarith [mul_self_nonneg pos12.t.x, mul_self_nonneg pos12.t.y, mul_self_nonneg pos12.t.z]
    have hss := hs.sq_mul _ hd0
    have hne : @V3.normSq K (fieldNum K sq) pos12.t ≠ 0 := by simpa using c2
    have hs0 : sq (@V3.normSq K (fieldNum K sq) pos12.t) ≠ 0 := by
      intro h0; rw [h0] at hss; exact hne (by linarith)
    generalize hS : sq (@V3.normSq K (fieldNum K sq) pos12.t) = s at hss hs0 ⊢
    have hn : (pos12.t.x / s) * (pos12.t.x / s) + (pos12.t.y / s) * (pos12.t.y / s) + (pos12.t.z / s) * (pos12.t.z / s) = 1 := by
      simp only [V3.normSq, V3.dot] at hss; field_simp; linear_combination -hss
    have htn : pos12.t.x * (pos12.t.x / s) + pos12.t.y * (pos12.t.y / s) + pos12.t.z * (pos12.t.z / s) = s := by
      simp only [V3.normSq, V3.dot] at hss; field_simp; linear_combination -hss
    refine ⟨⟨?_, rfl, ?_⟩, rfl, rfl, rfl⟩
    · simpa [V3.normSq, V3.dot, V3.sdiv] using hn
    · exact (ballBall_core sq pos12 ⟨pos12.t.x / s, pos12.t.y / s, pos12.t.z / s⟩ r1 r2 s h hn htn).symm
  · -- coincident centres: normal1 = x axis, |t| = 0
    simp only [Option.some.injEq] at hc
    subst hc
    have hz : @V3.normSq K (fieldNum K sq) pos12.t = 0 := by simpa using c2
    have ht := sumsq_zero (by simpa [V3.normSq, V3.dot] using hz : pos12.t.x * pos12.t.x + pos12.t.y * pos12.t.y + pos12.t.z * pos12.t.z = 0)
    have hs0 : sq (@V3.normSq K (fieldNum K sq) pos12.t) = 0 := by
      have := hs.sq_mul 0 le_rfl
      rw [hz]; exact mul_self_eq_zero.mp this
    refine ⟨⟨?_, rfl, ?_⟩, rfl, rfl, rfl⟩
    · simp [V3.xAxis, V3.normSq, V3.dot]
    · rw [hs0]
      exact (ballBall_core sq pos12 ⟨1, 0, 0⟩ r1 r2 0 h (by ring) (by rw [ht.1, ht.2.1, ht.2.2]; ring)).symm

example : Unit3 (⟨0, 0, 3/5, 4/5, ⟨1, -2, 3⟩⟩ : Iso3 ℚ) := by unfold Unit3; norm_num

/-- **`contact_ball_ball` returns `None` exactly when the signed distance reaches `prediction`**
(`None ⇔ prediction ≤ |centre2| - (r1 + r2)`; at equality the code returns `None`, the half-space closed form
returns `Some` — a tie on a set of measure zero). -/
theorem contactBallBall_none_iff (hs : LawfulSqrt sq) (pos12 : Iso3 K) (r1 r2 pred : K) (hp : 0 ≤ r1 + r2 + pred) :
    letI := fieldNum K sq
    contactBallBall pos12 r1 r2 pred = none ↔ pred ≤ sq pos12.t.normSq - (r1 + r2) := by
  have hd0 : (0 : K) ≤ @V3.normSq K (fieldNum K sq) pos12.t := by
    simp only [V3.normSq, V3.dot]; nlinarith [mul_self_nonneg pos12.t.x, mul_self_nonneg pos12.t.y, mul_self_nonneg pos12.t.z]
  have hss := hs.sq_mul _ hd0
  have hsn := hs.nonneg _ hd0
  simp only [contactBallBall]
  generalize sq (@V3.normSq K (fieldNum K sq) pos12.t) = s at hss hsn ⊢
  generalize @V3.normSq K (fieldNum K sq) pos12.t = d at hss ⊢
  split_ifs with c
  · simp only [false_iff, not_le]
    nlinarith
  · simp only [true_iff]
    push Not at c
    nlinarith

example : (0 : ℚ) ≤ 1 + 2 + 0 := by norm_num

/-! ## half-space vs support map -/

/-- **`contact_halfspace_support_map` returns a self-consistent contact** for every support map `S`: unit normal
(the half-space normal), `normal2 = -R12ᵀ normal1`, `dist = (pos12·point2 - point1)·normal1`; `point1` lies on the
boundary plane of the half-space, `pos12·point2` is the support point, `dist = n·deepest ≤ prediction`. -/
theorem contactHS_consistent (pos12 : Iso3 K) (n : V3 K) (S : SupportMap3 K) (pred : K) (h : Unit3 pos12)
    (hn : n.x * n.x + n.y * n.y + n.z * n.z = 1) (c : Contact3 K)
    (hc : letI := fieldNum K sq; contactHS pos12 n S pred = some c) :
    letI := fieldNum K sq
    ContactConsistent sq pos12 c ∧ c.normal1 = n ∧ n.dot c.point1 = 0 ∧
    pos12.act c.point2 = S.supportToward pos12 n.neg ∧ c.dist = n.dot (S.supportToward pos12 n.neg) ∧ c.dist ≤ pred := by
  simp only [contactHS] at hc
  split_ifs at hc with c1
  simp only [Option.some.injEq] at hc
  subst hc
  have hact := (iso3_invAct_act' sq pos12 (S.supportToward pos12 (@V3.neg K (fieldNum K sq) n)) h)
  refine ⟨⟨?_, ?_, ?_⟩, rfl, ?_, hact, rfl, c1⟩
  · simpa [V3.normSq, V3.dot] using hn
  · exact invRot_neg sq pos12 n
  · simp only [hact]
    generalize S.supportToward pos12 (@V3.neg K (fieldNum K sq) n) = D
    obtain ⟨x, y, z⟩ := n; obtain ⟨a, b, c⟩ := D
    simp only [V3.sub, V3.smul, V3.dot] at hn ⊢
    linear_combination (-(x * a + y * b + z * c)) * hn
  · generalize S.supportToward pos12 (@V3.neg K (fieldNum K sq) n) = D
    obtain ⟨x, y, z⟩ := n; obtain ⟨a, b, c⟩ := D
    simp only [V3.sub, V3.smul, V3.dot] at hn ⊢
    linear_combination (-(x * a + y * b + z * c)) * hn

/-- **`contact_halfspace_support_map` returns `None` exactly when the signed distance exceeds `prediction`.** -/
theorem contactHS_none_iff (pos12 : Iso3 K) (n : V3 K) (S : SupportMap3 K) (pred : K) :
    letI := fieldNum K sq
    contactHS pos12 n S pred = none ↔ pred < n.dot (S.supportToward pos12 n.neg) := by
  simp only [contactHS]
  split_ifs with c
  · simp only [reduceCtorEq, false_iff, not_lt]; exact c
  · simp only [true_iff]; exact not_le.mp c

/-- consistency is preserved by `flipped` once the pose is inverted: the (corrected) mirrored wrappers
`contact_support_map_halfspace`, `contact_ball_convex_polyhedron` return self-consistent contacts whenever their
canonical sibling does. -/
theorem contactConsistent_flipped (pos12 : Iso3 K) (c : Contact3 K) (h : Unit3 pos12)
    (hc : ContactConsistent sq pos12 c) :
    letI := fieldNum K sq
    ContactConsistent sq pos12.inverse c.flipped := by
  obtain ⟨h1, h2, h3⟩ := hc
  have hq' : (-pos12.qi) * (-pos12.qi) + (-pos12.qj) * (-pos12.qj) + (-pos12.qk) * (-pos12.qk) + pos12.qw * pos12.qw = 1 := by
    unfold Unit3 at h; linear_combination h
  have ed := rotQ_dot sq ⟨-pos12.qi, -pos12.qj, -pos12.qk⟩ pos12.qw c.normal1 c.normal1 hq'
  have er := rot_invRot sq pos12 c.normal1 h
  have ed2 := rotQ_dot sq ⟨-pos12.qi, -pos12.qj, -pos12.qk⟩ pos12.qw
    ⟨c.point1.x - pos12.t.x, c.point1.y - pos12.t.y, c.point1.z - pos12.t.z⟩ c.normal1 hq'
  obtain ⟨i, j, k, w, tx, ty, tz⟩ := pos12
  obtain ⟨⟨p1x, p1y, p1z⟩, ⟨p2x, p2y, p2z⟩, ⟨n1x, n1y, n1z⟩, ⟨n2x, n2y, n2z⟩, d⟩ := c
  simp only [Contact3.flipped, ContactConsistent, Iso3.inverse, Iso3.act, Iso3.invRot, Iso3.rot, Iso3.qv, Iso3.rotQ,
    V3.add, V3.sub, V3.neg, V3.smul, V3.cross, V3.dot, V3.normSq, fieldNum_two, V3.mk.injEq, neg_neg] at h1 h2 h3 ed ed2 er ⊢
  obtain ⟨a1, a2, a3⟩ := h2
  obtain ⟨r1, r2, r3⟩ := er
  refine ⟨?_, ⟨?_, ?_, ?_⟩, ?_⟩
  · rw [a1, a2, a3]; linear_combination ed + h1
  · rw [a1, a2, a3]; linear_combination (-1 : K) * r1
  · rw [a1, a2, a3]; linear_combination (-1 : K) * r2
  · rw [a1, a2, a3]; linear_combination (-1 : K) * r3
  · rw [h3, a1, a2, a3]; first | linear_combination ed2 | linear_combination (-1 : K) * ed2

/-! ## the cuboid as a support map: `dist` is the signed separation -/

theorem fieldNum_copySign (d t0 : K) (hto : 0 ≤ t0) :
    @copySign K (fieldNum K sq) d t0 = if d < 0 then -t0 else t0 := by
  simp only [copySign, fieldNum_nabs, abs_of_nonneg hto, one_div, inv_lt_zero]

private theorem comp_max (d p he : K) (h1 : -he ≤ p) (h2 : p ≤ he) :
    d * p ≤ d * (if d < 0 then -he else he) := by
  split_ifs with c
  · nlinarith
  · push Not at c; nlinarith

/-- `Cuboid::local_support_point` is a point of the cuboid that maximises `⟪dir, ·⟫` over the cuboid. -/
theorem cuboid_localSupport_spec (he dir : V3 K) (hhe : 0 ≤ he.x ∧ 0 ≤ he.y ∧ 0 ≤ he.z) :
    letI := fieldNum K sq
    (Cuboid3.mk he).Mem (cuboidLocalSupport he dir) ∧
    ∀ p, (Cuboid3.mk he).Mem p → dir.dot p ≤ dir.dot (cuboidLocalSupport he dir) := by
  obtain ⟨hx, hy, hz⟩ := hhe
  simp only [cuboidLocalSupport, fieldNum_copySign sq _ _ hx, fieldNum_copySign sq _ _ hy, fieldNum_copySign sq _ _ hz,
    Cuboid3.Mem, V3.dot]
  constructor
  · refine ⟨⟨?_, ?_⟩, ⟨?_, ?_⟩, ?_, ?_⟩ <;> split_ifs <;> linarith
  · rintro p ⟨⟨a1, a2⟩, ⟨b1, b2⟩, c1, c2⟩
    have := comp_max dir.x p.x he.x a1 a2
    have := comp_max dir.y p.y he.y b1 b2
    have := comp_max dir.z p.z he.z c1 c2
    linarith

/-- **For a cuboid, the `dist` of `contact_halfspace_support_map` is the signed separation**: the reported support
point is a point of the posed cuboid and no point of the posed cuboid is lower along the half-space normal
(`dist = min_{p ∈ cuboid} n·(pos12·p)`).  Hence `dist > 0` is the separation distance and `dist ≤ 0` the overlap
depth along `normal1`. -/
theorem contactHS_cuboid_dist_is_separation (pos12 : Iso3 K) (n he : V3 K) (h : Unit3 pos12)
    (hhe : 0 ≤ he.x ∧ 0 ≤ he.y ∧ 0 ≤ he.z) :
    letI := fieldNum K sq
    (∃ q, (Cuboid3.mk he).Mem q ∧ (cuboidSupportMap he).supportToward pos12 n.neg = pos12.act q) ∧
    ∀ p, (Cuboid3.mk he).Mem p → n.dot ((cuboidSupportMap he).supportToward pos12 n.neg) ≤ n.dot (pos12.act p) := by
  have spec := cuboid_localSupport_spec sq he (@Iso3.invRot K (fieldNum K sq) pos12 (@V3.neg K (fieldNum K sq) n)) hhe
  refine ⟨⟨_, spec.1, rfl⟩, ?_⟩
  intro p hp
  have key := spec.2 p hp
  simp only [cuboidSupportMap]
  generalize @cuboidLocalSupport K (fieldNum K sq) he _ = ls at key ⊢
  rw [invRot_neg] at key
  have a1 := (iso3_invRot_dot sq pos12 n ls h).2
  have a2 := (iso3_invRot_dot sq pos12 n p h).2
  generalize @Iso3.invRot K (fieldNum K sq) pos12 n = u at key a1 a2
  simp only [Iso3.act]
  generalize @Iso3.rot K (fieldNum K sq) pos12 ls = A at a1 ⊢
  generalize @Iso3.rot K (fieldNum K sq) pos12 p = B at a2 ⊢
  simp only [V3.dot, V3.add, V3.neg] at key a1 a2 ⊢
  linarith

example : (0 : ℚ) ≤ 1 ∧ (0 : ℚ) ≤ 2 ∧ (0 : ℚ) ≤ 1/2 := by norm_num

/-! ## verdict agreement -/

/-- **half-space / support map: the four verdicts agree.**  For `margin ≥ 0`, `prediction ≥ 0` and a support map
whose `support_point` and `support_point_toward` coincide on the (unit) direction `-n`,
`intersection_test`, `distance == 0`, `closest_points == Intersecting` and `contact.dist <= 0` are all
`n·deepest ≤ 0`. -/
theorem halfspace_verdicts (pos12 : Iso3 K) (n : V3 K) (s : Shape3 K) (S : SupportMap3 K) (margin pred : K)
    (hS : letI := fieldNum K sq; s.supportMap = some S) (hm : 0 ≤ margin) (hp : 0 ≤ pred)
    (hsup : letI := fieldNum K sq; S.support pos12 n.neg = S.supportToward pos12 n.neg) :
    letI := fieldNum K sq
    verdicts (.halfspace n) s pos12 margin pred =
      some ⟨decide (n.dot (S.supportToward pos12 n.neg) ≤ 0), decide (n.dot (S.supportToward pos12 n.neg) ≤ 0),
            decide (n.dot (S.supportToward pos12 n.neg) ≤ 0), decide (n.dot (S.supportToward pos12 n.neg) ≤ 0)⟩ := by
  have hneg : ∀ D : V3 K, @V3.dot K (fieldNum K sq) n (@V3.neg K (fieldNum K sq) D) = -(@V3.dot K (fieldNum K sq) n D) := by
    intro D; simp only [V3.dot, V3.neg]; ring
  simp only [verdicts, mkVerdicts, detailsIntersectionTest, detailsDistance, detailsClosestPoints, detailsContact, hS, Option.map_some,
    intersectionTestHS, distanceHS, closestPointsHS, contactHS, hsup, hneg, fieldNum_nmax, fieldNum_neq, not_le.mpr (lt_of_le_of_lt hm (lt_add_one _)), hm]
  generalize @V3.dot K (fieldNum K sq) n (S.supportToward pos12 (@V3.neg K (fieldNum K sq) n)) = v
  by_cases hv : v ≤ 0
  · have h1 : -margin ≤ -v := by linarith
    have h2 : (0 : K) ≤ -v := by linarith
    have h3 : v ≤ pred := by linarith
    simp [hv, h1, h2, h3, ClosestPoints3.isIntersecting, contactNonPositive]
  · push Not at hv
    have h2 : ¬ (0 : K) ≤ -v := by linarith
    have h4 : max v 0 ≠ 0 := by rw [max_eq_left hv.le]; exact hv.ne'
    by_cases h1 : -margin ≤ -v <;> by_cases h3 : v ≤ pred <;>
      simp [not_le.mpr hv, h1, h2, h3, h4, ClosestPoints3.isIntersecting, contactNonPositive]

example : (Shape3.cuboid (⟨1, 2, 3⟩ : V3 ℚ)).supportMap = some (cuboidSupportMap ⟨1, 2, 3⟩) ∧ (0 : ℚ) ≤ 1 / 4 := by
  constructor
  · rfl
  · norm_num

/-- the hypothesis of `halfspace_verdicts` holds for the cuboid (definitionally) and for the ball with a unit normal -/
theorem support_eq_supportToward (hs : LawfulSqrt sq) (pos12 : Iso3 K) (n he : V3 K) (r : K)
    (hn : n.x * n.x + n.y * n.y + n.z * n.z = 1) :
    letI := fieldNum K sq
    (cuboidSupportMap he).support pos12 n.neg = (cuboidSupportMap he).supportToward pos12 n.neg ∧
    (ballSupportMap r).support pos12 n.neg = (ballSupportMap r).supportToward pos12 n.neg := by
  refine ⟨rfl, ?_⟩
  have h1 : sq 1 = 1 := by
    have a := hs.sq_mul 1 zero_le_one
    have b := hs.nonneg 1 zero_le_one
    nlinarith
  have hsqrt : ∀ x, @Num.sqrt K (fieldNum K sq) x = sq x := fun _ => rfl
  have hnn : @V3.normSq K (fieldNum K sq) (@V3.neg K (fieldNum K sq) n) = 1 := by
    simp only [V3.normSq, V3.dot, V3.neg]; linear_combination hn
  simp only [ballSupportMap, V3.normalize, V3.norm, hsqrt, hnn, h1, V3.sdiv, div_one]

/-- flipping the contact and the closest points does not change the verdicts -/
private theorem mkVerdicts_flip (it : Option Bool) (d : Option K) (cp : Option (Option (ClosestPoints3 K)))
    (c : Option (Option (Contact3 K))) :
    letI := fieldNum K sq
    mkVerdicts it d (cp.map (Option.map ClosestPoints3.flipped)) (c.map (Option.map Contact3.flipped)) = mkVerdicts it d cp c := by
  cases it <;> cases d <;> cases cp with
  | none => cases c <;> rfl
  | some cp =>
    cases cp with
    | none => cases c <;> rfl
    | some cp =>
      cases c with
      | none => rfl
      | some c => cases c <;> cases cp <;> rfl

/-- **the mirrored order gives the same four verdicts** (`(s, half-space)` at `pos12` = `(half-space, s)` at
`pos12⁻¹`), by the construction of the wrappers (the corrected `contact_support_map_halfspace` included). -/
theorem halfspace_verdicts_mirrored (pos12 : Iso3 K) (n : V3 K) (s : Shape3 K) (S : SupportMap3 K) (margin pred : K)
    (hS : letI := fieldNum K sq; s.supportMap = some S) :
    letI := fieldNum K sq
    verdicts s (.halfspace n) pos12 margin pred = verdicts (.halfspace n) s pos12.inverse margin pred := by
  cases s with
  | halfspace m => simp [Shape3.supportMap] at hS
  | ball r =>
    simp only [verdicts, detailsIntersectionTest, detailsDistance, detailsClosestPoints, detailsContact, Shape3.supportMap,
      Option.map_some, intersectionTestSH, distanceSH, closestPointsSH, contactSH]
    exact mkVerdicts_flip sq _ _ (some _) (some _)
  | cuboid he =>
    simp only [verdicts, detailsIntersectionTest, detailsDistance, detailsClosestPoints, detailsContact, Shape3.supportMap,
      Option.map_some, intersectionTestSH, distanceSH, closestPointsSH, contactSH]
    exact mkVerdicts_flip sq _ _ (some _) (some _)

/-- **ball / ball: the four verdicts agree.**  With `0 ≤ r1 + r2`, `margin ≥ 0` and `prediction > 0` all four are
`|centre2|² ≤ (r1 + r2)²`.  (With `prediction = 0` the contact verdict is the strict `<`: the four differ only when
the balls touch exactly, see `ballBall_verdicts_pred0`.) -/
theorem ballBall_verdicts (hs : LawfulSqrt sq) (pos12 : Iso3 K) (r1 r2 margin pred : K)
    (hr : 0 ≤ r1 + r2) (hm : 0 ≤ margin) (hp : 0 < pred) :
    letI := fieldNum K sq
    verdicts (.ball r1) (.ball r2) pos12 margin pred =
      some ⟨decide (pos12.t.normSq ≤ (r1 + r2) * (r1 + r2)), decide (pos12.t.normSq ≤ (r1 + r2) * (r1 + r2)),
            decide (pos12.t.normSq ≤ (r1 + r2) * (r1 + r2)), decide (pos12.t.normSq ≤ (r1 + r2) * (r1 + r2))⟩ := by
  have hd0 : (0 : K) ≤ @V3.normSq K (fieldNum K sq) pos12.t := by
    simp only [V3.normSq, V3.dot]; nlinarith [mul_self_nonneg pos12.t.x, mul_self_nonneg pos12.t.y, mul_self_nonneg pos12.t.z]
  have hss := hs.sq_mul _ hd0
  have hsn := hs.nonneg _ hd0
  have hsqrt : ∀ x, @Num.sqrt K (fieldNum K sq) x = sq x := fun _ => rfl
  simp only [verdicts, mkVerdicts, detailsIntersectionTest, detailsDistance, detailsClosestPoints, detailsContact,
    intersectionTestBallBall, distanceBallBall, closestPointsBallBall, contactBallBall, V3.norm, hsqrt, fieldNum_neq,
    not_le.mpr (lt_of_le_of_lt hm (lt_add_one _)), hm]
  generalize sq (@V3.normSq K (fieldNum K sq) pos12.t) = s at hss hsn ⊢
  generalize @V3.normSq K (fieldNum K sq) pos12.t = d at hss hd0 ⊢
  by_cases hI : d ≤ (r1 + r2) * (r1 + r2)
  · have h1 : s ≤ r1 + r2 := by nlinarith
    have h2 : s - margin ≤ r1 + r2 := by linarith
    have h3 : d < (r1 + r2 + pred) * (r1 + r2 + pred) := by nlinarith
    have h4 : s - (r1 + r2) ≤ 0 := by linarith
    simp [hI, h1, h2, h3, h4, ClosestPoints3.isIntersecting, contactNonPositive]
  · have hI' := not_le.mp hI
    have h1 : ¬ s ≤ r1 + r2 := by intro hc; nlinarith
    have h4 : ¬ s - (r1 + r2) ≤ 0 := by intro hc; exact h1 (by linarith)
    have h5 : s - (r1 + r2) ≠ 0 := by intro hc; exact h4 (by rw [hc])
    by_cases h2 : s - margin ≤ r1 + r2 <;> by_cases h3 : d < (r1 + r2 + pred) * (r1 + r2 + pred) <;>
      simp [hI, h1, h2, h3, h4, h5, ClosestPoints3.isIntersecting, contactNonPositive]

example : (0 : ℚ) ≤ 1 + 2 ∧ (0 : ℚ) ≤ 0 ∧ (0 : ℚ) < 1 / 100 := by norm_num

/-- ball / ball with `prediction = 0`: the first three verdicts are `|c|² ≤ (r1+r2)²`, the contact verdict is
`|c|² < (r1+r2)²` — they disagree exactly when the balls touch (separation 0), which the property excludes. -/
theorem ballBall_verdicts_pred0 (hs : LawfulSqrt sq) (pos12 : Iso3 K) (r1 r2 margin : K)
    (hr : 0 ≤ r1 + r2) (hm : 0 ≤ margin) :
    letI := fieldNum K sq
    verdicts (.ball r1) (.ball r2) pos12 margin 0 =
      some ⟨decide (pos12.t.normSq ≤ (r1 + r2) * (r1 + r2)), decide (pos12.t.normSq ≤ (r1 + r2) * (r1 + r2)),
            decide (pos12.t.normSq ≤ (r1 + r2) * (r1 + r2)), decide (pos12.t.normSq < (r1 + r2) * (r1 + r2))⟩ := by
  have hd0 : (0 : K) ≤ @V3.normSq K (fieldNum K sq) pos12.t := by
    simp only [V3.normSq, V3.dot]; nlinarith [mul_self_nonneg pos12.t.x, mul_self_nonneg pos12.t.y, mul_self_nonneg pos12.t.z]
  have hss := hs.sq_mul _ hd0
  have hsn := hs.nonneg _ hd0
  have hsqrt : ∀ x, @Num.sqrt K (fieldNum K sq) x = sq x := fun _ => rfl
  simp only [verdicts, mkVerdicts, detailsIntersectionTest, detailsDistance, detailsClosestPoints, detailsContact,
    intersectionTestBallBall, distanceBallBall, closestPointsBallBall, contactBallBall, V3.norm, hsqrt, fieldNum_neq,
    not_le.mpr (lt_of_le_of_lt hm (lt_add_one _)), hm, add_zero]
  generalize sq (@V3.normSq K (fieldNum K sq) pos12.t) = s at hss hsn ⊢
  generalize @V3.normSq K (fieldNum K sq) pos12.t = d at hss hd0 ⊢
  by_cases hI : d ≤ (r1 + r2) * (r1 + r2)
  · have h1 : s ≤ r1 + r2 := by nlinarith
    have h2 : s - margin ≤ r1 + r2 := by linarith
    have h4 : s - (r1 + r2) ≤ 0 := by linarith
    by_cases h3 : d < (r1 + r2) * (r1 + r2) <;>
      simp [hI, h1, h2, h3, h4, ClosestPoints3.isIntersecting, contactNonPositive]
  · have hI' := not_le.mp hI
    have h1 : ¬ s ≤ r1 + r2 := by intro hc; nlinarith
    have h3 : ¬ d < (r1 + r2) * (r1 + r2) := by intro hc; linarith
    have h4 : ¬ s - (r1 + r2) ≤ 0 := by intro hc; exact h1 (by linarith)
    have h5 : s - (r1 + r2) ≠ 0 := by intro hc; exact h4 (by rw [hc])
    by_cases h2 : s - margin ≤ r1 + r2 <;>
      simp [hI, h1, h2, h3, h4, h5, ClosestPoints3.isIntersecting, contactNonPositive]


/-! ## separating-axis test for two cuboids: soundness of `intersection_test_cuboid_cuboid` -/

/-- the two posed boxes share a point (`pos12` = pose of box 2 in the frame of box 1) -/
def BoxesMeet (he1 he2 : V3 K) (pos12 : Iso3 K) : Prop :=
  letI := fieldNum K sq
  ∃ p q, (Cuboid3.mk he1).Mem p ∧ (Cuboid3.mk he2).Mem q ∧ p = pos12.act q

/-- along ANY axis `a`, the support-point separation `(pos12·s2(-a) - s1(a))·a` is `≤ 0` when the boxes meet -/
private theorem axis_sound (he1 he2 a : V3 K) (pos12 : Iso3 K) (h : Unit3 pos12)
    (h1 : 0 ≤ he1.x ∧ 0 ≤ he1.y ∧ 0 ≤ he1.z) (h2 : 0 ≤ he2.x ∧ 0 ≤ he2.y ∧ 0 ≤ he2.z)
    (hm : BoxesMeet sq he1 he2 pos12) :
    letI := fieldNum K sq
    ((pos12.act (cuboidLocalSupport he2 (pos12.invRot a.neg))).sub (cuboidLocalSupport he1 a)).dot a ≤ 0 := by
  obtain ⟨p, q, hp, hq, hpq⟩ := hm
  have s1 := (cuboid_localSupport_spec sq he1 a h1).2 p hp
  have s2 := (cuboid_localSupport_spec sq he2 (@Iso3.invRot K (fieldNum K sq) pos12 (@V3.neg K (fieldNum K sq) a)) h2).2 q hq
  generalize @cuboidLocalSupport K (fieldNum K sq) he1 a = l1 at s1 ⊢
  generalize @cuboidLocalSupport K (fieldNum K sq) he2 _ = l2 at s2 ⊢
  rw [invRot_neg] at s2
  have a1 := (iso3_invRot_dot sq pos12 a q h).2
  have a2 := (iso3_invRot_dot sq pos12 a l2 h).2
  generalize @Iso3.invRot K (fieldNum K sq) pos12 a = u at s2 a1 a2
  subst hpq
  simp only [Iso3.act] at s1 ⊢
  generalize @Iso3.rot K (fieldNum K sq) pos12 q = A at s1 a1
  generalize @Iso3.rot K (fieldNum K sq) pos12 l2 = B at a2 ⊢
  simp only [V3.dot, V3.add, V3.sub, V3.neg] at s1 s2 a1 a2 ⊢
  linarith

private theorem lit_pos (n : ℕ) (hn : 0 < n) : (0 : K) < @lit K (fieldNum K sq) (n : ℤ) 1 := by
  simp only [fieldNum_lit]
  have : (0 : ℚ) < mkRat (n : ℤ) 1 := by rw [Rat.mkRat_one]; exact_mod_cast hn
  exact_mod_cast this

private theorem negRealMax_neg : @negRealMax K (fieldNum K sq) < 0 := by
  unfold negRealMax
  rw [neg_lt_zero]
  apply lit_pos
  apply Nat.mul_pos
  · exact Nat.sub_pos_of_lt (by norm_num)
  · exact pow_pos (by norm_num) _

private theorem foldl_inv {α β : Type} (Inv : β → Prop) (step : β → α → β) (hstep : ∀ b x, Inv b → Inv (step b x))
    (l : List α) (b : β) (hb : Inv b) : Inv (l.foldl step b) := by
  induction l generalizing b with
  | nil => exact hb
  | cons x xs ih => exact ih _ (hstep b x hb)

/-- the edge-edge pass never reports a positive separation for boxes that meet -/
private theorem satEdgeTwoway_sound (he1 he2 : V3 K) (pos12 : Iso3 K) (h : Unit3 pos12)
    (h1 : 0 ≤ he1.x ∧ 0 ≤ he1.y ∧ 0 ≤ he1.z) (h2 : 0 ≤ he2.x ∧ 0 ≤ he2.y ∧ 0 ≤ he2.z)
    (hm : BoxesMeet sq he1 he2 pos12) :
    letI := fieldNum K sq
    (satEdgeTwoway he1 he2 pos12).1 ≤ 0 := by
  unfold satEdgeTwoway
  apply foldl_inv (fun b : K × V3 K => b.1 ≤ 0)
  · intro b x hb
    simp only [satEdgeStep]
    split_ifs with c1 c2
    · exact axis_sound sq he1 he2 _ pos12 h h1 h2 hm
    · exact hb
    · exact hb
  · exact (negRealMax_neg sq).le

private theorem sign_cases (d : K) : @copySign K (fieldNum K sq) d 1 = 1 ∨ @copySign K (fieldNum K sq) d 1 = -1 := by
  rw [fieldNum_copySign sq d 1 zero_le_one]
  split_ifs <;> simp

/-- one face-normal candidate: `sign · pt2_i - he1_i ≤ 0` when the boxes meet -/
private theorem normal_step_sound (he1 he2 : V3 K) (pos12 : Iso3 K) (h : Unit3 pos12)
    (h2 : 0 ≤ he2.x ∧ 0 ≤ he2.y ∧ 0 ≤ he2.z) (hm : BoxesMeet sq he1 he2 pos12) (i : ℕ) (sg : K) (hsg : sg = 1 ∨ sg = -1) :
    letI := fieldNum K sq
    (pos12.act (cuboidLocalSupport he2 (pos12.invRot (V3.ith i sg).neg))).get i * sg - he1.get i ≤ 0 := by
  obtain ⟨p, q, hp, hq, hpq⟩ := hm
  have s2 := (cuboid_localSupport_spec sq he2 (@Iso3.invRot K (fieldNum K sq) pos12 (@V3.neg K (fieldNum K sq) (@V3.ith K (fieldNum K sq) i sg))) h2).2 q hq
  generalize @cuboidLocalSupport K (fieldNum K sq) he2 _ = l2 at s2 ⊢
  rw [invRot_neg] at s2
  have a1 := (iso3_invRot_dot sq pos12 (@V3.ith K (fieldNum K sq) i sg) q h).2
  have a2 := (iso3_invRot_dot sq pos12 (@V3.ith K (fieldNum K sq) i sg) l2 h).2
  generalize @Iso3.invRot K (fieldNum K sq) pos12 _ = u at s2 a1 a2
  subst hpq
  obtain ⟨⟨px1, px2⟩, ⟨py1, py2⟩, pz1, pz2⟩ := hp
  simp only [Iso3.act] at px1 px2 py1 py2 pz1 pz2 ⊢
  generalize @Iso3.rot K (fieldNum K sq) pos12 q = A at a1 px1 px2 py1 py2 pz1 pz2
  generalize @Iso3.rot K (fieldNum K sq) pos12 l2 = B at a2 ⊢
  simp only [V3.dot, V3.add, V3.neg] at s2 a1 a2 px1 px2 py1 py2 pz1 pz2 ⊢
  unfold V3.ith at a1 a2
  unfold V3.get
  by_cases i0 : i = 0
  · subst i0
    simp only [if_true] at a1 a2 ⊢
    rcases hsg with rfl | rfl <;> nlinarith
  · by_cases i1 : i = 1
    · subst i1
      simp only [Nat.one_ne_zero, if_true, if_false] at a1 a2 ⊢
      rcases hsg with rfl | rfl <;> nlinarith
    · simp only [i0, i1, if_false] at a1 a2 ⊢
      rcases hsg with rfl | rfl <;> nlinarith

/-- the face-normal pass never reports a positive separation for boxes that meet -/
private theorem satNormalOneway_sound (he1 he2 : V3 K) (pos12 : Iso3 K) (h : Unit3 pos12)
    (h2 : 0 ≤ he2.x ∧ 0 ≤ he2.y ∧ 0 ≤ he2.z)
    (hm : BoxesMeet sq he1 he2 pos12) :
    letI := fieldNum K sq
    (satNormalOneway he1 he2 pos12).1 ≤ 0 := by
  unfold satNormalOneway
  apply foldl_inv (fun b : K × V3 K => b.1 ≤ 0)
  · intro b i hb
    simp only [satNormalStep]
    split_ifs with c1
    · exact normal_step_sound sq he1 he2 pos12 h h2 hm i _ (sign_cases sq _)
    · exact hb
  · exact (negRealMax_neg sq).le

/-- **Soundness of `intersection_test_cuboid_cuboid` (3-D SAT)**: if the two posed cuboids share a point, the test
answers `true`; equivalently `false` certifies disjointness — whichever of the 3 + 3 + 9 axes produced the positive
separation.  (The converse — 15 axes suffice — is the separating-axis theorem for boxes and is covered here by the
exact rational 15-axis oracle, not by a proof.) -/
theorem intersectionTestCuboidCuboid_sound (he1 he2 : V3 K) (pos12 : Iso3 K) (h : Unit3 pos12)
    (h1 : 0 ≤ he1.x ∧ 0 ≤ he1.y ∧ 0 ≤ he1.z) (h2 : 0 ≤ he2.x ∧ 0 ≤ he2.y ∧ 0 ≤ he2.z)
    (hm : BoxesMeet sq he1 he2 pos12) :
    letI := fieldNum K sq
    intersectionTestCuboidCuboid pos12 he1 he2 = true := by
  have e1 := satNormalOneway_sound sq he1 he2 pos12 h h2 hm
  have hm' : BoxesMeet sq he2 he1 (@Iso3.inverse K (fieldNum K sq) pos12) := by
    obtain ⟨p, q, hp, hq, hpq⟩ := hm
    refine ⟨q, p, hq, hp, ?_⟩
    rw [hpq]; exact ((iso3_inverse_act sq pos12 q h).1).symm
  have e2 := satNormalOneway_sound sq he2 he1 _ (unit3_inverse sq pos12 h) h1 hm'
  have e3 := satEdgeTwoway_sound sq he1 he2 pos12 h h1 h2 hm
  simp only [intersectionTestCuboidCuboid, not_lt.mpr e1, not_lt.mpr e2, if_false, decide_eq_true_eq]
  exact e3

/-- the nine edge axes of the pass are exactly `e_i × (pos12 · e_j)`, all `i, j` (none missing, none repeated) -/
theorem satEdgeAxes_spec (pos12 : Iso3 K) :
    letI := fieldNum K sq
    satEdgeAxes pos12 =
      ([(⟨1, 0, 0⟩ : V3 K), ⟨0, 1, 0⟩, ⟨0, 0, 1⟩].flatMap fun c2 =>
        [(⟨1, 0, 0⟩ : V3 K), ⟨0, 1, 0⟩, ⟨0, 0, 1⟩].map fun c1 => c1.cross (pos12.rot c2)) := by
  simp only [satEdgeAxes, List.flatMap_cons, List.flatMap_nil, List.map_cons, List.map_nil, List.append_nil, List.cons_append,
    List.nil_append, V3.cross, List.cons.injEq, V3.mk.injEq, and_true]
  refine ⟨⟨?_, ?_, ?_⟩, ⟨?_, ?_, ?_⟩, ⟨?_, ?_, ?_⟩, ⟨?_, ?_, ?_⟩, ⟨?_, ?_, ?_⟩, ⟨?_, ?_, ?_⟩, ⟨?_, ?_, ?_⟩, ⟨?_, ?_, ?_⟩, ?_, ?_, ?_⟩ <;> ring

example : BoxesMeet (fun x : ℚ => x) ⟨1, 1, 1⟩ ⟨1, 2, 1⟩ ⟨0, 0, 3/5, 4/5, ⟨1, 0, 0⟩⟩ := by
  refine ⟨⟨1, 0, 0⟩, ⟨0, 0, 0⟩, ?_, ?_, ?_⟩
  · simp [Cuboid3.Mem]
  · simp [Cuboid3.Mem]
  · simp [Iso3.act, Iso3.rot, Iso3.rotQ, Iso3.qv, V3.cross, V3.smul, V3.add, Model.two]

end C02
