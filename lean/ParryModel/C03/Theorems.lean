import ParryModel.Field
import ParryModel.C03.Model
import ParryModel.C03.Lemmas
import ParryModel.C03.Sat
import ParryModel.C03.Theorems2
import ParryModel.C03.Theorems3
import ParryModel.C03.Theorems4
import ParryModel.C03.Wrap
/-!
# C03 property theorems: argument-order and frame independence.

All statements are about the model functions of `C03/Model.lean` (and the isometry layer of `Vec.lean`) at the
lawful instance `fieldNum K sq` — any linearly ordered field.  `Unit3 m` is `|q|² = 1` for the rotation of `m`.

Part 1: the isometry group (nalgebra's concrete quaternion formulas form a group acting by isometries).
Part 2: result-flipping helpers and the mirrored wrappers (swap of arguments = flip of the result).
Part 3: the free functions (`pos12 = pos1⁻¹·pos2`, back-transform): frame independence and swap symmetry.
Part 4: the pinned-tree defect, refuted by a concrete witness.
Part 5 (end of file, on top of `Theorems2.lean`): the closed-form cuboid/cuboid intersection test — argument order,
world frame, and soundness of the verdict "disjoint".
-/
namespace C03
open Model

variable {K : Type} [Field K] [LinearOrder K] [IsStrictOrderedRing K] (sq : K → K)

/-! ## Part 1 — the isometry group -/

/-- `inv_mul` is literally `inverse` followed by `mul` (component-wise, no unit hypothesis needed). -/
theorem iso3_invMul_eq_inverse_mul (a b : Iso3 K) :
    letI := fieldNum K sq
    a.invMul b = a.inverse.mul b := by
  simp only [Iso3.invMul, Iso3.inverse, Iso3.mul, Iso3.rot, Iso3.qv, Iso3.qmul, Iso3.rotQ, V3.add, V3.sub, V3.neg,
    V3.smul, V3.cross, fieldNum_two, Iso3.mk.injEq, V3.mk.injEq]
  refine ⟨trivial, trivial, trivial, trivial, ?_, ?_, ?_⟩ <;> ring

/-- `inverse_transform_point` is the action of the inverse isometry (component-wise). -/
theorem iso3_invAct_eq_inverse_act (m : Iso3 K) (p : V3 K) :
    letI := fieldNum K sq
    m.invAct p = m.inverse.act p := by
  simp only [Iso3.invAct, Iso3.invRot, Iso3.inverse, Iso3.act, Iso3.rot, Iso3.qv, Iso3.rotQ, V3.add, V3.sub, V3.neg,
    V3.smul, V3.cross, fieldNum_two, V3.mk.injEq]
  refine ⟨?_, ?_, ?_⟩ <;> ring

/-- `inverse_transform_vector` is the rotation of the inverse isometry. -/
theorem iso3_invRot_eq_inverse_rot (m : Iso3 K) (v : V3 K) :
    letI := fieldNum K sq
    m.invRot v = m.inverse.rot v := rfl

/-- the inverse of a unit isometry is a unit isometry -/
theorem unit3_inverse (m : Iso3 K) (h : Unit3 m) :
    letI := fieldNum K sq
    Unit3 m.inverse := by
  simp only [Unit3, Iso3.inverse, Iso3.qv, V3.neg] at h ⊢
  linear_combination h

/-- the product of unit isometries is a unit isometry (the quaternion norm is multiplicative) -/
theorem unit3_mul (a b : Iso3 K) (ha : Unit3 a) (hb : Unit3 b) :
    letI := fieldNum K sq
    Unit3 (a.mul b) :=
  qmul_unit sq ⟨a.qi, a.qj, a.qk⟩ a.qw ⟨b.qi, b.qj, b.qk⟩ b.qw ha hb

/-- `inv_mul` of unit isometries is a unit isometry -/
theorem unit3_invMul (a b : Iso3 K) (ha : Unit3 a) (hb : Unit3 b) :
    letI := fieldNum K sq
    Unit3 (a.invMul b) :=
  qmul_unit sq ⟨-a.qi, -a.qj, -a.qk⟩ a.qw ⟨b.qi, b.qj, b.qk⟩ b.qw (by unfold Unit3 at ha; linear_combination ha) hb

/-- **`inverse` is a two-sided inverse for the action on points.** -/
theorem iso3_inverse_act (m : Iso3 K) (p : V3 K) (h : Unit3 m) :
    letI := fieldNum K sq
    m.inverse.act (m.act p) = p ∧ m.act (m.inverse.act p) = p := by
  have e1 := invRot_rot sq m p h
  have e2 := rot_invRot sq m (V3.mk (p.x - m.t.x) (p.y - m.t.y) (p.z - m.t.z)) h
  obtain ⟨i, j, k, w, tx, ty, tz⟩ := m; obtain ⟨x, y, z⟩ := p
  simp only [Iso3.invRot, Iso3.inverse, Iso3.act, Iso3.rot, Iso3.qv, Iso3.rotQ, V3.add, V3.sub, V3.neg,
    V3.smul, V3.cross, fieldNum_two, V3.mk.injEq] at e1 e2 ⊢
  obtain ⟨a1, a2, a3⟩ := e1; obtain ⟨b1, b2, b3⟩ := e2
  refine ⟨⟨?_, ?_, ?_⟩, ⟨?_, ?_, ?_⟩⟩
  · linear_combination a1
  · linear_combination a2
  · linear_combination a3
  · linear_combination b1
  · linear_combination b2
  · linear_combination b3

/-- **`inverse_transform_point` undoes `transform_point`** (and conversely). -/
theorem iso3_invAct_act (m : Iso3 K) (p : V3 K) (h : Unit3 m) :
    letI := fieldNum K sq
    m.invAct (m.act p) = p ∧ m.act (m.invAct p) = p := by
  have := iso3_inverse_act sq m p h
  rw [iso3_invAct_eq_inverse_act, iso3_invAct_eq_inverse_act]
  exact this

/-- **The product acts as the composition** (`(a·b)•p = a•(b•p)`), on points and on vectors. -/
theorem iso3_mul_act (a b : Iso3 K) (p : V3 K) (ha : Unit3 a) (hb : Unit3 b) :
    letI := fieldNum K sq
    (a.mul b).act p = a.act (b.act p) ∧ (a.mul b).rot p = a.rot (b.rot p) := by
  have e := mul_rot sq a b p ha hb
  refine ⟨?_, e⟩
  obtain ⟨a0, a1, a2, aw, ax, ay, az⟩ := a; obtain ⟨b0, b1, b2, bw, bx, by', bz⟩ := b; obtain ⟨x, y, z⟩ := p
  simp only [Iso3.mul, Iso3.act, Iso3.rot, Iso3.qv, Iso3.qmul, Iso3.rotQ, V3.add, V3.smul, V3.cross, fieldNum_two,
    V3.mk.injEq] at e ⊢
  obtain ⟨e1, e2, e3⟩ := e
  refine ⟨?_, ?_, ?_⟩
  · linear_combination e1
  · linear_combination e2
  · linear_combination e3

/-- **A unit isometry preserves dot products of vectors and squared distances of points.** -/
theorem iso3_rot_dot (m : Iso3 K) (u v p r : V3 K) (h : Unit3 m) :
    letI := fieldNum K sq
    (m.rot u).dot (m.rot v) = u.dot v ∧ ((m.act p).sub (m.act r)).normSq = (p.sub r).normSq := by
  refine ⟨rotQ_dot sq ⟨m.qi, m.qj, m.qk⟩ m.qw u v h, ?_⟩
  have e := rotQ_dot sq ⟨m.qi, m.qj, m.qk⟩ m.qw (V3.mk (p.x - r.x) (p.y - r.y) (p.z - r.z))
    (V3.mk (p.x - r.x) (p.y - r.y) (p.z - r.z)) h
  obtain ⟨i, j, k, w, tx, ty, tz⟩ := m; obtain ⟨x, y, z⟩ := p; obtain ⟨x', y', z'⟩ := r
  simp only [Iso3.act, Iso3.rot, Iso3.qv, Iso3.rotQ, V3.add, V3.sub, V3.smul, V3.cross, V3.normSq, V3.dot,
    fieldNum_two] at e ⊢
  linear_combination e

/-- the inverse rotation also preserves dot products, and is adjoint to the rotation:
`⟪R⁻¹u, v⟫ = ⟪u, R v⟫`. -/
theorem iso3_invRot_dot (m : Iso3 K) (u v : V3 K) (h : Unit3 m) :
    letI := fieldNum K sq
    (m.invRot u).dot (m.invRot v) = u.dot v ∧ (m.invRot u).dot v = u.dot (m.rot v) := by
  have h' : (-m.qi) * (-m.qi) + (-m.qj) * (-m.qj) + (-m.qk) * (-m.qk) + m.qw * m.qw = 1 := by
    unfold Unit3 at h; linear_combination h
  have e1 := rotQ_dot sq ⟨-m.qi, -m.qj, -m.qk⟩ m.qw u v h'
  refine ⟨e1, ?_⟩
  obtain ⟨i, j, k, w, tx, ty, tz⟩ := m; obtain ⟨x, y, z⟩ := u; obtain ⟨x', y', z'⟩ := v
  simp only [Iso3.invRot, Iso3.rot, Iso3.qv, Iso3.rotQ, V3.add, V3.neg, V3.smul, V3.cross, V3.dot, fieldNum_two]
  ring

/-- **`inverse` is an involution** on unit isometries. -/
theorem iso3_inverse_inverse (m : Iso3 K) (h : Unit3 m) :
    letI := fieldNum K sq
    m.inverse.inverse = m := by
  have e := rot_invRot sq m m.t h
  obtain ⟨i, j, k, w, tx, ty, tz⟩ := m
  simp only [Iso3.inverse, Iso3.invRot, Iso3.rot, Iso3.qv, Iso3.rotQ, V3.add, V3.neg, V3.smul, V3.cross, fieldNum_two,
    Iso3.mk.injEq, V3.mk.injEq, neg_neg] at e ⊢
  obtain ⟨e1, e2, e3⟩ := e
  refine ⟨trivial, trivial, trivial, trivial, ?_, ?_, ?_⟩
  · linear_combination e1
  · linear_combination e2
  · linear_combination e3

/-- `identity` is a left unit. -/
theorem iso3_identity_mul (m : Iso3 K) :
    letI := fieldNum K sq
    Iso3.identity.mul m = m := by
  obtain ⟨i, j, k, w, tx, ty, tz⟩ := m
  simp only [Iso3.identity, Iso3.mul, Iso3.rot, Iso3.qv, Iso3.qmul, Iso3.rotQ, V3.add, V3.zero, V3.smul, V3.cross,
    fieldNum_two, Iso3.mk.injEq, V3.mk.injEq]
  refine ⟨?_, ?_, ?_, ?_, ?_, ?_, ?_⟩ <;> ring

/-- **`inverse` is a left inverse for `mul`**: `m⁻¹·m = identity`. -/
theorem iso3_inverse_mul_self (m : Iso3 K) (h : Unit3 m) :
    letI := fieldNum K sq
    m.inverse.mul m = Iso3.identity := by
  obtain ⟨i, j, k, w, tx, ty, tz⟩ := m
  simp only [Unit3, Iso3.identity, Iso3.inverse, Iso3.mul, Iso3.rot, Iso3.qv, Iso3.qmul, Iso3.rotQ, V3.add, V3.zero,
    V3.neg, V3.smul, V3.cross, fieldNum_two, Iso3.mk.injEq, V3.mk.injEq] at h ⊢
  refine ⟨?_, ?_, ?_, ?_, ?_, ?_, ?_⟩
  · ring
  · ring
  · ring
  · linear_combination h
  · ring
  · ring
  · ring

/-- **`inverse` is a right inverse for `mul`**: `m·m⁻¹ = identity`. -/
theorem iso3_mul_inverse_self (m : Iso3 K) (h : Unit3 m) :
    letI := fieldNum K sq
    m.mul m.inverse = Iso3.identity := by
  have e := rot_invRot sq m (V3.mk (-m.t.x) (-m.t.y) (-m.t.z)) h
  obtain ⟨i, j, k, w, tx, ty, tz⟩ := m
  simp only [Unit3, Iso3.identity, Iso3.inverse, Iso3.invRot, Iso3.mul, Iso3.rot, Iso3.qv, Iso3.qmul, Iso3.rotQ, V3.add,
    V3.zero, V3.neg, V3.smul, V3.cross, fieldNum_two, Iso3.mk.injEq, V3.mk.injEq] at h e ⊢
  obtain ⟨e1, e2, e3⟩ := e
  refine ⟨?_, ?_, ?_, ?_, ?_, ?_, ?_⟩
  · ring
  · ring
  · ring
  · linear_combination h
  · linear_combination e1
  · linear_combination e2
  · linear_combination e3

/-- **`mul` is associative** on unit isometries. -/
theorem iso3_mul_assoc (a b c : Iso3 K) (ha : Unit3 a) (hb : Unit3 b) :
    letI := fieldNum K sq
    (a.mul b).mul c = a.mul (b.mul c) := by
  have e := mul_rot sq a b c.t ha hb
  obtain ⟨a0, a1, a2, aw, ax, ay, az⟩ := a; obtain ⟨b0, b1, b2, bw, bx, by', bz⟩ := b
  obtain ⟨c0, c1, c2, cw, cx, cy, cz⟩ := c
  simp only [Iso3.mul, Iso3.rot, Iso3.qv, Iso3.qmul, Iso3.rotQ, V3.add, V3.smul, V3.cross, fieldNum_two,
    Iso3.mk.injEq, V3.mk.injEq] at e ⊢
  obtain ⟨e1, e2, e3⟩ := e
  refine ⟨?_, ?_, ?_, ?_, ?_, ?_, ?_⟩
  · ring
  · ring
  · ring
  · ring
  · linear_combination e1
  · linear_combination e2
  · linear_combination e3

/-- `identity` is a right unit. -/
theorem iso3_mul_identity (m : Iso3 K) :
    letI := fieldNum K sq
    m.mul Iso3.identity = m := by
  obtain ⟨i, j, k, w, tx, ty, tz⟩ := m
  simp only [Iso3.identity, Iso3.mul, Iso3.rot, Iso3.qv, Iso3.qmul, Iso3.rotQ, V3.add, V3.zero, V3.smul, V3.cross,
    fieldNum_two, Iso3.mk.injEq, V3.mk.injEq]
  refine ⟨?_, ?_, ?_, ?_, ?_, ?_, ?_⟩ <;> ring

local notation "inv'" => @Iso3.inverse K (fieldNum K sq)

/-- inverses are unique: a right inverse of `x` is `x⁻¹`. -/
theorem iso3_inverse_unique (x y : Iso3 K) (hx : Unit3 x)
    (h : letI := fieldNum K sq; x.mul y = Iso3.identity) :
    letI := fieldNum K sq
    x.inverse = y := by
  have e := iso3_mul_assoc sq (inv' x) x y (unit3_inverse sq x hx) hx
  rw [iso3_inverse_mul_self sq x hx, iso3_identity_mul, h, iso3_mul_identity] at e
  exact e.symm

private theorem mul_mul_inverses (a b : Iso3 K) (ha : Unit3 a) (hb : Unit3 b) :
    letI := fieldNum K sq
    (a.mul b).mul (b.inverse.mul a.inverse) = Iso3.identity := by
  rw [iso3_mul_assoc sq a b _ ha hb, ← iso3_mul_assoc sq b _ _ hb (unit3_inverse sq b hb),
    iso3_mul_inverse_self sq b hb, iso3_identity_mul, iso3_mul_inverse_self sq a ha]

/-- **`(a·b)⁻¹ = b⁻¹·a⁻¹`** for unit isometries. -/
theorem iso3_inverse_mul (a b : Iso3 K) (ha : Unit3 a) (hb : Unit3 b) :
    letI := fieldNum K sq
    (a.mul b).inverse = b.inverse.mul a.inverse :=
  iso3_inverse_unique sq _ _ (unit3_mul sq a b ha hb) (mul_mul_inverses sq a b ha hb)

/-- **Frame independence of `pos12`**: a common unit isometry `g` applied to both poses leaves
`pos1.inv_mul(pos2)` unchanged: `(g·p1)⁻¹(g·p2) = p1⁻¹p2`. -/
theorem iso3_invMul_frame (g p1 p2 : Iso3 K) (hg : Unit3 g) (h1 : Unit3 p1) :
    letI := fieldNum K sq
    (g.mul p1).invMul (g.mul p2) = p1.invMul p2 := by
  rw [iso3_invMul_eq_inverse_mul, iso3_invMul_eq_inverse_mul, iso3_inverse_mul sq g p1 hg h1,
    iso3_mul_assoc sq _ _ _ (unit3_inverse sq p1 h1) (unit3_inverse sq g hg),
    ← iso3_mul_assoc sq _ g p2 (unit3_inverse sq g hg) hg, iso3_inverse_mul_self sq g hg, iso3_identity_mul]

/-- **Swapping the poses inverts `pos12`**: `pos2.inv_mul(pos1) = (pos1.inv_mul(pos2))⁻¹`. -/
theorem iso3_invMul_swap (a b : Iso3 K) (ha : Unit3 a) (hb : Unit3 b) :
    letI := fieldNum K sq
    b.invMul a = (a.invMul b).inverse := by
  rw [iso3_invMul_eq_inverse_mul, iso3_invMul_eq_inverse_mul, iso3_inverse_mul sq _ b (unit3_inverse sq a ha) hb,
    iso3_inverse_inverse sq a ha]

example : Unit3 (⟨0, 0, 3/5, 4/5, ⟨1, -2, 3⟩⟩ : Iso3 ℚ) ∧ Unit3 (⟨1/2, -1/2, 1/2, 1/2, ⟨0, 7, 1/3⟩⟩ : Iso3 ℚ) := by
  unfold Unit3; norm_num

/-! ## Part 2 — flipping helpers and mirrored wrappers -/

/-- `Contact::flipped` is an involution. -/
theorem contact_flipped_flipped (c : Contact3 K) : c.flipped.flipped = c := rfl

/-- `ClosestPoints::flipped` is an involution. -/
theorem closestPoints_flipped_flipped (c : ClosestPoints3 K) : c.flipped.flipped = c := by
  cases c <;> rfl

/-- `ShapeCastHit::swapped` is an involution and keeps the time of impact and status. -/
theorem hit_swapped_swapped (h : ShapeCastHit3 K) :
    h.swapped.swapped = h ∧ h.swapped.toi = h.toi ∧ h.swapped.status = h.status := ⟨rfl, rfl, rfl⟩

/-- flipping commutes with the world transform once the poses are exchanged too (`Contact`). -/
theorem contact_flipped_transformBy (c : Contact3 K) (p1 p2 : Iso3 K) :
    letI := fieldNum K sq
    (c.transformBy p1 p2).flipped = c.flipped.transformBy p2 p1 := rfl

/-- flipping commutes with the world transform once the poses are exchanged too (`ClosestPoints`). -/
theorem closestPoints_flipped_transformBy (c : ClosestPoints3 K) (p1 p2 : Iso3 K) :
    letI := fieldNum K sq
    (c.transformBy p1 p2).flipped = c.flipped.transformBy p2 p1 := by
  cases c <;> rfl

/-- **ball/ball distance is symmetric**: swapping the balls (so `pos12 ↦ pos12⁻¹`) gives the same distance,
and the same intersection verdict. -/
theorem ballBall_distance_swap (pos12 : Iso3 K) (r1 r2 : K) (h : Unit3 pos12) :
    letI := fieldNum K sq
    distanceBallBall r2 pos12.inverse.t r1 = distanceBallBall r1 pos12.t r2 ∧
    intersectionTestBallBall pos12.inverse.t r2 r1 = intersectionTestBallBall pos12.t r1 r2 := by
  simp only [distanceBallBall, intersectionTestBallBall]
  rw [inverse_t_normSq sq pos12 h, add_comm r2 r1]
  exact ⟨rfl, rfl⟩

/-- **ball/ball contact is mirrored**: for distinct centres, `contact_ball_ball(pos12⁻¹, b2, b1)` is the flipped
`contact_ball_ball(pos12, b1, b2)` (same `dist`, same `None` verdict, points and normals exchanged). -/
theorem ballBall_contact_swap (pos12 : Iso3 K) (r1 r2 pred : K) (h : Unit3 pos12)
    (ht : pos12.t.x * pos12.t.x + pos12.t.y * pos12.t.y + pos12.t.z * pos12.t.z ≠ 0) :
    letI := fieldNum K sq
    contactBallBall pos12.inverse r2 r1 pred = (contactBallBall pos12 r1 r2 pred).map Contact3.flipped := by
  have e := rot_invRot sq pos12 ⟨-pos12.t.x, -pos12.t.y, -pos12.t.z⟩ h
  have hn : @V3.normSq K (fieldNum K sq) pos12.t ≠ 0 := by simpa [V3.normSq, V3.dot] using ht
  simp only [contactBallBall, V3.normalize, V3.norm]
  rw [inverse_t_normSq sq pos12 h, add_comm r2 r1]
  have hsqrt : ∀ x, @Num.sqrt K (fieldNum K sq) x = sq x := fun _ => rfl
  simp only [fieldNum_neq, hn, decide_false, Bool.not_false, if_true, hsqrt]
  generalize sq (@V3.normSq K (fieldNum K sq) pos12.t) = s
  split_ifs with c
  · obtain ⟨i, j, k, w, tx, ty, tz⟩ := pos12
    simp only [Option.map_some, Contact3.flipped, Iso3.inverse, Iso3.invRot, Iso3.rot, Iso3.qv, Iso3.rotQ, V3.add,
      V3.neg, V3.smul, V3.sdiv, V3.cross, fieldNum_two, Option.some.injEq, Contact3.mk.injEq, V3.mk.injEq, neg_neg] at e ⊢
    obtain ⟨e1, e2, e3⟩ := e
    refine ⟨⟨?_, ?_, ?_⟩, ⟨?_, ?_, ?_⟩, ⟨?_, ?_, ?_⟩, ⟨?_, ?_, ?_⟩, trivial⟩
    · ring
    · ring
    · ring
    · linear_combination (-(r1 * s⁻¹)) * e1
    · linear_combination (-(r1 * s⁻¹)) * e2
    · linear_combination (-(r1 * s⁻¹)) * e3
    · ring
    · ring
    · ring
    · linear_combination (-s⁻¹) * e1
    · linear_combination (-s⁻¹) * e2
    · linear_combination (-s⁻¹) * e3
  · rfl

example : Unit3 (⟨0, 0, 3/5, 4/5, ⟨1, -2, 3⟩⟩ : Iso3 ℚ) ∧ (1 : ℚ) * 1 + (-2) * (-2) + 3 * 3 ≠ 0 := by
  unfold Unit3; norm_num

/-- **ball/ball closest points are mirrored** (any centres). -/
theorem ballBall_closestPoints_swap (pos12 : Iso3 K) (r1 r2 margin : K) (h : Unit3 pos12) :
    letI := fieldNum K sq
    closestPointsBallBall pos12.inverse r2 r1 margin =
      (closestPointsBallBall pos12 r1 r2 margin).map ClosestPoints3.flipped := by
  have e := rot_invRot sq pos12 ⟨-pos12.t.x, -pos12.t.y, -pos12.t.z⟩ h
  have hsqrt : ∀ x, @Num.sqrt K (fieldNum K sq) x = sq x := fun _ => rfl
  simp only [closestPointsBallBall, V3.normalize, V3.norm, inverse_t_normSq sq pos12 h, add_comm r2 r1, hsqrt]
  generalize sq (@V3.normSq K (fieldNum K sq) pos12.t) = s
  split_ifs with c1 c2 c3
  all_goals try rfl
  · obtain ⟨i, j, k, w, tx, ty, tz⟩ := pos12
    simp only [Option.map_some, ClosestPoints3.flipped, Iso3.inverse, Iso3.invRot, Iso3.rot, Iso3.qv, Iso3.rotQ, V3.add,
      V3.neg, V3.smul, V3.sdiv, V3.cross, fieldNum_two, Option.some.injEq, ClosestPoints3.withinMargin.injEq,
      V3.mk.injEq, neg_neg] at e ⊢
    obtain ⟨e1, e2, e3⟩ := e
    refine ⟨⟨?_, ?_, ?_⟩, ⟨?_, ?_, ?_⟩⟩
    · ring
    · ring
    · ring
    · linear_combination (-(r1 * s⁻¹)) * e1
    · linear_combination (-(r1 * s⁻¹)) * e2
    · linear_combination (-(r1 * s⁻¹)) * e3

/-- **half-space wrappers, all four queries**: for a unit `pos12`, the query with the half-space second, evaluated
at `pos12⁻¹`, is the flipped result of the query with the half-space first at `pos12` — and conversely.
(`contactSH` is the corrected wrapper; see `contactSH_pinned_not_mirrored` for the pinned tree.) -/
theorem halfspace_swap (pos12 : Iso3 K) (n : V3 K) (S : SupportMap3 K) (param : K) (h : Unit3 pos12) :
    letI := fieldNum K sq
    (distanceSH pos12.inverse S n = distanceHS pos12 n S ∧
     intersectionTestSH pos12.inverse S n = intersectionTestHS pos12 n S ∧
     closestPointsSH pos12.inverse S n param = (closestPointsHS pos12 n S param).map ClosestPoints3.flipped ∧
     contactSH pos12.inverse S n param = (contactHS pos12 n S param).map Contact3.flipped) ∧
    (distanceHS pos12.inverse n S = distanceSH pos12 S n ∧
     intersectionTestHS pos12.inverse n S = intersectionTestSH pos12 S n ∧
     closestPointsHS pos12.inverse n S param = (closestPointsSH pos12 S n param).map ClosestPoints3.flipped ∧
     contactHS pos12.inverse n S param = (contactSH pos12 S n param).map Contact3.flipped) := by
  refine ⟨?_, rfl, rfl, ?_, ?_⟩
  · simp only [distanceSH, intersectionTestSH, closestPointsSH, contactSH, iso3_inverse_inverse sq pos12 h, and_self]
  · simp only [closestPointsSH, Option.map_map]
    cases @closestPointsHS K (fieldNum K sq) (inv' pos12) n S param with
    | none => rfl
    | some c => cases c <;> rfl
  · simp only [contactSH, Option.map_map]
    cases @contactHS K (fieldNum K sq) (inv' pos12) n S param <;> rfl

example : Unit3 (⟨0, 0, 3/5, 4/5, ⟨1, -2, 3⟩⟩ : Iso3 ℚ) := by unfold Unit3; norm_num

/-- `closest_points_*_ball` is built from the contact: flipping the contact flips the closest points. -/
theorem closestPointsOfContact_flipped (c : Option (Contact3 K)) :
    letI := fieldNum K sq
    closestPointsOfContact (c.map Contact3.flipped) = (closestPointsOfContact c).flipped := by
  cases c with
  | none => rfl
  | some c =>
    simp only [closestPointsOfContact, Option.map_some, Contact3.flipped]
    split_ifs <;> rfl

/-- **ball / convex-polyhedron wrappers** (`contact_`, `distance_`, `closest_points_ball_convex_polyhedron`,
`intersection_test_ball_point_query`), for *any* canonical sibling `f`: the route with the ball first, evaluated at
`pos12⁻¹`, equals the flipped canonical route at `pos12`, and conversely (first block needs `|q| = 1`). -/
theorem ballConvex_swap (fc : Iso3 K → Option (Contact3 K)) (fd : Iso3 K → K) (fi : Iso3 K → Bool)
    (pos12 : Iso3 K) (h : Unit3 pos12) :
    letI := fieldNum K sq
    (contactBallCP fc pos12.inverse = (fc pos12).map Contact3.flipped ∧
     distanceBallCP fd pos12.inverse = fd pos12 ∧
     intersectionTestBallPQ fi pos12.inverse = fi pos12 ∧
     closestPointsBallCP fc pos12.inverse = (closestPointsCPBall fc pos12).flipped) ∧
    (fc pos12.inverse = (contactBallCP fc pos12).map Contact3.flipped ∧
     fd pos12.inverse = distanceBallCP fd pos12 ∧
     fi pos12.inverse = intersectionTestBallPQ fi pos12 ∧
     closestPointsCPBall fc pos12.inverse = (closestPointsBallCP fc pos12).flipped) := by
  refine ⟨?_, ?_, rfl, rfl, ?_⟩
  · simp only [contactBallCP, distanceBallCP, intersectionTestBallPQ, closestPointsBallCP, closestPointsCPBall,
      iso3_inverse_inverse sq pos12 h, closestPointsOfContact_flipped, and_self]
  · simp only [contactBallCP, Option.map_map]
    cases fc (inv' pos12) <;> rfl
  · simp only [closestPointsBallCP, closestPointsCPBall, contactBallCP, closestPointsOfContact_flipped,
      closestPoints_flipped_flipped]

/-- both shapes are balls (the only closed form with a tie at coincident centres) -/
def BallPair : Shape3 K → Shape3 K → Prop
  | .ball _, .ball _ => True
  | _, _ => False

/-- **Swap symmetry of the closed-form corner of the dispatcher** (`details::contact_*` as routed by
`DefaultQueryDispatcher::contact` for ball/ball, half-space/support-map, support-map/half-space):
`contact(pos12⁻¹, s2, s1) = contact(pos12, s1, s2).flipped()`; for two balls the centres must be distinct. -/
theorem detailsContact_swap (s1 s2 : Shape3 K) (pos12 : Iso3 K) (pred : K) (h : Unit3 pos12)
    (ht : BallPair s1 s2 → pos12.t.x * pos12.t.x + pos12.t.y * pos12.t.y + pos12.t.z * pos12.t.z ≠ 0) :
    letI := fieldNum K sq
    detailsContact s2 s1 pos12.inverse pred = (detailsContact s1 s2 pos12 pred).map (Option.map Contact3.flipped) := by
  cases s1 <;> cases s2 <;>
    simp only [detailsContact, Shape3.supportMap, Option.map_some, Option.map_none, Option.some.injEq]
  · exact ballBall_contact_swap sq pos12 _ _ pred h (ht trivial)
  · exact (halfspace_swap sq pos12 _ _ pred h).2.2.2.2
  · exact (halfspace_swap sq pos12 _ _ pred h).2.2.2.2
  · exact (halfspace_swap sq pos12 _ _ pred h).1.2.2.2
  · exact (halfspace_swap sq pos12 _ _ pred h).1.2.2.2

/-- **Swap symmetry, `distance` and `intersection_test`** on the closed-form corner. -/
theorem detailsDistance_swap (s1 s2 : Shape3 K) (pos12 : Iso3 K) (h : Unit3 pos12) :
    letI := fieldNum K sq
    detailsDistance s2 s1 pos12.inverse = detailsDistance s1 s2 pos12 ∧
    detailsIntersectionTest s2 s1 pos12.inverse = detailsIntersectionTest s1 s2 pos12 := by
  cases s1 <;> cases s2 <;>
    simp only [detailsDistance, detailsIntersectionTest, Shape3.supportMap, Option.map_some, Option.map_none,
      Option.some.injEq, and_self]
  · exact ballBall_distance_swap sq pos12 _ _ h
  · exact ⟨(halfspace_swap sq pos12 _ _ 0 h).2.1, (halfspace_swap sq pos12 _ _ 0 h).2.2.1⟩
  · exact ⟨(halfspace_swap sq pos12 _ _ 0 h).2.1, (halfspace_swap sq pos12 _ _ 0 h).2.2.1⟩
  · exact ⟨(halfspace_swap sq pos12 _ _ 0 h).1.1, (halfspace_swap sq pos12 _ _ 0 h).1.2.1⟩
  · exact ⟨(halfspace_swap sq pos12 _ _ 0 h).1.1, (halfspace_swap sq pos12 _ _ 0 h).1.2.1⟩

/-- **Swap symmetry, `closest_points`** on the closed-form corner (all centres, all margins). -/
theorem detailsClosestPoints_swap (s1 s2 : Shape3 K) (pos12 : Iso3 K) (margin : K) (h : Unit3 pos12) :
    letI := fieldNum K sq
    detailsClosestPoints s2 s1 pos12.inverse margin =
      (detailsClosestPoints s1 s2 pos12 margin).map (Option.map ClosestPoints3.flipped) := by
  cases s1 <;> cases s2 <;>
    simp only [detailsClosestPoints, Shape3.supportMap, Option.map_some, Option.map_none, Option.some.injEq]
  · exact ballBall_closestPoints_swap sq pos12 _ _ margin h
  · exact (halfspace_swap sq pos12 _ _ margin h).2.2.2.1
  · exact (halfspace_swap sq pos12 _ _ margin h).2.2.2.1
  · exact (halfspace_swap sq pos12 _ _ margin h).1.2.2.1
  · exact (halfspace_swap sq pos12 _ _ margin h).1.2.2.1

/-! ## Part 3 — the free functions: frame independence and swap symmetry -/

/-- **Frame independence, scalar queries** (`query::distance`, `query::intersection_test`), for *any*
dispatcher-level function `d`: a common unit isometry applied to both poses does not change the answer. -/
theorem query_scalar_frame {α : Type} (d : Iso3 K → α) (g p1 p2 : Iso3 K) (hg : Unit3 g) (h1 : Unit3 p1) :
    letI := fieldNum K sq
    queryDistance d (g.mul p1) (g.mul p2) = queryDistance d p1 p2 ∧
    queryIntersectionTest d (g.mul p1) (g.mul p2) = queryIntersectionTest d p1 p2 := by
  simp only [queryDistance, queryIntersectionTest, iso3_invMul_frame sq g p1 p2 hg h1, and_self]

/-- **Frame independence, `query::closest_points`**: the world-space witnesses are moved by `g`. -/
theorem queryClosestPoints_frame (d : Iso3 K → ClosestPoints3 K) (g p1 p2 : Iso3 K)
    (hg : Unit3 g) (h1 : Unit3 p1) (h2 : Unit3 p2) :
    letI := fieldNum K sq
    queryClosestPoints d (g.mul p1) (g.mul p2) = (queryClosestPoints d p1 p2).transformBy g g := by
  simp only [queryClosestPoints, iso3_invMul_frame sq g p1 p2 hg h1]
  cases d (@Iso3.invMul K (fieldNum K sq) p1 p2) with
  | withinMargin a b =>
    simp only [ClosestPoints3.transformBy, (iso3_mul_act sq g p1 a hg h1).1, (iso3_mul_act sq g p2 b hg h2).1]
  | intersecting => rfl
  | disjoint => rfl

/-- **Frame independence, `query::contact`**: same `dist`, same `None` verdict; world-space points are moved by `g`
and normals rotated by `g`. -/
theorem queryContact_frame (d : Iso3 K → Option (Contact3 K)) (g p1 p2 : Iso3 K)
    (hg : Unit3 g) (h1 : Unit3 p1) (h2 : Unit3 p2) :
    letI := fieldNum K sq
    queryContact d (g.mul p1) (g.mul p2) = (queryContact d p1 p2).map fun c => c.transformBy g g := by
  simp only [queryContact, iso3_invMul_frame sq g p1 p2 hg h1]
  cases d (@Iso3.invMul K (fieldNum K sq) p1 p2) with
  | none => rfl
  | some c =>
    simp only [Option.map_some, Contact3.transformBy, (iso3_mul_act sq g p1 _ hg h1).1, (iso3_mul_act sq g p2 _ hg h2).1,
      (iso3_mul_act sq g p1 _ hg h1).2, (iso3_mul_act sq g p2 _ hg h2).2]

/-- **Frame independence, `query::cast_shapes`**: with both velocities rotated by `g`, the dispatcher sees the
same `pos12` and the same `vel12`. -/
theorem queryCastShapes_frame {α : Type} (d : Iso3 K → V3 K → α) (g p1 p2 : Iso3 K) (v1 v2 : V3 K)
    (hg : Unit3 g) (h1 : Unit3 p1) :
    letI := fieldNum K sq
    queryCastShapes d (g.mul p1) (g.rot v1) (g.mul p2) (g.rot v2) = queryCastShapes d p1 v1 p2 v2 := by
  simp only [queryCastShapes, iso3_invMul_frame sq g p1 p2 hg h1, mul_invRot sq g p1 _ hg h1, ← rot_sub,
    invRot_rot sq g _ hg]

/-- **Swap symmetry of the free functions.**  If the dispatcher-level functions for the two orders are mirrored
(`d21 m⁻¹ = flip (d12 m)` for unit `m` — `detailsContact_swap` etc.), then the world-frame answers are mirrored:
`query(pos2, g2, pos1, g1) = flip (query(pos1, g1, pos2, g2))`, for contacts, closest points and scalars. -/
theorem query_swap (c12 c21 : Iso3 K → Option (Contact3 K)) (k12 k21 : Iso3 K → ClosestPoints3 K)
    {α : Type} (s12 s21 : Iso3 K → α) (p1 p2 : Iso3 K) (h1 : Unit3 p1) (h2 : Unit3 p2)
    (hc : letI := fieldNum K sq; ∀ m, Unit3 m → c21 m.inverse = (c12 m).map Contact3.flipped)
    (hk : letI := fieldNum K sq; ∀ m, Unit3 m → k21 m.inverse = (k12 m).flipped)
    (hs : letI := fieldNum K sq; ∀ m, Unit3 m → s21 m.inverse = s12 m) :
    letI := fieldNum K sq
    queryContact c21 p2 p1 = (queryContact c12 p1 p2).map Contact3.flipped ∧
    queryClosestPoints k21 p2 p1 = (queryClosestPoints k12 p1 p2).flipped ∧
    queryDistance s21 p2 p1 = queryDistance s12 p1 p2 ∧
    queryIntersectionTest s21 p2 p1 = queryIntersectionTest s12 p1 p2 := by
  have hu := unit3_invMul sq p1 p2 h1 h2
  simp only [queryContact, queryClosestPoints, queryDistance, queryIntersectionTest, iso3_invMul_swap sq p1 p2 h1 h2,
    hc _ hu, hk _ hu, hs _ hu, and_self, and_true]
  constructor
  · cases c12 (@Iso3.invMul K (fieldNum K sq) p1 p2) <;> rfl
  · cases k12 (@Iso3.invMul K (fieldNum K sq) p1 p2) <;> rfl

/-- the hypotheses of `query_swap` are met by the half-space wrappers (`halfspace_swap`) -/
example (n : V3 K) (S : SupportMap3 K) (pred : K) :
    letI := fieldNum K sq
    ∀ m, Unit3 m → (fun m => contactSH m S n pred) (Iso3.inverse m) = ((fun m => contactHS m n S pred) m).map Contact3.flipped :=
  fun m hm => (halfspace_swap sq m n S pred hm).1.2.2.2

/-- **Swapped `cast_shapes`**: with the arguments exchanged the dispatcher receives `pos21 = pos12⁻¹` and
`vel21 = -(pos12⁻¹ · vel12)` — exactly what the mirrored cast wrappers construct from `(pos12, vel12)`. -/
theorem queryCastShapes_swap {α : Type} (d : Iso3 K → V3 K → α) (p1 p2 : Iso3 K) (v1 v2 : V3 K)
    (h1 : Unit3 p1) (h2 : Unit3 p2) :
    letI := fieldNum K sq
    queryCastShapes d p2 v2 p1 v1 =
      d (p1.invMul p2).inverse ((p1.invMul p2).invRot (p1.invRot (v2.sub v1))).neg := by
  simp only [queryCastShapes, iso3_invMul_swap sq p1 p2 h1 h2, invMul_invRot sq p1 p2 _ h1 h2, rot_invRot sq p1 _ h1,
    ← invRot_neg, V3.neg_sub']

example : Unit3 (⟨0, 0, 3/5, 4/5, ⟨1, -2, 3⟩⟩ : Iso3 ℚ) ∧ Unit3 (⟨2/3, 1/3, 2/3, 0, ⟨0, 0, 0⟩⟩ : Iso3 ℚ) := by
  unfold Unit3; norm_num

/-! ## Part 4 — the pinned tree -/

/-- **Defect witness.**  `contact_support_map_halfspace` *as written on the pinned tree* (no `pos12.inverse()`) is
not the mirror of `contact_halfspace_support_map`: unit cube, half-space `y ≤ 0` placed at `(0,-3,0)` without
rotation, prediction 5 (exact rational instance).  The true gap is 2; the pinned wrapper reports `dist = -4`. -/
theorem contactSH_pinned_not_mirrored :
    let pos12 : Iso3 Rat := ⟨0, 0, 0, 1, ⟨0, -3, 0⟩⟩
    let S : SupportMap3 Rat := cuboidSupportMap ⟨1, 1, 1⟩
    let n : V3 Rat := ⟨0, 1, 0⟩
    (contactSH_pinned pos12 S n 5).map (·.dist) = some (-4) ∧
    ((contactHS pos12.inverse n S 5).map Contact3.flipped).map (·.dist) = some 2 ∧
    (contactSH pos12 S n 5).map (·.dist) = some 2 := by
  decide +kernel

/-! ## Part 5 — 2-D (unit complex numbers) -/

/-- 2-D: `inv_mul` is `inverse` then `mul`; `inverse_transform_point` is the action of the inverse. -/
theorem iso2_invMul_eq_inverse_mul (a b : Iso2 K) (p : V2 K) :
    letI := fieldNum K sq
    a.invMul b = a.inverse.mul b ∧ a.invAct p = a.inverse.act p := by
  simp only [Iso2.invMul, Iso2.inverse, Iso2.mul, Iso2.rot, Iso2.invAct, Iso2.invRot, Iso2.act, V2.add, V2.sub, V2.neg,
    V2.zero, Iso2.mk.injEq, V2.mk.injEq]
  refine ⟨⟨trivial, trivial, ?_, ?_⟩, ?_, ?_⟩ <;> ring

/-- 2-D: `inverse` is a two-sided inverse for the action; `inverse_transform_point` undoes `transform_point`. -/
theorem iso2_inverse_act (m : Iso2 K) (p : V2 K) (h : Unit2 m) :
    letI := fieldNum K sq
    m.inverse.act (m.act p) = p ∧ m.act (m.inverse.act p) = p ∧ m.invAct (m.act p) = p ∧ m.act (m.invAct p) = p := by
  obtain ⟨re, im, tx, ty⟩ := m; obtain ⟨x, y⟩ := p
  simp only [Unit2, Iso2.inverse, Iso2.rot, Iso2.invAct, Iso2.invRot, Iso2.act, V2.add, V2.sub, V2.neg,
    V2.mk.injEq] at h ⊢
  refine ⟨⟨?_, ?_⟩, ⟨?_, ?_⟩, ⟨?_, ?_⟩, ⟨?_, ?_⟩⟩
  · linear_combination x * h
  · linear_combination y * h
  · linear_combination (x - tx) * h
  · linear_combination (y - ty) * h
  · linear_combination x * h
  · linear_combination y * h
  · linear_combination (x - tx) * h
  · linear_combination (y - ty) * h

/-- 2-D: the product acts as the composition (no unit hypothesis needed: complex multiplication). -/
theorem iso2_mul_act (a b : Iso2 K) (p : V2 K) :
    letI := fieldNum K sq
    (a.mul b).act p = a.act (b.act p) ∧ (a.mul b).rot p = a.rot (b.rot p) := by
  simp only [Iso2.mul, Iso2.act, Iso2.rot, V2.add, V2.mk.injEq]
  refine ⟨⟨?_, ?_⟩, ?_, ?_⟩ <;> ring

/-- 2-D: a unit complex preserves dot products. -/
theorem iso2_rot_dot (m : Iso2 K) (u v : V2 K) (h : Unit2 m) :
    letI := fieldNum K sq
    (m.rot u).dot (m.rot v) = u.dot v ∧ (m.invRot u).dot (m.invRot v) = u.dot v := by
  obtain ⟨re, im, tx, ty⟩ := m; obtain ⟨x, y⟩ := u; obtain ⟨x', y'⟩ := v
  simp only [Unit2, Iso2.rot, Iso2.invRot, V2.dot] at h ⊢
  constructor
  · linear_combination (x * x' + y * y') * h
  · linear_combination (x * x' + y * y') * h

/-- 2-D: `inverse` is an involution on unit isometries, and products / inverses of unit isometries are unit. -/
theorem iso2_inverse_inverse (m n : Iso2 K) (h : Unit2 m) (hn : Unit2 n) :
    letI := fieldNum K sq
    m.inverse.inverse = m ∧ Unit2 m.inverse ∧ Unit2 (m.mul n) ∧ Unit2 (m.invMul n) := by
  obtain ⟨re, im, tx, ty⟩ := m; obtain ⟨re', im', tx', ty'⟩ := n
  simp only [Unit2, Iso2.inverse, Iso2.mul, Iso2.invMul, Iso2.rot, V2.neg, Iso2.mk.injEq, V2.mk.injEq, neg_neg] at h hn ⊢
  refine ⟨⟨trivial, trivial, ?_, ?_⟩, ?_, ?_, ?_⟩
  · linear_combination tx * h
  · linear_combination ty * h
  · linear_combination h
  · linear_combination (re' * re' + im' * im') * h + hn
  · linear_combination (re' * re' + im' * im') * h + hn

/-- **2-D frame independence of `pos12`**: `(g·p1)⁻¹(g·p2) = p1⁻¹p2` for a unit `g`. -/
theorem iso2_invMul_frame (g p1 p2 : Iso2 K) (hg : Unit2 g) :
    letI := fieldNum K sq
    (g.mul p1).invMul (g.mul p2) = p1.invMul p2 := by
  obtain ⟨c, s, gx, gy⟩ := g; obtain ⟨a, b, ax, ay⟩ := p1; obtain ⟨a', b', bx, by'⟩ := p2
  simp only [Unit2, Iso2.mul, Iso2.invMul, Iso2.rot, V2.add, V2.sub, V2.zero, Iso2.mk.injEq, V2.mk.injEq] at hg ⊢
  refine ⟨?_, ?_, ?_, ?_⟩
  · linear_combination (a * a' + b * b') * hg
  · linear_combination (a * b' - b * a') * hg
  · linear_combination (a * (bx - ax) + b * (by' - ay)) * hg
  · linear_combination (-b * (bx - ax) + a * (by' - ay)) * hg

/-- **2-D: swapping the poses inverts `pos12`.** -/
theorem iso2_invMul_swap (a b : Iso2 K) (ha : Unit2 a) :
    letI := fieldNum K sq
    b.invMul a = (a.invMul b).inverse := by
  obtain ⟨c, s, ax, ay⟩ := a; obtain ⟨c', s', bx, by'⟩ := b
  simp only [Unit2, Iso2.invMul, Iso2.inverse, Iso2.rot, V2.sub, V2.neg, V2.zero, Iso2.mk.injEq, V2.mk.injEq] at ha ⊢
  refine ⟨?_, ?_, ?_, ?_⟩
  · ring
  · ring
  · linear_combination (-(c' * (ax - bx) + s' * (ay - by'))) * ha
  · linear_combination (-(-s' * (ax - bx) + c' * (ay - by'))) * ha

/-- **2-D half-space contact wrappers are mirrored** (corrected `contact_support_map_halfspace`). -/
theorem halfspace_contact_swap2 (pos12 : Iso2 K) (n : V2 K) (S : SupportMap2 K) (pred : K) (h : Unit2 pos12) :
    letI := fieldNum K sq
    contactSH2 pos12.inverse S n pred = (contactHS2 pos12 n S pred).map Contact2.flipped ∧
    contactHS2 pos12.inverse n S pred = (contactSH2 pos12 S n pred).map Contact2.flipped := by
  constructor
  · simp only [contactSH2, (iso2_inverse_inverse sq pos12 pos12 h h).1]
  · simp only [contactSH2, Option.map_map]
    cases @contactHS2 K (fieldNum K sq) (@Iso2.inverse K (fieldNum K sq) pos12) n S pred <;> rfl

/-- **2-D free functions**: frame independence (`query::contact`: points moved by `g`, normals rotated by `g`;
scalar queries unchanged) and swap symmetry given mirrored dispatcher-level functions. -/
theorem query2_frame_and_swap (d12 d21 : Iso2 K → Option (Contact2 K)) {α : Type} (s12 s21 : Iso2 K → α)
    (g p1 p2 : Iso2 K) (hg : Unit2 g) (h1 : Unit2 p1) (h2 : Unit2 p2)
    (hc : letI := fieldNum K sq; ∀ m, Unit2 m → d21 m.inverse = (d12 m).map Contact2.flipped)
    (hs : letI := fieldNum K sq; ∀ m, Unit2 m → s21 m.inverse = s12 m) :
    letI := fieldNum K sq
    queryContact2 d12 (g.mul p1) (g.mul p2) = (queryContact2 d12 p1 p2).map (fun c => c.transformBy g g) ∧
    queryScalar2 s12 (g.mul p1) (g.mul p2) = queryScalar2 s12 p1 p2 ∧
    queryContact2 d21 p2 p1 = (queryContact2 d12 p1 p2).map Contact2.flipped ∧
    queryScalar2 s21 p2 p1 = queryScalar2 s12 p1 p2 := by
  have hu := (iso2_inverse_inverse sq p1 p2 h1 h2).2.2.2
  simp only [queryContact2, queryScalar2, iso2_invMul_frame sq g p1 p2 hg, iso2_invMul_swap sq p1 p2 h1, hc _ hu, hs _ hu,
    true_and, and_true]
  constructor
  · cases d12 (@Iso2.invMul K (fieldNum K sq) p1 p2) with
    | none => rfl
    | some c =>
      simp only [Option.map_some, Contact2.transformBy, (iso2_mul_act sq g p1 _).1, (iso2_mul_act sq g p2 _).1,
        (iso2_mul_act sq g p1 _).2, (iso2_mul_act sq g p2 _).2]
  · cases d12 (@Iso2.invMul K (fieldNum K sq) p1 p2) <;> rfl

example : Unit2 (⟨3/5, 4/5, ⟨1, -2⟩⟩ : Iso2 ℚ) := by unfold Unit2; norm_num

/-! ## Part 5 — `intersection_test_cuboid_cuboid` (closed-form separating-axis test) -/

open Model.CC in
/-- **Argument-order symmetry of `intersection_test_cuboid_cuboid`.**  Exchanging the cuboids and inverting `pos12`
gives the same verdict: the two one-way face-normal tests exchange their roles, and the edge/edge test finds a
separating axis in one order iff it finds one in the other (`satEdgeTwoway_swap`: all nine edge pairs are tested in
both orders). -/
theorem intersectionTestCuboidCuboid_swap (m : Iso3 K) (he1 he2 : V3 K) (h : Unit3 m) :
    letI := fieldNum K sq
    intersectionTestCuboidCuboid m he1 he2 = intersectionTestCuboidCuboid m.inverse he2 he1 := by
  have hinv := iso3_inverse_inverse sq m h
  have hedge := satEdgeTwoway_swap sq he1 he2 m h
  have hC : (@satEdgeTwoway K (fieldNum K sq) he1 he2 m).1 ≤ 0 ↔
      (@satEdgeTwoway K (fieldNum K sq) he2 he1 (@Iso3.inverse K (fieldNum K sq) m)).1 ≤ 0 := by
    rw [← not_lt, ← not_lt, hedge]
  unfold intersectionTestCuboidCuboid
  simp only []
  rw [hinv]
  simp only [hC]
  by_cases hA : 0 < (@satNormalOneway K (fieldNum K sq) he1 he2 m).1 <;>
  by_cases hB : 0 < (@satNormalOneway K (fieldNum K sq) he2 he1 (@Iso3.inverse K (fieldNum K sq) m)).1 <;>
  simp [hA, hB]

open Model.CC in
/-- **The free function `query::intersection_test` on two cuboids** does not depend on the argument order nor on
the world frame: `intersection_test(pos2, c2, pos1, c1) = intersection_test(pos1, c1, pos2, c2)`
`= intersection_test(g·pos1, c1, g·pos2, c2)`. -/
theorem queryIntersectionTest_cuboidCuboid (he1 he2 : V3 K) (p1 p2 g : Iso3 K)
    (h1 : Unit3 p1) (h2 : Unit3 p2) (hg : Unit3 g) :
    letI := fieldNum K sq
    queryIntersectionTest (fun m => intersectionTestCuboidCuboid m he2 he1) p2 p1
      = queryIntersectionTest (fun m => intersectionTestCuboidCuboid m he1 he2) p1 p2 ∧
    queryIntersectionTest (fun m => intersectionTestCuboidCuboid m he1 he2) (g.mul p1) (g.mul p2)
      = queryIntersectionTest (fun m => intersectionTestCuboidCuboid m he1 he2) p1 p2 := by
  refine ⟨?_, (query_scalar_frame sq _ g p1 p2 hg h1).2⟩
  simp only [queryIntersectionTest]
  rw [iso3_invMul_swap sq p1 p2 h1 h2]
  exact (intersectionTestCuboidCuboid_swap sq _ he1 he2 (unit3_invMul sq p1 p2 h1 h2)).symm

example : Unit3 (⟨0, 0, 3/5, 4/5, ⟨1, -2, 3⟩⟩ : Iso3 ℚ) ∧ Unit3 (⟨2/3, 1/3, 2/3, 0, ⟨0, 0, 0⟩⟩ : Iso3 ℚ) := by
  unfold Unit3; norm_num

open Model.CC in
/-- **Soundness of the verdict "disjoint".**  If `intersection_test_cuboid_cuboid` returns `false`, no point of
cuboid 2 (posed by `pos12`) coincides with a point of cuboid 1 — whichever of the fifteen candidate axes triggered
the verdict.  (The converse, completeness of the fifteen axes, is not proved here; it is judged on every case by the
exact-rational oracle.) -/
theorem intersectionTestCuboidCuboid_false_disjoint (m : Iso3 K) (he1 he2 : V3 K) (h : Unit3 m)
    (hf : @intersectionTestCuboidCuboid K (fieldNum K sq) m he1 he2 = false) (x y : V3 K)
    (hx : @Cuboid3.Mem K (fieldNum K sq) ⟨he1⟩ x) (hy : @Cuboid3.Mem K (fieldNum K sq) ⟨he2⟩ y) :
    letI := fieldNum K sq
    m.act y ≠ x := by
  unfold intersectionTestCuboidCuboid at hf
  simp only [] at hf
  by_cases hA : 0 < (@satNormalOneway K (fieldNum K sq) he1 he2 m).1
  · exact satNormalOneway_sound sq he1 he2 m h hA x y hx hy
  · by_cases hB : 0 < (@satNormalOneway K (fieldNum K sq) he2 he1 (@Iso3.inverse K (fieldNum K sq) m)).1
    · have hne := satNormalOneway_sound sq he2 he1 _ (unit3_inverse sq m h) hB y x hy hx
      intro heq
      apply hne
      rw [← heq]
      exact (iso3_inverse_act sq m y h).1
    · have hf' : 0 < (@satEdgeTwoway K (fieldNum K sq) he1 he2 m).1 := by simpa [hA, hB] using hf
      exact satEdgeTwoway_sound sq he1 he2 m h hf' x y hx hy

example : Unit3 (⟨0, 0, 3/5, 4/5, ⟨1, -2, 3⟩⟩ : Iso3 ℚ) ∧
    @Cuboid3.Mem ℚ (fieldNum ℚ id) ⟨⟨1, 2, 3⟩⟩ ⟨-1, 1/2, 3⟩ := by
  unfold Unit3 Cuboid3.Mem; norm_num

open Model.CC in
/-- **2-D: argument-order symmetry of `intersection_test_cuboid_cuboid`** (two one-way face-normal tests, no
edge/edge axes in the plane): exchanging the rectangles and inverting `pos12` gives the same verdict. -/
theorem intersectionTestCuboidCuboid2_swap (m : Iso2 K) (he1 he2 : V2 K) (h : Unit2 m) :
    letI := fieldNum K sq
    intersectionTestCuboidCuboid2 m he1 he2 = intersectionTestCuboidCuboid2 m.inverse he2 he1 := by
  have hinv := (iso2_inverse_inverse sq m m h h).1
  unfold intersectionTestCuboidCuboid2
  simp only []
  rw [hinv]
  by_cases hA : 0 < (@satNormalOneway2 K (fieldNum K sq) he1 he2 m).1 <;>
  by_cases hB : 0 < (@satNormalOneway2 K (fieldNum K sq) he2 he1 (@Iso2.inverse K (fieldNum K sq) m)).1 <;>
  simp [hA, hB]

example : Unit2 (⟨3/5, 4/5, ⟨1, -2⟩⟩ : Iso2 ℚ) := by unfold Unit2; norm_num

open Model.CC in
/-- **`intersection_test_cuboid_cuboid` (dim3) decides intersection**: under the hypotheses of
`intersectionTestCuboidCuboid_true_partial` (unit `pos12`, non-negative half-extents, every candidate edge axis exactly
zero or longer than `f64::EPSILON`) the verdict is `true` **iff** the cuboids share a point — soundness
(`intersectionTestCuboidCuboid_false_disjoint`) and completeness of the fifteen axes together. -/
theorem intersectionTestCuboidCuboid_true_iff (m : Iso3 K) (he1 he2 : V3 K) (h : Unit3 m) (hs : LawfulSqrt sq)
    (h1 : ∀ k, 0 ≤ comp he1 k) (h2 : ∀ l, 0 ≤ comp he2 l)
    (hgen : ∀ a ∈ @satEdgeAxes K (fieldNum K sq) m,
      @V3.dot K (fieldNum K sq) a a = 0 ∨ @realEps K (fieldNum K sq) < @V3.norm K (fieldNum K sq) a) :
    @intersectionTestCuboidCuboid K (fieldNum K sq) m he1 he2 = true ↔ CuboidsMeet sq he1 he2 m := by
  constructor
  · exact intersectionTestCuboidCuboid_true_partial sq m he1 he2 h hs h1 h2 hgen
  · rintro ⟨y, hy, hx⟩
    by_contra hne
    have hf : @intersectionTestCuboidCuboid K (fieldNum K sq) m he1 he2 = false := by
      simpa using hne
    exact intersectionTestCuboidCuboid_false_disjoint sq m he1 he2 h hf _ y hx hy rfl

example : Unit3 (⟨0, 0, 0, 1, ⟨1, -2, 3⟩⟩ : Iso3 ℚ) := by unfold Unit3; norm_num

/-! ## Part 6 — the remaining mirrored wrappers (composite-shape arms, shape casts, non-linear casts) -/

/-- **Swapped composite-shape wrappers** (`closest_points_`, `contact_`, `distance_`,
`intersection_test_shape_composite_shape`), for *any* canonical sibling (`*_composite_shape_shape` with the
dispatcher, shapes and parameter applied): the wrapper evaluated at `pos12⁻¹` is the flipped canonical answer at
`pos12`, and conversely the canonical function at `pos12⁻¹` is the flipped wrapper at `pos12`. -/
theorem shapeComposite_swap (fp : Iso3 K → ClosestPoints3 K) (fc : Iso3 K → Option (Contact3 K)) (fd : Iso3 K → K)
    (fi : Iso3 K → Bool) (pos12 : Iso3 K) (h : Unit3 pos12) :
    letI := fieldNum K sq
    (closestPointsShapeComposite fp pos12.inverse = (fp pos12).flipped ∧
     contactShapeComposite fc pos12.inverse = (fc pos12).map Contact3.flipped ∧
     distanceShapeComposite fd pos12.inverse = fd pos12 ∧
     intersectionTestShapeComposite fi pos12.inverse = fi pos12) ∧
    (fp pos12.inverse = (closestPointsShapeComposite fp pos12).flipped ∧
     fc pos12.inverse = (contactShapeComposite fc pos12).map Contact3.flipped ∧
     fd pos12.inverse = distanceShapeComposite fd pos12 ∧
     fi pos12.inverse = intersectionTestShapeComposite fi pos12) := by
  refine ⟨?_, ?_, ?_, rfl, rfl⟩
  · simp only [closestPointsShapeComposite, contactShapeComposite, distanceShapeComposite,
      intersectionTestShapeComposite, iso3_inverse_inverse sq pos12 h, and_self]
  · simp only [closestPointsShapeComposite, closestPoints_flipped_flipped]
  · simp only [contactShapeComposite, Option.map_map]
    cases fc (@Iso3.inverse K (fieldNum K sq) pos12) <;> rfl

example : Unit3 (⟨0, 0, 3/5, 4/5, ⟨1, -2, 3⟩⟩ : Iso3 ℚ) := by unfold Unit3; norm_num

/-- **Swapped shape-cast wrappers** (`cast_shapes_shape_composite_shape`, `cast_shapes_support_map_halfspace`), for
any canonical sibling `f`: called with what the swapped order sees (`pos12⁻¹`, `-(pos12⁻¹·vel12)`) the wrapper
returns the swapped hit of `f(pos12, vel12)`; conversely `f` at the swapped data is the swapped hit of the wrapper. -/
theorem castShapesSwapped_swap (f : Iso3 K → V3 K → Option (ShapeCastHit3 K)) (pos12 : Iso3 K) (vel12 : V3 K)
    (h : Unit3 pos12) :
    letI := fieldNum K sq
    castShapesSwapped f pos12.inverse (pos12.invRot vel12).neg = (f pos12 vel12).map ShapeCastHit3.swapped ∧
    f pos12.inverse (pos12.invRot vel12).neg = (castShapesSwapped f pos12 vel12).map ShapeCastHit3.swapped := by
  constructor
  · have e : @V3.neg K (fieldNum K sq) (@Iso3.invRot K (fieldNum K sq) (@Iso3.inverse K (fieldNum K sq) pos12)
        (@V3.neg K (fieldNum K sq) (@Iso3.invRot K (fieldNum K sq) pos12 vel12))) = vel12 := by
      have e1 : ∀ v : V3 K, @Iso3.invRot K (fieldNum K sq) (@Iso3.inverse K (fieldNum K sq) pos12) v
          = @Iso3.rot K (fieldNum K sq) pos12 v := by
        intro v; simp only [Iso3.inverse, Iso3.invRot, Iso3.rot, Iso3.qv, V3.neg, neg_neg]
      rw [e1, ← invRot_neg, rot_invRot sq pos12 _ h]
      simp only [V3.neg, neg_neg]
    simp only [castShapesSwapped, iso3_inverse_inverse sq pos12 h, e]
  · simp only [castShapesSwapped, Option.map_map]
    cases f (@Iso3.inverse K (fieldNum K sq) pos12)
      (@V3.neg K (fieldNum K sq) (@Iso3.invRot K (fieldNum K sq) pos12 vel12)) <;> rfl

example : Unit3 (⟨1/2, -1/2, 1/2, 1/2, ⟨0, 7, 1/3⟩⟩ : Iso3 ℚ) := by unfold Unit3; norm_num

/-- **World-frame swap of `query::cast_shapes` through a swapped wrapper**: if the dispatcher serves the order
`(2, 1)` by the swapped wrapper of the function `f` that serves `(1, 2)`, then
`cast_shapes(pos2, vel2, g2, pos1, vel1, g1) = cast_shapes(pos1, vel1, g1, pos2, vel2, g2).swapped()`. -/
theorem queryCastShapes_swapped (f : Iso3 K → V3 K → Option (ShapeCastHit3 K)) (p1 p2 : Iso3 K) (v1 v2 : V3 K)
    (h1 : Unit3 p1) (h2 : Unit3 p2) :
    letI := fieldNum K sq
    queryCastShapes (castShapesSwapped f) p2 v2 p1 v1 = (queryCastShapes f p1 v1 p2 v2).map ShapeCastHit3.swapped := by
  rw [queryCastShapes_swap sq _ p1 p2 v1 v2 h1 h2]
  exact (castShapesSwapped_swap sq f _ _ (unit3_invMul sq p1 p2 h1 h2)).1

example : Unit3 (⟨0, 0, 3/5, 4/5, ⟨1, -2, 3⟩⟩ : Iso3 ℚ) ∧ Unit3 (⟨2/3, 1/3, 2/3, 0, ⟨0, 0, 0⟩⟩ : Iso3 ℚ) := by
  unfold Unit3; norm_num

/-- **Non-linear casts**: `cast_shapes_nonlinear_shape_composite_shape` exchanges the two motions and swaps the hit;
it is the mirror of its sibling in both directions, and the free function `query::cast_shapes_nonlinear` inherits the
symmetry (the motions carry their own world frames: no `pos12`). -/
theorem castShapesNonlinearSwapped_swap {M : Type} (f : M → M → Option (ShapeCastHit3 K)) (m1 m2 : M) :
    castShapesNonlinearSwapped f m2 m1 = (f m1 m2).map ShapeCastHit3.swapped ∧
    f m2 m1 = (castShapesNonlinearSwapped f m1 m2).map ShapeCastHit3.swapped ∧
    queryCastShapesNonlinear (castShapesNonlinearSwapped f) m2 m1
      = (queryCastShapesNonlinear f m1 m2).map ShapeCastHit3.swapped := by
  refine ⟨rfl, ?_, rfl⟩
  simp only [castShapesNonlinearSwapped, Option.map_map]
  cases f m2 m1 <;> rfl

/-- the two composite arms of a `DefaultQueryDispatcher` method, in the order of the source:
`if let Some(c1) = shape1.as_composite_shape() { canonical(c1, shape2) } else if let Some(c2) = … { swapped wrapper }` -/
def dispatchComposite {α : Type} (flip : α → α) (comp1 comp2 : Bool) (canon12 canon21 : Iso3 K → α) (pos12 : Iso3 K) :
    Option α :=
  letI := fieldNum K sq
  if comp1 then some (canon12 pos12) else if comp2 then some (flip (canon21 pos12.inverse)) else none

/-- **Swap symmetry of the composite dispatch arms.**  `canon12` serves (composite 1, shape 2), `canon21` serves
(composite 2, shape 1).  With exactly one composite the two argument orders go through the canonical function and
its swapped wrapper and agree up to `flip` unconditionally; when BOTH shapes are composite both orders take the first
arm, and the symmetry is exactly the kernel's own (`hk`). -/
theorem dispatchComposite_swap {α : Type} (flip : α → α) (hflip : ∀ x, flip (flip x) = x) (comp1 comp2 : Bool)
    (canon12 canon21 : Iso3 K → α) (pos12 : Iso3 K) (h : Unit3 pos12)
    (hk : comp1 = true → comp2 = true → canon12 pos12 = flip (canon21 (@Iso3.inverse K (fieldNum K sq) pos12))) :
    dispatchComposite sq flip comp1 comp2 canon12 canon21 pos12
      = (dispatchComposite sq flip comp2 comp1 canon21 canon12 (@Iso3.inverse K (fieldNum K sq) pos12)).map flip := by
  unfold dispatchComposite
  rw [iso3_inverse_inverse sq pos12 h]
  cases comp1 <;> cases comp2 <;> simp [hflip]
  exact hk rfl rfl

example : Unit3 (⟨0, 0, 3/5, 4/5, ⟨1, -2, 3⟩⟩ : Iso3 ℚ) := by unfold Unit3; norm_num

/-! ## Part 7 — `Contact::transform_by_mut`: each field by its own pose -/

/-- **`Contact::transform_by_mut(pos1, pos2)` maps each field by its own pose**: `point1`, `normal1` by `pos1`,
`point2`, `normal2` by `pos2`, `dist` unchanged. -/
theorem contact_transformBy_fields (c : Contact3 K) (p1 p2 : Iso3 K) :
    letI := fieldNum K sq
    (c.transformBy p1 p2).point1 = p1.act c.point1 ∧ (c.transformBy p1 p2).point2 = p2.act c.point2 ∧
    (c.transformBy p1 p2).normal1 = p1.rot c.normal1 ∧ (c.transformBy p1 p2).normal2 = p2.rot c.normal2 ∧
    (c.transformBy p1 p2).dist = c.dist := ⟨rfl, rfl, rfl, rfl, rfl⟩

/-- **World-frame coherence of `query::contact`** — why `normal2` and `point2` must go through `pos2`.  A local
contact whose second normal is the first one seen from shape 2 (`normal2 = -pos12⁻¹·normal1`, what every
`details::contact_*` produces) and whose second witness is `point1 + dist·normal1` seen from shape 2 becomes, after
`transform_by_mut(pos1, pos2)`, a world contact with opposite normals and `point2 = point1 + dist·normal1`. -/
theorem queryContact_world_coherent (c : Contact3 K) (p1 p2 : Iso3 K) (h1 : Unit3 p1) (h2 : Unit3 p2) :
    letI := fieldNum K sq
    c.normal2 = ((p1.invMul p2).invRot c.normal1).neg →
    c.point2 = (p1.invMul p2).invAct (c.point1.add (c.normal1.smul c.dist)) →
    (c.transformBy p1 p2).normal2 = (c.transformBy p1 p2).normal1.neg ∧
    (c.transformBy p1 p2).point2 = (c.transformBy p1 p2).point1.add ((c.transformBy p1 p2).normal1.smul c.dist) := by
  intro hn hp
  have h12 := unit3_invMul sq p1 p2 h1 h2
  constructor
  · show @Iso3.rot K (fieldNum K sq) p2 c.normal2 = @V3.neg K (fieldNum K sq) (@Iso3.rot K (fieldNum K sq) p1 c.normal1)
    rw [hn, invMul_invRot sq p1 p2 _ h1 h2]
    have : ∀ v : V3 K, @Iso3.rot K (fieldNum K sq) p2 (@V3.neg K (fieldNum K sq) v)
        = @V3.neg K (fieldNum K sq) (@Iso3.rot K (fieldNum K sq) p2 v) := fun v => rotQ_neg sq _ _ v
    rw [this, rot_invRot sq p2 _ h2]
  · show @Iso3.act K (fieldNum K sq) p2 c.point2 = @V3.add K (fieldNum K sq) (@Iso3.act K (fieldNum K sq) p1 c.point1)
      (@V3.smul K (fieldNum K sq) (@Iso3.rot K (fieldNum K sq) p1 c.normal1) c.dist)
    rw [hp]
    -- p2 · (pos12⁻¹ · x) = p1 · x
    have key : ∀ x : V3 K, @Iso3.act K (fieldNum K sq) p2
        (@Iso3.invAct K (fieldNum K sq) (@Iso3.invMul K (fieldNum K sq) p1 p2) x) = @Iso3.act K (fieldNum K sq) p1 x := by
      intro x
      have a1 := iso3_invAct_act' sq (@Iso3.invMul K (fieldNum K sq) p1 p2) x h12
      have a2 := (iso3_mul_act sq p1 (@Iso3.invMul K (fieldNum K sq) p1 p2)
        (@Iso3.invAct K (fieldNum K sq) (@Iso3.invMul K (fieldNum K sq) p1 p2) x) h1 h12).1
      have a3 : @Iso3.mul K (fieldNum K sq) p1 (@Iso3.invMul K (fieldNum K sq) p1 p2) = p2 := by
        rw [iso3_invMul_eq_inverse_mul sq p1 p2, ← iso3_mul_assoc sq p1 _ p2 h1 (unit3_inverse sq p1 h1),
          iso3_mul_inverse_self sq p1 h1, iso3_identity_mul]
      rw [a3, a1] at a2
      exact a2
    rw [key]
    have lin : ∀ (a v : V3 K) (s : K), @Iso3.act K (fieldNum K sq) p1 (@V3.add K (fieldNum K sq) a (@V3.smul K (fieldNum K sq) v s))
        = @V3.add K (fieldNum K sq) (@Iso3.act K (fieldNum K sq) p1 a)
          (@V3.smul K (fieldNum K sq) (@Iso3.rot K (fieldNum K sq) p1 v) s) := by
      intro a v s
      show @V3.add K (fieldNum K sq) (@Iso3.rot K (fieldNum K sq) p1 _) p1.t = _
      rw [show @Iso3.rot K (fieldNum K sq) p1 (@V3.add K (fieldNum K sq) a (@V3.smul K (fieldNum K sq) v s))
        = @V3.add K (fieldNum K sq) (@Iso3.rot K (fieldNum K sq) p1 a) (@Iso3.rot K (fieldNum K sq) p1 (@V3.smul K (fieldNum K sq) v s))
        from rotQ_add sq _ _ _ _,
        show @Iso3.rot K (fieldNum K sq) p1 (@V3.smul K (fieldNum K sq) v s)
        = @V3.smul K (fieldNum K sq) (@Iso3.rot K (fieldNum K sq) p1 v) s from rotQ_smul sq _ _ _ _]
      simp only [Iso3.act, V3.add, V3.mk.injEq]
      refine ⟨?_, ?_, ?_⟩ <;> ring
    exact lin _ _ _

example : Unit3 (⟨0, 0, 3/5, 4/5, ⟨1, -2, 3⟩⟩ : Iso3 ℚ) ∧ Unit3 (⟨2/3, 1/3, 2/3, 0, ⟨0, 0, 0⟩⟩ : Iso3 ℚ) := by
  unfold Unit3; norm_num
/-! ## Part 8 — `NonlinearRigidMotion`: frame helpers used by the non-linear cast wrappers -/

/-- **`set_start` keeps the world position of the rotation centre**: `new_start * new_local_center =
start * local_center`, and leaves the velocities alone — for `append`, `prepend`, `append_translation`,
`prepend_translation` alike (all four are `set_start` of a composed pose). -/
theorem motion_setStart_center (m : Motion3 K) (s : Iso3 K) (h : Unit3 s) :
    letI := fieldNum K sq
    (m.setStart s).start.act (m.setStart s).localCenter = m.start.act m.localCenter ∧
    (m.setStart s).start = s ∧ (m.setStart s).linvel = m.linvel ∧ (m.setStart s).angvel = m.angvel :=
  ⟨iso3_invAct_act' sq s _ h, rfl, rfl, rfl⟩

/-- `position_at_time` after `set_start(s)`: the same world motion `shift·e·shift⁻¹` about the ORIGINAL centre,
applied to the new start pose. -/
theorem motion_setStart_positionAt (m : Motion3 K) (s e : Iso3 K) (h : Unit3 s) :
    letI := fieldNum K sq
    (m.setStart s).positionAt e
      = (transMulIso (m.start.act m.localCenter) e).mul (transMulIso (m.start.act m.localCenter).neg s) := by
  have hc := (motion_setStart_center sq m s h).1
  unfold Motion3.positionAt
  simp only []
  rw [hc]
  rfl

/-- `Translation * (a * b) = (Translation * a) * b` -/
private theorem transMulIso_mul (c : V3 K) (a b : Iso3 K) :
    letI := fieldNum K sq
    transMulIso c (a.mul b) = (transMulIso c a).mul b := by
  simp only [transMulIso, Iso3.mul, Iso3.rot, Iso3.qv, V3.add, Iso3.mk.injEq, V3.mk.injEq]
  refine ⟨trivial, trivial, trivial, trivial, ?_, ?_, ?_⟩ <;> ring

private theorem unit3_transMulIso (c : V3 K) (a : Iso3 K) (h : Unit3 a) :
    letI := fieldNum K sq
    Unit3 (transMulIso c a) := h

/-- **`prepend(iso)` commutes with the motion**: the pose at any time of the prepended motion is the pose of the
original motion composed with `iso` on the right — what `cast_shapes_nonlinear_composite_shape_shape` relies on when
it casts a part with `motion1.prepend(part_pos1)`. -/
theorem motion_prepend_positionAt (m : Motion3 K) (iso e : Iso3 K) (hs : Unit3 m.start) (hi : Unit3 iso) (he : Unit3 e) :
    letI := fieldNum K sq
    (m.prepend iso).positionAt e = (m.positionAt e).mul iso := by
  unfold Motion3.prepend
  rw [motion_setStart_positionAt sq m _ e (unit3_mul sq _ _ hs hi)]
  unfold Motion3.positionAt
  simp only []
  rw [transMulIso_mul, iso3_mul_assoc sq _ _ iso (unit3_transMulIso sq _ e he) (unit3_transMulIso sq _ m.start hs)]

example : Unit3 (⟨0, 0, 3/5, 4/5, ⟨1, -2, 3⟩⟩ : Iso3 ℚ) ∧ Unit3 (⟨2/3, 1/3, 2/3, 0, ⟨0, 0, 0⟩⟩ : Iso3 ℚ) ∧
    Unit3 (⟨1/2, -1/2, 1/2, 1/2, ⟨0, 7, 1/3⟩⟩ : Iso3 ℚ) := by
  unfold Unit3; norm_num

/-- `prepend_translation(tra)` is `prepend` of the pure translation; `append_translation(tra)` is `append` of it -/
theorem motion_translation_eq (m : Motion3 K) (tra : V3 K) :
    letI := fieldNum K sq
    m.prependTranslation tra = m.prepend ⟨0, 0, 0, 1, tra⟩ ∧ m.appendTranslation tra = m.append ⟨0, 0, 0, 1, tra⟩ := by
  have e1 : @isoMulTrans K (fieldNum K sq) m.start tra = @Iso3.mul K (fieldNum K sq) m.start ⟨0, 0, 0, 1, tra⟩ := by
    simp only [isoMulTrans, Iso3.mul, Iso3.qmul, mul_zero, mul_one, add_zero, sub_zero, zero_add]
  have e2 : @transMulIso K (fieldNum K sq) tra m.start = @Iso3.mul K (fieldNum K sq) ⟨0, 0, 0, 1, tra⟩ m.start := by
    obtain ⟨i, j, k, w, tx, ty, tz⟩ := m.start
    simp only [transMulIso, Iso3.mul, Iso3.qmul, Iso3.rot, Iso3.qv, Iso3.rotQ, V3.add, V3.smul, V3.cross, fieldNum_two,
      Iso3.mk.injEq, V3.mk.injEq]
    refine ⟨by ring, by ring, by ring, by ring, by ring, by ring, by ring⟩
  constructor
  · unfold Motion3.prependTranslation Motion3.prepend; rw [e1]
  · unfold Motion3.appendTranslation Motion3.append; rw [e2]

/-- **`append(g)`** (a change of the world-side pose): the world motion `shift·e·shift⁻¹` is still taken about the
original centre and is applied to `g·start`. -/
theorem motion_append_positionAt (m : Motion3 K) (g e : Iso3 K) (hs : Unit3 m.start) (hg : Unit3 g) :
    letI := fieldNum K sq
    (m.append g).positionAt e
      = (transMulIso (m.start.act m.localCenter) e).mul (transMulIso (m.start.act m.localCenter).neg (g.mul m.start)) :=
  motion_setStart_positionAt sq m _ e (unit3_mul sq _ _ hg hs)

example : Unit3 (⟨0, 0, 3/5, 4/5, ⟨1, -2, 3⟩⟩ : Iso3 ℚ) ∧ Unit3 (⟨2/3, 1/3, 2/3, 0, ⟨0, 0, 0⟩⟩ : Iso3 ℚ) := by
  unfold Unit3; norm_num

/-- **Relative pose of two motions, swapped**: at any time the pose of body 1 in the frame of body 2 is the inverse
of the pose of body 2 in the frame of body 1 (what `cast_shapes_nonlinear` sees when the bodies are exchanged). -/
theorem motion_relative_swap (m1 m2 : Motion3 K) (e1 e2 : Iso3 K)
    (h1 : Unit3 (@Motion3.positionAt K (fieldNum K sq) m1 e1)) (h2 : Unit3 (@Motion3.positionAt K (fieldNum K sq) m2 e2)) :
    letI := fieldNum K sq
    (m2.positionAt e2).invMul (m1.positionAt e1) = ((m1.positionAt e1).invMul (m2.positionAt e2)).inverse :=
  iso3_invMul_swap sq _ _ h1 h2


/-! ## Part 9 — the world-frame meaning of `query::intersection_test` on two boxes -/

/-- `pos1⁻¹·pos2` acts as `pos2` followed by `pos1⁻¹` (2-D) -/
private theorem iso2_invMul_act (p1 p2 : Iso2 K) (y : V2 K) (h1 : Unit2 p1) :
    letI := fieldNum K sq
    (p1.invMul p2).act y = p1.invAct (p2.act y) := by
  obtain ⟨c, s, ax, ay⟩ := p1; obtain ⟨c', s', bx, by'⟩ := p2; obtain ⟨x, y⟩ := y
  simp only [Unit2, Iso2.invMul, Iso2.act, Iso2.invAct, Iso2.invRot, Iso2.rot, V2.add, V2.sub, V2.mk.injEq] at h1 ⊢
  constructor <;> ring

open Model.CC in
/-- **World-frame specification of `query::intersection_test` on two rectangles** (dim2): the free function answers
`true` iff some world point lies in both posed rectangles.  The right-hand side is manifestly symmetric in the two
shapes and invariant under a common isometry of both poses — the semantic reason for the swap and frame theorems. -/
theorem queryIntersectionTest2_iff_world (he1 he2 : V2 K) (p1 p2 : Iso2 K) (h1 : Unit2 p1) (h2 : Unit2 p2)
    (h1x : 0 ≤ he1.x) (h1y : 0 ≤ he1.y) (h2x : 0 ≤ he2.x) (h2y : 0 ≤ he2.y) :
    letI := fieldNum K sq
    queryScalar2 (fun m => intersectionTestCuboidCuboid2 m he1 he2) p1 p2 = true ↔
      ∃ w : V2 K, Cuboid2.Mem ⟨he1⟩ (p1.invAct w) ∧ Cuboid2.Mem ⟨he2⟩ (p2.invAct w) := by
  have hu : Unit2 (@Iso2.invMul K (fieldNum K sq) p1 p2) := (iso2_inverse_inverse sq p1 p2 h1 h2).2.2.2
  show @intersectionTestCuboidCuboid2 K (fieldNum K sq) (@Iso2.invMul K (fieldNum K sq) p1 p2) he1 he2 = true ↔ _
  rw [intersectionTestCuboidCuboid2_true_iff sq _ he1 he2 hu h1x h1y h2x h2y]
  unfold RectsMeet
  constructor
  · rintro ⟨y, hy, hx⟩
    refine ⟨@Iso2.act K (fieldNum K sq) p2 y, ?_, ?_⟩
    · rw [← iso2_invMul_act sq p1 p2 y h1]; exact hx
    · rw [(iso2_inverse_act sq p2 y h2).2.2.1]; exact hy
  · rintro ⟨w, hw1, hw2⟩
    refine ⟨@Iso2.invAct K (fieldNum K sq) p2 w, hw2, ?_⟩
    rw [iso2_invMul_act sq p1 p2 _ h1, (iso2_inverse_act sq p2 w h2).2.2.2]; exact hw1

example : Unit2 (⟨3/5, 4/5, ⟨1, -2⟩⟩ : Iso2 ℚ) ∧ Unit2 (⟨0, 1, ⟨5, 0⟩⟩ : Iso2 ℚ) := by unfold Unit2; norm_num

/-- `pos1⁻¹·pos2` acts as `pos2` followed by `pos1⁻¹` (3-D) -/
private theorem iso3_invMul_act (p1 p2 : Iso3 K) (y : V3 K) (h1 : Unit3 p1) (h2 : Unit3 p2) :
    letI := fieldNum K sq
    (p1.invMul p2).act y = p1.invAct (p2.act y) := by
  rw [iso3_invMul_eq_inverse_mul, (iso3_mul_act sq _ p2 y (unit3_inverse sq p1 h1) h2).1, iso3_invAct_eq_inverse_act]

open Model.CC in
/-- **World-frame specification of `query::intersection_test` on two cuboids** (dim3), under the hypotheses of
`intersectionTestCuboidCuboid_true_iff` for `pos12 = pos1⁻¹·pos2`: the free function answers `true` iff some world
point lies in both posed cuboids. -/
theorem queryIntersectionTest_cuboids_iff_world (he1 he2 : V3 K) (p1 p2 : Iso3 K) (h1 : Unit3 p1) (h2 : Unit3 p2)
    (hs : LawfulSqrt sq) (hh1 : ∀ k, 0 ≤ comp he1 k) (hh2 : ∀ l, 0 ≤ comp he2 l)
    (hgen : ∀ a ∈ @satEdgeAxes K (fieldNum K sq) (@Iso3.invMul K (fieldNum K sq) p1 p2),
      @V3.dot K (fieldNum K sq) a a = 0 ∨ @realEps K (fieldNum K sq) < @V3.norm K (fieldNum K sq) a) :
    letI := fieldNum K sq
    queryIntersectionTest (fun m => intersectionTestCuboidCuboid m he1 he2) p1 p2 = true ↔
      ∃ w : V3 K, Cuboid3.Mem ⟨he1⟩ (p1.invAct w) ∧ Cuboid3.Mem ⟨he2⟩ (p2.invAct w) := by
  have hu := unit3_invMul sq p1 p2 h1 h2
  show @intersectionTestCuboidCuboid K (fieldNum K sq) (@Iso3.invMul K (fieldNum K sq) p1 p2) he1 he2 = true ↔ _
  rw [intersectionTestCuboidCuboid_true_iff sq _ he1 he2 hu hs hh1 hh2 hgen]
  unfold CuboidsMeet
  constructor
  · rintro ⟨y, hy, hx⟩
    refine ⟨@Iso3.act K (fieldNum K sq) p2 y, ?_, ?_⟩
    · rw [← iso3_invMul_act sq p1 p2 y h1 h2]; exact hx
    · rw [(iso3_invAct_act sq p2 y h2).1]; exact hy
  · rintro ⟨w, hw1, hw2⟩
    refine ⟨@Iso3.invAct K (fieldNum K sq) p2 w, hw2, ?_⟩
    rw [iso3_invMul_act sq p1 p2 _ h1 h2, (iso3_invAct_act sq p2 w h2).2]; exact hw1

example : Unit3 (⟨0, 0, 0, 1, ⟨1, -2, 3⟩⟩ : Iso3 ℚ) ∧ Unit3 (⟨0, 0, 1, 0, ⟨0, 0, 0⟩⟩ : Iso3 ℚ) := by unfold Unit3; norm_num

end C03
