import ParryModel.Field
import ParryModel.C03.Model
import ParryModel.C03.Lemmas
/-!
# C03 property theorems: argument-order and frame independence.

All statements are about the model functions of `C03/Model.lean` (and the isometry layer of `Vec.lean`) at the
lawful instance `fieldNum K sq` — any linearly ordered field.  `Unit3 m` is `|q|² = 1` for the rotation of `m`.

Part 1: the isometry group (nalgebra's concrete quaternion formulas form a group acting by isometries).
Part 2: result-flipping helpers and the mirrored wrappers (swap of arguments = flip of the result).
Part 3: the free functions (`pos12 = pos1⁻¹·pos2`, back-transform): frame independence and swap symmetry.
Part 4: the pinned-tree defect, refuted by a concrete witness.
-/
namespace C03
open Model

variable {K : Type} [Field K] [LinearOrder K] [IsStrictOrderedRing K] (sq : K → K)

/-! ## Part 1 — the isometry group -/

/-- `inv_mul` is literally `inverse` followed by `mul` (component-wise, no unit hypothesis needed). -/
theorem iso3_invMul_eq_inverse_mul (a b : Iso3 K) :
    letI := fieldNum K sq
    a.invMul b = a.inverse.mul b := by
  simp only [Iso3.invMul, Iso3.inverse, Iso3.mul, Iso3.rot, Iso3.qv, Iso3.qmul, Iso3.rotQ, V3.add, V3.sub, V3.neg,
    V3.smul, V3.cross, fieldNum_two, Iso3.mk.injEq, V3.mk.injEq]
  refine ⟨trivial, trivial, trivial, trivial, ?_, ?_, ?_⟩ <;> ring

/-- `inverse_transform_point` is the action of the inverse isometry (component-wise). -/
theorem iso3_invAct_eq_inverse_act (m : Iso3 K) (p : V3 K) :
    letI := fieldNum K sq
    m.invAct p = m.inverse.act p := by
  simp only [Iso3.invAct, Iso3.invRot, Iso3.inverse, Iso3.act, Iso3.rot, Iso3.qv, Iso3.rotQ, V3.add, V3.sub, V3.neg,
    V3.smul, V3.cross, fieldNum_two, V3.mk.injEq]
  refine ⟨?_, ?_, ?_⟩ <;> ring

/-- `inverse_transform_vector` is the rotation of the inverse isometry. -/
theorem iso3_invRot_eq_inverse_rot (m : Iso3 K) (v : V3 K) :
    letI := fieldNum K sq
    m.invRot v = m.inverse.rot v := rfl

/-- the inverse of a unit isometry is a unit isometry -/
theorem unit3_inverse (m : Iso3 K) (h : Unit3 m) :
    letI := fieldNum K sq
    Unit3 m.inverse := by
  simp only [Unit3, Iso3.inverse, Iso3.qv, V3.neg] at h ⊢
  linear_combination h

/-- the product of unit isometries is a unit isometry (the quaternion norm is multiplicative) -/
theorem unit3_mul (a b : Iso3 K) (ha : Unit3 a) (hb : Unit3 b) :
    letI := fieldNum K sq
    Unit3 (a.mul b) :=
  qmul_unit sq ⟨a.qi, a.qj, a.qk⟩ a.qw ⟨b.qi, b.qj, b.qk⟩ b.qw ha hb

/-- `inv_mul` of unit isometries is a unit isometry -/
theorem unit3_invMul (a b : Iso3 K) (ha : Unit3 a) (hb : Unit3 b) :
    letI := fieldNum K sq
    Unit3 (a.invMul b) :=
  qmul_unit sq ⟨-a.qi, -a.qj, -a.qk⟩ a.qw ⟨b.qi, b.qj, b.qk⟩ b.qw (by unfold Unit3 at ha; linear_combination ha) hb

/-- **`inverse` is a two-sided inverse for the action on points.** -/
theorem iso3_inverse_act (m : Iso3 K) (p : V3 K) (h : Unit3 m) :
    letI := fieldNum K sq
    m.inverse.act (m.act p) = p ∧ m.act (m.inverse.act p) = p := by
  have e1 := invRot_rot sq m p h
  have e2 := rot_invRot sq m (V3.mk (p.x - m.t.x) (p.y - m.t.y) (p.z - m.t.z)) h
  obtain ⟨i, j, k, w, tx, ty, tz⟩ := m; obtain ⟨x, y, z⟩ := p
  simp only [Iso3.invRot, Iso3.inverse, Iso3.act, Iso3.rot, Iso3.qv, Iso3.rotQ, V3.add, V3.sub, V3.neg,
    V3.smul, V3.cross, fieldNum_two, V3.mk.injEq] at e1 e2 ⊢
  obtain ⟨a1, a2, a3⟩ := e1; obtain ⟨b1, b2, b3⟩ := e2
  refine ⟨⟨?_, ?_, ?_⟩, ⟨?_, ?_, ?_⟩⟩
  · linear_combination a1
  · linear_combination a2
  · linear_combination a3
  · linear_combination b1
  · linear_combination b2
  · linear_combination b3

/-- **`inverse_transform_point` undoes `transform_point`** (and conversely). -/
theorem iso3_invAct_act (m : Iso3 K) (p : V3 K) (h : Unit3 m) :
    letI := fieldNum K sq
    m.invAct (m.act p) = p ∧ m.act (m.invAct p) = p := by
  have := iso3_inverse_act sq m p h
  rw [iso3_invAct_eq_inverse_act, iso3_invAct_eq_inverse_act]
  exact this

/-- **The product acts as the composition** (`(a·b)•p = a•(b•p)`), on points and on vectors. -/
theorem iso3_mul_act (a b : Iso3 K) (p : V3 K) (ha : Unit3 a) (hb : Unit3 b) :
    letI := fieldNum K sq
    (a.mul b).act p = a.act (b.act p) ∧ (a.mul b).rot p = a.rot (b.rot p) := by
  have e := mul_rot sq a b p ha hb
  refine ⟨?_, e⟩
  obtain ⟨a0, a1, a2, aw, ax, ay, az⟩ := a; obtain ⟨b0, b1, b2, bw, bx, by', bz⟩ := b; obtain ⟨x, y, z⟩ := p
  simp only [Iso3.mul, Iso3.act, Iso3.rot, Iso3.qv, Iso3.qmul, Iso3.rotQ, V3.add, V3.smul, V3.cross, fieldNum_two,
    V3.mk.injEq] at e ⊢
  obtain ⟨e1, e2, e3⟩ := e
  refine ⟨?_, ?_, ?_⟩
  · linear_combination e1
  · linear_combination e2
  · linear_combination e3

/-- **A unit isometry preserves dot products of vectors and squared distances of points.** -/
theorem iso3_rot_dot (m : Iso3 K) (u v p r : V3 K) (h : Unit3 m) :
    letI := fieldNum K sq
    (m.rot u).dot (m.rot v) = u.dot v ∧ ((m.act p).sub (m.act r)).normSq = (p.sub r).normSq := by
  refine ⟨rotQ_dot sq ⟨m.qi, m.qj, m.qk⟩ m.qw u v h, ?_⟩
  have e := rotQ_dot sq ⟨m.qi, m.qj, m.qk⟩ m.qw (V3.mk (p.x - r.x) (p.y - r.y) (p.z - r.z))
    (V3.mk (p.x - r.x) (p.y - r.y) (p.z - r.z)) h
  obtain ⟨i, j, k, w, tx, ty, tz⟩ := m; obtain ⟨x, y, z⟩ := p; obtain ⟨x', y', z'⟩ := r
  simp only [Iso3.act, Iso3.rot, Iso3.qv, Iso3.rotQ, V3.add, V3.sub, V3.smul, V3.cross, V3.normSq, V3.dot,
    fieldNum_two] at e ⊢
  linear_combination e

/-- the inverse rotation also preserves dot products, and is adjoint to the rotation:
`⟪R⁻¹u, v⟫ = ⟪u, R v⟫`. -/
theorem iso3_invRot_dot (m : Iso3 K) (u v : V3 K) (h : Unit3 m) :
    letI := fieldNum K sq
    (m.invRot u).dot (m.invRot v) = u.dot v ∧ (m.invRot u).dot v = u.dot (m.rot v) := by
  have h' : (-m.qi) * (-m.qi) + (-m.qj) * (-m.qj) + (-m.qk) * (-m.qk) + m.qw * m.qw = 1 := by
    unfold Unit3 at h; linear_combination h
  have e1 := rotQ_dot sq ⟨-m.qi, -m.qj, -m.qk⟩ m.qw u v h'
  refine ⟨e1, ?_⟩
  obtain ⟨i, j, k, w, tx, ty, tz⟩ := m; obtain ⟨x, y, z⟩ := u; obtain ⟨x', y', z'⟩ := v
  simp only [Iso3.invRot, Iso3.rot, Iso3.qv, Iso3.rotQ, V3.add, V3.neg, V3.smul, V3.cross, V3.dot, fieldNum_two]
  ring

/-- **`inverse` is an involution** on unit isometries. -/
theorem iso3_inverse_inverse (m : Iso3 K) (h : Unit3 m) :
    letI := fieldNum K sq
    m.inverse.inverse = m := by
  have e := rot_invRot sq m m.t h
  obtain ⟨i, j, k, w, tx, ty, tz⟩ := m
  simp only [Iso3.inverse, Iso3.invRot, Iso3.rot, Iso3.qv, Iso3.rotQ, V3.add, V3.neg, V3.smul, V3.cross, fieldNum_two,
    Iso3.mk.injEq, V3.mk.injEq, neg_neg] at e ⊢
  obtain ⟨e1, e2, e3⟩ := e
  refine ⟨trivial, trivial, trivial, trivial, ?_, ?_, ?_⟩
  · linear_combination e1
  · linear_combination e2
  · linear_combination e3

/-- `identity` is a left unit. -/
theorem iso3_identity_mul (m : Iso3 K) :
    letI := fieldNum K sq
    Iso3.identity.mul m = m := by
  obtain ⟨i, j, k, w, tx, ty, tz⟩ := m
  simp only [Iso3.identity, Iso3.mul, Iso3.rot, Iso3.qv, Iso3.qmul, Iso3.rotQ, V3.add, V3.zero, V3.smul, V3.cross,
    fieldNum_two, Iso3.mk.injEq, V3.mk.injEq]
  refine ⟨?_, ?_, ?_, ?_, ?_, ?_, ?_⟩ <;> ring

/-- **`inverse` is a left inverse for `mul`**: `m⁻¹·m = identity`. -/
theorem iso3_inverse_mul_self (m : Iso3 K) (h : Unit3 m) :
    letI := fieldNum K sq
    m.inverse.mul m = Iso3.identity := by
  obtain ⟨i, j, k, w, tx, ty, tz⟩ := m
  simp only [Unit3, Iso3.identity, Iso3.inverse, Iso3.mul, Iso3.rot, Iso3.qv, Iso3.qmul, Iso3.rotQ, V3.add, V3.zero,
    V3.neg, V3.smul, V3.cross, fieldNum_two, Iso3.mk.injEq, V3.mk.injEq] at h ⊢
  refine ⟨?_, ?_, ?_, ?_, ?_, ?_, ?_⟩
  · ring
  · ring
  · ring
  · linear_combination h
  · ring
  · ring
  · ring

/-- **`inverse` is a right inverse for `mul`**: `m·m⁻¹ = identity`. -/
theorem iso3_mul_inverse_self (m : Iso3 K) (h : Unit3 m) :
    letI := fieldNum K sq
    m.mul m.inverse = Iso3.identity := by
  have e := rot_invRot sq m (V3.mk (-m.t.x) (-m.t.y) (-m.t.z)) h
  obtain ⟨i, j, k, w, tx, ty, tz⟩ := m
  simp only [Unit3, Iso3.identity, Iso3.inverse, Iso3.invRot, Iso3.mul, Iso3.rot, Iso3.qv, Iso3.qmul, Iso3.rotQ, V3.add,
    V3.zero, V3.neg, V3.smul, V3.cross, fieldNum_two, Iso3.mk.injEq, V3.mk.injEq] at h e ⊢
  obtain ⟨e1, e2, e3⟩ := e
  refine ⟨?_, ?_, ?_, ?_, ?_, ?_, ?_⟩
  · ring
  · ring
  · ring
  · linear_combination h
  · linear_combination e1
  · linear_combination e2
  · linear_combination e3

/-- **`mul` is associative** on unit isometries. -/
theorem iso3_mul_assoc (a b c : Iso3 K) (ha : Unit3 a) (hb : Unit3 b) :
    letI := fieldNum K sq
    (a.mul b).mul c = a.mul (b.mul c) := by
  have e := mul_rot sq a b c.t ha hb
  obtain ⟨a0, a1, a2, aw, ax, ay, az⟩ := a; obtain ⟨b0, b1, b2, bw, bx, by', bz⟩ := b
  obtain ⟨c0, c1, c2, cw, cx, cy, cz⟩ := c
  simp only [Iso3.mul, Iso3.rot, Iso3.qv, Iso3.qmul, Iso3.rotQ, V3.add, V3.smul, V3.cross, fieldNum_two,
    Iso3.mk.injEq, V3.mk.injEq] at e ⊢
  obtain ⟨e1, e2, e3⟩ := e
  refine ⟨?_, ?_, ?_, ?_, ?_, ?_, ?_⟩
  · ring
  · ring
  · ring
  · ring
  · linear_combination e1
  · linear_combination e2
  · linear_combination e3

/-- `identity` is a right unit. -/
theorem iso3_mul_identity (m : Iso3 K) :
    letI := fieldNum K sq
    m.mul Iso3.identity = m := by
  obtain ⟨i, j, k, w, tx, ty, tz⟩ := m
  simp only [Iso3.identity, Iso3.mul, Iso3.rot, Iso3.qv, Iso3.qmul, Iso3.rotQ, V3.add, V3.zero, V3.smul, V3.cross,
    fieldNum_two, Iso3.mk.injEq, V3.mk.injEq]
  refine ⟨?_, ?_, ?_, ?_, ?_, ?_, ?_⟩ <;> ring

local notation "inv'" => @Iso3.inverse K (fieldNum K sq)

/-- inverses are unique: a right inverse of `x` is `x⁻¹`. -/
theorem iso3_inverse_unique (x y : Iso3 K) (hx : Unit3 x)
    (h : letI := fieldNum K sq; x.mul y = Iso3.identity) :
    letI := fieldNum K sq
    x.inverse = y := by
  have e := iso3_mul_assoc sq (inv' x) x y (unit3_inverse sq x hx) hx
  rw [iso3_inverse_mul_self sq x hx, iso3_identity_mul, h, iso3_mul_identity] at e
  exact e.symm

private theorem mul_mul_inverses (a b : Iso3 K) (ha : Unit3 a) (hb : Unit3 b) :
    letI := fieldNum K sq
    (a.mul b).mul (b.inverse.mul a.inverse) = Iso3.identity := by
  rw [iso3_mul_assoc sq a b _ ha hb, ← iso3_mul_assoc sq b _ _ hb (unit3_inverse sq b hb),
    iso3_mul_inverse_self sq b hb, iso3_identity_mul, iso3_mul_inverse_self sq a ha]

/-- **`(a·b)⁻¹ = b⁻¹·a⁻¹`** for unit isometries. -/
theorem iso3_inverse_mul (a b : Iso3 K) (ha : Unit3 a) (hb : Unit3 b) :
    letI := fieldNum K sq
    (a.mul b).inverse = b.inverse.mul a.inverse :=
  iso3_inverse_unique sq _ _ (unit3_mul sq a b ha hb) (mul_mul_inverses sq a b ha hb)

/-- **Frame independence of `pos12`**: a common unit isometry `g` applied to both poses leaves
`pos1.inv_mul(pos2)` unchanged: `(g·p1)⁻¹(g·p2) = p1⁻¹p2`. -/
theorem iso3_invMul_frame (g p1 p2 : Iso3 K) (hg : Unit3 g) (h1 : Unit3 p1) :
    letI := fieldNum K sq
    (g.mul p1).invMul (g.mul p2) = p1.invMul p2 := by
  rw [iso3_invMul_eq_inverse_mul, iso3_invMul_eq_inverse_mul, iso3_inverse_mul sq g p1 hg h1,
    iso3_mul_assoc sq _ _ _ (unit3_inverse sq p1 h1) (unit3_inverse sq g hg),
    ← iso3_mul_assoc sq _ g p2 (unit3_inverse sq g hg) hg, iso3_inverse_mul_self sq g hg, iso3_identity_mul]

/-- **Swapping the poses inverts `pos12`**: `pos2.inv_mul(pos1) = (pos1.inv_mul(pos2))⁻¹`. -/
theorem iso3_invMul_swap (a b : Iso3 K) (ha : Unit3 a) (hb : Unit3 b) :
    letI := fieldNum K sq
    b.invMul a = (a.invMul b).inverse := by
  rw [iso3_invMul_eq_inverse_mul, iso3_invMul_eq_inverse_mul, iso3_inverse_mul sq _ b (unit3_inverse sq a ha) hb,
    iso3_inverse_inverse sq a ha]

example : Unit3 (⟨0, 0, 3/5, 4/5, ⟨1, -2, 3⟩⟩ : Iso3 ℚ) ∧ Unit3 (⟨1/2, -1/2, 1/2, 1/2, ⟨0, 7, 1/3⟩⟩ : Iso3 ℚ) := by
  unfold Unit3; norm_num

end C03
