import ParryModel.Field
import ParryModel.C03.Model
/-! # C03 property theorems (work in progress) -/
namespace C03
open Model

variable {K : Type} [Field K] [LinearOrder K] [IsStrictOrderedRing K] (sq : K → K)

/-- `Contact::flipped` is an involution. -/
theorem contact_flipped_flipped (c : Contact3 K) : c.flipped.flipped = c := rfl

end C03
