import ParryModel.Proto
import ParryModel.C03.Model
import ParryModel.C03.Wrap
import ParryModel.C03.Oracle
import ParryModel.C03.SatDriver
/-!
# C03 follow-up 3: handlers of the swapped composite-shape wrappers, the swapped shape-cast wrappers and the
`NonlinearRigidMotion` frame helpers.

Every wrapper is run against its canonical sibling *tabulated by the generator* (the real `*_composite_shape_shape`
function evaluated at the arguments the wrapper must construct); the model recomputes those arguments bit-exactly
(`pos12.inverse()`, `-pos12.inverse_transform_vector(vel12)`) and flips the tabulated answer.
`w_it_tc`, `w_it_sgc`, `w_cp_tc`: `intersection_test_{triangle,segment}_cuboid` and `closest_points_triangle_cuboid` have the
same text as the composite wrappers (`canonical(&pos12.inverse(), cuboid2, x1)[.flipped()]`) and use the same model functions;
their oracle is the exact vertex-based separating-axis judge of `SatDriver.lean`.
Oracles: exact-rational separation of every part of the composite (balls / cuboids) from the other shape
(`Pair.sep`), in the frame of the first argument — independent of argument order and of the wrapper algebra.
-/
namespace C03
open Model Proto

def wfiso3 (m : Iso3 Float) : String := s!"{ff m.qi} {ff m.qj} {ff m.qk} {ff m.qw} {fv3 m.t}"
def wsameIso (a b : Iso3 Float) : Bool := wfiso3 a = wfiso3 b
def wsameV (a b : V3 Float) : Bool := fv3 a = fv3 b
def wfhit (h : ShapeCastHit3 Float) : String :=
  s!"{ff h.toi} {fv3 h.witness1} {fv3 h.witness2} {fv3 h.normal1} {fv3 h.normal2} {h.status}"
def wfhitOpt : Option (ShapeCastHit3 Float) → String
  | none => "none"
  | some h => s!"hit {wfhit h}"
def wphit : P (Option (ShapeCastHit3 Float)) := do
  let t ← tok
  if t = "none" then pure none
  else if t = "hit" then do
    let toi ← pfo; let a ← pov3; let b ← pov3; let c ← pov3; let d ← pov3; let st ← pnat
    pure (some ⟨toi, a, b, c, d, st⟩)
  else failure
def wpcontact : P (Option (Contact3 Float)) := do
  let t ← tok
  if t = "none" then pure none
  else if t = "some" then do
    let a ← pv3; let b ← pv3; let c ← pv3; let d ← pv3; let e ← pf; pure (some ⟨a, b, c, d, e⟩)
  else failure
def wpcp : P (ClosestPoints3 Float) := do
  let t ← tok
  match t with
  | "intersecting" => pure .intersecting
  | "disjoint" => pure .disjoint
  | "within" => do let a ← pv3; let b ← pv3; pure (.withinMargin a b)
  | _ => failure
def wpclosed : P (Shape3 Float) := do
  let s ← pshape
  match s.closed with
  | some c => pure c
  | none => failure
/-- `compound n (iso shape)*` with closed-form parts -/
def wpcompound : P (List (Iso3 Float × Shape3 Float)) := do
  let t ← tok
  if t ≠ "compound" then failure else
  plist (do let m ← piso3; let s ← wpclosed; pure (m, s))

def wqcp : ClosestPoints3 Float → ClosestPoints3 Rat
  | .intersecting => .intersecting
  | .disjoint => .disjoint
  | .withinMargin a b => .withinMargin (q3 a) (q3 b)
def wfiniteCP : ClosestPoints3 Float → Bool
  | .withinMargin a b => finite3 a && finite3 b
  | _ => true
def wpmotion : P (Motion3 Float) := do
  let s ← piso3; let c ← pv3; let l ← pv3; let a ← pv3; pure ⟨s, c, l, a⟩
def wfmotion (m : Motion3 Float) : String := s!"{wfiso3 m.start} {fv3 m.localCenter} {fv3 m.linvel} {fv3 m.angvel}"
def wpmotionOut : P (Motion3 Float) := do
  let i ← pfo; let j ← pfo; let k ← pfo; let w ← pfo; let t ← pov3; let c ← pov3; let l ← pov3; let a ← pov3
  pure ⟨⟨i, j, k, w, t⟩, c, l, a⟩
def wpisoOut : P (Iso3 Float) := do
  let i ← pfo; let j ← pfo; let k ← pfo; let w ← pfo; let t ← pov3; pure ⟨i, j, k, w, t⟩

def woutS {α} (p : P α) (out : List String) (k : α → String) : String :=
  match out with
  | "panic" :: _ => "fail panic"
  | _ => match run p out with
    | some a => k a
    | none => "fail unparsable-output"

/-! ## exact geometry of a compound of closed-form parts against a closed-form shape -/

/-- signed separations of `s1` (at the identity: the frame of the first argument) from every part of the compound
posed by `pos`; `none` when a pair kind has no exact separation -/
def partSeps (s1 : Shape3 Rat) (parts : List (Iso3 Rat × Shape3 Rat)) (pos : Iso3 Rat) :
    Option (List (Rat × Option (V3 Rat) × Iso3 Rat × Shape3 Rat)) :=
  parts.mapM fun (pp, s) =>
    let P : Pair := ⟨s1, Iso3.identity, s, pos.mul pp⟩
    P.sep.map fun (v, n) => (v, n, pos.mul pp, s)

def listMinR (l : List Rat) : Rat := l.foldl min (l.headD 0)
def wscale (s1 : Shape3 Rat) (parts : List (Iso3 Rat × Shape3 Rat)) (pos : Iso3 Rat) : Rat :=
  shapeSize s1 + vmag pos.t + parts.foldl (fun a (pp, s) => a + vmag pp.t + shapeSize s) 0
def qparts (ps : List (Iso3 Float × Shape3 Float)) : List (Iso3 Rat × Shape3 Rat) := ps.map fun (m, s) => (qiso3 m, qshape s)
def onSomePart (seps : List (Rat × Option (V3 Rat) × Iso3 Rat × Shape3 Rat)) (p : V3 Rat) (sl : Rat) : Bool :=
  seps.any fun (_, _, pos, s) => onBoundaryW s pos p sl

structure WArgs where
  s1 : Shape3 Float
  parts : List (Iso3 Float × Shape3 Float)
  m : Iso3 Float
def wpargs : P WArgs := do let s ← wpclosed; let ps ← wpcompound; let m ← piso3; pure ⟨s, ps, m⟩

/-- common preparation: exact separations, the least one, the scale and the slack -/
def wprep (a : WArgs) : Option (List (Rat × Option (V3 Rat) × Iso3 Rat × Shape3 Rat) × Rat × Rat × Rat) :=
  let s1 := qshape a.s1; let ps := qparts a.parts; let pos := qiso3 a.m
  if !(unitQ pos && ps.all fun (pp, _) => unitQ pp) then none else
  match partSeps s1 ps pos with
  | none => none
  | some seps =>
    let sc := wscale s1 ps pos
    some (seps, listMinR (seps.map (·.1)), sc, tol * (1 + sc) * 100)

def judgeWDistance (a : WArgs) (out : Rat) : String :=
  match wprep a with
  | none => "skip no-exact-separation"
  | some (_, mn, sc, _) =>
    let ex := if mn < 0 then 0 else mn
    if close out ex (sc * 100) then "pass" else s!"fail distance={out.toF} expected={ex.toF}"
def judgeWIT (a : WArgs) (out : Bool) : String :=
  match wprep a with
  | none => "skip no-exact-separation"
  | some (_, mn, _, sl) =>
    if mn > sl && out then s!"fail intersecting-but-separated-by {mn.toF}"
    else if mn < -sl && !out then s!"fail disjoint-but-overlapping-by {mn.toF}" else "pass"
def judgeWCP (a : WArgs) (margin : Rat) (out : Option (ClosestPoints3 Rat)) : String :=
  match wprep a with
  | none => "skip no-exact-separation"
  | some (seps, mn, sc, sl) =>
    match out with
    | none => if margin < 0 then "pass" else "fail panic-with-nonnegative-margin"
    | some o =>
      if margin < 0 then "fail no-panic-with-negative-margin" else
      match o with
      | .intersecting => if mn > sl then s!"fail intersecting-but-separated-by {mn.toF}" else "pass"
      | .disjoint => if mn < margin - sl then s!"fail disjoint-but-within-margin sep={mn.toF}" else "pass"
      | .withinMargin p1 p2 =>
        -- p1 in the frame of shape 1 (the world here), p2 in the frame of the compound
        let w2 := (qiso3 a.m).act p2
        if mn < -sl then "fail within-margin-but-overlapping"
        else if mn > margin + sl then "fail within-margin-but-beyond-margin"
        else if !onBoundaryW (qshape a.s1) Iso3.identity p1 sl then "fail point1-not-on-shape1"
        else if !onSomePart seps w2 sl then "fail point2-not-on-a-part-of-the-compound"
        else if close (rsqrt (w2.sub p1).normSq) mn (sc * 100) then "pass"
        else s!"fail |p2-p1|={(rsqrt (w2.sub p1).normSq).toF} is-not-the-least-separation {mn.toF}"
def judgeWContact (a : WArgs) (pred : Rat) (out : Option (Contact3 Rat)) : String :=
  match wprep a with
  | none => "skip no-exact-separation"
  | some (seps, mn, sc, sl) =>
    match out with
    | none => if mn < pred - sl then s!"fail none-but-within-prediction sep={mn.toF} pred={pred.toF}" else "pass"
    | some c =>
      let pos := qiso3 a.m
      let w2 := pos.act c.point2; let n2 := pos.rot c.normal2
      if mn > pred + sl then s!"fail some-but-beyond-prediction sep={mn.toF} pred={pred.toF}"
      else if !close c.dist mn (sc * 100) then s!"fail dist={c.dist.toF} expected-least-separation={mn.toF}"
      else if !close c.normal1.normSq 1 0 then "fail normal1-not-unit"
      else if !closeV n2 c.normal1.neg 10 then "fail normal2-not-minus-normal1-in-world"
      else if !close ((w2.sub c.point1).dot c.normal1) c.dist (sc * 100) then "fail dist-not-(p2-p1).n1"
      else if !memW (qshape a.s1) Iso3.identity c.point1 sl then "fail point1-not-on-shape1"
      else if !(seps.any fun (_, _, pp, s) => memW s pp w2 sl) then "fail point2-not-on-a-part-of-the-compound"
      else "pass"

/-! ## shape casts: separation as a function of time -/

/-- least separation at time `t` when the second argument moves with `vel` relative to the first -/
def sepAt (s1 : Shape3 Rat) (parts : List (Iso3 Rat × Shape3 Rat)) (pos : Iso3 Rat) (vel : V3 Rat) (t : Rat) : Option Rat :=
  (partSeps s1 parts { pos with t := pos.t.add (vel.smul t) } ).map fun l => listMinR (l.map (·.1))

def sampleTimes (T : Rat) : List Rat := (List.range 33).map fun (i : Nat) => T * ((i : Int) : Rat) / 32

/-- judge of a swapped-cast output: `s1` at rest in its own frame, the parts posed by `pos12` moving with `vel12` -/
def judgeWCast (s1 : Shape3 Rat) (parts : List (Iso3 Rat × Shape3 Rat)) (pos : Iso3 Rat) (vel : V3 Rat)
    (target : Rat) (stop : Bool) (maxtoi : Rat) (out : Option (ShapeCastHit3 Rat)) (rtol : Rat) : String :=
  if !(unitQ pos && parts.all fun (pp, _) => unitQ pp) then "skip non-unit" else
  let sc := wscale s1 parts pos + vmag vel
  let sl := rtol * (1 + sc)
  match sepAt s1 parts pos vel 0 with
  | none => "skip no-exact-separation"
  | some sep0 =>
    match out with
    | some h =>
      if h.toi < 0 then "fail negative-toi"
      else if h.toi > maxtoi + sl then "fail toi-beyond-max"
      else match sepAt s1 parts pos vel h.toi with
        | none => "skip no-exact-separation"
        | some st =>
          if h.status = 3 then   -- PenetratingOrWithinTargetDist
            (if sep0 ≤ target + sl then "pass" else s!"fail penetrating-status-but-separated-by {sep0.toF}")
          -- some part starts within the target distance: with `stop_at_penetration = false` it is ignored while it
          -- moves away, so the least separation at the reported impact is not constrained
          else if sep0 ≤ target + sl then "pass"
          else if rabs (st - target) ≤ sl * (1 + vmag vel) then "pass"
          else s!"fail separation-at-impact={st.toF} target={target.toF} toi={h.toi.toF}"
    | none =>
      -- no hit reported: no sampled time before `maxtoi` may show the shapes closer than the target
      let T := if maxtoi > 1000 then (if vel.normSq > 0 then (sc + 1) * 4 / (rsqrt vel.normSq + tol) else 1) else maxtoi
      let bad := (sampleTimes (min T maxtoi)).filter fun t =>
        match sepAt s1 parts pos vel t with
        | some s => s < target - sl * 10 - (if stop then 0 else 0)
        | none => false
      -- when the shapes start closer than the target and move apart, `stop_at_penetration = false` allows `None`
      if bad.isEmpty then "pass"
      else if !stop && sep0 < target + sl then "pass"
      else s!"fail none-but-closer-than-target-at-t={(bad.headD 0).toF}"

def qhit (h : ShapeCastHit3 Float) : ShapeCastHit3 Rat :=
  ⟨q h.toi, q3 h.witness1, q3 h.witness2, q3 h.normal1, q3 h.normal2, h.status⟩
def finiteHit (h : ShapeCastHit3 Float) : Bool :=
  FloatIO.isFinite h.toi && finite3 h.witness1 && finite3 h.witness2 && finite3 h.normal1 && finite3 h.normal2

/-! ## handlers -/

def wrapHandler (fn : String) : Option Handler :=
  match fn with
  /- args: s1 compound pos12 margin pinv canon -/
  | "w_cp_sc" => some {
      model := fun a => run (do let x ← wpargs; let _ ← pf; let pinv ← piso3; let canon ← wpcp
                                if !wsameIso x.m.inverse pinv then pure "inverse-mismatch"
                                else pure (fcp (some (closestPointsShapeComposite (fun _ => canon) x.m)))) a
      oracle := fun a o => match run (do let x ← wpargs; let p ← pf; pure (x, p)) a with
        | some (x, p) => woutS pcpOut o fun out =>
            if !(out.all wfiniteCP) then "fail non-finite-output" else judgeWCP x (q p) (out.map wqcp)
        | none => "skip bad-args" }
  | "w_contact_sc" => some {
      model := fun a => run (do let x ← wpargs; let _ ← pf; let pinv ← piso3; let canon ← wpcontact
                                if !wsameIso x.m.inverse pinv then pure "inverse-mismatch"
                                else pure (fcontact (contactShapeComposite (fun _ => canon) x.m))) a
      oracle := fun a o => match run (do let x ← wpargs; let p ← pf; pure (x, p)) a with
        | some (x, p) => woutS pcontactOut o fun out =>
            if !(out.all finiteContact) then "fail non-finite-output" else judgeWContact x (q p) (out.map qcontact)
        | none => "skip bad-args" }
  | "w_distance_sc" => some {
      model := fun a => run (do let x ← wpargs; let pinv ← piso3; let canon ← pf
                                if !wsameIso x.m.inverse pinv then pure "inverse-mismatch"
                                else pure (ff (distanceShapeComposite (fun _ => canon) x.m))) a
      oracle := fun a o => match run wpargs a with
        | some x => woutS pfo o fun out =>
            if !FloatIO.isFinite out then "fail non-finite-output" else judgeWDistance x (q out)
        | none => "skip bad-args" }
  | "w_it_sc" => some {
      model := fun a => run (do let x ← wpargs; let pinv ← piso3; let canon ← pbool
                                if !wsameIso x.m.inverse pinv then pure "inverse-mismatch"
                                else pure (fb (intersectionTestShapeComposite (fun _ => canon) x.m))) a
      oracle := fun a o => match run wpargs a with
        | some x => woutS pbool o fun out => judgeWIT x out
        | none => "skip bad-args" }
  /- args: s1 compound pos12 vel12 target stop maxtoi pinv vinv canon -/
  | "w_cast_sc" => some {
      model := fun a => run (do let x ← wpargs; let v ← pv3; let _ ← pf; let _ ← pbool; let _ ← pf
                                let pinv ← piso3; let vinv ← pv3; let canon ← wphit
                                if !wsameIso x.m.inverse pinv then pure "inverse-mismatch"
                                else if !wsameV (x.m.invRot v).neg vinv then pure "velocity-mismatch"
                                else pure (wfhitOpt (castShapesSwapped (fun _ _ => canon) x.m v))) a
      oracle := fun a o => match run (do let x ← wpargs; let v ← pv3; let tg ← pf; let st ← pbool; let mt ← pf
                                         pure (x, v, tg, st, mt)) a with
        | some (x, v, tg, st, mt) => woutS wphit o fun out =>
            if !(out.all finiteHit) then "fail non-finite-output" else
            judgeWCast (qshape x.s1) (qparts x.parts) (qiso3 x.m) (q3 v) (q tg) st (q mt) (out.map qhit) (1 / 100000)
        | none => "skip bad-args" }
  /- args: s1(ball|cuboid) halfspace pos12 vel12 target stop maxtoi pinv vinv canon -/
  | "w_cast_sh" => some {
      model := fun a => run (do let _ ← wpclosed; let _ ← wpclosed; let m ← piso3; let v ← pv3
                                let _ ← pf; let _ ← pbool; let _ ← pf
                                let pinv ← piso3; let vinv ← pv3; let canon ← wphit
                                if !wsameIso m.inverse pinv then pure "inverse-mismatch"
                                else if !wsameV (m.invRot v).neg vinv then pure "velocity-mismatch"
                                else pure (wfhitOpt (castShapesSwapped (fun _ _ => canon) m v))) a
      oracle := fun a o => match run (do let s1 ← wpclosed; let s2 ← wpclosed; let m ← piso3; let v ← pv3
                                         let tg ← pf; let st ← pbool; let mt ← pf; pure (s1, s2, m, v, tg, st, mt)) a with
        | some (s1, s2, m, v, tg, st, mt) => woutS wphit o fun out =>
            if !(out.all finiteHit) then "fail non-finite-output" else
            judgeWCast (qshape s1) [(Iso3.identity, qshape s2)] (qiso3 m) (q3 v) (q tg) st (q mt) (out.map qhit)
              (1 / 1000000000)
        | none => "skip bad-args" }
  /- args: s1 motion1 compound motion2 start end stop canon -/
  | "w_castnl_sc" => some {
      model := fun a => run (do let _ ← wpclosed; let _ ← wpmotion; let _ ← wpcompound; let _ ← wpmotion
                                let _ ← pf; let _ ← pf; let _ ← pbool; let canon ← wphit
                                pure (wfhitOpt (castShapesNonlinearSwapped (fun (_ _ : Unit) => canon) () ()))) a
      oracle := fun a o => match run (do let s1 ← wpclosed; let m1 ← wpmotion; let ps ← wpcompound; let m2 ← wpmotion
                                         let t0 ← pf; let t1 ← pf; let st ← pbool; pure (s1, m1, ps, m2, t0, t1, st)) a with
        | some (s1, m1, ps, m2, t0, t1, stop) => woutS wphit o fun out =>
            if !(out.all finiteHit) then "fail non-finite-output" else
            let zero (v : V3 Float) : Bool := v.x == 0.0 && v.y == 0.0 && v.z == 0.0
            if !(zero m1.angvel && zero m2.angvel) then "skip rotating-motion (correspondence only)" else
            -- pure translations: pose at time t is the start pose shifted by linvel * t; work in the frame of body 1
            let p1 := qiso3 m1.start; let p2 := qiso3 m2.start
            if !(unitQ p1 && unitQ p2) then "skip non-unit" else
            let poseAt (t : Rat) : Iso3 Rat :=
              ({ p1 with t := p1.t.add ((q3 m1.linvel).smul t) } : Iso3 Rat).invMul { p2 with t := p2.t.add ((q3 m2.linvel).smul t) }
            let sc := wscale (qshape s1) (qparts ps) (poseAt 0) + vmag (q3 m1.linvel) + vmag (q3 m2.linvel)
            match out with
            | some h =>
              if q h.toi < q t0 - tol || q h.toi > q t1 + tol then "fail toi-outside-the-time-interval" else
              match partSeps (qshape s1) (qparts ps) (poseAt (q h.toi)) with
              | none => "skip no-exact-separation"
              | some l =>
                let s := listMinR (l.map (·.1))
                if s ≤ (1 + sc) / 100 then "pass" else s!"fail separated-by {s.toF} at-the-reported-impact"
            | none =>
              let bad := (sampleTimes (q t1 - q t0)).filter fun t =>
                match partSeps (qshape s1) (qparts ps) (poseAt (q t0 + t)) with
                | some l => listMinR (l.map (·.1)) < -(1 + sc) / 100
                | none => false
              -- overlapping at the start and `stop_at_penetration = false`: the pair is ignored while it separates
              let startsOverlapping := match partSeps (qshape s1) (qparts ps) (poseAt (q t0)) with
                | some l => listMinR (l.map (·.1)) < (1 + sc) / 100
                | none => true
              if bad.isEmpty then "pass"
              else if !stop && startsOverlapping then "pass"
              else s!"fail none-but-overlapping-at-t={(q t0 + bad.headD 0).toF}"
        | none => "skip bad-args" }
  /- the remaining pairwise mirrored wrappers: triangle|segment cuboid pos12 [margin] pinv canon -/
  | "w_it_tc" | "w_it_sgc" => some {
      model := fun a => run (do let _ ← pshape; let _ ← pv3; let m ← piso3; let pinv ← piso3; let canon ← pbool
                                if !wsameIso m.inverse pinv then pure "inverse-mismatch"
                                else pure (fb (intersectionTestShapeComposite (fun _ => canon) m))) a
      oracle := fun a o => match run (do let s ← pshape; let he ← pv3; let m ← piso3; pure (s, he, m)) a with
        | some (s, he, m) => woutS pbool o fun out =>
            let M := qiso3 m; let H := q3 he
            if !unitQ M then "skip non-unit-rotation" else
            let P1 : Option Poly := match s with
              | .triangle a b c => some (polyTriangle (q3 a) (q3 b) (q3 c) Iso3.identity)
              | .segment a b => some ⟨[q3 a, q3 b], [(q3 b).sub (q3 a)], []⟩
              | _ => none
            match P1 with
            | none => "skip bad-shape"
            | some P1 => judgeVerdict (satVerdict P1 (polyCuboid H M) ((1 / 10000000) * (1 + s.rsize + vmag H + vmag M.t))) out
        | none => "skip bad-args" }
  | "w_cp_tc" => some {
      model := fun a => run (do let _ ← pshape; let _ ← pv3; let m ← piso3; let _ ← pf; let pinv ← piso3; let canon ← wpcp
                                if !wsameIso m.inverse pinv then pure "inverse-mismatch"
                                else pure (fcp (some (closestPointsShapeComposite (fun _ => canon) m)))) a
      oracle := fun a o => match run (do let s ← pshape; let he ← pv3; let m ← piso3; let mg ← pf; pure (s, he, m, mg)) a with
        | some (s, he, m, mg) => woutS pcpOut o fun out =>
            if !(out.all wfiniteCP) then "fail non-finite-output" else
            let M := qiso3 m; let H := q3 he; let margin := q mg
            if !unitQ M then "skip non-unit-rotation" else
            match s, out with
            | .triangle a b c, some r =>
              if margin < 0 then "fail no-panic-with-negative-margin" else
              let sc := 1 + s.rsize + vmag H + vmag M.t
              let sl := sc / 1000000
              let v := satVerdict (polyTriangle (q3 a) (q3 b) (q3 c) Iso3.identity) (polyCuboid H M) sl
              match wqcp r with
              | .intersecting => if v = some true then "fail intersecting-but-separated" else "pass"
              | .disjoint => if v = some false then "fail disjoint-but-overlapping" else "pass"
              | .withinMargin p1 p2 =>
                let w2 := M.act p2
                let d := rsqrt (w2.sub p1).normSq
                if v = some false then "fail within-margin-but-overlapping"
                else if d > margin + sl then s!"fail witnesses-farther-than-margin d={d.toF}"
                else if !wmem s Iso3.identity p1 sl false then "fail point1-not-on-the-triangle"
                else if !onBoundaryW (.cuboid H) M w2 sl then "fail point2-not-on-the-cuboid"
                else "pass"
            | _, none => if q mg < 0 then "pass" else "fail panic-with-nonnegative-margin"
            | _, _ => "skip bad-shape"
        | none => "skip bad-args" }
  /- `NonlinearRigidMotion` helpers: motion, then the translation / isometry -/
  | "nrm_append_translation" | "nrm_prepend_translation" | "nrm_append" | "nrm_prepend" => some {
      model := fun a => run (do
        let m ← wpmotion
        if fn = "nrm_append_translation" then do let t ← pv3; pure (wfmotion (m.appendTranslation t))
        else if fn = "nrm_prepend_translation" then do let t ← pv3; pure (wfmotion (m.prependTranslation t))
        else if fn = "nrm_append" then do let g ← piso3; pure (wfmotion (m.append g))
        else do let g ← piso3; pure (wfmotion (m.prepend g))) a
      oracle := fun a o =>
        let parsed : Option (Motion3 Float × Iso3 Rat) := run (do
          let m ← wpmotion
          if fn = "nrm_append_translation" then do let t ← pv3; pure (m, (⟨0, 0, 0, 1, (q3 t).add (qiso3 m.start).t⟩ : Iso3 Rat))
          else if fn = "nrm_prepend_translation" then do
            let t ← pv3; pure (m, (qiso3 m.start).mul ⟨0, 0, 0, 1, q3 t⟩)
          else if fn = "nrm_append" then do let g ← piso3; pure (m, (qiso3 g).mul (qiso3 m.start))
          else do let g ← piso3; pure (m, (qiso3 m.start).mul (qiso3 g))) a
        match parsed with
        | none => "skip bad-args"
        | some (m, expect) => woutS wpmotionOut o fun out =>
          let expect : Iso3 Rat := if fn = "nrm_append_translation"
            then { (qiso3 m.start) with t := expect.t } else expect
          let ns := qiso3 out.start
          let sc := vmag expect.t + vmag (q3 m.localCenter) + vmag (qiso3 m.start).t + 10
          if !(unitQ (qiso3 m.start) && unitQ ns) then "skip non-unit" else
          -- the start pose is the composed pose (judged by its action on probes) …
          let probes : List (V3 Rat) := [⟨0, 0, 0⟩, ⟨1, 0, 0⟩, ⟨0, 1, 0⟩, ⟨0, 0, 1⟩, ⟨3, -2, 5⟩]
          if !(probes.all fun p => closeV (ns.act p) (expect.act p) sc) then "fail start-is-not-the-composed-pose"
          -- … the rotation centre keeps its world position …
          else if !closeV (ns.act (q3 out.localCenter)) ((qiso3 m.start).act (q3 m.localCenter)) (sc * 10) then
            "fail world-centre-moved"
          -- … and the velocities are untouched
          else if fv3 out.linvel ≠ fv3 m.linvel || fv3 out.angvel ≠ fv3 m.angvel then "fail velocities-changed"
          else "pass" }
  /- args: motion t e  (e = Isometry::new(linvel * t, angvel * t), tabulated) -/
  | "nrm_position_at" => some {
      model := fun a => run (do let m ← wpmotion; let _ ← pf; let e ← piso3; pure (wfiso3 (m.positionAt e))) a
      oracle := fun a o => match run (do let m ← wpmotion; let t ← pf; let e ← piso3; pure (m, t, e)) a with
        | none => "skip bad-args"
        | some (m, _, e) => woutS wpisoOut o fun out =>
          let P := qiso3 out; let S := qiso3 m.start; let E := qiso3 e
          if !(unitQ S && unitQ E) then "skip non-unit" else
          let c := S.act (q3 m.localCenter)
          let sc := vmag c + vmag E.t + vmag S.t + 10
          -- the rotation centre only translates (by `linvel * t`), and the rotation part is `e ∘ start`
          if !closeV (P.act (q3 m.localCenter)) (c.add E.t) (sc * 10) then "fail centre-does-not-move-by-linvel*t"
          else
            let probes : List (V3 Rat) := [⟨1, 0, 0⟩, ⟨0, 1, 0⟩, ⟨0, 0, 1⟩, ⟨3, -2, 5⟩]
            if probes.all fun v => closeV (P.rot v) (E.rot (S.rot v)) 10 then "pass" else "fail rotation-is-not-e∘start" }
  | _ => none

end C03
