import ParryModel.Proto
import ParryModel.C03.Model
/-!
# Exact-`Rat` judges shared by the C03 and C02 drivers.

They re-judge the *implementation's* output for the closed-form pairs (ball/ball, half-space/ball,
half-space/cuboid, either order) from the geometry alone: the signed separation is computed from the eight
transformed vertices / the centre distance in exact rational arithmetic, in the **world frame**, with no reference
to which argument came first and without calling any model query function.
-/
namespace C03
open Model Proto

/-! ## wire shapes -/
inductive WShape where
  | ball (r : Float)
  | cuboid (he : V3 Float)
  | halfspace (n : V3 Float)
  | capsule (a b : V3 Float) (r : Float)
  | triangle (a b c : V3 Float)
  | segment (a b : V3 Float)
  /-- `Compound` / `TriMesh`: only the kind and a size bound are kept (witness membership is reported by the harness) -/
  | composite (kind : String) (sz : Float)

def fmag3 (v : V3 Float) : Float := v.x.abs + v.y.abs + v.z.abs
def WShape.fsize : WShape → Float
  | .ball r => r.abs
  | .cuboid h => fmag3 h
  | .halfspace _ => 0
  | .capsule a b r => fmag3 a + fmag3 b + r.abs
  | .triangle a b c => fmag3 a + fmag3 b + fmag3 c
  | .segment a b => fmag3 a + fmag3 b
  | .composite _ s => s

def pprim (k : String) : P WShape :=
  match k with
  | "ball" => do let r ← pf; pure (.ball r)
  | "cuboid" => do let h ← pv3; pure (.cuboid h)
  | "halfspace" => do let n ← pv3; pure (.halfspace n)
  | "capsule" => do let a ← pv3; let b ← pv3; let r ← pf; pure (.capsule a b r)
  | "triangle" => do let a ← pv3; let b ← pv3; let c ← pv3; pure (.triangle a b c)
  | "segment" => do let a ← pv3; let b ← pv3; pure (.segment a b)
  | _ => failure

def pshape : P WShape := do
  let k ← tok
  match k with
  | "compound" => do
      let n ← pnat
      let rec go : Nat → Float → P Float
        | 0, acc => pure acc
        | m+1, acc => do
            let pose ← piso3; let k' ← tok; let part ← pprim k'
            go m (max acc (fmag3 pose.t + part.fsize))
      let sz ← go n 0
      pure (.composite "compound" sz)
  | "trimesh" => do
      let _ ← pnat; let nv ← pnat
      let rec gv : Nat → Float → P Float
        | 0, acc => pure acc
        | m+1, acc => do let v ← pv3; gv m (max acc (fmag3 v))
      let sz ← gv nv 0
      let nt ← pnat
      let rec gt : Nat → P Unit
        | 0 => pure ()
        | m+1 => do let _ ← pnat; let _ ← pnat; let _ ← pnat; gt m
      gt nt
      pure (.composite "trimesh" sz)
  | _ => pprim k

def WShape.closed : WShape → Option (Shape3 Float)
  | .ball r => some (.ball r)
  | .cuboid h => some (.cuboid h)
  | .halfspace n => some (.halfspace n)
  | _ => none
def WShape.isBall : WShape → Bool
  | .ball _ => true
  | _ => false
def qshape : Shape3 Float → Shape3 Rat
  | .ball r => .ball (q r)
  | .cuboid h => .cuboid (q3 h)
  | .halfspace n => .halfspace (q3 n)

/-! ## printers / parsers of results -/
def fcontact : Option (Contact3 Float) → String
  | none => "none"
  | some c => s!"some {fv3 c.point1} {fv3 c.point2} {fv3 c.normal1} {fv3 c.normal2} {ff c.dist}"
def fcp : Option (ClosestPoints3 Float) → String
  | none => "panic"
  | some .intersecting => "intersecting"
  | some (.withinMargin a b) => s!"within {fv3 a} {fv3 b}"
  | some .disjoint => "disjoint"
def pov3 : P (V3 Float) := do let x ← pfo; let y ← pfo; let z ← pfo; pure ⟨x, y, z⟩
def pcontactBody : P (Contact3 Float) := do
  let a ← pov3; let b ← pov3; let c ← pov3; let d ← pov3; let e ← pfo; pure ⟨a, b, c, d, e⟩
/-- `none` | `some <13 floats>` -/
def pcontactOut : P (Option (Contact3 Float)) := do
  let t ← tok
  if t = "none" then pure none else if t = "some" then (do let c ← pcontactBody; pure (some c)) else failure
/-- `intersecting` | `within <6>` | `disjoint` | `panic` (→ `none`) -/
def pcpOut : P (Option (ClosestPoints3 Float)) := do
  let t ← tok
  match t with
  | "intersecting" => pure (some .intersecting)
  | "disjoint" => pure (some .disjoint)
  | "within" => do let a ← pov3; let b ← pov3; pure (some (.withinMargin a b))
  | "panic" => pure none
  | _ => failure
def qcontact (c : Contact3 Float) : Contact3 Rat := ⟨q3 c.point1, q3 c.point2, q3 c.normal1, q3 c.normal2, q c.dist⟩
def finiteContact (c : Contact3 Float) : Bool :=
  finite3 c.point1 && finite3 c.point2 && finite3 c.normal1 && finite3 c.normal2 && FloatIO.isFinite c.dist

/-! ## exact geometry -/
/-- for messages only -/
def _root_.Rat.toF (x : Rat) : Float := Float.ofInt (x * 1000000000000).floor / 1000000000000.0
def tol : Rat := 1 / 1000000000
def vmag (v : V3 Rat) : Rat := rabs v.x + rabs v.y + rabs v.z
def close (a b scale : Rat) : Bool := rabs (a - b) ≤ tol * (1 + scale)
def closeV (a b : V3 Rat) (scale : Rat) : Bool := close a.x b.x scale && close a.y b.y scale && close a.z b.z scale
/-- rational square root with absolute error below `2^-40` (floor) -/
def rsqrt (x : Rat) : Rat := Rat.sqrtApprox x
def unitQ (m : Iso3 Rat) : Bool := close (m.qi * m.qi + m.qj * m.qj + m.qk * m.qk + m.qw * m.qw) 1 0
def unitV (v : V3 Rat) : Bool := close v.normSq 1 0

def shapeSize : Shape3 Rat → Rat
  | .ball r => rabs r
  | .cuboid he => vmag he
  | .halfspace _ => 0

def cuboidCorners (he : V3 Rat) : List (V3 Rat) :=
  [he.x, -he.x].flatMap fun x => [he.y, -he.y].flatMap fun y => [he.z, -he.z].map fun z => ⟨x, y, z⟩

structure Pair where
  s1 : Shape3 Rat
  pos1 : Iso3 Rat
  s2 : Shape3 Rat
  pos2 : Iso3 Rat

def Pair.scale (P : Pair) : Rat := vmag P.pos1.t + vmag P.pos2.t + shapeSize P.s1 + shapeSize P.s2
def Pair.slack (P : Pair) : Rat := tol * (1 + P.scale)

/-- least value of `N·(x - base)` over the posed support-mapped shape -/
def minAlong (s : Shape3 Rat) (pos : Iso3 Rat) (N base : V3 Rat) : Option Rat :=
  match s with
  | .ball r => some (N.dot (pos.t.sub base) - r)
  | .cuboid he =>
    let vals := (cuboidCorners he).map fun c => N.dot ((pos.act c).sub base)
    match vals with
    | [] => none
    | v :: vs => some (vs.foldl min v)
  | .halfspace _ => none

def rclamp (x lo hi : Rat) : Rat := if x < lo then lo else if hi < x then hi else x

/-- ball (centre `c` in world, radius `r`) against a posed cuboid: signed separation and the unit vector from the
cuboid towards the ball (`none` on ties: centre on the boundary or equidistant from two faces). -/
def ballCuboidSep (he : V3 Rat) (pos : Iso3 Rat) (r : Rat) (c : V3 Rat) : Option (Rat × Option (V3 Rat)) :=
  let l := pos.invAct c
  let cl : V3 Rat := ⟨rclamp l.x (-he.x) he.x, rclamp l.y (-he.y) he.y, rclamp l.z (-he.z) he.z⟩
  let d := l.sub cl
  if d.normSq > 0 then
    let len := rsqrt d.normSq
    some (len - r, if len * 1000000 < 1 then none else some (pos.rot (d.sdiv len)))
  else
    -- centre inside: depth to the nearest face
    let dx := he.x - rabs l.x; let dy := he.y - rabs l.y; let dz := he.z - rabs l.z
    let m := min dx (min dy dz)
    let sgn (x : Rat) : Rat := if x < 0 then -1 else 1
    let t : Rat := 1 / 1000000
    let ties := (if dx ≤ m + t then 1 else 0) + (if dy ≤ m + t then 1 else 0) + (if dz ≤ m + t then 1 else (0 : Nat))
    let n : Option (V3 Rat) :=
      if ties ≠ 1 || m ≤ t then none
      else if dx ≤ m then (if rabs l.x ≤ t then none else some (pos.rot ⟨sgn l.x, 0, 0⟩))
      else if dy ≤ m then (if rabs l.y ≤ t then none else some (pos.rot ⟨0, sgn l.y, 0⟩))
      else (if rabs l.z ≤ t then none else some (pos.rot ⟨0, 0, sgn l.z⟩))
    some (-m - r, n)

/-- Signed separation of the pair in the world frame (negative = overlap depth along the plane normal / centre
line) and, when defined, the unit vector from shape 1 towards shape 2. `none` outside the closed-form pairs or
for non-unit input. -/
def Pair.sep (P : Pair) : Option (Rat × Option (V3 Rat)) :=
  if !(unitQ P.pos1 && unitQ P.pos2) then none else
  match P.s1, P.s2 with
  | .ball r1, .ball r2 =>
    let d := P.pos2.t.sub P.pos1.t
    let len := rsqrt d.normSq
    some (len - (r1 + r2), if len * 1000000 < 1 then none else some (d.sdiv len))
  | .halfspace n, s =>
    if !unitV n then none else
    let N := P.pos1.rot n
    (minAlong s P.pos2 N P.pos1.t).map fun v => (v, some N)
  | s, .halfspace n =>
    if !unitV n then none else
    let N := P.pos2.rot n
    (minAlong s P.pos1 N P.pos2.t).map fun v => (v, some N.neg)
  | .cuboid he, .ball r => ballCuboidSep he P.pos1 r P.pos2.t
  | .ball r, .cuboid he => (ballCuboidSep he P.pos2 r P.pos1.t).map fun (v, n) => (v, n.map V3.neg)
  | _, _ => none

/-- world point `p` belongs to the posed shape, up to `slack` -/
def memW (s : Shape3 Rat) (pos : Iso3 Rat) (p : V3 Rat) (slack : Rat) : Bool :=
  let l := pos.invAct p
  match s with
  | .ball r => l.normSq ≤ (r + slack) * (r + slack)
  | .cuboid he => rabs l.x ≤ he.x + slack && rabs l.y ≤ he.y + slack && rabs l.z ≤ he.z + slack
  | .halfspace n => n.dot l ≤ slack

/-- world point `p` lies on the boundary of the posed shape, up to `slack` (witnesses of a separated pair) -/
def onBoundaryW (s : Shape3 Rat) (pos : Iso3 Rat) (p : V3 Rat) (slack : Rat) : Bool :=
  let l := pos.invAct p
  match s with
  | .ball r => rabs (rsqrt l.normSq - r) ≤ slack + slack
  | .cuboid he =>
    memW s pos p slack &&
      (rabs (rabs l.x - he.x) ≤ slack || rabs (rabs l.y - he.y) ≤ slack || rabs (rabs l.z - he.z) ≤ slack)
  | .halfspace n => rabs (n.dot l) ≤ slack

/-- Judge a `Contact` expressed in the **world frame** against the geometry (C02 validity; independent of argument
order, hence also the C03 oracle of every closed-form route). -/
def judgeContact (P : Pair) (pred : Rat) (out : Option (Contact3 Rat)) : String :=
  match P.sep with
  | none => "skip no-exact-separation (pair kind or non-unit input)"
  | some (sep, nrm) =>
    let sl := P.slack
    match out with
    | none =>
      if sep < pred - sl then s!"fail none-but-within-prediction sep={sep.toF} pred={pred.toF}" else "pass"
    | some c =>
      if sep > pred + sl then s!"fail some-but-beyond-prediction sep={sep.toF} pred={pred.toF}"
      else if !close c.dist sep P.scale then s!"fail dist={c.dist.toF} expected-separation={sep.toF}"
      else if !close c.normal1.normSq 1 0 then "fail normal1-not-unit"
      else if !closeV c.normal2 c.normal1.neg 0 then "fail normal2-not-minus-normal1-in-world"
      else if !close ((c.point2.sub c.point1).dot c.normal1) c.dist P.scale then "fail dist-not-(p2-p1).n1"
      else if !memW P.s1 P.pos1 c.point1 sl then "fail point1-not-on-shape1"
      else if !memW P.s2 P.pos2 c.point2 sl then "fail point2-not-on-shape2"
      else match nrm with
        | some N => if closeV c.normal1 N 1000 then "pass" else "fail normal1-direction"
        | none => "pass"

def judgeDistance (P : Pair) (out : Rat) : String :=
  match P.sep with
  | none => "skip no-exact-separation (pair kind or non-unit input)"
  | some (sep, _) =>
    let ex := if sep < 0 then 0 else sep
    if close out ex P.scale then "pass" else s!"fail distance={out.toF} expected={ex.toF}"

def judgeIT (P : Pair) (out : Bool) : String :=
  match P.sep with
  | none => "skip no-exact-separation (pair kind or non-unit input)"
  | some (sep, _) =>
    if sep > P.slack && out then s!"fail intersecting-but-separated-by {sep.toF}"
    else if sep < -P.slack && !out then s!"fail disjoint-but-overlapping-by {sep.toF}"
    else "pass"

/-- `out = none` is the assert panic -/
def judgeCP (P : Pair) (margin : Rat) (out : Option (ClosestPoints3 Rat)) : String :=
  match P.sep with
  | none => "skip no-exact-separation (pair kind or non-unit input)"
  | some (sep, nrm) =>
    let sl := P.slack
    match out with
    | none => if margin < 0 then "pass" else "fail panic-with-nonnegative-margin"
    | some o =>
      if margin < 0 then "fail no-panic-with-negative-margin" else
      match o with
      | .intersecting => if sep > sl then s!"fail intersecting-but-separated-by {sep.toF}" else "pass"
      | .disjoint => if sep < margin - sl then s!"fail disjoint-but-within-margin sep={sep.toF}" else "pass"
      | .withinMargin p1 p2 =>
        if sep < -sl then "fail within-margin-but-overlapping"
        else if sep > margin + sl then "fail within-margin-but-beyond-margin"
        else if !onBoundaryW P.s1 P.pos1 p1 sl then "fail point1-not-on-shape1"
        else if !onBoundaryW P.s2 P.pos2 p2 sl then "fail point2-not-on-shape2"
        else match nrm with
          | some N => if closeV (p2.sub p1) (N.smul sep) P.scale then "pass" else "fail p2-p1-is-not-sep*normal"
          | none => if close (rsqrt (p2.sub p1).normSq) sep P.scale then "pass" else "fail |p2-p1|-is-not-sep"


/-! ## degenerate-but-valid corners: a ball against a segment / triangle / cuboid / capsule / ball, any poses

Exact referee for the `x_*` functions (free functions `query::{contact, closest_points, distance, intersection_test}`):
the signed separation of the pair is computed in the world frame from the definition of the shapes (closest point of a
segment / triangle by brute force over its features, nearest face of the box), in `Rat`; only `sqrt` is approximate
(`2^-40`).  When the ball centre lies ON a feature the contact normal is not unique: then no particular normal is
demanded, only finite unit normals, `normal2 = -normal1` in the world, witnesses on their shapes,
`dist = (p2 - p1)·n1 =` the signed separation. -/

/-- closest point of the segment `[a, b]` to `p` -/
def segClosest (a b p : V3 Rat) : V3 Rat :=
  let ab := b.sub a
  let n := ab.normSq
  if n == 0 then a else a.add (ab.smul (rclamp ((p.sub a).dot ab / n) 0 1))

/-- closest point of the triangle `abc` to `p`: the orthogonal projection on the plane when it falls inside, otherwise
the best of the three edges (brute force, no Voronoi-region case analysis) -/
def triClosest (a b c p : V3 Rat) : V3 Rat :=
  let n := (b.sub a).cross (c.sub a)
  let nn := n.normSq
  let edges := [segClosest a b p, segClosest b c p, segClosest c a p]
  let cands :=
    if nn == 0 then edges else
    let pr := p.sub (n.smul ((p.sub a).dot n / nn))
    let s1 := ((b.sub a).cross (pr.sub a)).dot n
    let s2 := ((c.sub b).cross (pr.sub b)).dot n
    let s3 := ((a.sub c).cross (pr.sub c)).dot n
    if s1 ≥ 0 && s2 ≥ 0 && s3 ≥ 0 then pr :: edges else edges
  cands.foldl (fun best x => if (p.sub x).normSq < (p.sub best).normSq then x else best) (segClosest a b p)

def WShape.rsize : WShape → Rat
  | .ball r => rabs (q r)
  | .cuboid h => vmag (q3 h)
  | .halfspace _ => 0
  | .capsule a b r => vmag (q3 a) + vmag (q3 b) + rabs (q r)
  | .triangle a b c => vmag (q3 a) + vmag (q3 b) + vmag (q3 c)
  | .segment a b => vmag (q3 a) + vmag (q3 b)
  | .composite _ s => rabs (q s)

/-- squared distance from the world point `p` to the "skeleton" of the posed shape (segment, triangle, capsule axis,
ball centre); `none` for the other kinds -/
def skeletonDistSq (s : WShape) (pos : Iso3 Rat) (p : V3 Rat) : Option (Rat × V3 Rat) :=
  let wpt (x : V3 Float) : V3 Rat := pos.act (q3 x)
  let res (cl : V3 Rat) : Option (Rat × V3 Rat) := some ((p.sub cl).normSq, cl)
  match s with
  | .ball _ => res pos.t
  | .segment a b => res (segClosest (wpt a) (wpt b) p)
  | .capsule a b _ => res (segClosest (wpt a) (wpt b) p)
  | .triangle a b c => res (triClosest (wpt a) (wpt b) (wpt c) p)
  | _ => none

/-- ball (world centre `c`, radius `r`) against the posed shape `s`: signed separation and, when it is unique, the unit
vector from the shape towards the ball (`none`: centre on the skeleton / on the boundary of the box / on a tie) -/
def ballShapeSep (s : WShape) (pos : Iso3 Rat) (r : Rat) (c : V3 Rat) (scale : Rat) : Option (Rat × Option (V3 Rat)) :=
  match s with
  | .cuboid he => ballCuboidSep (q3 he) pos r c
  | .halfspace _ | .composite .. => none
  | _ =>
    let thick : Rat := match s with
      | .ball r2 => q r2
      | .capsule _ _ r2 => q r2
      | _ => 0
    (skeletonDistSq s pos c).map fun (d2, cl) =>
      let d := rsqrt d2
      (d - thick - r, if d ≤ (1 / 1000000) * (1 + scale) then none else some ((c.sub cl).sdiv d))

structure XPair where
  s1 : WShape
  pos1 : Iso3 Rat
  s2 : WShape
  pos2 : Iso3 Rat

def XPair.scale (P : XPair) : Rat := vmag P.pos1.t + vmag P.pos2.t + P.s1.rsize + P.s2.rsize
def XPair.slack (P : XPair) : Rat := tol * (1 + P.scale)
/-- signed separation and the unit vector from shape 1 towards shape 2 (when unique); `none`: no ball in the pair, a
kind without an exact referee, or a non-unit rotation -/
def XPair.sep (P : XPair) : Option (Rat × Option (V3 Rat)) :=
  if !(unitQ P.pos1 && unitQ P.pos2) then none else
  match P.s1, P.s2 with
  | s, .ball r => ballShapeSep s P.pos1 (q r) P.pos2.t P.scale
  | .ball r, s => (ballShapeSep s P.pos2 (q r) P.pos1.t P.scale).map fun (v, n) => (v, n.map V3.neg)
  | _, _ => none

/-- world point `p` belongs to the posed shape (`boundary`: lies on its boundary), up to `slack` -/
def wmem (s : WShape) (pos : Iso3 Rat) (p : V3 Rat) (slack : Rat) (boundary : Bool) : Bool :=
  match s with
  | .cuboid he => if boundary then onBoundaryW (.cuboid (q3 he)) pos p slack else memW (.cuboid (q3 he)) pos p slack
  | .halfspace _ | .composite .. => false
  | _ =>
    let thick : Rat := match s with
      | .ball r2 => q r2
      | .capsule _ _ r2 => q r2
      | _ => 0
    match skeletonDistSq s pos p with
    | none => false
    | some (d2, _) =>
      let hi := thick + slack + slack
      let lo := thick - slack - slack
      d2 ≤ hi * hi && (!boundary || lo ≤ 0 || d2 ≥ lo * lo)

def judgeXContact (P : XPair) (pred : Rat) (out : Option (Contact3 Rat)) : String :=
  match P.sep with
  | none => "skip no-exact-referee (pair kind or non-unit rotation)"
  | some (sep, nrm) =>
    let sl := P.slack
    let tag := if nrm.isNone then " (centre on a feature: normal not unique)" else ""
    match out with
    | none =>
      if sep < pred - sl then s!"fail none-but-within-prediction sep={sep.toF} pred={pred.toF}" else "pass"
    | some c =>
      if sep > pred + sl then s!"fail some-but-beyond-prediction sep={sep.toF} pred={pred.toF}"
      else if !close c.dist sep P.scale then s!"fail dist={c.dist.toF} expected-signed-distance={sep.toF}{tag}"
      else if !close c.normal1.normSq 1 0 then s!"fail normal1-not-unit{tag}"
      else if !close c.normal2.normSq 1 0 then s!"fail normal2-not-unit{tag}"
      else if !closeV c.normal2 c.normal1.neg 0 then s!"fail normal2-not-minus-normal1-in-world{tag}"
      else if !close ((c.point2.sub c.point1).dot c.normal1) c.dist P.scale then s!"fail dist-not-(p2-p1).n1{tag}"
      else if !wmem P.s1 P.pos1 c.point1 sl false then s!"fail point1-not-on-shape1{tag}"
      else if !wmem P.s2 P.pos2 c.point2 sl false then s!"fail point2-not-on-shape2{tag}"
      else match nrm with
        | some N => if closeV c.normal1 N 1000 then "pass" else "fail normal1-direction"
        | none => "pass"

def judgeXDistance (P : XPair) (out : Rat) : String :=
  match P.sep with
  | none => "skip no-exact-referee (pair kind or non-unit rotation)"
  | some (sep, _) =>
    let ex := if sep < 0 then 0 else sep
    if close out ex P.scale then "pass" else s!"fail distance={out.toF} expected={ex.toF}"

def judgeXIT (P : XPair) (out : Bool) : String :=
  match P.sep with
  | none => "skip no-exact-referee (pair kind or non-unit rotation)"
  | some (sep, _) =>
    if sep > P.slack && out then s!"fail intersecting-but-separated-by {sep.toF}"
    else if sep < -P.slack && !out then s!"fail disjoint-but-overlapping-by {sep.toF}"
    else if rabs sep ≤ P.slack then "skip exactly-touching"
    else "pass"

def judgeXCP (P : XPair) (margin : Rat) (out : ClosestPoints3 Rat) : String :=
  match P.sep with
  | none => "skip no-exact-referee (pair kind or non-unit rotation)"
  | some (sep, nrm) =>
    let sl := P.slack
    match out with
    | .intersecting => if sep > sl then s!"fail intersecting-but-separated-by {sep.toF}" else "pass"
    | .disjoint => if sep < margin - sl then s!"fail disjoint-but-within-margin sep={sep.toF} margin={margin.toF}" else "pass"
    | .withinMargin p1 p2 =>
      if sep < -sl then s!"fail within-margin-but-overlapping-by {sep.toF}"
      else if sep > margin + sl then "fail within-margin-but-beyond-margin"
      else if !wmem P.s1 P.pos1 p1 sl true then "fail point1-not-on-the-boundary-of-shape1"
      else if !wmem P.s2 P.pos2 p2 sl true then "fail point2-not-on-the-boundary-of-shape2"
      else match nrm with
        | some N => if closeV (p2.sub p1) (N.smul sep) P.scale then "pass" else "fail p2-p1-is-not-sep*normal"
        | none => if close (rsqrt (p2.sub p1).normSq) sep P.scale then "pass" else "fail |p2-p1|-is-not-sep"

/-! ## totality clause shared by every function of C02 / C03 (first clause of their oracles)

A NaN or an infinity anywhere in the implementation's result fails the case, whatever the function: the verdict
`fail non-finite-output …` is what C20 counts.  Placeholders that the harness prints on purpose are not results:
the auxiliary scalars after the last `;` of the `o_*` lines (distance / depth of an unsupported pair or of a missing
contact print as `nan`) and the last token of `v_dispatch` (`nan` when there is no contact).  Cases that the function's
own oracle puts outside the valid domain (bad arguments, non-unit rotation / direction, negative parameter,
unsupported pair) stay `skip`. -/
def isNonFiniteTok (t : String) : Bool :=
  t = "nan" || (match FloatIO.ofHex? t with
    | some x => !FloatIO.isFinite x
    | none => false)

def resultToks (fn : String) (out : List String) : List String :=
  if fn.startsWith "o_" || fn.startsWith "o2_" then (out.reverse.dropWhile (· ≠ ";")).reverse
  else if fn = "v_dispatch" then out.dropLast
  else out

def outsideDomain (verdict : String) : Bool :=
  ["skip bad-args", "skip non-unit-rotation", "skip non-unit-direction", "skip negative-parameter", "skip negative-margin",
   "skip negative-target", "skip unsupported-pair", "skip bad-shape"].any fun p => verdict.startsWith p

def guardFinite (fn : String) (h : Handler) : Handler :=
  { model := h.model
    oracle := fun a o =>
      let core := h.oracle a o
      match o with
      | "panic" :: _ => core
      | _ =>
        let toks := resultToks fn o
        match toks.findIdx? isNonFiniteTok with
        | none => core
        | some i =>
          if core.startsWith "fail non-finite-output" then core
          else if outsideDomain core then core
          else s!"fail non-finite-output fn={fn} result-token#{i}={toks.getD i ""} (NaN or infinity in the result; rest of the oracle: {(core.splitOn " ").take 2})" }

/-! ## 2-D -/
inductive WShape2 where
  | ball (r : Float)
  | cuboid (he : V2 Float)
  | halfspace (n : V2 Float)
  | capsule (a b : V2 Float) (r : Float)
  | triangle (a b c : V2 Float)
  | segment (a b : V2 Float)
  | composite (kind : String) (sz : Float)

def fmag2 (v : V2 Float) : Float := v.x.abs + v.y.abs
def WShape2.fsize : WShape2 → Float
  | .ball r => r.abs
  | .cuboid h => fmag2 h
  | .halfspace _ => 0
  | .capsule a b r => fmag2 a + fmag2 b + r.abs
  | .triangle a b c => fmag2 a + fmag2 b + fmag2 c
  | .segment a b => fmag2 a + fmag2 b
  | .composite _ s => s

def pprim2 (k : String) : P WShape2 :=
  match k with
  | "ball" => do let r ← pf; pure (.ball r)
  | "cuboid" => do let h ← pv2; pure (.cuboid h)
  | "halfspace" => do let n ← pv2; pure (.halfspace n)
  | "capsule" => do let a ← pv2; let b ← pv2; let r ← pf; pure (.capsule a b r)
  | "triangle" => do let a ← pv2; let b ← pv2; let c ← pv2; pure (.triangle a b c)
  | "segment" => do let a ← pv2; let b ← pv2; pure (.segment a b)
  | _ => failure

def pshape2 : P WShape2 := do
  let k ← tok
  match k with
  | "compound" => do
      let n ← pnat
      let rec go : Nat → Float → P Float
        | 0, acc => pure acc
        | m+1, acc => do
            let pose ← piso2; let k' ← tok; let part ← pprim2 k'
            go m (max acc (fmag2 pose.t + part.fsize))
      let sz ← go n 0
      pure (.composite "compound" sz)
  | "polyline" => do
      let nv ← pnat
      let rec gv : Nat → Float → P Float
        | 0, acc => pure acc
        | m+1, acc => do let v ← pv2; gv m (max acc (fmag2 v))
      let sz ← gv nv 0
      pure (.composite "polyline" sz)
  | _ => pprim2 k
def WShape2.closed : WShape2 → Option (Shape2 Float)
  | .ball r => some (.ball r)
  | .cuboid h => some (.cuboid h)
  | .halfspace n => some (.halfspace n)
  | _ => none
def WShape2.isBall : WShape2 → Bool
  | .ball _ => true
  | _ => false
def vmag2 (v : V2 Rat) : Rat := rabs v.x + rabs v.y
def WShape2.size : WShape2 → Rat
  | .ball r => rabs (q r)
  | .cuboid h => vmag2 (q2 h)
  | .halfspace _ => 0
  | .capsule a b r => vmag2 (q2 a) + vmag2 (q2 b) + rabs (q r)
  | .triangle a b c => vmag2 (q2 a) + vmag2 (q2 b) + vmag2 (q2 c)
  | .segment a b => vmag2 (q2 a) + vmag2 (q2 b)
  | .composite _ s => rabs (q s)
def WShape2.kind : WShape2 → String
  | .ball _ => "ball" | .cuboid _ => "cuboid" | .halfspace _ => "halfspace"
  | .capsule .. => "capsule" | .triangle .. => "triangle" | .segment .. => "segment"
  | .composite k _ => k
def WShape2.isComposite : WShape2 → Bool
  | .composite .. => true
  | _ => false
def WShape2.isHalfSpace : WShape2 → Bool
  | .halfspace _ => true
  | _ => false
def qshape2 : Shape2 Float → Shape2 Rat
  | .ball r => .ball (q r)
  | .cuboid h => .cuboid (q2 h)
  | .halfspace n => .halfspace (q2 n)

def fcontact2 : Option (Contact2 Float) → String
  | none => "none"
  | some c => s!"some {fv2 c.point1} {fv2 c.point2} {fv2 c.normal1} {fv2 c.normal2} {ff c.dist}"
def pov2 : P (V2 Float) := do let x ← pfo; let y ← pfo; pure ⟨x, y⟩
def pcontactOut2 : P (Option (Contact2 Float)) := do
  let t ← tok
  if t = "none" then pure none
  else if t = "some" then (do let a ← pov2; let b ← pov2; let c ← pov2; let d ← pov2; let e ← pfo; pure (some ⟨a, b, c, d, e⟩))
  else failure
def qcontact2 (c : Contact2 Float) : Contact2 Rat := ⟨q2 c.point1, q2 c.point2, q2 c.normal1, q2 c.normal2, q c.dist⟩
def finite2 (v : V2 Float) : Bool := FloatIO.isFinite v.x && FloatIO.isFinite v.y
def finiteContact2 (c : Contact2 Float) : Bool :=
  finite2 c.point1 && finite2 c.point2 && finite2 c.normal1 && finite2 c.normal2 && FloatIO.isFinite c.dist
/-- embed a 2-D contact in the plane `z = 0` (so that the comparison code is shared with 3-D) -/
def embed (v : V2 Rat) : V3 Rat := ⟨v.x, v.y, 0⟩
def embedC (c : Contact2 Rat) : Contact3 Rat :=
  ⟨C03.embed c.point1, C03.embed c.point2, C03.embed c.normal1, C03.embed c.normal2, c.dist⟩

def closeV2 (a b : V2 Rat) (scale : Rat) : Bool := close a.x b.x scale && close a.y b.y scale
def unitC (m : Iso2 Rat) : Bool := close (m.re * m.re + m.im * m.im) 1 0

structure Pair2 where
  s1 : Shape2 Rat
  pos1 : Iso2 Rat
  s2 : Shape2 Rat
  pos2 : Iso2 Rat
def shapeSize2 : Shape2 Rat → Rat
  | .ball r => rabs r
  | .cuboid he => vmag2 he
  | .halfspace _ => 0
def Pair2.scale (P : Pair2) : Rat := vmag2 P.pos1.t + vmag2 P.pos2.t + shapeSize2 P.s1 + shapeSize2 P.s2
def Pair2.slack (P : Pair2) : Rat := tol * (1 + P.scale)
def minAlong2 (s : Shape2 Rat) (pos : Iso2 Rat) (N base : V2 Rat) : Option Rat :=
  match s with
  | .ball r => some (N.dot (pos.t.sub base) - r)
  | .cuboid he =>
    let cs : List (V2 Rat) := [⟨he.x, he.y⟩, ⟨-he.x, he.y⟩, ⟨he.x, -he.y⟩, ⟨-he.x, -he.y⟩]
    let vals := cs.map fun c => N.dot ((pos.act c).sub base)
    match vals with
    | [] => none
    | v :: vs => some (vs.foldl min v)
  | .halfspace _ => none
def Pair2.sep (P : Pair2) : Option (Rat × Option (V2 Rat)) :=
  if !(unitC P.pos1 && unitC P.pos2) then none else
  match P.s1, P.s2 with
  | .ball r1, .ball r2 =>
    let d := P.pos2.t.sub P.pos1.t
    let len := rsqrt d.normSq
    some (len - (r1 + r2), if len * 1000000 < 1 then none else some (d.sdiv len))
  | .halfspace n, s =>
    if !close n.normSq 1 0 then none else
    let N := P.pos1.rot n
    (minAlong2 s P.pos2 N P.pos1.t).map fun v => (v, some N)
  | s, .halfspace n =>
    if !close n.normSq 1 0 then none else
    let N := P.pos2.rot n
    (minAlong2 s P.pos1 N P.pos2.t).map fun v => (v, some N.neg)
  | _, _ => none
def memW2 (s : Shape2 Rat) (pos : Iso2 Rat) (p : V2 Rat) (slack : Rat) : Bool :=
  let l := pos.invAct p
  match s with
  | .ball r => l.normSq ≤ (r + slack) * (r + slack)
  | .cuboid he => rabs l.x ≤ he.x + slack && rabs l.y ≤ he.y + slack
  | .halfspace n => n.dot l ≤ slack

/-- 2-D version of `judgeContact` (world frame) -/
def judgeContact2 (P : Pair2) (pred : Rat) (out : Option (Contact2 Rat)) : String :=
  match P.sep with
  | none => "skip no-exact-separation (pair kind or non-unit input)"
  | some (sep, nrm) =>
    let sl := P.slack
    match out with
    | none =>
      if sep < pred - sl then s!"fail none-but-within-prediction sep={sep.toF} pred={pred.toF}" else "pass"
    | some c =>
      if sep > pred + sl then s!"fail some-but-beyond-prediction sep={sep.toF} pred={pred.toF}"
      else if !close c.dist sep P.scale then s!"fail dist={c.dist.toF} expected-separation={sep.toF}"
      else if !close c.normal1.normSq 1 0 then "fail normal1-not-unit"
      else if !closeV2 c.normal2 c.normal1.neg 0 then "fail normal2-not-minus-normal1-in-world"
      else if !close ((c.point2.sub c.point1).dot c.normal1) c.dist P.scale then "fail dist-not-(p2-p1).n1"
      else if !memW2 P.s1 P.pos1 c.point1 sl then "fail point1-not-on-shape1"
      else if !memW2 P.s2 P.pos2 c.point2 sl then "fail point2-not-on-shape2"
      else match nrm with
        | some N => if closeV2 c.normal1 N 1000 then "pass" else "fail normal1-direction"
        | none => "pass"

end C03
