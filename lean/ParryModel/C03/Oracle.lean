import ParryModel.Proto
import ParryModel.C03.Model
/-!
# Exact-`Rat` judges shared by the C03 and C02 drivers.

They re-judge the *implementation's* output for the closed-form pairs (ball/ball, half-space/ball,
half-space/cuboid, either order) from the geometry alone: the signed separation is computed from the eight
transformed vertices / the centre distance in exact rational arithmetic, in the **world frame**, with no reference
to which argument came first and without calling any model query function.
-/
namespace C03
open Model Proto

/-! ## wire shapes -/
inductive WShape where
  | ball (r : Float)
  | cuboid (he : V3 Float)
  | halfspace (n : V3 Float)
  | capsule (a b : V3 Float) (r : Float)
  | triangle (a b c : V3 Float)
  | segment (a b : V3 Float)
  /-- `Compound` / `TriMesh`: only the kind and a size bound are kept (witness membership is reported by the harness) -/
  | composite (kind : String) (sz : Float)

def fmag3 (v : V3 Float) : Float := v.x.abs + v.y.abs + v.z.abs
def WShape.fsize : WShape → Float
  | .ball r => r.abs
  | .cuboid h => fmag3 h
  | .halfspace _ => 0
  | .capsule a b r => fmag3 a + fmag3 b + r.abs
  | .triangle a b c => fmag3 a + fmag3 b + fmag3 c
  | .segment a b => fmag3 a + fmag3 b
  | .composite _ s => s

def pprim (k : String) : P WShape :=
  match k with
  | "ball" => do let r ← pf; pure (.ball r)
  | "cuboid" => do let h ← pv3; pure (.cuboid h)
  | "halfspace" => do let n ← pv3; pure (.halfspace n)
  | "capsule" => do let a ← pv3; let b ← pv3; let r ← pf; pure (.capsule a b r)
  | "triangle" => do let a ← pv3; let b ← pv3; let c ← pv3; pure (.triangle a b c)
  | "segment" => do let a ← pv3; let b ← pv3; pure (.segment a b)
  | _ => failure

def pshape : P WShape := do
  let k ← tok
  match k with
  | "compound" => do
      let n ← pnat
      let rec go : Nat → Float → P Float
        | 0, acc => pure acc
        | m+1, acc => do
            let pose ← piso3; let k' ← tok; let part ← pprim k'
            go m (max acc (fmag3 pose.t + part.fsize))
      let sz ← go n 0
      pure (.composite "compound" sz)
  | "trimesh" => do
      let _ ← pnat; let nv ← pnat
      let rec gv : Nat → Float → P Float
        | 0, acc => pure acc
        | m+1, acc => do let v ← pv3; gv m (max acc (fmag3 v))
      let sz ← gv nv 0
      let nt ← pnat
      let rec gt : Nat → P Unit
        | 0 => pure ()
        | m+1 => do let _ ← pnat; let _ ← pnat; let _ ← pnat; gt m
      gt nt
      pure (.composite "trimesh" sz)
  | _ => pprim k

def WShape.closed : WShape → Option (Shape3 Float)
  | .ball r => some (.ball r)
  | .cuboid h => some (.cuboid h)
  | .halfspace n => some (.halfspace n)
  | _ => none
def WShape.isBall : WShape → Bool
  | .ball _ => true
  | _ => false
def qshape : Shape3 Float → Shape3 Rat
  | .ball r => .ball (q r)
  | .cuboid h => .cuboid (q3 h)
  | .halfspace n => .halfspace (q3 n)

/-! ## printers / parsers of results -/
def fcontact : Option (Contact3 Float) → String
  | none => "none"
  | some c => s!"some {fv3 c.point1} {fv3 c.point2} {fv3 c.normal1} {fv3 c.normal2} {ff c.dist}"
def fcp : Option (ClosestPoints3 Float) → String
  | none => "panic"
  | some .intersecting => "intersecting"
  | some (.withinMargin a b) => s!"within {fv3 a} {fv3 b}"
  | some .disjoint => "disjoint"
def pov3 : P (V3 Float) := do let x ← pfo; let y ← pfo; let z ← pfo; pure ⟨x, y, z⟩
def pcontactBody : P (Contact3 Float) := do
  let a ← pov3; let b ← pov3; let c ← pov3; let d ← pov3; let e ← pfo; pure ⟨a, b, c, d, e⟩
/-- `none` | `some <13 floats>` -/
def pcontactOut : P (Option (Contact3 Float)) := do
  let t ← tok
  if t = "none" then pure none else if t = "some" then (do let c ← pcontactBody; pure (some c)) else failure
/-- `intersecting` | `within <6>` | `disjoint` | `panic` (→ `none`) -/
def pcpOut : P (Option (ClosestPoints3 Float)) := do
  let t ← tok
  match t with
  | "intersecting" => pure (some .intersecting)
  | "disjoint" => pure (some .disjoint)
  | "within" => do let a ← pov3; let b ← pov3; pure (some (.withinMargin a b))
  | "panic" => pure none
  | _ => failure
def qcontact (c : Contact3 Float) : Contact3 Rat := ⟨q3 c.point1, q3 c.point2, q3 c.normal1, q3 c.normal2, q c.dist⟩
def finiteContact (c : Contact3 Float) : Bool :=
  finite3 c.point1 && finite3 c.point2 && finite3 c.normal1 && finite3 c.normal2 && FloatIO.isFinite c.dist

/-! ## exact geometry -/
/-- for messages only -/
def _root_.Rat.toF (x : Rat) : Float := Float.ofInt (x * 1000000000000).floor / 1000000000000.0
def tol : Rat := 1 / 1000000000
def vmag (v : V3 Rat) : Rat := rabs v.x + rabs v.y + rabs v.z
def close (a b scale : Rat) : Bool := rabs (a - b) ≤ tol * (1 + scale)
def closeV (a b : V3 Rat) (scale : Rat) : Bool := close a.x b.x scale && close a.y b.y scale && close a.z b.z scale
/-- rational square root with absolute error below `2^-40` (floor) -/
def rsqrt (x : Rat) : Rat := Rat.sqrtApprox x
def unitQ (m : Iso3 Rat) : Bool := close (m.qi * m.qi + m.qj * m.qj + m.qk * m.qk + m.qw * m.qw) 1 0
def unitV (v : V3 Rat) : Bool := close v.normSq 1 0

def shapeSize : Shape3 Rat → Rat
  | .ball r => rabs r
  | .cuboid he => vmag he
  | .halfspace _ => 0

def cuboidCorners (he : V3 Rat) : List (V3 Rat) :=
  [he.x, -he.x].flatMap fun x => [he.y, -he.y].flatMap fun y => [he.z, -he.z].map fun z => ⟨x, y, z⟩

structure Pair where
  s1 : Shape3 Rat
  pos1 : Iso3 Rat
  s2 : Shape3 Rat
  pos2 : Iso3 Rat

def Pair.scale (P : Pair) : Rat := vmag P.pos1.t + vmag P.pos2.t + shapeSize P.s1 + shapeSize P.s2
def Pair.slack (P : Pair) : Rat := tol * (1 + P.scale)

/-- least value of `N·(x - base)` over the posed support-mapped shape -/
def minAlong (s : Shape3 Rat) (pos : Iso3 Rat) (N base : V3 Rat) : Option Rat :=
  match s with
  | .ball r => some (N.dot (pos.t.sub base) - r)
  | .cuboid he =>
    let vals := (cuboidCorners he).map fun c => N.dot ((pos.act c).sub base)
    match vals with
    | [] => none
    | v :: vs => some (vs.foldl min v)
  | .halfspace _ => none

def rclamp (x lo hi : Rat) : Rat := if x < lo then lo else if hi < x then hi else x

/-- ball (centre `c` in world, radius `r`) against a posed cuboid: signed separation and the unit vector from the
cuboid towards the ball (`none` on ties: centre on the boundary or equidistant from two faces). -/
def ballCuboidSep (he : V3 Rat) (pos : Iso3 Rat) (r : Rat) (c : V3 Rat) : Option (Rat × Option (V3 Rat)) :=
  let l := pos.invAct c
  let cl : V3 Rat := ⟨rclamp l.x (-he.x) he.x, rclamp l.y (-he.y) he.y, rclamp l.z (-he.z) he.z⟩
  let d := l.sub cl
  if d.normSq > 0 then
    let len := rsqrt d.normSq
    some (len - r, if len * 1000000 < 1 then none else some (pos.rot (d.sdiv len)))
  else
    -- centre inside: depth to the nearest face
    let dx := he.x - rabs l.x; let dy := he.y - rabs l.y; let dz := he.z - rabs l.z
    let m := min dx (min dy dz)
    let sgn (x : Rat) : Rat := if x < 0 then -1 else 1
    let t : Rat := 1 / 1000000
    let ties := (if dx ≤ m + t then 1 else 0) + (if dy ≤ m + t then 1 else 0) + (if dz ≤ m + t then 1 else (0 : Nat))
    let n : Option (V3 Rat) :=
      if ties ≠ 1 || m ≤ t then none
      else if dx ≤ m then (if rabs l.x ≤ t then none else some (pos.rot ⟨sgn l.x, 0, 0⟩))
      else if dy ≤ m then (if rabs l.y ≤ t then none else some (pos.rot ⟨0, sgn l.y, 0⟩))
      else (if rabs l.z ≤ t then none else some (pos.rot ⟨0, 0, sgn l.z⟩))
    some (-m - r, n)

/-- Signed separation of the pair in the world frame (negative = overlap depth along the plane normal / centre
line) and, when defined, the unit vector from shape 1 towards shape 2. `none` outside the closed-form pairs or
for non-unit input. -/
def Pair.sep (P : Pair) : Option (Rat × Option (V3 Rat)) :=
  if !(unitQ P.pos1 && unitQ P.pos2) then none else
  match P.s1, P.s2 with
  | .ball r1, .ball r2 =>
    let d := P.pos2.t.sub P.pos1.t
    let len := rsqrt d.normSq
    some (len - (r1 + r2), if len * 1000000 < 1 then none else some (d.sdiv len))
  | .halfspace n, s =>
    if !unitV n then none else
    let N := P.pos1.rot n
    (minAlong s P.pos2 N P.pos1.t).map fun v => (v, some N)
  | s, .halfspace n =>
    if !unitV n then none else
    let N := P.pos2.rot n
    (minAlong s P.pos1 N P.pos2.t).map fun v => (v, some N.neg)
  | .cuboid he, .ball r => ballCuboidSep he P.pos1 r P.pos2.t
  | .ball r, .cuboid he => (ballCuboidSep he P.pos2 r P.pos1.t).map fun (v, n) => (v, n.map V3.neg)
  | _, _ => none

/-- world point `p` belongs to the posed shape, up to `slack` -/
def memW (s : Shape3 Rat) (pos : Iso3 Rat) (p : V3 Rat) (slack : Rat) : Bool :=
  let l := pos.invAct p
  match s with
  | .ball r => l.normSq ≤ (r + slack) * (r + slack)
  | .cuboid he => rabs l.x ≤ he.x + slack && rabs l.y ≤ he.y + slack && rabs l.z ≤ he.z + slack
  | .halfspace n => n.dot l ≤ slack

/-- world point `p` lies on the boundary of the posed shape, up to `slack` (witnesses of a separated pair) -/
def onBoundaryW (s : Shape3 Rat) (pos : Iso3 Rat) (p : V3 Rat) (slack : Rat) : Bool :=
  let l := pos.invAct p
  match s with
  | .ball r => rabs (rsqrt l.normSq - r) ≤ slack + slack
  | .cuboid he =>
    memW s pos p slack &&
      (rabs (rabs l.x - he.x) ≤ slack || rabs (rabs l.y - he.y) ≤ slack || rabs (rabs l.z - he.z) ≤ slack)
  | .halfspace n => rabs (n.dot l) ≤ slack

/-- Judge a `Contact` expressed in the **world frame** against the geometry (C02 validity; independent of argument
order, hence also the C03 oracle of every closed-form route). -/
def judgeContact (P : Pair) (pred : Rat) (out : Option (Contact3 Rat)) : String :=
  match P.sep with
  | none => "skip no-exact-separation (pair kind or non-unit input)"
  | some (sep, nrm) =>
    let sl := P.slack
    match out with
    | none =>
      if sep < pred - sl then s!"fail none-but-within-prediction sep={sep.toF} pred={pred.toF}" else "pass"
    | some c =>
      if sep > pred + sl then s!"fail some-but-beyond-prediction sep={sep.toF} pred={pred.toF}"
      else if !close c.dist sep P.scale then s!"fail dist={c.dist.toF} expected-separation={sep.toF}"
      else if !close c.normal1.normSq 1 0 then "fail normal1-not-unit"
      else if !closeV c.normal2 c.normal1.neg 0 then "fail normal2-not-minus-normal1-in-world"
      else if !close ((c.point2.sub c.point1).dot c.normal1) c.dist P.scale then "fail dist-not-(p2-p1).n1"
      else if !memW P.s1 P.pos1 c.point1 sl then "fail point1-not-on-shape1"
      else if !memW P.s2 P.pos2 c.point2 sl then "fail point2-not-on-shape2"
      else match nrm with
        | some N => if closeV c.normal1 N 1000 then "pass" else "fail normal1-direction"
        | none => "pass"

def judgeDistance (P : Pair) (out : Rat) : String :=
  match P.sep with
  | none => "skip no-exact-separation (pair kind or non-unit input)"
  | some (sep, _) =>
    let ex := if sep < 0 then 0 else sep
    if close out ex P.scale then "pass" else s!"fail distance={out.toF} expected={ex.toF}"

def judgeIT (P : Pair) (out : Bool) : String :=
  match P.sep with
  | none => "skip no-exact-separation (pair kind or non-unit input)"
  | some (sep, _) =>
    if sep > P.slack && out then s!"fail intersecting-but-separated-by {sep.toF}"
    else if sep < -P.slack && !out then s!"fail disjoint-but-overlapping-by {sep.toF}"
    else "pass"

/-- `out = none` is the assert panic -/
def judgeCP (P : Pair) (margin : Rat) (out : Option (ClosestPoints3 Rat)) : String :=
  match P.sep with
  | none => "skip no-exact-separation (pair kind or non-unit input)"
  | some (sep, nrm) =>
    let sl := P.slack
    match out with
    | none => if margin < 0 then "pass" else "fail panic-with-nonnegative-margin"
    | some o =>
      if margin < 0 then "fail no-panic-with-negative-margin" else
      match o with
      | .intersecting => if sep > sl then s!"fail intersecting-but-separated-by {sep.toF}" else "pass"
      | .disjoint => if sep < margin - sl then s!"fail disjoint-but-within-margin sep={sep.toF}" else "pass"
      | .withinMargin p1 p2 =>
        if sep < -sl then "fail within-margin-but-overlapping"
        else if sep > margin + sl then "fail within-margin-but-beyond-margin"
        else if !onBoundaryW P.s1 P.pos1 p1 sl then "fail point1-not-on-shape1"
        else if !onBoundaryW P.s2 P.pos2 p2 sl then "fail point2-not-on-shape2"
        else match nrm with
          | some N => if closeV (p2.sub p1) (N.smul sep) P.scale then "pass" else "fail p2-p1-is-not-sep*normal"
          | none => if close (rsqrt (p2.sub p1).normSq) sep P.scale then "pass" else "fail |p2-p1|-is-not-sep"


/-! ## 2-D -/
inductive WShape2 where
  | ball (r : Float)
  | cuboid (he : V2 Float)
  | halfspace (n : V2 Float)
  | capsule (a b : V2 Float) (r : Float)
  | triangle (a b c : V2 Float)
  | segment (a b : V2 Float)
  | composite (kind : String) (sz : Float)

def fmag2 (v : V2 Float) : Float := v.x.abs + v.y.abs
def WShape2.fsize : WShape2 → Float
  | .ball r => r.abs
  | .cuboid h => fmag2 h
  | .halfspace _ => 0
  | .capsule a b r => fmag2 a + fmag2 b + r.abs
  | .triangle a b c => fmag2 a + fmag2 b + fmag2 c
  | .segment a b => fmag2 a + fmag2 b
  | .composite _ s => s

def pprim2 (k : String) : P WShape2 :=
  match k with
  | "ball" => do let r ← pf; pure (.ball r)
  | "cuboid" => do let h ← pv2; pure (.cuboid h)
  | "halfspace" => do let n ← pv2; pure (.halfspace n)
  | "capsule" => do let a ← pv2; let b ← pv2; let r ← pf; pure (.capsule a b r)
  | "triangle" => do let a ← pv2; let b ← pv2; let c ← pv2; pure (.triangle a b c)
  | "segment" => do let a ← pv2; let b ← pv2; pure (.segment a b)
  | _ => failure

def pshape2 : P WShape2 := do
  let k ← tok
  match k with
  | "compound" => do
      let n ← pnat
      let rec go : Nat → Float → P Float
        | 0, acc => pure acc
        | m+1, acc => do
            let pose ← piso2; let k' ← tok; let part ← pprim2 k'
            go m (max acc (fmag2 pose.t + part.fsize))
      let sz ← go n 0
      pure (.composite "compound" sz)
  | "polyline" => do
      let nv ← pnat
      let rec gv : Nat → Float → P Float
        | 0, acc => pure acc
        | m+1, acc => do let v ← pv2; gv m (max acc (fmag2 v))
      let sz ← gv nv 0
      pure (.composite "polyline" sz)
  | _ => pprim2 k
def WShape2.closed : WShape2 → Option (Shape2 Float)
  | .ball r => some (.ball r)
  | .cuboid h => some (.cuboid h)
  | .halfspace n => some (.halfspace n)
  | _ => none
def WShape2.isBall : WShape2 → Bool
  | .ball _ => true
  | _ => false
def vmag2 (v : V2 Rat) : Rat := rabs v.x + rabs v.y
def WShape2.size : WShape2 → Rat
  | .ball r => rabs (q r)
  | .cuboid h => vmag2 (q2 h)
  | .halfspace _ => 0
  | .capsule a b r => vmag2 (q2 a) + vmag2 (q2 b) + rabs (q r)
  | .triangle a b c => vmag2 (q2 a) + vmag2 (q2 b) + vmag2 (q2 c)
  | .segment a b => vmag2 (q2 a) + vmag2 (q2 b)
  | .composite _ s => rabs (q s)
def WShape2.kind : WShape2 → String
  | .ball _ => "ball" | .cuboid _ => "cuboid" | .halfspace _ => "halfspace"
  | .capsule .. => "capsule" | .triangle .. => "triangle" | .segment .. => "segment"
  | .composite k _ => k
def WShape2.isComposite : WShape2 → Bool
  | .composite .. => true
  | _ => false
def WShape2.isHalfSpace : WShape2 → Bool
  | .halfspace _ => true
  | _ => false
def qshape2 : Shape2 Float → Shape2 Rat
  | .ball r => .ball (q r)
  | .cuboid h => .cuboid (q2 h)
  | .halfspace n => .halfspace (q2 n)

def fcontact2 : Option (Contact2 Float) → String
  | none => "none"
  | some c => s!"some {fv2 c.point1} {fv2 c.point2} {fv2 c.normal1} {fv2 c.normal2} {ff c.dist}"
def pov2 : P (V2 Float) := do let x ← pfo; let y ← pfo; pure ⟨x, y⟩
def pcontactOut2 : P (Option (Contact2 Float)) := do
  let t ← tok
  if t = "none" then pure none
  else if t = "some" then (do let a ← pov2; let b ← pov2; let c ← pov2; let d ← pov2; let e ← pfo; pure (some ⟨a, b, c, d, e⟩))
  else failure
def qcontact2 (c : Contact2 Float) : Contact2 Rat := ⟨q2 c.point1, q2 c.point2, q2 c.normal1, q2 c.normal2, q c.dist⟩
def finite2 (v : V2 Float) : Bool := FloatIO.isFinite v.x && FloatIO.isFinite v.y
def finiteContact2 (c : Contact2 Float) : Bool :=
  finite2 c.point1 && finite2 c.point2 && finite2 c.normal1 && finite2 c.normal2 && FloatIO.isFinite c.dist
/-- embed a 2-D contact in the plane `z = 0` (so that the comparison code is shared with 3-D) -/
def embed (v : V2 Rat) : V3 Rat := ⟨v.x, v.y, 0⟩
def embedC (c : Contact2 Rat) : Contact3 Rat :=
  ⟨C03.embed c.point1, C03.embed c.point2, C03.embed c.normal1, C03.embed c.normal2, c.dist⟩

def closeV2 (a b : V2 Rat) (scale : Rat) : Bool := close a.x b.x scale && close a.y b.y scale
def unitC (m : Iso2 Rat) : Bool := close (m.re * m.re + m.im * m.im) 1 0

structure Pair2 where
  s1 : Shape2 Rat
  pos1 : Iso2 Rat
  s2 : Shape2 Rat
  pos2 : Iso2 Rat
def shapeSize2 : Shape2 Rat → Rat
  | .ball r => rabs r
  | .cuboid he => vmag2 he
  | .halfspace _ => 0
def Pair2.scale (P : Pair2) : Rat := vmag2 P.pos1.t + vmag2 P.pos2.t + shapeSize2 P.s1 + shapeSize2 P.s2
def Pair2.slack (P : Pair2) : Rat := tol * (1 + P.scale)
def minAlong2 (s : Shape2 Rat) (pos : Iso2 Rat) (N base : V2 Rat) : Option Rat :=
  match s with
  | .ball r => some (N.dot (pos.t.sub base) - r)
  | .cuboid he =>
    let cs : List (V2 Rat) := [⟨he.x, he.y⟩, ⟨-he.x, he.y⟩, ⟨he.x, -he.y⟩, ⟨-he.x, -he.y⟩]
    let vals := cs.map fun c => N.dot ((pos.act c).sub base)
    match vals with
    | [] => none
    | v :: vs => some (vs.foldl min v)
  | .halfspace _ => none
def Pair2.sep (P : Pair2) : Option (Rat × Option (V2 Rat)) :=
  if !(unitC P.pos1 && unitC P.pos2) then none else
  match P.s1, P.s2 with
  | .ball r1, .ball r2 =>
    let d := P.pos2.t.sub P.pos1.t
    let len := rsqrt d.normSq
    some (len - (r1 + r2), if len * 1000000 < 1 then none else some (d.sdiv len))
  | .halfspace n, s =>
    if !close n.normSq 1 0 then none else
    let N := P.pos1.rot n
    (minAlong2 s P.pos2 N P.pos1.t).map fun v => (v, some N)
  | s, .halfspace n =>
    if !close n.normSq 1 0 then none else
    let N := P.pos2.rot n
    (minAlong2 s P.pos1 N P.pos2.t).map fun v => (v, some N.neg)
  | _, _ => none
def memW2 (s : Shape2 Rat) (pos : Iso2 Rat) (p : V2 Rat) (slack : Rat) : Bool :=
  let l := pos.invAct p
  match s with
  | .ball r => l.normSq ≤ (r + slack) * (r + slack)
  | .cuboid he => rabs l.x ≤ he.x + slack && rabs l.y ≤ he.y + slack
  | .halfspace n => n.dot l ≤ slack

/-- 2-D version of `judgeContact` (world frame) -/
def judgeContact2 (P : Pair2) (pred : Rat) (out : Option (Contact2 Rat)) : String :=
  match P.sep with
  | none => "skip no-exact-separation (pair kind or non-unit input)"
  | some (sep, nrm) =>
    let sl := P.slack
    match out with
    | none =>
      if sep < pred - sl then s!"fail none-but-within-prediction sep={sep.toF} pred={pred.toF}" else "pass"
    | some c =>
      if sep > pred + sl then s!"fail some-but-beyond-prediction sep={sep.toF} pred={pred.toF}"
      else if !close c.dist sep P.scale then s!"fail dist={c.dist.toF} expected-separation={sep.toF}"
      else if !close c.normal1.normSq 1 0 then "fail normal1-not-unit"
      else if !closeV2 c.normal2 c.normal1.neg 0 then "fail normal2-not-minus-normal1-in-world"
      else if !close ((c.point2.sub c.point1).dot c.normal1) c.dist P.scale then "fail dist-not-(p2-p1).n1"
      else if !memW2 P.s1 P.pos1 c.point1 sl then "fail point1-not-on-shape1"
      else if !memW2 P.s2 P.pos2 c.point2 sl then "fail point2-not-on-shape2"
      else match nrm with
        | some N => if closeV2 c.normal1 N 1000 then "pass" else "fail normal1-direction"
        | none => "pass"

end C03
