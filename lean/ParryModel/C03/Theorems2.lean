import ParryModel.Field
import ParryModel.C03.Model
import ParryModel.C03.Sat
import ParryModel.C03.Lemmas
/-!
# C03 property theorems, part 5: the closed-form cuboid/cuboid separating-axis test.

Statements about the model functions of `C03/Sat.lean` (`cuboid_cuboid_compute_separation_wrt_local_line`,
`cuboid_cuboid_find_local_separating_edge_twoway`) at the lawful instance `fieldNum K sq`, for a unit rotation.

* `satSepLine_fst`: the separation computed along an axis `a` is the closed form
  `|t·a| - r₁(a) - r₂(R⁻¹a)` (`r_k` = projection radius of cuboid `k`), for ANY axis (unit or not).
* `satSepLine_sound`: a positive separation along any axis proves that the cuboids have no common point (so a
  spurious / duplicated axis can never produce a false "disjoint").
* `satEdgeAxes_table`: the nine candidate axes are exactly `e_i × (pos12·e_j)`, `i, j ∈ {x, y, z}`.
* `satEdgeAxes_inverse`: the table of the swapped call (`pos12⁻¹`) is the image under `a ↦ -pos12⁻¹a` of the
  transposed table — every edge pair is tested in both argument orders.
* `satSepLine_swap`, `satEdgeTwoway_swap`: the separation along an axis does not depend on the argument order, and
  `find_local_separating_edge_twoway` finds a separating edge axis in one order iff it finds one in the other.
The swap symmetry of `intersection_test_cuboid_cuboid` and of the free function follows in `Theorems.lean`.
-/
namespace C03
open Model Model.CC

variable {K : Type} [Field K] [LinearOrder K] [IsStrictOrderedRing K] (sq : K → K)

/-- projection radius of the cuboid with half-extents `he` on the direction `d`: `Σ |he_k| |d_k|` -/
def absDot (he d : V3 K) : K := |he.x| * |d.x| + |he.y| * |d.y| + |he.z| * |d.z|

/-! ## small algebra -/

private theorem copySign_mul (d t : K) :
    letI := fieldNum K sq
    copySign d t * d = |t| * |d| := by
  simp only [copySign, fieldNum_nabs]
  split_ifs with h
  · have hd : d < 0 := one_div_neg.mp h
    rw [abs_of_neg hd]; ring
  · have hd : 0 ≤ d := by
      by_contra hc
      exact h (one_div_neg.mpr (not_le.mp hc))
    rw [abs_of_nonneg hd]

private theorem copySign_one (x : K) :
    letI := fieldNum K sq
    copySign x 1 = 1 ∨ copySign x 1 = -1 := by
  simp only [copySign, fieldNum_nabs, abs_one]
  split_ifs
  · exact Or.inr rfl
  · exact Or.inl rfl

private theorem dot_neg_right (p w : V3 K) :
    letI := fieldNum K sq
    p.dot w.neg = -(p.dot w) := by
  simp only [V3.dot, V3.neg]; ring

private theorem neg_dot_neg (p w : V3 K) :
    letI := fieldNum K sq
    p.neg.dot w.neg = p.dot w := by
  simp only [V3.dot, V3.neg]; ring

private theorem absDot_neg (he w : V3 K) :
    letI := fieldNum K sq
    absDot he w.neg = absDot he w := by
  simp only [absDot, V3.neg, abs_neg]

private theorem absDot_smul (he w : V3 K) (s : K) (hs : s = 1 ∨ s = -1) :
    letI := fieldNum K sq
    absDot he (w.smul s) = absDot he w := by
  rcases hs with rfl | rfl <;> simp only [absDot, V3.smul, mul_one, mul_neg, abs_neg]

private theorem add_sub_dot (r t p a : V3 K) :
    letI := fieldNum K sq
    ((r.add t).sub p).dot a = r.dot a + t.dot a - p.dot a := by
  simp only [V3.add, V3.sub, V3.dot]; ring

private theorem add_dot (r t a : V3 K) :
    letI := fieldNum K sq
    (r.add t).dot a = r.dot a + t.dot a := by
  simp only [V3.add, V3.dot]; ring

private theorem conj_unit (m : Iso3 K) (h : Unit3 m) :
    letI := fieldNum K sq
    m.qv.neg.x * m.qv.neg.x + m.qv.neg.y * m.qv.neg.y + m.qv.neg.z * m.qv.neg.z + m.qw * m.qw = 1 := by
  unfold Unit3 at h
  simp only [Iso3.qv, V3.neg]
  linear_combination h

private theorem unit3_inverse' (m : Iso3 K) (h : Unit3 m) :
    letI := fieldNum K sq
    Unit3 m.inverse := by
  simp only [Unit3, Iso3.inverse, Iso3.qv, V3.neg] at h ⊢
  linear_combination h

private theorem invRot_dot (m : Iso3 K) (u v : V3 K) (h : Unit3 m) :
    letI := fieldNum K sq
    (m.invRot u).dot (m.invRot v) = u.dot v :=
  rotQ_dot sq _ m.qw u v (conj_unit sq m h)

private theorem inverse_invRot (m : Iso3 K) (v : V3 K) :
    letI := fieldNum K sq
    m.inverse.invRot v = m.rot v := by
  simp only [Iso3.invRot, Iso3.rot, Iso3.inverse, Iso3.qv, V3.neg, neg_neg]

private theorem rot_neg (m : Iso3 K) (a : V3 K) :
    letI := fieldNum K sq
    m.rot a.neg = (m.rot a).neg := rotQ_neg sq _ _ a

private theorem rotQ_sdiv (u : V3 K) (w : K) (a : V3 K) (s : K) :
    letI := fieldNum K sq
    Iso3.rotQ u w (a.sdiv s) = (Iso3.rotQ u w a).sdiv s := by
  simp only [Iso3.rotQ, V3.add, V3.smul, V3.sdiv, V3.cross, fieldNum_two, V3.mk.injEq]
  refine ⟨?_, ?_, ?_⟩ <;> ring

/-- `(R p)·v = p·(R⁻¹ v)` for a unit rotation -/
private theorem rot_dot (m : Iso3 K) (p v : V3 K) (h : Unit3 m) :
    letI := fieldNum K sq
    (m.rot p).dot v = p.dot (m.invRot v) := by
  have e2 := rot_invRot sq m v h
  have e : @V3.dot K (fieldNum K sq) (@Iso3.rot K (fieldNum K sq) m p)
      (@Iso3.rot K (fieldNum K sq) m (@Iso3.invRot K (fieldNum K sq) m v))
      = @V3.dot K (fieldNum K sq) p (@Iso3.invRot K (fieldNum K sq) m v) :=
    rotQ_dot sq ⟨m.qi, m.qj, m.qk⟩ m.qw p _ h
  rw [e2] at e
  exact e

/-! ## the support point of a cuboid -/

/-- `Cuboid::local_support_point(d)` attains the projection radius: `support(d)·d = Σ |he_k| |d_k|`
(whatever sign `copy_sign_to` picks for a zero component). -/
theorem cuboidLocalSupport_dot (he d : V3 K) :
    letI := fieldNum K sq
    (cuboidLocalSupport he d).dot d = absDot he d := by
  simp only [cuboidLocalSupport, V3.dot, absDot]
  rw [copySign_mul, copySign_mul, copySign_mul]

/-- no point of the cuboid projects farther than the projection radius -/
private theorem dot_le_absDot (he x d : V3 K) (hx : @Cuboid3.Mem K (fieldNum K sq) ⟨he⟩ x) :
    letI := fieldNum K sq
    |x.dot d| ≤ absDot he d := by
  obtain ⟨⟨h1, h1'⟩, ⟨h2, h2'⟩, ⟨h3, h3'⟩⟩ := hx
  have a1 : |x.x| ≤ |he.x| := (abs_le.mpr ⟨h1, h1'⟩).trans (le_abs_self _)
  have a2 : |x.y| ≤ |he.y| := (abs_le.mpr ⟨h2, h2'⟩).trans (le_abs_self _)
  have a3 : |x.z| ≤ |he.z| := (abs_le.mpr ⟨h3, h3'⟩).trans (le_abs_self _)
  have e1 : |x.x * d.x| ≤ |he.x| * |d.x| := by
    rw [abs_mul]; exact mul_le_mul_of_nonneg_right a1 (abs_nonneg _)
  have e2 : |x.y * d.y| ≤ |he.y| * |d.y| := by
    rw [abs_mul]; exact mul_le_mul_of_nonneg_right a2 (abs_nonneg _)
  have e3 : |x.z * d.z| ≤ |he.z| * |d.z| := by
    rw [abs_mul]; exact mul_le_mul_of_nonneg_right a3 (abs_nonneg _)
  have tri := abs_add_three (x.x * d.x) (x.y * d.y) (x.z * d.z)
  simp only [V3.dot, absDot]
  linarith

/-! ## `cuboid_cuboid_compute_separation_wrt_local_line` -/

private theorem sepLine_core (he1 he2 : V3 K) (m : Iso3 K) (a1 : V3 K) (h : Unit3 m) :
    letI := fieldNum K sq
    ((m.act (cuboidLocalSupport he2 (m.invRot a1.neg))).sub (cuboidLocalSupport he1 a1)).dot a1
      = m.t.dot a1 - absDot he1 a1 - absDot he2 (m.invRot a1) := by
  have e4 : @Iso3.invRot K (fieldNum K sq) m (@V3.neg K (fieldNum K sq) a1)
      = @V3.neg K (fieldNum K sq) (@Iso3.invRot K (fieldNum K sq) m a1) := invRot_neg sq m a1
  rw [e4]
  have e1 := cuboidLocalSupport_dot sq he1 a1
  have e2 := cuboidLocalSupport_dot sq he2 (@V3.neg K (fieldNum K sq) (@Iso3.invRot K (fieldNum K sq) m a1))
  have e3 := rot_dot sq m
    (@cuboidLocalSupport K (fieldNum K sq) he2 (@V3.neg K (fieldNum K sq) (@Iso3.invRot K (fieldNum K sq) m a1))) a1 h
  rw [dot_neg_right, absDot_neg] at e2
  rw [show ∀ p : V3 K, @Iso3.act K (fieldNum K sq) m p
      = @V3.add K (fieldNum K sq) (@Iso3.rot K (fieldNum K sq) m p) m.t from fun _ => rfl,
    add_sub_dot, e3, e1]
  linarith

/-- the same with the axis flipped by a sign `s = ±1` -/
private theorem sepLine_s (he1 he2 : V3 K) (m : Iso3 K) (a : V3 K) (s : K) (h : Unit3 m) (hs : s = 1 ∨ s = -1) :
    letI := fieldNum K sq
    ((m.act (cuboidLocalSupport he2 (m.invRot (a.smul s).neg))).sub (cuboidLocalSupport he1 (a.smul s))).dot (a.smul s)
      = s * m.t.dot a - absDot he1 a - absDot he2 (m.invRot a) := by
  rw [sepLine_core sq he1 he2 m _ h]
  have e5 : @Iso3.invRot K (fieldNum K sq) m (@V3.smul K (fieldNum K sq) a s)
      = @V3.smul K (fieldNum K sq) (@Iso3.invRot K (fieldNum K sq) m a) s := rotQ_smul sq _ _ a s
  rw [e5, absDot_smul sq he1 a s hs, absDot_smul sq he2 _ s hs]
  have e6 : @V3.dot K (fieldNum K sq) m.t (@V3.smul K (fieldNum K sq) a s) = s * @V3.dot K (fieldNum K sq) m.t a := by
    simp only [V3.dot, V3.smul]; ring
  rw [e6]

/-- **Closed form of `cuboid_cuboid_compute_separation_wrt_local_line`.**  For any axis `a` (unit or not) and a unit
rotation, the returned separation is `|t·a| - Σ|he1_k||a_k| - Σ|he2_k||(R⁻¹a)_k|`: the distance of the centres
along `a` minus the two projection radii. -/
theorem satSepLine_fst (he1 he2 : V3 K) (m : Iso3 K) (a : V3 K) (h : Unit3 m) :
    letI := fieldNum K sq
    (satSepLine he1 he2 m a).1 = |m.t.dot a| - absDot he1 a - absDot he2 (m.invRot a) := by
  have key := sepLine_s sq he1 he2 m a (@copySign K (fieldNum K sq) (@V3.dot K (fieldNum K sq) m.t a) 1) h
    (copySign_one sq _)
  have hm := copySign_mul sq (@V3.dot K (fieldNum K sq) m.t a) 1
  rw [abs_one, one_mul] at hm
  rw [← hm]
  exact key

/-- the returned axis is the given axis up to sign, oriented from cuboid 1 towards cuboid 2 -/
theorem satSepLine_snd (he1 he2 : V3 K) (m : Iso3 K) (a : V3 K) :
    letI := fieldNum K sq
    ((satSepLine he1 he2 m a).2 = a ∨ (satSepLine he1 he2 m a).2 = a.neg) ∧ 0 ≤ m.t.dot (satSepLine he1 he2 m a).2 := by
  have hs := copySign_one sq (@V3.dot K (fieldNum K sq) m.t a)
  have hm := copySign_mul sq (@V3.dot K (fieldNum K sq) m.t a) 1
  rw [abs_one, one_mul] at hm
  have e6 : @V3.dot K (fieldNum K sq) m.t
      (@V3.smul K (fieldNum K sq) a (@copySign K (fieldNum K sq) (@V3.dot K (fieldNum K sq) m.t a) 1))
      = @copySign K (fieldNum K sq) (@V3.dot K (fieldNum K sq) m.t a) 1 * @V3.dot K (fieldNum K sq) m.t a := by
    simp only [V3.dot, V3.smul]; ring
  refine ⟨?_, ?_⟩
  · show @V3.smul K (fieldNum K sq) a _ = a ∨ @V3.smul K (fieldNum K sq) a _ = @V3.neg K (fieldNum K sq) a
    rcases hs with hs | hs <;> rw [hs]
    · left; simp only [V3.smul, mul_one]
    · right; simp only [V3.smul, V3.neg, mul_neg, mul_one]
  · show 0 ≤ @V3.dot K (fieldNum K sq) m.t (@V3.smul K (fieldNum K sq) a _)
    rw [e6, hm]; exact abs_nonneg _

/-- **Soundness of one axis.**  If the separation computed along ANY axis is positive, the two cuboids have no
common point: no point `y` of cuboid 2 is mapped by `pos12` onto a point `x` of cuboid 1. -/
theorem satSepLine_sound (he1 he2 : V3 K) (m : Iso3 K) (a : V3 K) (h : Unit3 m)
    (hpos : 0 < (@satSepLine K (fieldNum K sq) he1 he2 m a).1) (x y : V3 K)
    (hx : @Cuboid3.Mem K (fieldNum K sq) ⟨he1⟩ x) (hy : @Cuboid3.Mem K (fieldNum K sq) ⟨he2⟩ y) :
    letI := fieldNum K sq
    m.act y ≠ x := by
  intro heq
  rw [satSepLine_fst sq he1 he2 m a h] at hpos
  have b1 := dot_le_absDot sq he1 x a hx
  have b2 := dot_le_absDot sq he2 y (@Iso3.invRot K (fieldNum K sq) m a) hy
  have e := rot_dot sq m y a h
  have e0 : @V3.dot K (fieldNum K sq) (@Iso3.act K (fieldNum K sq) m y) a = @V3.dot K (fieldNum K sq) x a := by rw [heq]
  rw [show @Iso3.act K (fieldNum K sq) m y = @V3.add K (fieldNum K sq) (@Iso3.rot K (fieldNum K sq) m y) m.t from rfl,
    add_dot, e] at e0
  have c1 := le_abs_self (@V3.dot K (fieldNum K sq) x a)
  have c2 := neg_abs_le (@V3.dot K (fieldNum K sq) x a)
  have c3 := le_abs_self (@V3.dot K (fieldNum K sq) y (@Iso3.invRot K (fieldNum K sq) m a))
  have c4 := neg_abs_le (@V3.dot K (fieldNum K sq) y (@Iso3.invRot K (fieldNum K sq) m a))
  have c5 : |@V3.dot K (fieldNum K sq) m.t a| ≤ |@V3.dot K (fieldNum K sq) x a|
      + |@V3.dot K (fieldNum K sq) y (@Iso3.invRot K (fieldNum K sq) m a)| :=
    abs_le.mpr ⟨by linarith, by linarith⟩
  linarith

example : Unit3 (⟨0, 0, 3/5, 4/5, ⟨1, -2, 3⟩⟩ : Iso3 ℚ) ∧
    @Cuboid3.Mem ℚ (fieldNum ℚ id) ⟨⟨1, 2, 3⟩⟩ ⟨-1, 1/2, 3⟩ := by
  unfold Unit3 Cuboid3.Mem; norm_num

/-! ## rotations preserve cross products -/

/-- `q v q*` for a general quaternion `q = (u, w)` (equal to `rotQ` when `|q| = 1`) -/
private def qS (u : V3 K) (w : K) (v : V3 K) : V3 K :=
  ⟨(w * w - (u.x * u.x + u.y * u.y + u.z * u.z)) * v.x + 2 * w * (u.y * v.z - u.z * v.y)
      + 2 * u.x * (u.x * v.x + u.y * v.y + u.z * v.z),
   (w * w - (u.x * u.x + u.y * u.y + u.z * u.z)) * v.y + 2 * w * (u.z * v.x - u.x * v.z)
      + 2 * u.y * (u.x * v.x + u.y * v.y + u.z * v.z),
   (w * w - (u.x * u.x + u.y * u.y + u.z * u.z)) * v.z + 2 * w * (u.x * v.y - u.y * v.x)
      + 2 * u.z * (u.x * v.x + u.y * v.y + u.z * v.z)⟩

private theorem rotQ_eq_qS (u : V3 K) (w : K) (v : V3 K) (h : u.x * u.x + u.y * u.y + u.z * u.z + w * w = 1) :
    letI := fieldNum K sq
    Iso3.rotQ u w v = qS u w v := by
  obtain ⟨i, j, k⟩ := u; obtain ⟨x, y, z⟩ := v
  simp only [Iso3.rotQ, qS, V3.add, V3.smul, V3.cross, fieldNum_two, V3.mk.injEq] at h ⊢
  refine ⟨?_, ?_, ?_⟩
  · linear_combination (-x) * h
  · linear_combination (-y) * h
  · linear_combination (-z) * h

private theorem qS_cross (u : V3 K) (w : K) (a b : V3 K) :
    letI := fieldNum K sq
    (qS u w a).cross (qS u w b) = (qS u w (a.cross b)).smul (u.x * u.x + u.y * u.y + u.z * u.z + w * w) := by
  obtain ⟨i, j, k⟩ := u; obtain ⟨x, y, z⟩ := a; obtain ⟨x', y', z'⟩ := b
  simp only [qS, V3.cross, V3.smul, V3.mk.injEq]
  refine ⟨?_, ?_, ?_⟩ <;> ring

/-- **A unit quaternion preserves cross products**: `R(a × b) = Ra × Rb`. -/
theorem rotQ_cross (u : V3 K) (w : K) (a b : V3 K) (h : u.x * u.x + u.y * u.y + u.z * u.z + w * w = 1) :
    letI := fieldNum K sq
    Iso3.rotQ u w (a.cross b) = (Iso3.rotQ u w a).cross (Iso3.rotQ u w b) := by
  rw [rotQ_eq_qS sq u w _ h, rotQ_eq_qS sq u w a h, rotQ_eq_qS sq u w b h, qS_cross, h]
  simp only [V3.smul, mul_one]

/-- `u × (R⁻¹v) = -R⁻¹(v × Ru)`: an edge/edge axis seen from the other cuboid's frame -/
theorem cross_invRot_swap (m : Iso3 K) (u v : V3 K) (h : Unit3 m) :
    letI := fieldNum K sq
    u.cross (m.invRot v) = (m.invRot (v.cross (m.rot u))).neg := by
  have e := rotQ_cross sq (@V3.neg K (fieldNum K sq) m.qv) m.qw v
    (@Iso3.rot K (fieldNum K sq) m u) (conj_unit sq m h)
  have e2 := invRot_rot sq m u h
  show _ = @V3.neg K (fieldNum K sq) (@Iso3.rotQ K (fieldNum K sq) (@V3.neg K (fieldNum K sq) m.qv)
    m.qw (@V3.cross K (fieldNum K sq) v (@Iso3.rot K (fieldNum K sq) m u)))
  rw [e]
  show _ = @V3.neg K (fieldNum K sq) (@V3.cross K (fieldNum K sq) (@Iso3.invRot K (fieldNum K sq) m v)
    (@Iso3.invRot K (fieldNum K sq) m (@Iso3.rot K (fieldNum K sq) m u)))
  rw [e2]
  simp only [V3.cross, V3.neg, V3.mk.injEq]
  refine ⟨?_, ?_, ?_⟩ <;> ring

/-! ## the table of the nine edge/edge axes -/

/-- **The table of candidate axes is `e_i × (pos12·e_j)`** for the nine pairs `(i, j)`, `j` outer — each pair of
edge directions exactly once. -/
theorem satEdgeAxes_table (m : Iso3 K) :
    letI := fieldNum K sq
    satEdgeAxes m =
      [ (⟨1, 0, 0⟩ : V3 K).cross (m.rot ⟨1, 0, 0⟩), (⟨0, 1, 0⟩ : V3 K).cross (m.rot ⟨1, 0, 0⟩), (⟨0, 0, 1⟩ : V3 K).cross (m.rot ⟨1, 0, 0⟩),
        (⟨1, 0, 0⟩ : V3 K).cross (m.rot ⟨0, 1, 0⟩), (⟨0, 1, 0⟩ : V3 K).cross (m.rot ⟨0, 1, 0⟩), (⟨0, 0, 1⟩ : V3 K).cross (m.rot ⟨0, 1, 0⟩),
        (⟨1, 0, 0⟩ : V3 K).cross (m.rot ⟨0, 0, 1⟩), (⟨0, 1, 0⟩ : V3 K).cross (m.rot ⟨0, 0, 1⟩), (⟨0, 0, 1⟩ : V3 K).cross (m.rot ⟨0, 0, 1⟩) ] := by
  simp only [satEdgeAxes, V3.cross, zero_mul, one_mul, sub_zero, zero_sub]

/-- **The table of the swapped call** (`pos12⁻¹`, cuboids exchanged) is the image under `a ↦ -pos12⁻¹a` (the same
line, expressed in the other cuboid's frame) of the transposed table: entry `(j, i)` of one order is entry `(i, j)`
of the other. -/
theorem satEdgeAxes_inverse (m : Iso3 K) (h : Unit3 m) :
    letI := fieldNum K sq
    satEdgeAxes m.inverse =
      [ (m.invRot ((⟨1, 0, 0⟩ : V3 K).cross (m.rot ⟨1, 0, 0⟩))).neg, (m.invRot ((⟨1, 0, 0⟩ : V3 K).cross (m.rot ⟨0, 1, 0⟩))).neg,
        (m.invRot ((⟨1, 0, 0⟩ : V3 K).cross (m.rot ⟨0, 0, 1⟩))).neg,
        (m.invRot ((⟨0, 1, 0⟩ : V3 K).cross (m.rot ⟨1, 0, 0⟩))).neg, (m.invRot ((⟨0, 1, 0⟩ : V3 K).cross (m.rot ⟨0, 1, 0⟩))).neg,
        (m.invRot ((⟨0, 1, 0⟩ : V3 K).cross (m.rot ⟨0, 0, 1⟩))).neg,
        (m.invRot ((⟨0, 0, 1⟩ : V3 K).cross (m.rot ⟨1, 0, 0⟩))).neg, (m.invRot ((⟨0, 0, 1⟩ : V3 K).cross (m.rot ⟨0, 1, 0⟩))).neg,
        (m.invRot ((⟨0, 0, 1⟩ : V3 K).cross (m.rot ⟨0, 0, 1⟩))).neg ] := by
  rw [satEdgeAxes_table sq (@Iso3.inverse K (fieldNum K sq) m)]
  simp only [inverse_rot sq m, cross_invRot_swap sq m _ _ h]

/-! ## argument-order symmetry -/

/-- **The separation along a line does not depend on the argument order**: the swapped call sees `pos12⁻¹` and the
axis `-pos12⁻¹a` (the same line in the frame of cuboid 2) and computes the same separation. -/
theorem satSepLine_swap (he1 he2 : V3 K) (m : Iso3 K) (a : V3 K) (h : Unit3 m) :
    letI := fieldNum K sq
    (satSepLine he1 he2 m a).1 = (satSepLine he2 he1 m.inverse (m.invRot a).neg).1 := by
  have hi := unit3_inverse' sq m h
  rw [satSepLine_fst sq he1 he2 m a h, satSepLine_fst sq he2 he1 _ _ hi]
  have e1 : @Iso3.invRot K (fieldNum K sq) (@Iso3.inverse K (fieldNum K sq) m)
      (@V3.neg K (fieldNum K sq) (@Iso3.invRot K (fieldNum K sq) m a)) = @V3.neg K (fieldNum K sq) a := by
    rw [inverse_invRot, rot_neg, rot_invRot sq m a h]
  have e2 : @V3.dot K (fieldNum K sq) (@Iso3.inverse K (fieldNum K sq) m).t
      (@V3.neg K (fieldNum K sq) (@Iso3.invRot K (fieldNum K sq) m a)) = @V3.dot K (fieldNum K sq) m.t a := by
    show @V3.dot K (fieldNum K sq) (@Iso3.invRot K (fieldNum K sq) m (@V3.neg K (fieldNum K sq) m.t))
      (@V3.neg K (fieldNum K sq) (@Iso3.invRot K (fieldNum K sq) m a)) = _
    rw [invRot_neg, neg_dot_neg, invRot_dot sq m _ _ h]
  rw [e1, e2, absDot_neg, absDot_neg]
  ring

/-- the candidate axis `a` is actually tested (`norm > f64::EPSILON`) and its normalised form reports a positive
separation -/
def EdgeSep (he1 he2 : V3 K) (m : Iso3 K) (a : V3 K) : Prop :=
  letI := fieldNum K sq
  realEps < a.norm ∧ 0 < (satSepLine he1 he2 m (a.sdiv a.norm)).1

private theorem realMax_nonneg :
    letI := fieldNum K sq
    (0 : K) ≤ realMax := by
  show (0 : K) ≤ ((((2 ^ 1024 - 2 ^ 971 : Nat) : Rat)) : K)
  exact Rat.cast_nonneg.mpr (Nat.cast_nonneg _)

private theorem edgeFold_pos (he1 he2 : V3 K) (m : Iso3 K) (l : List (V3 K)) (init : K × V3 K) :
    letI := fieldNum K sq
    0 < (l.foldl (satEdgeStep he1 he2 m) init).1 ↔ 0 < init.1 ∨ ∃ a ∈ l, EdgeSep sq he1 he2 m a := by
  induction l generalizing init with
  | nil => simp
  | cons a l ih =>
    rw [List.foldl_cons, ih]
    have step : 0 < (@satEdgeStep K (fieldNum K sq) he1 he2 m init a).1 ↔ 0 < init.1 ∨ EdgeSep sq he1 he2 m a := by
      unfold satEdgeStep EdgeSep
      simp only []
      split_ifs with hg hb
      · constructor
        · intro hr; exact Or.inr ⟨hg, hr⟩
        · rintro (hi | ⟨_, hr⟩)
          · exact hi.trans hb
          · exact hr
      · constructor
        · intro hi; exact Or.inl hi
        · rintro (hi | ⟨_, hr⟩)
          · exact hi
          · exact lt_of_lt_of_le hr (not_lt.mp hb)
      · constructor
        · intro hi; exact Or.inl hi
        · rintro (hi | ⟨hg', _⟩)
          · exact hi
          · exact absurd hg' hg
    rw [step]
    simp only [List.mem_cons, exists_eq_or_imp]
    tauto

/-- **What `find_local_separating_edge_twoway` reports**: its best separation is positive iff one of the nine
candidate axes is tested and separates. -/
theorem satEdgeTwoway_pos_iff (he1 he2 : V3 K) (m : Iso3 K) :
    letI := fieldNum K sq
    0 < (satEdgeTwoway he1 he2 m).1 ↔ ∃ a ∈ satEdgeAxes m, EdgeSep sq he1 he2 m a := by
  unfold satEdgeTwoway
  rw [edgeFold_pos]
  have hmax := realMax_nonneg sq (K := K)
  constructor
  · rintro (hneg | hex)
    · exfalso
      have : (0 : K) < -(@realMax K (fieldNum K sq)) := hneg
      linarith
    · exact hex
  · exact Or.inr

/-- a candidate axis separates in one order iff its counterpart separates in the other order -/
theorem edgeSep_swap (he1 he2 : V3 K) (m : Iso3 K) (a : V3 K) (h : Unit3 m) :
    letI := fieldNum K sq
    EdgeSep sq he1 he2 m a ↔ EdgeSep sq he2 he1 m.inverse (m.invRot a).neg := by
  have hn : @V3.norm K (fieldNum K sq) (@V3.neg K (fieldNum K sq) (@Iso3.invRot K (fieldNum K sq) m a))
      = @V3.norm K (fieldNum K sq) a := by
    show sq (@V3.dot K (fieldNum K sq) _ _) = sq (@V3.dot K (fieldNum K sq) a a)
    rw [neg_dot_neg, invRot_dot sq m _ _ h]
  have hd : ∀ n : K, @V3.sdiv K (fieldNum K sq) (@V3.neg K (fieldNum K sq) (@Iso3.invRot K (fieldNum K sq) m a)) n
      = @V3.neg K (fieldNum K sq) (@Iso3.invRot K (fieldNum K sq) m (@V3.sdiv K (fieldNum K sq) a n)) := by
    intro n
    have e := rotQ_sdiv sq (@V3.neg K (fieldNum K sq) m.qv) m.qw a n
    show _ = @V3.neg K (fieldNum K sq) (@Iso3.rotQ K (fieldNum K sq) _ m.qw (@V3.sdiv K (fieldNum K sq) a n))
    rw [e]
    simp only [V3.sdiv, V3.neg, neg_div]
    rfl
  unfold EdgeSep
  rw [hn, hd, ← satSepLine_swap sq he1 he2 m _ h]

/-- **Argument-order symmetry of `cuboid_cuboid_find_local_separating_edge_twoway`**: it finds a separating
edge/edge axis for `(cuboid1, cuboid2, pos12)` iff it finds one for `(cuboid2, cuboid1, pos12⁻¹)`. -/
theorem satEdgeTwoway_swap (he1 he2 : V3 K) (m : Iso3 K) (h : Unit3 m) :
    letI := fieldNum K sq
    0 < (satEdgeTwoway he1 he2 m).1 ↔ 0 < (satEdgeTwoway he2 he1 m.inverse).1 := by
  rw [satEdgeTwoway_pos_iff, satEdgeTwoway_pos_iff, satEdgeAxes_inverse sq m h, satEdgeAxes_table sq m]
  simp only [List.mem_cons, List.not_mem_nil, or_false, exists_eq_or_imp, exists_eq_left]
  simp only [← edgeSep_swap sq he1 he2 m _ h]
  tauto

/-- **Soundness of the edge test**: a positive best separation proves the cuboids disjoint. -/
theorem satEdgeTwoway_sound (he1 he2 : V3 K) (m : Iso3 K) (h : Unit3 m)
    (hpos : 0 < (@satEdgeTwoway K (fieldNum K sq) he1 he2 m).1) (x y : V3 K)
    (hx : @Cuboid3.Mem K (fieldNum K sq) ⟨he1⟩ x) (hy : @Cuboid3.Mem K (fieldNum K sq) ⟨he2⟩ y) :
    letI := fieldNum K sq
    m.act y ≠ x := by
  obtain ⟨a, _, hE⟩ := (satEdgeTwoway_pos_iff sq he1 he2 m).mp hpos
  exact satSepLine_sound sq he1 he2 m _ h hE.2 x y hx hy

example : Unit3 (⟨0, 0, 3/5, 4/5, ⟨1, -2, 3⟩⟩ : Iso3 ℚ) := by unfold Unit3; norm_num

/-! ## `cuboid_cuboid_find_local_separating_normal_oneway` -/

/-- the separation computed by iteration `i` of the loop over the face normals of cuboid 1 -/
def NormalSep (he1 he2 : V3 K) (m : Iso3 K) (i : Nat) : K :=
  letI := fieldNum K sq
  (m.act (cuboidLocalSupport he2 (m.invRot (((V3.zero : V3 K).set i (copySign (m.t.get i) 1)).neg)))).get i
    * copySign (m.t.get i) 1 - he1.get i

private theorem normalFold_pos (he1 he2 : V3 K) (m : Iso3 K) (l : List Nat) (init : K × V3 K) :
    letI := fieldNum K sq
    0 < (l.foldl (satNormalStep he1 he2 m) init).1 ↔ 0 < init.1 ∨ ∃ i ∈ l, 0 < NormalSep sq he1 he2 m i := by
  induction l generalizing init with
  | nil => simp
  | cons a l ih =>
    rw [List.foldl_cons, ih]
    have step : 0 < (@satNormalStep K (fieldNum K sq) he1 he2 m init a).1 ↔ 0 < init.1 ∨ 0 < NormalSep sq he1 he2 m a := by
      unfold satNormalStep NormalSep
      simp only []
      split_ifs with hb
      · constructor
        · intro hr; exact Or.inr hr
        · rintro (hi | hr)
          · exact hi.trans hb
          · exact hr
      · constructor
        · intro hi; exact Or.inl hi
        · rintro (hi | hr)
          · exact hi
          · exact lt_of_lt_of_le hr (not_lt.mp hb)
    rw [step]
    simp only [List.mem_cons, exists_eq_or_imp]
    exact or_assoc

/-- **What `find_local_separating_normal_oneway` reports**: its best separation is positive iff one of the three
face normals of cuboid 1 separates. -/
theorem satNormalOneway_pos_iff (he1 he2 : V3 K) (m : Iso3 K) :
    letI := fieldNum K sq
    0 < (satNormalOneway he1 he2 m).1 ↔
      0 < NormalSep sq he1 he2 m 0 ∨ 0 < NormalSep sq he1 he2 m 1 ∨ 0 < NormalSep sq he1 he2 m 2 := by
  unfold satNormalOneway
  rw [normalFold_pos]
  have hmax := realMax_nonneg sq (K := K)
  simp only [List.mem_cons, List.not_mem_nil, or_false, exists_eq_or_imp, exists_eq_left]
  constructor
  · rintro (hneg | hex)
    · exfalso
      have : (0 : K) < -(@realMax K (fieldNum K sq)) := hneg
      linarith
    · exact hex
  · exact Or.inr

private theorem act_dot_core (he2 : V3 K) (m : Iso3 K) (a1 : V3 K) (h : Unit3 m) :
    letI := fieldNum K sq
    (m.act (cuboidLocalSupport he2 (m.invRot a1.neg))).dot a1 = m.t.dot a1 - absDot he2 (m.invRot a1) := by
  have e4 : @Iso3.invRot K (fieldNum K sq) m (@V3.neg K (fieldNum K sq) a1)
      = @V3.neg K (fieldNum K sq) (@Iso3.invRot K (fieldNum K sq) m a1) := invRot_neg sq m a1
  rw [e4]
  have e2 := cuboidLocalSupport_dot sq he2 (@V3.neg K (fieldNum K sq) (@Iso3.invRot K (fieldNum K sq) m a1))
  have e3 := rot_dot sq m
    (@cuboidLocalSupport K (fieldNum K sq) he2 (@V3.neg K (fieldNum K sq) (@Iso3.invRot K (fieldNum K sq) m a1))) a1 h
  rw [dot_neg_right, absDot_neg] at e2
  rw [show ∀ p : V3 K, @Iso3.act K (fieldNum K sq) m p
      = @V3.add K (fieldNum K sq) (@Iso3.rot K (fieldNum K sq) m p) m.t from fun _ => rfl,
    add_dot, e3]
  linarith

/-- for the axis `s·e` with `s = ±1` -/
private theorem act_dot_s (he2 : V3 K) (m : Iso3 K) (e : V3 K) (s : K) (h : Unit3 m) (hs : s = 1 ∨ s = -1) :
    letI := fieldNum K sq
    (m.act (cuboidLocalSupport he2 (m.invRot (e.smul s).neg))).dot (e.smul s)
      = s * m.t.dot e - absDot he2 (m.invRot e) := by
  rw [act_dot_core sq he2 m _ h]
  have e5 : @Iso3.invRot K (fieldNum K sq) m (@V3.smul K (fieldNum K sq) e s)
      = @V3.smul K (fieldNum K sq) (@Iso3.invRot K (fieldNum K sq) m e) s := rotQ_smul sq _ _ e s
  rw [e5, absDot_smul sq he2 _ s hs]
  have e6 : @V3.dot K (fieldNum K sq) m.t (@V3.smul K (fieldNum K sq) e s) = s * @V3.dot K (fieldNum K sq) m.t e := by
    simp only [V3.dot, V3.smul]; ring
  rw [e6]

/-- **Closed form of the one-way face-normal separations**: iteration `i` computes
`|t_i| - he1_i - Σ|he2_k||(R⁻¹e_i)_k|`. -/
theorem normalSep_formula (he1 he2 : V3 K) (m : Iso3 K) (h : Unit3 m) :
    letI := fieldNum K sq
    NormalSep sq he1 he2 m 0 = |m.t.x| - he1.x - absDot he2 (m.invRot ⟨1, 0, 0⟩) ∧
    NormalSep sq he1 he2 m 1 = |m.t.y| - he1.y - absDot he2 (m.invRot ⟨0, 1, 0⟩) ∧
    NormalSep sq he1 he2 m 2 = |m.t.z| - he1.z - absDot he2 (m.invRot ⟨0, 0, 1⟩) := by
  have hx := copySign_mul sq m.t.x 1
  have hy := copySign_mul sq m.t.y 1
  have hz := copySign_mul sq m.t.z 1
  rw [abs_one, one_mul] at hx hy hz
  have kx := act_dot_s sq he2 m ⟨1, 0, 0⟩ (@copySign K (fieldNum K sq) m.t.x 1) h (copySign_one sq _)
  have ky := act_dot_s sq he2 m ⟨0, 1, 0⟩ (@copySign K (fieldNum K sq) m.t.y 1) h (copySign_one sq _)
  have kz := act_dot_s sq he2 m ⟨0, 0, 1⟩ (@copySign K (fieldNum K sq) m.t.z 1) h (copySign_one sq _)
  have sx : ∀ s : K, @V3.smul K (fieldNum K sq) ⟨1, 0, 0⟩ s = ⟨s, 0, 0⟩ := by
    intro s; simp only [V3.smul, one_mul, zero_mul]
  have sy : ∀ s : K, @V3.smul K (fieldNum K sq) ⟨0, 1, 0⟩ s = ⟨0, s, 0⟩ := by
    intro s; simp only [V3.smul, one_mul, zero_mul]
  have sz : ∀ s : K, @V3.smul K (fieldNum K sq) ⟨0, 0, 1⟩ s = ⟨0, 0, s⟩ := by
    intro s; simp only [V3.smul, one_mul, zero_mul]
  rw [sx] at kx; rw [sy] at ky; rw [sz] at kz
  simp only [V3.dot, mul_zero, mul_one, add_zero, zero_add] at kx ky kz
  refine ⟨?_, ?_, ?_⟩
  · show (@Iso3.act K (fieldNum K sq) m (@cuboidLocalSupport K (fieldNum K sq) he2 (@Iso3.invRot K (fieldNum K sq) m
        (@V3.neg K (fieldNum K sq) ⟨@copySign K (fieldNum K sq) m.t.x 1, 0, 0⟩)))).x * @copySign K (fieldNum K sq) m.t.x 1 - he1.x = _
    rw [kx, hx]; ring
  · show (@Iso3.act K (fieldNum K sq) m (@cuboidLocalSupport K (fieldNum K sq) he2 (@Iso3.invRot K (fieldNum K sq) m
        (@V3.neg K (fieldNum K sq) ⟨0, @copySign K (fieldNum K sq) m.t.y 1, 0⟩)))).y * @copySign K (fieldNum K sq) m.t.y 1 - he1.y = _
    rw [ky, hy]; ring
  · show (@Iso3.act K (fieldNum K sq) m (@cuboidLocalSupport K (fieldNum K sq) he2 (@Iso3.invRot K (fieldNum K sq) m
        (@V3.neg K (fieldNum K sq) ⟨0, 0, @copySign K (fieldNum K sq) m.t.z 1⟩)))).z * @copySign K (fieldNum K sq) m.t.z 1 - he1.z = _
    rw [kz, hz]; ring

/-- a direction `a` on which every point of cuboid 1 projects within `r1` and whose gap `|t·a| - r1 - r₂(R⁻¹a)` is
positive separates the cuboids -/
private theorem axis_sound (he2 : V3 K) (m : Iso3 K) (a : V3 K) (r1 : K) (h : Unit3 m) (x y : V3 K)
    (b1 : |@V3.dot K (fieldNum K sq) x a| ≤ r1)
    (hpos : 0 < |@V3.dot K (fieldNum K sq) m.t a| - r1 - absDot he2 (@Iso3.invRot K (fieldNum K sq) m a))
    (hy : @Cuboid3.Mem K (fieldNum K sq) ⟨he2⟩ y) :
    letI := fieldNum K sq
    m.act y ≠ x := by
  intro heq
  have b2 := dot_le_absDot sq he2 y (@Iso3.invRot K (fieldNum K sq) m a) hy
  have e := rot_dot sq m y a h
  have e0 : @V3.dot K (fieldNum K sq) (@Iso3.act K (fieldNum K sq) m y) a = @V3.dot K (fieldNum K sq) x a := by rw [heq]
  rw [show @Iso3.act K (fieldNum K sq) m y = @V3.add K (fieldNum K sq) (@Iso3.rot K (fieldNum K sq) m y) m.t from rfl,
    add_dot, e] at e0
  have c1 := le_abs_self (@V3.dot K (fieldNum K sq) x a)
  have c2 := neg_abs_le (@V3.dot K (fieldNum K sq) x a)
  have c3 := le_abs_self (@V3.dot K (fieldNum K sq) y (@Iso3.invRot K (fieldNum K sq) m a))
  have c4 := neg_abs_le (@V3.dot K (fieldNum K sq) y (@Iso3.invRot K (fieldNum K sq) m a))
  have c5 : |@V3.dot K (fieldNum K sq) m.t a| ≤ |@V3.dot K (fieldNum K sq) x a|
      + |@V3.dot K (fieldNum K sq) y (@Iso3.invRot K (fieldNum K sq) m a)| :=
    abs_le.mpr ⟨by linarith, by linarith⟩
  linarith

/-- **Soundness of the face-normal test**: a positive best separation proves the cuboids disjoint. -/
theorem satNormalOneway_sound (he1 he2 : V3 K) (m : Iso3 K) (h : Unit3 m)
    (hpos : 0 < (@satNormalOneway K (fieldNum K sq) he1 he2 m).1) (x y : V3 K)
    (hx : @Cuboid3.Mem K (fieldNum K sq) ⟨he1⟩ x) (hy : @Cuboid3.Mem K (fieldNum K sq) ⟨he2⟩ y) :
    letI := fieldNum K sq
    m.act y ≠ x := by
  obtain ⟨f0, f1, f2⟩ := normalSep_formula sq he1 he2 m h
  obtain ⟨⟨h1, h1'⟩, ⟨h2, h2'⟩, ⟨h3, h3'⟩⟩ := hx
  rcases (satNormalOneway_pos_iff sq he1 he2 m).mp hpos with hp | hp | hp
  · rw [f0] at hp
    refine axis_sound sq he2 m ⟨1, 0, 0⟩ he1.x h x y ?_ ?_ hy
    · simp only [V3.dot, mul_zero, mul_one, add_zero]; exact abs_le.mpr ⟨h1, h1'⟩
    · simp only [V3.dot, mul_zero, mul_one, add_zero]; exact hp
  · rw [f1] at hp
    refine axis_sound sq he2 m ⟨0, 1, 0⟩ he1.y h x y ?_ ?_ hy
    · simp only [V3.dot, mul_zero, mul_one, add_zero, zero_add]; exact abs_le.mpr ⟨h2, h2'⟩
    · simp only [V3.dot, mul_zero, mul_one, add_zero, zero_add]; exact hp
  · rw [f2] at hp
    refine axis_sound sq he2 m ⟨0, 0, 1⟩ he1.z h x y ?_ ?_ hy
    · simp only [V3.dot, mul_zero, mul_one, zero_add]; exact abs_le.mpr ⟨h3, h3'⟩
    · simp only [V3.dot, mul_zero, mul_one, zero_add]; exact hp

example : Unit3 (⟨1/2, -1/2, 1/2, 1/2, ⟨0, 7, 1/3⟩⟩ : Iso3 ℚ) ∧
    @Cuboid3.Mem ℚ (fieldNum ℚ id) ⟨⟨1, 2, 3⟩⟩ ⟨1, -2, 0⟩ := by
  unfold Unit3 Cuboid3.Mem; norm_num

end C03
