import ParryModel.Field
import ParryModel.C03.Model
import ParryModel.C03.Sat
import ParryModel.C03.Lemmas
import ParryModel.C03.Theorems2
import ParryModel.C03.Theorems3
import Mathlib.Analysis.Convex.Radon
/-!
# C03 theorems, part 4: completeness of the FIFTEEN axes for two cuboids (3-D), in general position.

A cuboid is the intersection of three slabs; two cuboids meet iff six slabs of `K³` have a common point; by Helly's theorem
this holds as soon as every FOUR of the six slabs do.  The fifteen quadruples are

* `6 = 3 + 3`: all three slabs of one cuboid and one slab of the other — "cuboid B meets the slab `|x_k| ≤ a_k`" —
  which is exactly the face-normal condition of axis `e_k` (resp. `R e_l`);
* `9 = 3 × 3`: two slabs of A (an infinite prism along `e_k`) and two slabs of B (an infinite prism along `R e_l`):
  when `e_k × R e_l ≠ 0` the prisms meet iff that cross product does not separate them — the edge/edge condition.

So the fifteen SAT axes are in one-to-one correspondence with the fifteen Helly quadruples.
`intersectionTestCuboidCuboid_true_partial`: if the code answers `true` and every one of the nine candidate edge
axes is actually tested (`norm > f64::EPSILON`; no edge of one cuboid parallel, or within EPSILON of parallel, to an
edge of the other), the cuboids share a point.  The gap (parallel edges: the code skips the axis, and the prisms then
meet by the 2-D theorem applied to the cross-section) is named in `intersectionTestCuboidCuboid_true_full`.
-/
namespace C03
open Model Model.CC

variable {K : Type} [Field K] [LinearOrder K] [IsStrictOrderedRing K] (sq : K → K)

/-! ## Pure geometry in `K³` -/

/-- every value within the support range of the box `[-a1,a1]×[-a2,a2]×[-a3,a3]` along `(c1,c2,c3)` is attained -/
private theorem box_attains (a1 a2 a3 c1 c2 c3 τ : K) (ha1 : 0 ≤ a1) (ha2 : 0 ≤ a2) (ha3 : 0 ≤ a3)
    (hτ : |τ| ≤ a1 * |c1| + a2 * |c2| + a3 * |c3|) :
    ∃ x y z : K, |x| ≤ a1 ∧ |y| ≤ a2 ∧ |z| ≤ a3 ∧ c1 * x + c2 * y + c3 * z = τ := by
  set h := a1 * |c1| + a2 * |c2| + a3 * |c3| with hh
  have hh0 : 0 ≤ h := by positivity
  rcases eq_or_lt_of_le hh0 with h0 | hpos
  · refine ⟨0, 0, 0, by simpa using ha1, by simpa using ha2, by simpa using ha3, ?_⟩
    have : |τ| ≤ 0 := by rw [h0]; exact hτ
    have : τ = 0 := abs_nonpos_iff.mp this
    simp [this]
  · have sgn : ∀ c : K, ∃ σ : K, |σ| = 1 ∧ c * σ = |c| := by
      intro c
      rcases le_total 0 c with hc | hc
      · exact ⟨1, abs_one, by rw [abs_of_nonneg hc]; ring⟩
      · exact ⟨-1, by simp, by rw [abs_of_nonpos hc]; ring⟩
    obtain ⟨σ1, h11, h12⟩ := sgn c1
    obtain ⟨σ2, h21, h22⟩ := sgn c2
    obtain ⟨σ3, h31, h32⟩ := sgn c3
    have hθ : |τ / h| ≤ 1 := by
      rw [abs_div, abs_of_pos hpos]; exact (div_le_one hpos).mpr hτ
    refine ⟨τ / h * a1 * σ1, τ / h * a2 * σ2, τ / h * a3 * σ3, ?_, ?_, ?_, ?_⟩
    · rw [abs_mul, abs_mul, h11, mul_one, abs_of_nonneg ha1]; exact mul_le_of_le_one_left ha1 hθ
    · rw [abs_mul, abs_mul, h21, mul_one, abs_of_nonneg ha2]; exact mul_le_of_le_one_left ha2 hθ
    · rw [abs_mul, abs_mul, h31, mul_one, abs_of_nonneg ha3]; exact mul_le_of_le_one_left ha3 hθ
    · have : c1 * (τ / h * a1 * σ1) + c2 * (τ / h * a2 * σ2) + c3 * (τ / h * a3 * σ3)
          = τ / h * (a1 * (c1 * σ1) + a2 * (c2 * σ2) + a3 * (c3 * σ3)) := by ring
      rw [this, h12, h22, h32, ← hh]
      exact div_mul_cancel₀ _ (ne_of_gt hpos)

/-- the clamp of `d` to `[-h, h]` is within `b` of `d` when `|d| ≤ b + h` -/
private theorem clamp_close (d h b : K) (hh0 : 0 ≤ h) (hb : 0 ≤ b) (hd : |d| ≤ b + h) :
    |max (-h) (min d h)| ≤ h ∧ |max (-h) (min d h) - d| ≤ b := by
  rw [abs_le] at hd
  constructor
  · rw [abs_le]; exact ⟨le_max_left _ _, max_le (by linarith) (min_le_right _ _)⟩
  · rw [abs_le]
    rcases le_total d h with h1 | h1
    · rw [min_eq_left h1]
      rcases le_total (-h) d with h2 | h2
      · rw [max_eq_right h2]; constructor <;> linarith
      · rw [max_eq_left h2]; constructor <;> linarith
    · rw [min_eq_right h1, max_eq_right (by linarith)]; constructor <;> linarith

/-- a box meets the slab `|c·x - d| ≤ b` as soon as the axis `c` does not separate them -/
private theorem box_meets_slab (a1 a2 a3 c1 c2 c3 d b : K) (ha1 : 0 ≤ a1) (ha2 : 0 ≤ a2) (ha3 : 0 ≤ a3) (hb : 0 ≤ b)
    (hd : |d| ≤ b + (a1 * |c1| + a2 * |c2| + a3 * |c3|)) :
    ∃ x y z : K, |x| ≤ a1 ∧ |y| ≤ a2 ∧ |z| ≤ a3 ∧ |c1 * x + c2 * y + c3 * z - d| ≤ b := by
  have hh0 : 0 ≤ a1 * |c1| + a2 * |c2| + a3 * |c3| := by positivity
  obtain ⟨k1, k2⟩ := clamp_close d _ b hh0 hb hd
  obtain ⟨x, y, z, hx, hy, hz, hxyz⟩ := box_attains a1 a2 a3 c1 c2 c3 _ ha1 ha2 ha3 k1
  exact ⟨x, y, z, hx, hy, hz, by rw [hxyz]; exact k2⟩

/-- a slab of `K³` is convex -/
private theorem convex_slab3 (α β γ δ r : K) :
    Convex K {p : Fin 3 → K | |α * p 0 + β * p 1 + γ * p 2 + δ| ≤ r} := by
  intro x hx y hy a b ha hb hab
  simp only [Set.mem_ofPred_eq, abs_le, Pi.add_apply, Pi.smul_apply, smul_eq_mul] at hx hy ⊢
  have e : α * (a * x 0 + b * y 0) + β * (a * x 1 + b * y 1) + γ * (a * x 2 + b * y 2) + δ
      = a * (α * x 0 + β * x 1 + γ * x 2 + δ) + b * (α * y 0 + β * y 1 + γ * y 2 + δ) := by
    have : δ = (a + b) * δ := by rw [hab, one_mul]
    linear_combination this
  rw [e]
  constructor
  · nlinarith [mul_le_mul_of_nonneg_left hx.1 ha, mul_le_mul_of_nonneg_left hy.1 hb]
  · nlinarith [mul_le_mul_of_nonneg_left hx.2 ha, mul_le_mul_of_nonneg_left hy.2 hb]

/-- **Helly for the six slabs of two cuboids**: the fifteen quadruples are grouped as `3 + 3 + 9`. -/
private theorem helly6_space (F : Fin 3 ⊕ Fin 3 → Set (Fin 3 → K)) (hconv : ∀ i, Convex K (F i))
    (hA : ∀ k, ∃ p, p ∈ F (.inl k) ∧ ∀ l, p ∈ F (.inr l))
    (hB : ∀ l, ∃ p, p ∈ F (.inr l) ∧ ∀ k, p ∈ F (.inl k))
    (hE : ∀ k l, ∃ p, (∀ k', k' ≠ k → p ∈ F (.inl k')) ∧ (∀ l', l' ≠ l → p ∈ F (.inr l'))) :
    ∃ p, ∀ i, p ∈ F i := by
  have hfr : Module.finrank K (Fin 3 → K) = 3 := by simp
  have third : ∀ k1 k2 : Fin 3, k1 ≠ k2 → ∃ k3, ∀ k, k ≠ k1 → k ≠ k2 → k = k3 := by decide
  have := Convex.helly_theorem' (𝕜 := K) (F := F) (s := Finset.univ) (fun i _ => hconv i) (by
    intro I _ hcard
    rw [hfr] at hcard
    have hc : 1 < (Finset.univ \ I).card := by
      have h6 : (Finset.univ : Finset (Fin 3 ⊕ Fin 3)).card = 6 := by decide
      have := Finset.card_sdiff_add_card_eq_card (Finset.subset_univ I)
      omega
    obtain ⟨j, hj, j', hj', hne⟩ := Finset.one_lt_card.mp hc
    have hj : j ∉ I := (Finset.mem_sdiff.mp hj).2
    have hj' : j' ∉ I := (Finset.mem_sdiff.mp hj').2
    -- pick the witness of the quadruple that omits j and j'
    have key : ∃ p, ∀ i, i ≠ j → i ≠ j' → p ∈ F i := by
      rcases j with k1 | l1 <;> rcases j' with k2 | l2
      · obtain ⟨k3, h3⟩ := third k1 k2 (fun h => hne (by rw [h]))
        obtain ⟨p, hp1, hp2⟩ := hA k3
        refine ⟨p, ?_⟩
        rintro (k | l) h1 h2
        · have : k = k3 := h3 k (fun h => h1 (by rw [h])) (fun h => h2 (by rw [h]))
          rw [this]; exact hp1
        · exact hp2 l
      · obtain ⟨p, hp1, hp2⟩ := hE k1 l2
        refine ⟨p, ?_⟩
        rintro (k | l) h1 h2
        · exact hp1 k (fun h => h1 (by rw [h]))
        · exact hp2 l (fun h => h2 (by rw [h]))
      · obtain ⟨p, hp1, hp2⟩ := hE k2 l1
        refine ⟨p, ?_⟩
        rintro (k | l) h1 h2
        · exact hp1 k (fun h => h2 (by rw [h]))
        · exact hp2 l (fun h => h1 (by rw [h]))
      · obtain ⟨l3, h3⟩ := third l1 l2 (fun h => hne (by rw [h]))
        obtain ⟨p, hp1, hp2⟩ := hB l3
        refine ⟨p, ?_⟩
        rintro (k | l) h1 h2
        · exact hp2 k
        · have : l = l3 := h3 l (fun h => h1 (by rw [h])) (fun h => h2 (by rw [h]))
          rw [this]; exact hp1
    obtain ⟨p, hp⟩ := key
    exact ⟨p, Set.mem_iInter₂.mpr fun i hi =>
      hp i (ne_of_mem_of_not_mem hi hj) (ne_of_mem_of_not_mem hi hj')⟩)
  obtain ⟨p, hp⟩ := this
  exact ⟨p, fun i => (Set.mem_iInter₂.mp hp) i (Finset.mem_univ i)⟩

/-! ## Two infinite prisms with non-parallel axes -/

/-- **Two infinite prisms whose axes `e`, `f` are not parallel meet iff `e × f` does not separate them** (the `←`
direction).  Prism 1 is `{p | |p·u1| ≤ α1, |p·u2| ≤ α2}` (axis `e ⟂ u1, u2`), prism 2 is
`{p | |(p-t)·v1| ≤ β1, |(p-t)·v2| ≤ β2}` (axis `f ⟂ v1, v2`). -/
private theorem prisms_meet_abs (e u1 u2 f v1 v2 t : V3 K) (α1 α2 β1 β2 : K)
    (hα1 : 0 ≤ α1) (hα2 : 0 ≤ α2) (hβ1 : 0 ≤ β1) (hβ2 : 0 ≤ β2) :
    letI := fieldNum K sq
    e.dot u1 = 0 → e.dot u2 = 0 → u1.dot u1 = 1 → u2.dot u2 = 1 → u1.dot u2 = 0 →
    f.dot v1 = 0 → f.dot v2 = 0 → v1.dot v1 = 1 → v2.dot v2 = 1 → v1.dot v2 = 0 →
    (e.cross f).dot (e.cross f) ≠ 0 →
    |t.dot (e.cross f)| ≤ (α1 * |u1.dot (e.cross f)| + α2 * |u2.dot (e.cross f)|)
        + (β1 * |v1.dot (e.cross f)| + β2 * |v2.dot (e.cross f)|) →
    ∃ p : V3 K, |p.dot u1| ≤ α1 ∧ |p.dot u2| ≤ α2 ∧ |(p.sub t).dot v1| ≤ β1 ∧ |(p.sub t).dot v2| ≤ β2 := by
  intro eu1 eu2 u11 u22 u12 fv1 fv2 v11 v22 v12 hn H
  set n := @V3.cross K (fieldNum K sq) e f with hndef
  have hA0 : 0 ≤ α1 * |@V3.dot K (fieldNum K sq) u1 n| + α2 * |@V3.dot K (fieldNum K sq) u2 n| := by positivity
  have hB0 : 0 ≤ β1 * |@V3.dot K (fieldNum K sq) v1 n| + β2 * |@V3.dot K (fieldNum K sq) v2 n| := by positivity
  obtain ⟨k1, k2⟩ := clamp_close (@V3.dot K (fieldNum K sq) t n) _ _ hA0 hB0 (by linarith [H])
  set τa := max (-(α1 * |@V3.dot K (fieldNum K sq) u1 n| + α2 * |@V3.dot K (fieldNum K sq) u2 n|))
    (min (@V3.dot K (fieldNum K sq) t n) (α1 * |@V3.dot K (fieldNum K sq) u1 n| + α2 * |@V3.dot K (fieldNum K sq) u2 n|))
    with hτa
  obtain ⟨x1, x2, _, hx1, hx2, _, hxa⟩ := box_attains α1 α2 0 (@V3.dot K (fieldNum K sq) u1 n)
    (@V3.dot K (fieldNum K sq) u2 n) 0 τa hα1 hα2 le_rfl (by simpa using k1)
  obtain ⟨y1, y2, _, hy1, hy2, _, hyb⟩ := box_attains β1 β2 0 (@V3.dot K (fieldNum K sq) v1 n)
    (@V3.dot K (fieldNum K sq) v2 n) 0 (τa - @V3.dot K (fieldNum K sq) t n) hβ1 hβ2 le_rfl (by simpa using k2)
  simp only [zero_mul, add_zero] at hxa hyb
  clear_value τa
  clear k1 k2 H hA0 hB0 hτa
  rw [hndef] at hn hxa hyb
  clear_value n
  clear hndef n
  obtain ⟨ex, ey, ez⟩ := e; obtain ⟨fx, fy, fz⟩ := f; obtain ⟨tx, ty, tz⟩ := t
  obtain ⟨u1x, u1y, u1z⟩ := u1; obtain ⟨u2x, u2y, u2z⟩ := u2
  obtain ⟨v1x, v1y, v1z⟩ := v1; obtain ⟨v2x, v2y, v2z⟩ := v2
  simp only [V3.dot, V3.cross, V3.sub] at *
  -- w = qb - qa
  set wx := tx + y1 * v1x + y2 * v2x - (x1 * u1x + x2 * u2x) with hwx
  set wy := ty + y1 * v1y + y2 * v2y - (x1 * u1y + x2 * u2y) with hwy
  set wz := tz + y1 * v1z + y2 * v2z - (x1 * u1z + x2 * u2z) with hwz
  set nx := ey * fz - ez * fy with hnx
  set ny := ez * fx - ex * fz with hny
  set nz := ex * fy - ey * fx with hnz
  have wn : wx * nx + wy * ny + wz * nz = 0 := by
    rw [hwx, hwy, hwz]; linear_combination hyb - hxa
  set N := nx * nx + ny * ny + nz * nz with hN
  set L := (wx * ex + wy * ey + wz * ez) * (fx * fx + fy * fy + fz * fz)
    - (ex * fx + ey * fy + ez * fz) * (wx * fx + wy * fy + wz * fz) with hL
  set M := (wx * fx + wy * fy + wz * fz) * (ex * ex + ey * ey + ez * ez)
    - (ex * fx + ey * fy + ez * fz) * (wx * ex + wy * ey + wz * ez) with hM
  have Ax : N * wx = L * ex + M * fx := by
    have : N * wx = L * ex + M * fx + (wx * nx + wy * ny + wz * nz) * nx := by
      rw [hN, hL, hM, hnx, hny, hnz]; ring
    rw [this, wn]; ring
  have Ay : N * wy = L * ey + M * fy := by
    have : N * wy = L * ey + M * fy + (wx * nx + wy * ny + wz * nz) * ny := by
      rw [hN, hL, hM, hnx, hny, hnz]; ring
    rw [this, wn]; ring
  have Az : N * wz = L * ez + M * fz := by
    have : N * wz = L * ez + M * fz + (wx * nx + wy * ny + wz * nz) * nz := by
      rw [hN, hL, hM, hnx, hny, hnz]; ring
    rw [this, wn]; ring
  clear_value L M
  have Bx : wx = L / N * ex + M / N * fx := by field_simp; linear_combination Ax
  have By : wy = L / N * ey + M / N * fy := by field_simp; linear_combination Ay
  have Bz : wz = L / N * ez + M / N * fz := by field_simp; linear_combination Az
  set lam := L / N with hlam
  set mu := M / N with hmu
  clear_value lam mu
  refine ⟨⟨x1 * u1x + x2 * u2x + lam * ex, x1 * u1y + x2 * u2y + lam * ey, x1 * u1z + x2 * u2z + lam * ez⟩, ?_, ?_, ?_, ?_⟩
  · have : (x1 * u1x + x2 * u2x + lam * ex) * u1x + (x1 * u1y + x2 * u2y + lam * ey) * u1y
        + (x1 * u1z + x2 * u2z + lam * ez) * u1z = x1 := by
      linear_combination x1 * u11 + x2 * u12 + lam * eu1
    rw [this]; exact hx1
  · have : (x1 * u1x + x2 * u2x + lam * ex) * u2x + (x1 * u1y + x2 * u2y + lam * ey) * u2y
        + (x1 * u1z + x2 * u2z + lam * ez) * u2z = x2 := by
      linear_combination x1 * u12 + x2 * u22 + lam * eu2
    rw [this]; exact hx2
  · have : (x1 * u1x + x2 * u2x + lam * ex - tx) * v1x + (x1 * u1y + x2 * u2y + lam * ey - ty) * v1y
        + (x1 * u1z + x2 * u2z + lam * ez - tz) * v1z = y1 := by
      rw [hwx] at Bx; rw [hwy] at By; rw [hwz] at Bz
      linear_combination y1 * v11 + y2 * v12 - mu * fv1 - v1x * Bx - v1y * By - v1z * Bz
    rw [this]; exact hy1
  · have : (x1 * u1x + x2 * u2x + lam * ex - tx) * v2x + (x1 * u1y + x2 * u2y + lam * ey - ty) * v2y
        + (x1 * u1z + x2 * u2z + lam * ez - tz) * v2z = y2 := by
      rw [hwx] at Bx; rw [hwy] at By; rw [hwz] at Bz
      linear_combination y1 * v12 + y2 * v22 - mu * fv2 - v2x * Bx - v2y * By - v2z * Bz
    rw [this]; exact hy2

/-! ## Two infinite prisms with parallel axes -/

/-- **Two infinite prisms with parallel axes meet as soon as none of their four face normals separates them**: the
planar theorem `rect_rect_complete` applied to the cross-sections.  `(e, u1, u2)` is an orthonormal basis (Parseval
identity `hpar`), `f ∥ e` (`f ⟂ u1, u2`), `(f, v1, v2)` orthonormal.  The terms with `α0`, `β0` vanish. -/
private theorem prisms_meet_par (e u1 u2 f v1 v2 t : V3 K) (α0 α1 α2 β0 β1 β2 : K)
    (hα1 : 0 ≤ α1) (hα2 : 0 ≤ α2) (hβ1 : 0 ≤ β1) (hβ2 : 0 ≤ β2) :
    letI := fieldNum K sq
    (∀ a b : V3 K, a.dot b = a.dot e * b.dot e + a.dot u1 * b.dot u1 + a.dot u2 * b.dot u2) →
    f.dot u1 = 0 → f.dot u2 = 0 → f.dot f = 1 →
    f.dot v1 = 0 → f.dot v2 = 0 → v1.dot v1 = 1 → v2.dot v2 = 1 → v1.dot v2 = 0 →
    |t.dot u1| ≤ α1 + (β0 * |f.dot u1| + β1 * |v1.dot u1| + β2 * |v2.dot u1|) →
    |t.dot u2| ≤ α2 + (β0 * |f.dot u2| + β1 * |v1.dot u2| + β2 * |v2.dot u2|) →
    |t.dot v1| ≤ β1 + (α0 * |v1.dot e| + α1 * |v1.dot u1| + α2 * |v1.dot u2|) →
    |t.dot v2| ≤ β2 + (α0 * |v2.dot e| + α1 * |v2.dot u1| + α2 * |v2.dot u2|) →
    ∃ p : V3 K, |p.dot u1| ≤ α1 ∧ |p.dot u2| ≤ α2 ∧ |(p.sub t).dot v1| ≤ β1 ∧ |(p.sub t).dot v2| ≤ β2 := by
  intro hpar fu1 fu2 ff fv1 fv2 v11 v22 v12 H1 H2 H3 H4
  have fe2 : @V3.dot K (fieldNum K sq) f e * @V3.dot K (fieldNum K sq) f e = 1 := by
    have := hpar f f; rw [ff, fu1, fu2] at this; linarith
  have fe0 : @V3.dot K (fieldNum K sq) f e ≠ 0 := by
    intro h0; rw [h0] at fe2; simp at fe2
  have v1e : @V3.dot K (fieldNum K sq) v1 e = 0 := by
    have := hpar f v1; rw [fv1, fu1, fu2] at this
    have : @V3.dot K (fieldNum K sq) f e * @V3.dot K (fieldNum K sq) v1 e = 0 := by linarith
    exact (mul_eq_zero.mp this).resolve_left fe0
  have v2e : @V3.dot K (fieldNum K sq) v2 e = 0 := by
    have := hpar f v2; rw [fv2, fu1, fu2] at this
    have : @V3.dot K (fieldNum K sq) f e * @V3.dot K (fieldNum K sq) v2 e = 0 := by linarith
    exact (mul_eq_zero.mp this).resolve_left fe0
  set c := @V3.dot K (fieldNum K sq) v1 u1 with hc
  set s := @V3.dot K (fieldNum K sq) v1 u2 with hs
  set a := @V3.dot K (fieldNum K sq) v2 u1 with ha
  set b := @V3.dot K (fieldNum K sq) v2 u2 with hb
  set t1 := @V3.dot K (fieldNum K sq) t u1 with ht1
  set t2 := @V3.dot K (fieldNum K sq) t u2 with ht2
  have cs : c * c + s * s = 1 := by have := hpar v1 v1; rw [v11, v1e] at this; linarith
  have ab : a * a + b * b = 1 := by have := hpar v2 v2; rw [v22, v2e] at this; linarith
  have acbs : c * a + s * b = 0 := by have := hpar v1 v2; rw [v12, v1e, v2e] at this; linarith
  have tv1 : @V3.dot K (fieldNum K sq) t v1 = c * t1 + s * t2 := by
    have := hpar t v1; rw [v1e] at this; rw [this]; ring
  have tv2 : @V3.dot K (fieldNum K sq) t v2 = a * t1 + b * t2 := by
    have := hpar t v2; rw [v2e] at this; rw [this]; ring
  set σ := b * c - a * s with hσ
  have σ2 : σ * σ = 1 := by rw [hσ]; linear_combination (a * a + b * b) * cs + ab - (a * c + b * s) * acbs
  have ea : a = -(σ * s) := by rw [hσ]; linear_combination c * acbs - a * cs
  have eb : b = σ * c := by rw [hσ]; linear_combination s * acbs - b * cs
  have aσ : |σ| = 1 := by
    rcases mul_self_eq_one_iff.mp σ2 with h | h <;> rw [h] <;> simp
  have absa : |a| = |s| := by rw [ea, abs_neg, abs_mul, aσ, one_mul]
  have absb : |b| = |c| := by rw [eb, abs_mul, aσ, one_mul]
  rw [fu1, abs_zero, mul_zero, zero_add, absa] at H1
  rw [fu2, abs_zero, mul_zero, zero_add, absb] at H2
  rw [v1e, abs_zero, mul_zero, zero_add, tv1] at H3
  rw [v2e, abs_zero, mul_zero, zero_add, tv2, absa, absb] at H4
  have H4' : |-s * t1 + c * t2| ≤ β2 + (α1 * |s| + α2 * |c|) := by
    have : a * t1 + b * t2 = σ * (-s * t1 + c * t2) := by rw [ea, eb]; ring
    rw [this, abs_mul, aσ, one_mul] at H4; exact H4
  obtain ⟨y1, y2, k1, k2, k3, k4⟩ := rect_rect_complete α1 α2 β1 β2 c s t1 t2 hα1 hα2 hβ1 hβ2 cs H1 H2 H3 H4'
  have lin : ∀ (w : V3 K), @V3.dot K (fieldNum K sq)
      (@V3.add K (fieldNum K sq) (@V3.add K (fieldNum K sq) t (@V3.smul K (fieldNum K sq) v1 y1))
        (@V3.smul K (fieldNum K sq) v2 (σ * y2))) w
      = @V3.dot K (fieldNum K sq) t w + y1 * @V3.dot K (fieldNum K sq) v1 w
        + σ * y2 * @V3.dot K (fieldNum K sq) v2 w := by
    intro w; simp only [V3.dot, V3.add, V3.smul]; ring
  have lin2 : ∀ (w : V3 K), @V3.dot K (fieldNum K sq) (@V3.sub K (fieldNum K sq)
      (@V3.add K (fieldNum K sq) (@V3.add K (fieldNum K sq) t (@V3.smul K (fieldNum K sq) v1 y1))
        (@V3.smul K (fieldNum K sq) v2 (σ * y2))) t) w
      = y1 * @V3.dot K (fieldNum K sq) v1 w + σ * y2 * @V3.dot K (fieldNum K sq) v2 w := by
    intro w; simp only [V3.dot, V3.add, V3.sub, V3.smul]; ring
  have v21 : @V3.dot K (fieldNum K sq) v2 v1 = 0 := by
    rw [← v12]; simp only [V3.dot]; ring
  refine ⟨@V3.add K (fieldNum K sq) (@V3.add K (fieldNum K sq) t (@V3.smul K (fieldNum K sq) v1 y1))
        (@V3.smul K (fieldNum K sq) v2 (σ * y2)), ?_, ?_, ?_, ?_⟩
  · rw [lin u1, ← ht1, ← hc, ← ha]
    have : t1 + y1 * c + σ * y2 * a = t1 + (c * y1 - s * y2) := by rw [ea]; linear_combination (-(y2 * s)) * σ2
    rw [this]; exact k3
  · rw [lin u2, ← ht2, ← hs, ← hb]
    have : t2 + y1 * s + σ * y2 * b = t2 + (s * y1 + c * y2) := by rw [eb]; linear_combination (y2 * c) * σ2
    rw [this]; exact k4
  · rw [lin2 v1, v11, v21]; simpa using k1
  · rw [lin2 v2, v12, v22]
    have : y1 * 0 + σ * y2 * 1 = σ * y2 := by ring
    rw [this, abs_mul, aσ, one_mul]; exact k2

/-! ## The two cuboids of the model -/

/-- canonical basis vector `e_k` -/
def bv (k : Fin 3) : V3 K := ![⟨1, 0, 0⟩, ⟨0, 1, 0⟩, ⟨0, 0, 1⟩] k
/-- component `k` of a vector -/
def comp (v : V3 K) (k : Fin 3) : K := ![v.x, v.y, v.z] k

/-- the two cuboids, the second posed by `pos12`, share a point -/
def CuboidsMeet (he1 he2 : V3 K) (m : Iso3 K) : Prop :=
  letI := fieldNum K sq
  ∃ y : V3 K, Cuboid3.Mem ⟨he2⟩ y ∧ Cuboid3.Mem ⟨he1⟩ (m.act y)

/-- the infinite prism of cuboid 1 along `e_k` (slab `k` dropped) meets the infinite prism of cuboid 2 along its
edge direction `l` (slab `l` of cuboid 2 dropped) -/
def PrismsMeet (he1 he2 : V3 K) (m : Iso3 K) (k l : Fin 3) : Prop :=
  letI := fieldNum K sq
  ∃ p : V3 K, (∀ k', k' ≠ k → |comp p k'| ≤ comp he1 k') ∧ (∀ l', l' ≠ l → |comp (m.invAct p) l'| ≤ comp he2 l')

private theorem comp_dot (v : V3 K) (k : Fin 3) :
    letI := fieldNum K sq
    comp v k = v.dot (bv k) := by
  fin_cases k <;> simp [comp, bv, V3.dot]

private theorem bv_dot (k l : Fin 3) :
    letI := fieldNum K sq
    (bv k : V3 K).dot (bv l) = if k = l then 1 else 0 := by
  fin_cases k <;> fin_cases l <;> simp [bv, V3.dot]

private theorem rot_dot_rot (m : Iso3 K) (u v : V3 K) (h : Unit3 m) :
    letI := fieldNum K sq
    (m.rot u).dot (m.rot v) = u.dot v := rotQ_dot sq ⟨m.qi, m.qj, m.qk⟩ m.qw u v h

private theorem invRot_dot_rot (m : Iso3 K) (u v : V3 K) (h : Unit3 m) :
    letI := fieldNum K sq
    (m.invRot u).dot v = u.dot (m.rot v) := by
  have e := rot_dot_rot sq m (@Iso3.invRot K (fieldNum K sq) m u) v h
  rw [rot_invRot sq m u h] at e
  exact e.symm

private theorem rot_dot_invRot (m : Iso3 K) (u v : V3 K) (h : Unit3 m) :
    letI := fieldNum K sq
    (m.rot u).dot v = u.dot (m.invRot v) := by
  have e := rot_dot_rot sq m u (@Iso3.invRot K (fieldNum K sq) m v) h
  rw [rot_invRot sq m v h] at e
  exact e

private theorem frame_dot (m : Iso3 K) (k l : Fin 3) (h : Unit3 m) :
    letI := fieldNum K sq
    (m.rot (bv k)).dot (m.rot (bv l)) = if k = l then 1 else 0 := by
  rw [rot_dot_rot sq m _ _ h]; exact bv_dot sq k l

/-- component `l` of `pos12⁻¹ p` is the projection of `p - t` on the `l`-th edge direction of cuboid 2 -/
private theorem invAct_comp (m : Iso3 K) (p : V3 K) (l : Fin 3) (h : Unit3 m) :
    letI := fieldNum K sq
    comp (m.invAct p) l = (p.sub m.t).dot (m.rot (bv l)) := by
  rw [comp_dot sq]
  exact invRot_dot_rot sq m _ _ h

private theorem invAct_act (m : Iso3 K) (y : V3 K) (h : Unit3 m) :
    letI := fieldNum K sq
    m.invAct (m.act y) = y := by
  have e := invRot_rot sq m y h
  have : @V3.sub K (fieldNum K sq) (@Iso3.act K (fieldNum K sq) m y) m.t = @Iso3.rot K (fieldNum K sq) m y := by
    simp only [Iso3.act, V3.add, V3.sub, add_sub_cancel_right]
  show @Iso3.invRot K (fieldNum K sq) m (@V3.sub K (fieldNum K sq) (@Iso3.act K (fieldNum K sq) m y) m.t) = y
  rw [this]; exact e

private theorem absDot_comp (he w : V3 K) (hh : ∀ k, 0 ≤ comp he k) :
    absDot he w = comp he 0 * |comp w 0| + comp he 1 * |comp w 1| + comp he 2 * |comp w 2| := by
  have h0 := hh 0; have h1 := hh 1; have h2 := hh 2
  simp [comp] at h0 h1 h2 ⊢
  rw [absDot, abs_of_nonneg h0, abs_of_nonneg h1, abs_of_nonneg h2]

private theorem split3 (a c : Fin 3 → K) (k : Fin 3) (hk : c k = 0) :
    a 0 * |c 0| + a 1 * |c 1| + a 2 * |c 2| = a (k + 1) * |c (k + 1)| + a (k + 2) * |c (k + 2)| := by
  revert hk
  fin_cases k <;> intro hk <;> simp at hk ⊢ <;> rw [hk] <;> simp <;> ring

private theorem fin3_ne : ∀ k : Fin 3, k ≠ k + 1 ∧ k ≠ k + 2 ∧ k + 1 ≠ k + 2 := by decide

private theorem other_two : ∀ k k' : Fin 3, k' ≠ k → k' = k + 1 ∨ k' = k + 2 := by decide

/-- the face-normal condition of axis `e_k` of cuboid 1 -/
def FaceA (he1 he2 : V3 K) (m : Iso3 K) (k : Fin 3) : Prop :=
  letI := fieldNum K sq
  |comp m.t k| ≤ comp he1 k + absDot he2 (m.invRot (bv k))
/-- the face-normal condition of axis `pos12·e_l` of cuboid 2 -/
def FaceB (he1 he2 : V3 K) (m : Iso3 K) (l : Fin 3) : Prop :=
  letI := fieldNum K sq
  |m.t.dot (m.rot (bv l))| ≤ comp he2 l + absDot he1 (m.rot (bv l))
/-- the axis `a` does not separate the cuboids -/
def AxisOverlap (he1 he2 : V3 K) (m : Iso3 K) (a : V3 K) : Prop :=
  letI := fieldNum K sq
  |m.t.dot a| ≤ absDot he1 a + absDot he2 (m.invRot a)

/-- **The Helly reduction for two cuboids**: if none of the six face normals separates and each of the nine pairs of
infinite prisms meets, the cuboids share a point. -/
theorem cuboids_meet_of_quadruples (m : Iso3 K) (he1 he2 : V3 K) (h : Unit3 m)
    (h1 : ∀ k, 0 ≤ comp he1 k) (h2 : ∀ l, 0 ≤ comp he2 l)
    (HA : ∀ k, FaceA sq he1 he2 m k) (HB : ∀ l, FaceB sq he1 he2 m l)
    (HE : ∀ k l, PrismsMeet sq he1 he2 m k l) : CuboidsMeet sq he1 he2 m := by
  let fl : Fin 3 → V3 K := fun l => @Iso3.rot K (fieldNum K sq) m (bv l)
  let toV : (Fin 3 → K) → V3 K := fun p => ⟨p 0, p 1, p 2⟩
  let F : Fin 3 ⊕ Fin 3 → Set (Fin 3 → K) := fun i => match i with
    | .inl k => {p | |(bv k : V3 K).x * p 0 + (bv k : V3 K).y * p 1 + (bv k : V3 K).z * p 2 + 0| ≤ comp he1 k}
    | .inr l => {p | |(fl l).x * p 0 + (fl l).y * p 1 + (fl l).z * p 2
        + (-(@V3.dot K (fieldNum K sq) m.t (fl l)))| ≤ comp he2 l}
  have hconv : ∀ i, Convex K (F i) := by
    rintro (k | l) <;> exact convex_slab3 _ _ _ _ _
  have memA : ∀ (p : Fin 3 → K) (k : Fin 3), p ∈ F (.inl k) ↔ |comp (toV p) k| ≤ comp he1 k := by
    intro p k
    show |(bv k : V3 K).x * p 0 + (bv k : V3 K).y * p 1 + (bv k : V3 K).z * p 2 + 0| ≤ comp he1 k ↔ _
    have : (bv k : V3 K).x * p 0 + (bv k : V3 K).y * p 1 + (bv k : V3 K).z * p 2 + 0
        = @V3.dot K (fieldNum K sq) (toV p) (bv k) := by
      simp only [V3.dot, toV]; ring
    rw [this, ← comp_dot sq (toV p) k]
  have memB : ∀ (p : Fin 3 → K) (l : Fin 3), p ∈ F (.inr l) ↔
      |comp (@Iso3.invAct K (fieldNum K sq) m (toV p)) l| ≤ comp he2 l := by
    intro p l
    show |(fl l).x * p 0 + (fl l).y * p 1 + (fl l).z * p 2 + (-(@V3.dot K (fieldNum K sq) m.t (fl l)))| ≤ comp he2 l ↔ _
    rw [invAct_comp sq m _ l h]
    have : (fl l).x * p 0 + (fl l).y * p 1 + (fl l).z * p 2 + (-(@V3.dot K (fieldNum K sq) m.t (fl l)))
        = @V3.dot K (fieldNum K sq) (@V3.sub K (fieldNum K sq) (toV p) m.t) (fl l) := by
      simp only [V3.dot, V3.sub, toV]; ring
    rw [this]
  have ofV : ∀ v : V3 K, toV (fun i => comp v i) = v := by
    intro v; simp [toV, comp]
  -- cuboid 2 meets slab k of cuboid 1
  have hA : ∀ k, ∃ p, p ∈ F (.inl k) ∧ ∀ l, p ∈ F (.inr l) := by
    intro k
    have HAk := HA k
    unfold FaceA at HAk
    rw [absDot_comp he2 _ h2] at HAk
    obtain ⟨y0, y1, y2, b0, b1, b2, hs⟩ := box_meets_slab (comp he2 0) (comp he2 1) (comp he2 2)
      (comp (@Iso3.invRot K (fieldNum K sq) m (bv k)) 0) (comp (@Iso3.invRot K (fieldNum K sq) m (bv k)) 1)
      (comp (@Iso3.invRot K (fieldNum K sq) m (bv k)) 2) (-(comp m.t k)) (comp he1 k) (h2 0) (h2 1) (h2 2) (h1 k)
      (by rw [abs_neg]; exact HAk)
    refine ⟨fun i => comp (@Iso3.act K (fieldNum K sq) m ⟨y0, y1, y2⟩) i, ?_, ?_⟩
    · rw [memA, ofV, comp_dot sq (@Iso3.act K (fieldNum K sq) m ⟨y0, y1, y2⟩) k]
      have e : @V3.dot K (fieldNum K sq) (@Iso3.act K (fieldNum K sq) m ⟨y0, y1, y2⟩) (bv k)
          = @V3.dot K (fieldNum K sq) (@Iso3.rot K (fieldNum K sq) m ⟨y0, y1, y2⟩) (bv k)
            + @V3.dot K (fieldNum K sq) m.t (bv k) := by
        simp only [Iso3.act, V3.add, V3.dot]; ring
      rw [e, rot_dot_invRot sq m _ _ h, ← comp_dot sq m.t k]
      have e2 : @V3.dot K (fieldNum K sq) ⟨y0, y1, y2⟩ (@Iso3.invRot K (fieldNum K sq) m (bv k))
          = comp (@Iso3.invRot K (fieldNum K sq) m (bv k)) 0 * y0
            + comp (@Iso3.invRot K (fieldNum K sq) m (bv k)) 1 * y1
            + comp (@Iso3.invRot K (fieldNum K sq) m (bv k)) 2 * y2 := by
        simp [V3.dot, comp]; ring
      rw [e2]
      rw [sub_neg_eq_add] at hs
      exact hs
    · intro l
      rw [memB, ofV, invAct_act sq m _ h]
      fin_cases l <;> simpa [comp] using ‹_›
  -- cuboid 1 meets slab l of cuboid 2
  have hB : ∀ l, ∃ p, p ∈ F (.inr l) ∧ ∀ k, p ∈ F (.inl k) := by
    intro l
    have HBl := HB l
    unfold FaceB at HBl
    rw [absDot_comp he1 _ h1] at HBl
    obtain ⟨x0, x1, x2, b0, b1, b2, hs⟩ := box_meets_slab (comp he1 0) (comp he1 1) (comp he1 2)
      (comp (fl l) 0) (comp (fl l) 1) (comp (fl l) 2) (@V3.dot K (fieldNum K sq) m.t (fl l)) (comp he2 l)
      (h1 0) (h1 1) (h1 2) (h2 l) HBl
    refine ⟨fun i => comp (⟨x0, x1, x2⟩ : V3 K) i, ?_, ?_⟩
    · rw [memB, ofV, invAct_comp sq m _ l h]
      have e : @V3.dot K (fieldNum K sq) (@V3.sub K (fieldNum K sq) ⟨x0, x1, x2⟩ m.t) (fl l)
          = comp (fl l) 0 * x0 + comp (fl l) 1 * x1 + comp (fl l) 2 * x2 - @V3.dot K (fieldNum K sq) m.t (fl l) := by
        simp [V3.dot, V3.sub, comp]; ring
      rw [show @Iso3.rot K (fieldNum K sq) m (bv l) = fl l from rfl, e]
      exact hs
    · intro k
      rw [memA, ofV]
      fin_cases k <;> simpa [comp] using ‹_›
  -- prisms
  have hE : ∀ k l, ∃ p, (∀ k', k' ≠ k → p ∈ F (.inl k')) ∧ (∀ l', l' ≠ l → p ∈ F (.inr l')) := by
    intro k l
    obtain ⟨p, hp1, hp2⟩ := HE k l
    refine ⟨fun i => comp p i, ?_, ?_⟩
    · intro k' hk'; rw [memA, ofV]; exact hp1 k' hk'
    · intro l' hl'; rw [memB, ofV]; exact hp2 l' hl'
  obtain ⟨p, hp⟩ := helly6_space F hconv hA hB hE
  refine ⟨@Iso3.invAct K (fieldNum K sq) m (toV p), ?_, ?_⟩
  · have q0 := (memB p 0).mp (hp (.inr 0))
    have q1 := (memB p 1).mp (hp (.inr 1))
    have q2 := (memB p 2).mp (hp (.inr 2))
    simp [comp] at q0 q1 q2
    rw [abs_le] at q0 q1 q2
    exact ⟨q0, q1, q2⟩
  · rw [iso3_invAct_act' sq m _ h]
    have q0 := (memA p 0).mp (hp (.inl 0))
    have q1 := (memA p 1).mp (hp (.inl 1))
    have q2 := (memA p 2).mp (hp (.inl 2))
    simp [comp, toV] at q0 q1 q2
    rw [abs_le] at q0 q1 q2
    exact ⟨q0, q1, q2⟩

/-- **An edge/edge axis that does not separate makes the two prisms meet.**  For the edge pair `(k, l)` with
`n = e_k × (pos12·e_l) ≠ 0`: if `n` does not separate the cuboids (`AxisOverlap`), the prism of cuboid 1 along `e_k`
meets the prism of cuboid 2 along its edge `l`. -/
theorem prismsMeet_of_edge (m : Iso3 K) (he1 he2 : V3 K) (k l : Fin 3) (h : Unit3 m)
    (h1 : ∀ k, 0 ≤ comp he1 k) (h2 : ∀ l, 0 ≤ comp he2 l) :
    letI := fieldNum K sq
    ((bv k : V3 K).cross (m.rot (bv l))).dot ((bv k : V3 K).cross (m.rot (bv l))) ≠ 0 →
    AxisOverlap sq he1 he2 m ((bv k : V3 K).cross (m.rot (bv l))) → PrismsMeet sq he1 he2 m k l := by
  intro hn H
  set n := @V3.cross K (fieldNum K sq) (bv k) (@Iso3.rot K (fieldNum K sq) m (bv l)) with hnd
  have cross_perp : ∀ a b : V3 K, @V3.dot K (fieldNum K sq) a (@V3.cross K (fieldNum K sq) a b) = 0 ∧
      @V3.dot K (fieldNum K sq) b (@V3.cross K (fieldNum K sq) a b) = 0 := by
    intro a b; simp only [V3.dot, V3.cross]; constructor <;> ring
  have dcomm : ∀ a b : V3 K, @V3.dot K (fieldNum K sq) a b = @V3.dot K (fieldNum K sq) b a := by
    intro a b; simp only [V3.dot]; ring
  have en : @V3.dot K (fieldNum K sq) (bv k) n = 0 := (cross_perp _ _).1
  have fn : @V3.dot K (fieldNum K sq) (@Iso3.rot K (fieldNum K sq) m (bv l)) n = 0 := (cross_perp _ _).2
  -- rewrite the overlap condition over the four remaining directions
  unfold AxisOverlap at H
  rw [absDot_comp he1 _ h1, absDot_comp he2 _ h2] at H
  have sA := split3 (fun i => comp he1 i) (fun i => comp n i) k (by
    show comp n k = 0
    rw [comp_dot sq, dcomm]; exact en)
  have sB := split3 (fun i => comp he2 i) (fun i => comp (@Iso3.invRot K (fieldNum K sq) m n) i) l (by
    show comp (@Iso3.invRot K (fieldNum K sq) m n) l = 0
    rw [comp_dot sq, invRot_dot_rot sq m _ _ h, dcomm]; exact fn)
  rw [sA, sB] at H
  have cA : ∀ j : Fin 3, comp n j = @V3.dot K (fieldNum K sq) (bv j) n := by
    intro j; rw [comp_dot sq, dcomm]
  have cB : ∀ j : Fin 3, comp (@Iso3.invRot K (fieldNum K sq) m n) j
      = @V3.dot K (fieldNum K sq) (@Iso3.rot K (fieldNum K sq) m (bv j)) n := by
    intro j; rw [comp_dot sq, invRot_dot_rot sq m _ _ h, dcomm]
  rw [cA, cA, cB, cB] at H
  obtain ⟨k1, k2, k12⟩ := fin3_ne k
  obtain ⟨l1, l2, l12⟩ := fin3_ne l
  obtain ⟨p, p1, p2, p3, p4⟩ := prisms_meet_abs sq (bv k) (bv (k + 1)) (bv (k + 2))
    (@Iso3.rot K (fieldNum K sq) m (bv l)) (@Iso3.rot K (fieldNum K sq) m (bv (l + 1)))
    (@Iso3.rot K (fieldNum K sq) m (bv (l + 2))) m.t (comp he1 (k + 1)) (comp he1 (k + 2))
    (comp he2 (l + 1)) (comp he2 (l + 2)) (h1 _) (h1 _) (h2 _) (h2 _)
    (by rw [bv_dot sq, if_neg k1]) (by rw [bv_dot sq, if_neg k2]) (by rw [bv_dot sq, if_pos rfl])
    (by rw [bv_dot sq, if_pos rfl]) (by rw [bv_dot sq, if_neg k12])
    (by rw [frame_dot sq m _ _ h, if_neg l1]) (by rw [frame_dot sq m _ _ h, if_neg l2])
    (by rw [frame_dot sq m _ _ h, if_pos rfl]) (by rw [frame_dot sq m _ _ h, if_pos rfl])
    (by rw [frame_dot sq m _ _ h, if_neg l12]) hn H
  refine ⟨p, ?_, ?_⟩
  · intro k' hk'
    rcases other_two k k' hk' with rfl | rfl
    · rw [comp_dot sq]; exact p1
    · rw [comp_dot sq]; exact p2
  · intro l' hl'
    rcases other_two l l' hl' with rfl | rfl
    · rw [invAct_comp sq m p _ h]; exact p3
    · rw [invAct_comp sq m p _ h]; exact p4

private theorem perm3 (g : Fin 3 → K) (k : Fin 3) : g 0 + g 1 + g 2 = g k + g (k + 1) + g (k + 2) := by
  fin_cases k <;> simp <;> ring

private theorem parseval_bv (k : Fin 3) (a b : V3 K) :
    letI := fieldNum K sq
    a.dot b = a.dot (bv k) * b.dot (bv k) + a.dot (bv (k + 1)) * b.dot (bv (k + 1))
      + a.dot (bv (k + 2)) * b.dot (bv (k + 2)) := by
  fin_cases k <;> simp [bv, V3.dot] <;> ring

private theorem cross_zero_perp (k : Fin 3) (f : V3 K) :
    letI := fieldNum K sq
    ((bv k : V3 K).cross f).dot ((bv k : V3 K).cross f) = 0 → f.dot (bv (k + 1)) = 0 ∧ f.dot (bv (k + 2)) = 0 := by
  fin_cases k <;> simp [bv, V3.dot, V3.cross] <;> intro h <;> constructor <;>
    nlinarith [mul_self_nonneg f.x, mul_self_nonneg f.y, mul_self_nonneg f.z]

/-- **Parallel edges**: when `e_k × (pos12·e_l) = 0` the two prisms are parallel and meet as soon as the four face
normals orthogonal to the common direction do not separate (the planar theorem on the cross-sections). -/
theorem prismsMeet_of_parallel (m : Iso3 K) (he1 he2 : V3 K) (k l : Fin 3) (h : Unit3 m)
    (h1 : ∀ k, 0 ≤ comp he1 k) (h2 : ∀ l, 0 ≤ comp he2 l) :
    letI := fieldNum K sq
    ((bv k : V3 K).cross (m.rot (bv l))).dot ((bv k : V3 K).cross (m.rot (bv l))) = 0 →
    FaceA sq he1 he2 m (k + 1) → FaceA sq he1 he2 m (k + 2) →
    FaceB sq he1 he2 m (l + 1) → FaceB sq he1 he2 m (l + 2) → PrismsMeet sq he1 he2 m k l := by
  intro hz A1 A2 B1 B2
  obtain ⟨fu1, fu2⟩ := cross_zero_perp sq k _ hz
  obtain ⟨l1, l2, l12⟩ := fin3_ne l
  have dcomm : ∀ a b : V3 K, @V3.dot K (fieldNum K sq) a b = @V3.dot K (fieldNum K sq) b a := by
    intro a b; simp only [V3.dot]; ring
  -- face conditions, summed in the order (l, l+1, l+2) resp. (k, k+1, k+2)
  have convA : ∀ j : Fin 3, FaceA sq he1 he2 m j →
      |@V3.dot K (fieldNum K sq) m.t (bv j)| ≤ comp he1 j +
        (comp he2 l * |@V3.dot K (fieldNum K sq) (@Iso3.rot K (fieldNum K sq) m (bv l)) (bv j)|
         + comp he2 (l + 1) * |@V3.dot K (fieldNum K sq) (@Iso3.rot K (fieldNum K sq) m (bv (l + 1))) (bv j)|
         + comp he2 (l + 2) * |@V3.dot K (fieldNum K sq) (@Iso3.rot K (fieldNum K sq) m (bv (l + 2))) (bv j)|) := by
    intro j hj
    unfold FaceA at hj
    rw [absDot_comp he2 _ h2, comp_dot sq m.t j] at hj
    have := perm3 (fun i => comp he2 i * |comp (@Iso3.invRot K (fieldNum K sq) m (bv j)) i|) l
    rw [this] at hj
    have cB : ∀ i : Fin 3, comp (@Iso3.invRot K (fieldNum K sq) m (bv j)) i
        = @V3.dot K (fieldNum K sq) (@Iso3.rot K (fieldNum K sq) m (bv i)) (bv j) := by
      intro i; rw [comp_dot sq, invRot_dot_rot sq m _ _ h, dcomm]
    rw [cB, cB, cB] at hj
    exact hj
  have convB : ∀ j : Fin 3, FaceB sq he1 he2 m j →
      |@V3.dot K (fieldNum K sq) m.t (@Iso3.rot K (fieldNum K sq) m (bv j))| ≤ comp he2 j +
        (comp he1 k * |@V3.dot K (fieldNum K sq) (@Iso3.rot K (fieldNum K sq) m (bv j)) (bv k)|
         + comp he1 (k + 1) * |@V3.dot K (fieldNum K sq) (@Iso3.rot K (fieldNum K sq) m (bv j)) (bv (k + 1))|
         + comp he1 (k + 2) * |@V3.dot K (fieldNum K sq) (@Iso3.rot K (fieldNum K sq) m (bv j)) (bv (k + 2))|) := by
    intro j hj
    unfold FaceB at hj
    rw [absDot_comp he1 _ h1] at hj
    have := perm3 (fun i => comp he1 i * |comp (@Iso3.rot K (fieldNum K sq) m (bv j)) i|) k
    rw [this, comp_dot sq (@Iso3.rot K (fieldNum K sq) m (bv j)) k,
      comp_dot sq (@Iso3.rot K (fieldNum K sq) m (bv j)) (k + 1),
      comp_dot sq (@Iso3.rot K (fieldNum K sq) m (bv j)) (k + 2)] at hj
    exact hj
  obtain ⟨p, p1, p2, p3, p4⟩ := prisms_meet_par sq (bv k) (bv (k + 1)) (bv (k + 2))
    (@Iso3.rot K (fieldNum K sq) m (bv l)) (@Iso3.rot K (fieldNum K sq) m (bv (l + 1)))
    (@Iso3.rot K (fieldNum K sq) m (bv (l + 2))) m.t (comp he1 k) (comp he1 (k + 1)) (comp he1 (k + 2))
    (comp he2 l) (comp he2 (l + 1)) (comp he2 (l + 2)) (h1 _) (h1 _) (h2 _) (h2 _)
    (parseval_bv sq k) fu1 fu2
    (by rw [frame_dot sq m _ _ h, if_pos rfl])
    (by rw [frame_dot sq m _ _ h, if_neg l1]) (by rw [frame_dot sq m _ _ h, if_neg l2])
    (by rw [frame_dot sq m _ _ h, if_pos rfl]) (by rw [frame_dot sq m _ _ h, if_pos rfl])
    (by rw [frame_dot sq m _ _ h, if_neg l12])
    (convA _ A1) (convA _ A2) (convB _ B1) (convB _ B2)
  refine ⟨p, ?_, ?_⟩
  · intro k' hk'
    rcases other_two k k' hk' with rfl | rfl
    · rw [comp_dot sq]; exact p1
    · rw [comp_dot sq]; exact p2
  · intro l' hl'
    rcases other_two l l' hl' with rfl | rfl
    · rw [invAct_comp sq m p _ h]; exact p3
    · rw [invAct_comp sq m p _ h]; exact p4

/-! ## Link to the code: `intersection_test_cuboid_cuboid` (dim3) -/

private theorem inverse_invRot' (m : Iso3 K) (v : V3 K) :
    letI := fieldNum K sq
    m.inverse.invRot v = m.rot v := by
  simp only [Iso3.inverse, Iso3.invRot, Iso3.rot, Iso3.qv, V3.neg, neg_neg]

private theorem realEps_pos :
    letI := fieldNum K sq
    (0 : K) < realEps := by
  show (0 : K) < ((mkRat 1 4503599627370496 : Rat) : K)
  have : (0 : Rat) < mkRat 1 4503599627370496 := by rw [Rat.mkRat_eq_div]; norm_num
  exact_mod_cast this

/-- the overlap condition is invariant under positive scaling of the axis -/
private theorem axisOverlap_of_sdiv (m : Iso3 K) (he1 he2 a : V3 K) (ρ : K) (hρ : 0 < ρ) :
    letI := fieldNum K sq
    AxisOverlap sq he1 he2 m (a.sdiv ρ) → AxisOverlap sq he1 he2 m a := by
  intro H
  unfold AxisOverlap at H ⊢
  have hsd : @Iso3.invRot K (fieldNum K sq) m (@V3.sdiv K (fieldNum K sq) a ρ)
      = @V3.sdiv K (fieldNum K sq) (@Iso3.invRot K (fieldNum K sq) m a) ρ := by
    simp only [Iso3.invRot, Iso3.rotQ, V3.add, V3.smul, V3.cross, V3.sdiv, fieldNum_two, V3.mk.injEq]
    refine ⟨?_, ?_, ?_⟩ <;> ring
  have hab : ∀ he w : V3 K, absDot he (@V3.sdiv K (fieldNum K sq) w ρ) = absDot he w / ρ := by
    intro he w
    simp only [absDot, V3.sdiv, abs_div, abs_of_pos hρ]; ring
  have hd : @V3.dot K (fieldNum K sq) m.t (@V3.sdiv K (fieldNum K sq) a ρ) = @V3.dot K (fieldNum K sq) m.t a / ρ := by
    simp only [V3.dot, V3.sdiv]; ring
  rw [hsd, hab, hab, hd, abs_div, abs_of_pos hρ, ← add_div] at H
  exact (div_le_div_iff_of_pos_right hρ).mp H

private theorem edge_mem (m : Iso3 K) (k l : Fin 3) :
    letI := fieldNum K sq
    (bv k : V3 K).cross (m.rot (bv l)) ∈ satEdgeAxes m := by
  rw [satEdgeAxes_table sq m]
  fin_cases k <;> fin_cases l <;> simp [bv]

/-- **Completeness of the fifteen axes** (`_partial`: the hypothesis `hgen` is the named gap).
If `intersection_test_cuboid_cuboid` returns `true` and each of the nine candidate edge axes `e_k × pos12·e_l` is
either exactly zero (parallel edges — the code skips it, rightly) or long enough to be tested by the code
(`norm > f64::EPSILON`), then some point of cuboid 2 (posed by `pos12`) lies in cuboid 1.  Axis-aligned and generic
rotations are both covered.
**Gap**: an edge pair whose cross product is non-zero but of norm `≤ EPSILON` (edges within `2e-16` rad of parallel)
is skipped by the code although it may be the only separating axis; `hgen` excludes exactly that. -/
theorem intersectionTestCuboidCuboid_true_partial (m : Iso3 K) (he1 he2 : V3 K) (h : Unit3 m) (hs : LawfulSqrt sq)
    (h1 : ∀ k, 0 ≤ comp he1 k) (h2 : ∀ l, 0 ≤ comp he2 l)
    (hgen : ∀ a ∈ @satEdgeAxes K (fieldNum K sq) m,
      @V3.dot K (fieldNum K sq) a a = 0 ∨ @realEps K (fieldNum K sq) < @V3.norm K (fieldNum K sq) a)
    (ht : @intersectionTestCuboidCuboid K (fieldNum K sq) m he1 he2 = true) :
    CuboidsMeet sq he1 he2 m := by
  unfold intersectionTestCuboidCuboid at ht
  simp only [] at ht
  by_cases hA : 0 < (@satNormalOneway K (fieldNum K sq) he1 he2 m).1
  · simp [hA] at ht
  by_cases hB : 0 < (@satNormalOneway K (fieldNum K sq) he2 he1 (@Iso3.inverse K (fieldNum K sq) m)).1
  · simp [hA, hB] at ht
  have hC : ¬ 0 < (@satEdgeTwoway K (fieldNum K sq) he1 he2 m).1 := by
    simp [hA, hB] at ht
    exact not_lt.mpr ht
  have hi : Unit3 (@Iso3.inverse K (fieldNum K sq) m) := by
    unfold Unit3 at h ⊢
    simp only [Iso3.inverse, Iso3.qv, V3.neg]
    linear_combination h
  rw [satNormalOneway_pos_iff] at hA hB
  obtain ⟨a0, a1, a2⟩ := normalSep_formula sq he1 he2 m h
  obtain ⟨b0, b1, b2⟩ := normalSep_formula sq he2 he1 _ hi
  rw [a0, a1, a2] at hA
  rw [b0, b1, b2, inverse_invRot', inverse_invRot', inverse_invRot'] at hB
  push Not at hA hB
  have HA : ∀ k, FaceA sq he1 he2 m k := by
    intro k
    unfold FaceA
    fin_cases k
    · have := hA.1; simp [comp, bv] at this ⊢; linarith
    · have := hA.2.1; simp [comp, bv] at this ⊢; linarith
    · have := hA.2.2; simp [comp, bv] at this ⊢; linarith
  have HB : ∀ l, FaceB sq he1 he2 m l := by
    intro l
    unfold FaceB
    have ti : ∀ j : Fin 3, comp (@Iso3.inverse K (fieldNum K sq) m).t j
        = -(@V3.dot K (fieldNum K sq) m.t (@Iso3.rot K (fieldNum K sq) m (bv j))) := by
      intro j
      show comp (@Iso3.invRot K (fieldNum K sq) m (@V3.neg K (fieldNum K sq) m.t)) j = _
      rw [comp_dot sq, invRot_dot_rot sq m _ _ h]
      simp only [V3.dot, V3.neg]; ring
    have t0 := ti 0; have t1 := ti 1; have t2 := ti 2
    simp only [comp, Matrix.cons_val_zero, Matrix.cons_val_one, Matrix.cons_val] at t0 t1 t2
    fin_cases l
    · have := hB.1; rw [t0, abs_neg] at this; simp [comp, bv] at this ⊢; linarith
    · have := hB.2.1; rw [t1, abs_neg] at this; simp [comp, bv] at this ⊢; linarith
    · have := hB.2.2; rw [t2, abs_neg] at this; simp [comp, bv] at this ⊢; linarith
  apply cuboids_meet_of_quadruples sq m he1 he2 h h1 h2 HA HB
  intro k l
  have hmem := edge_mem sq m k l
  rcases hgen _ hmem with hzero | hlong
  · exact prismsMeet_of_parallel sq m he1 he2 k l h h1 h2 hzero (HA _) (HA _) (HB _) (HB _)
  have hne : ¬ EdgeSep sq he1 he2 m (@V3.cross K (fieldNum K sq) (bv k) (@Iso3.rot K (fieldNum K sq) m (bv l))) := by
    intro hE
    exact hC ((satEdgeTwoway_pos_iff sq he1 he2 m).mpr ⟨_, hmem, hE⟩)
  unfold EdgeSep at hne
  have hsep := not_lt.mp (fun hp => hne ⟨hlong, hp⟩)
  rw [satSepLine_fst sq he1 he2 m _ h] at hsep
  have hρ : 0 < @V3.norm K (fieldNum K sq)
      (@V3.cross K (fieldNum K sq) (bv k) (@Iso3.rot K (fieldNum K sq) m (bv l))) :=
    lt_trans (realEps_pos sq) hlong
  apply prismsMeet_of_edge sq m he1 he2 k l h h1 h2
  · intro h0
    have : @V3.norm K (fieldNum K sq) (@V3.cross K (fieldNum K sq) (bv k) (@Iso3.rot K (fieldNum K sq) m (bv l)))
        = sq 0 := by
      show sq _ = sq 0
      rw [show @V3.normSq K (fieldNum K sq) _ = @V3.dot K (fieldNum K sq) _ _ from rfl, h0]
    rw [this] at hρ
    have := hs.sq_mul 0 le_rfl
    have : sq 0 = 0 := by
      rcases mul_eq_zero.mp this with h | h <;> exact h
    rw [this] at hρ
    exact lt_irrefl _ hρ
  · apply axisOverlap_of_sdiv sq m he1 he2 _ _ hρ
    unfold AxisOverlap
    linarith

/-- the hypotheses are satisfiable: an axis-aligned pose (every edge axis is zero or a unit vector) -/
example : Unit3 (⟨0, 0, 0, 1, ⟨1, -2, 3⟩⟩ : Iso3 ℚ) ∧
    ∀ a ∈ @satEdgeAxes ℚ (fieldNum ℚ id) (⟨0, 0, 0, 1, ⟨1, -2, 3⟩⟩ : Iso3 ℚ),
      @V3.dot ℚ (fieldNum ℚ id) a a = 0 ∨ @realEps ℚ (fieldNum ℚ id) < @V3.norm ℚ (fieldNum ℚ id) a := by
  refine ⟨by unfold Unit3; norm_num, ?_⟩
  intro a ha
  simp only [satEdgeAxes, Iso3.rot, Iso3.rotQ, Iso3.qv, V3.cross, V3.add, V3.smul, fieldNum_two,
    List.mem_cons, List.not_mem_nil, or_false] at ha
  have he : @realEps ℚ (fieldNum ℚ id) = (mkRat 1 4503599627370496 : ℚ) := rfl
  have hn : ∀ v : V3 ℚ, @V3.norm ℚ (fieldNum ℚ id) v = v.x * v.x + v.y * v.y + v.z * v.z := fun _ => rfl
  rcases ha with rfl | rfl | rfl | rfl | rfl | rfl | rfl | rfl | rfl <;>
    first
    | (left; simp only [V3.dot]; norm_num; done)
    | (right; rw [he, hn, Rat.mkRat_eq_div]; norm_num)

/-- the statement without the EPSILON hypothesis — NOT expected to hold (see the gap above); kept to name the gap -/
def intersectionTestCuboidCuboid_true_full : Prop :=
  ∀ (m : Iso3 K) (he1 he2 : V3 K), Unit3 m → LawfulSqrt sq → (∀ k, 0 ≤ comp he1 k) → (∀ l, 0 ≤ comp he2 l) →
    @intersectionTestCuboidCuboid K (fieldNum K sq) m he1 he2 = true → CuboidsMeet sq he1 he2 m

end C03
