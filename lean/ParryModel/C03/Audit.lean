import ParryModel.C03.Theorems
#print axioms C03.contact_flipped_flipped
